/-
  Model of src/pdsh/cbuf.c (LSD-Tools circular buffer), field for field.

  C `int` values are `Nat` where cbuf_is_valid keeps them non-negative and `Int`
  for the caller-supplied lengths / line counts (which may be -1 or invalid).
  `data` has size+1 cells (one sentinel cell keeps full and empty distinct).
  The replay region (i_rep, got_wrap) is modelled; replay / rewind / *_to_fd / copy / move are
  at the end of the file (replay_line / rewind_line are not modelled).
-/
import PdshVerif.Gen.Cbuf

namespace PdshVerif.Cbuf

inductive Mode where
  | noDrop | wrapOnce | wrapMany
  deriving DecidableEq, Repr, Inhabited

def Mode.ofNat? (n : Nat) : Option Mode :=
  if n = Gen.CBUF_NO_DROP then some .noDrop
  else if n = Gen.CBUF_WRAP_ONCE then some .wrapOnce
  else if n = Gen.CBUF_WRAP_MANY then some .wrapMany
  else none

structure Cbuf where
  alloc   : Nat
  minsize : Nat
  maxsize : Nat
  size    : Nat
  used    : Nat
  mode    : Mode
  gotWrap : Bool
  iIn     : Nat
  iOut    : Nat
  iRep    : Nat
  data    : Array UInt8          -- size + 1 cells
  deriving Repr, Inhabited

/-- `cbuf_create`; `meta` = 1 (sentinel) in the shipped NDEBUG build, 1 + 2*sizeof(long)
    when assertions are compiled in (magic cookies). -/
def create (minsize maxsize : Int) (sizeMeta : Nat) : Option Cbuf :=
  if minsize ≤ 0 then none
  else
    let mn := minsize.toNat
    let mx := if maxsize > minsize then maxsize.toNat else mn
    some { alloc := mn + sizeMeta, minsize := mn, maxsize := mx, size := mn, used := 0,
           mode := .wrapMany, gotWrap := false, iIn := 0, iOut := 0, iRep := 0,
           data := Array.replicate (mn + 1) 0 }

/-- circular store of a byte list starting at cell `start` (cells are taken mod `m`). -/
def circWrite (d : Array UInt8) (m start : Nat) : List UInt8 → Array UInt8
  | [] => d
  | b :: bs => circWrite (d.setIfInBounds (start % m) b) m (start % m + 1) bs

/-- circular load of `n` cells starting at `start`. -/
def circRead (d : Array UInt8) (m start : Nat) : Nat → List UInt8
  | 0 => []
  | n + 1 => d.getD (start % m) 0 :: circRead d m (start % m + 1) n

/-- The growth POLICY of `cbuf_grow`: the allocation it asks `realloc` for -- a function of the
    current allocation, the number of bytes needed and the size bounds -- before the result is
    capped at `maxsize + size_meta`.  The property does not constrain it; the proofs need exactly
    `Admissible`. -/
abbrev Policy := (alloc needed minsize maxsize : Nat) → Nat

/-- the policy of the code as it is: "Attempt to grow data buffer by multiples of the chunk-size",
    `m = alloc + n;  m = m + (CBUF_CHUNK - (m % CBUF_CHUNK))` -/
@[simp] def chunkPolicy : Policy := fun alloc n _ _ =>
  alloc + n + (Gen.CBUF_CHUNK - (alloc + n) % Gen.CBUF_CHUNK)

/-- decidable admissibility of one choice: the request covers what is needed -/
def Policy.admAt (pol : Policy) (alloc n mn mx : Nat) : Bool := decide (alloc + n ≤ pol alloc n mn mx)

/-- what every theorem about the buffer needs of a growth policy (and nothing else): it asks for at
    least the bytes needed; `cbuf_grow` itself caps the request at the maximum.  Together: after a
    growth step the request fits or the buffer is at its maximum size ("grow before you lose"). -/
class Admissible (pol : Policy) : Prop where
  enough : ∀ alloc n mn mx, alloc + n ≤ pol alloc n mn mx

instance chunk_admissible : Admissible chunkPolicy := ⟨fun alloc n _ _ => by simp only [chunkPolicy]; omega⟩

theorem admAt_of_admissible (pol : Policy) [h : Admissible pol] (alloc n mn mx : Nat) :
    pol.admAt alloc n mn mx = true := by simp [Policy.admAt, h.enough]

/-- "do what was observed": the policy that chooses the allocation belonging to the capacity
    `sObs` an implementation reported after the call (when that choice covers the request, or is
    the maximum), and `base` otherwise.  Admissible whenever `base` is (`pin_admissible`), so the
    theorems apply to a model that follows the observed choices of the code under test. -/
def pinPolicy (base : Policy) (sizeMeta sObs : Nat) : Policy := fun alloc n mn mx =>
  if sObs = mx then max (base alloc n mn mx) (mx + sizeMeta)
  else if alloc + n ≤ sObs + sizeMeta then sObs + sizeMeta else base alloc n mn mx

instance pin_admissible (base : Policy) [h : Admissible base] (sizeMeta sObs : Nat) :
    Admissible (pinPolicy base sizeMeta sObs) :=
  ⟨fun alloc n mn mx => by
    have := h.enough alloc n mn mx
    simp only [pinPolicy]
    split
    · omega
    · split <;> omega⟩

/-- `cbuf_grow`.  Returns the new buffer and the number of bytes gained. -/
def grow (c : Cbuf) (n : Nat) (pol : Policy := chunkPolicy) : Cbuf × Nat :=
  if c.size = c.maxsize then (c, 0)
  else
    let sizeOld := c.size
    let sizeMeta := c.alloc - c.size
    let m1 := pol c.alloc n c.minsize c.maxsize
    let m := min m1 (c.maxsize + sizeMeta)
    let size' := m - sizeMeta
    -- realloc: old cells keep their content, new cells are unspecified (0 in the model)
    let data0 := c.data ++ Array.replicate (size' - sizeOld) 0
    if c.iRep > c.iIn then
      let k := (sizeOld + 1) - c.iRep
      let mm := (size' + 1) - k
      let moved := circRead c.data (sizeOld + 1) c.iRep k   -- contiguous: iRep + k = sizeOld + 1
      let data1 := circWrite data0 (size' + 1) mm moved
      let iOut' := if c.iOut ≥ c.iRep then c.iOut + (mm - c.iRep) else c.iOut
      ({ c with alloc := m, size := size', data := data1, iOut := iOut', iRep := mm }, size' - sizeOld)
    else
      ({ c with alloc := m, size := size', data := data0 }, size' - sizeOld)

/-- data source of `cbuf_writer`: memory always delivers; a descriptor delivers what is
    available, then 0 at EOF or -1 (EAGAIN / error) -/
inductive Src where
  | mem (bytes : List UInt8)
  | fd (avail : List UInt8) (eof : Bool)
  deriving Repr

/-- one `getf(dst, src, n)` call: returns (m, bytes delivered, src') -/
def Src.get (s : Src) (n : Nat) : Int × List UInt8 × Src :=
  match s with
  | .mem bs => (n, bs.take n, .mem (bs.drop n))
  | .fd av eof =>
    if av.isEmpty then (if eof then 0 else -1, [], s)
    else
      let k := min n av.length
      (k, av.take k, .fd (av.drop k) eof)

/-- the copy loop of `cbuf_writer`: (data, iDst, nleft, src, last m) -/
def writerLoop (size : Nat) : Nat → Array UInt8 → Nat → Nat → Src → Int →
    Array UInt8 × Nat × Nat × Src × Int
  | 0, d, iDst, nleft, src, m => (d, iDst, nleft, src, m)
  | fuel + 1, d, iDst, nleft, src, m =>
    if nleft = 0 then (d, iDst, nleft, src, m)
    else
      let n := min nleft ((size + 1) - iDst)
      let (m', bytes, src') := src.get n
      if m' > 0 then
        let d' := circWrite d (size + 1) iDst bytes
        let nleft' := nleft - bytes.length
        let iDst' := (iDst + bytes.length) % (size + 1)
        if (n : Int) ≠ m' then (d', iDst', nleft', src', m')
        else writerLoop size fuel d' iDst' nleft' src' m'
      else (d, iDst, nleft, src', m')

structure WResult where
  ret      : Int
  ndropped : Nat
  c        : Cbuf
  src      : Src

/-- "Attempt to grow dst cbuf if necessary": returns the buffer and `nfree` as the C code computes it -/
def maybeGrow (c0 : Cbuf) (len0 : Nat) (pol : Policy := chunkPolicy) : Cbuf × Nat :=
  let nfree0 := c0.size - c0.used
  if len0 > nfree0 ∧ c0.size < c0.maxsize then
    let (c1, g) := grow c0 (len0 - nfree0) pol
    (c1, nfree0 + g)
  else (c0, nfree0)

/-- "Compute number of bytes to write to dst cbuf": `none` = ENOSPC -/
def effLen (c : Cbuf) (len0 : Nat) : Option Nat :=
  match c.mode with
  | .noDrop => let l := min len0 (c.size - c.used); if l = 0 then none else some l
  | .wrapOnce => some (min len0 c.size)
  | .wrapMany => some len0

/-- "Update dst cbuf metadata" after `n > 0` bytes were stored ending before cell `iDst` -/
def commit (c : Cbuf) (nfree : Nat) (d : Array UInt8) (iDst n : Nat) : Cbuf :=
  let nrepl := (c.iOut + (c.size + 1) - c.iRep) % (c.size + 1)
  let used' := min (c.used + n) c.size
  let wrap := decide (n + nrepl > nfree)            -- n > nfree - nrepl  (C ints)
  let iRep' := if wrap then (iDst + 1) % (c.size + 1) else c.iRep
  let iOut' := if n > nfree then iRep' else c.iOut
  { c with data := d, used := used', iIn := iDst,
           gotWrap := c.gotWrap || wrap, iRep := iRep', iOut := iOut' }

/-- `cbuf_writer` (len > 0). -/
def writer (c0 : Cbuf) (len0 : Nat) (src : Src) (pol : Policy := chunkPolicy) : WResult :=
  let (c, nfree) := maybeGrow c0 len0 pol
  match effLen c len0 with
  | none => { ret := -1, ndropped := 0, c := c, src := src }
  | some len =>
    let (d, iDst, nleft, src', m) := writerLoop c.size (len + 1) c.data c.iIn len src 0
    let n := len - nleft
    if n = 0 then { ret := m, ndropped := 0, c := { c with data := d }, src := src' }
    else { ret := n, ndropped := n - nfree, c := commit c nfree d iDst n, src := src' }

/-- `cbuf_dropper` (0 < len ≤ used); `cbuf_shrink` is a no-op in this code base. -/
def dropper (c : Cbuf) (len : Nat) : Cbuf :=
  { c with used := c.used - len, iOut := (c.iOut + len) % (c.size + 1) }

/-- `cbuf_reader` into memory (never short): the first `min len used` unread bytes. -/
def reader (c : Cbuf) (len : Nat) : List UInt8 :=
  circRead c.data (c.size + 1) c.iOut (min len c.used)

/-- the scan loop of `cbuf_find_unread_line`: returns (m, l, lines). `chars`/`lines` are the C ints. -/
def findLoop (d : Array UInt8) (size iIn : Nat) : Nat → Nat → Nat → Int → Int → Nat → Nat → Nat × Nat × Int
  | 0, _, _, _, lines, m, l => (m, l, lines)
  | fuel + 1, i, n, chars, lines, m, l =>
    if i = iIn then (m, l, lines)
    else
      let n := n + 1
      let chars := if chars > 0 then chars - 1 else chars
      let isNl := d.getD i 0 = 10
      let lines := if isNl ∧ lines > 0 then lines - 1 else lines
      let m := if isNl then n else m
      let l := if isNl then l + 1 else l
      if chars = 0 ∨ lines = 0 then (m, l, lines)
      else findLoop d size iIn fuel ((i + 1) % (size + 1)) n chars lines m l

/-- `cbuf_find_unread_line`: returns (bytes, nlines-out). -/
def findUnreadLine (c : Cbuf) (chars lines : Int) : Nat × Nat :=
  if lines = 0 ∨ (lines ≤ -1 ∧ chars ≤ 0) then (0, 0)
  else if c.used = 0 then (0, 0)
  else
    let chars := if lines > 0 then -1 else chars
    let (m, l, lines') := findLoop c.data c.size c.iIn (c.size + 2) c.iOut 0 chars lines 0 0
    if lines' > 0 then (0, 0) else (m, l)

/-! ### public entry points (return value first) -/

def lenNat (c : Cbuf) (len : Int) : Nat := if len = -1 then c.used else min len.toNat c.used

def drop (c : Cbuf) (len : Int) : Int × Cbuf :=
  if len < -1 then (-1, c)
  else if len = 0 then (0, c)
  else
    let l := lenNat c len
    if l > 0 then (l, dropper c l) else (l, c)

def peek (c : Cbuf) (len : Int) : Int × List UInt8 :=
  if len < 0 then (-1, [])
  else if len = 0 then (0, [])
  else let bs := reader c len.toNat; (bs.length, bs)

def read (c : Cbuf) (len : Int) : Int × List UInt8 × Cbuf :=
  if len < 0 then (-1, [], c)
  else if len = 0 then (0, [], c)
  else
    let bs := reader c len.toNat
    (bs.length, bs, if bs.length > 0 then dropper c bs.length else c)

def write (c : Cbuf) (bs : List UInt8) (pol : Policy := chunkPolicy) : Int × Nat × Cbuf :=
  if bs.length = 0 then (0, 0, c)
  else let r := writer c bs.length (.mem bs) pol; (r.ret, r.ndropped, r.c)

/-- `cbuf_write_from_fd(dst, fd, len, &ndropped)` on a descriptor that currently holds `avail`
    (and is at EOF afterwards iff `eof`). -/
def writeFromFd (c : Cbuf) (len : Int) (avail : List UInt8) (eof : Bool) (pol : Policy := chunkPolicy) :
    Int × Nat × Cbuf :=
  if len < -1 then (-1, 0, c)
  else
    let l : Nat :=
      if len = -1 then
        let f := c.size - c.used
        if f = 0 then min c.size Gen.CBUF_CHUNK else f
      else len.toNat
    if l > 0 then
      let r := writer c l (.fd avail eof) pol
      (r.ret, r.ndropped, r.c)
    else (0, 0, c)

/-- common part of peek_line/read_line: (n, bytes stored before the NUL, or none when nothing is stored) -/
def lineGet (c : Cbuf) (len lines : Int) : Nat × Option (List UInt8) :=
  let (n, _) := findUnreadLine c (len - 1) lines
  if n > 0 then
    if len > 0 then
      let m := min n (len.toNat - 1)
      (n, some (reader c m))
    else (n, none)
  else (n, none)

def peekLine (c : Cbuf) (len lines : Int) : Int × Option (List UInt8) :=
  if len < 0 ∨ lines < -1 then (-1, none)
  else if lines = 0 then (0, none)
  else let (n, o) := lineGet c len lines; (n, o)

def readLine (c : Cbuf) (len lines : Int) : Int × Option (List UInt8) × Cbuf :=
  if len < 0 ∨ lines < -1 then (-1, none, c)
  else if lines = 0 then (0, none, c)
  else
    let (n, o) := lineGet c len lines
    (n, o, if n > 0 then dropper c n else c)

def dropLine (c : Cbuf) (len lines : Int) : Int × Cbuf :=
  if len < 0 ∨ lines < -1 then (-1, c)
  else if lines = 0 then (0, c)
  else
    let (n, _) := findUnreadLine c len lines
    (n, if n > 0 then dropper c n else c)

def linesUsed (c : Cbuf) : Nat := (findUnreadLine c c.size (-1)).2

/-- `cbuf_write_line`: "Determine if src will fit (or be made to fit) in dst cbuf" -/
def lineRefused (c : Cbuf) (len : Nat) : Bool :=
  match c.mode with
  | .noDrop => decide (len > c.size - c.used)
  | .wrapOnce => decide (len > c.size)
  | .wrapMany => false

/-- `cbuf_write_line` on a NUL-free string. -/
def writeLine (c0 : Cbuf) (s : List UInt8) (pol : Policy := chunkPolicy) : Int × Nat × Cbuf :=
  let ncopy0 := s.length
  let needNl := s.length = 0 ∨ s.getLast? ≠ some 10
  let len := if needNl then s.length + 1 else s.length
  let nfree0 := c0.size - c0.used
  let c := if len > nfree0 ∧ c0.size < c0.maxsize then (grow c0 (len - nfree0) pol).1 else c0
  if lineRefused c len then (-1, 0, c)
  else
    let ndrop0 := if len > c.size then len - c.size else 0
    let ncopy := ncopy0 - ndrop0
    let psrc := s.drop ndrop0
    let (c1, d1) :=
      if ncopy > 0 then
        let r := writer c ncopy (.mem psrc) pol; (r.c, r.ndropped)
      else (c, 0)
    let (c2, d2) :=
      if needNl then
        let r := writer c1 1 (.mem [10]) pol; (r.c, r.ndropped)
      else (c1, 0)
    (len, ndrop0 + d1 + d2, c2)

def flush (c : Cbuf) : Cbuf :=
  { c with used := 0, gotWrap := false, iIn := 0, iOut := 0, iRep := 0 }

def optSet (c : Cbuf) (v : Nat) : Int × Cbuf :=
  match Mode.ofNat? v with
  | some m => (0, { c with mode := m })
  | none => (-1, c)

/-- the unread bytes, oldest first (abstraction function towards the FIFO spec). -/
def contents (c : Cbuf) : List UInt8 := circRead c.data (c.size + 1) c.iOut c.used

/-! ### replay region: bytes already read (or dropped) that are still in the buffer -/

/-- number of replayable bytes, `(i_out - i_rep + (size + 1)) % (size + 1)` -/
def reused (c : Cbuf) : Nat := (c.iOut + (c.size + 1) - c.iRep) % (c.size + 1)

/-- the replayable bytes, oldest first (second component of the abstraction) -/
def hist (c : Cbuf) : List UInt8 := circRead c.data (c.size + 1) c.iRep (reused c)

/-- `cbuf_replayer` into memory (len > 0): the newest `min len reused` replayable bytes -/
def replayer (c : Cbuf) (len : Nat) : List UInt8 :=
  let n := min len (reused c)
  circRead c.data (c.size + 1) ((c.iOut + (c.size + 1) - n) % (c.size + 1)) n

def replay (c : Cbuf) (len : Int) : Int × List UInt8 :=
  if len < 0 then (-1, [])
  else if len = 0 then (0, [])
  else let bs := replayer c len.toNat; (bs.length, bs)

def rewind (c : Cbuf) (len : Int) : Int × Cbuf :=
  if len < -1 then (-1, c)
  else if len = 0 then (0, c)
  else
    let n := if len = -1 then reused c else min len.toNat (reused c)
    if n > 0 then
      (n, { c with used := c.used + n, iOut := (c.iOut + (c.size + 1) - n) % (c.size + 1) })
    else (n, c)

/-! ### descriptor sinks: `cbuf_put_fd` on a descriptor that takes `cap` more bytes and then
    fails (EAGAIN).  The two-chunk copy loop of cbuf_reader / cbuf_replayer is collapsed:
    it delivers `min len cap` bytes in order, or reports the failed write when none went out. -/

def lenFd (c : Cbuf) (len : Int) : Nat := if len = -1 then c.used else len.toNat

/-- `cbuf_reader(src, len, cbuf_put_fd, &fd)` for len > 0: (ret, bytes written to the descriptor) -/
def readerFd (c : Cbuf) (len cap : Nat) : Int × List UInt8 :=
  let l := min len c.used
  if l = 0 then (0, [])
  else if cap = 0 then (-1, [])
  else let bs := reader c (min l cap); (bs.length, bs)

def peekToFd (c : Cbuf) (len : Int) (cap : Nat) : Int × List UInt8 :=
  if len < -1 then (-1, [])
  else
    let l := lenFd c len
    if l > 0 then readerFd c l cap else (0, [])

def readToFd (c : Cbuf) (len : Int) (cap : Nat) : Int × List UInt8 × Cbuf :=
  if len < -1 then (-1, [], c)
  else
    let l := lenFd c len
    if l > 0 then
      let (n, bs) := readerFd c l cap
      (n, bs, if n > 0 then dropper c bs.length else c)
    else (0, [], c)

/-- `cbuf_replayer(src, len, cbuf_put_fd, &fd)` for len > 0 -/
def replayerFd (c : Cbuf) (len cap : Nat) : Int × List UInt8 :=
  let l := min len (reused c)
  if l = 0 then (0, [])
  else if cap = 0 then (-1, [])
  else
    let bs := circRead c.data (c.size + 1) ((c.iOut + (c.size + 1) - l) % (c.size + 1)) (min l cap)
    (bs.length, bs)

/-- `cbuf_replay_to_fd`: a length of -1 means `size - used` here -/
def replayToFd (c : Cbuf) (len : Int) (cap : Nat) : Int × List UInt8 :=
  if len < -1 then (-1, [])
  else
    let l := if len = -1 then c.size - c.used else len.toNat
    if l > 0 then replayerFd c l cap else (0, [])

/-! ### buffer to buffer -/

/-- the store and the metadata update of `cbuf_copier` for an effective length `len`;
    "prevents copying data that will be overwritten if the cbuf wraps multiple times" -/
def copyStore (src d : Cbuf) (nfree len : Nat) : Cbuf :=
  let skip := if len > d.size then len - d.size else 0
  let ncopy := len - skip
  let bytes := circRead src.data (src.size + 1) ((src.iOut + skip) % (src.size + 1)) ncopy
  let data' := circWrite d.data (d.size + 1) d.iIn bytes
  let iDst := (d.iIn + ncopy) % (d.size + 1)
  if ncopy > 0 then commit d nfree data' iDst ncopy else d

/-- `cbuf_copier(src, dst, len, &ndropped)` for len > 0: (ret, ndropped, dst') -/
def copier (src dst : Cbuf) (len0 : Nat) (pol : Policy := chunkPolicy) : Int × Nat × Cbuf :=
  let l0 := min len0 src.used
  if l0 = 0 then (0, 0, dst)
  else
    let (d, nfree) := maybeGrow dst l0 pol
    match effLen d l0 with
    | none => (-1, 0, d)
    | some len => (len, len - (d.size - d.used), copyStore src d nfree len)

/-- `cbuf_copy(src, dst, len, &ndropped)` (src ≠ dst) -/
def copy (src dst : Cbuf) (len : Int) (pol : Policy := chunkPolicy) : Int × Nat × Cbuf :=
  if len < -1 then (-1, 0, dst)
  else if len = 0 then (0, 0, dst)
  else
    let l := lenFd src len
    if l > 0 then copier src dst l pol else (0, 0, dst)

/-- `cbuf_move(src, dst, len, &ndropped)` (src ≠ dst): (ret, ndropped, src', dst') -/
def move (src dst : Cbuf) (len : Int) (pol : Policy := chunkPolicy) : Int × Nat × Cbuf × Cbuf :=
  if len < -1 then (-1, 0, src, dst)
  else if len = 0 then (0, 0, src, dst)
  else
    let l := lenFd src len
    if l > 0 then
      let (n, d, dst') := copier src dst l pol
      (n, d, if n > 0 then dropper src n.toNat else src, dst')
    else (0, 0, src, dst)

end PdshVerif.Cbuf
