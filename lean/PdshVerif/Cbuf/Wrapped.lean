/-
  `got_wrap` under the writing operations of the public API, in the specification's terms
  (`Spec.wrappedAfterWrite`).
-/
import PdshVerif.Cbuf.Replay

namespace PdshVerif.Cbuf

theorem wrapped_unchanged {c : Cbuf} (hi : Inv c) (sz : Nat) (hs : c.size ≤ sz) :
    (c.gotWrap || decide ((hist c).length + (contents c).length + 0 > sz)) = c.gotWrap := by
  have := (reused_facts hi).1
  have : ¬ ((hist c).length + (contents c).length > sz) := by
    rw [hist_length, contents_length]; omega
  simp only [Nat.add_zero, this, decide_false, Bool.or_false]

theorem write_gotWrap {c : Cbuf} (hi : Inv c) (bs : List UInt8) (pol : Policy := chunkPolicy) [Admissible pol] :
    (write c bs pol).2.2.gotWrap =
      Spec.wrappedAfterWrite (absR c) (write c bs pol).1.toNat (abs (write c bs pol).2.2) := by
  unfold Spec.wrappedAfterWrite
  simp only [absR_wrapped, absR_hist, absR_f, abs_q, abs_size]
  unfold write
  by_cases h : bs.length = 0
  · simp only [h, if_true, Int.toNat_zero]
    exact (wrapped_unchanged hi c.size (Nat.le_refl _)).symm
  · simp only [h, if_false, hist_length, contents_length]
    exact writer_gotWrap hi bs.length (by omega) (.mem bs) (by simp [Src.ok]) pol

theorem writeFromFd_gotWrap {c : Cbuf} (hi : Inv c) (len : Int) (av : List UInt8) (eof : Bool)
    (pol : Policy := chunkPolicy) [Admissible pol] :
    (writeFromFd c len av eof pol).2.2.gotWrap =
      Spec.wrappedAfterWrite (absR c) (writeFromFd c len av eof pol).1.toNat (abs (writeFromFd c len av eof pol).2.2) := by
  unfold Spec.wrappedAfterWrite
  simp only [absR_wrapped, absR_hist, absR_f, abs_q, abs_size]
  have hm1 : ((-1 : Int)).toNat = 0 := rfl
  unfold writeFromFd
  by_cases h : len < -1
  · simp only [h, if_true, hm1]
    exact (wrapped_unchanged hi c.size (Nat.le_refl _)).symm
  · simp only [h, if_false]
    generalize (if len = -1 then (if c.size - c.used = 0 then min c.size Gen.CBUF_CHUNK else c.size - c.used)
        else len.toNat) = l
    by_cases hl : l > 0
    · simp only [hl, if_true, hist_length, contents_length]
      exact writer_gotWrap hi l hl (.fd av eof) trivial pol
    · simp only [hl, if_false, Int.toNat_zero]
      exact (wrapped_unchanged hi c.size (Nat.le_refl _)).symm

/-- `cbuf_write_line` -/
theorem writeLine_gotWrap {c : Cbuf} (hi : Inv c) (s : List UInt8) (pol : Policy := chunkPolicy) [Admissible pol] :
    (writeLine c s pol).2.2.gotWrap =
      Spec.wrappedAfterWrite (absR c)
        (if (writeLine c s pol).1 < 0 then 0 else
          min (if s.length = 0 ∨ s.getLast? ≠ some 10 then s ++ [10] else s).length (writeLine c s pol).2.2.size)
        (abs (writeLine c s pol).2.2) := by
  unfold Spec.wrappedAfterWrite
  simp only [absR_wrapped, absR_hist, absR_f, abs_q, abs_size, hist_length, contents_length]
  exact (writeLine_refines hi s pol).2.2.2

/-- `cbuf_copier` (stated for any name `r` of the result): it stores at most `size` bytes -/
theorem copier_gotWrap' {src dst : Cbuf} (hd : Inv dst) (len0 : Nat) (pol : Policy) [Admissible pol]
    (r : Int × Nat × Cbuf) (hr : copier src dst len0 pol = r) :
    r.2.2.gotWrap = (dst.gotWrap || decide (reused dst + dst.used + min r.1.toNat r.2.2.size > r.2.2.size)) := by
  have hsum0 := (reused_facts hd).1
  unfold copier at hr
  by_cases h0 : min len0 src.used = 0
  · simp only [h0, if_true] at hr
    subst hr
    have : decide (reused dst + dst.used + min (0 : Int).toNat dst.size > dst.size) = false := by
      simp only [Int.toNat_zero, decide_eq_false_iff_not]; omega
    rw [this, Bool.or_false]
  · simp only [h0, if_false] at hr
    have hg := maybeGrow_ok hd (min len0 src.used) pol
    obtain ⟨hgw, hgr⟩ := maybeGrow_meta hd (min len0 src.used) pol
    generalize maybeGrow dst (min len0 src.used) pol = p at hg hgw hgr hr
    obtain ⟨d, nfree⟩ := p
    simp only at hg hgw hgr hr
    have hdi := hg.inv
    have hsum := (reused_facts hdi).1
    have hdu := hg.used
    have hdsp := hdi.spos
    have hduse := hdi.used
    cases hel : effLen d (min len0 src.used) with
    | none =>
      rw [hel] at hr
      simp only at hr
      subst hr
      have hm1 : ((-1 : Int)).toNat = 0 := rfl
      have : decide (reused dst + dst.used + min ((-1 : Int)).toNat d.size > d.size) = false := by
        simp only [hm1, decide_eq_false_iff_not]; omega
      rw [this, Bool.or_false]
      exact hgw
    | some len =>
      rw [hel] at hr
      simp only at hr
      subst hr
      have hlpos : 0 < len := by
        unfold effLen at hel
        split at hel
        · simp only at hel; split at hel <;> simp at hel; omega
        · simp at hel; omega
        · simp at hel; omega
      simp only [Int.toNat_natCast]
      unfold copyStore
      simp only
      generalize hsk : (if len > d.size then len - d.size else 0) = skip
      have hnc : len - skip > 0 := by rw [← hsk]; split <;> omega
      have hmin : len - skip = min len d.size := by rw [← hsk]; split <;> omega
      simp only [hnc, if_true]
      have hw : ∀ dd i, (commit d nfree dd i (len - skip)).gotWrap =
          (d.gotWrap || decide (len - skip + reused d > nfree)) := fun _ _ => rfl
      have hs : ∀ dd i, (commit d nfree dd i (len - skip)).size = d.size := fun _ _ => rfl
      rw [hw, hs, hgw, hmin]
      have hnf := hg.nfree
      congr 1
      apply decide_congr
      omega

theorem copy_gotWrap {src dst : Cbuf} (hd : Inv dst) (len : Int) (pol : Policy := chunkPolicy) [Admissible pol] :
    (copy src dst len pol).2.2.gotWrap =
      (dst.gotWrap || decide (reused dst + dst.used + min (copy src dst len pol).1.toNat (copy src dst len pol).2.2.size >
        (copy src dst len pol).2.2.size)) := by
  have hsum0 := (reused_facts hd).1
  have hm1 : ((-1 : Int)).toNat = 0 := rfl
  have hz : decide (reused dst + dst.used + min 0 dst.size > dst.size) = false := by
    simp only [decide_eq_false_iff_not]; omega
  unfold copy
  by_cases h : len < -1
  · simp only [h, if_true, hm1, hz, Bool.or_false]
  · simp only [h, if_false]
    by_cases h0 : len = 0
    · simp only [h0, if_true, Int.toNat_zero, hz, Bool.or_false]
    · simp only [h0, if_false]
      by_cases hl : lenFd src len > 0
      · simp only [hl, if_true]
        exact copier_gotWrap' hd _ pol _ rfl
      · simp only [hl, if_false, Int.toNat_zero, hz, Bool.or_false]

end PdshVerif.Cbuf
