/-
  The per-buffer mutex of cbuf.c, and why it makes every concurrent history a sequential one.

  Every public function of cbuf.c has the shape

      cbuf_mutex_lock (cb);   ... reads and writes of *cb ...   cbuf_mutex_unlock (cb);

  takes the mutex exactly once, releases it exactly once on every path and never calls another
  locking function while it holds it (this is a property of the C text; the harness checks it on
  every call of every generated history: `harness/cbuf_harness.c`, `LOCKCHK`).  This file models
  exactly that discipline, generically in the state, the operations and their answers:

  * a call `op` is a list of micro-steps `body op` (the individual memory accesses of its critical
    section) whose composition is the atomic step function `stepFn` the sequential theorems are
    about (`body_ok`);
  * threads produce events `acquire t op`, `micro t`, `release t`; `step` is the semantics of a
    (non-recursive) mutex: `acquire` is enabled only when the mutex is free, `micro`/`release` only
    for the owner, `release` only when the critical section is finished.

  Theorems (for EVERY event sequence the mutex admits, any number of threads):
  * `exclusive`        while the mutex is held only its owner makes progress;
  * `settle_exec`      the state after the call in progress is over is the state a SEQUENTIAL run of
                       the calls, in the order of their `acquire` events, arrives at;
  * `linearizable`     an execution that ends with the mutex free has exactly the final state and
                       exactly the answers of that sequential history;
  * `calls_of_thread`  that sequential history contains every thread's calls in program order, and
                       `calls_append`: a call that returned before another one started precedes it
                       (real-time order) -- so the sequential history is a linearization.
-/
namespace PdshVerif.Cbuf.Lin

def applyAll {σ : Type} : List (σ → σ) → σ → σ
  | [], s => s
  | f :: fs, s => applyAll fs (f s)

/-- a data structure whose calls are critical sections of one mutex -/
structure Sys (σ ω ο : Type) where
  /-- the call as one atomic step: answer and new state -/
  stepFn : σ → ω → ο × σ
  /-- the memory accesses the call performs while it holds the mutex -/
  body : ω → List (σ → σ)
  body_ok : ∀ op s, applyAll (body op) s = (stepFn s op).2

inductive Ev (τ ω : Type) where
  | acquire (t : τ) (op : ω)
  | micro (t : τ)
  | release (t : τ)

def Ev.thread {τ ω : Type} : Ev τ ω → τ
  | .acquire t _ => t
  | .micro t => t
  | .release t => t

structure Cfg (σ τ : Type) where
  s : σ
  /-- who holds the mutex and what is left of its critical section -/
  owner : Option (τ × List (σ → σ))

variable {σ ω ο τ : Type} [DecidableEq τ]

/-- one event under the semantics of a non-recursive mutex; `none` = not enabled.
    The answer of a call is determined when it enters its critical section. -/
def step (S : Sys σ ω ο) (c : Cfg σ τ) : Ev τ ω → Option (Cfg σ τ × Option (τ × ω × ο))
  | .acquire t op =>
    match c.owner with
    | none => some ({ s := c.s, owner := some (t, S.body op) }, some (t, op, (S.stepFn c.s op).1))
    | some _ => none
  | .micro t =>
    match c.owner with
    | some (t', f :: fs) => if t = t' then some ({ s := f c.s, owner := some (t', fs) }, none) else none
    | _ => none
  | .release t =>
    match c.owner with
    | some (t', []) => if t = t' then some ({ s := c.s, owner := none }, none) else none
    | _ => none

/-- a whole concurrent execution: final configuration and the answers in the order the calls
    entered their critical sections -/
def exec (S : Sys σ ω ο) (c : Cfg σ τ) : List (Ev τ ω) → Option (Cfg σ τ × List (τ × ω × ο))
  | [] => some (c, [])
  | e :: es =>
    match step S c e with
    | none => none
    | some (c', o) =>
      match exec S c' es with
      | none => none
      | some (c'', os) => some (c'', o.toList ++ os)

/-- the calls of an execution in the order of their `acquire` events -/
def calls : List (Ev τ ω) → List (τ × ω)
  | [] => []
  | .acquire t op :: es => (t, op) :: calls es
  | _ :: es => calls es

/-- the sequential history: every call is one atomic step -/
def seqRun (S : Sys σ ω ο) (s : σ) : List (τ × ω) → σ × List (τ × ω × ο)
  | [] => (s, [])
  | (t, op) :: rest =>
    let r := seqRun S (S.stepFn s op).2 rest
    (r.1, (t, op, (S.stepFn s op).1) :: r.2)

/-- the state once the call in progress (if any) has finished -/
def settle (c : Cfg σ τ) : σ :=
  match c.owner with
  | none => c.s
  | some (_, fs) => applyAll fs c.s

/-- mutual exclusion: while the mutex is held, only its owner makes progress -/
theorem exclusive (S : Sys σ ω ο) (c c' : Cfg σ τ) (e : Ev τ ω) (o : Option (τ × ω × ο)) (t : τ)
    (fs : List (σ → σ)) (hown : c.owner = some (t, fs)) (h : step S c e = some (c', o)) :
    e.thread = t := by
  cases e with
  | acquire t' op => simp [step, hown] at h
  | micro t' =>
    cases fs with
    | nil => simp [step, hown] at h
    | cons f fs =>
      simp only [step, hown] at h
      by_cases ht : t' = t
      · exact ht
      · simp [ht] at h
  | release t' =>
    cases fs with
    | cons f fs => simp [step, hown] at h
    | nil =>
      simp only [step, hown] at h
      by_cases ht : t' = t
      · exact ht
      · simp [ht] at h

/-- an acquire is enabled only when nobody holds the mutex: no call ever runs inside another one -/
theorem acquire_needs_free (S : Sys σ ω ο) (c c' : Cfg σ τ) (t : τ) (op : ω) (o : Option (τ × ω × ο))
    (h : step S c (.acquire t op) = some (c', o)) : c.owner = none := by
  cases hc : c.owner with
  | none => rfl
  | some p => simp [step, hc] at h

theorem step_settle (S : Sys σ ω ο) (c c' : Cfg σ τ) (e : Ev τ ω) (o : Option (τ × ω × ο))
    (h : step S c e = some (c', o)) :
    (∀ t op, e = .acquire t op →
       c.owner = none ∧ settle c' = (S.stepFn (settle c) op).2 ∧ o = some (t, op, (S.stepFn (settle c) op).1)) ∧
    ((∀ t op, e ≠ .acquire t op) → settle c' = settle c ∧ o = none) := by
  cases e with
  | acquire t op =>
    refine ⟨?_, fun hne => absurd rfl (hne t op)⟩
    intro t' op' he
    cases he
    cases hc : c.owner with
    | some p => simp [step, hc] at h
    | none =>
      simp only [step, hc, Option.some.injEq, Prod.mk.injEq] at h
      obtain ⟨h1, h2⟩ := h
      subst h1 h2
      exact ⟨rfl, by simp [settle, hc, S.body_ok], by simp [settle, hc]⟩
  | micro t =>
    refine ⟨fun t' op' he => (by cases he), fun _ => ?_⟩
    cases hc : c.owner with
    | none => simp [step, hc] at h
    | some p =>
      obtain ⟨t', fs⟩ := p
      cases fs with
      | nil => simp [step, hc] at h
      | cons f fs =>
        simp only [step, hc] at h
        by_cases ht : t = t'
        · simp only [ht, if_true, Option.some.injEq, Prod.mk.injEq] at h
          obtain ⟨h1, h2⟩ := h
          subst h1 h2
          exact ⟨by simp [settle, hc, applyAll], rfl⟩
        · simp [ht] at h
  | release t =>
    refine ⟨fun t' op' he => (by cases he), fun _ => ?_⟩
    cases hc : c.owner with
    | none => simp [step, hc] at h
    | some p =>
      obtain ⟨t', fs⟩ := p
      cases fs with
      | cons f fs => simp [step, hc] at h
      | nil =>
        simp only [step, hc] at h
        by_cases ht : t = t'
        · simp only [ht, if_true, Option.some.injEq, Prod.mk.injEq] at h
          obtain ⟨h1, h2⟩ := h
          subst h1 h2
          exact ⟨by simp [settle, hc, applyAll], rfl⟩
        · simp [ht] at h

/-- THE INTERLEAVING THEOREM: whatever the schedule, the state after the call in progress and the
    answers of all calls are those of the sequential history `calls evs` -/
theorem settle_exec (S : Sys σ ω ο) (evs : List (Ev τ ω)) :
    ∀ (c c' : Cfg σ τ) (outs : List (τ × ω × ο)), exec S c evs = some (c', outs) →
      (seqRun S (settle c) (calls evs)) = (settle c', outs) := by
  induction evs with
  | nil =>
    intro c c' outs h
    simp only [exec, Option.some.injEq, Prod.mk.injEq] at h
    obtain ⟨h1, h2⟩ := h
    subst h1 h2
    rfl
  | cons e es ih =>
    intro c c' outs h
    simp only [exec] at h
    cases hs : step S c e with
    | none => simp [hs] at h
    | some p =>
      obtain ⟨c1, o⟩ := p
      simp only [hs] at h
      cases hr : exec S c1 es with
      | none => simp [hr] at h
      | some q =>
        obtain ⟨c2, os⟩ := q
        simp only [hr, Option.some.injEq, Prod.mk.injEq] at h
        obtain ⟨h1, h2⟩ := h
        subst h1 h2
        have hrec := ih c1 c2 os hr
        obtain ⟨ha, hn⟩ := step_settle S c c1 e o hs
        cases e with
        | acquire t op =>
          obtain ⟨_, k2, k3⟩ := ha t op rfl
          subst k3
          simp only [calls, seqRun, ← k2, hrec, Option.toList_some, List.singleton_append]
        | micro t =>
          obtain ⟨k1, k2⟩ := hn (fun t' op' he => by cases he)
          subst k2
          simp only [calls, ← k1, hrec, Option.toList_none, List.nil_append]
        | release t =>
          obtain ⟨k1, k2⟩ := hn (fun t' op' he => by cases he)
          subst k2
          simp only [calls, ← k1, hrec, Option.toList_none, List.nil_append]

/-- LINEARIZABILITY: a concurrent execution that starts and ends with the mutex free has exactly
    the final state and exactly the answers of the sequential history of its calls -/
theorem linearizable (S : Sys σ ω ο) (s s' : σ) (evs : List (Ev τ ω)) (outs : List (τ × ω × ο))
    (h : exec S { s := s, owner := (none : Option (τ × List (σ → σ))) } evs =
      some ({ s := s', owner := none }, outs)) :
    seqRun S s (calls evs) = (s', outs) := by
  have := settle_exec S evs _ _ _ h
  simpa [settle] using this

omit [DecidableEq τ] in
theorem calls_append (a b : List (Ev τ ω)) : calls (a ++ b) = calls a ++ calls b := by
  induction a with
  | nil => rfl
  | cons e es ih => cases e <;> simp [calls, ih]

/-- the events of one thread -/
def ofThread (t : τ) (evs : List (Ev τ ω)) : List (Ev τ ω) := evs.filter (fun e => e.thread = t)

/-- program order: the sequential history restricted to a thread is that thread's own sequence of
    calls -/
theorem calls_of_thread (t : τ) (evs : List (Ev τ ω)) :
    (calls evs).filter (fun p => p.1 = t) = calls (ofThread t evs) := by
  induction evs with
  | nil => rfl
  | cons e es ih =>
    cases e with
    | acquire t' op =>
      by_cases ht : t' = t
      · simp [calls, ofThread, Ev.thread, ht] at ih ⊢
        exact ih
      · simp [calls, ofThread, Ev.thread, ht] at ih ⊢
        exact ih
    | micro t' =>
      by_cases ht : t' = t
      · simp [calls, ofThread, Ev.thread, ht] at ih ⊢
        exact ih
      · simp [calls, ofThread, Ev.thread, ht] at ih ⊢
        exact ih
    | release t' =>
      by_cases ht : t' = t
      · simp [calls, ofThread, Ev.thread, ht] at ih ⊢
        exact ih
      · simp [calls, ofThread, Ev.thread, ht] at ih ⊢
        exact ih

/-- non-vacuity: two threads, the second is scheduled between the micro-steps of nobody (it
    cannot be: the attempt to acquire while the first holds the mutex is not an execution) -/
example :
    let S : Sys Nat Nat Nat := { stepFn := fun s op => (s, s + op), body := fun op => [(· + op)], body_ok := fun _ _ => rfl }
    (exec S { s := 0, owner := (none : Option (Bool × List (Nat → Nat))) }
      [.acquire false 1, .acquire true 2]).isNone = true ∧
    (exec S { s := 0, owner := (none : Option (Bool × List (Nat → Nat))) }
      [.acquire false 1, .micro false, .release false, .acquire true 2, .micro true, .release true]).map
        (fun r => (r.1.s, r.2)) = some (3, [(false, 1, 0), (true, 2, 1)]) := by
  decide

end PdshVerif.Cbuf.Lin
