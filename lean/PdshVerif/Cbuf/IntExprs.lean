/-
  EVERY additive `int` expression of cbuf.c, classified.

  `Gen.CBUF_INT_EXPRS` is regenerated from the cbuf.c of the tree under test on every run
  (harness/consts/cbuf.c: every statement that contains a binary `+` / `-`, `+=`, `-=`, `++`, `--`,
  white space removed, sorted and distinct -- the key is the statement alone, so that code moved into
  another function is not a new expression).  `intExprTable` below assigns to
  each of them the CLASS of bound that keeps it inside a C `int` (the classification is made by
  hand, reading the code; what is mechanical is that NO statement escapes it):

  * `Props/C13.lean : int_exprs_covered` proves that the generated list is a sub-list of the table --
    an arithmetic statement ADDED to cbuf.c (or changed) breaks the build of the theorems;
  * `int_classes_safe` proves that the bound of every class is at most INT_MAX in every valid state
    with `maxsize ≤ INT_MAX / 2`, `size_meta ≤ 17` and `len + maxsize + 17 + CBUF_CHUNK ≤ INT_MAX`.

  Classes (largest intermediate magnitude):
    ptr       pointer arithmetic / byte store: no `int` beyond an index that another row bounds      0
    diff      a difference of two ints in [0, INT_MAX]: cannot leave the range                         0
    idxWrap   `(i ± x + (size + 1)) % (size + 1)`, i ≤ size, x ≤ size + 1                     2*size + 1
    succ      `x + 1`, `(size + 1) - i`, x ≤ size (after a growth: the new size ≤ maxsize)   maxsize + 1
    counter   `++` / `--` of a counter of loop iterations (at most size + 1 of them) or of a
              countdown guarded by `> 0`                                                      size + 1
    usedPlus  `used + n`, n ≤ size (bytes that fit)                                          used + size
    lenDep    the caller's length enters: `alloc + n` + rounding, `used + n`, `len + 1`
                                                                            alloc + len + CBUF_CHUNK
    metaC     creation-time constants: `minsize + 1 (+ 2 * CBUF_MAGIC_LEN)`, `maxsize + size_meta`
                                                                                maxsize + size_meta
-/
import PdshVerif.Cbuf.IntBounds

namespace PdshVerif.Cbuf

inductive IntClass where
  | ptr | diff | idxWrap | succ | counter | usedPlus | lenDep | metaC
  deriving DecidableEq, Repr

def IntClass.bound (k : IntClass) (c : Cbuf) (len : Nat) : Nat :=
  match k with
  | .ptr => 0
  | .diff => 0
  | .idxWrap => 2 * c.size + 1
  | .succ => c.maxsize + 1
  | .counter => c.size + 1
  | .usedPlus => c.used + c.size
  | .lenDep => c.alloc + len + Gen.CBUF_CHUNK
  | .metaC => c.maxsize + (c.alloc - c.size)

/-- (statement, class, the functions of cbuf.c it occurs in -- documentation only), sorted by statement -/
def intExprTable : List (String × IntClass × String) := [
  ("*ndropped=MAX(0,len-dst->size+dst->used)", .usedPlus, "cbuf_copier"),
  ("*ndropped=MAX(0,n-nfree)", .diff, "cbuf_writer"),
  ("*pdstbuf+=len", .ptr, "cbuf_put_mem"),
  ("*psrcbuf+=len", .ptr, "cbuf_get_mem"),
  ("++chars", .lenDep, "cbuf_find_replay_line"),
  ("++l", .counter, "cbuf_find_replay_line, cbuf_find_unread_line"),
  ("++lines", .counter, "cbuf_find_replay_line"),
  ("++n", .counter, "cbuf_find_replay_line, cbuf_find_unread_line"),
  ("--chars", .counter, "cbuf_find_replay_line, cbuf_find_unread_line"),
  ("--l", .counter, "cbuf_find_replay_line"),
  ("--lines", .counter, "cbuf_find_replay_line, cbuf_find_unread_line"),
  ("assert(cb->size-cb->used==nfree)", .diff, "cbuf_is_valid"),
  ("assert(i_dst==(dst->i_in+n)%(dst->size+1))", .idxWrap, "cbuf_writer"),
  ("assert(i_dst==(dst->i_in+ncopy)%(dst->size+1))", .idxWrap, "cbuf_copier"),
  ("assert(memcmp(cb->data+cb->size+1,(void*)&cb->magic,CBUF_MAGIC_LEN)==0)", .ptr, "cbuf_is_valid"),
  ("assert(memcmp(cb->data-CBUF_MAGIC_LEN,(void*)&cb->magic,CBUF_MAGIC_LEN)==0)", .ptr, "cbuf_is_valid"),
  ("cb->alloc+=2*CBUF_MAGIC_LEN", .metaC, "cbuf_create"),
  ("cb->alloc=minsize+1", .metaC, "cbuf_create"),
  ("cb->data+=CBUF_MAGIC_LEN", .ptr, "cbuf_create, cbuf_grow"),
  ("cb->data-=CBUF_MAGIC_LEN", .ptr, "cbuf_destroy"),
  ("cb->i_out+=m-cb->i_rep", .succ, "cbuf_grow"),
  ("cb->i_out=(cb->i_out+len)%(cb->size+1)", .idxWrap, "cbuf_dropper"),
  ("cb->size=m-size_meta", .diff, "cbuf_grow"),
  ("cb->used-=len", .diff, "cbuf_dropper"),
  ("data-=CBUF_MAGIC_LEN", .ptr, "cbuf_grow"),
  ("dst->i_rep=(dst->i_in+1)%(dst->size+1)", .idxWrap, "cbuf_copier, cbuf_writer"),
  ("dst->used=MIN(dst->used+n,dst->size)", .lenDep, "cbuf_writer"),
  ("dst->used=MIN(dst->used+ncopy,dst->size)", .usedPlus, "cbuf_copier"),
  ("dstbuf[m++]='\\n'", .lenDep, "cbuf_replay_line"),
  ("i=(i+1)%(cb->size+1)", .idxWrap, "cbuf_find_unread_line"),
  ("i=(i+cb->size)%(cb->size+1)", .idxWrap, "cbuf_find_replay_line"),
  ("i_dst=(i_dst+m)%(dst->size+1)", .idxWrap, "cbuf_writer"),
  ("i_dst=(i_dst+n)%(dst->size+1)", .idxWrap, "cbuf_copier"),
  ("i_src=(i_src+m)%(src->size+1)", .idxWrap, "cbuf_reader, cbuf_replayer"),
  ("i_src=(i_src+n)%(src->size+1)", .idxWrap, "cbuf_copier"),
  ("i_src=(src->i_out-len+(src->size+1))%(src->size+1)", .idxWrap, "cbuf_replayer"),
  ("if((cb->size-cb->used>CBUF_CHUNK)&&(cb->size>cb->minsize))", .diff, "cbuf_dropper"),
  ("if((len==0)||(srcbuf[len-1]!='\\n'))", .diff, "cbuf_write_line"),
  ("if(cb->data[(cb->i_out+cb->size)%(cb->size+1)]!='\\n')", .idxWrap, "cbuf_find_replay_line"),
  ("if(cb->size-cb->used<=CBUF_CHUNK)", .diff, "cbuf_shrink"),
  ("if(len>dst->size-dst->used)", .diff, "cbuf_write_line"),
  ("if(n>nfree-nrepl)", .diff, "cbuf_writer"),
  ("if(ncopy>nfree-nrepl)", .diff, "cbuf_copier"),
  ("if(srcbuf[len-1]!='\\n')", .diff, "cbuf_write_line"),
  ("len++", .lenDep, "cbuf_write_line"),
  ("len=MIN(len,dst->size-dst->used)", .diff, "cbuf_copier, cbuf_writer"),
  ("len=dst->size-dst->used", .diff, "cbuf_write_from_fd"),
  ("len=src->size-src->used", .diff, "cbuf_replay_to_fd"),
  ("m=(cb->size+1)-n", .succ, "cbuf_grow"),
  ("m=MIN(m,(cb->maxsize+size_meta))", .metaC, "cbuf_grow"),
  ("m=MIN(n,len-1)", .diff, "cbuf_peek_line, cbuf_read_line"),
  ("m=MIN(n,len-1-nl)", .diff, "cbuf_replay_line"),
  ("m=cb->alloc+n", .lenDep, "cbuf_grow"),
  ("m=m+(CBUF_CHUNK-(m%CBUF_CHUNK))", .lenDep, "cbuf_grow"),
  ("m=n-1", .diff, "cbuf_find_replay_line"),
  ("memcpy(cb->data+cb->size+1,(void*)&cb->magic,CBUF_MAGIC_LEN)", .ptr, "cbuf_create, cbuf_destroy, cbuf_grow"),
  ("memcpy(cb->data-CBUF_MAGIC_LEN,(void*)&cb->magic,CBUF_MAGIC_LEN)", .ptr, "cbuf_create, cbuf_destroy"),
  ("memmove(cb->data+m,cb->data+cb->i_rep,n)", .ptr, "cbuf_grow"),
  ("n+=nl", .lenDep, "cbuf_replay_line"),
  ("n=(size_old+1)-cb->i_rep", .succ, "cbuf_grow"),
  ("n=(src->i_out-src->i_rep+(src->size+1))%(src->size+1)", .idxWrap, "cbuf_replayer"),
  ("n=MIN(((src->size+1)-i_src),((dst->size+1)-i_dst))", .succ, "cbuf_copier"),
  ("n=MIN(nleft,(dst->size+1)-i_dst)", .succ, "cbuf_writer"),
  ("n=MIN(nleft,(src->size+1)-i_src)", .succ, "cbuf_reader, cbuf_replayer"),
  ("n=cbuf_find_replay_line(src,len-1,&lines,&nl)", .diff, "cbuf_replay_line"),
  ("n=cbuf_find_unread_line(src,len-1,&lines)", .diff, "cbuf_peek_line, cbuf_read_line"),
  ("n=len-nleft", .diff, "cbuf_reader, cbuf_replayer, cbuf_writer"),
  ("n=ncopy-dst->size", .diff, "cbuf_copier"),
  ("ncopy-=n", .diff, "cbuf_copier"),
  ("ncopy-=ndrop", .diff, "cbuf_write_line"),
  ("ndrop+=d", .lenDep, "cbuf_write_line"),
  ("ndrop+=len-dst->size", .lenDep, "cbuf_write_line"),
  ("nfree+=cbuf_grow(dst,len-nfree)", .usedPlus, "cbuf_write_line, cbuf_copier, cbuf_writer"),
  ("nfree=(cb->i_out-cb->i_in-1+(cb->size+1))%(cb->size+1)", .idxWrap, "cbuf_is_valid"),
  ("nfree=cb->size-cb->used", .diff, "cbuf_free"),
  ("nfree=dst->size-dst->used", .diff, "cbuf_write_line, cbuf_copier, cbuf_writer"),
  ("nleft-=m", .diff, "cbuf_reader, cbuf_replayer, cbuf_writer"),
  ("nleft-=n", .diff, "cbuf_copier"),
  ("nrepl=(dst->i_out-dst->i_rep+(dst->size+1))%(dst->size+1)", .idxWrap, "cbuf_copier, cbuf_writer"),
  ("psrc+=ndrop", .ptr, "cbuf_write_line"),
  ("return(cb->size-size_old)", .diff, "cbuf_grow"),
  ("reused=(cb->i_out-cb->i_rep+(cb->size+1))%(cb->size+1)", .idxWrap, "cbuf_reused"),
  ("reused=(src->i_out-src->i_rep+(src->size+1))%(src->size+1)", .idxWrap, "cbuf_rewind"),
  ("size_meta=cb->alloc-cb->size", .diff, "cbuf_grow"),
  ("src->i_out=(src->i_out-len+(src->size+1))%(src->size+1)", .idxWrap, "cbuf_rewind"),
  ("src->i_out=(src->i_out-n+(src->size+1))%(src->size+1)", .idxWrap, "cbuf_rewind_line"),
  ("src->used+=len", .usedPlus, "cbuf_rewind"),
  ("src->used+=n", .usedPlus, "cbuf_rewind_line")
]

/-- the statements the table knows -/
def intExprKeys : List String := intExprTable.map (fun r => r.1)

/-- every class is safe: valid state, maximum size at most INT_MAX / 2, the meta cells of
    `cbuf_create`, and a caller's length that leaves room for one growth -/
theorem int_classes_safe {c : Cbuf} (hi : Inv c) (hmax : c.maxsize ≤ INT_MAX / 2)
    (hmeta : c.alloc - c.size ≤ 1 + 2 * 8) (len : Nat)
    (hlen : len + c.maxsize + (1 + 2 * 8) + Gen.CBUF_CHUNK ≤ INT_MAX) (k : IntClass) :
    k.bound c len ≤ INT_MAX := by
  have := hi.smax; have := hi.used; have := hi.alloc
  have h2 : INT_MAX / 2 = 1073741823 := by decide
  have h3 : INT_MAX = 2147483647 := rfl
  have hc : Gen.CBUF_CHUNK = 1000 := rfl
  cases k <;> simp only [IntClass.bound] <;> omega

/-- the classes that do not involve the caller's length need no assumption on it -/
theorem int_classes_safe_index {c : Cbuf} (hi : Inv c) (hmax : c.maxsize ≤ INT_MAX / 2)
    (hmeta : c.alloc - c.size ≤ 1 + 2 * 8) (k : IntClass) (hk : k ≠ .lenDep) :
    k.bound c 0 ≤ INT_MAX := by
  have := hi.smax; have := hi.used; have := hi.alloc
  have h2 : INT_MAX / 2 = 1073741823 := by decide
  have h3 : INT_MAX = 2147483647 := rfl
  cases k <;> simp only [IntClass.bound] <;> first | omega | exact absurd rfl hk

end PdshVerif.Cbuf
