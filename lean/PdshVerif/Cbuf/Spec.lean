/-
  Specification of the circular buffer as a plain FIFO of bytes (property C13).

  Written independently of the index model: a queue `q` (oldest first), the current
  capacity `size` with its bounds, the overwrite mode and `alloc` (only used by the
  documented growth policy: grow in CBUF_CHUNK multiples of the allocation, capped at max).
-/
import PdshVerif.Gen.Cbuf

namespace PdshVerif.Cbuf.Spec

inductive Mode where
  | noDrop | wrapOnce | wrapMany
  deriving DecidableEq, Repr, Inhabited

structure Fifo where
  q       : List UInt8
  size    : Nat
  minsize : Nat
  maxsize : Nat
  mode    : Mode
  deriving Repr, Inhabited

def create (minsize maxsize : Int) : Option Fifo :=
  if minsize ≤ 0 then none
  else
    let mn := minsize.toNat
    some { q := [], size := mn, minsize := mn,
           maxsize := if maxsize > minsize then maxsize.toNat else mn,
           mode := .wrapMany }

/-- keep the newest `n` elements -/
def lastN (n : Nat) (l : List UInt8) : List UInt8 := l.drop (l.length - n)

/-- The growth *policy* (when and by how much the buffer grows) is not part of the property:
    the capacity `sz` after a writing operation is taken from the implementation's own report
    and only has to be admissible: never shrinking, never beyond the maximum. -/
def admitSize (f : Fifo) (sz : Nat) : Bool := decide (f.size ≤ sz ∧ sz ≤ f.maxsize)

/-- "grow before you lose": bytes may be dropped / a write shortened or refused only at full size -/
def lossOk (f : Fifo) (sz : Nat) (loss : Bool) : Bool := !loss || decide (sz = f.maxsize)

/-- append `bs` (all of it is available); returns (ret, ndropped, fifo); `none` = the reported
    capacity `sz` is not admissible -/
def write (f0 : Fifo) (bs : List UInt8) (sz : Nat) : Option (Int × Nat × Fifo) :=
  if bs.length = 0 then (if sz = f0.size then some (0, 0, f0) else none)
  else if !admitSize f0 sz then none
  else
    let f := { f0 with size := sz }
    let nfree := sz - f.q.length
    match f.mode with
    | .noDrop =>
      let k := min bs.length nfree
      if !lossOk f0 sz (decide (k < bs.length)) then none
      else if k = 0 then some (-1, 0, f) else some (k, 0, { f with q := f.q ++ bs.take k })
    | .wrapOnce =>
      let k := min bs.length sz
      if !lossOk f0 sz (decide (k < bs.length ∨ k > nfree)) then none
      else some (k, k - nfree, { f with q := lastN sz (f.q ++ bs.take k) })
    | .wrapMany =>
      if !lossOk f0 sz (decide (bs.length > nfree)) then none
      else some (bs.length, bs.length - nfree, { f with q := lastN sz (f.q ++ bs) })

def take (f : Fifo) (len : Int) : List UInt8 := f.q.take len.toNat

def peek (f : Fifo) (len : Int) : Int × List UInt8 :=
  if len < 0 then (-1, []) else ((take f len).length, take f len)

def read (f : Fifo) (len : Int) : Int × List UInt8 × Fifo :=
  if len < 0 then (-1, [], f)
  else ((take f len).length, take f len, { f with q := f.q.drop len.toNat })

def drop (f : Fifo) (len : Int) : Int × Fifo :=
  if len < -1 then (-1, f)
  else if len = -1 then (f.q.length, { f with q := [] })
  else (min len.toNat f.q.length, { f with q := f.q.drop len.toNat })

/-- position just after the `k`-th newline of `l` (1-based), if there are that many -/
def afterNthNl : List UInt8 → Nat → Option Nat
  | _, 0 => some 0
  | [], _ + 1 => none
  | b :: bs, k + 1 =>
    if b = 10 then (afterNthNl bs k).map (· + 1) else (afterNthNl bs (k + 1)).map (· + 1)

/-- length of the longest prefix of `l` that ends in a newline (0 if none) -/
def wholeLinesLen (l : List UInt8) : Nat :=
  match l.reverse.dropWhile (· ≠ 10) with
  | r => r.length

/-- number of bytes making up the requested lines: exactly `lines` lines (all or nothing) when
    `lines > 0`; as many whole lines as fit into `chars` bytes when `lines = -1`. -/
def lineBytes (f : Fifo) (chars lines : Int) : Nat :=
  if lines > 0 then (afterNthNl f.q lines.toNat).getD 0
  else if lines = -1 ∧ chars > 0 then wholeLinesLen (f.q.take chars.toNat)
  else 0

def countNl (l : List UInt8) : Nat := l.count 10

def peekLine (f : Fifo) (len lines : Int) : Int × Option (List UInt8) :=
  if len < 0 ∨ lines < -1 then (-1, none)
  else
    let n := lineBytes f (len - 1) lines
    (n, if n > 0 ∧ len > 0 then some (f.q.take (min n (len.toNat - 1))) else none)

def readLine (f : Fifo) (len lines : Int) : Int × Option (List UInt8) × Fifo :=
  let (n, o) := peekLine f len lines
  (n, o, if n > 0 then { f with q := f.q.drop n.toNat } else f)

def dropLine (f : Fifo) (len lines : Int) : Int × Fifo :=
  if len < 0 ∨ lines < -1 then (-1, f)
  else
    let n := lineBytes f len lines
    (n, { f with q := f.q.drop n })

def linesUsed (f : Fifo) : Nat := countNl f.q

/-- write from a descriptor holding `avail` (EOF after it iff `eof`).  How many bytes the
    implementation chooses to take (`taken`, its return value) is policy; the specification fixes
    what must then be true: the bytes taken are a prefix of what was available, within the request,
    within the free space in no-drop mode; they are appended; the oldest bytes beyond the capacity
    are dropped and counted.  `none` = inadmissible answer. -/
def writeFromFd (f0 : Fifo) (len : Int) (avail : List UInt8) (eof : Bool) (taken : Int) (sz : Nat) :
    Option (Int × Nat × Fifo) :=
  if len < -1 then (if taken = -1 ∧ sz = f0.size then some (-1, 0, f0) else none)
  else if !admitSize f0 sz then none
  else
    let f := { f0 with size := sz }
    let nfree := sz - f.q.length
    if taken ≤ 0 then
      let okZero := taken = 0 ∧ (len = 0 ∨ (avail.isEmpty ∧ eof))
      let okErr := taken = -1 ∧ len ≠ 0 ∧
        ((avail.isEmpty ∧ !eof) ∨ (f.mode = .noDrop ∧ nfree = 0 ∧ sz = f0.maxsize))
      if okZero ∨ okErr then some (taken, 0, f) else none
    else
      let n := taken.toNat
      if n > avail.length ∨ (len ≥ 0 ∧ taken > len) ∨ (f.mode = .noDrop ∧ n > nfree) then none
      else if !lossOk f0 sz (decide (n > nfree)) then none
      else some (taken, n - nfree, { f with q := lastN sz (f.q ++ avail.take n) })

/-- a whole line is refused when it cannot be stored without loss (no-drop) or at all (wrap-once) -/
def lineRefused (mode : Mode) (len nfree sz : Nat) : Bool :=
  match mode with
  | .noDrop => decide (len > nfree)
  | .wrapOnce => decide (len > sz)
  | .wrapMany => false

/-- `cbuf_write_line`: the string plus a newline if it lacks one, all or nothing in the
    refusing modes, newest `size` bytes kept otherwise. -/
def writeLine (f0 : Fifo) (s : List UInt8) (sz : Nat) : Option (Int × Nat × Fifo) :=
  let line := if s.length = 0 ∨ s.getLast? ≠ some 10 then s ++ [10] else s
  if !admitSize f0 sz then none
  else
    let f := { f0 with size := sz }
    let nfree := sz - f.q.length
    let refused : Bool := lineRefused f.mode line.length nfree sz
    if !lossOk f0 sz (refused || decide (line.length > nfree)) then none
    else if refused then some (-1, 0, f)
    else some (line.length, line.length - nfree, { f with q := lastN sz (f.q ++ line) })

def flush (f : Fifo) : Fifo := { f with q := [] }

def optSet (f : Fifo) (v : Nat) : Int × Fifo :=
  if v = Gen.CBUF_NO_DROP then (0, { f with mode := .noDrop })
  else if v = Gen.CBUF_WRAP_ONCE then (0, { f with mode := .wrapOnce })
  else if v = Gen.CBUF_WRAP_MANY then (0, { f with mode := .wrapMany })
  else (-1, f)

end PdshVerif.Cbuf.Spec
