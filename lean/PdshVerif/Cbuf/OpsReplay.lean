/-
  Operation histories over the full single-buffer API: the operations of `Ops.lean` plus
  replay / rewind / the three *_to_fd calls, against the specification with a history of
  replayable bytes (`SpecReplay.lean`).
-/
import PdshVerif.Cbuf.Replay
import PdshVerif.Cbuf.Wrapped
import PdshVerif.Cbuf.ReplayLine

namespace PdshVerif.Cbuf

inductive OpR where
  | base (op : Op)
  | replay (len : Int)
  | rewind (len : Int)
  | peekToFd (len : Int) (cap : Nat)
  | readToFd (len : Int) (cap : Nat)
  | replayToFd (len : Int) (cap : Nat)
  | replayLine (len lines : Int)
  | rewindLine (len lines : Int)
  deriving Repr

def stepMR (c : Cbuf) (op : OpR) (pol : Policy := chunkPolicy) : Out × Cbuf :=
  match op with
  | .base op => stepM c op pol
  | .replay len => let (r, bs) := replay c len; ({ ret := r, bytes := some bs }, c)
  | .rewind len => let (r, c') := rewind c len; ({ ret := r }, c')
  | .peekToFd len cap => let (r, bs) := peekToFd c len cap; ({ ret := r, bytes := some bs }, c)
  | .readToFd len cap => let (r, bs, c') := readToFd c len cap; ({ ret := r, bytes := some bs }, c')
  | .replayToFd len cap => let (r, bs) := replayToFd c len cap; ({ ret := r, bytes := some bs }, c)
  | .replayLine len lines => let (r, o) := replayLine c len lines; ({ ret := r, bytes := o }, c)
  | .rewindLine len lines => let (r, c') := rewindLine c len lines; ({ ret := r }, c')

/-- the line `cbuf_write_line` appends for the string `s` -/
def lineOf (s : List UInt8) : List UInt8 :=
  if s.length = 0 ∨ s.getLast? ≠ some 10 then s ++ [10] else s

/-- what happens to the history under an operation of the base set, given the answer `o` and the
    FIFO `f'` the base specification arrives at -/
def histAfterBase (r : Spec.RFifo) (op : Op) (o : Out) (f' : Spec.Fifo) : List UInt8 :=
  match op with
  | .write bs => Spec.histAfterWrite r (bs.take o.ret.toNat) f'
  | .writeFromFd _ av _ => Spec.histAfterWrite r (av.take o.ret.toNat) f'
  | .writeLine s => Spec.histAfterWrite r (if o.ret < 0 then [] else lineOf s) f'
  | .read _ => Spec.histAfterConsume r f'
  | .drop _ => Spec.histAfterConsume r f'
  | .readLine _ _ => Spec.histAfterConsume r f'
  | .dropLine _ _ => Spec.histAfterConsume r f'
  | .peek _ => r.hist
  | .peekLine _ _ => r.hist
  | .optSet _ => r.hist
  | .flush => []

/-- the `wrapped` flag under an operation of the base set: a writing operation sets it as soon as
    history + unread + physically stored bytes exceed the capacity; flushing clears it -/
def wrappedAfterBase (r : Spec.RFifo) (op : Op) (o : Out) (f' : Spec.Fifo) : Bool :=
  match op with
  | .write _ => Spec.wrappedAfterWrite r o.ret.toNat f'
  | .writeFromFd _ _ _ => Spec.wrappedAfterWrite r o.ret.toNat f'
  | .writeLine s => Spec.wrappedAfterWrite r (if o.ret < 0 then 0 else min (lineOf s).length f'.size) f'
  | .flush => false
  | _ => r.wrapped

def stepSR (r : Spec.RFifo) (op : OpR) (implRet : Int) (implSize : Nat) : Option (Out × Spec.RFifo) :=
  match op with
  | .base op =>
    (stepS r.f op implRet implSize).map fun (o, f') =>
      (o, { f := f', hist := histAfterBase r op o f', wrapped := wrappedAfterBase r op o f' })
  | .replay len => let (n, bs) := Spec.replay r len; some ({ ret := n, bytes := some bs }, r)
  | .rewind len => let (n, r') := Spec.rewind r len; some ({ ret := n }, r')
  | .peekToFd len cap => let (n, bs) := Spec.peekToFd r len cap; some ({ ret := n, bytes := some bs }, r)
  | .readToFd len cap => let (n, bs, r') := Spec.readToFd r len cap; some ({ ret := n, bytes := some bs }, r')
  | .replayToFd len cap => let (n, bs) := Spec.replayToFd r len cap; some ({ ret := n, bytes := some bs }, r)
  | .replayLine len lines => let (n, o) := Spec.replayLine r len lines; some ({ ret := n, bytes := o }, r)
  | .rewindLine len lines => let (n, r') := Spec.rewindLine r len lines; some ({ ret := n }, r')

/-! ### the history component under the base operations -/

theorem sameCells_dropper (c : Cbuf) (n : Nat) : SameCells c (dropper c n) ∧ (dropper c n).used ≤ c.used :=
  ⟨⟨rfl, rfl, rfl, rfl⟩, by simp [dropper]⟩

theorem consume_read (c : Cbuf) (len : Int) : SameCells c (read c len).2.2 ∧ (read c len).2.2.used ≤ c.used := by
  unfold read
  split
  · exact ⟨SameCells.refl c, Nat.le_refl _⟩
  · split
    · exact ⟨SameCells.refl c, Nat.le_refl _⟩
    · simp only; split
      · exact sameCells_dropper c _
      · exact ⟨SameCells.refl c, Nat.le_refl _⟩

theorem consume_drop (c : Cbuf) (len : Int) : SameCells c (drop c len).2 ∧ (drop c len).2.used ≤ c.used := by
  unfold drop
  split
  · exact ⟨SameCells.refl c, Nat.le_refl _⟩
  · split
    · exact ⟨SameCells.refl c, Nat.le_refl _⟩
    · simp only; split
      · exact sameCells_dropper c _
      · exact ⟨SameCells.refl c, Nat.le_refl _⟩

theorem consume_readLine (c : Cbuf) (len lines : Int) :
    SameCells c (readLine c len lines).2.2 ∧ (readLine c len lines).2.2.used ≤ c.used := by
  unfold readLine
  split
  · exact ⟨SameCells.refl c, Nat.le_refl _⟩
  · split
    · exact ⟨SameCells.refl c, Nat.le_refl _⟩
    · simp only; split
      · exact sameCells_dropper c _
      · exact ⟨SameCells.refl c, Nat.le_refl _⟩

theorem consume_dropLine (c : Cbuf) (len lines : Int) :
    SameCells c (dropLine c len lines).2 ∧ (dropLine c len lines).2.used ≤ c.used := by
  unfold dropLine
  split
  · exact ⟨SameCells.refl c, Nat.le_refl _⟩
  · split
    · exact ⟨SameCells.refl c, Nat.le_refl _⟩
    · simp only; split
      · exact sameCells_dropper c _
      · exact ⟨SameCells.refl c, Nat.le_refl _⟩

theorem whole_unchanged {c : Cbuf} (hi : Inv c) : whole c = Spec.lastN c.size (whole c ++ []) := by
  rw [List.append_nil, lastN_all _ _ (whole_le hi)]

theorem write_whole {c : Cbuf} (hi : Inv c) (bs : List UInt8) (pol : Policy := chunkPolicy) [Admissible pol] :
    whole (write c bs pol).2.2 =
      Spec.lastN (write c bs pol).2.2.size (whole c ++ bs.take (write c bs pol).1.toNat) := by
  unfold write
  by_cases h : bs.length = 0
  · simp only [h, if_true, Int.toNat_zero, List.take_zero]
    exact whole_unchanged hi
  · simp only [h, if_false]
    exact writer_whole hi bs.length (by omega) (.mem bs) (by simp [Src.ok]) pol

theorem wfd_core {c : Cbuf} (hi : Inv c) (l : Nat) (av : List UInt8) (eof : Bool)
    (pol : Policy := chunkPolicy) [Admissible pol] :
    whole (if l > 0 then ((writer c l (.fd av eof) pol).ret, (writer c l (.fd av eof) pol).ndropped, (writer c l (.fd av eof) pol).c)
        else ((0 : Int), 0, c)).2.2 =
      Spec.lastN (if l > 0 then ((writer c l (.fd av eof) pol).ret, (writer c l (.fd av eof) pol).ndropped, (writer c l (.fd av eof) pol).c)
        else ((0 : Int), 0, c)).2.2.size
        (whole c ++ av.take (if l > 0 then ((writer c l (.fd av eof) pol).ret, (writer c l (.fd av eof) pol).ndropped,
          (writer c l (.fd av eof) pol).c) else ((0 : Int), 0, c)).1.toNat) := by
  by_cases hl : l > 0
  · simp only [hl, if_true]
    exact writer_whole hi l hl (.fd av eof) trivial pol
  · simp only [hl, if_false, Int.toNat_zero, List.take_zero]
    exact whole_unchanged hi

theorem writeFromFd_whole {c : Cbuf} (hi : Inv c) (len : Int) (av : List UInt8) (eof : Bool)
    (pol : Policy := chunkPolicy) [Admissible pol] :
    whole (writeFromFd c len av eof pol).2.2 =
      Spec.lastN (writeFromFd c len av eof pol).2.2.size
        (whole c ++ av.take (writeFromFd c len av eof pol).1.toNat) := by
  have hm1 : ((-1 : Int)).toNat = 0 := rfl
  unfold writeFromFd
  by_cases h : len < -1
  · simp only [h, if_true, hm1, List.take_zero]
    exact whole_unchanged hi
  · simp only [h, if_false]
    exact wfd_core hi _ av eof pol

theorem hist_flush (c : Cbuf) : hist (flush c) = [] := by
  simp [hist, flush, reused, circRead]

theorem hist_optSet (c : Cbuf) (v : Nat) : hist (optSet c v).2 = hist c := by
  unfold optSet
  split <;> rfl

theorem hist_step_base {c : Cbuf} (hi : Inv c) (op : Op) (pol : Policy := chunkPolicy) [Admissible pol] :
    hist (stepM c op pol).2 = histAfterBase (absR c) op (stepM c op pol).1 (abs (stepM c op pol).2) := by
  have hi' := (step_refines hi op pol).2
  cases op with
  | write bs => exact hist_write hi hi' _ (write_whole hi bs pol)
  | writeFromFd len av eof => exact hist_write hi hi' _ (writeFromFd_whole hi len av eof pol)
  | writeLine s => exact hist_write hi hi' _ (writeLine_refines hi s pol).2.2.1
  | read len => exact hist_consume hi hi' (consume_read c len).1 (consume_read c len).2
  | drop len => exact hist_consume hi hi' (consume_drop c len).1 (consume_drop c len).2
  | readLine len lines => exact hist_consume hi hi' (consume_readLine c len lines).1 (consume_readLine c len lines).2
  | dropLine len lines => exact hist_consume hi hi' (consume_dropLine c len lines).1 (consume_dropLine c len lines).2
  | peek len => rfl
  | peekLine len lines => rfl
  | flush => exact hist_flush c
  | optSet v => exact hist_optSet c v

/-! ### the flag component under the base operations -/

theorem gotWrap_read (c : Cbuf) (len : Int) : (read c len).2.2.gotWrap = c.gotWrap := by
  unfold read
  split
  · rfl
  · split
    · rfl
    · simp only; split <;> rfl

theorem gotWrap_drop (c : Cbuf) (len : Int) : (drop c len).2.gotWrap = c.gotWrap := by
  unfold drop
  split
  · rfl
  · split
    · rfl
    · simp only; split <;> rfl

theorem gotWrap_readLine (c : Cbuf) (len lines : Int) : (readLine c len lines).2.2.gotWrap = c.gotWrap := by
  unfold readLine
  split
  · rfl
  · split
    · rfl
    · simp only; split <;> rfl

theorem gotWrap_dropLine (c : Cbuf) (len lines : Int) : (dropLine c len lines).2.gotWrap = c.gotWrap := by
  unfold dropLine
  split
  · rfl
  · split
    · rfl
    · simp only; split <;> rfl

theorem gotWrap_optSet (c : Cbuf) (v : Nat) : (optSet c v).2.gotWrap = c.gotWrap := by
  unfold optSet
  split <;> rfl

theorem wrapped_step_base {c : Cbuf} (hi : Inv c) (op : Op) (pol : Policy := chunkPolicy) [Admissible pol] :
    (stepM c op pol).2.gotWrap = wrappedAfterBase (absR c) op (stepM c op pol).1 (abs (stepM c op pol).2) := by
  cases op with
  | write bs => exact write_gotWrap hi bs pol
  | writeFromFd len av eof => exact writeFromFd_gotWrap hi len av eof pol
  | writeLine s => exact writeLine_gotWrap hi s pol
  | read len => exact gotWrap_read c len
  | drop len => exact gotWrap_drop c len
  | readLine len lines => exact gotWrap_readLine c len lines
  | dropLine len lines => exact gotWrap_dropLine c len lines
  | peek len => rfl
  | peekLine len lines => rfl
  | flush => rfl
  | optSet v => exact gotWrap_optSet c v

/-! ### step-wise and history refinement -/

theorem stepR_refines {c : Cbuf} (hi : Inv c) (op : OpR) (pol : Policy := chunkPolicy) [Admissible pol] :
    stepSR (absR c) op (stepMR c op pol).1.ret (stepMR c op pol).2.size =
      some ((stepMR c op pol).1, absR (stepMR c op pol).2) ∧
    Inv (stepMR c op pol).2 := by
  cases op with
  | base op =>
    obtain ⟨h1, h2⟩ := step_refines hi op pol
    refine ⟨?_, h2⟩
    simp only [stepSR, stepMR, absR_f, h1, Option.map_some]
    rw [← hist_step_base hi op pol, ← wrapped_step_base hi op pol]
    rfl
  | replay len =>
    simp only [stepSR, stepMR, ← replay_refines hi len]
    exact ⟨trivial, hi⟩
  | rewind len =>
    obtain ⟨h1, h2, h3⟩ := rewind_refines hi len
    simp only [stepSR, stepMR]
    exact ⟨by rw [← h1, ← h2], h3⟩
  | peekToFd len cap =>
    simp only [stepSR, stepMR, ← peekToFd_refines c len cap]
    exact ⟨trivial, hi⟩
  | readToFd len cap =>
    obtain ⟨h1, h2, h3, h4⟩ := readToFd_refines hi len cap
    simp only [stepSR, stepMR]
    exact ⟨by rw [← h1, ← h2, ← h3], h4⟩
  | replayToFd len cap =>
    simp only [stepSR, stepMR, ← replayToFd_refines hi len cap]
    exact ⟨trivial, hi⟩
  | replayLine len lines =>
    simp only [stepSR, stepMR, ← replayLine_refines hi len lines]
    exact ⟨trivial, hi⟩
  | rewindLine len lines =>
    obtain ⟨h1, h2, h3⟩ := rewindLine_refines hi len lines
    simp only [stepSR, stepMR]
    exact ⟨by rw [← h1, ← h2], h3⟩

def runMR (c : Cbuf) (ops : List OpR) (pol : Policy := chunkPolicy) : List Out × Cbuf :=
  match ops with
  | [] => ([], c)
  | op :: ops => let (o, c') := stepMR c op pol; let (os, c'') := runMR c' ops pol; (o :: os, c'')

def acceptSR (r : Spec.RFifo) : List (OpR × Out × Nat) → Option Spec.RFifo
  | [] => some r
  | (op, o, sz) :: rest =>
    match stepSR r op o.ret sz with
    | some (o', r') => if o' = o then acceptSR r' rest else none
    | none => none

def traceMR (c : Cbuf) (ops : List OpR) (pol : Policy := chunkPolicy) : List (OpR × Out × Nat) :=
  match ops with
  | [] => []
  | op :: ops => (op, (stepMR c op pol).1, (stepMR c op pol).2.size) :: traceMR (stepMR c op pol).2 ops pol

theorem runR_refines {c : Cbuf} (hi : Inv c) (ops : List OpR) (pol : Policy := chunkPolicy) [Admissible pol] :
    acceptSR (absR c) (traceMR c ops pol) = some (absR (runMR c ops pol).2) ∧ Inv (runMR c ops pol).2 := by
  induction ops generalizing c with
  | nil => exact ⟨rfl, hi⟩
  | cons op ops ih =>
    obtain ⟨h1, h2⟩ := stepR_refines hi op pol
    simp only [traceMR, acceptSR, h1, if_true, runMR]
    exact ih h2

/-! ### a different admissible policy at every step (the driver follows the choices it observes) -/

/-- a growth policy together with the proof that it is admissible -/
structure APolicy where
  pol : Policy
  adm : Admissible pol

instance : Inhabited APolicy := ⟨⟨chunkPolicy, inferInstance⟩⟩

def runMRp (c : Cbuf) : List (APolicy × OpR) → List Out × Cbuf
  | [] => ([], c)
  | (p, op) :: ops => let (o, c') := stepMR c op p.pol; let (os, c'') := runMRp c' ops; (o :: os, c'')

def traceMRp (c : Cbuf) : List (APolicy × OpR) → List (OpR × Out × Nat)
  | [] => []
  | (p, op) :: ops => (op, (stepMR c op p.pol).1, (stepMR c op p.pol).2.size) :: traceMRp (stepMR c op p.pol).2 ops

theorem runRp_refines {c : Cbuf} (hi : Inv c) (ops : List (APolicy × OpR)) :
    acceptSR (absR c) (traceMRp c ops) = some (absR (runMRp c ops).2) ∧ Inv (runMRp c ops).2 := by
  induction ops generalizing c with
  | nil => exact ⟨rfl, hi⟩
  | cons pop ops ih =>
    obtain ⟨p, op⟩ := pop
    haveI := p.adm
    obtain ⟨h1, h2⟩ := stepR_refines hi op p.pol
    simp only [traceMRp, acceptSR, h1, if_true, runMRp]
    exact ih h2

end PdshVerif.Cbuf
