/-
  The OUT-PARAMETER `ndropped` on every path (cbuf.h: "Sets [ndropped] (if not NULL) to the number
  of bytes overwritten"): a call that stores nothing -- zero length, nothing available, refused
  (-1) -- overwrites nothing, so it reports 0, never what the caller's variable held before.

  * `Refusal`, `stepMRefused`, `stepSRefused`: the calls the entry points refuse with EINVAL before
    they look at the buffer (NULL source, negative length, invalid descriptor, src == dst): answer
    `-1 0`, buffer untouched.  The driver executes these for the op line `refused K`.
  * `Spec.*_nothing_stored`: in the FIFO specification every writing call that returns <= 0
    reports 0 dropped bytes; `stepS_nothing_stored` / `stepM_nothing_stored` lift this to every
    operation of a history and, through `step_refines`, to the index model (any admissible growth
    policy); `copy_nothing_stored` / `move_nothing_stored` the same for the two-buffer calls.
-/
import PdshVerif.Cbuf.PairRefine

namespace PdshVerif.Cbuf

/-- the calls an entry point refuses (errno EINVAL) before touching the buffer -/
inductive Refusal where
  | writeNullSrc      -- cbuf_write (dst, NULL, 3, &nd)
  | writeNegLen       -- cbuf_write (dst, buf, -1, &nd)
  | wfdBadFd          -- cbuf_write_from_fd (dst, -1, 3, &nd)
  | copySelf          -- cbuf_copy (b, b, 2, &nd)
  | moveSelf          -- cbuf_move (b, b, -1, &nd)
  | copySelfAll       -- cbuf_copy (b, b, -1, &nd)
  | wlineNullSrc      -- cbuf_write_line (dst, NULL, &nd)
  deriving DecidableEq, Repr

def Refusal.ofNat? : Nat → Option Refusal
  | 0 => some .writeNullSrc
  | 1 => some .writeNegLen
  | 2 => some .wfdBadFd
  | 3 => some .copySelf
  | 4 => some .moveSelf
  | 5 => some .copySelfAll
  | 6 => some .wlineNullSrc
  | _ => none

/-- answer of a refused call: -1, and the out-parameter SET to 0 -/
def refusedOut : Out := { ret := -1, ndropped := 0 }

def stepMRefused (c : Cbuf) (_ : Refusal) : Out × Cbuf := (refusedOut, c)
def stepSRefused (r : Spec.RFifo) (_ : Refusal) : Out × Spec.RFifo := (refusedOut, r)

theorem refused_refines (c : Cbuf) (k : Refusal) :
    stepSRefused (absR c) k = ((stepMRefused c k).1, absR (stepMRefused c k).2) ∧
    (stepMRefused c k).1.ndropped = 0 ∧ (stepMRefused c k).2 = c := ⟨rfl, rfl, rfl⟩

namespace Spec

theorem write_nothing_stored {f0 : Fifo} {bs : List UInt8} {sz : Nat} {r : Int} {d : Nat} {f' : Fifo}
    (h : write f0 bs sz = some (r, d, f')) (hr : r ≤ 0) : d = 0 := by
  unfold write at h
  split at h
  · split at h <;> simp at h
    omega
  · split at h
    · simp at h
    · cases hm : f0.mode <;> simp only [hm] at h <;> (repeat' split at h) <;> simp at h <;> omega

theorem writeFromFd_nothing_stored {f0 : Fifo} {len : Int} {av : List UInt8} {eof : Bool} {taken : Int}
    {sz : Nat} {r : Int} {d : Nat} {f' : Fifo}
    (h : writeFromFd f0 len av eof taken sz = some (r, d, f')) (hr : r ≤ 0) : d = 0 := by
  unfold writeFromFd at h
  repeat' split at h
  all_goals (try simp at h)
  all_goals (try omega)

theorem writeLine_nothing_stored {f0 : Fifo} {s : List UInt8} {sz : Nat} {r : Int} {d : Nat} {f' : Fifo}
    (h : writeLine f0 s sz = some (r, d, f')) (hr : r ≤ 0) : d = 0 := by
  unfold writeLine at h
  have hl : 0 < (if s.length = 0 ∨ s.getLast? ≠ some 10 then s ++ [10] else s).length := by
    split
    · simp
    · rename_i hh
      have : s.length ≠ 0 := fun h0 => hh (Or.inl h0)
      omega
  generalize (if s.length = 0 ∨ s.getLast? ≠ some 10 then s ++ [10] else s) = line at h hl
  simp only at h
  repeat' split at h
  all_goals (try simp at h)
  all_goals (try omega)

theorem copy_nothing_stored {src dst : RFifo} {len : Int} {sz : Nat} {r : Int} {d : Nat} {dst' : RFifo}
    (h : copy src dst len sz = some (r, d, dst')) (hr : r ≤ 0) : d = 0 := by
  unfold copy at h
  split at h
  · split at h <;> simp at h
    omega
  · simp only [Option.map_eq_some_iff] at h
    obtain ⟨⟨r0, d0, f0⟩, hw, he⟩ := h
    simp only [Prod.mk.injEq] at he
    obtain ⟨h1, h2, _⟩ := he
    subst h1 h2
    exact write_nothing_stored hw hr

theorem move_nothing_stored {src dst : RFifo} {len : Int} {sz : Nat} {r : Int} {d : Nat} {src' dst' : RFifo}
    (h : move src dst len sz = some (r, d, src', dst')) (hr : r ≤ 0) : d = 0 := by
  unfold move at h
  simp only [Option.map_eq_some_iff] at h
  obtain ⟨⟨r0, d0, f0⟩, hw, he⟩ := h
  simp only [Prod.mk.injEq] at he
  obtain ⟨h1, h2, _⟩ := he
  subst h1 h2
  exact copy_nothing_stored hw hr

end Spec

/-- specification, every operation: an answer <= 0 carries a drop count of 0 -/
theorem stepS_nothing_stored {f : Spec.Fifo} {op : Op} {ir : Int} {sz : Nat} {o : Out} {f' : Spec.Fifo}
    (h : stepS f op ir sz = some (o, f')) (hr : o.ret ≤ 0) : o.ndropped = 0 := by
  cases op with
  | write bs =>
    simp only [stepS, Option.map_eq_some_iff] at h
    obtain ⟨⟨r0, d0, f0⟩, hw, he⟩ := h
    simp only [Prod.mk.injEq] at he
    obtain ⟨h1, _⟩ := he
    subst h1
    exact Spec.write_nothing_stored hw hr
  | writeFromFd len av eof =>
    simp only [stepS, Option.map_eq_some_iff] at h
    obtain ⟨⟨r0, d0, f0⟩, hw, he⟩ := h
    simp only [Prod.mk.injEq] at he
    obtain ⟨h1, _⟩ := he
    subst h1
    exact Spec.writeFromFd_nothing_stored hw hr
  | writeLine s =>
    simp only [stepS, Option.map_eq_some_iff] at h
    obtain ⟨⟨r0, d0, f0⟩, hw, he⟩ := h
    simp only [Prod.mk.injEq] at he
    obtain ⟨h1, _⟩ := he
    subst h1
    exact Spec.writeLine_nothing_stored hw hr
  | read len => simp only [stepS, Option.some.injEq, Prod.mk.injEq] at h; rw [← h.1]
  | peek len => simp only [stepS, Option.some.injEq, Prod.mk.injEq] at h; rw [← h.1]
  | drop len => simp only [stepS, Option.some.injEq, Prod.mk.injEq] at h; rw [← h.1]
  | readLine len lines => simp only [stepS, Option.some.injEq, Prod.mk.injEq] at h; rw [← h.1]
  | peekLine len lines => simp only [stepS, Option.some.injEq, Prod.mk.injEq] at h; rw [← h.1]
  | dropLine len lines => simp only [stepS, Option.some.injEq, Prod.mk.injEq] at h; rw [← h.1]
  | flush => simp only [stepS, Option.some.injEq, Prod.mk.injEq] at h; rw [← h.1]
  | optSet v => simp only [stepS, Option.some.injEq, Prod.mk.injEq] at h; rw [← h.1]

/-- index model, every operation, every admissible growth policy: a call that stored nothing
    (zero length, nothing available, refused) SETS the out-parameter to 0 -/
theorem stepM_nothing_stored {c : Cbuf} (hi : Inv c) (op : Op) (pol : Policy := chunkPolicy) [Admissible pol]
    (hr : (stepM c op pol).1.ret ≤ 0) : (stepM c op pol).1.ndropped = 0 :=
  stepS_nothing_stored (step_refines hi op pol).1 hr

/-- the two-buffer calls of the index model -/
theorem copy_nothing_stored {src dst : Cbuf} (hd : Inv dst) (len : Int) (pol : Policy := chunkPolicy)
    [Admissible pol] (hr : (copy src dst len pol).1 ≤ 0) : (copy src dst len pol).2.1 = 0 := by
  have h := (copy_refines (src := src) hd len pol).1
  exact Spec.copy_nothing_stored h hr

/-- non-vacuity: a zero-length write into a buffer that just dropped bytes answers `0 0` -/
example :
    let c := (create 2 2 0).get!
    let c1 := (stepM c (.write [1, 2, 3])).2
    (stepM c (.write [1, 2, 3])).1.ndropped = 1 ∧ (stepM c1 (.write [])).1 = { ret := 0, ndropped := 0 } := by
  decide

end PdshVerif.Cbuf
