/-
  `cbuf_grow` preserves the invariant and the unread contents.
-/
import PdshVerif.Cbuf.Inv

namespace PdshVerif.Cbuf

theorem getD_append_left (a b : Array UInt8) (j : Nat) (h : j < a.size) :
    (a ++ b).getD j 0 = a.getD j 0 := by
  simp [Array.getD_eq_getD_getElem?, Array.getElem?_append_left h]

/-- two byte lists of the same length agree when they agree pointwise -/
theorem circRead_ext (d d' : Array UInt8) (m m' s s' n : Nat) (hm : 0 < m) (hm' : 0 < m')
    (h : ∀ k, k < n → d.getD ((s + k) % m) 0 = d'.getD ((s' + k) % m') 0) :
    circRead d m s n = circRead d' m' s' n := by
  apply List.ext_getElem (by simp)
  intro k h1 h2
  rw [circRead_getElem d m s n k hm h1, circRead_getElem d' m' s' n k hm' h2]
  exact h k (by simpa using h1)

structure GrowOk (c c' : Cbuf) (g : Nat) : Prop where
  inv : Inv c'
  size : c'.size = c.size + g
  pos : 0 < g
  contents : contents c' = contents c
  used : c'.used = c.used
  mode : c'.mode = c.mode
  minsize : c'.minsize = c.minsize
  maxsize : c'.maxsize = c.maxsize
  /-- growth is by at least the amount asked for, unless capped at the maximum -/
  enough : ∀ n (pol : Policy) [Admissible pol], (grow c n pol).1 = c' → n ≤ g ∨ c'.size = c.maxsize
  /-- bytes of replay data between i_rep and i_out are kept: nrepl unchanged -/
  nrepl : (c'.iOut + (c'.size + 1) - c'.iRep) % (c'.size + 1) = (c.iOut + (c.size + 1) - c.iRep) % (c.size + 1)

theorem grow_ok {c : Cbuf} (hi : Inv c) (n : Nat) (hlt : c.size < c.maxsize) (hn : 0 < n)
    (pol : Policy := chunkPolicy) [hadm : Admissible pol] :
    GrowOk c (grow c n pol).1 (grow c n pol).2 := by
  have := hi.spos; have := hi.smin; have := hi.smax; have := hi.alloc; have := hi.used
  have := hi.iin; have := hi.iout; have := hi.irep; have hio := hi.inout; have hw := hi.wrap
  have hr := hi.rep; have hds := hi.dsize
  have hne : ¬ c.size = c.maxsize := by omega
  -- the new size
  have hpx := hadm.enough c.alloc n c.minsize c.maxsize
  generalize hx : pol c.alloc n c.minsize c.maxsize = x at hpx
  have hsz : ∀ s', s' = min x (c.maxsize + (c.alloc - c.size)) - (c.alloc - c.size) →
      c.size < s' ∧ s' ≤ c.maxsize ∧ (c.size + n ≤ s' ∨ s' = c.maxsize) := by
    intro s' hs'; omega
  generalize hs' : min x (c.maxsize + (c.alloc - c.size)) - (c.alloc - c.size) = s' at hsz
  have ⟨hs1, hs2, hs3⟩ := hsz s' rfl
  have halloc : s' < min x (c.maxsize + (c.alloc - c.size)) := by omega
  by_cases hrep : c.iRep > c.iIn
  · -- replay data wraps around the old buffer: it is moved to the new end
    have hgw : c.gotWrap = true := by rcases hw with h | h; exact h; omega
    by_cases hoi : c.iOut ≥ c.iRep
    · have hg : grow c n pol =
          ({ c with alloc := min x (c.maxsize + (c.alloc - c.size)), size := s',
                    data := circWrite (c.data ++ Array.replicate (s' - c.size) 0) (s' + 1)
                              (s' + 1 - (c.size + 1 - c.iRep))
                              (circRead c.data (c.size + 1) c.iRep (c.size + 1 - c.iRep)),
                    iOut := c.iOut + (s' + 1 - (c.size + 1 - c.iRep) - c.iRep),
                    iRep := s' + 1 - (c.size + 1 - c.iRep) }, s' - c.size) := by
        simp only [grow, hne, if_false, hrep, if_true, hx, hs', hoi]
      rw [hg]
      have hdsz : (c.data ++ Array.replicate (s' - c.size) 0).size = s' + 1 := by simp [hds]; omega
      refine ⟨⟨by simp [hdsz], by simp; omega, by simp; omega, by simp; omega, by simpa using halloc,
          by simp; omega, by simp; omega, by simp; omega, by simp; omega, by simp only; omega,
          by simp [hgw], by simp only; omega, hi.mpos⟩,
        by simp; omega, by simp; omega, ?_, rfl, rfl, rfl, rfl, ?_, ?_⟩
      · -- contents
        simp only [contents]
        apply circRead_ext _ _ _ _ _ _ _ (by omega) (by omega)
        intro k hk
        have hmv : (circRead c.data (c.size + 1) c.iRep (c.size + 1 - c.iRep)).length = c.size + 1 - c.iRep := by simp
        have hold := @wrap_cases (c.iOut + k) (c.size + 1) (by omega)
        have hnew := @wrap_cases (c.iOut + (s' + 1 - (c.size + 1 - c.iRep) - c.iRep) + k) (s' + 1) (by omega)
        have hmm : (s' + 1 - (c.size + 1 - c.iRep)) % (s' + 1) = s' + 1 - (c.size + 1 - c.iRep) :=
          Nat.mod_eq_of_lt (by omega)
        have hdc := dist_cases (s' + 1) (s' + 1 - (c.size + 1 - c.iRep))
          ((c.iOut + (s' + 1 - (c.size + 1 - c.iRep) - c.iRep) + k) % (s' + 1))
        by_cases hk1 : c.iOut + k < c.size + 1
        · -- the cell lies in the moved tail
          have hd : dist (s' + 1) (s' + 1 - (c.size + 1 - c.iRep))
              ((c.iOut + (s' + 1 - (c.size + 1 - c.iRep) - c.iRep) + k) % (s' + 1)) = c.iOut + k - c.iRep := by
            omega
          rw [circWrite_getD_in _ (s' + 1) _ _ _ hdsz (Nat.mod_lt _ (by omega)) (by rw [hmv]; omega)
                (by rw [hmm, hmv, hd]; omega)]
          rw [circRead_getElem _ _ _ _ _ (by omega)]
          congr 1
          rw [hmm, hd]
          have := @wrap_cases (c.iRep + (c.iOut + k - c.iRep)) (c.size + 1) (by omega)
          omega
        · -- the cell lies in the wrapped head [0, iIn): untouched
          have hd : ¬ dist (s' + 1) (s' + 1 - (c.size + 1 - c.iRep))
              ((c.iOut + (s' + 1 - (c.size + 1 - c.iRep) - c.iRep) + k) % (s' + 1)) < c.size + 1 - c.iRep := by
            omega
          rw [circWrite_getD_out _ (s' + 1) _ _ _ hdsz (Nat.mod_lt _ (by omega)) (by rw [hmv]; omega)
                (by rw [hmm, hmv]; exact hd)]
          have heq : (c.iOut + (s' + 1 - (c.size + 1 - c.iRep) - c.iRep) + k) % (s' + 1) =
              (c.iOut + k) % (c.size + 1) := by omega
          rw [heq]
          exact getD_append_left _ _ _ (by rw [hds]; omega)
      · intro n' pol' hadm' hn'
        simp only at hs3 ⊢
        have := congrArg Cbuf.size hn'
        simp only [grow, hne, if_false, hrep, if_true] at this
        have hpy := hadm'.enough c.alloc n' c.minsize c.maxsize
        generalize pol' c.alloc n' c.minsize c.maxsize = y at this hpy
        omega
      · simp only
        have := @wrap_cases (c.iOut + (s' + 1 - (c.size + 1 - c.iRep) - c.iRep) + (s' + 1) - (s' + 1 - (c.size + 1 - c.iRep))) (s' + 1) (by omega)
        have := @wrap_cases (c.iOut + (c.size + 1) - c.iRep) (c.size + 1) (by omega)
        omega
    · have hg : grow c n pol =
          ({ c with alloc := min x (c.maxsize + (c.alloc - c.size)), size := s',
                    data := circWrite (c.data ++ Array.replicate (s' - c.size) 0) (s' + 1)
                              (s' + 1 - (c.size + 1 - c.iRep))
                              (circRead c.data (c.size + 1) c.iRep (c.size + 1 - c.iRep)),
                    iOut := c.iOut,
                    iRep := s' + 1 - (c.size + 1 - c.iRep) }, s' - c.size) := by
        simp only [grow, hne, if_false, hrep, if_true, hx, hs', hoi]
      rw [hg]
      have hdsz : (c.data ++ Array.replicate (s' - c.size) 0).size = s' + 1 := by simp [hds]; omega
      refine ⟨⟨by simp [hdsz], by simp; omega, by simp; omega, by simp; omega, by simpa using halloc,
          by simp; omega, by simp; omega, by simp; omega, by simp; omega, by simp only; omega,
          by simp [hgw], by simp only; omega, hi.mpos⟩,
        by simp; omega, by simp; omega, ?_, rfl, rfl, rfl, rfl, ?_, ?_⟩
      · -- unread data lies below i_rep, contiguous, untouched
        simp only [contents]
        apply circRead_ext _ _ _ _ _ _ _ (by omega) (by omega)
        intro k hk
        have hmv : (circRead c.data (c.size + 1) c.iRep (c.size + 1 - c.iRep)).length = c.size + 1 - c.iRep := by simp
        have hcont : c.iOut + k < c.iRep := by omega
        rw [Nat.mod_eq_of_lt (show c.iOut + k < s' + 1 by omega),
            Nat.mod_eq_of_lt (show c.iOut + k < c.size + 1 by omega)]
        have hmm : (s' + 1 - (c.size + 1 - c.iRep)) % (s' + 1) = s' + 1 - (c.size + 1 - c.iRep) :=
          Nat.mod_eq_of_lt (by omega)
        have hdc := dist_cases (s' + 1) (s' + 1 - (c.size + 1 - c.iRep)) (c.iOut + k)
        have hd : ¬ dist (s' + 1) (s' + 1 - (c.size + 1 - c.iRep)) (c.iOut + k) < c.size + 1 - c.iRep := by
          omega
        rw [circWrite_getD_out _ (s' + 1) _ _ _ hdsz (by omega) (by rw [hmv]; omega)
              (by rw [hmm, hmv]; exact hd)]
        exact getD_append_left _ _ _ (by rw [hds]; omega)
      · intro n' pol' hadm' hn'
        simp only at hs3 ⊢
        have := congrArg Cbuf.size hn'
        simp only [grow, hne, if_false, hrep, if_true] at this
        have hpy := hadm'.enough c.alloc n' c.minsize c.maxsize
        generalize pol' c.alloc n' c.minsize c.maxsize = y at this hpy
        omega
      · simp only
        have := @wrap_cases (c.iOut + (s' + 1) - (s' + 1 - (c.size + 1 - c.iRep))) (s' + 1) (by omega)
        have := @wrap_cases (c.iOut + (c.size + 1) - c.iRep) (c.size + 1) (by omega)
        omega
  · -- replay data does not wrap: the buffer is simply extended
    have hg : grow c n pol =
        ({ c with alloc := min x (c.maxsize + (c.alloc - c.size)), size := s',
                  data := c.data ++ Array.replicate (s' - c.size) 0 }, s' - c.size) := by
      simp only [grow, hne, if_false, hrep, hx, hs']
    rw [hg]
    have hdsz : (c.data ++ Array.replicate (s' - c.size) 0).size = s' + 1 := by simp [hds]; omega
    -- the unread region cannot wrap in this layout
    have hnowrap : c.iOut + c.used < c.size + 1 := by omega
    refine ⟨⟨by simp [hdsz], by simp; omega, by simp; omega, by simp; omega, by simpa using halloc,
        by simp; omega, by simp; omega, by simp; omega, by simp; omega, by simp only; omega,
        by simpa using hw, by simp only; omega, hi.mpos⟩,
      by simp; omega, by simp; omega, ?_, rfl, rfl, rfl, rfl, ?_, ?_⟩
    · simp only [contents]
      apply circRead_ext _ _ _ _ _ _ _ (by omega) (by omega)
      intro k hk
      rw [Nat.mod_eq_of_lt (show c.iOut + k < s' + 1 by omega),
          Nat.mod_eq_of_lt (show c.iOut + k < c.size + 1 by omega)]
      exact getD_append_left _ _ _ (by rw [hds]; omega)
    · intro n' pol' hadm' hn'
      simp only at hs3 ⊢
      have := congrArg Cbuf.size hn'
      simp only [grow, hne, if_false, hrep] at this
      have hpy := hadm'.enough c.alloc n' c.minsize c.maxsize
      generalize pol' c.alloc n' c.minsize c.maxsize = y at this hpy
      omega
    · simp only
      have h3 : c.iRep ≤ c.iOut := by
        rcases Nat.lt_or_ge c.iIn c.iOut with h | h
        · exact (hr.2 h).2
        · rcases hr.1 h with h' | h'
          · omega
          · exact h'
      have e1 : c.iOut + (s' + 1) - c.iRep = (c.iOut - c.iRep) + (s' + 1) := by omega
      have e2 : c.iOut + (c.size + 1) - c.iRep = (c.iOut - c.iRep) + (c.size + 1) := by omega
      rw [e1, e2, Nat.add_mod_right, Nat.add_mod_right, Nat.mod_eq_of_lt (by omega),
          Nat.mod_eq_of_lt (by omega)]

end PdshVerif.Cbuf
