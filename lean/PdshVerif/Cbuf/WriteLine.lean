/-
  `cbuf_write_line` refines the specification (two chained `cbuf_writer` calls).
-/
import PdshVerif.Cbuf.Refine

namespace PdshVerif.Cbuf

/-- once the buffer fits the request or is at its maximum, `maybeGrow` for a smaller request is a no-op -/
theorem maybeGrow_noop {c : Cbuf} (n : Nat) (h : n ≤ c.size - c.used ∨ c.size = c.maxsize) :
    maybeGrow c n = (c, c.size - c.used) := by
  unfold maybeGrow
  have : ¬ (n > c.size - c.used ∧ c.size < c.maxsize) := by omega
  simp [this]

/-- a memory write that is known to fit the mode's limits stores all its bytes -/
theorem writer_mem_all {c : Cbuf} (hi : Inv c) (bs : List UInt8) (hpos : 0 < bs.length)
    (hng : bs.length ≤ c.size - c.used ∨ c.size = c.maxsize)
    (hfit : match c.mode with
      | .noDrop => bs.length ≤ c.size - c.used
      | .wrapOnce => bs.length ≤ c.size
      | .wrapMany => True) :
    let r := writer c bs.length (.mem bs)
    Inv r.c ∧ r.c.size = c.size ∧ r.c.mode = c.mode ∧ r.c.minsize = c.minsize ∧ r.c.maxsize = c.maxsize ∧
    r.c.used = min (c.used + bs.length) c.size ∧
    r.ndropped = bs.length - (c.size - c.used) ∧
    contents r.c = (contents c ++ bs).drop ((contents c ++ bs).length - c.size) := by
  obtain ⟨_, hcore⟩ := writer_ok hi bs.length hpos (.mem bs) (by simp [Src.ok])
  rw [maybeGrow_noop bs.length hng] at hcore
  simp only at hcore
  have hel : effLen c bs.length = some bs.length := by
    unfold effLen
    cases hm : c.mode <;> simp only [hm] at hfit ⊢
    · have : min bs.length (c.size - c.used) = bs.length := by omega
      rw [this]
      have h0 : ¬ bs.length = 0 := by omega
      simp only [h0, if_false]
    · have : min bs.length c.size = bs.length := by omega
      rw [this]
  rw [hel] at hcore
  obtain ⟨_, _, hco⟩ := hcore
  have hav : (Src.mem bs).avail bs.length = bs := by simp [Src.avail]
  obtain ⟨_, e2, e3, e4, e5, e6, e7, e8⟩ := hco.some (by rw [hav]; exact hpos)
  rw [hav] at e2 e8
  refine ⟨e3, e4, e5, e6, e7, ?_, e2, e8⟩
  have := contents_length (writer c bs.length (.mem bs)).c
  rw [e8] at this
  simp only [List.length_drop, List.length_append, contents_length] at this
  omega

theorem drop_drop_append (a b : List UInt8) (n : Nat) :
    ((a ++ b).drop ((a ++ b).length - n)) =
      if b.length ≥ n then b.drop (b.length - n) else a.drop (a.length + b.length - n) ++ b := by
  split
  · rename_i h
    rw [List.drop_append]
    have h1 : (a ++ b).length - n ≥ a.length := by simp; omega
    rw [List.drop_of_length_le h1]
    simp only [List.nil_append, List.length_append]
    congr 1; omega
  · rename_i h
    rw [List.drop_append]
    simp only [List.length_append]
    have : a.length + b.length - n - a.length = 0 := by omega
    rw [this]; simp

/-- keeping the newest `n` twice is keeping the newest `n` of the concatenation -/
theorem lastN_lastN (a b : List UInt8) (n : Nat) :
    ((a ++ b).drop ((a ++ b).length - n) ++ [10]).drop (((a ++ b).drop ((a ++ b).length - n) ++ [10]).length - n) =
      (a ++ b ++ [10]).drop ((a ++ b ++ [10]).length - n) := by
  generalize a ++ b = l
  simp only [List.length_append, List.length_drop, List.length_cons, List.length_nil]
  by_cases h : l.length ≤ n
  · have h0 : l.length - n = 0 := by omega
    simp [h0]
  · rw [List.drop_append, List.drop_append]
    simp only [List.length_drop, List.drop_drop]
    congr 1
    · congr 1; omega
    · congr 1; omega

end PdshVerif.Cbuf
