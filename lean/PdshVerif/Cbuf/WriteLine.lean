/-
  `cbuf_write_line` refines the specification (two chained `cbuf_writer` calls).
-/
import PdshVerif.Cbuf.Refine
import PdshVerif.Cbuf.Whole
import PdshVerif.Cbuf.WrapFlag

namespace PdshVerif.Cbuf

/-- once the buffer fits the request or is at its maximum, `maybeGrow` for a smaller request is a no-op -/
theorem maybeGrow_noop {c : Cbuf} (n : Nat) (h : n ≤ c.size - c.used ∨ c.size = c.maxsize)
    (pol : Policy := chunkPolicy) :
    maybeGrow c n pol = (c, c.size - c.used) := by
  unfold maybeGrow
  have : ¬ (n > c.size - c.used ∧ c.size < c.maxsize) := by omega
  simp [this]

/-- a memory write that is known to fit the mode's limits stores all its bytes -/
theorem writer_mem_all {c : Cbuf} (hi : Inv c) (bs : List UInt8) (hpos : 0 < bs.length)
    (hng : bs.length ≤ c.size - c.used ∨ c.size = c.maxsize)
    (hfit : match c.mode with
      | .noDrop => bs.length ≤ c.size - c.used
      | .wrapOnce => bs.length ≤ c.size
      | .wrapMany => True) (pol : Policy := chunkPolicy) [Admissible pol] :
    let r := writer c bs.length (.mem bs) pol
    Inv r.c ∧ r.c.size = c.size ∧ r.c.mode = c.mode ∧ r.c.minsize = c.minsize ∧ r.c.maxsize = c.maxsize ∧
    r.c.used = min (c.used + bs.length) c.size ∧
    r.ndropped = bs.length - (c.size - c.used) ∧
    contents r.c = (contents c ++ bs).drop ((contents c ++ bs).length - c.size) ∧
    whole r.c = Spec.lastN c.size (whole c ++ bs) ∧
    r.ret = (bs.length : Int) ∧
    r.c.gotWrap = (c.gotWrap || decide (reused c + c.used + bs.length > c.size)) := by
  have hww := writer_whole hi bs.length hpos (.mem bs) (by simp [Src.ok]) pol
  have hgf := writer_gotWrap hi bs.length hpos (.mem bs) (by simp [Src.ok]) pol
  obtain ⟨_, hcore⟩ := writer_ok hi bs.length hpos (.mem bs) (by simp [Src.ok]) pol
  rw [maybeGrow_noop bs.length hng pol] at hcore
  simp only at hcore
  have hel : effLen c bs.length = some bs.length := by
    unfold effLen
    cases hm : c.mode <;> simp only [hm] at hfit ⊢
    · have : min bs.length (c.size - c.used) = bs.length := by omega
      rw [this]
      have h0 : ¬ bs.length = 0 := by omega
      simp only [h0, if_false]
    · have : min bs.length c.size = bs.length := by omega
      rw [this]
  rw [hel] at hcore
  obtain ⟨_, _, hco⟩ := hcore
  have hav : (Src.mem bs).avail bs.length = bs := by simp [Src.avail]
  obtain ⟨e1, e2, e3, e4, e5, e6, e7, e8⟩ := hco.some (by rw [hav]; exact hpos)
  rw [hav] at e1 e2 e8
  refine ⟨e3, e4, e5, e6, e7, ?_, e2, e8, ?_, e1, ?_⟩
  rotate_left
  · rw [hww, e1, e4, Int.toNat_natCast]
    simp only [Src.bytes, List.take_length]
  · rw [hgf, e1, e4, Int.toNat_natCast]
  have := contents_length (writer c bs.length (.mem bs) pol).c
  rw [e8] at this
  simp only [List.length_drop, List.length_append, contents_length] at this
  omega

theorem drop_drop_append (a b : List UInt8) (n : Nat) :
    ((a ++ b).drop ((a ++ b).length - n)) =
      if b.length ≥ n then b.drop (b.length - n) else a.drop (a.length + b.length - n) ++ b := by
  split
  · rename_i h
    rw [List.drop_append]
    have h1 : (a ++ b).length - n ≥ a.length := by simp; omega
    rw [List.drop_of_length_le h1]
    simp only [List.nil_append, List.length_append]
    congr 1; omega
  · rename_i h
    rw [List.drop_append]
    simp only [List.length_append]
    have : a.length + b.length - n - a.length = 0 := by omega
    rw [this]; simp

/-- keeping the newest `n` twice is keeping the newest `n` of the concatenation -/
theorem lastN_lastN (a b : List UInt8) (n : Nat) :
    ((a ++ b).drop ((a ++ b).length - n) ++ [10]).drop (((a ++ b).drop ((a ++ b).length - n) ++ [10]).length - n) =
      (a ++ b ++ [10]).drop ((a ++ b ++ [10]).length - n) := by
  generalize a ++ b = l
  simp only [List.length_append, List.length_drop, List.length_cons, List.length_nil]
  by_cases h : l.length ≤ n
  · have h0 : l.length - n = 0 := by omega
    simp [h0]
  · rw [List.drop_append, List.drop_append]
    simp only [List.length_drop, List.drop_drop]
    congr 1
    · congr 1; omega
    · congr 1; omega

end PdshVerif.Cbuf

namespace PdshVerif.Cbuf

theorem maybeGrow_fst (c0 : Cbuf) (len : Nat) (pol : Policy := chunkPolicy) :
    (if len > c0.size - c0.used ∧ c0.size < c0.maxsize then (grow c0 (len - (c0.size - c0.used)) pol).1 else c0) =
      (maybeGrow c0 len pol).1 := by
  by_cases h : len > c0.size - c0.used ∧ c0.size < c0.maxsize
  · simp only [maybeGrow, h, and_self, if_true]
  · simp only [maybeGrow, h, if_false]

/-- what the two chained writer calls of `cbuf_write_line` leave behind -/
theorem writeLine_core {c : Cbuf} (hi : Inv c) (psrc : List UInt8) (needNl : Bool) (total : Nat)
    (htot : total = psrc.length + (if needNl then 1 else 0)) (hpos : 0 < total)
    (hng : total ≤ c.size - c.used ∨ c.size = c.maxsize)
    (hfit : match c.mode with
      | .noDrop => total ≤ c.size - c.used
      | .wrapOnce => total ≤ c.size
      | .wrapMany => total ≤ c.size) (pol : Policy := chunkPolicy) [Admissible pol] :
    let r1 := if psrc.length > 0 then
        let r := writer c psrc.length (.mem psrc) pol; (r.c, r.ndropped)
      else (c, 0)
    let r2 := if needNl then
        let r := writer r1.1 1 (.mem [10]) pol; (r.c, r.ndropped)
      else (r1.1, 0)
    Inv r2.1 ∧ r2.1.size = c.size ∧ r2.1.mode = c.mode ∧ r2.1.minsize = c.minsize ∧ r2.1.maxsize = c.maxsize ∧
    r1.2 + r2.2 = total - (c.size - c.used) ∧
    contents r2.1 = (contents c ++ psrc ++ (if needNl then [10] else [])).drop
      ((contents c ++ psrc ++ (if needNl then [10] else [])).length - c.size) ∧
    whole r2.1 = Spec.lastN c.size (whole c ++ psrc ++ (if needNl then [10] else [])) ∧
    r2.1.gotWrap = (c.gotWrap || decide (reused c + c.used + total > c.size)) := by
  have hu := hi.used
  have hcl := contents_length c
  -- first call
  have h1 : ∃ c1 d1, (if psrc.length > 0 then
        let r := writer c psrc.length (.mem psrc) pol; (r.c, r.ndropped) else (c, 0)) = (c1, d1) ∧
      Inv c1 ∧ c1.size = c.size ∧ c1.mode = c.mode ∧ c1.minsize = c.minsize ∧ c1.maxsize = c.maxsize ∧
      c1.used = min (c.used + psrc.length) c.size ∧ d1 = psrc.length - (c.size - c.used) ∧
      contents c1 = (contents c ++ psrc).drop ((contents c ++ psrc).length - c.size) ∧
      whole c1 = Spec.lastN c.size (whole c ++ psrc) ∧
      c1.gotWrap = (c.gotWrap || decide (reused c + c.used + psrc.length > c.size)) := by
    have hsum0 := (reused_facts hi).1
    by_cases hp : psrc.length > 0
    · have hw := writer_mem_all hi psrc hp (by omega)
        (by cases hm : c.mode <;> simp only [hm] at hfit ⊢ <;> omega) pol
      simp only [hp, if_true]
      exact ⟨_, _, rfl, hw.1, hw.2.1, hw.2.2.1, hw.2.2.2.1, hw.2.2.2.2.1, hw.2.2.2.2.2.1, hw.2.2.2.2.2.2.1,
        hw.2.2.2.2.2.2.2.1, hw.2.2.2.2.2.2.2.2.1, hw.2.2.2.2.2.2.2.2.2.2⟩
    · have hnil : psrc = [] := List.eq_nil_of_length_eq_zero (by omega)
      simp only [hp, if_false]
      refine ⟨c, 0, rfl, hi, rfl, rfl, rfl, rfl, ?_, ?_, ?_, ?_, ?_⟩
      · subst hnil; simp; omega
      · subst hnil; simp
      · subst hnil; simp [hcl]; have : c.used - c.size = 0 := by omega
        rw [this]; simp
      · subst hnil; rw [List.append_nil, lastN_all _ _ (whole_le hi)]
      · subst hnil
        have : decide (reused c + c.used + ([] : List UInt8).length > c.size) = false := by
          simp only [List.length_nil, decide_eq_false_iff_not]; omega
        rw [this, Bool.or_false]
  obtain ⟨c1, d1, he1, hi1, hs1, hm1, hmin1, hmax1, hu1, hd1, hq1, hwh1, hgw1⟩ := h1
  -- how much the buffer holds after the first call
  have hheld1 : reused c1 + c1.used = min (reused c + c.used + psrc.length) c.size := by
    have := congrArg List.length hwh1
    rw [whole_length] at this
    simp only [Spec.lastN, List.length_drop, List.length_append, whole_length] at this
    omega
  simp only [he1]
  cases needNl with
  | false =>
    simp only [Bool.false_eq_true, if_false, List.append_nil, Nat.add_zero] at htot ⊢
    refine ⟨hi1, hs1, hm1, hmin1, hmax1, by omega, hq1, hwh1, ?_⟩
    rw [hgw1, htot]
  | true =>
    simp only [if_true] at htot ⊢
    have hw := writer_mem_all hi1 [10] (by simp)
      (by simp only [List.length_cons, List.length_nil]; rw [hs1, hu1, hmax1]; omega)
      (by rw [hm1]; cases hm : c.mode <;> simp only [hm] at hfit ⊢ <;>
            simp only [List.length_cons, List.length_nil] <;> (try rw [hs1, hu1]) <;> omega) pol
    simp only [List.length_cons, List.length_nil, Nat.zero_add] at hw
    obtain ⟨w1, w2, w3, w4, w5, _, w7, w8, w9, _, w11⟩ := hw
    refine ⟨w1, by rw [w2, hs1], by rw [w3, hm1], by rw [w4, hmin1], by rw [w5, hmax1], ?_, ?_, ?_, ?_⟩
    rotate_left 3
    · -- the flag after both calls
      rw [w11, hgw1, hheld1, hs1, htot]
      by_cases h : reused c + c.used + psrc.length > c.size
      · have h2 : reused c + c.used + (psrc.length + 1) > c.size := by omega
        simp [h, h2]
      · have : min (reused c + c.used + psrc.length) c.size = reused c + c.used + psrc.length := by omega
        rw [this]
        have e : reused c + c.used + psrc.length + 1 = reused c + c.used + (psrc.length + 1) := by omega
        simp [h, e]
    · rw [w7, hd1, hs1, hu1]; omega
    · rw [w8, hq1, hs1]
      exact lastN_lastN (contents c) psrc c.size
    · rw [w9, hwh1, hs1]
      exact lastN_lastN (whole c) psrc c.size

end PdshVerif.Cbuf

namespace PdshVerif.Cbuf

theorem lastN_of_tail_ge (q x : List UInt8) (n : Nat) (h : n ≤ x.length) :
    (q ++ x).drop ((q ++ x).length - n) = x.drop (x.length - n) := by
  rw [drop_drop_append]; simp [h]

theorem lastN_drop_prefix (a b : List UInt8) (k n : Nat) (hk : k ≤ a.length)
    (h : n ≤ (a.drop k ++ b).length) :
    (a.drop k ++ b).drop ((a.drop k ++ b).length - n) = (a ++ b).drop ((a ++ b).length - n) := by
  have e : a ++ b = a.take k ++ (a.drop k ++ b) := by
    rw [← List.append_assoc, List.take_append_drop]
  conv => rhs; rw [e]
  rw [lastN_of_tail_ge _ _ _ h]

theorem writeLine_refines {c0 : Cbuf} (hi : Inv c0) (s : List UInt8) (pol : Policy := chunkPolicy) [Admissible pol] :
    Spec.writeLine (abs c0) s (writeLine c0 s pol).2.2.size =
      some ((writeLine c0 s pol).1, (writeLine c0 s pol).2.1, abs (writeLine c0 s pol).2.2) ∧
    Inv (writeLine c0 s pol).2.2 ∧
    whole (writeLine c0 s pol).2.2 = Spec.lastN (writeLine c0 s pol).2.2.size
      (whole c0 ++ if (writeLine c0 s pol).1 < 0 then [] else
        (if s.length = 0 ∨ s.getLast? ≠ some 10 then s ++ [10] else s)) ∧
    -- got_wrap: an over-long line is cut to the capacity BEFORE it is written
    (writeLine c0 s pol).2.2.gotWrap = (c0.gotWrap || decide (reused c0 + c0.used +
      (if (writeLine c0 s pol).1 < 0 then 0 else
        min (if s.length = 0 ∨ s.getLast? ≠ some 10 then s ++ [10] else s).length (writeLine c0 s pol).2.2.size) >
      (writeLine c0 s pol).2.2.size)) := by
  have hgm : ∀ len, (maybeGrow c0 len pol).1.gotWrap = c0.gotWrap ∧ reused (maybeGrow c0 len pol).1 = reused c0 :=
    fun len => maybeGrow_meta hi len pol
  have hgw0 : ∀ len, whole (maybeGrow c0 len pol).1 = whole c0 := fun len => maybeGrow_whole hi len pol
  unfold writeLine
  simp only [maybeGrow_fst]
  -- the line actually appended
  generalize hnl : decide (s.length = 0 ∨ s.getLast? ≠ some 10) = needNl
  have hnl' : (s.length = 0 ∨ s.getLast? ≠ some 10) ↔ needNl = true := by
    rw [← hnl]; simp
  simp only [hnl']
  generalize hlen : (if needNl = true then s.length + 1 else s.length) = len
  have hg := maybeGrow_ok hi len pol
  have hgw := hgw0 len
  have hgmeta := hgm len
  generalize (maybeGrow c0 len pol).1 = c at hg hgw hgmeta
  generalize (maybeGrow c0 len pol).2 = nf at hg
  obtain ⟨hgflag, hgreu⟩ := hgmeta
  have hgused := hg.used
  have hsumc := (reused_facts hg.inv).1
  have hci := hg.inv
  have hsp := hci.spos; have hu := hci.used
  have hcl : (contents c0).length = c.used := by rw [contents_length, hg.used]
  have hen := hg.enough
  have hline : (if s.length = 0 ∨ s.getLast? ≠ some 10 then s ++ [10] else s) =
      s ++ (if needNl = true then [10] else []) := by
    cases needNl with
    | true => have := hnl'.2 rfl; rw [if_pos this]; rfl
    | false =>
      have : ¬ (s.length = 0 ∨ s.getLast? ≠ some 10) := fun h => by have := hnl'.1 h; cases this
      rw [if_neg this]; simp
  have hll : (s ++ (if needNl = true then [10] else [])).length = len := by
    rw [← hlen]; cases needNl <;> simp
  have hlpos : 0 < len := by
    rw [← hlen]; cases needNl with
    | true => simp
    | false =>
      have : ¬ (s.length = 0 ∨ s.getLast? ≠ some 10) := fun h => by have := hnl'.1 h; cases this
      simp; omega
  have hadm : Spec.admitSize (abs c0) c.size = true := by
    have := hg.sizeLo; have := hci.smax; have := hg.maxsize
    rw [admitSize_iff]; simp only [abs_size, abs_maxsize]; omega
  have habs : Spec.Fifo.mk (contents c0) c.size c0.minsize c0.maxsize (absMode c0.mode) = abs c := by
    simp [abs, hg.contents, hg.minsize, hg.maxsize, hg.mode]
  -- refused?
  have hrefS : Spec.lineRefused (absMode c0.mode) len (c.size - c.used) c.size = lineRefused c len := by
    rw [← hg.mode]; unfold Spec.lineRefused lineRefused; cases c.mode <;> rfl
  generalize href : lineRefused c len = refused at hrefS
  have hlo : Spec.lossOk (abs c0) c.size (refused || decide (len > c.size - c.used)) = true := by
    apply lossOk_intro
    intro hb
    simp only [abs_maxsize]
    rw [← hg.maxsize]
    have : len > c.size - c.used := by
      rw [← href] at hb
      unfold lineRefused at hb
      cases hm : c.mode <;> simp only [hm] at hb <;> simp at hb <;> omega
    omega
  cases refused with
  | true =>
    rw [if_pos rfl]
    refine ⟨?_, hci, by simp only [Int.reduceNeg, Int.reduceLT, if_true, List.append_nil]; rw [← hgw, lastN_all _ _ (whole_le hci)], ?_⟩
    · simp only [Spec.writeLine, hline, hll, hadm, Bool.not_true, Bool.false_eq_true, if_false, abs_q, hcl, abs_mode,
        abs_minsize, abs_maxsize, hrefS, hlo, if_true, habs]
    · -- refused: nothing is written, the flag stays
      simp only [Int.reduceNeg, Int.reduceLT, if_true]
      rw [hgflag]
      have : decide (reused c0 + c0.used + 0 > c.size) = false := by
        simp only [decide_eq_false_iff_not]; omega
      rw [this, Bool.or_false]
  | false =>
    rw [if_neg (by simp)]
    -- bytes of the line itself that cannot fit at all
    generalize hnd : (if len > c.size then len - c.size else 0) = nd
    have hfitm : match c.mode with
        | .noDrop => len ≤ c.size - c.used
        | .wrapOnce => len ≤ c.size
        | .wrapMany => True := by
      unfold lineRefused at href
      cases hm : c.mode <;> simp only [hm] at href ⊢ <;> simp at href <;> first | omega | trivial
    have hndle : nd ≤ s.length := by
      rw [← hnd, ← hlen]; cases needNl <;> simp <;> split <;> omega
    have hpl : (s.drop nd).length = s.length - nd := by simp
    have htot : len - nd = (s.drop nd).length + (if needNl = true then 1 else 0) := by
      rw [hpl, ← hlen]; cases needNl <;> simp <;> omega
    have hcore := writeLine_core hci (s.drop nd) needNl (len - nd) htot
      (by rw [← hnd]; split <;> omega)
      (by rw [← hnd]; split <;> omega)
      (by cases hm : c.mode <;> simp only [hm] at hfitm ⊢ <;> rw [← hnd] <;> split <;> omega) pol
    rw [hpl] at hcore
    simp only [] at hcore
    generalize hr1 : (if s.length - nd > 0 then
        ((writer c (s.length - nd) (.mem (s.drop nd)) pol).c, (writer c (s.length - nd) (.mem (s.drop nd)) pol).ndropped)
      else (c, 0)) = r1 at hcore
    obtain ⟨c1, d1⟩ := r1
    simp only [hr1] at hcore ⊢
    generalize hr2 : (if needNl = true then
        ((writer c1 1 (.mem [10]) pol).c, (writer c1 1 (.mem [10]) pol).ndropped) else (c1, 0)) = r2 at hcore
    obtain ⟨c2, d2⟩ := r2
    simp only [hr2] at hcore ⊢
    obtain ⟨k1, k2, k3, k4, k5, k6, k7, k8, k9⟩ := hcore
    have hgen : ∀ w : List UInt8,
        (w ++ s.drop nd ++ if needNl = true then [10] else []).drop
          ((w ++ s.drop nd ++ if needNl = true then [10] else []).length - c.size) =
        Spec.lastN c.size (w ++ (s ++ if needNl = true then [10] else [])) := by
      intro w
      simp only [Spec.lastN]
      by_cases hbig : len > c.size
      · have hndv : nd = len - c.size := by rw [← hnd]; simp [hbig]
        have hxl : (s.drop nd ++ if needNl = true then [10] else []).length = c.size := by
          simp only [List.length_append, hpl]
          cases needNl <;> simp at hlen ⊢ <;> omega
        rw [List.append_assoc,
            lastN_of_tail_ge w (s.drop nd ++ if needNl = true then [10] else []) c.size (by omega),
            lastN_of_tail_ge w (s ++ if needNl = true then [10] else []) c.size (by rw [hll]; omega)]
        exact lastN_drop_prefix s _ nd c.size hndle (by omega)
      · have hndv : nd = 0 := by rw [← hnd]; simp [hbig]
        rw [hndv]; simp [List.append_assoc]
    refine ⟨?_, k1, ?_, ?_⟩
    rotate_left
    · have hnn : ¬ ((len : Int) < 0) := by omega
      simp only [hnn, if_false]
      have hline2 : (if needNl = true then s ++ [10] else s) = s ++ if needNl = true then [10] else [] := by
        cases needNl <;> simp
      rw [k8, k2, hgw, hline2]
      exact hgen (whole c0)
    · -- the flag: the two writer calls store `len - nd = min len size` bytes
      have hnn : ¬ ((len : Int) < 0) := by omega
      have hlinelen : (if needNl = true then s ++ [10] else s).length = len := by
        rw [← hlen]; cases needNl <;> simp
      have hphys : len - nd = min len c.size := by rw [← hnd]; split <;> omega
      simp only [hnn, if_false]
      rw [k9, k2, hgflag, hlinelen, hphys]
      congr 1
      apply decide_congr
      omega
    rw [k2]
    simp only [Spec.writeLine, hline, hll, hadm, Bool.not_true, Bool.false_eq_true, if_false, abs_q, hcl, abs_mode,
      abs_minsize, abs_maxsize, hrefS, hlo]
    have hdrops : nd + d1 + d2 = len - (c.size - c.used) := by
      rw [Nat.add_assoc, k6, ← hnd]; split <;> omega
    have hq : contents c2 = Spec.lastN c.size (contents c0 ++ (s ++ if needNl = true then [10] else [])) := by
      rw [k7, hg.contents]
      simp only [Spec.lastN]
      by_cases hbig : len > c.size
      · -- the kept part is exactly the last `size` bytes of the line
        have hndv : nd = len - c.size := by rw [← hnd]; simp [hbig]
        have hxl : (s.drop nd ++ if needNl = true then [10] else []).length = c.size := by
          simp only [List.length_append, hpl]
          cases needNl <;> simp at hlen ⊢ <;> omega
        rw [List.append_assoc,
            lastN_of_tail_ge (contents c0) (s.drop nd ++ if needNl = true then [10] else []) c.size (by omega),
            lastN_of_tail_ge (contents c0) (s ++ if needNl = true then [10] else []) c.size (by rw [hll]; omega)]
        exact lastN_drop_prefix s _ nd c.size hndle (by omega)
      · have hndv : nd = 0 := by rw [← hnd]; simp [hbig]
        rw [hndv]; simp [List.append_assoc]
    simp [abs, hq, k2, k3, k4, k5, hg.minsize, hg.maxsize, hg.mode, hdrops]

end PdshVerif.Cbuf
