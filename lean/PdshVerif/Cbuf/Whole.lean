/-
  The replay region.  `whole c` = replayable bytes followed by the unread bytes = the cells from
  i_rep up to i_in.  Consuming operations and rewinding leave `whole` alone and only move the
  boundary; `cbuf_grow` preserves it; a store of `got` turns it into the newest `size` bytes of
  `whole ++ got`.
-/
import PdshVerif.Cbuf.Writer
import PdshVerif.Cbuf.Spec

namespace PdshVerif.Cbuf

def whole (c : Cbuf) : List UInt8 := circRead c.data (c.size + 1) c.iRep (reused c + c.used)

theorem reused_facts {c : Cbuf} (hi : Inv c) :
    reused c + c.used ≤ c.size ∧ (c.iRep + reused c) % (c.size + 1) = c.iOut ∧
    (c.iRep + (reused c + c.used)) % (c.size + 1) = c.iIn := by
  have := hi.spos; have := hi.used; have := hi.iin; have := hi.iout; have := hi.irep
  have hio := hi.inout; have hr := hi.rep
  unfold reused
  have h1 := @wrap_cases (c.iOut + (c.size + 1) - c.iRep) (c.size + 1) (by omega)
  generalize (c.iOut + (c.size + 1) - c.iRep) % (c.size + 1) = r at h1 ⊢
  have h2 := @wrap_cases (c.iRep + r) (c.size + 1) (by omega)
  have h3 := @wrap_cases (c.iRep + (r + c.used)) (c.size + 1) (by omega)
  omega

theorem hist_length (c : Cbuf) : (hist c).length = reused c := by simp [hist]

theorem whole_length (c : Cbuf) : (whole c).length = reused c + c.used := by simp [whole]

theorem whole_eq {c : Cbuf} (hi : Inv c) : whole c = hist c ++ contents c := by
  unfold whole hist contents
  rw [circRead_append, ← circRead_mod _ _ (c.iRep + reused c), (reused_facts hi).2.1]

theorem hist_eq_take {c : Cbuf} (hi : Inv c) : hist c = (whole c).take (reused c) := by
  rw [whole_eq hi, List.take_left' (hist_length c)]

theorem contents_eq_drop {c : Cbuf} (hi : Inv c) : contents c = (whole c).drop (reused c) := by
  rw [whole_eq hi, List.drop_left' (hist_length c)]

/-- generalisation of `contents_commit`: after storing `got` behind a region of `u` cells that
    starts at `o`, the last `keep < M` cells before the new end hold the newest `keep` bytes of
    "region ++ got" -/
theorem region_commit (d : Array UInt8) (M o u keep : Nat) (got : List UInt8)
    (hd : d.size = M) (hM : 0 < M) (hk1 : keep ≤ u + got.length) (hk2 : keep < M) :
    circRead (circWrite d M ((o + u) % M) got) M ((o + (u + got.length - keep)) % M) keep =
      (circRead d M o u ++ got).drop (u + got.length - keep) := by
  apply List.ext_getElem
  · simp; omega
  · intro k h1 h2
    have hk : k < keep := by simpa using h1
    rw [List.getElem_drop, circRead_getElem _ _ _ _ _ hM, Nat.mod_add_mod]
    have e : o + (u + got.length - keep) + k = o + (u + got.length - keep + k) := by omega
    rw [e]
    by_cases ht : u + got.length - keep + k < u
    · rw [layout_old d M o u got _ hd hM ht (by omega)]
      rw [List.getElem_append_left (by simp; exact ht), circRead_getElem _ _ _ _ _ hM]
    · rw [layout_new d M o u got _ hd hM (by omega) (by omega) (by omega)]
      rw [List.getElem_append_right (by simp; omega)]
      congr 1
      simp

theorem lastN_all (n : Nat) (l : List UInt8) (h : l.length ≤ n) : Spec.lastN n l = l := by
  unfold Spec.lastN
  have : l.length - n = 0 := by omega
  rw [this]; rfl

/-- metadata update: replayable + unread bytes become the newest `size` bytes of old ++ new -/
theorem whole_commit {c : Cbuf} (hi : Inv c) (got : List UInt8) (hn : 0 < got.length) :
    whole (commit c (c.size - c.used) (circWrite c.data (c.size + 1) c.iIn got)
          ((c.iIn + got.length) % (c.size + 1)) got.length) =
      Spec.lastN c.size (whole c ++ got) := by
  have h1 := hi.spos; have h2 := hi.used; have h3 := hi.iin; have h4 := hi.iout; have h5 := hi.irep
  have hM : 0 < c.size + 1 := by omega
  obtain ⟨hru, hro, hri⟩ := reused_facts hi
  have hwc : whole c = circRead c.data (c.size + 1) c.iRep (reused c + c.used) := rfl
  rw [hwc]
  have hnrepl : (c.iOut + (c.size + 1) - c.iRep) % (c.size + 1) = reused c := rfl
  generalize reused c = r at hru hro hri hnrepl ⊢
  -- the store starts at the end of the region
  have hdata : circWrite c.data (c.size + 1) c.iIn got =
      circWrite c.data (c.size + 1) ((c.iRep + (r + c.used)) % (c.size + 1)) got := by rw [hri]
  have hiD : (c.iIn + got.length) % (c.size + 1) = (c.iRep + (r + c.used) + got.length) % (c.size + 1) := by
    rw [← hri, Nat.mod_add_mod]
  by_cases hwrap : got.length + r > c.size - c.used
  · -- the replay region is (partly) overwritten: i_rep moves just behind the new i_in
    have hnext : ((c.iIn + got.length) % (c.size + 1) + 1) % (c.size + 1) =
        (c.iRep + (r + c.used + got.length - c.size)) % (c.size + 1) := by
      rw [hiD, Nat.mod_add_mod]
      have : c.iRep + (r + c.used) + got.length + 1 =
          c.iRep + (r + c.used + got.length - c.size) + (c.size + 1) := by omega
      rw [this, Nat.add_mod_right]
    have key := region_commit c.data (c.size + 1) c.iRep (r + c.used) c.size got hi.dsize hM
      (by omega) (by omega)
    have hlast : Spec.lastN c.size (circRead c.data (c.size + 1) c.iRep (r + c.used) ++ got) =
        (circRead c.data (c.size + 1) c.iRep (r + c.used) ++ got).drop (r + c.used + got.length - c.size) := by
      unfold Spec.lastN; simp only [List.length_append, circRead_length]
    rw [hlast, ← key]
    by_cases hover : got.length > c.size - c.used
    · -- unread bytes are dropped as well: i_out = i_rep, nothing replayable
      have hcnt : reused (commit c (c.size - c.used) (circWrite c.data (c.size + 1) c.iIn got)
            ((c.iIn + got.length) % (c.size + 1)) got.length) +
          (commit c (c.size - c.used) (circWrite c.data (c.size + 1) c.iIn got)
            ((c.iIn + got.length) % (c.size + 1)) got.length).used = c.size := by
        simp only [reused, commit, hnrepl, hwrap, hover, decide_true, if_true]
        have e : ∀ x, x + (c.size + 1) - x = c.size + 1 := fun x => by omega
        rw [e, Nat.mod_self]; omega
      unfold whole
      rw [hcnt]
      simp only [commit, hnrepl, hwrap, decide_true, if_true]
      rw [hnext, ← hdata]
    · have hcnt : reused (commit c (c.size - c.used) (circWrite c.data (c.size + 1) c.iIn got)
            ((c.iIn + got.length) % (c.size + 1)) got.length) +
          (commit c (c.size - c.used) (circWrite c.data (c.size + 1) c.iIn got)
            ((c.iIn + got.length) % (c.size + 1)) got.length).used = c.size := by
        simp only [reused, commit, hnrepl, hwrap, hover, decide_true, if_true, if_false]
        rw [hnext]
        have hx := @wrap_cases (c.iRep + (r + c.used + got.length - c.size)) (c.size + 1) (by omega)
        generalize (c.iRep + (r + c.used + got.length - c.size)) % (c.size + 1) = x at hx
        have hy := @wrap_cases (c.iOut + (c.size + 1) - x) (c.size + 1) (by omega)
        have hz := @wrap_cases (c.iRep + r) (c.size + 1) (by omega)
        omega
      unfold whole
      rw [hcnt]
      simp only [commit, hnrepl, hwrap, decide_true, if_true]
      rw [hnext, ← hdata]
  · -- nothing is overwritten: the region simply grows
    have hover : ¬ got.length > c.size - c.used := by omega
    have key := region_commit c.data (c.size + 1) c.iRep (r + c.used)
      (r + c.used + got.length) got hi.dsize hM (by omega) (by omega)
    rw [lastN_all _ _ (by simp; omega)]
    have e0 : r + c.used + got.length - (r + c.used + got.length) = 0 := by omega
    simp only [e0, Nat.add_zero, List.drop_zero] at key
    unfold whole
    simp only [reused, commit, hnrepl, hwrap, hover, decide_false, if_false, Bool.false_eq_true]
    have e1 : r + min (c.used + got.length) c.size = r + c.used + got.length := by omega
    rw [e1, ← circRead_mod, hdata, key]

end PdshVerif.Cbuf
