/-
  The replay region.  `whole c` = replayable bytes followed by the unread bytes = the cells from
  i_rep up to i_in.  Consuming operations and rewinding leave `whole` alone and only move the
  boundary; `cbuf_grow` preserves it; a store of `got` turns it into the newest `size` bytes of
  `whole ++ got`.
-/
import PdshVerif.Cbuf.Writer
import PdshVerif.Cbuf.Spec

namespace PdshVerif.Cbuf

def whole (c : Cbuf) : List UInt8 := circRead c.data (c.size + 1) c.iRep (reused c + c.used)

theorem reused_facts {c : Cbuf} (hi : Inv c) :
    reused c + c.used ≤ c.size ∧ (c.iRep + reused c) % (c.size + 1) = c.iOut ∧
    (c.iRep + (reused c + c.used)) % (c.size + 1) = c.iIn := by
  have := hi.spos; have := hi.used; have := hi.iin; have := hi.iout; have := hi.irep
  have hio := hi.inout; have hr := hi.rep
  unfold reused
  have h1 := @wrap_cases (c.iOut + (c.size + 1) - c.iRep) (c.size + 1) (by omega)
  generalize (c.iOut + (c.size + 1) - c.iRep) % (c.size + 1) = r at h1 ⊢
  have h2 := @wrap_cases (c.iRep + r) (c.size + 1) (by omega)
  have h3 := @wrap_cases (c.iRep + (r + c.used)) (c.size + 1) (by omega)
  omega

theorem hist_length (c : Cbuf) : (hist c).length = reused c := by simp [hist]

theorem whole_length (c : Cbuf) : (whole c).length = reused c + c.used := by simp [whole]

theorem whole_eq {c : Cbuf} (hi : Inv c) : whole c = hist c ++ contents c := by
  unfold whole hist contents
  rw [circRead_append, ← circRead_mod _ _ (c.iRep + reused c), (reused_facts hi).2.1]

theorem hist_eq_take {c : Cbuf} (hi : Inv c) : hist c = (whole c).take (reused c) := by
  rw [whole_eq hi, List.take_left' (hist_length c)]

theorem contents_eq_drop {c : Cbuf} (hi : Inv c) : contents c = (whole c).drop (reused c) := by
  rw [whole_eq hi, List.drop_left' (hist_length c)]

/-- generalisation of `contents_commit`: after storing `got` behind a region of `u` cells that
    starts at `o`, the last `keep < M` cells before the new end hold the newest `keep` bytes of
    "region ++ got" -/
theorem region_commit (d : Array UInt8) (M o u keep : Nat) (got : List UInt8)
    (hd : d.size = M) (hM : 0 < M) (hk1 : keep ≤ u + got.length) (hk2 : keep < M) :
    circRead (circWrite d M ((o + u) % M) got) M ((o + (u + got.length - keep)) % M) keep =
      (circRead d M o u ++ got).drop (u + got.length - keep) := by
  apply List.ext_getElem
  · simp; omega
  · intro k h1 h2
    have hk : k < keep := by simpa using h1
    rw [List.getElem_drop, circRead_getElem _ _ _ _ _ hM, Nat.mod_add_mod]
    have e : o + (u + got.length - keep) + k = o + (u + got.length - keep + k) := by omega
    rw [e]
    by_cases ht : u + got.length - keep + k < u
    · rw [layout_old d M o u got _ hd hM ht (by omega)]
      rw [List.getElem_append_left (by simp; exact ht), circRead_getElem _ _ _ _ _ hM]
    · rw [layout_new d M o u got _ hd hM (by omega) (by omega) (by omega)]
      rw [List.getElem_append_right (by simp; omega)]
      congr 1
      simp

theorem lastN_all (n : Nat) (l : List UInt8) (h : l.length ≤ n) : Spec.lastN n l = l := by
  unfold Spec.lastN
  have : l.length - n = 0 := by omega
  rw [this]; rfl

/-- metadata update: replayable + unread bytes become the newest `size` bytes of old ++ new -/
theorem whole_commit {c : Cbuf} (hi : Inv c) (got : List UInt8) (hn : 0 < got.length) :
    whole (commit c (c.size - c.used) (circWrite c.data (c.size + 1) c.iIn got)
          ((c.iIn + got.length) % (c.size + 1)) got.length) =
      Spec.lastN c.size (whole c ++ got) := by
  have h1 := hi.spos; have h2 := hi.used; have h3 := hi.iin; have h4 := hi.iout; have h5 := hi.irep
  have hM : 0 < c.size + 1 := by omega
  obtain ⟨hru, hro, hri⟩ := reused_facts hi
  have hwc : whole c = circRead c.data (c.size + 1) c.iRep (reused c + c.used) := rfl
  rw [hwc]
  have hnrepl : (c.iOut + (c.size + 1) - c.iRep) % (c.size + 1) = reused c := rfl
  generalize reused c = r at hru hro hri hnrepl ⊢
  -- the store starts at the end of the region
  have hdata : circWrite c.data (c.size + 1) c.iIn got =
      circWrite c.data (c.size + 1) ((c.iRep + (r + c.used)) % (c.size + 1)) got := by rw [hri]
  have hiD : (c.iIn + got.length) % (c.size + 1) = (c.iRep + (r + c.used) + got.length) % (c.size + 1) := by
    rw [← hri, Nat.mod_add_mod]
  by_cases hwrap : got.length + r > c.size - c.used
  · -- the replay region is (partly) overwritten: i_rep moves just behind the new i_in
    have hnext : ((c.iIn + got.length) % (c.size + 1) + 1) % (c.size + 1) =
        (c.iRep + (r + c.used + got.length - c.size)) % (c.size + 1) := by
      rw [hiD, Nat.mod_add_mod]
      have : c.iRep + (r + c.used) + got.length + 1 =
          c.iRep + (r + c.used + got.length - c.size) + (c.size + 1) := by omega
      rw [this, Nat.add_mod_right]
    have key := region_commit c.data (c.size + 1) c.iRep (r + c.used) c.size got hi.dsize hM
      (by omega) (by omega)
    have hlast : Spec.lastN c.size (circRead c.data (c.size + 1) c.iRep (r + c.used) ++ got) =
        (circRead c.data (c.size + 1) c.iRep (r + c.used) ++ got).drop (r + c.used + got.length - c.size) := by
      unfold Spec.lastN; simp only [List.length_append, circRead_length]
    rw [hlast, ← key]
    by_cases hover : got.length > c.size - c.used
    · -- unread bytes are dropped as well: i_out = i_rep, nothing replayable
      have hcnt : reused (commit c (c.size - c.used) (circWrite c.data (c.size + 1) c.iIn got)
            ((c.iIn + got.length) % (c.size + 1)) got.length) +
          (commit c (c.size - c.used) (circWrite c.data (c.size + 1) c.iIn got)
            ((c.iIn + got.length) % (c.size + 1)) got.length).used = c.size := by
        simp only [reused, commit, hnrepl, hwrap, hover, decide_true, if_true]
        have e : ∀ x, x + (c.size + 1) - x = c.size + 1 := fun x => by omega
        rw [e, Nat.mod_self]; omega
      unfold whole
      rw [hcnt]
      simp only [commit, hnrepl, hwrap, decide_true, if_true]
      rw [hnext, ← hdata]
    · have hcnt : reused (commit c (c.size - c.used) (circWrite c.data (c.size + 1) c.iIn got)
            ((c.iIn + got.length) % (c.size + 1)) got.length) +
          (commit c (c.size - c.used) (circWrite c.data (c.size + 1) c.iIn got)
            ((c.iIn + got.length) % (c.size + 1)) got.length).used = c.size := by
        simp only [reused, commit, hnrepl, hwrap, hover, decide_true, if_true, if_false]
        rw [hnext]
        have hx := @wrap_cases (c.iRep + (r + c.used + got.length - c.size)) (c.size + 1) (by omega)
        generalize (c.iRep + (r + c.used + got.length - c.size)) % (c.size + 1) = x at hx
        have hy := @wrap_cases (c.iOut + (c.size + 1) - x) (c.size + 1) (by omega)
        have hz := @wrap_cases (c.iRep + r) (c.size + 1) (by omega)
        omega
      unfold whole
      rw [hcnt]
      simp only [commit, hnrepl, hwrap, decide_true, if_true]
      rw [hnext, ← hdata]
  · -- nothing is overwritten: the region simply grows
    have hover : ¬ got.length > c.size - c.used := by omega
    have key := region_commit c.data (c.size + 1) c.iRep (r + c.used)
      (r + c.used + got.length) got hi.dsize hM (by omega) (by omega)
    rw [lastN_all _ _ (by simp; omega)]
    have e0 : r + c.used + got.length - (r + c.used + got.length) = 0 := by omega
    simp only [e0, Nat.add_zero, List.drop_zero] at key
    unfold whole
    simp only [reused, commit, hnrepl, hwrap, hover, decide_false, if_false, Bool.false_eq_true]
    have e1 : r + min (c.used + got.length) c.size = r + c.used + got.length := by omega
    rw [e1, ← circRead_mod, hdata, key]

/-- `cbuf_grow` keeps the replayable and the unread bytes (it moves the cells from i_rep to the
    end of the old array to the end of the new one when the region wraps) -/
theorem grow_whole {c : Cbuf} (hi : Inv c) (n : Nat) (hlt : c.size < c.maxsize) (hn : 0 < n)
    (pol : Policy := chunkPolicy) [Admissible pol] :
    whole (grow c n pol).1 = whole c := by
  have g := grow_ok hi n hlt hn pol
  have := hi.spos; have := hi.smin; have := hi.smax; have := hi.alloc; have := hi.used
  have := hi.iin; have := hi.iout; have := hi.irep; have hds := hi.dsize
  obtain ⟨hru, hro, hri⟩ := reused_facts hi
  have hreu : reused (grow c n pol).1 = reused c := g.nrepl
  have hsz := g.size; have hpos := g.pos
  unfold whole
  rw [hreu, g.used]
  generalize reused c = r at hru hro hri
  have hne : ¬ c.size = c.maxsize := by omega
  generalize hx : pol c.alloc n c.minsize c.maxsize = x
  generalize hs' : min x (c.maxsize + (c.alloc - c.size)) - (c.alloc - c.size) = s'
  have hri' := @wrap_cases (c.iRep + (r + c.used)) (c.size + 1) (by omega)
  by_cases hrep : c.iRep > c.iIn
  · have hsize : (grow c n pol).1.size = s' := by simp only [grow, hne, if_false, hrep, if_true, hx, hs']
    have hirep : (grow c n pol).1.iRep = s' + 1 - (c.size + 1 - c.iRep) := by
      simp only [grow, hne, if_false, hrep, if_true, hx, hs']
    have hdata : (grow c n pol).1.data = circWrite (c.data ++ Array.replicate (s' - c.size) 0) (s' + 1)
                              (s' + 1 - (c.size + 1 - c.iRep))
                              (circRead c.data (c.size + 1) c.iRep (c.size + 1 - c.iRep)) := by
      simp only [grow, hne, if_false, hrep, if_true, hx, hs']
    rw [hsize] at hsz
    rw [hsize, hirep, hdata]
    have hdsz : (c.data ++ Array.replicate (s' - c.size) 0).size = s' + 1 := by simp [hds]; omega
    apply circRead_ext _ _ _ _ _ _ _ (by omega) (by omega)
    intro k hk
    have hmv : (circRead c.data (c.size + 1) c.iRep (c.size + 1 - c.iRep)).length = c.size + 1 - c.iRep := by simp
    have hmm : (s' + 1 - (c.size + 1 - c.iRep)) % (s' + 1) = s' + 1 - (c.size + 1 - c.iRep) :=
      Nat.mod_eq_of_lt (by omega)
    have hnew := @wrap_cases (s' + 1 - (c.size + 1 - c.iRep) + k) (s' + 1) (by omega)
    have hold := @wrap_cases (c.iRep + k) (c.size + 1) (by omega)
    have hdc := dist_cases (s' + 1) (s' + 1 - (c.size + 1 - c.iRep))
      ((s' + 1 - (c.size + 1 - c.iRep) + k) % (s' + 1))
    by_cases hk1 : c.iRep + k < c.size + 1
    · -- the cell lies in the moved tail
      have hd : dist (s' + 1) (s' + 1 - (c.size + 1 - c.iRep))
          ((s' + 1 - (c.size + 1 - c.iRep) + k) % (s' + 1)) = k := by omega
      rw [circWrite_getD_in _ (s' + 1) _ _ _ hdsz (Nat.mod_lt _ (by omega)) (by rw [hmv]; omega)
            (by rw [hmm, hmv, hd]; omega)]
      rw [circRead_getElem _ _ _ _ _ (by omega)]
      congr 1
      rw [hmm, hd]
    · -- the cell lies in the head [0, i_in): untouched
      have hd : ¬ dist (s' + 1) (s' + 1 - (c.size + 1 - c.iRep))
          ((s' + 1 - (c.size + 1 - c.iRep) + k) % (s' + 1)) < c.size + 1 - c.iRep := by omega
      rw [circWrite_getD_out _ (s' + 1) _ _ _ hdsz (Nat.mod_lt _ (by omega)) (by rw [hmv]; omega)
            (by rw [hmm, hmv]; exact hd)]
      have heq : (s' + 1 - (c.size + 1 - c.iRep) + k) % (s' + 1) = (c.iRep + k) % (c.size + 1) := by omega
      rw [heq]
      exact getD_append_left _ _ _ (by rw [hds]; omega)
  · have hsize : (grow c n pol).1.size = s' := by simp only [grow, hne, if_false, hrep, hx, hs']
    have hirep : (grow c n pol).1.iRep = c.iRep := by simp only [grow, hne, if_false, hrep, hx, hs']
    have hdata : (grow c n pol).1.data = c.data ++ Array.replicate (s' - c.size) 0 := by
      simp only [grow, hne, if_false, hrep, hx, hs']
    rw [hsize] at hsz
    rw [hsize, hirep, hdata]
    apply circRead_ext _ _ _ _ _ _ _ (by omega) (by omega)
    intro k hk
    rw [Nat.mod_eq_of_lt (show c.iRep + k < s' + 1 by omega),
        Nat.mod_eq_of_lt (show c.iRep + k < c.size + 1 by omega)]
    exact getD_append_left _ _ _ (by rw [hds]; omega)

theorem maybeGrow_whole {c0 : Cbuf} (hi : Inv c0) (len0 : Nat) (pol : Policy := chunkPolicy) [Admissible pol] :
    whole (maybeGrow c0 len0 pol).1 = whole c0 := by
  have := hi.used
  unfold maybeGrow
  by_cases h : len0 > c0.size - c0.used ∧ c0.size < c0.maxsize
  · simp only [h, and_self, if_true]
    exact grow_whole hi _ h.2 (by omega) pol
  · simp only [h, if_false]

/-- everything a source holds (a memory source: the caller's buffer; a descriptor: what it has) -/
def Src.bytes : Src → List UInt8
  | .mem bs => bs
  | .fd av _ => av

theorem Src.avail_eq_take (src : Src) (k : Nat) : src.avail k = src.bytes.take k := by
  cases src <;> rfl

theorem whole_le {c : Cbuf} (hi : Inv c) : (whole c).length ≤ c.size := by
  rw [whole_length]; exact (reused_facts hi).1

/-- `cbuf_writer`: the buffer ends up holding the newest `size` bytes of
    "replayable, unread, accepted", where accepted = the first `ret` bytes of the source -/
theorem writer_whole {c0 : Cbuf} (hi : Inv c0) (len0 : Nat) (hl : 0 < len0) (src : Src) (hs : src.ok len0)
    (pol : Policy := chunkPolicy) [Admissible pol] :
    whole (writer c0 len0 src pol).c =
      Spec.lastN (writer c0 len0 src pol).c.size (whole c0 ++ src.bytes.take (writer c0 len0 src pol).ret.toNat) := by
  have hg := maybeGrow_ok hi len0 pol
  have hgw := maybeGrow_whole hi len0 pol
  unfold writer
  generalize maybeGrow c0 len0 pol = p at hg hgw
  obtain ⟨c, nfree⟩ := p
  simp only at hg hgw ⊢
  have hci := hg.inv
  have hwle := whole_le hci
  cases hel : effLen c len0 with
  | none =>
    have hm1 : ((-1 : Int)).toNat = 0 := rfl
    simp only [hm1, List.take_zero, List.append_nil]
    rw [← hgw, lastN_all _ _ hwle]
  | some len =>
    simp only
    have hlen : 0 < len ∧ len ≤ len0 := by
      have := hci.spos
      unfold effLen at hel
      split at hel
      · simp only at hel; split at hel <;> simp at hel; omega
      · simp at hel; omega
      · simp at hel; omega
    have hsok : src.ok len := by
      cases src with
      | mem bs => simp only [Src.ok] at hs ⊢; omega
      | fd _ _ => trivial
    have hloop := writerLoop_spec c.size (len + 1) c.data c.iIn len src 0 (by omega) hci.iin hsok hci.dsize
    generalize writerLoop c.size (len + 1) c.data c.iIn len src 0 = res at hloop
    obtain ⟨d, iDst, nleft, src', m⟩ := res
    simp only at hloop ⊢
    obtain ⟨hd, hiD, hnl, hm⟩ := hloop
    have hgl : (src.avail len).length ≤ len := by cases src <;> simp [Src.avail] <;> omega
    by_cases h0 : (src.avail len).length = 0
    · have hn0 : len - nleft = 0 := by omega
      simp only [hn0, if_true]
      have hnil : src.avail len = [] := List.eq_nil_of_length_eq_zero h0
      have hret : m = src.emptyRet := (hm hlen.1 h0).1
      have hm0 : m.toNat = 0 := by
        rw [hret]; cases src with
        | mem _ => rfl
        | fd _ eof => simp only [Src.emptyRet]; split <;> rfl
      rw [hm0, List.take_zero, List.append_nil, ← hgw]
      have : whole { c with data := d } = whole c := by
        rw [hd, hnil]; simp [circWrite, whole, reused]
      rw [this]
      exact (lastN_all _ _ hwle).symm
    · have hpos : 0 < (src.avail len).length := by omega
      have hn : len - nleft = (src.avail len).length := by omega
      have hn0 : ¬ (len - nleft = 0) := by omega
      simp only [hn0, if_false]
      rw [hn, hd, hiD, hg.nfree, whole_commit hci _ hpos, hgw]
      show Spec.lastN c.size _ = Spec.lastN c.size _
      congr 2
      rw [Int.toNat_natCast, Src.avail_eq_take, List.length_take]
      by_cases hle : len ≤ src.bytes.length
      · rw [Nat.min_eq_left hle]
      · rw [Nat.min_eq_right (by omega), List.take_of_length_le (by omega), List.take_length]

end PdshVerif.Cbuf
