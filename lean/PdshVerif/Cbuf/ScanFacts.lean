/-
  What the line finder of the replay side computes (`Spec.findReplay`, the list-level form of
  `cbuf_find_replay_line`): the bytes it reports form a suffix of the history that STARTS AT A LINE
  BOUNDARY -- it is preceded by a newline, or it is the whole history and nothing was ever lost
  (`wrapped = false`: "the first line written in does not need a preceding newline").
-/
import PdshVerif.Cbuf.SpecLine

namespace PdshVerif.Cbuf

/-- the two regimes of the C locals: `lines > 0` asked for (then `chars` is negative and unused),
    or a character budget (then `lines` stays negative) -/
def ScanMode (s : RScan) : Prop := (s.chars < 0 ∧ s.lines ≥ 0) ∨ (s.lines < 0 ∧ s.chars ≥ 0)

theorem scanMode_feed (s : RScan) (b : UInt8) (h : ScanMode s) : ScanMode (s.feed b) := by
  unfold ScanMode at h ⊢
  simp only [RScan.feed]
  rcases h with ⟨h1, h2⟩ | ⟨h1, h2⟩
  · left
    have hc : ¬ s.chars > 0 := by omega
    simp only [hc, if_false]
    refine ⟨h1, ?_⟩
    split <;> omega
  · right
    have hl : ¬ s.lines > 0 := by omega
    simp only [hl, and_false, if_false]
    refine ⟨h1, ?_⟩
    split <;> omega

/-- when the loop was left by `break`, the "first line" rule does not fire -/
theorem stop_no_first {s : RScan} (h : ScanMode s) (hs : s.stop = true) : ¬ (s.chars > 0 ∨ s.lines > 0) := by
  unfold ScanMode at h
  simp only [RScan.stop, decide_eq_true_eq] at hs
  omega

theorem getElem?_append_mid (pre rest : List UInt8) (b : UInt8) :
    (pre ++ b :: rest)[pre.length]? = some b := by
  rw [List.getElem?_append_right (Nat.le_refl _)]
  simp

/-- invariant of the scan over the reversed history `R`: the reported count `m`, when positive,
    points at a newline of `R`; the loop ends by `break` or at the end of `R` -/
theorem scanList_inv (R : List UInt8) :
    ∀ (l pre : List UInt8) (s : RScan), R = pre ++ l → s.n = pre.length →
      (s.m > 0 → s.m < s.n ∧ R[s.m]? = some 10) → ScanMode s →
      ((scanList l s).m > 0 → (scanList l s).m < (scanList l s).n ∧ R[(scanList l s).m]? = some 10) ∧
      ScanMode (scanList l s) ∧ (scanList l s).n ≤ R.length ∧
      ((scanList l s).stop = true ∨ (scanList l s).n = R.length) := by
  intro l
  induction l with
  | nil =>
    intro pre s hR hn h1 h2
    have hlen : R.length = pre.length := by rw [hR]; simp
    simp only [scanList]
    exact ⟨h1, h2, by omega, Or.inr (by omega)⟩
  | cons b rest ih =>
    intro pre s hR hn h1 h2
    have hR' : R = (pre ++ [b]) ++ rest := by rw [hR]; simp
    have hfn : (s.feed b).n = (pre ++ [b]).length := by simp [RScan.feed, hn]
    have hfm : (s.feed b).m > 0 → (s.feed b).m < (s.feed b).n ∧ R[(s.feed b).m]? = some 10 := by
      by_cases hb : b = 10
      · intro _
        have e : (s.feed b).m = s.n := by simp [RScan.feed, hb]
        have e2 : (s.feed b).n = s.n + 1 := rfl
        rw [e, e2]
        refine ⟨by omega, ?_⟩
        rw [hn, hR, getElem?_append_mid, hb]
      · intro hpos
        have e : (s.feed b).m = s.m := by simp [RScan.feed, hb]
        have e2 : (s.feed b).n = s.n + 1 := rfl
        rw [e] at hpos ⊢
        rw [e2]
        obtain ⟨a1, a2⟩ := h1 hpos
        exact ⟨by omega, a2⟩
    have hmode := scanMode_feed s b h2
    simp only [scanList]
    by_cases hst : (s.feed b).stop = true
    · simp only [hst, if_true]
      refine ⟨hfm, hmode, ?_, Or.inl (by first | exact hst | trivial)⟩
      rw [hfn, hR']; simp
    · simp only [hst, if_false, Bool.false_eq_true]
      exact ih (pre ++ [b]) (s.feed b) hR' hfn hfm hmode

theorem replayInit_zero' (b : Bool) (chars lines : Int) :
    (replayInit b chars lines).1.n = 0 ∧ (replayInit b chars lines).1.m = 0 := by
  cases b <;> simp [replayInit]

theorem replayInit_mode (b : Bool) (chars lines : Int) (h : ¬ (lines = 0 ∨ (lines ≤ -1 ∧ chars ≤ 0))) :
    ScanMode (replayInit b chars lines).1 := by
  unfold ScanMode
  cases b <;> simp only [replayInit] <;> by_cases hl : lines > 0 <;> simp [hl] <;> omega

/-- THE LINE-BOUNDARY PROPERTY of `cbuf_find_replay_line` -/
theorem findReplay_line_start (hist : List UInt8) (w : Bool) (chars lines : Int) :
    let m := (Spec.findReplay hist w chars lines).1
    m > 0 → (m = hist.length ∧ w = false) ∨ (m < hist.length ∧ hist[hist.length - 1 - m]? = some 10) := by
  unfold Spec.findReplay
  by_cases h0 : lines = 0 ∨ (lines ≤ -1 ∧ chars ≤ 0)
  · simp [h0]
  · simp only [h0, if_false]
    cases hr : hist.reverse with
    | nil => simp
    | cons b rest =>
      simp only
      have hz := replayInit_zero' (decide (b = 10)) chars lines
      have hmode := replayInit_mode (decide (b = 10)) chars lines h0
      generalize replayInit (decide (b = 10)) chars lines = ini at hz hmode
      obtain ⟨s0, nl⟩ := ini
      simp only at hz hmode ⊢
      have hlenR : (b :: rest).length = hist.length := by rw [← hr]; simp
      obtain ⟨k1, k2, k3, k4⟩ := scanList_inv (b :: rest) (b :: rest) [] s0 (by simp) (by simp [hz.1])
        (by intro h; omega) hmode
      generalize scanList (b :: rest) s0 = t at k1 k2 k3 k4
      -- index conversion: position `j` of the reversed history is position `len - 1 - j` of the history
      have hconv : ∀ j, j < hist.length → (b :: rest)[j]? = hist[hist.length - 1 - j]? := by
        intro j hj
        rw [← hr, List.getElem?_reverse hj]
      unfold replayFinish
      by_cases hfirst : ((!w) = true ∧ (t.chars > 0 ∨ t.lines > 0))
      · simp only [hfirst, and_self, if_true]
        -- the loop ran to the end of the history
        have hend : t.n = hist.length := by
          rcases k4 with hs | he
          · exact absurd hfirst.2 (stop_no_first k2 hs)
          · rw [he, hlenR]
        by_cases h2 : (if t.lines > 0 then t.lines - 1 else t.lines) > 0
        · simp only [h2, if_true]; intro h; omega
        · simp only [h2, if_false]
          intro _
          left
          refine ⟨hend, ?_⟩
          have := hfirst.1
          cases w <;> simp_all
      · simp only [hfirst, if_false]
        by_cases h2 : t.lines > 0
        · simp only [h2, if_true]; intro h; omega
        · simp only [h2, if_false]
          intro hpos
          right
          obtain ⟨a1, a2⟩ := k1 hpos
          have hlt : t.m < hist.length := by omega
          exact ⟨hlt, by rw [← hconv t.m hlt]; exact a2⟩

end PdshVerif.Cbuf
