/-
  Two buffers and the buffer-to-buffer calls `cbuf_copy` / `cbuf_move`: step functions of the
  index model and of the specification (definitions; the refinement is in `PairRefine.lean`).
-/
import PdshVerif.Cbuf.OpsReplay

namespace PdshVerif.Cbuf

inductive Op2 where
  | on (second : Bool) (op : OpR)         -- an operation on the first / second buffer
  | copy (fromSecond : Bool) (len : Int)  -- cbuf_copy(src, dst, len, &ndropped)
  | move (fromSecond : Bool) (len : Int)  -- cbuf_move(src, dst, len, &ndropped)
  deriving Repr

def sel {α : Type} (s : α × α) (second : Bool) : α := if second then s.2 else s.1
def upd {α : Type} (s : α × α) (second : Bool) (x : α) : α × α := if second then (s.1, x) else (x, s.2)

/-- the buffer an operation writes to (whose capacity the implementation reports) -/
def Op2.target : Op2 → Bool
  | .on i _ => i
  | .copy fs _ => !fs
  | .move fs _ => !fs

def stepM2 (s : Cbuf × Cbuf) (op : Op2) (pol : Policy := chunkPolicy) : Out × (Cbuf × Cbuf) :=
  match op with
  | .on i op => let (o, c') := stepMR (sel s i) op pol; (o, upd s i c')
  | .copy fs len =>
    let (r, d, dst') := copy (sel s fs) (sel s (!fs)) len pol
    ({ ret := r, ndropped := d }, upd s (!fs) dst')
  | .move fs len =>
    let (r, d, src', dst') := move (sel s fs) (sel s (!fs)) len pol
    ({ ret := r, ndropped := d }, upd (upd s fs src') (!fs) dst')

def stepS2 (s : Spec.RFifo × Spec.RFifo) (op : Op2) (implRet : Int) (implSize : Nat) :
    Option (Out × (Spec.RFifo × Spec.RFifo)) :=
  match op with
  | .on i op => (stepSR (sel s i) op implRet implSize).map fun (o, r') => (o, upd s i r')
  | .copy fs len =>
    (Spec.copy (sel s fs) (sel s (!fs)) len implSize).map fun (r, d, dst') =>
      ({ ret := r, ndropped := d }, upd s (!fs) dst')
  | .move fs len =>
    (Spec.move (sel s fs) (sel s (!fs)) len implSize).map fun (r, d, src', dst') =>
      ({ ret := r, ndropped := d }, upd (upd s fs src') (!fs) dst')

end PdshVerif.Cbuf
