/-
  The index model refines the FIFO specification: abstraction function and per-operation lemmas.
-/
import PdshVerif.Cbuf.Writer
import PdshVerif.Cbuf.Spec

namespace PdshVerif.Cbuf

def absMode : Mode → Spec.Mode
  | .noDrop => .noDrop
  | .wrapOnce => .wrapOnce
  | .wrapMany => .wrapMany

/-- abstraction function: the unread bytes, the capacity and its bounds, the mode -/
def abs (c : Cbuf) : Spec.Fifo :=
  { q := contents c, size := c.size, minsize := c.minsize, maxsize := c.maxsize, mode := absMode c.mode }

theorem abs_eq_of {c c' : Cbuf} (h1 : contents c' = contents c) (h2 : c'.size = c.size)
    (h3 : c'.minsize = c.minsize) (h4 : c'.maxsize = c.maxsize) (h5 : c'.mode = c.mode) : abs c' = abs c := by
  simp [abs, h1, h2, h3, h4, h5]

@[simp] theorem abs_q (c : Cbuf) : (abs c).q = contents c := rfl
@[simp] theorem abs_size (c : Cbuf) : (abs c).size = c.size := rfl
@[simp] theorem abs_minsize (c : Cbuf) : (abs c).minsize = c.minsize := rfl
@[simp] theorem abs_maxsize (c : Cbuf) : (abs c).maxsize = c.maxsize := rfl
@[simp] theorem abs_mode (c : Cbuf) : (abs c).mode = absMode c.mode := rfl

theorem lossOk_intro (f : Spec.Fifo) (sz : Nat) (b : Bool) (h : b = true → sz = f.maxsize) :
    Spec.lossOk f sz b = true := by
  cases b <;> simp_all [Spec.lossOk]

theorem admitSize_iff (f : Spec.Fifo) (sz : Nat) :
    Spec.admitSize f sz = true ↔ f.size ≤ sz ∧ sz ≤ f.maxsize := by
  simp only [Spec.admitSize]; simp only [decide_eq_true_eq]

theorem write_refines {c : Cbuf} (hi : Inv c) (bs : List UInt8) (pol : Policy := chunkPolicy) [Admissible pol] :
    Spec.write (abs c) bs (write c bs pol).2.2.size =
      some ((write c bs pol).1, (write c bs pol).2.1, abs (write c bs pol).2.2) ∧
    Inv (write c bs pol).2.2 := by
  by_cases h0 : bs.length = 0
  · simp [write, Spec.write, h0, hi]
  · have hpos : 0 < bs.length := by omega
    obtain ⟨hg, hcore⟩ := writer_ok hi bs.length hpos (.mem bs) (by simp [Src.ok]) pol
    simp only [write, h0, if_false]
    generalize hr : writer c bs.length (.mem bs) pol = r at hcore
    generalize hc1 : (maybeGrow c bs.length pol).1 = c1 at hg hcore
    have hu := hg.inv.used
    have hadm : Spec.admitSize (abs c) c1.size = true := by
      have := hg.sizeLo; have := hg.inv.smax; have := hg.maxsize
      rw [admitSize_iff]; simp only [abs_size, abs_maxsize]; omega
    have hen := hg.enough
    have hmx := hg.maxsize
    have hcl : (contents c).length = c1.used := by rw [contents_length, hg.used]
    cases hmode : c.mode with
    | noDrop =>
      have hm1 : c1.mode = .noDrop := by rw [hg.mode, hmode]
      simp only [effLen, hm1] at hcore
      have hlo : Spec.lossOk (abs c) c1.size (decide (min bs.length (c1.size - c1.used) < bs.length)) = true :=
        lossOk_intro _ _ _ (by simp only [decide_eq_true_eq, abs_maxsize]; omega)
      by_cases hl : min bs.length (c1.size - c1.used) = 0
      · simp only [hl, if_true] at hcore
        obtain ⟨h1, h2, h3⟩ := hcore
        rw [h1, h2, h3]
        refine ⟨?_, hg.inv⟩
        simp only [Spec.write, h0, if_false, hadm, Bool.not_true, Bool.false_eq_true, abs_mode, hmode, absMode,
          abs_q, hcl, hlo, hl, if_true]
        simp [abs, hg.contents, hg.minsize, hg.maxsize, hm1, hmode, absMode]
        exact lossOk_intro _ _ _ (fun _ => by show c1.size = c.maxsize; omega)
      · simp only [hl, if_false] at hcore
        obtain ⟨_, _, hco⟩ := hcore
        have hav : (Src.mem bs).avail (min bs.length (c1.size - c1.used)) = bs.take (min bs.length (c1.size - c1.used)) := rfl
        have hal : (bs.take (min bs.length (c1.size - c1.used))).length = min bs.length (c1.size - c1.used) := by
          simp
        obtain ⟨e1, e2, e3, e4, e5, e6, e7, e8⟩ := hco.some (by rw [hav, hal]; omega)
        rw [hav, hal] at e1 e2
        rw [hav] at e8
        refine ⟨?_, e3⟩
        rw [e4]
        simp only [Spec.write, h0, if_false, hadm, Bool.not_true, Bool.false_eq_true, abs_mode, hmode, absMode,
          abs_q, hcl, hlo, hl]
        have z1 : c1.used + min bs.length (c1.size - c1.used) - c1.size = 0 := by omega
        have z2 : min bs.length (c1.size - c1.used) - (c1.size - c1.used) = 0 := by omega
        simp [abs, e1, e2, e8, e4, e5, e6, e7, hg.contents, hg.minsize, hg.maxsize, hm1, hmode, absMode, hal, hcl, z1, z2]
    | wrapOnce =>
      have hm1 : c1.mode = .wrapOnce := by rw [hg.mode, hmode]
      simp only [effLen, hm1] at hcore
      obtain ⟨_, _, hco⟩ := hcore
      have hsp := hg.inv.spos
      have hav : (Src.mem bs).avail (min bs.length c1.size) = bs.take (min bs.length c1.size) := rfl
      have hal : (bs.take (min bs.length c1.size)).length = min bs.length c1.size := by simp
      obtain ⟨e1, e2, e3, e4, e5, e6, e7, e8⟩ := hco.some (by rw [hav, hal]; omega)
      rw [hav, hal] at e1 e2
      rw [hav] at e8
      refine ⟨?_, e3⟩
      rw [e4]
      have hlo : Spec.lossOk (abs c) c1.size
          (decide (min bs.length c1.size < bs.length ∨ min bs.length c1.size > c1.size - c1.used)) = true :=
        lossOk_intro _ _ _ (by simp only [decide_eq_true_eq, abs_maxsize]; omega)
      simp only [Spec.write, h0, if_false, hadm, Bool.not_true, Bool.false_eq_true, abs_mode, hmode, absMode,
        abs_q, hcl, hlo]
      simp [abs, Spec.lastN, e1, e2, e8, e4, e5, e6, e7, hg.contents, hg.minsize, hg.maxsize, hm1, hmode, absMode, hal, hcl]
    | wrapMany =>
      have hm1 : c1.mode = .wrapMany := by rw [hg.mode, hmode]
      simp only [effLen, hm1] at hcore
      obtain ⟨_, _, hco⟩ := hcore
      have hav : (Src.mem bs).avail bs.length = bs := by simp [Src.avail]
      obtain ⟨e1, e2, e3, e4, e5, e6, e7, e8⟩ := hco.some (by rw [hav]; omega)
      rw [hav] at e1 e2 e8
      refine ⟨?_, e3⟩
      rw [e4]
      have hlo : Spec.lossOk (abs c) c1.size (decide (bs.length > c1.size - c1.used)) = true :=
        lossOk_intro _ _ _ (by simp only [decide_eq_true_eq, abs_maxsize]; omega)
      simp only [Spec.write, h0, if_false, hadm, Bool.not_true, Bool.false_eq_true, abs_mode, hmode, absMode,
        abs_q, hcl, hlo]
      simp [abs, Spec.lastN, e1, e2, e8, e4, e5, e6, e7, hg.contents, hg.minsize, hg.maxsize, hm1, hmode, absMode, hcl]

end PdshVerif.Cbuf

namespace PdshVerif.Cbuf

theorem take_min_length (l : List UInt8) (n : Nat) : l.take (min n l.length) = l.take n := by
  by_cases h : n ≤ l.length
  · rw [Nat.min_eq_left h]
  · rw [Nat.min_eq_right (by omega), List.take_length, List.take_of_length_le (by omega)]

theorem writeFromFd_refines {c : Cbuf} (hi : Inv c) (len : Int) (avail : List UInt8) (eof : Bool)
    (pol : Policy := chunkPolicy) [Admissible pol] :
    Spec.writeFromFd (abs c) len avail eof (writeFromFd c len avail eof pol).1 (writeFromFd c len avail eof pol).2.2.size =
      some ((writeFromFd c len avail eof pol).1, (writeFromFd c len avail eof pol).2.1,
        abs (writeFromFd c len avail eof pol).2.2) ∧
    Inv (writeFromFd c len avail eof pol).2.2 := by
  have hchunk : 0 < Gen.CBUF_CHUNK := by decide
  have hsp := hi.spos
  by_cases hneg : len < -1
  · simp [writeFromFd, Spec.writeFromFd, hneg, hi]
  · simp only [writeFromFd, hneg, if_false]
    generalize hl : (if len = -1 then (if c.size - c.used = 0 then min c.size Gen.CBUF_CHUNK else c.size - c.used)
        else len.toNat) = l
    have hl0 : l = 0 ↔ len = 0 := by
      rw [← hl]; split
      · split <;> omega
      · omega
    have hlle : len ≥ 0 → (l : Int) = len := by
      intro h; rw [← hl]; split <;> omega
    by_cases hlpos : l > 0
    · simp only [hlpos, if_true]
      obtain ⟨hg, hcore⟩ := writer_ok hi l hlpos (.fd avail eof) trivial pol
      generalize hr : writer c l (.fd avail eof) pol = r at hcore
      generalize hc1 : (maybeGrow c l pol).1 = c1 at hg hcore
      have hu := hg.inv.used
      have hadm : Spec.admitSize (abs c) c1.size = true := by
        have := hg.sizeLo; have := hg.inv.smax; have := hg.maxsize
        rw [admitSize_iff]; simp only [abs_size, abs_maxsize]; omega
      have hen := hg.enough
      have hmx := hg.maxsize
      have hcl : (contents c).length = c1.used := by rw [contents_length, hg.used]
      have hlen0 : len ≠ 0 := by omega
      have habs1 : Spec.Fifo.mk (contents c) c1.size c.minsize c.maxsize (absMode c.mode) = abs c1 := by
        simp [abs, hg.contents, hg.minsize, hg.maxsize, hg.mode]
      cases hel : effLen c1 l with
      | none =>
        rw [hel] at hcore
        obtain ⟨h1, h2, h3⟩ := hcore
        -- ENOSPC: only in no-drop mode with a full buffer at maximum size
        have hnd : c1.mode = .noDrop ∧ c1.size - c1.used = 0 := by
          unfold effLen at hel
          split at hel
          · rename_i hm; simp only at hel; split at hel
            · exact ⟨hm, by omega⟩
            · simp at hel
          · simp at hel
          · simp at hel
        rw [h1, h2, h3]
        refine ⟨?_, hg.inv⟩
        have hmd : c.mode = .noDrop := by rw [← hg.mode]; exact hnd.1
        have hmax : c1.size = c.maxsize := by omega
        simp only [Spec.writeFromFd, hneg, if_false, hadm, Bool.not_true, Bool.false_eq_true, abs_q, hcl, abs_mode,
          abs_maxsize, abs_minsize, hmd, absMode]
        simp [hlen0, hmax, ← habs1, hmd, absMode]
        intro _; have := hnd.2; omega
      | some len' =>
        rw [hel] at hcore
        obtain ⟨hp1, hp2, hco⟩ := hcore
        have hav : (Src.fd avail eof).avail len' = avail.take len' := rfl
        by_cases hgot : (avail.take len').length = 0
        · obtain ⟨h1, h2, h3⟩ := hco.none (by rw [hav]; exact hgot)
          have hnil : avail = [] := by
            have : min len' avail.length = 0 := by simpa using hgot
            have : avail.length = 0 := by omega
            exact List.eq_nil_of_length_eq_zero this
          rw [h1, h2, h3]
          refine ⟨?_, hg.inv⟩
          simp only [Spec.writeFromFd, hneg, if_false, hadm, Bool.not_true, Bool.false_eq_true, abs_q, hcl, abs_mode,
            abs_maxsize, abs_minsize, Src.emptyRet]
          cases eof <;> simp [hnil, hlen0, habs1]
        · have hgpos : 0 < (avail.take len').length := by omega
          obtain ⟨e1, e2, e3, e4, e5, e6, e7, e8⟩ := hco.some (by rw [hav]; exact hgpos)
          rw [hav] at e1 e2 e8
          refine ⟨?_, e3⟩
          rw [e4, e1, e2]
          have hgl : (avail.take len').length = min len' avail.length := by simp
          have hnd : c.mode = .noDrop → (avail.take len').length ≤ c1.size - c1.used := by
            intro hm
            have hm1 : c1.mode = .noDrop := by rw [hg.mode, hm]
            simp only [effLen, hm1] at hel
            split at hel
            · simp at hel
            · simp only [Option.some.injEq] at hel; omega
          have hlo : Spec.lossOk (abs c) c1.size (decide ((avail.take len').length > c1.size - c1.used)) = true :=
            lossOk_intro _ _ _ (by simp only [decide_eq_true_eq, abs_maxsize]; omega)
          have htk : avail.take (avail.take len').length = avail.take len' := by
            rw [hgl, take_min_length]
          have hcond : ¬ ((avail.take len').length > avail.length ∨
              (len ≥ 0 ∧ ((avail.take len').length : Int) > len) ∨
              (absMode c.mode = Spec.Mode.noDrop ∧ (avail.take len').length > c1.size - c1.used)) := by
            intro h
            rcases h with h | h | h
            · omega
            · have := hlle h.1; omega
            · have : c.mode = .noDrop := by
                cases hm : c.mode <;> simp [hm, absMode] at h ⊢
              have := hnd this; omega
          have hnpos : ¬ (((avail.take len').length : Int) ≤ 0) := by omega
          simp only [Spec.writeFromFd, hneg, if_false, hadm, Bool.not_true, Bool.false_eq_true, abs_q, hcl, abs_mode,
            abs_maxsize, abs_minsize, hnpos, Int.toNat_natCast, hcond, hlo, htk]
          simp [abs, Spec.lastN, e8, e4, e5, e6, e7, hg.contents, hg.minsize, hg.maxsize, hg.mode, hcl]
    · have hlz : l = 0 := by omega
      have hlen0 : len = 0 := hl0.mp hlz
      simp only [hlpos, if_false]
      refine ⟨?_, hi⟩
      subst hlen0
      simp [Spec.writeFromFd, admitSize_iff, abs, hi.smax]

end PdshVerif.Cbuf

namespace PdshVerif.Cbuf

/-! ### reader side: deterministic refinement -/

theorem peek_refines (c : Cbuf) (len : Int) : peek c len = Spec.peek (abs c) len := by
  unfold peek Spec.peek Spec.take
  by_cases h : len < 0
  · simp [h]
  · by_cases h0 : len = 0
    · subst h0; simp
    · simp [h, h0, reader_eq]

theorem read_refines {c : Cbuf} (hi : Inv c) (len : Int) :
    (read c len).1 = (Spec.read (abs c) len).1 ∧ (read c len).2.1 = (Spec.read (abs c) len).2.1 ∧
    abs (read c len).2.2 = (Spec.read (abs c) len).2.2 ∧ Inv (read c len).2.2 := by
  unfold read Spec.read Spec.take
  by_cases h : len < 0
  · simp [h, hi]
  · by_cases h0 : len = 0
    · subst h0; simp [hi, abs]
    · simp only [h, h0, if_false, reader_eq, abs_q]
      refine ⟨trivial, trivial, ?_, ?_⟩
      · by_cases hp : ((contents c).take len.toNat).length > 0
        · simp only [hp, if_true]
          have hle : ((contents c).take len.toNat).length ≤ c.used := by
            simp [contents_length]; omega
          simp only [abs, dropper_contents c _ hle]
          simp only [dropper]
          congr 1
          simp only [List.length_take, contents_length]
          by_cases h2 : len.toNat ≤ c.used
          · rw [Nat.min_eq_left h2]
          · rw [Nat.min_eq_right (by omega)]
            rw [List.drop_of_length_le (by simp [contents_length]), List.drop_of_length_le (by simp [contents_length]; omega)]
        · simp only [hp, if_false]
          have : (contents c).take len.toNat = [] := List.eq_nil_of_length_eq_zero (by omega)
          have hlen : len.toNat > 0 := by omega
          have : contents c = [] := by
            cases hc : contents c with
            | nil => rfl
            | cons a t => rw [hc] at this; cases hl : len.toNat <;> simp_all
          simp [abs, this]
      · by_cases hp : ((contents c).take len.toNat).length > 0
        · simp only [hp, if_true]
          exact inv_dropper hi _ (by simp [contents_length]; omega)
        · simp only [hp, if_false]; exact hi

theorem drop_refines {c : Cbuf} (hi : Inv c) (len : Int) :
    (drop c len).1 = (Spec.drop (abs c) len).1 ∧ abs (drop c len).2 = (Spec.drop (abs c) len).2 ∧
    Inv (drop c len).2 := by
  unfold drop Spec.drop lenNat
  by_cases h : len < -1
  · simp [h, hi]
  · by_cases h0 : len = 0
    · subst h0; simp [hi, abs]; omega
    · simp only [h, h0, if_false]
      by_cases h1 : len = -1
      · subst h1
        simp only [if_true, abs_q, contents_length]
        by_cases hu : c.used > 0
        · simp only [hu, if_true]
          refine ⟨trivial, ?_, inv_dropper hi _ (Nat.le_refl _)⟩
          simp only [abs, dropper_contents c _ (Nat.le_refl _)]
          simp [dropper, List.drop_of_length_le, contents_length]
        · simp only [hu, if_false]
          have : contents c = [] := List.eq_nil_of_length_eq_zero (by rw [contents_length]; omega)
          refine ⟨by first | rfl | omega | simp [contents_length], ?_, hi⟩
          simp [abs, this]
      · simp only [h1, if_false, abs_q, contents_length]
        by_cases hu : min len.toNat c.used > 0
        · simp only [hu, if_true]
          refine ⟨by first | trivial | omega, ?_, inv_dropper hi _ (by omega)⟩
          simp only [abs, dropper_contents c _ (Nat.min_le_right _ _)]
          simp only [dropper]
          congr 1
          by_cases h2 : len.toNat ≤ c.used
          · rw [Nat.min_eq_left h2]
          · rw [Nat.min_eq_right (by omega)]
            rw [List.drop_of_length_le (by simp [contents_length]), List.drop_of_length_le (by simp [contents_length]; omega)]
        · simp only [hu, if_false]
          have hlen : len.toNat > 0 := by omega
          have hu0 : c.used = 0 := by omega
          have : contents c = [] := List.eq_nil_of_length_eq_zero (by rw [contents_length]; omega)
          refine ⟨by first | trivial | omega, ?_, hi⟩
          simp [abs, this]

theorem flush_refines {c : Cbuf} (hi : Inv c) : abs (flush c) = Spec.flush (abs c) ∧ Inv (flush c) := by
  have := hi.spos
  refine ⟨by simp [abs, flush, Spec.flush, contents, circRead], ?_⟩
  exact ⟨hi.dsize, hi.spos, hi.smin, hi.smax, hi.alloc, by simp [flush], by simp [flush], by simp [flush],
    by simp [flush], by simp [flush], by simp [flush], by simp [flush], hi.mpos⟩

theorem optSet_refines {c : Cbuf} (hi : Inv c) (v : Nat) :
    (optSet c v).1 = (Spec.optSet (abs c) v).1 ∧ abs (optSet c v).2 = (Spec.optSet (abs c) v).2 ∧
    Inv (optSet c v).2 := by
  unfold optSet Spec.optSet Mode.ofNat?
  by_cases h0 : v = Gen.CBUF_NO_DROP
  · simp only [h0, if_true]
    exact ⟨by first | rfl | trivial, by first | rfl | trivial, ⟨hi.dsize, hi.spos, hi.smin, hi.smax, hi.alloc, hi.used, hi.iin, hi.iout, hi.irep, hi.inout, hi.wrap, hi.rep, hi.mpos⟩⟩
  · by_cases h1 : v = Gen.CBUF_WRAP_ONCE
    · simp only [h0, h1, if_true, if_false]
      exact ⟨by first | rfl | trivial, by first | rfl | trivial, ⟨hi.dsize, hi.spos, hi.smin, hi.smax, hi.alloc, hi.used, hi.iin, hi.iout, hi.irep, hi.inout, hi.wrap, hi.rep, hi.mpos⟩⟩
    · by_cases h2 : v = Gen.CBUF_WRAP_MANY
      · simp only [h0, h1, h2, if_true, if_false]
        exact ⟨by first | rfl | trivial, by first | rfl | trivial, ⟨hi.dsize, hi.spos, hi.smin, hi.smax, hi.alloc, hi.used, hi.iin, hi.iout, hi.irep, hi.inout, hi.wrap, hi.rep, hi.mpos⟩⟩
      · simp only [h0, h1, h2, if_false]
        exact ⟨by first | rfl | trivial, by first | rfl | trivial, hi⟩

end PdshVerif.Cbuf
