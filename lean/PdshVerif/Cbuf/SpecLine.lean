/-
  Specification of the line-level replay calls (`cbuf_replay_line`, `cbuf_rewind_line`,
  `cbuf_lines_reused`) on the history of replayable bytes: no indices, no modular arithmetic, no
  cells -- the history is a list, scanned from its newest byte backwards with the C arithmetic of
  `ScanLine.lean`.  What the scan computes is characterised in Props/C13.lean (`spec_replayLine_*`).

  The header's description: lines are counted from the END of the replay data; "the most recent
  line of replay data is treated as a complete line regardless of the presence of a terminating
  newline"; a line is complete when it is preceded by a newline, and the oldest held byte starts
  a line only if nothing was ever lost (`wrapped = false`).
-/
import PdshVerif.Cbuf.SpecReplay
import PdshVerif.Cbuf.ScanLine

namespace PdshVerif.Cbuf.Spec

/-- `cbuf_find_replay_line`: (bytes, lines found, nl) where `nl = 1` iff a newline has to be
    supplied to terminate the newest line -/
def findReplay (hist : List UInt8) (wrapped : Bool) (chars lines : Int) : Nat × Int × Nat :=
  if lines = 0 ∨ (lines ≤ -1 ∧ chars ≤ 0) then (0, 0, 0)
  else
    match hist.reverse with
    | [] => (0, 0, 0)
    | b :: rest =>
      let (s0, nl) := replayInit (decide (b = 10)) chars lines
      let s := scanList (b :: rest) s0
      let (m, l) := replayFinish wrapped s
      (m, l, nl)

/-- what is stored and returned for an answer `(n, nl)` of the finder with n > 0 -/
def replayLineOut (hist : List UInt8) (n nl : Nat) (len : Int) : Int × Option (List UInt8) :=
  if len > 0 then
    let m := (max (min (n : Int) (len - 1 - nl)) 0).toNat
    let bs := if m > 0 then lastN m hist else []
    let bs := if nl = 1 ∧ len > 1 then bs ++ [10] else bs
    (n + nl, some bs)
  else (n, none)

/-- `cbuf_replay_line` -/
def replayLine (r : RFifo) (len lines : Int) : Int × Option (List UInt8) :=
  if len < 0 ∨ lines < -1 then (-1, none)
  else if lines = 0 then (0, none)
  else
    let x := findReplay r.hist r.wrapped (len - 1) lines
    if x.1 > 0 then replayLineOut r.hist x.1 x.2.2 len else (x.1, none)

/-- `cbuf_rewind_line`: the bytes of the lines found become unread again (a `cbuf_rewind` by
    that many bytes) -/
def rewindLine (r : RFifo) (len lines : Int) : Int × RFifo :=
  if len < 0 ∨ lines < -1 then (-1, r)
  else if lines = 0 then (0, r)
  else
    let n := (findReplay r.hist r.wrapped len lines).1
    if n > 0 then (n, (rewind r n).2) else (n, r)

/-- `cbuf_lines_reused` -/
def linesReused (r : RFifo) : Int := (findReplay r.hist r.wrapped r.f.size (-1)).2.1

end PdshVerif.Cbuf.Spec
