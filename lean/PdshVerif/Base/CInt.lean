/-
  C integer conversions as glibc / x86-64 perform them (LP64: long = 64 bit, int = 32 bit).

  Used where a property is *about* the conversion: `string_to_int` (strtoul, then `(int)`),
  `atoi` (= `(int) strtol (s, NULL, 10)`), `_extract_rc` (atoi on a line tail).
  Strings are `List Char` without NUL (a C string ends at its first NUL; callers cut there).

  glibc facts modelled (trusted base, exercised by every correspondence case):
  * leading white space is skipped (`isspace` in the C locale: SP, \t \n \v \f \r);
  * one optional sign; then the maximal run of decimal digits;
  * no digits => value 0, end pointer = the *original* string, errno untouched;
  * strtoul: overflow => ULONG_MAX and ERANGE (whatever the sign); otherwise a leading '-'
    negates modulo 2^64;
  * strtol: overflow clamps to LONG_MAX / LONG_MIN (and ERANGE).
-/
namespace PdshVerif.CInt

def isSpace (c : Char) : Bool := c = ' ' || (9 ≤ c.toNat && c.toNat ≤ 13)

/-- core's `Char.isDigit` ('0'..'9'), so that the `Nat.toDigits` lemma library applies -/
def isDigit (c : Char) : Bool := c.isDigit

/-- value of a run of decimal digits, most significant first (unbounded) -/
def digitsVal (ds : List Char) : Nat := Nat.ofDigitChars 10 ds 0

structure Scan where
  neg    : Bool
  digits : List Char      -- the digit run; [] = "no conversion"
  rest   : List Char      -- text after the digit run (the whole input when no conversion)
  deriving Repr, DecidableEq

/-- one optional sign character -/
def signSplit : List Char → Bool × List Char
  | '-' :: r => (true, r)
  | '+' :: r => (false, r)
  | s => (false, s)

/-- common front end of strtol/strtoul, base 10 -/
def scan (s : List Char) : Scan :=
  let ns := signSplit (s.dropWhile isSpace)
  let ds := ns.2.takeWhile isDigit
  if ds = [] then { neg := false, digits := [], rest := s }
  else { neg := ns.1, digits := ds, rest := ns.2.dropWhile isDigit }

def U64 : Nat := 18446744073709551616      -- 2^64
def I63 : Nat := 9223372036854775808       -- 2^63
def U32 : Nat := 4294967296                -- 2^32
def I31 : Nat := 2147483648                -- 2^31
def INT_MAX : Int := 2147483647
def INT_MIN : Int := -2147483648

structure Strto (α : Type) where
  value  : α
  rest   : List Char
  erange : Bool
  noconv : Bool

/-- `strtoul (s, &p, 10)`; value as an unsigned 64-bit number -/
def strtoul (s : List Char) : Strto Nat :=
  let sc := scan s
  if sc.digits = [] then { value := 0, rest := s, erange := false, noconv := true }
  else
    let v := digitsVal sc.digits
    if v ≥ U64 then { value := U64 - 1, rest := sc.rest, erange := true, noconv := false }
    else { value := if sc.neg then (U64 - v) % U64 else v, rest := sc.rest, erange := false, noconv := false }

/-- `strtol (s, &p, 10)` -/
def strtol (s : List Char) : Strto Int :=
  let sc := scan s
  if sc.digits = [] then { value := 0, rest := s, erange := false, noconv := true }
  else
    let v := digitsVal sc.digits
    if sc.neg then
      if v > I63 then { value := -(I63 : Int), rest := sc.rest, erange := true, noconv := false }
      else { value := -(v : Int), rest := sc.rest, erange := false, noconv := false }
    else
      if v ≥ I63 then { value := (I63 : Int) - 1, rest := sc.rest, erange := true, noconv := false }
      else { value := (v : Int), rest := sc.rest, erange := false, noconv := false }

/-- conversion to `int` of a wider integer: keep the low 32 bits, two's complement -/
def toInt32 (n : Int) : Int :=
  let m := n % (U32 : Int)
  if m ≥ (I31 : Int) then m - (U32 : Int) else m

/-- glibc `atoi` = `(int) strtol (nptr, NULL, 10)` -/
def atoi (s : List Char) : Int := toInt32 (strtol s).value

/-- what the text denotes when read liberally as a decimal integer: optional blanks, optional sign,
    at least one digit, nothing after.  Independent of any C type: no wrap, no clamp. -/
def denotes (s : List Char) : Option Int :=
  let sc := scan s
  if sc.digits = [] then none
  else if sc.rest ≠ [] then none
  else some (if sc.neg then -(digitsVal sc.digits : Int) else (digitsVal sc.digits : Int))

/-- canonical numeral: digits only, no sign, no blanks, no superfluous leading zero -/
def canonical (s : List Char) : Bool :=
  s ≠ [] && s.all isDigit && (s.length = 1 || s.head? ≠ some '0')

end PdshVerif.CInt
