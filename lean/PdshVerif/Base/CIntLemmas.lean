/-
  Lemmas about the C integer conversions of Base/CInt.lean (shared by C08 and C18).
-/
import PdshVerif.Base.CInt

namespace PdshVerif.CInt

theorem isDigit_toNat {c : Char} (h : c.isDigit = true) : 48 ≤ c.toNat ∧ c.toNat ≤ 57 := by
  have h' := Char.isDigit_iff_toNat.mp h
  simpa using h'

theorem isDigit_not_space {c : Char} (h : c.isDigit = true) : isSpace c = false := by
  have h' := isDigit_toNat h
  simp only [isSpace, Bool.or_eq_false_iff, Bool.and_eq_false_iff, decide_eq_false_iff_not]
  refine ⟨?_, Or.inr (by omega)⟩
  intro e; subst e; simp at h'

theorem scan_numeral (ds rest : List Char) (hne : ds ≠ []) (hd : ∀ c ∈ ds, c.isDigit = true)
    (hr : ∀ c, rest.head? = some c → c.isDigit = false) :
    scan (ds ++ rest) = { neg := false, digits := ds, rest := rest } := by
  obtain ⟨d, ds', rfl⟩ := List.exists_cons_of_ne_nil hne
  have hdd : d.isDigit = true := hd d (by simp)
  have hsp : isSpace d = false := isDigit_not_space hdd
  have hm : d ≠ '-' := by intro e; subst e; have := isDigit_toNat hdd; simp at this
  have hp : d ≠ '+' := by intro e; subst e; have := isDigit_toNat hdd; simp at this
  have htw : ((d :: ds') ++ rest).takeWhile isDigit = d :: ds' := by
    rw [List.takeWhile_append_of_pos (by simpa [isDigit] using hd)]
    cases rest with
    | nil => simp
    | cons r rs =>
      have : isDigit r = false := by simpa [isDigit] using hr r rfl
      simp [this]
  have hdw : ((d :: ds') ++ rest).dropWhile isDigit = rest := by
    rw [List.dropWhile_append_of_pos (by simpa [isDigit] using hd)]
    cases rest with
    | nil => simp
    | cons r rs =>
      have : isDigit r = false := by simpa [isDigit] using hr r rfl
      simp [this]
  have h1 : ((d :: ds') ++ rest).dropWhile isSpace = (d :: ds') ++ rest := by
    simp [hsp]
  have h2 : signSplit ((d :: ds') ++ rest) = (false, (d :: ds') ++ rest) := by
    simp only [List.cons_append]
    unfold signSplit
    split
    · rename_i r heq; simp at heq; exact absurd heq.1 hm
    · rename_i r heq; simp at heq; exact absurd heq.1 hp
    · rfl
  unfold scan
  simp only [h1, h2, htw, hdw]
  simp

theorem toInt32_small (n : Nat) (h : n < I31) : toInt32 (n : Int) = n := by
  unfold toInt32 U32 I31 at *
  simp only
  have : ((n : Int) % (4294967296 : Nat)) = n := by omega
  rw [this]
  split <;> omega


end PdshVerif.CInt
