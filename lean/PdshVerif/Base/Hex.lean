/- Hex encoding used by the line protocol between harnesses and the model driver. -/
namespace PdshVerif.Hex

def hexDigit (n : Nat) : Char :=
  if n < 10 then Char.ofNat (48 + n) else Char.ofNat (87 + n)

def digitVal? (c : Char) : Option Nat :=
  if '0' ≤ c ∧ c ≤ '9' then some (c.toNat - 48)
  else if 'a' ≤ c ∧ c ≤ 'f' then some (c.toNat - 87)
  else if 'A' ≤ c ∧ c ≤ 'F' then some (c.toNat - 55)
  else none

/-- "-" encodes the empty byte string -/
def encode (bs : List UInt8) : String :=
  if bs.isEmpty then "-"
  else String.ofList (bs.flatMap fun b => [hexDigit (b.toNat / 16), hexDigit (b.toNat % 16)])

def decodeChars : List Char → Option (List UInt8)
  | [] => some []
  | [_] => none
  | a :: b :: rest => do
    let x ← digitVal? a
    let y ← digitVal? b
    let r ← decodeChars rest
    pure (UInt8.ofNat (x * 16 + y) :: r)

def decode (s : String) : Option (List UInt8) :=
  if s = "-" then some [] else decodeChars s.toList

def encodeStr (s : String) : String := encode s.toUTF8.toList
def encodeChars (s : List Char) : String := encode (s.map fun c => UInt8.ofNat c.toNat)
def decodeToChars (s : String) : Option (List Char) :=
  (decode s).map fun bs => bs.map fun b => Char.ofNat b.toNat

end PdshVerif.Hex
