import PdshVerif.Dsh.SignalsStepS

/-! # The fan-out bound in every run — with cancellations, aborts, any signals

The projection onto the Fan LTS (`SignalsFan.lean`) carries the C04 bound over to runs in which
`_cancel_pending_threads` does not run.  Here the bound is proved of the signal-extended LTS directly, for every
run: with the `while` wait construct `threadcount ≤ fanout` always, and the dispatcher is at the create only when
`threadcount < fanout`; the workers that hold a connection are among those counted in `threadcount`. -/
namespace PdshVerif.Dsh.Sig
open PdshVerif.Dsh.Fan (Variant DPC)

structure BInv (s : St) : Prop where
  le : s.tc ≤ s.f
  room : s.dpc = .create → s.tc < s.f

theorem binv_init (g sw : Bool) (f n : Nat) (b : Bool) (t0 : Nat) : BInv (init .whileWait g sw f n b t0) := by
  refine ⟨by simp [init], ?_⟩
  simp only [init]; split <;> simp

theorem binv_step {s s' : St} {l : Label} (hv : s.v = .whileWait) (hb : BInv s) (hs : step s l = some s') :
    BInv s' := by
  obtain ⟨b1, b2⟩ := hb
  cases l with
  | g a => rw [g_step_frame (step_wd hs)]; exact ⟨b1, b2⟩
  | e a =>
    obtain ⟨_, _, htc, hdpc, _, _, hf, _⟩ := e_step_frame (step_e hs)
    exact ⟨by rw [htc, hf]; exact b1, by rw [hdpc, htc, hf]; exact b2⟩
  | s a =>
    obtain ⟨_, htc, hdpc, _, _, hf, _⟩ := s_step_frame (step_s hs)
    exact ⟨by rw [htc, hf]; exact b1, by rw [hdpc, htc, hf]; exact b2⟩
  | w i a =>
    obtain ⟨p, q, _, rfl⟩ := w_facts (step_w hs)
    have e : ∀ x : St, (wEffect i x a).tc ≤ x.tc ∧ (wEffect i x a).f = x.f ∧ (wEffect i x a).dpc = x.dpc := by
      intro x; cases a <;> simp [wEffect]
    obtain ⟨e1, e2, e3⟩ := e { s with ws := s.ws.set i q, ts := s.ts.set i (wWrite s.g a p (tsAt s i)) }
    refine ⟨by rw [e2]; exact Nat.le_trans e1 b1, ?_⟩
    rw [e2, e3]; intro h; exact Nat.lt_of_le_of_lt e1 (b2 h)
  | d a =>
    have hd := step_d hs
    cases a <;> simp only [dStep] at hd <;> (repeat' split at hd) <;> simp [roomTest, drainTest] at hd <;>
      (try split at hd) <;> (try (obtain ⟨_, hd⟩ := hd)) <;> (try subst hd) <;>
      (constructor <;> simp_all <;> omega)

theorem exec_v {s0 s : St} {ls : List Label} (he : Exec s0 ls s) : s.v = s0.v := (exec_params he).1

theorem binv_exec {g sw : Bool} {f n t0 : Nat} {b : Bool} {ls : List Label} {s : St}
    (he : Exec (init .whileWait g sw f n b t0) ls s) : BInv s := by
  induction he with
  | nil => exact binv_init g sw f n b t0
  | snoc he' hs ih => exact binv_step (by rw [exec_v he']; rfl) ih hs

/-- the worker has called rcmd_connect and not yet finished rcmd_destroy: a connection (attempt) exists -/
def connected : WP → Bool
  | .connecting | .connOk | .connFail | .updT | .updL | .reading | .closing | .resL | .flushed | .tearing => true
  | _ => false

theorem connected_counted (p : WP) (h : connected p = true) : counted p = true := by
  cases p <;> simp_all [connected, counted]

end PdshVerif.Dsh.Sig
