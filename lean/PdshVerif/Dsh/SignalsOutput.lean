import PdshVerif.Dsh.SignalsOrder

/-! # Interrupts and the output stream: what an abort can tear, and the third lock

The protocol LTS (`Dsh/Signals.lean`) treats the code a thread runs between two protocol operations as one piece.  The
stdio calls in that code — `out()/err()` of a worker in its read loop and in `_flush_output`, `err()/errx()` of the
signals thread — are made visible here: the product of the LTS with ONE output stream (stdout and stderr behave alike)
under what stdio guarantees: **per-call atomicity** — a call locks the FILE, copies its bytes, unlocks; calls on one FILE
never interleave.  One call = one record (C06 `line_records_atomic`: label and line go out in ONE call since fix D6).

* who can be inside a call (`emits`): a worker while connecting (transport diagnostics), in its read loop, or flushing
  after it has recorded its result; the signals thread while it prints its notice, a listing (with thd_mutex held or
  after releasing it, up to the moment it is back in sigwait), the canceled count (with threadcount_mutex held) or the
  abort message.  Not a worker that holds
  thd_mutex, not a canceled worker closing its descriptors, not a worker past its flush (teardown, epilogue, done);
* a thread inside a call performs no protocol operation; `exit()` by the signals thread stops everything wherever the
  others are — that is the abort.

Proved for every run of the product: the FILE lock is a leaf (its holder never waits: third mutex of the lock order);
the product never deadlocks; at a normal end no call is in progress, so the stream is a concatenation of whole
records; at an abort at most ONE record is incomplete, it is the last thing in the stream, it is a prefix of the record
its owner was writing, and its owner is the signals thread or a worker that had not completed — the records of every
host that completed are whole. -/
namespace PdshVerif.Dsh.Sig
open PdshVerif.Dsh.Fan (Variant DPC)

/-- one stdio call = one record -/
structure Call where
  owner : Own
  bytes : List Nat
deriving DecidableEq

structure FileSt where
  done : List Call                -- completed calls, in the order they completed
  cur : Option (Call × Nat)       -- the call that holds the FILE lock, and how many of its bytes are in the stream

structure PSt where
  p : St
  out : FileSt

def emitW : WP → Bool
  | .connecting | .reading | .flushed => true
  | _ => false

/-- (`waiting`: the tail of a handler — a listing printed from a snapshot writes the end of its last line after its last
    protocol operation, when the model already has the thread on its way back to sigwait; it cannot take the next
    signal before that call has ended, because a thread inside a call performs no protocol operation) -/
def emitS : SPC → Bool
  | .intT2 | .listing _ | .printing _ | .cancUnlock | .exiting | .waiting => true
  | _ => false

/-- the worker has completed: its result is recorded and its buffers are flushed -/
def completedW : WP → Bool
  | .tearing | .torn | .locked | .signaled | .done => true
  | _ => false

def emits (s : St) : Own → Bool
  | .w j => emitW (pc s j)
  | .s => emitS s.spc
  | _ => false

inductive PLabel
  | proto (l : Label)      -- a protocol operation (or an environment step)
  | begin (c : Call)       -- flockfile: the call starts
  | copy                   -- one more byte of the call reaches the stream
  | finish                 -- the call ends, funlockfile
deriving DecidableEq

def inCall (o : FileSt) (t : Own) : Bool :=
  match o.cur with
  | some (c, _) => c.owner == t
  | none => false

def pstep (p : PSt) : PLabel → Option PSt
  | .proto l => if inCall p.out l.thread then none else (step p.p l).map fun s' => { p with p := s' }
  | .begin c =>
      if p.p.exited = none ∧ p.out.cur = none ∧ emits p.p c.owner = true then
        some { p with out := { p.out with cur := some (c, 0) } }
      else none
  | .copy => match p.out.cur with
      | some (c, k) =>
          if p.p.exited = none ∧ k < c.bytes.length then some { p with out := { p.out with cur := some (c, k + 1) } }
          else none
      | none => none
  | .finish => match p.out.cur with
      | some (c, k) =>
          if p.p.exited = none ∧ k = c.bytes.length then some { p with out := { done := p.out.done ++ [c], cur := none } }
          else none
      | none => none

/-- the bytes in the stream -/
def content (o : FileSt) : List Nat :=
  o.done.flatMap (·.bytes) ++ (match o.cur with | some (c, k) => c.bytes.take k | none => [])

inductive PExec (p0 : PSt) : List PLabel → PSt → Prop
  | nil : PExec p0 [] p0
  | snoc {ls p l p'} : PExec p0 ls p → pstep p l = some p' → PExec p0 (ls ++ [l]) p'

def pinit (v : Variant) (g sw : Bool) (f n : Nat) (b : Bool) (t0 : Nat) : PSt :=
  { p := init v g sw f n b t0, out := { done := [], cur := none } }

structure CallInv (p : PSt) : Prop where
  own : ∀ c k, p.out.cur = some (c, k) → emits p.p c.owner = true ∧ k ≤ c.bytes.length

/-! ## a thread inside a call stays where it is while the others move -/

theorem d_step_ws {s s' : St} {a : DAct} (hs : dStep s a = some s') :
    s'.ws = s.ws ∨ (s.dpc = .create ∧ s'.ws = s.ws.set (skip s.ts s.i) .started) := by
  cases a <;> simp only [dStep] at hs <;> (repeat' split at hs) <;> simp [roomTest, drainTest] at hs <;>
    (try split at hs) <;> (try (obtain ⟨h1, hs⟩ := hs)) <;> (try subst hs) <;> simp_all

theorem d_step_spc' {s s' : St} {a : DAct} (hs : dStep s a = some s') : s'.spc = s.spc ∨ s.spc = .off := by
  cases a <;> simp only [dStep] at hs <;> (repeat' split at hs) <;> simp [roomTest, drainTest] at hs <;>
    (try split at hs) <;> (try (obtain ⟨h1, hs⟩ := hs)) <;> (try subst hs) <;> simp_all

theorem emits_preserved {s s' : St} {l : Label} {t : Own} (h : Inv s) (hs : step s l = some s')
    (hne : l.thread ≠ t) (he : emits s t = true) : emits s' t = true := by
  cases t with
  | none => simp [emits] at he
  | d => simp [emits] at he
  | g => simp [emits] at he
  | w j =>
    simp only [emits] at he ⊢
    have hpc : pc s' j = pc s j := by
      cases l with
      | d a =>
        rcases d_step_ws (step_d hs) with hw | ⟨hd, hw⟩
        · exact pc_congr hw j
        · have hid := create_idle h.f hd
          simp only [pc, hw]
          by_cases hj : j = skip s.ts s.i
          · subst hj
            have : pc s (skip s.ts s.i) = .idle := hid
            rw [this] at he; simp [emitW] at he
          · rw [List.getD_eq_getElem?_getD, List.getD_eq_getElem?_getD, List.getElem?_set_ne (fun hc => hj hc.symm)]
      | w i a =>
        obtain ⟨p, q, ⟨hi, _, _, _, _⟩, rfl⟩ := w_facts (step_w hs)
        have hij : i ≠ j := by intro hc; apply hne; simp [Label.thread, hc]
        simp only [pc, wEffect_ws]
        rw [List.getD_eq_getElem?_getD, List.getD_eq_getElem?_getD, List.getElem?_set_ne hij]
      | s a => exact pc_congr (s_step_frame (step_s hs)).1 j
      | e a => exact pc_congr (e_step_frame (step_e hs)).1 j
      | g a => rw [g_step_frame (step_wd hs)]; rfl
    rw [hpc]; exact he
  | s =>
    simp only [emits] at he ⊢
    have hsp : s'.spc = s.spc := by
      cases l with
      | d a =>
        rcases d_step_spc' (step_d hs) with h1 | h1
        · exact h1
        · rw [h1] at he; simp [emitS] at he
      | w i a =>
        obtain ⟨p, q, _, rfl⟩ := w_facts (step_w hs)
        rw [wEffect_spc]
      | s a => exact absurd rfl hne
      | e a => exact (e_step_frame (step_e hs)).2.2.2.2.2.2.2.2.2
      | g a => rw [g_step_frame (step_wd hs)]
    rw [hsp]; exact he

theorem callinv_step {p p' : PSt} {l : PLabel} (h : Inv p.p) (ho : CallInv p) (hs : pstep p l = some p') : CallInv p' := by
  cases l with
  | proto l =>
    simp only [pstep] at hs
    split at hs
    · simp at hs
    · rename_i hin
      cases hst : step p.p l with
      | none => rw [hst] at hs; simp at hs
      | some s' =>
        rw [hst] at hs; simp at hs; subst hs
        refine ⟨fun c k hc => ?_⟩
        obtain ⟨h1, h2⟩ := ho.own c k hc
        refine ⟨emits_preserved h hst ?_ h1, h2⟩
        intro heq
        apply hin
        have hc' : p.out.cur = some (c, k) := hc
        simp [inCall, hc', heq]
  | begin c =>
    simp only [pstep] at hs
    split at hs <;> simp at hs
    rename_i hg
    subst hs
    refine ⟨fun c' k hc => ?_⟩
    simp at hc
    obtain ⟨rfl, rfl⟩ := hc
    exact ⟨hg.2.2, by omega⟩
  | copy =>
    simp only [pstep] at hs
    split at hs
    · rename_i c k hc
      split at hs <;> simp at hs
      rename_i hg
      subst hs
      refine ⟨fun c' k' hc' => ?_⟩
      simp at hc'
      obtain ⟨rfl, rfl⟩ := hc'
      exact ⟨(ho.own c k hc).1, by omega⟩
    · simp at hs
  | finish =>
    simp only [pstep] at hs
    split at hs
    · split at hs <;> simp at hs
      subst hs
      exact ⟨fun c' k' hc' => by simp at hc'⟩
    · simp at hs

theorem pstep_inv {p p' : PSt} {l : PLabel} (h : Inv p.p) (hs : pstep p l = some p') : Inv p'.p := by
  cases l with
  | proto l =>
    simp only [pstep] at hs
    split at hs
    · simp at hs
    · cases hst : step p.p l with
      | none => rw [hst] at hs; simp at hs
      | some s' => rw [hst] at hs; simp at hs; subst hs; exact inv_step h hst
  | begin c => simp only [pstep] at hs; split at hs <;> simp at hs; subst hs; exact h
  | copy =>
    simp only [pstep] at hs
    split at hs
    · split at hs <;> simp at hs; subst hs; exact h
    · simp at hs
  | finish =>
    simp only [pstep] at hs
    split at hs
    · split at hs <;> simp at hs; subst hs; exact h
    · simp at hs

/-- the protocol part of a run of the product is a run of the protocol LTS -/
theorem pexec_proj {p0 p : PSt} {ls : List PLabel} (he : PExec p0 ls p) :
    Exec p0.p (ls.filterMap fun l => match l with | .proto x => some x | _ => none) p.p := by
  induction he with
  | nil => exact Exec.nil
  | @snoc ls0 p1 l p2 _ hs ih =>
    rw [List.filterMap_append]
    cases l with
    | proto x =>
      simp only [pstep] at hs
      split at hs
      · simp at hs
      · cases hst : step p1.p x with
        | none => rw [hst] at hs; simp at hs
        | some s' =>
          rw [hst] at hs; simp at hs; subst hs
          simpa using Exec.snoc ih hst
    | begin c => simp only [pstep] at hs; split at hs <;> simp at hs; subst hs; simpa using ih
    | copy =>
      simp only [pstep] at hs
      split at hs
      · split at hs <;> simp at hs; subst hs; simpa using ih
      · simp at hs
    | finish =>
      simp only [pstep] at hs
      split at hs
      · split at hs <;> simp at hs; subst hs; simpa using ih
      · simp at hs

theorem pexec_invs {v g sw f n b t0} {p : PSt} {ls : List PLabel} (he : PExec (pinit v g sw f n b t0) ls p) :
    Inv p.p ∧ CallInv p := by
  induction he with
  | nil => exact ⟨inv_init v g sw f n b t0, ⟨fun c k hc => by simp [pinit] at hc⟩⟩
  | snoc _ hs ih => exact ⟨pstep_inv ih.1 hs, callinv_step ih.1 ih.2 hs⟩

def prun (p : PSt) : List PLabel → Option PSt
  | [] => some p
  | l :: ls => (pstep p l).bind (prun · ls)

theorem pexec_cons {p0 p1 p : PSt} {l : PLabel} {ls : List PLabel} (hs : pstep p0 l = some p1) (he : PExec p1 ls p) :
    PExec p0 (l :: ls) p := by
  induction he with
  | nil => exact PExec.snoc (ls := []) PExec.nil hs
  | snoc _ hs' ih => exact PExec.snoc ih hs'

theorem pexec_of_prun : ∀ {ls : List PLabel} {p0 p : PSt}, prun p0 ls = some p → PExec p0 ls p
  | [], p0, p, h => by simp [prun] at h; subst h; exact PExec.nil
  | l :: ls, p0, p, h => by
      simp only [prun] at h
      cases hs : pstep p0 l with
      | none => rw [hs] at h; simp at h
      | some p1 => rw [hs] at h; exact pexec_cons hs (pexec_of_prun (by simpa using h))

/-! ## the FILE lock is a leaf; the product never deadlocks -/

/-- whoever is inside a stdio call can go on: copy the next byte or end the call.  It waits for nothing — although it
    may itself hold thd_mutex (the signals thread printing a listing) or threadcount_mutex (printing the canceled
    count): lock order  threadcount_mutex / thd_mutex  →  FILE lock,  never the other way round -/
theorem file_holder_runs {p : PSt} {c : Call} {k : Nat} (ho : CallInv p) (hx : p.p.exited = none)
    (hc : p.out.cur = some (c, k)) : (pstep p .copy).isSome = true ∨ (pstep p .finish).isSome = true := by
  have hk := (ho.own c k hc).2
  by_cases hlt : k < c.bytes.length
  · left; simp [pstep, hc, hx, hlt]
  · right
    have : k = c.bytes.length := by omega
    simp [pstep, hc, hx, this]

/-- the operations of pdsh's own threads in the product: protocol operations that are neither environment steps nor
    spurious wake-ups, and the steps of a call -/
def PLabel.proper : PLabel → Bool
  | .proto l => l.proper
  | _ => true

/-- until dsh() has returned or exit() was called some thread of pdsh can take a step in the product too: the stdio
    lock adds no deadlock -/
theorem product_progress {p : PSt} (h : Inv p.p) (ho : CallInv p) (hf : 0 < p.p.f) (hx : p.p.exited = none)
    (hnr : p.p.dpc ≠ .returned) : ∃ l, l.proper = true ∧ (pstep p l).isSome = true := by
  obtain ⟨l, hp, hen⟩ := progress_move h hf hx hnr
  by_cases hin : inCall p.out l.thread = true
  · cases hc : p.out.cur with
    | none => simp [inCall, hc] at hin
    | some ck =>
      obtain ⟨c, k⟩ := ck
      rcases file_holder_runs ho hx hc with h1 | h1
      · exact ⟨.copy, rfl, h1⟩
      · exact ⟨.finish, rfl, h1⟩
  · refine ⟨.proto l, hp, ?_⟩
    simp only [pstep]
    rw [if_neg hin]
    cases hs : step p.p l with
    | none => rw [hs] at hen; cases hen
    | some s' => rfl

/-! ## what is in the stream -/

/-- at every moment of every run — in particular at the moment exit() is called by an abort — the stream consists of
    whole records followed by at most one incomplete record; the incomplete one is a prefix of the record its owner was
    writing, and the owner is the signals thread or a worker that has not completed -/
theorem stream_shape {p : PSt} (h : Inv p.p) (ho : CallInv p) :
    (p.out.cur = none → content p.out = p.out.done.flatMap (·.bytes)) ∧
    (∀ c k, p.out.cur = some (c, k) →
      content p.out = p.out.done.flatMap (·.bytes) ++ c.bytes.take k ∧ k ≤ c.bytes.length ∧
      (c.owner = .s ∨ ∃ j, c.owner = .w j ∧ completedW (pc p.p j) = false)) := by
  refine ⟨fun hc => by simp [content, hc], fun c k hc => ?_⟩
  obtain ⟨h1, h2⟩ := ho.own c k hc
  refine ⟨by simp [content, hc], h2, ?_⟩
  cases hown : c.owner with
  | s => exact Or.inl rfl
  | w j =>
    right
    refine ⟨j, rfl, ?_⟩
    rw [hown] at h1
    simp only [emits] at h1
    revert h1; cases pc p.p j <;> simp [emitW, completedW]
  | none => rw [hown] at h1; simp [emits] at h1
  | d => rw [hown] at h1; simp [emits] at h1
  | g => rw [hown] at h1; simp [emits] at h1

/-- a host that has completed (result recorded, buffers flushed: teardown, epilogue or done) has no call in progress:
    every record it ever began is in the stream in full — whatever happens next, including an abort -/
theorem completed_host_not_in_call {p : PSt} (ho : CallInv p) {j : Nat} (hc : completedW (pc p.p j) = true) :
    inCall p.out (.w j) = false := by
  cases hcur : p.out.cur with
  | none => simp [inCall, hcur]
  | some ck =>
    obtain ⟨c, k⟩ := ck
    simp only [inCall, hcur]
    cases hb : (c.owner == Own.w j) with
    | false => rfl
    | true =>
      have heq : c.owner = .w j := by simpa using hb
      have := (ho.own c k hcur).1
      rw [heq] at this
      simp only [emits] at this
      revert this hc; cases pc p.p j <;> simp [emitW, completedW]

/-- the normal end (repaired shutdown: the signals thread is joined): when dsh() has returned no call is in progress
    and the stream is exactly the concatenation of the completed records — nothing is torn -/
theorem normal_end_whole {p : PSt} (h : Inv p.p) (ho : CallInv p) (hsw : p.p.sw = true) (hr : p.p.dpc = .returned) :
    p.out.cur = none ∧ content p.out = p.out.done.flatMap (·.bytes) := by
  have hnone : p.out.cur = none := by
    cases hcur : p.out.cur with
    | none => rfl
    | some ck =>
      exfalso
      obtain ⟨c, k⟩ := ck
      have he := (ho.own c k hcur).1
      cases hown : c.owner with
      | s =>
        rw [hown] at he
        have := (h.c.ret hr).2 hsw
        simp [emits, this, emitS] at he
      | w j =>
        rw [hown] at he
        simp only [emits] at he
        by_cases hj : j < p.p.ws.length
        · rcases h.f.fin (by rw [hr]; rfl) j hj with h1 | h1 <;> rw [h1] at he <;> simp [emitW] at he
        · have : pc p.p j = .idle := getD_ge' (by omega)
          rw [this] at he; simp [emitW] at he
      | none => rw [hown] at he; simp [emits] at he
      | d => rw [hown] at he; simp [emits] at he
      | g => rw [hown] at he; simp [emits] at he
  exact ⟨hnone, by simp [content, hnone]⟩

end PdshVerif.Dsh.Sig
