import PdshVerif.Dsh.SignalsStepF

/-! # The invariants are preserved by the workers' steps -/
namespace PdshVerif.Dsh.Sig
open PdshVerif.Dsh.Fan (Variant DPC)

/-! ## tables: what a local move `p → q` of a worker under action `a` means for the predicates -/

theorem tbl_ends {g : Bool} {a : WAct} {p q : WP} {c : Bool} (h : wNext g a p c = some q) : p ≠ .idle ∧ p ≠ .done ∧ q ≠ .idle := by
  cases g <;> cases c <;> cases a <;> (try (rename_i ok; cases ok)) <;> cases p <;> simp [wNext] at h <;> (try subst h) <;> simp

theorem tbl_holdsW {g : Bool} {a : WAct} {p q : WP} {c : Bool} (h : wNext g a p c = some q) :
    (holdsW p = true ↔ (a = .signal ∨ a = .unlock)) ∧ (holdsW q = true ↔ (a = .lock ∨ a = .signal)) := by
  cases g <;> cases c <;> cases a <;> (try (rename_i ok; cases ok)) <;> cases p <;> simp [wNext] at h <;> (try subst h) <;>
    simp [holdsW]

theorem tbl_holdsT {g : Bool} {a : WAct} {p q : WP} {c : Bool} (h : wNext g a p c = some q) :
    (holdsT p = true ↔ (a = .time ∨ a = .unlockT)) ∧ (holdsT q = true ↔ (a = .lockT ∨ a = .time ∨ a = .lockTF)) := by
  cases g <;> cases c <;> cases a <;> (try (rename_i ok; cases ok)) <;> cases p <;> simp [wNext] at h <;> (try subst h) <;>
    simp [holdsT]

theorem tbl_counted {g : Bool} {a : WAct} {p q : WP} {c : Bool} (h : wNext g a p c = some q) :
    (counted p = true ↔ ¬ (a = .signal ∨ a = .unlock)) ∧
    (counted q = true ↔ ¬ (a = .lock ∨ a = .signal ∨ a = .unlock)) := by
  cases g <;> cases c <;> cases a <;> (try (rename_i ok; cases ok)) <;> cases p <;> simp [wNext] at h <;> (try subst h) <;>
    simp [counted]

theorem tbl_isLocked {g : Bool} {a : WAct} {p q : WP} {c : Bool} (h : wNext g a p c = some q) :
    (isLocked p = true ↔ a = .signal) ∧ (isLocked q = true ↔ a = .lock) := by
  cases g <;> cases c <;> cases a <;> (try (rename_i ok; cases ok)) <;> cases p <;> simp [wNext] at h <;> (try subst h) <;>
    simp [isLocked]

theorem tbl_okTS {g : Bool} {a : WAct} {p q : WP} {t : TS} (h : wNext g a p (t == .canceled) = some q) (hok : okTS p t = true) :
    okTS q (wWrite g a p t) = true := by
  cases g <;> cases t <;> cases a <;> (try (rename_i ok; cases ok)) <;> cases p <;> simp [wNext] at h <;> (try subst h) <;>
    simp_all [okTS, wWrite]

/-! ## common facts about a worker step -/

structure WFacts (s : St) (i : Nat) (a : WAct) (p q : WP) : Prop where
  hi : i < s.ws.length
  hpci : pc s i = p
  next : wNext s.g a p (tsAt s i == .canceled) = some q
  gT : a.locksT = true → s.thd = .none
  gO : a = .lock → s.own = .none

theorem w_facts {s s' : St} {i : Nat} {a : WAct} (hs : wStep s i a = some s') :
    ∃ p q, WFacts s i a p q ∧
      s' = wEffect i { s with ws := s.ws.set i q, ts := s.ts.set i (wWrite s.g a p (tsAt s i)) } a := by
  obtain ⟨p, q, hp, hn, hgT, hgO, rfl⟩ := w_step_facts hs
  exact ⟨p, q, ⟨lt_of_getElem?' hp, getD_of_getElem?' hp, hn, hgT, hgO⟩, rfl⟩

theorem pc_after {s : St} {i : Nat} {a : WAct} {q : WP} {x : TS} (hi : i < s.ws.length) (j : Nat) :
    pc (wEffect i { s with ws := s.ws.set i q, ts := s.ts.set i x } a) j = if j = i then q else pc s j := by
  simp only [pc, wEffect_ws]; exact getD_set' hi

theorem tsAt_after {s : St} {i : Nat} {a : WAct} {q : WP} {x : TS} (hi : i < s.ts.length) (j : Nat) :
    tsAt (wEffect i { s with ws := s.ws.set i q, ts := s.ts.set i x } a) j = if j = i then x else tsAt s j := by
  simp only [tsAt, wEffect_ts]; exact getD_set' hi

theorem minv_w {s s' : St} {i : Nat} {a : WAct} (hm : MInv s) (hs : wStep s i a = some s') : MInv s' := by
  obtain ⟨p, q, ⟨hi, hpci, hn, hgT, hgO⟩, rfl⟩ := w_facts hs
  clear hs
  have ⟨h1, h2, h3, h4, h5, h6, h7, h8, h9⟩ := hm
  have ⟨wp, wq⟩ := tbl_holdsW hn
  have ⟨tp, tq⟩ := tbl_holdsT hn
  have hpc := fun j => pc_after (s := s) (a := a) (q := q) (x := wWrite s.g a p (tsAt s i)) hi j
  have hownI := h2 i
  have hthdI := h6 i
  rw [hpci] at hownI hthdI
  -- facts about the holders before the step
  have hnh_of : ∀ {o : Own}, s.own = o → o ≠ .d → s.dpc.holds = false := by
    intro o ho hne
    cases hh : s.dpc.holds with
    | false => rfl
    | true => have := h1.mpr hh; rw [ho] at this; exact absurd this hne
  have hown_su : (a = .signal ∨ a = .unlock) → s.own = .w i := fun ha => hownI.mpr (wp.mpr ha)
  have hthd_tu : (a = .time ∨ a = .unlockT) → s.thd = .w i := fun ha => hthdI.mpr (tp.mpr ha)
  have hneW : ∀ {j}, j ≠ i → ¬ (Own.w i = Own.w j) := by intro j hj hc; cases hc; exact hj rfl
  refine { ownD := ?_, ownW := ?_, ownS1 := ?_, ownS2 := ?_, thdD := ?_, thdW := ?_, thdS1 := ?_, thdS2 := ?_,
           canc := ?_ }
  · -- ownD
    cases a with
    | lock => have := hnh_of (hgO rfl) (by simp); simp [wEffect, this]
    | unlock => have := hnh_of (hown_su (Or.inr rfl)) (by simp); simp [wEffect, this]
    | _ => exact h1
  · -- ownW
    intro j; rw [hpc]
    by_cases hj : j = i
    · subst hj; simp only [if_true]
      cases a with
      | lock => simp [wEffect, wq]
      | unlock => simp at wq; simp [wEffect, wq]
      | signal => have := hown_su (Or.inl rfl); simp at wq; simp [wEffect, wq, this]
      | _ => simp at wq wp; simp only [wEffect]; rw [wq]; simpa [wp] using hownI
    · simp only [if_neg hj]
      cases a with
      | lock =>
        have h2j := h2 j; rw [hgO rfl] at h2j
        simp only [wEffect, hneW hj, false_iff]; intro hc; have := h2j.mpr hc; cases this
      | unlock =>
        have h2j := h2 j; rw [hown_su (Or.inr rfl)] at h2j
        have hne2 : ¬ (Own.none = Own.w j) := by intro hc; cases hc
        simp only [wEffect, hne2, false_iff]; intro hc; exact hneW hj (h2j.mpr hc)
      | _ => exact h2 j
  · -- ownS1
    intro hc
    have hc' : s.spc = .cancUnlock := by simpa [wEffect_spc] using hc
    have hso := h3 hc'
    cases a with
    | lock => have := hgO rfl; rw [this] at hso; cases hso
    | unlock => have := hown_su (Or.inr rfl); rw [this] at hso; cases hso
    | _ => exact hso
  · -- ownS2
    intro hc
    rw [wEffect_spc]
    apply h4
    cases a with
    | lock => simp [wEffect] at hc
    | unlock => simp [wEffect] at hc
    | _ => exact hc
  · cases a with
    | lockT | lockTF => simp [wEffect]
    | unlockT => simp [wEffect]
    | _ => exact h5
  · -- thdW
    intro j; rw [hpc]
    by_cases hj : j = i
    · subst hj; simp only [if_true]
      cases a with
      | lockT | lockTF => simp [wEffect, tq]
      | unlockT => simp at tq; simp [wEffect, tq]
      | time => have := hthd_tu (Or.inl rfl); simp at tq; simp [wEffect, tq, this]
      | _ => simp at tq tp; simp only [wEffect]; rw [tq]; simpa [tp] using hthdI
    · simp only [if_neg hj]
      cases a with
      | lockT | lockTF =>
        have h6j := h6 j; rw [hgT rfl] at h6j
        simp only [wEffect, hneW hj, false_iff]; intro hc; have := h6j.mpr hc; cases this
      | unlockT =>
        have h6j := h6 j; rw [hthd_tu (Or.inr rfl)] at h6j
        have hne2 : ¬ (Own.none = Own.w j) := by intro hc; cases hc
        simp only [wEffect, hne2, false_iff]; intro hc; exact hneW hj (h6j.mpr hc)
      | _ => exact h6 j
  · -- thdS1
    intro hc
    have hc' : s.spc.holdsT = true := by simpa [wEffect_spc] using hc
    have hso := h7 hc'
    cases a with
    | lockT | lockTF => have := hgT rfl; rw [this] at hso; cases hso
    | unlockT => have := hthd_tu (Or.inr rfl); rw [this] at hso; cases hso
    | _ => exact hso
  · -- thdS2
    intro hc
    rw [wEffect_spc]
    apply h8
    cases a with
    | lockT | lockTF => simp [wEffect] at hc
    | unlockT => simp [wEffect] at hc
    | _ => exact hc
  · rw [wEffect_spc, wEffect_dpc]; exact h9

theorem tinv_w {s s' : St} {i : Nat} {a : WAct} (ht : TInv s) (hs : wStep s i a = some s') : TInv s' := by
  obtain ⟨p, q, ⟨hi, hpci, hn, hgT, hgO⟩, rfl⟩ := w_facts hs
  have ⟨hl, hok⟩ := ht
  refine { len := ?_, ok := ?_ }
  · rw [wEffect_ts, wEffect_ws]; simpa using hl
  · intro j
    rw [pc_after hi, tsAt_after (by omega)]
    split
    · have := hok i; rw [hpci] at this; exact tbl_okTS hn this
    · exact hok j

theorem finv_w {s s' : St} {i : Nat} {a : WAct} (hm : MInv s) (ht : TInv s) (h : FInv s)
    (hs : wStep s i a = some s') : FInv s' := by
  obtain ⟨p, q, ⟨hi, hpci, hn, hgT, hgO⟩, rfl⟩ := w_facts hs
  have ⟨h1, h2, h3, h4, h5, h6, h7, h8, h9, h10⟩ := h
  have ⟨hpi, hpd, hqi⟩ := tbl_ends hn
  have ⟨cp, cq⟩ := tbl_counted hn
  have ⟨lp, lq⟩ := tbl_isLocked hn
  have ⟨wp, wq⟩ := tbl_holdsW hn
  have hpc := fun j => pc_after (s := s) (a := a) (q := q) (x := wWrite s.g a p (tsAt s i)) hi j
  have hts := fun j => tsAt_after (s := s) (a := a) (q := q) (x := wWrite s.g a p (tsAt s i)) (i := i)
    (by rw [ht.len]; exact hi) j
  have hget : s.ws[i]? = some p := getElem?_of_getD_lt hi hpci
  have hcC := countP_set_of' counted (b := q) hget
  have hcL := countP_set_of' isLocked (b := q) hget
  -- worker i is not idle, hence behind the frontier
  have hfr : i < frontier s := by
    apply Nat.lt_of_not_le; intro hc; have := h2 i hc; rw [hpci] at this; exact hpi this
  -- the dispatcher has not seen `threadcount == 0`
  have hnf : s.dpc.finished = false := by
    cases hf : s.dpc.finished with
    | false => rfl
    | true => have := h8 hf i hi; rw [hpci] at this; rcases this with h | h <;> simp_all
  have hfrs : frontier (wEffect i { s with ws := s.ws.set i q, ts := s.ts.set i (wWrite s.g a p (tsAt s i)) } a) =
      frontier s := by simp [frontier, wEffect_dpc, wEffect_i]
  have hnh_lock : a = .lock → s.dpc.holds = false := by
    intro ha; have := hgO ha
    cases hh : s.dpc.holds with
    | false => rfl
    | true => have := hm.ownD.mpr hh; simp_all
  refine { cnt := ?_, front1 := ?_, front2 := ?_, disp := ?_, drain := ?_, waitEq := ?_, dwaitPos := ?_,
           fin := ?_, park := ?_, dpark := ?_ }
  · -- cnt
    rw [wEffect_ws]
    cases a with
    | lock => simp at cp cq; simp [cp, cq] at hcC; simp [wEffect]; omega
    | signal => simp at cp cq; simp [cp, cq] at hcC; simp [wEffect]; omega
    | unlock => simp at cp cq; simp [cp, cq] at hcC; simp [wEffect]; omega
    | _ => simp at cp cq; simp [cp, cq] at hcC; simp [wEffect]; omega
  · intro j hj; rw [hfrs] at hj; rw [hpc, if_neg (by omega)]; exact h2 j hj
  · intro j hj hid; rw [hfrs] at hj; rw [hpc] at hid; rw [hts]
    split at hid
    · exact absurd hid hqi
    · rename_i hne; rw [if_neg hne]; exact h3 j hj hid
  · rw [wEffect_dpc, wEffect_i, wEffect_ws]; simpa using h4
  · rw [wEffect_dpc, wEffect_i, wEffect_ws]; simpa using h5
  · rw [wEffect_dpc, wEffect_f]; intro hd
    have := h6 hd
    cases a with
    | lock => have := hnh_lock rfl; rw [hd] at this; cases this
    | _ => exact this
  · rw [wEffect_dpc]; intro hd
    have := h7 hd
    cases a with
    | lock => have := hnh_lock rfl; rw [hd] at this; cases this
    | _ => exact this
  · rw [wEffect_dpc]; intro hc; rw [hnf] at hc; cases hc
  · -- park
    rw [wEffect_dpc, wEffect_ws, wEffect_f]; intro hd
    have hd' : s.dpc = .parked := hd
    cases a with
    | signal => intro hsg; simp [wEffect, hd', DPC.isParked] at hsg
    | lock =>
      intro hsg; have := h9 hd hsg
      simp at lp lq cp cq; simp [lp, lq] at hcL; simp [cp, cq] at hcC; simp [wEffect] at this ⊢; omega
    | _ =>
      intro hsg; have := h9 hd hsg
      simp at lp lq cp cq; simp [lp, lq] at hcL; simp [cp, cq] at hcC; simp [wEffect] at this ⊢; omega
  · -- dpark
    rw [wEffect_dpc, wEffect_ws]; intro hd
    have hd' : s.dpc = .dparked := hd
    cases a with
    | signal => intro hsg; simp [wEffect, hd', DPC.isParked] at hsg
    | lock =>
      intro hsg; have := h10 hd hsg
      simp at lp lq cp cq; simp [lp, lq] at hcL; simp [cp, cq] at hcC; simp [wEffect] at this ⊢; omega
    | _ =>
      intro hsg; have := h10 hd hsg
      simp at lp lq cp cq; simp [lp, lq] at hcL; simp [cp, cq] at hcC; simp [wEffect] at this ⊢; omega

end PdshVerif.Dsh.Sig
