/-
  C08, finding C08-SIGCHLD-IGNORED-STATUS-LOST: the wait status `pipecmd_wait` hands to `exec_destroy` when pdsh was
  started with SIGCHLD inherited as SIG_IGN.

  Code modelled (src/common/pipecmd.c, pipecmd_wait):
      int status = 0;
      if (waitpid (p->pid, &status, 0) < 0)
          err ("... waitpid: %m\n");          -- only a message
      ...
      *pstatus = status; return (0);
  With SIGCHLD ignored the kernel reaps every child itself; waitpid blocks until the child is gone and then fails
  with ECHILD, so `status` keeps its initial 0 whatever the command did.  An ignored disposition survives exec, so
  it is the CALLER's environment that decides (`trap '' CHLD; pdsh ...`).  Proposed repair
  (findings/C08-SIGCHLD-IGNORED.patch): dsh() restores SIG_DFL before it starts anything.

  The check (vlib/exitchld.py) runs the real binary with SIGCHLD ignored every quick run, decides by a probe whether
  the tree under check contains the repair, and hands the model the wait status this file computes.
-/
import PdshVerif.Dsh.ExitLemmas

namespace PdshVerif.Dsh.Exit

/-- the disposition of SIGCHLD the commands are started under -/
structure ChldEnv where
  /-- SIGCHLD was SIG_IGN when pdsh was exec'ed -/
  inheritedIgnored : Bool
  /-- the repair: dsh() calls `_xsignal (SIGCHLD, SIG_DFL)` -/
  restored : Bool
  deriving DecidableEq, Repr

/-- SIGCHLD is ignored while the commands run -/
def ChldEnv.ignored (e : ChldEnv) : Bool := e.inheritedIgnored && !e.restored

/-- `pipecmd_wait`: the status word the caller gets for a child that ended with wait status `st` -/
def pipecmdWaitStatus (e : ChldEnv) (st : Nat) : Nat := if e.ignored then 0 else st

/-- the out-of-band channel (`execScript`) with the wait status passed through `pipecmd_wait` -/
def execScriptChld (fx : Fixes) (e : ChldEnv) : Outcome → Script
  | .exited c => { connectOk := true, stdout := [], timedOut := false,
                   rv := execDestroy fx (some (pipecmdWaitStatus e (c % 256 * 256))) }
  | .killed s => { connectOk := true, stdout := [], timedOut := false,
                   rv := execDestroy fx (some (pipecmdWaitStatus e (s % 128))) }
  | .connectFailed => { connectOk := false, stdout := [], timedOut := false, rv := execDestroy fx none }
  | .timedOut => { connectOk := true, stdout := [], timedOut := true,
                   rv := execDestroy fx (some (pipecmdWaitStatus e 15)) }

/-- default disposition, or the repair in place: exactly the channel every other theorem of C08 is about -/
theorem execScriptChld_eq (fx : Fixes) (e : ChldEnv) (h : e.ignored = false) (o : Outcome) :
    execScriptChld fx e o = execScript fx o := by
  cases o <;> simp [execScriptChld, execScript, pipecmdWaitStatus, h]

/-- the repair makes the inherited disposition irrelevant -/
theorem restored_not_ignored (e : ChldEnv) (h : e.restored = true) : e.ignored = false := by
  simp [ChldEnv.ignored, h]

/-- THE DEFECT, for every command that ran (any variant of the other repairs): with SIGCHLD ignored the target's
    code is 0 whatever the command returned or whichever signal killed it -/
theorem chld_ignored_status_lost (fx : Fixes) (e : ChldEnv) (h : e.ignored = true) (o : Outcome)
    (hran : o ≠ .connectFailed) :
    (hostOf fx (execScriptChld fx e o)).rc = 0 := by
  cases o <;>
    first
    | exact absurd rfl hran
    | simp [hostOf, execScriptChld, pipecmdWaitStatus, h, execDestroy, wifsignaled, wtermsig, wexitstatus,
        splitLines_nil, rcAfterLines, finalRc]

/-- ... so a run of commands that all ran — however they ended — exits 0 under -S, and -k does not fire -/
theorem chld_ignored_exit0 (fx : Fixes) (e : ChldEnv) (h : e.ignored = true) (k : Bool) :
    mainExit fx ⟨true, k⟩ (.started [hostOf fx (execScriptChld fx e (.exited 3))]) = 0 ∧
    mainExit fx ⟨true, k⟩ (.started [hostOf fx (execScriptChld fx e (.killed 9))]) = 0 := by
  cases fx with
  | mk d7 d8 d9 late canc =>
    cases e with
    | mk i r =>
      cases i <;> cases r <;> simp [ChldEnv.ignored] at h
      cases d7 <;> cases d8 <;> cases d9 <;> cases late <;> cases canc <;> cases k <;> decide

/-- REPAIRED (together with D7): abnormal termination is non-zero whatever disposition was inherited -/
theorem chld_restored_abnormal_nonzero (fx : Fixes) (hd7 : fx.d7 = true) (e : ChldEnv) (hr : e.restored = true)
    (s : Nat) (h1 : 1 ≤ s) (h2 : s ≤ 64) :
    (hostOf fx (execScriptChld fx e (.killed s))).rc = 128 + s := by
  rw [execScriptChld_eq fx e (restored_not_ignored e hr)]
  have hw : wifsignaled (s % 128) = true := by
    simp [wifsignaled, wtermsig]
    omega
  simp only [hostOf, execScript, execDestroy, hd7, hw, Bool.and_self, if_true, Bool.not_true,
    Bool.false_eq_true, if_false, splitLines_nil, rcAfterLines, List.foldl_nil, wtermsig]
  rw [finalRc_zero _ (by omega)]
  have : s % 128 % 128 = s := by omega
  simp [this]

/-- REPAIRED: a returned code c (1..255) is the target's code whatever disposition was inherited -/
theorem chld_restored_code (fx : Fixes) (e : ChldEnv) (hr : e.restored = true) (c : Nat) (hc : c ≤ 255) :
    (hostOf fx (execScriptChld fx e (.exited c))).rc = c := by
  rw [execScriptChld_eq fx e (restored_not_ignored e hr)]
  have h1 : c % 256 = c := by omega
  have hns : wifsignaled (c * 256) = false := by
    have h0 : c * 256 % 128 = 0 := by omega
    simp [wifsignaled, wtermsig, h0]
  have hx : wexitstatus (c * 256) = c := by
    simp [wexitstatus]
    omega
  simp only [hostOf, execScript, execDestroy, h1, hns, hx, Bool.and_false, Bool.false_eq_true, if_false, Bool.not_true,
    splitLines_nil, rcAfterLines, List.foldl_nil]
  exact finalRc_zero _ (by omega)

/-- non-vacuity: the environment of the finding, and the repaired one -/
example : (ChldEnv.mk true false).ignored = true ∧ (ChldEnv.mk true true).ignored = false := by decide

end PdshVerif.Dsh.Exit
