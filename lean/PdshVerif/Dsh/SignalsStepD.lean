import PdshVerif.Dsh.SignalsInv

/-! # The invariants are preserved by the dispatcher's steps -/
namespace PdshVerif.Dsh.Sig
open PdshVerif.Dsh.Fan (Variant DPC)

/-! ## `skip` -/

theorem skip_ge (ts : List TS) (i : Nat) : i ≤ skip ts i := by simp [skip]

theorem skipRun_le (l : List TS) : skipRun l ≤ l.length := by
  induction l with
  | nil => simp [skipRun]
  | cons t r ih => simp only [skipRun]; split <;> simp <;> omega

theorem skipRun_canceled : ∀ (l : List TS) (k : Nat), k < skipRun l → l.getD k .new = .canceled
  | [], k, h => by simp [skipRun] at h
  | t :: r, k, h => by
      simp only [skipRun] at h
      split at h
      · rename_i ht
        cases k with
        | zero => simp [ht]
        | succ k => simpa using skipRun_canceled r k (by omega)
      · omega

theorem skipRun_stop : ∀ (l : List TS), skipRun l < l.length → l.getD (skipRun l) .new ≠ .canceled
  | [], h => by simp [skipRun] at h
  | t :: r, h => by
      simp only [skipRun] at h ⊢
      split
      · rename_i ht
        rw [if_pos ht] at h
        simpa using skipRun_stop r (by simpa using h)
      · rename_i ht; simpa using ht

theorem getD_drop {α} (l : List α) (i k : Nat) (d : α) : (l.drop i).getD k d = l.getD (i + k) d := by
  simp [List.getD_eq_getElem?_getD, List.getElem?_drop]

/-- every slot the dispatch loop steps over is CANCELED -/
theorem skip_canceled (ts : List TS) (i k : Nat) (h1 : i ≤ k) (h2 : k < skip ts i) : ts.getD k .new = .canceled := by
  have := skipRun_canceled (ts.drop i) (k - i) (by simp only [skip] at h2; omega)
  rw [getD_drop] at this
  have he : i + (k - i) = k := by omega
  rwa [he] at this

/-- the slot it stops at is not CANCELED -/
theorem skip_stop (ts : List TS) (i : Nat) (h : skip ts i < ts.length) : ts.getD (skip ts i) .new ≠ .canceled := by
  have := skipRun_stop (ts.drop i) (by simp only [skip] at h; simp; omega)
  rw [getD_drop] at this
  exact this

/-! ## D steps -/

theorem pc_congr {s s' : St} (h : s'.ws = s.ws) (j : Nat) : pc s' j = pc s j := by simp [pc, h]
theorem tsAt_congr {s s' : St} (h : s'.ts = s.ts) (j : Nat) : tsAt s' j = tsAt s j := by simp [tsAt, h]

/-- the slot the dispatcher creates a thread for is idle -/
theorem create_idle {s : St} (hf : FInv s) (hd : s.dpc = .create) : pc s (skip s.ts s.i) = .idle :=
  hf.front1 _ (by simp only [frontier, hd]; simpa using skip_ge s.ts s.i)

/-- the dispatcher's operations on the watchdog change nothing but the watchdog's bookkeeping -/
theorem d_wd_frame {s s' : St} {a : DAct} (ha : a = .createG ∨ a = .cancelG ∨ a = .joinG)
    (hd : dStep s a = some s') : s' = { s with gpc := s'.gpc, gcan := s'.gcan, gjoin := s'.gjoin } := by
  rcases ha with ha | ha | ha <;> subst ha <;> simp only [dStep] at hd <;> split at hd <;> (try split at hd) <;>
    simp at hd <;> subst hd <;> rfl

theorem minv_d {s s' : St} {a : DAct} (h : MInv s) (hf : FInv s) (hs : dStep s a = some s') : MInv s' := by
  have ⟨h1, h2, h3, h4, h5, h6, h7, h8, h9⟩ := h
  cases a with
  | createG => rw [d_wd_frame (Or.inl rfl) hs]; exact ⟨h1, h2, h3, h4, h5, h6, h7, h8, h9⟩
  | cancelG => rw [d_wd_frame (Or.inr (Or.inl rfl)) hs]; exact ⟨h1, h2, h3, h4, h5, h6, h7, h8, h9⟩
  | joinG => rw [d_wd_frame (Or.inr (Or.inr rfl)) hs]; exact ⟨h1, h2, h3, h4, h5, h6, h7, h8, h9⟩
  | createS =>
    simp only [dStep] at hs
    split at hs <;> (try split at hs) <;> simp at hs; subst hs
    constructor <;> simp_all [pc, SPC.holdsT]
  | lock =>
    simp only [dStep] at hs
    split at hs
    · split at hs
      · simp at hs
      · simp only [Option.some.injEq, roomTest] at hs
        split at hs <;> subst hs <;> constructor <;> simp_all [DPC.holds, pc]
    · split at hs
      · simp at hs
      · simp only [Option.some.injEq, drainTest] at hs
        split at hs <;> subst hs <;> constructor <;> simp_all [DPC.holds, pc]
    · simp at hs
  | wait =>
    simp only [dStep] at hs
    split at hs <;> simp at hs <;> subst hs <;> constructor <;> simp_all [DPC.holds, pc]
  | wake sp =>
    simp only [dStep] at hs
    split at hs <;> (try split at hs) <;> simp at hs <;> subst hs <;> constructor <;> simp_all [DPC.holds, pc]
  | relock =>
    simp only [dStep] at hs
    split at hs
    · split at hs
      · simp only [Option.some.injEq] at hs; subst hs
        constructor <;> simp_all [DPC.holds, pc]
      · simp only [Option.some.injEq, roomTest] at hs
        split at hs <;> subst hs <;> constructor <;> simp_all [DPC.holds, pc]
    · simp only [Option.some.injEq, drainTest] at hs
      split at hs <;> subst hs <;> constructor <;> simp_all [DPC.holds, pc]
    · simp at hs
  | create j =>
    simp only [dStep] at hs
    split at hs <;> simp at hs
    rename_i hd
    obtain ⟨⟨hj, hlt⟩, hs⟩ := hs
    subst hs
    have hidle : pc s j = .idle := by rw [hj]; exact create_idle hf hd
    have ho : s.own = .d := h1.mpr (by rw [hd]; rfl)
    have hpc : ∀ k, pc { s with dpc := DPC.unlock, i := j, ws := s.ws.set j WP.started, tc := s.tc + 1 } k =
        if k = j then .started else pc s k := fun k => getD_set' hlt
    refine { ownD := ?_, ownW := ?_, ownS1 := ?_, ownS2 := ?_, thdD := h5, thdW := ?_, thdS1 := h7, thdS2 := h8,
             canc := ?_ }
    · simp [ho, DPC.holds]
    · intro k; rw [hpc]; split
      · simp [ho, holdsW]
      · exact h2 k
    · exact h3
    · exact h4
    · intro k; rw [hpc]; split
      · subst_vars
        have := h6 (skip s.ts s.i); rw [hidle] at this; simpa [holdsT] using this
      · exact h6 k
    · intro hc; have := h9 hc; simp [hd] at this
  | unlock =>
    simp only [dStep] at hs
    split at hs
    · simp only [Option.some.injEq] at hs; subst hs
      rename_i hd
      have ho : s.own = .d := h1.mpr (by rw [hd]; rfl)
      refine { ownD := ?_, ownW := ?_, ownS1 := ?_, ownS2 := ?_, thdD := h5, thdW := h6, thdS1 := h7, thdS2 := h8,
               canc := ?_ }
      · split <;> simp [DPC.holds]
      · intro k; have := h2 k; rw [ho] at this; simp at this
        show Own.none = Own.w k ↔ holdsW (pc s k) = true
        simp [this]
      · intro hc; have := h3 hc; rw [ho] at this; cases this
      · intro hc; cases hc
      · intro hc; have := h9 hc; simp [hd] at this
    · split at hs
      · simp only [Option.some.injEq] at hs; subst hs
        rename_i hd _
        have ho : s.own = .d := h1.mpr (by rw [hd]; rfl)
        refine { ownD := ?_, ownW := ?_, ownS1 := ?_, ownS2 := ?_, thdD := h5, thdW := h6, thdS1 := h7, thdS2 := h8,
                 canc := ?_ }
        · simp [DPC.holds]
        · intro k; have := h2 k; rw [ho] at this; simp at this
          show Own.none = Own.w k ↔ holdsW (pc s k) = true
          simp [this]
        · intro hc; have := h3 hc; rw [ho] at this; cases this
        · intro hc; cases hc
        · intro hc; have := h9 hc; simp [hd] at this
      · simp at hs
    · simp only [Option.some.injEq] at hs; subst hs
      rename_i hd
      have ho : s.own = .d := h1.mpr (by rw [hd]; rfl)
      refine { ownD := ?_, ownW := ?_, ownS1 := ?_, ownS2 := ?_, thdD := h5, thdW := h6, thdS1 := h7, thdS2 := h8,
               canc := ?_ }
      · simp [DPC.holds]
      · intro k; have := h2 k; rw [ho] at this; simp at this
        show Own.none = Own.w k ↔ holdsW (pc s k) = true
        simp [this]
      · intro hc; have := h3 hc; rw [ho] at this; cases this
      · intro hc; cases hc
      · intro _; exact Or.inl rfl
    · simp at hs
  | cancelS =>
    simp only [dStep] at hs
    split at hs <;> (try split at hs) <;> simp at hs; subst hs
    exact ⟨h1, h2, h3, h4, h5, h6, h7, h8, h9⟩
  | ret =>
    simp only [dStep] at hs
    split at hs <;> (try split at hs) <;> simp at hs; subst hs
    rename_i hd hc
    refine { ownD := ?_, ownW := h2, ownS1 := h3, ownS2 := h4, thdD := h5, thdW := h6, thdS1 := h7, thdS2 := h8,
             canc := ?_ }
    · have := h1; rw [hd] at this; simpa [DPC.holds] using this
    · intro _; exact Or.inr rfl

theorem tinv_d {s s' : St} {a : DAct} (h : TInv s) (hf : FInv s) (hs : dStep s a = some s') : TInv s' := by
  have ⟨hl, hok⟩ := h
  cases a with
  | create j =>
    simp only [dStep] at hs
    split at hs <;> simp at hs
    rename_i hd
    obtain ⟨⟨hj, hlt⟩, hs⟩ := hs
    subst hs
    have hidle : pc s j = .idle := by rw [hj]; exact create_idle hf hd
    refine { len := by simpa using hl, ok := ?_ }
    intro k
    show okTS ((s.ws.set j WP.started).getD k .idle) (tsAt s k) = true
    rw [getD_set' hlt]; split
    · subst_vars; have := hok (skip s.ts s.i); rw [hidle] at this; simpa [okTS] using this
    · exact hok k
  | createG => rw [d_wd_frame (Or.inl rfl) hs]; exact ⟨hl, hok⟩
  | cancelG => rw [d_wd_frame (Or.inr (Or.inl rfl)) hs]; exact ⟨hl, hok⟩
  | joinG => rw [d_wd_frame (Or.inr (Or.inr rfl)) hs]; exact ⟨hl, hok⟩
  | createS | lock | wait | wake _ | relock | unlock | cancelS | ret =>
    simp only [dStep] at hs
    (repeat' split at hs) <;> simp [roomTest, drainTest] at hs <;> (try split at hs) <;>
      (try subst hs) <;> (try exact ⟨hl, hok⟩) <;> simp_all

end PdshVerif.Dsh.Sig
