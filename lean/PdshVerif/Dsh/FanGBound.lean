import PdshVerif.Dsh.FanGStep

/-! # The fanout bound (`while` variant), constancy of the parameters, history counts -/
namespace PdshVerif.Dsh.FanG

/-! ## parameters never change -/

theorem step_params {s s' : St} {l : Label} (hs : step s l = some s') :
    s'.v = s.v ∧ s'.f = s.f ∧ s'.ws.length = s.ws.length := by
  cases l with
  | d a =>
    cases a <;> simp only [step] at hs <;> (try split at hs) <;> (try split at hs) <;>
      simp [roomTest, drainTest] at hs <;> (try split at hs) <;>
      (try (obtain ⟨_, hs⟩ := hs)) <;> (try subst hs) <;> simp_all
  | w i a =>
    obtain ⟨_, _, rfl⟩ := w_step_facts hs
    cases a <;> simp [wEffect]

theorem exec_params {s0 s : St} {ls : List Label} (he : Exec s0 ls s) :
    s.v = s0.v ∧ s.f = s0.f ∧ s.ws.length = s0.ws.length := by
  induction he with
  | nil => exact ⟨rfl, rfl, rfl⟩
  | snoc _ hs ih => have := step_params hs; exact ⟨this.1.trans ih.1, this.2.1.trans ih.2.1, this.2.2.trans ih.2.2⟩

theorem reach_params {v f n s} (h : Reach v f n s) : s.v = v ∧ s.f = f ∧ s.ws.length = n := by
  obtain ⟨ls, he⟩ := h
  have := exec_params he
  simpa [init] using this

/-! ## the bound -/

structure Bound (s : St) : Prop where
  le : s.tc ≤ s.f
  room : s.dpc = .create → s.tc < s.f

theorem bound_init (v : Variant) (f n : Nat) : Bound (init v f n) := by
  constructor
  · simp [init]
  · simp only [init]; split <;> simp

theorem bound_step {s s' : St} {l : Label} (hv : s.v = .whileWait) (hi : Inv s) (hb : Bound s)
    (hs : step s l = some s') : Bound s' := by
  have ⟨hle, hroom⟩ := hb
  cases l with
  | d a =>
    cases a with
    | lock =>
      simp only [step] at hs
      split at hs
      · simp only [Option.some.injEq, roomTest] at hs
        split at hs <;> subst hs <;> constructor <;> simp_all <;> omega
      · simp only [Option.some.injEq, drainTest] at hs
        split at hs <;> subst hs <;> constructor <;> simp_all
      · simp at hs
    | wait =>
      simp only [step] at hs
      split at hs <;> simp at hs <;> subst hs <;> constructor <;> simp_all
    | wake sp =>
      simp only [step] at hs
      split at hs <;> (try split at hs) <;> simp at hs <;> subst hs <;> constructor <;> simp_all
    | relock =>
      simp only [step] at hs
      split at hs
      · split at hs
        · rename_i hv'; rw [hv] at hv'; cases hv'
        · simp only [Option.some.injEq, roomTest] at hs
          split at hs <;> subst hs <;> constructor <;> simp_all <;> omega
      · simp only [Option.some.injEq, drainTest] at hs
        split at hs <;> subst hs <;> constructor <;> simp_all
      · simp at hs
    | create j =>
      simp only [step] at hs
      split at hs <;> simp at hs
      rename_i hd
      obtain ⟨_, hs⟩ := hs
      subst hs
      have := hroom hd
      constructor <;> simp <;> omega
    | unlock =>
      simp only [step] at hs
      split at hs <;> simp at hs <;> subst hs <;> constructor <;> simp_all
      split <;> simp
    | ret =>
      simp only [step] at hs
      split at hs <;> simp at hs <;> subst hs <;> constructor <;> simp_all
  | w i a =>
    obtain ⟨hpre, hlk, rfl⟩ := w_step_facts hs
    cases a with
    | lock =>
      have hon := hlk rfl
      constructor
      · simp only [wEffect]; omega
      · intro hd
        have hd' : s.dpc = .create := hd
        have := hi.ownD.mpr (by rw [hd']; rfl)
        rw [hon] at this; cases this
    | connectBegin | connectEnd | destroyBegin | destroyEnd | signal | unlock | unlockFirst | signalAfter =>
      constructor
      · exact hle
      · exact hroom

theorem bound_exec {s0 s : St} {ls : List Label} (hv : s0.v = .whileWait) (hi0 : Inv s0) (hb0 : Bound s0)
    (he : Exec s0 ls s) : Bound s := by
  induction he with
  | nil => exact hb0
  | snoc he' hs ih =>
    exact bound_step ((exec_params he').1.trans hv) (inv_exec hi0 he') ih hs

/-! (The bound for executions WITHOUT spurious wake-ups under the `if` construct, `Fan.boundNS_exec`, does not
carry over: a wake-up call made after the critical section can reach the dispatcher after it has started another
worker and parked again -- see `Props/C04.if_after_exceeds_without_spurious`.) -/

theorem flying_le_counted (ws : List W) : ws.countP flying ≤ ws.countP counted := by
  apply List.countP_mono_left
  intro w _ h; cases w <;> simp_all [flying, counted]

/-! ## history: which worker operations have happened -/

def ord : W → Nat
  | .idle => 0 | .started => 1 | .connecting => 2 | .connected => 3 | .tearing => 4
  | .torn => 5 | .locked => 6 | .signaled => 7 | .released => 7 | .done => 8

/-- the operations every worker performs, whatever its discipline -/
def WAct.common : WAct → Bool
  | .connectBegin | .connectEnd | .destroyBegin | .destroyEnd | .lock => true
  | _ => false

/-- the wake-up call has been made -/
def sigDone : W → Bool
  | .signaled | .done => true
  | _ => false

/-- every common operation of every worker has been performed exactly once if the worker is past it, and
    never otherwise; of the two wake-up calls (inside / after the critical section) exactly one has been
    performed once the worker is past it, none before; likewise for the two unlocks -/
structure Hist (ls : List Label) (s : St) : Prop where
  common : ∀ i a, a.common = true → ls.count (.w i a) = if ord a.post ≤ ord (pc s i) then 1 else 0
  sigs : ∀ i, ls.count (.w i .signal) + ls.count (.w i .signalAfter) = if sigDone (pc s i) then 1 else 0
  unls : ∀ i, ls.count (.w i .unlock) + ls.count (.w i .unlockFirst) = if isOut (pc s i) then 1 else 0

theorem count_w_ne_act (i : Nat) {a b : WAct} (hab : ¬ a = b) : List.count (Label.w i a) [Label.w i b] = 0 := by
  rw [List.count_singleton]
  have : (Label.w i b == Label.w i a) = false := by
    simp; intro h; exact hab h.symm
  simp [this]

theorem count_w_ne_idx {i k : Nat} (a b : WAct) (hik : ¬ i = k) : List.count (Label.w i a) [Label.w k b] = 0 := by
  rw [List.count_singleton]
  have : (Label.w k b == Label.w i a) = false := by
    simp; intro h; exact absurd h.symm hik
  simp [this]

/-- how a dispatcher step changes the program counters -/
theorem pc_after_d {s s' : St} {b : DAct} (hi : Inv s) (hs : step s (.d b) = some s') (i : Nat) :
    pc s' i = pc s i ∨ (pc s i = .idle ∧ pc s' i = .started) := by
  by_cases hcr : ∃ j, b = .create j
  · obtain ⟨j, rfl⟩ := hcr
    simp only [step] at hs
    split at hs <;> simp at hs
    rename_i hd
    obtain ⟨⟨_, hlt⟩, hs⟩ := hs
    subst hs
    have hidle : pc s s.i = .idle := (hi.front s.i).mpr (by simp [frontier, hd])
    have hpc : pc { s with dpc := DPC.unlock, ws := s.ws.set s.i W.started, tc := s.tc + 1 } i =
        if i = s.i then .started else pc s i := by
      simp only [pc]; split
      · subst_vars; exact getD_set_eq hlt
      · exact getD_set_ne (by omega)
    rw [hpc]
    by_cases hik : i = s.i
    · subst hik; right; exact ⟨hidle, by simp⟩
    · left; simp [hik]
  · have hws : s'.ws = s.ws := by
      cases b <;> simp only [step] at hs <;> (try split at hs) <;> (try split at hs) <;>
        simp [roomTest, drainTest] at hs <;> (try split at hs) <;> (try subst hs) <;> simp_all
    left; exact pc_congr hws i

theorem hist_step {ls : List Label} {s s' : St} {l : Label} (hi : Inv s) (hh : Hist ls s)
    (hs : step s l = some s') : Hist (ls ++ [l]) s' := by
  cases l with
  | d b =>
    have hc : ∀ i a, List.count (Label.w i a) [Label.d b] = 0 := by intro i a; simp
    refine ⟨?_, ?_, ?_⟩
    · intro i a ha
      rw [List.count_append, hh.common i a ha, hc, Nat.add_zero]
      rcases pc_after_d hi hs i with h | ⟨h1, h2⟩
      · rw [h]
      · rw [h1, h2]; cases a <;> simp [ord, WAct.post, WAct.common] at ha ⊢
    · intro i
      rw [List.count_append, List.count_append, hc, hc]
      have := hh.sigs i
      rcases pc_after_d hi hs i with h | ⟨h1, h2⟩
      · rw [h]; omega
      · rw [h1] at this; rw [h2]; simp [sigDone] at this ⊢; omega
    · intro i
      rw [List.count_append, List.count_append, hc, hc]
      have := hh.unls i
      rcases pc_after_d hi hs i with h | ⟨h1, h2⟩
      · rw [h]; omega
      · rw [h1] at this; rw [h2]; simp [isOut] at this ⊢; omega
  | w k b =>
    obtain ⟨hpre, _, rfl⟩ := w_step_facts hs
    have hk := lt_of_getElem? hpre
    have hpk : pc s k = b.pre := getD_of_getElem? hpre
    have hpc : ∀ i, pc (wEffect k { s with ws := s.ws.set k b.post } b) i = if i = k then b.post else pc s i := by
      intro i
      have : (wEffect k { s with ws := s.ws.set k b.post } b).ws = s.ws.set k b.post := by cases b <;> rfl
      simp only [pc, this]; exact pc_set hk i
    refine ⟨?_, ?_, ?_⟩
    · intro i a ha
      rw [List.count_append, hh.common i a ha, hpc]
      by_cases hik : i = k
      · subst hik
        rw [hpk]; simp only [if_true]
        by_cases hab : a = b
        · subst hab; simp; cases a <;> simp [ord, WAct.pre, WAct.post, WAct.common] at ha ⊢
        · rw [count_w_ne_act i hab]; revert hab ha
          cases a <;> cases b <;> simp [ord, WAct.pre, WAct.post, WAct.common]
      · rw [count_w_ne_idx a b hik]; simp [hik]
    · intro i
      rw [List.count_append, List.count_append, hpc]
      have := hh.sigs i
      by_cases hik : i = k
      · subst hik
        rw [hpk] at this; simp only [if_true]
        cases b <;> simp [sigDone, WAct.pre, WAct.post] at this ⊢ <;> omega
      · rw [count_w_ne_idx _ b hik, count_w_ne_idx _ b hik]; simp [hik]; omega
    · intro i
      rw [List.count_append, List.count_append, hpc]
      have := hh.unls i
      by_cases hik : i = k
      · subst hik
        rw [hpk] at this; simp only [if_true]
        cases b <;> simp [isOut, WAct.pre, WAct.post] at this ⊢ <;> omega
      · rw [count_w_ne_idx _ b hik, count_w_ne_idx _ b hik]; simp [hik]; omega

theorem hist_init (v f n) : Hist [] (init v f n) := by
  refine ⟨?_, ?_, ?_⟩
  · intro i a _; rw [pc_init]; cases a <;> simp [ord, WAct.post]
  · intro i; rw [pc_init]; simp [sigDone]
  · intro i; rw [pc_init]; simp [isOut]

theorem hist_exec {v f n ls s} (he : Exec (init v f n) ls s) : Hist ls s := by
  induction he with
  | nil => exact hist_init v f n
  | snoc he' hs ih => exact hist_step (inv_exec (inv_init v f n) he') ih hs

end PdshVerif.Dsh.FanG
