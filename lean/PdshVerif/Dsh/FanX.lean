import PdshVerif.Dsh.FanGBound
import PdshVerif.Dsh.FanGExec

/-!
# The fan-out protocol in an environment that runs out of resources (C03, C04)

`Dsh/FanG.lean` assumes that `pthread_create` succeeds and takes the fanout as given.  dsh() does two things about
resources, both modelled here as transitions around the SAME `FanG.step`:

* the prologue `_increase_nofile_limit (opt)`: with `nfds = 2·fanout + 32`, if `getrlimit` works and the soft
  limit is below the hard limit and not above `nfds`, the soft limit is raised to the hard limit (`setrlimit` may
  fail: a message, nothing else).  `opt->fanout` is NOT touched: the fanout IN USE by the dispatch loop is the
  setting, whatever the descriptor limit (`increaseNofile_fanout`).  The function returns both, so that a tree
  that does adjust the fanout there is a tree whose `increaseNofile` differs -- the correspondence runs dsh() under
  `setrlimit(RLIMIT_NOFILE, {N, N})` for N around 32 (harness key `nofile`) with the acceptor started on
  `fanoutInUse`;
* `pthread_create` for worker `j` fails (label `createFail j`, possible exactly where `D.create j` is): with `-k`
  SIGTERM is forwarded to the running commands, then `errx`: a message naming the host, exit status 1.  Nothing
  happens afterwards (the process is gone); in particular dsh() does not return and the target is not skipped.
-/
namespace PdshVerif.Dsh.FanX
open PdshVerif.Dsh

def nfds (fanout : Nat) : Nat := 2 * fanout + 32

/-- `_increase_nofile_limit`: (soft limit afterwards, `opt->fanout` afterwards) -/
def increaseNofile (fanout cur max : Nat) (getOk setOk : Bool) : Nat × Nat :=
  if !getOk then (cur, fanout)
  else if cur < max ∧ cur ≤ nfds fanout then ((if setOk then max else cur), fanout)
  else (cur, fanout)

theorem increaseNofile_fanout (fanout cur max : Nat) (getOk setOk : Bool) :
    (increaseNofile fanout cur max getOk setOk).2 = fanout := by
  unfold increaseNofile; split
  · rfl
  · split <;> rfl

/-- the soft limit is never lowered, and never raised above the hard limit -/
theorem increaseNofile_soft (fanout cur max : Nat) (getOk setOk : Bool) :
    cur ≤ (increaseNofile fanout cur max getOk setOk).1 ∧
    (increaseNofile fanout cur max getOk setOk).1 ≤ Nat.max cur max := by
  unfold increaseNofile; split
  · exact ⟨Nat.le_refl _, Nat.le_max_left _ _⟩
  · split
    · rename_i h
      cases setOk
      · exact ⟨Nat.le_refl _, Nat.le_max_left _ _⟩
      · exact ⟨Nat.le_of_lt h.1, Nat.le_max_right _ _⟩
    · exact ⟨Nat.le_refl _, Nat.le_max_left _ _⟩

inductive Phase | prologue | running | exited (code : Nat)
deriving DecidableEq, Repr

structure St where
  g : FanG.St
  ph : Phase
  kopt : Bool          -- `-k` (opt->kill_on_fail)
  termSent : Bool      -- `_fwd_signal (SIGTERM)` has been called
  soft : Nat           -- RLIMIT_NOFILE (soft) of the process, known from the prologue on

inductive Label
  | nofile (cur max : Nat) (getOk setOk : Bool)
  | g (l : FanG.Label)
  | createFail (j : Nat)

def step (s : St) : Label → Option St
  | .nofile cur max getOk setOk =>
      match s.ph with
      | .prologue =>
          let r := increaseNofile s.g.f cur max getOk setOk
          some { s with ph := .running, soft := r.1, g := { s.g with f := r.2 } }
      | _ => none
  | .g l =>
      match s.ph with
      | .running => (FanG.step s.g l).map fun g => { s with g := g }
      | _ => none
  | .createFail j =>
      match s.ph, s.g.dpc with
      | .running, .create =>
          if j = s.g.i ∧ s.g.i < s.g.ws.length then
            some { s with ph := .exited 1, termSent := s.kopt }
          else none
      | _, _ => none

def init (v : FanG.Variant) (setting n : Nat) (kopt : Bool) : St :=
  { g := FanG.init v setting n, ph := .prologue, kopt := kopt, termSent := false, soft := 0 }

inductive Exec (s0 : St) : List Label → St → Prop
  | nil : Exec s0 [] s0
  | snoc {ls s l s'} : Exec s0 ls s → step s l = some s' → Exec s0 (ls ++ [l]) s'

def run (s : St) : List Label → Option St
  | [] => some s
  | l :: ls => (step s l).bind (run · ls)

theorem exec_cons {s0 s1 s : St} {l : Label} {ls : List Label} (hs : step s0 l = some s1) (he : Exec s1 ls s) :
    Exec s0 (l :: ls) s := by
  induction he with
  | nil => exact Exec.snoc (ls := []) Exec.nil hs
  | snoc _ hs' ih => exact Exec.snoc ih hs'

theorem exec_of_run : ∀ {ls : List Label} {s0 s : St}, run s0 ls = some s → Exec s0 ls s
  | [], s0, s, h => by simp [run] at h; subst h; exact Exec.nil
  | l :: ls, s0, s, h => by
      simp only [run] at h
      cases hs : step s0 l with
      | none => rw [hs] at h; simp at h
      | some s1 => rw [hs] at h; exact exec_cons hs (exec_of_run (by simpa using h))

def projLabel : Label → Option FanG.Label
  | .g l => some l
  | _ => none

def Label.isFail : Label → Bool
  | .createFail _ => true
  | _ => false

theorem step_nofile {s s' : St} {c m : Nat} {a b : Bool} (h : step s (.nofile c m a b) = some s') :
    s.ph = .prologue ∧ s'.ph = .running ∧ s'.g = s.g ∧ s'.kopt = s.kopt ∧ s'.termSent = s.termSent := by
  simp only [step] at h
  split at h
  · simp at h; subst h
    refine ⟨by assumption, rfl, ?_, rfl, rfl⟩
    simp [increaseNofile_fanout]
  · simp at h

theorem step_g {s s' : St} {l : FanG.Label} (h : step s (.g l) = some s') :
    s.ph = .running ∧ s'.ph = .running ∧ FanG.step s.g l = some s'.g ∧ s'.kopt = s.kopt ∧
      s'.termSent = s.termSent := by
  simp only [step] at h
  split at h
  · rename_i hp
    cases hg : FanG.step s.g l with
    | none => rw [hg] at h; simp at h
    | some g => rw [hg] at h; simp at h; subst h; exact ⟨hp, hp, rfl, rfl, rfl⟩
  · simp at h

theorem step_createFail {s s' : St} {j : Nat} (h : step s (.createFail j) = some s') :
    s.ph = .running ∧ s.g.dpc = .create ∧ j = s.g.i ∧ j < s.g.ws.length ∧ s'.ph = .exited 1 ∧ s'.g = s.g ∧
      s'.termSent = s.kopt ∧ s'.kopt = s.kopt := by
  simp only [step] at h
  split at h
  · rename_i hp hd
    split at h
    · rename_i hj; simp at h; subst h; exact ⟨hp, hd, hj.1, hj.1 ▸ hj.2, rfl, rfl, rfl, rfl⟩
    · simp at h
  · simp at h

/-- once pdsh has exited nothing happens any more -/
theorem exited_stuck {s : St} {c : Nat} (h : s.ph = .exited c) (l : Label) : step s l = none := by
  cases l <;> simp [step, h]

/-- THE REFINEMENT: environment transitions forgotten, every execution is an execution of the protocol LTS with the
    fanout in use = the setting; the phase tells how it stands: in the prologue nothing has happened, after an exit
    the last label was the failed create (and it was the only one) -/
theorem proj_exec {v : FanG.Variant} {setting n : Nat} {k : Bool} {ls : List Label} {s : St}
    (he : Exec (init v setting n k) ls s) :
    FanG.Exec (FanG.init v setting n) (ls.filterMap projLabel) s.g ∧ s.kopt = k ∧
    (s.ph = .prologue → ls = [] ∧ s.termSent = false) ∧
    (s.ph = .running → ls.any Label.isFail = false ∧ s.termSent = false) ∧
    (∀ c, s.ph = .exited c → c = 1 ∧ s.termSent = k ∧ s.g.dpc = .create ∧ s.g.i < n ∧
      ∃ ls0, ls = ls0 ++ [.createFail s.g.i] ∧ ls0.any Label.isFail = false) := by
  induction he with
  | nil => exact ⟨FanG.Exec.nil, rfl, fun _ => ⟨rfl, rfl⟩, fun h => (by cases h), fun c h => (by cases h)⟩
  | snoc he0 hs ih =>
    rename_i ls0 s0 l0 s1
    obtain ⟨hex, hk, hpro, hrun, hexit⟩ := ih
    rw [List.filterMap_append]
    cases l0 with
    | nofile c m a b =>
      obtain ⟨h0, h1, hg, hk', ht⟩ := step_nofile hs
      simp only [List.filterMap_cons, projLabel, List.filterMap_nil, List.append_nil]
      refine ⟨by rw [hg]; exact hex, by rw [hk', hk], fun h => (by rw [h1] at h; cases h), fun _ => ?_,
        fun c h => (by rw [h1] at h; cases h)⟩
      rw [(hpro h0).1, ht]
      exact ⟨by simp [Label.isFail], (hpro h0).2⟩
    | g l =>
      obtain ⟨h0, h1, hg, hk', ht⟩ := step_g hs
      simp only [List.filterMap_cons, projLabel, List.filterMap_nil]
      refine ⟨FanG.Exec.snoc hex hg, by rw [hk', hk], fun h => (by rw [h1] at h; cases h), fun _ => ?_,
        fun c h => (by rw [h1] at h; cases h)⟩
      obtain ⟨ha, hb⟩ := hrun h0
      exact ⟨by simp [List.any_append, ha, Label.isFail], by rw [ht, hb]⟩
    | createFail j =>
      obtain ⟨h0, hd, hj, hlt, h1, hg, ht, hk'⟩ := step_createFail hs
      simp only [List.filterMap_cons, projLabel, List.filterMap_nil, List.append_nil]
      refine ⟨by rw [hg]; exact hex, by rw [hk', hk], fun h => (by rw [h1] at h; cases h),
        fun h => (by rw [h1] at h; cases h), fun c h => ?_⟩
      rw [h1] at h
      have hc : c = 1 := by injection h with h; exact h.symm
      have hlen : s0.g.ws.length = n := by have := (FanG.exec_params hex).2.2; simpa [FanG.init] using this
      refine ⟨hc, by rw [ht, hk], by rw [hg]; exact hd, by rw [hg, ← hj, ← hlen]; exact hlt, ls0, ?_, (hrun h0).1⟩
      rw [hg, ← hj]

end PdshVerif.Dsh.FanX
