import PdshVerif.Dsh.FanG
import PdshVerif.Gen.Dsh

/-!
# Timed extension of the fan-out LTS (C07): virtual clock, scripted hosts, watchdog

State = the Fan state (dispatcher / worker protocol, unchanged) + an integer clock `now` + the
watchdog's next poll instant `wake` + one `Host` record per target.  A host's *script* says what
the remote side does: the connect result (`ok d` / `refuse d` after `d` seconds, or `hang`), and
for each of stdout / stderr a list of items `(at, data n | eof | err)` with times relative to the
moment the connection is established (`at = none`: never — the stream hangs from there on).

Granularity = the one the `sched` harness uses for C07 runs (yield mask `fan`): scheduling points
are the Fan operations plus every call that blocks.  Code between two scheduling points of a thread
is attributed to the earlier one:

* `D.create i` also does `a->start = time(); state = RCMD` (the new thread runs up to
  `rcmd_connect`), `W.connectBegin` records when the worker starts to block in connect;
* `W.connectEnd` (connect returns: result available, or interrupted by SIGALRM) also does
  `connect = time(); state = READING` and then everything the poll/read loop can do without
  blocking: it reads every item that is available now, closes streams at EOF / read error, and if
  both streams are closed goes on to `state = DONE` (next operation: `rcmd_destroy`);
* `wake i` = the blocked `xpoll` of worker `i` returns (data, or EINTR): on EINTR with the command
  timeout expired it reports "command timeout" and fails the host, otherwise it reads what is
  available, as above;
* `scan` = the watchdog's `sleep(WDOG_POLL)` returns: one pass over all targets,
  `pthread_kill(SIGALRM)` for every target in RCMD with `start + connect_timeout < now` or in
  READING with `command_timeout > 0` and `connect + command_timeout < now`; the signal interrupts
  the target iff it is blocked in connect or in xpoll (a target that is not blocked loses it);
  then `sleep` again;
* `W.destroyBegin` .. `W.destroyEnd` = the TEARDOWN, a phase of its own: a script also says how long the remote
  command lives by itself (`life` seconds after the connect, `none` = for ever) and what a SIGTERM does to it
  (`grace`: gone that many seconds later, `none` = ignored).  The worker forwards SIGTERM when it gives up on the
  target at the command timeout (both places).  `W.destroyEnd` (`rcmd_destroy` returns, the command is reaped)
  is possible only when the command is gone (`death ≤ now`); a wait interrupted by a signal would return
  un-reaped (EINTR; dead branch on this code, see `Props/C07.lean teardown_uninterrupted`).  The fanout slot is
  released by the operations after `W.destroyEnd`, as in the Fan LTS;
* `tick`: the clock advances by one second.  MAXIMAL PROGRESS: a tick is possible only when no
  thread can perform an operation (computation is instantaneous at the granularity of the 1 s
  clock).  Spurious wake-ups of the dispatcher do not count (they may or may not happen).

The Fan component is advanced by `FanG.step` itself, so every timed execution projects onto a Fan
execution (`TimedProj.lean`) and the C03/C04 theorems carry over.
-/
namespace PdshVerif.Dsh.Timed
open PdshVerif.Dsh

def WDOG_POLL : Nat := PdshVerif.Gen.WDOG_POLL

inductive Conn | ok (d : Nat) | refuse (d : Nat) | hang
deriving DecidableEq, Repr

inductive Kind | data (n : Nat) | eof | err
deriving DecidableEq, Repr

structure Item where
  t : Option Nat       -- seconds after the connect; none = never
  kind : Kind
deriving DecidableEq, Repr

structure Script where
  conn : Conn
  out : List Item
  err : List Item
  life : Option Nat := some 0    -- the remote command exits by itself this many seconds after the connect
                                 -- (whatever its streams do); none = never
  grace : Option Nat := some 0   -- it is gone this many seconds after a SIGTERM; none = it ignores SIGTERM
deriving DecidableEq, Repr

structure Cfg where
  ct : Nat             -- connect_timeout
  ut : Nat             -- command_timeout (0 = unlimited)
  sopt : Bool          -- separate stderr (-s): without it only stdout is polled
  selfCheck : Bool     -- the worker tests the command timeout itself at the top of its poll loop (the proposed
                       -- repair of F07-LOSTALRM); false = the pinned source: only the EINTR branch tests it
  stopWdog : Bool      -- dsh() cancels and joins the watchdog before it frees the thread array (part of the
                       -- proposed repair of F07-STALEID); false = the pinned source: the watchdog runs on
  killAfter : Bool := false
                       -- a worker that gives its target up at the command timeout waits one watchdog period and
                       -- sends SIGKILL before it enters `rcmd_destroy` (the proposed repair of F07-TEARDOWN-WAIT,
                       -- case (a)); false = the tree as it is: straight into `rcmd_destroy`
deriving DecidableEq, Repr

/-- NEW / RCMD (not yet blocked) / RCMD blocked in connect / READING blocked in xpoll / DONE or FAILED -/
inductive Phase | new | rcmd | connecting | reading | finished
deriving DecidableEq, Repr

inductive Res | none | done | connFailed | connTimedOut | cmdTimedOut
deriving DecidableEq, Repr

inductive Rep | cmdTimeout | readError
deriving DecidableEq, Repr

structure Stream where
  items : List Item    -- what the remote side still has to say
  got : Nat            -- bytes read so far
  closed : Bool
deriving DecidableEq, Repr

structure Host where
  ph : Phase
  start : Nat          -- a->start
  cbeg : Nat           -- instant at which the worker entered connect
  conn : Nat           -- a->connect
  intr : Bool          -- a SIGALRM hit the worker in its blocking call and has not been consumed
  out : Stream
  err : Stream
  res : Res
  reps : List Rep      -- what dsh.c itself printed on stderr about this host
  grace : Option Nat   -- copy of the script's `grace` (what a forwarded SIGTERM will do)
  death : Option Nat   -- the instant at which the remote command is gone (none = never, as things stand)
  reaped : Bool        -- `rcmd_destroy` has returned with the command gone (the connection is torn down)
  hold : Nat := 0      -- the worker does not enter `rcmd_destroy` before this instant (`killAfter`: it sleeps out a
                       -- grace period after giving the target up); 0 = no wait
deriving DecidableEq, Repr

def Item.avail (base now : Nat) (it : Item) : Bool :=
  match it.t with
  | none => false
  | some t => base + t ≤ now

/-- read everything that is available now; an exhausted script is EOF -/
def pumpItems (base now : Nat) : List Item → Nat → Stream × Bool
  | [], got => ({ items := [], got := got, closed := true }, false)
  | it :: rest, got =>
      if it.avail base now then
        match it.kind with
        | .data n => pumpItems base now rest (got + n)
        | .eof => ({ items := [], got := got, closed := true }, false)
        | .err => ({ items := [], got := got, closed := true }, true)
      else ({ items := it :: rest, got := got, closed := false }, false)

def Stream.pump (base now : Nat) (st : Stream) : Stream × Bool :=
  if st.closed then (st, false) else pumpItems base now st.items st.got

/-- would xpoll report this stream readable? -/
def Stream.ready (base now : Nat) (st : Stream) : Bool :=
  !st.closed && match st.items with
    | [] => true
    | it :: _ => it.avail base now

/-- the poll/read loop until it blocks again or both streams are closed -/
def Host.pollRound (now : Nat) (h : Host) : Host :=
  let o := h.out.pump h.conn now
  let e := h.err.pump h.conn now
  let reps := h.reps ++ (if o.2 then [Rep.readError] else []) ++ (if e.2 then [Rep.readError] else [])
  if o.1.closed && e.1.closed then
    { h with out := o.1, err := e.1, reps := reps, ph := .finished, res := .done }
  else { h with out := o.1, err := e.1, reps := reps }

/-- one `read` on a stream: at most the next item -/
def Stream.pumpOne (base now : Nat) (st : Stream) : Stream × Bool :=
  if st.closed then (st, false)
  else match st.items with
    | [] => ({ st with closed := true }, false)
    | it :: rest =>
        if it.avail base now then
          match it.kind with
          | .data n => ({ items := rest, got := st.got + n, closed := false }, false)
          | .eof => ({ items := [], got := st.got, closed := true }, false)
          | .err => ({ items := [], got := st.got, closed := true }, true)
        else (st, false)

/-- one pass of the poll loop body: one `read` per polled stream -/
def Host.oneRound (now : Nat) (h : Host) : Host :=
  let o := h.out.pumpOne h.conn now
  let e := h.err.pumpOne h.conn now
  let reps := h.reps ++ (if o.2 then [Rep.readError] else []) ++ (if e.2 then [Rep.readError] else [])
  if o.1.closed && e.1.closed then
    { h with out := o.1, err := e.1, reps := reps, ph := .finished, res := .done }
  else { h with out := o.1, err := e.1, reps := reps }

/-- `rcmd_signal (a->rcmd, SIGTERM)`: the command is gone `grace` seconds from now, unless it goes earlier anyway -/
def termDeath (g : Option Nat) (now : Nat) (d : Option Nat) : Option Nat :=
  match g with
  | none => d
  | some k => match d with
    | none => some (now + k)
    | some x => some (min x (now + k))

/-- the worker gives the target up at the command timeout: `rcmd_signal (SIGTERM)` now; with `killAfter` it will also
    `sleep (WDOG_POLL)` and `rcmd_signal (SIGKILL)` before `rcmd_destroy` -- both unconditional from here on, so the
    instant at which the command is gone at the latest and the instant before which the teardown does not begin are
    fixed now -/
def Host.giveUp (c : Cfg) (now : Nat) (h : Host) : Host :=
  if c.killAfter then
    { h with death := termDeath (some WDOG_POLL) now (termDeath h.grace now h.death), hold := now + WDOG_POLL }
  else { h with death := termDeath h.grace now h.death }

@[simp] theorem Host.giveUp_ph (c : Cfg) (now : Nat) (h : Host) : (Host.giveUp c now h).ph = h.ph := by
  unfold Host.giveUp; split <;> rfl
@[simp] theorem Host.giveUp_start (c : Cfg) (now : Nat) (h : Host) : (Host.giveUp c now h).start = h.start := by
  unfold Host.giveUp; split <;> rfl
@[simp] theorem Host.giveUp_cbeg (c : Cfg) (now : Nat) (h : Host) : (Host.giveUp c now h).cbeg = h.cbeg := by
  unfold Host.giveUp; split <;> rfl
@[simp] theorem Host.giveUp_conn (c : Cfg) (now : Nat) (h : Host) : (Host.giveUp c now h).conn = h.conn := by
  unfold Host.giveUp; split <;> rfl
@[simp] theorem Host.giveUp_intr (c : Cfg) (now : Nat) (h : Host) : (Host.giveUp c now h).intr = h.intr := by
  unfold Host.giveUp; split <;> rfl
@[simp] theorem Host.giveUp_out (c : Cfg) (now : Nat) (h : Host) : (Host.giveUp c now h).out = h.out := by
  unfold Host.giveUp; split <;> rfl
@[simp] theorem Host.giveUp_err (c : Cfg) (now : Nat) (h : Host) : (Host.giveUp c now h).err = h.err := by
  unfold Host.giveUp; split <;> rfl
@[simp] theorem Host.giveUp_res (c : Cfg) (now : Nat) (h : Host) : (Host.giveUp c now h).res = h.res := by
  unfold Host.giveUp; split <;> rfl
@[simp] theorem Host.giveUp_reps (c : Cfg) (now : Nat) (h : Host) : (Host.giveUp c now h).reps = h.reps := by
  unfold Host.giveUp; split <;> rfl
@[simp] theorem Host.giveUp_grace (c : Cfg) (now : Nat) (h : Host) : (Host.giveUp c now h).grace = h.grace := by
  unfold Host.giveUp; split <;> rfl
@[simp] theorem Host.giveUp_reaped (c : Cfg) (now : Nat) (h : Host) : (Host.giveUp c now h).reaped = h.reaped := by
  unfold Host.giveUp; split <;> rfl
theorem Host.giveUp_off {c : Cfg} (hc : c.killAfter = false) (now : Nat) (h : Host) :
    Host.giveUp c now h = { h with death := termDeath h.grace now h.death } := by
  simp [Host.giveUp, hc]

/-- is the remote command gone? -/
def Host.gone (now : Nat) (h : Host) : Bool :=
  match h.death with
  | none => false
  | some d => decide (d ≤ now)

/-- `if (_thd_command_timeout (a)) { report; fail; signal; break; }` at the top of the poll loop (repair variant) -/
def Host.selfTimeout (c : Cfg) (now : Nat) (h : Host) : Host :=
  if c.selfCheck = true ∧ h.ph = .reading ∧ 0 < c.ut ∧ h.conn + c.ut < now then
    Host.giveUp c now { h with ph := .finished, res := .cmdTimedOut, reps := h.reps ++ [Rep.cmdTimeout] }
  else h

/-- the blocked xpoll returns: EINTR (test the command timeout, fail or go on) or data -/
def Host.wakeCore (c : Cfg) (now : Nat) (h : Host) : Host :=
  if h.intr then
    if 0 < c.ut ∧ h.conn + c.ut < now then
      Host.giveUp c now { h with intr := false, ph := .finished, res := .cmdTimedOut, reps := h.reps ++ [Rep.cmdTimeout] }
    else Host.pollRound now { h with intr := false }
  else if c.selfCheck = true ∧ 0 < c.ut ∧ h.conn + c.ut < now then
    Host.oneRound now h      -- overdue: after one pass the loop top fails the target (`selfTimeout`)
  else Host.pollRound now h

def connReady (sc : Script) (h : Host) (now : Nat) : Bool :=
  match sc.conn with
  | .ok d => h.cbeg + d ≤ now
  | .refuse d => h.cbeg + d ≤ now
  | .hang => false

/-- what happens to a host record, as a function of the record itself, its own script, the timeouts and the
    clock ONLY (this is the formal content of "a host cannot harm the others") -/
inductive Local | create | connBegin | connEnd | wake | scan | destEnd | other
deriving DecidableEq, Repr

def killed (c : Cfg) (now : Nat) (h : Host) : Bool :=
  (h.ph == .connecting && decide (0 < c.ct) && decide (h.start + c.ct < now)) ||
  (h.ph == .reading && decide (0 < c.ut) && decide (h.conn + c.ut < now))

def hostStep (c : Cfg) (sc : Script) (now : Nat) (h : Host) : Local → Host
  | .create => { h with ph := .rcmd, start := now }
  | .connBegin => { h with ph := .connecting, cbeg := now }
  | .connEnd =>
      if h.intr then { h with intr := false, ph := .finished, res := .connTimedOut }
      else match sc.conn with
        | .ok _ => Host.pollRound now { h with conn := now, ph := .reading, death := sc.life.map (now + ·) }
        | .refuse _ => { h with ph := .finished, res := .connFailed }
        | .hang => h
  | .wake => Host.selfTimeout c now (Host.wakeCore c now h)
  | .scan => if killed c now h then { h with intr := true } else h
  | .destEnd =>
      -- `rcmd_destroy` returns: the command is gone and reaped; or the wait was interrupted by a signal, then the
      -- transport gives up (the command is alive, not reaped, and nobody waits for it any more)
      if h.intr = true ∧ h.gone now = false then { h with intr := false } else { h with intr := false, reaped := true }
  | .other => h

def initHost (c : Cfg) (sc : Script) : Host :=
  { ph := .new, start := 0, cbeg := 0, conn := 0, intr := false,
    out := { items := sc.out, got := 0, closed := false },
    err := { items := sc.err, got := 0, closed := !c.sopt },
    res := .none, reps := [], grace := sc.grace, death := some 0, reaped := false }

structure St where
  fan : FanG.St
  cfg : Cfg
  scripts : List Script
  now : Nat
  wake : Nat           -- the watchdog sleeps until this instant
  hs : List Host
deriving Repr

def defaultScript : Script := { conn := .hang, out := [], err := [] }
def St.script (s : St) (i : Nat) : Script := s.scripts.getD i defaultScript
def St.host (s : St) (i : Nat) : Host := s.hs.getD i (initHost s.cfg defaultScript)

inductive Label | fan (l : FanG.Label) | wake (i : Nat) | scan | tick
deriving DecidableEq, Repr

def Label.spurious : Label → Bool
  | .fan l => l.spurious
  | _ => false

/-- which host a Fan label touches, and how -/
def fanLocal : FanG.Label → Option (Nat × Local)
  | .d (.create j) => some (j, .create)
  | .w i .connectBegin => some (i, .connBegin)
  | .w i .connectEnd => some (i, .connEnd)
  | .w i .destroyEnd => some (i, .destEnd)
  | _ => none

/-- the additional guard the timed world puts on a Fan label -/
def fanGuard (s : St) : FanG.Label → Bool
  | .w i .connectEnd => (s.host i).intr || connReady (s.script i) (s.host i) s.now
  | .w i .destroyBegin => (s.host i).ph == .finished && decide ((s.host i).hold ≤ s.now)
  | .w i .destroyEnd => (s.host i).intr || (s.host i).gone s.now
  | _ => true

def updHost (s : St) (i : Nat) (lo : Local) : List Host :=
  s.hs.modify i (fun h => hostStep s.cfg (s.script i) s.now h lo)

/-- discrete steps (everything but the passing of time) -/
def dstep (s : St) : Label → Option St
  | .fan l =>
      match FanG.step s.fan l with
      | none => none
      | some f' =>
          if fanGuard s l then
            match fanLocal l with
            | some (i, lo) => some { s with fan := f', hs := updHost s i lo }
            | none => some { s with fan := f' }
          else none
  | .wake i =>
      let h := s.host i
      if i < s.hs.length ∧ h.ph = .reading ∧
          (h.intr ∨ h.out.ready h.conn s.now ∨ h.err.ready h.conn s.now) then
        some { s with hs := updHost s i .wake }
      else none
  | .scan =>
      if s.wake ≤ s.now ∧
          ¬ (s.cfg.stopWdog = true ∧ (s.fan.dpc = .finishing ∨ s.fan.dpc = .returned)) then
        some { s with wake := s.now + WDOG_POLL,
                      hs := s.hs.mapIdx fun i h => hostStep s.cfg (s.script i) s.now h .scan }
      else none
  | .tick => none

/-- the operations whose enabledness blocks the clock -/
def cands (s : St) : List Label :=
  Label.scan :: ((FanG.dActs s.fan).map fun a => Label.fan (.d a)) ++
    (List.range s.hs.length).flatMap fun i =>
      Label.wake i :: FanG.wActs.map fun a => Label.fan (.w i a)

def quiescent (s : St) : Bool := (cands s).all fun l => (dstep s l).isNone

def step (s : St) : Label → Option St
  | .tick => if quiescent s = true ∧ s.fan.dpc ≠ .returned then some { s with now := s.now + 1 } else none
  | l => dstep s l

def init (v : FanG.Variant) (f : Nat) (c : Cfg) (scripts : List Script) : St :=
  { fan := FanG.init v f scripts.length, cfg := c, scripts := scripts, now := 0, wake := WDOG_POLL,
    hs := scripts.map (initHost c) }

inductive Exec (s0 : St) : List Label → St → Prop
  | nil : Exec s0 [] s0
  | snoc {ls s l s'} : Exec s0 ls s → step s l = some s' → Exec s0 (ls ++ [l]) s'

def Reach (v : FanG.Variant) (f : Nat) (c : Cfg) (scripts : List Script) (s : St) : Prop :=
  ∃ ls, Exec (init v f c scripts) ls s

def Final (s : St) : Prop := FanG.Final s.fan

/-! ## enabled threads (compared with the harness's runnable set) -/

def dEnabled (s : St) : Bool := (FanG.dActs s.fan).any fun a => (dstep s (.fan (.d a))).isSome
def wEnabled (s : St) (i : Nat) : Bool :=
  (dstep s (.wake i)).isSome || FanG.wActs.any fun a => (dstep s (.fan (.w i a))).isSome
def gEnabled (s : St) : Bool := (dstep s .scan).isSome
def spuriousEnabled (s : St) : Bool := (dstep s (.fan (.d (.wake true)))).isSome

end PdshVerif.Dsh.Timed
