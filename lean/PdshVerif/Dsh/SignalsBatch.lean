import PdshVerif.Dsh.SignalsAbort

/-! # Batch mode never reports; the abort path is a straight line to `exit(1)` -/
namespace PdshVerif.Dsh.Sig
open PdshVerif.Dsh.Fan (Variant DPC)

/-- the signals thread is in the report-only branch of `_handle_sigint` -/
def SPC.reports : SPC → Bool
  | .intT | .intT2 | .listLock | .listing _ | .printing _ => true
  | _ => false

theorem d_step_spc {s s' : St} {a : DAct} (hd : dStep s a = some s') :
    s'.spc = s.spc ∨ s'.spc = .waiting ∨ s'.spc = .cancelled := by
  cases a <;> simp only [dStep] at hd <;> (try split at hd) <;> (try split at hd) <;>
    simp [roomTest, drainTest] at hd <;> (try split at hd) <;>
    (try (obtain ⟨_, hd⟩ := hd)) <;> (try subst hd) <;> simp_all

theorem reports_step {s s' : St} {l : Label} (hs : step s l = some s')
    (hq : s.spc.reports = true → s.batch = false) : s'.spc.reports = true → s'.batch = false := by
  have hb : s'.batch = s.batch := (step_params hs).2.2.1
  rw [hb]
  cases l with
  | d a =>
    rcases d_step_spc (step_d hs) with h | h | h <;> rw [h]
    · exact hq
    · intro hc; cases hc
    · intro hc; cases hc
  | w i a =>
    obtain ⟨p, q, _, rfl⟩ := w_facts (step_w hs)
    rw [wEffect_spc]; exact hq
  | e a =>
    obtain ⟨_, _, _, _, _, _, _, _, _, hspc⟩ := e_step_frame (step_e hs)
    rw [hspc]; exact hq
  | g a => rw [g_step_frame (step_wd hs)]; exact hq
  | s a =>
    have hd := step_s hs
    cases a with
    | sigwait g =>
      simp only [sStep] at hd
      split at hd <;> (try split at hd) <;> simp at hd; subst hd
      cases g <;> cases hbb : s.batch <;> simp [SPC.reports]
    | time v =>
      simp only [sStep] at hd
      split at hd
      · split at hd <;> simp at hd <;> subst hd <;> rename_i hw
        · intro _; apply hq; rw [hw]; rfl
        · intro _; apply hq; rw [hw]; rfl
        · intro _; apply hq; rw [hw]; rfl
        · intro _; apply hq; rw [hw]; rfl
        · intro hc; cases hc
        · intro hc; dsimp only at hc; split at hc <;> cases hc
      · simp at hd
    | lockT =>
      simp only [sStep] at hd
      split at hd <;> simp at hd <;> subst hd <;> rename_i ht hw
      · intro _; apply hq; rw [hw]; rfl
      · intro hc; cases hc
    | fwd h =>
      simp only [sStep] at hd
      split at hd <;> (try split at hd) <;> simp at hd; subst hd
      intro hc; cases hc
    | unlockT =>
      simp only [sStep] at hd
      split at hd
      · simp only [Option.some.injEq] at hd; subst hd; intro hc; cases hc
      · simp only [Option.some.injEq] at hd; subst hd
        rename_i k hw
        intro _; apply hq; rw [hw]; rfl
      · split at hd <;> simp at hd; subst hd; intro hc; cases hc
      · simp at hd
    | lock =>
      simp only [sStep] at hd
      split at hd <;> simp at hd; subst hd
      intro hc; cases hc
    | unlock =>
      simp only [sStep] at hd
      split at hd <;> simp at hd; subst hd
      intro hc; cases hc
    | stop =>
      simp only [sStep] at hd
      split at hd <;> simp at hd; subst hd
      intro hc; cases hc
    | exit c =>
      simp only [sStep] at hd
      split at hd <;> (try split at hd) <;> simp at hd; subst hd
      rename_i hw _
      intro hc
      have hc' : s.spc.reports = true := hc
      rw [hw] at hc'; cases hc'
    | die =>
      simp only [sStep] at hd
      split at hd <;> simp at hd; subst hd
      intro hc; cases hc

theorem reports_exec {s0 s : St} {ls : List Label} (he : Exec s0 ls s)
    (hq : s0.spc.reports = true → s0.batch = false) : s.spc.reports = true → s.batch = false := by
  induction he with
  | nil => exact hq
  | snoc _ hs ih => exact reports_step hs ih

theorem readingUpTo_ge (ts : List TS) (k : Nat) (hk : ts.length ≤ k) : readingUpTo ts k = readingUpTo ts ts.length := by
  obtain ⟨d, rfl⟩ := Nat.exists_eq_add_of_le hk
  induction d with
  | zero => rfl
  | succ d ih =>
    have hne : ts.getD (ts.length + d) .new ≠ .reading := by rw [getD_ge' (by omega)]; simp
    rw [← Nat.add_assoc, readingUpTo_succ, if_neg hne, List.append_nil]
    exact ih (by omega)

/-- the steps the signals thread can take on the abort path — short of giving way to a cancellation request, which
    dsh() makes only when all work is done — one by one: take thd_mutex ... -/
theorem abort_lock {s s' : St} {a : SAct} (hnd : a ≠ .die) (hd : sStep s a = some s') (hw : s.spc = .abLock) :
    a = .lockT ∧ s'.spc = .fwding 0 ∧ s'.thd = .s ∧ s'.fwds = s.fwds := by
  cases a with
  | lockT =>
    simp only [sStep] at hd
    split at hd
    · rename_i hl; rw [hw] at hl; cases hl
    · simp only [Option.some.injEq] at hd; subst hd; exact ⟨rfl, rfl, rfl, rfl⟩
    · simp at hd
  | lock => simp only [sStep] at hd; split at hd <;> simp_all
  | sigwait g => simp [sStep, hw] at hd
  | time v => simp [sStep, hw] at hd
  | fwd h => simp [sStep, hw] at hd
  | unlockT => simp [sStep, hw] at hd
  | unlock => simp [sStep, hw] at hd
  | stop => simp [sStep, hw] at hd
  | exit c => simp [sStep, hw] at hd
  | die => exact absurd rfl hnd

/-- ... signal the next READING slot, or release thd_mutex when there is none left ... -/
theorem abort_fwd {s s' : St} {a : SAct} {k : Nat} (ha : AInv s) (hnd : a ≠ .die) (hd : sStep s a = some s')
    (hw : s.spc = .fwding k) :
    (∃ h, a = .fwd h ∧ k ≤ h ∧ h < s.ts.length ∧ tsAt s h = .reading ∧ s'.spc = .fwding (h + 1) ∧
        s'.fwds = s.fwds ++ [h]) ∨
    (a = .unlockT ∧ s'.spc = .exiting ∧ s'.thd = .none ∧ s'.fwds = s.fwds ∧
        s.fwds = readingUpTo s.ts s.ts.length) := by
  cases a with
  | fwd h =>
    simp only [sStep, hw] at hd
    split at hd <;> simp at hd
    rename_i hg
    subst hd
    left
    exact ⟨h, rfl, hg.1, lt_of_getElem?' hg.2.1, getD_of_getElem?' hg.2.1, rfl, rfl⟩
  | unlockT =>
    simp only [sStep, hw] at hd
    split at hd <;> simp at hd
    rename_i hn
    subst hd
    right
    refine ⟨rfl, rfl, rfl, rfl, ?_⟩
    rw [ha.fw k hw]
    by_cases hk : k ≤ s.ts.length
    · exact (readingUpTo_skip s.ts k s.ts.length hk hn).symm
    · exact readingUpTo_ge s.ts k (by omega)
  | lockT => simp only [sStep] at hd; split at hd <;> simp_all
  | lock => simp only [sStep] at hd; split at hd <;> simp_all
  | sigwait g => simp [sStep, hw] at hd
  | time v => simp [sStep, hw] at hd
  | unlock => simp [sStep, hw] at hd
  | stop => simp [sStep, hw] at hd
  | exit c => simp [sStep, hw] at hd
  | die => exact absurd rfl hnd

/-- ... and call `exit(1)` -/
theorem abort_exit {s s' : St} {a : SAct} (hnd : a ≠ .die) (hd : sStep s a = some s') (hw : s.spc = .exiting) :
    a = .exit 1 ∧ s'.exited = some 1 := by
  cases a with
  | exit c =>
    simp only [sStep, hw] at hd
    split at hd <;> simp at hd
    rename_i hc
    subst hd; subst hc
    exact ⟨rfl, rfl⟩
  | lockT => simp only [sStep] at hd; split at hd <;> simp_all
  | lock => simp only [sStep] at hd; split at hd <;> simp_all
  | sigwait g => simp [sStep, hw] at hd
  | time v => simp [sStep, hw] at hd
  | fwd h => simp [sStep, hw] at hd
  | unlockT => simp [sStep, hw] at hd
  | unlock => simp [sStep, hw] at hd
  | stop => simp [sStep, hw] at hd
  | die => exact absurd rfl hnd

/-- on the abort path: abLock, fwding k, exiting -/
def SPC.aborting : SPC → Bool
  | .abLock | .fwding _ | .exiting => true
  | _ => false

/-- every step of the signals thread on the abort path brings `exit` nearer -/
theorem abort_rank {s s' : St} {a : SAct} (ha : AInv s) (hnd : a ≠ .die) (hd : sStep s a = some s')
    (hw : s.spc.aborting = true) :
    (arank s' < arank s ∧ s'.spc.aborting = true) ∨ s'.exited = some 1 := by
  have hlen : s'.ts.length = s.ts.length := by
    rcases (s_step_frame hd).2.2.2.2.2.2 with h | ⟨_, h⟩ <;> rw [h]; simp
  cases hsp : s.spc <;> rw [hsp] at hw <;> simp [SPC.aborting] at hw
  · obtain ⟨_, h1, _, _⟩ := abort_lock hnd hd hsp
    left; refine ⟨?_, by rw [h1]; rfl⟩
    simp only [arank, h1, hsp, hlen]; omega
  · rename_i k
    rcases abort_fwd ha hnd hd hsp with ⟨h, _, hk, hlt, _, h1, _⟩ | ⟨_, h1, _, _, _⟩
    · left; refine ⟨?_, by rw [h1]; rfl⟩
      simp only [arank, h1, hsp, hlen]; omega
    · left; refine ⟨?_, by rw [h1]; rfl⟩
      simp only [arank, h1, hsp]; omega
  · exact Or.inr (abort_exit hnd hd hsp).2

end PdshVerif.Dsh.Sig
