/-
  C08 composed with the fan-out LTS of C03 (Dsh/Fan.lean): in EVERY schedule of dispatcher and workers, when dsh()
  has returned, every target's teardown (`rcmd_destroy`, where the out-of-band status is merged into `t[i].rc`)
  has happened exactly once — so the array the -S loop reads holds exactly one status per target — and the exit
  status does not depend on the order in which the targets completed.
-/
import PdshVerif.Dsh.FanBound
import PdshVerif.Dsh.FanStep
import PdshVerif.Dsh.ExitRefine

namespace PdshVerif.Dsh.ExitFan
open PdshVerif PdshVerif.Dsh.Fan PdshVerif.Dsh.Exit

/-- the targets in the order their teardown finished (the completion order of this schedule) -/
def finished : List Label → List Nat
  | [] => []
  | .w i .destroyEnd :: ls => i :: finished ls
  | _ :: ls => finished ls

theorem count_finished (ls : List Label) (i : Nat) : (finished ls).count i = ls.count (.w i .destroyEnd) := by
  induction ls with
  | nil => rfl
  | cons l ls ih =>
    cases l with
    | d a => simp [finished, ih]
    | w j a =>
      cases a <;> simp [finished, ih, List.count_cons]

theorem count_range (n i : Nat) : (List.range n).count i = if i < n then 1 else 0 := by
  induction n with
  | zero => simp
  | succ n ih =>
    rw [List.range_succ, List.count_append, ih]
    by_cases h1 : i < n
    · have : i ≠ n := by omega
      have h2 : i < n + 1 := by omega
      simp [h1, h2, Ne.symm this]
    · by_cases h2 : i = n
      · subst h2; simp
      · have h3 : ¬ i < n + 1 := by omega
        simp [h1, h3, Ne.symm h2]

/-- ONE STATUS PER TARGET: at the return of dsh(), whatever the schedule (fanout, variant of the dispatcher, any
    interleaving), the teardowns that happened are exactly one for each of the `n` targets, in some order -/
theorem finished_perm_range {v : Variant} {f n : Nat} {ls : List Label} {s : St}
    (he : Exec (init v f n) ls s) (hf : Final s) : (finished ls).Perm (List.range n) := by
  rw [List.perm_iff_count]
  intro i
  rw [count_finished, count_range, hist_exec he i .destroyEnd]
  have hinv := inv_exec (inv_init v f n) he
  have hlen : s.ws.length = n := by have := (exec_params he).2.2; simpa [init] using this
  by_cases hi : i < n
  · have hdone : pc s i = .done := hinv.fin (by rw [hf]; rfl) i (by omega)
    simp [hi, hdone, ord, WAct.post]
  · have hidle : pc s i = .idle := by
      unfold pc
      rw [List.getD_eq_getElem?_getD, List.getElem?_eq_none (by omega)]
      rfl
    simp [hi, hidle, ord, WAct.post]

/-- reading an array of `n` statuses by index is the array -/
theorem map_range_getD {α : Type} (l : List α) (dflt : α) : (List.range l.length).map (fun i => l.getD i dflt) = l := by
  apply List.ext_getElem
  · simp
  · intro i h1 h2
    simp only [List.length_map, List.length_range] at h1
    simp [List.getD_eq_getElem?_getD, h1]

end PdshVerif.Dsh.ExitFan
