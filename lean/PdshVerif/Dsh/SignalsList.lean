import PdshVerif.Dsh.SignalsSingle

/-! # `_list_slowthreads`: what the listing names, under either locking discipline

The listing is a *snapshot* of `t[i].state` taken while the signals thread holds thd_mutex (`S.lockT` from `listLock`).
The lines may be printed with the mutex still held (dsh.c as pinned) or from a copy after it was released (harmless
change C20-H2): the model accepts both and every mixture (`SPC.listing k` = mutex held, `SPC.printing k` = released,
`k` resp. `k + 1` clock readings — one per listed host — to go).  Nothing below depends on which one the code uses. -/
namespace PdshVerif.Dsh.Sig
open PdshVerif.Dsh.Fan (Variant DPC)

/-- the worker is inside or around `rcmd_connect`: it has marked itself DSH_RCMD and has not recorded the outcome -/
def connectingPC : WP → Bool
  | .rcmdL | .ready | .connecting | .connOk | .connFail | .updT => true
  | _ => false

/-- the command is in progress: connected, state recorded, the read loop not yet left -/
def runningPC : WP → Bool
  | .updL | .reading => true
  | _ => false

/-- the hosts a listing taken in state `s` names -/
def listedNow (s : St) : List Nat := (List.range s.ts.length).filter fun j => isListed (tsAt s j)

/-- the snapshot: taking thd_mutex for the listing records exactly the slots that are RCMD or READING at that moment,
    in slot order, and schedules one clock reading per listed host -/
theorem listing_is_snapshot {s s' : St} (hs : step s (.s .lockT) = some s') (hw : s.spc = .listLock) :
    s'.listed = listedNow s ∧ s'.spc = .listing (listedNow s).length ∧ s'.thd = .s ∧ s'.ts = s.ts := by
  have hd := step_s hs
  simp only [sStep] at hd
  split at hd
  · simp only [Option.some.injEq] at hd; subst hd; exact ⟨rfl, rfl, rfl, rfl⟩
  · rename_i _ h2; rw [hw] at h2; cases h2
  · simp at hd

theorem mem_listedNow {s : St} {j : Nat} : j ∈ listedNow s ↔ j < s.ts.length ∧ (tsAt s j = .rcmd ∨ tsAt s j = .reading) := by
  simp only [listedNow, List.mem_filter, List.mem_range]
  constructor
  · rintro ⟨h1, h2⟩; refine ⟨h1, ?_⟩; revert h2; cases tsAt s j <;> simp [isListed]
  · rintro ⟨h1, h2 | h2⟩ <;> exact ⟨h1, by rw [h2]; rfl⟩

/-- soundness: a host the listing names is still connecting or running — its worker exists, has marked itself, and has
    not yet recorded the end of its command ("connecting" ⇔ RCMD, "command in progress" ⇔ READING) -/
theorem listed_connecting_or_running {v : Variant} {g sw : Bool} {f n t0 : Nat} {b : Bool} {s : St} {j : Nat}
    (h : Reach v g sw f n b t0 s) (hj : j ∈ listedNow s) :
    j < n ∧ ((tsAt s j = .rcmd ∧ connectingPC (pc s j) = true) ∨ (tsAt s j = .reading ∧ runningPC (pc s j) = true)) := by
  have hinv := inv_reach h
  have hn : s.ts.length = n := (reach_params h).2.2.2.2
  obtain ⟨hlt, hst⟩ := mem_listedNow.mp hj
  have hok := hinv.t.ok j
  refine ⟨by omega, ?_⟩
  rcases hst with hst | hst
  · left; refine ⟨hst, ?_⟩
    rw [hst] at hok; revert hok; cases pc s j <;> simp [okTS, connectingPC]
  · right; refine ⟨hst, ?_⟩
    rw [hst] at hok; revert hok; cases pc s j <;> simp [okTS, runningPC]

/-- completeness: a host whose command is running is named; a host inside or around rcmd_connect is named unless ^Z has
    canceled it in the meantime (then its slot says CANCELED: it is being dropped) -/
theorem running_is_listed {v : Variant} {g sw : Bool} {f n t0 : Nat} {b : Bool} {s : St} {j : Nat}
    (h : Reach v g sw f n b t0 s) (hj : j < n) :
    (pc s j = .reading → j ∈ listedNow s) ∧
    (connectingPC (pc s j) = true → j ∈ listedNow s ∨ tsAt s j = .canceled ∨ tsAt s j = .failed) := by
  have hinv := inv_reach h
  have hn : s.ts.length = n := (reach_params h).2.2.2.2
  have hok := hinv.t.ok j
  refine ⟨fun hp => ?_, fun hp => ?_⟩
  · rw [hp] at hok
    have : tsAt s j = .reading := by revert hok; cases tsAt s j <;> simp [okTS]
    exact mem_listedNow.mpr ⟨by omega, Or.inr this⟩
  · have : tsAt s j = .rcmd ∨ tsAt s j = .canceled := by
      revert hok hp; cases pc s j <;> cases tsAt s j <;> simp [okTS, connectingPC]
    rcases this with h1 | h1
    · exact Or.inl (mem_listedNow.mpr ⟨by omega, Or.inl h1⟩)
    · exact Or.inr (Or.inl h1)

/-- the snapshot is what gets printed, whenever it is printed: `listed` changes only when the signals thread takes
    thd_mutex for a (new) listing -/
theorem listed_frozen {s s' : St} {l : Label} (hs : step s l = some s') :
    s'.listed = s.listed ∨ (l = .s .lockT ∧ s.spc = .listLock) := by
  cases l with
  | d a =>
    left
    have hd := step_d hs
    cases a <;> simp only [dStep] at hd <;> (repeat' split at hd) <;> simp [roomTest, drainTest] at hd <;>
      (try split at hd) <;> (try (obtain ⟨_, hd⟩ := hd)) <;> (try subst hd) <;> simp_all
  | w i a =>
    left
    obtain ⟨p, q, _, rfl⟩ := w_facts (step_w hs)
    cases a <;> rfl
  | e a =>
    left
    have hd := step_e hs
    cases a <;> simp only [eStep] at hd <;> (try split at hd) <;> simp at hd <;> subst hd <;> rfl
  | g a => left; rw [g_step_frame (step_wd hs)]
  | s a =>
    have hd := step_s hs
    cases a <;> simp only [sStep] at hd <;> (repeat' split at hd) <;> simp at hd <;>
      (try (obtain ⟨_, hd⟩ := hd)) <;> (try subst hd) <;> simp_all

/-- the same for the number in "Canceled n pending threads.": `ncanc` is fixed when the signals thread takes
    threadcount_mutex in `_cancel_pending_threads` and no other step changes it — the message says the same whether it is
    printed with the mutex held (dsh.c as pinned) or after the mutex was released (C20-H4) -/
theorem ncanc_frozen {s s' : St} {l : Label} (hs : step s l = some s') :
    s'.ncanc = s.ncanc ∨ (l = .s .lock ∧ s.spc = .cancLock) := by
  cases l with
  | d a =>
    left
    have hd := step_d hs
    cases a <;> simp only [dStep] at hd <;> (repeat' split at hd) <;> simp [roomTest, drainTest] at hd <;>
      (try split at hd) <;> (try (obtain ⟨_, hd⟩ := hd)) <;> (try subst hd) <;> simp_all
  | w i a =>
    left
    obtain ⟨p, q, _, rfl⟩ := w_facts (step_w hs)
    cases a <;> rfl
  | e a =>
    left
    have hd := step_e hs
    cases a <;> simp only [eStep] at hd <;> (try split at hd) <;> simp at hd <;> subst hd <;> rfl
  | g a => left; rw [g_step_frame (step_wd hs)]
  | s a =>
    have hd := step_s hs
    cases a <;> simp only [sStep] at hd <;> (repeat' split at hd) <;> simp at hd <;>
      (try (obtain ⟨_, hd⟩ := hd)) <;> (try subst hd) <;> simp_all

/-- `k` clock readings in a row by the signals thread -/
def times (v : Nat) (k : Nat) : List Label := List.replicate k (.s (.time v))

theorem run_append (s : St) (a b : List Label) : run s (a ++ b) = (run s a).bind (run · b) := by
  induction a generalizing s with
  | nil => simp [run]
  | cons l a ih =>
    simp only [List.cons_append, run]
    cases step s l with
    | none => simp
    | some s1 => simp [ih]

theorem times_succ (v k : Nat) : times v (k + 1) = .s (.time v) :: times v k := by simp [times, List.replicate_succ]

theorem run_times_listing (s : St) (k : Nat) (hx : s.exited = none) (hw : s.spc = .listing k) :
    run s (times s.now k) = some { s with spc := .listing 0 } := by
  induction k generalizing s with
  | zero =>
    simp only [times, List.replicate_zero, run]
    cases s; simp_all
  | succ k ih =>
    have h1 : step s (.s (.time s.now)) = some { s with spc := .listing k } := by
      rw [step_of_s hx]; simp [sStep, hw]
    rw [times_succ, run, h1, Option.bind_some]
    exact ih { s with spc := .listing k } hx rfl

theorem run_times_printing (s : St) (k : Nat) (hx : s.exited = none) (hw : s.spc = .printing k) :
    run s (times s.now (k + 1)) = some { s with spc := .waiting } := by
  induction k generalizing s with
  | zero =>
    have h1 : step s (.s (.time s.now)) = some { s with spc := .waiting } := by
      rw [step_of_s hx]; simp [sStep, hw]
    rw [times_succ, run, h1, Option.bind_some]; rfl
  | succ k ih =>
    have h1 : step s (.s (.time s.now)) = some { s with spc := .printing k } := by
      rw [step_of_s hx]; simp [sStep, hw]
    rw [times_succ, run, h1, Option.bind_some]
    exact ih { s with spc := .printing k } hx rfl

/-- **both disciplines are runs of the model, with the same result**: from the moment the snapshot is taken
    (`listing k`, thd_mutex held) "print every line, then unlock" and "unlock, then print every line" both lead to the
    signals thread back in sigwait, thd_mutex free, the same listing, and nothing else changed -/
theorem both_disciplines {s : St} {k : Nat} (hx : s.exited = none) (hw : s.spc = .listing k) :
    run s (times s.now k ++ [.s .unlockT]) = some { s with spc := .waiting, thd := .none } ∧
    run s ([.s .unlockT] ++ times s.now k) = some { s with spc := .waiting, thd := .none } := by
  constructor
  · rw [run_append, run_times_listing s k hx hw]
    simp only [Option.bind_some, run]
    have : step { s with spc := .listing 0 } (.s .unlockT) = some { s with spc := .waiting, thd := .none } := by
      rw [step_of_s (by exact hx)]; simp [sStep]
    rw [this]; rfl
  · cases k with
    | zero =>
      simp only [times, List.replicate_zero, List.append_nil, run]
      have : step s (.s .unlockT) = some { s with thd := .none, spc := .waiting } := by
        rw [step_of_s hx]; simp [sStep, hw]
      rw [this]; rfl
    | succ k =>
      simp only [List.singleton_append, run]
      have : step s (.s .unlockT) = some { s with thd := .none, spc := .printing k } := by
        rw [step_of_s hx]; simp [sStep, hw]
      rw [this, Option.bind_some]
      exact run_times_printing { s with thd := .none, spc := .printing k } k hx rfl

end PdshVerif.Dsh.Sig
