/-
  C20: the CLOCK as an input.  `_handle_sigint` / `_handle_sigtstp` (src/pdsh/dsh.c) decide by
  `time(NULL) - last_intr > INTR_TIME`.  The LTS (`sStep`, label `.time`) keeps both stamps as unbounded naturals.
  Here: the decision is a function of the DIFFERENCE of the two stamps alone (moving the clock and the stamp by the
  same amount changes nothing, whatever the amount: 2^31, 2^32, 2^33 ...), what the C expression has to compute for
  that to be true of the code (a subtraction in a type wide enough for both stamps: `time_t`, 64 bits here), and why a
  narrower type breaks it (a witness: the difference returned through a 32-bit `int` at the instant 2^31).
  The real code is run at those values of the clock by vlib/sigthread.py (AT_CLOCK).
-/
import PdshVerif.Dsh.SignalsBase

namespace PdshVerif.Dsh.Sig

/-- the test both handlers make, on the two stamps -/
def past (now last : Nat) : Bool := decide (now - last > INTR)

/-- the same state with the clock and the recorded instant of the last report moved by `k` seconds -/
def shiftClock (k : Nat) (s : St) : St := { s with now := s.now + k, last := s.last + k }

/-- the test depends on the difference only ... -/
theorem past_of_diff {n1 l1 n2 l2 : Nat} (h : n1 - l1 = n2 - l2) : past n1 l1 = past n2 l2 := by
  unfold past; rw [h]

/-- ... in particular it is invariant under a shift of both stamps, by any amount -/
theorem past_shift (now last k : Nat) : past (now + k) (last + k) = past now last :=
  past_of_diff (Nat.add_sub_add_right now k last)

/-- the step of the signals thread that reads the clock (the INTR_TIME decision of `_handle_sigint` and of
    `_handle_sigtstp`, the recording of the instant of a report, the instants read while listing) commutes with a
    shift of the clock: the same successor, shifted -/
theorem sStep_time_shift (s : St) (v k : Nat) :
    sStep (shiftClock k s) (.time (v + k)) = (sStep s (.time v)).map (shiftClock k) := by
  have e : (s.now + k) - (s.last + k) = s.now - s.last := Nat.add_sub_add_right s.now k s.last
  by_cases hv : v = s.now
  · subst hv
    simp only [sStep, shiftClock, if_true, e]
    cases s.spc with
    | listing n => cases n <;> simp [shiftClock]
    | printing n => cases n <;> simp [shiftClock]
    | _ => simp [shiftClock]
  · simp [sStep, shiftClock, hv]

theorem step_time_shift {s s' : St} {v : Nat} (k : Nat) (hs : step s (.s (.time v)) = some s') :
    step (shiftClock k s) (.s (.time (v + k))) = some (shiftClock k s') := by
  have hx : s.exited.isSome = false := by
    cases h : s.exited.isSome
    · rfl
    · simp [step, h] at hs
  have hd := step_s hs
  have : (shiftClock k s).exited = s.exited := rfl
  simp only [step, this, hx, Bool.false_eq_true, if_false]
  rw [sStep_time_shift, hd]; rfl

/-! ### what the C expression must compute

`time(NULL) - last_intr > INTR_TIME` with both operands `time_t`.  `last_intr` is 0 or an earlier reading of the same
clock, so `last ≤ now`; in a signed type that holds both stamps the C difference is the difference of naturals. -/

/-- two's-complement narrowing to `w` bits (what returning the difference through a `w`-bit signed integer does) -/
def wrapTo (w : Nat) (x : Int) : Int := (x + 2 ^ (w - 1)) % 2 ^ w - 2 ^ (w - 1)

/-- the subtraction done in a signed type that holds both stamps (no wrap) agrees with the model's test -/
theorem c_test_exact (now last : Nat) (h : last ≤ now) :
    decide ((now : Int) - (last : Int) > (INTR : Int)) = past now last := by
  unfold past
  have : ((now : Int) - (last : Int) > (INTR : Int)) ↔ now - last > INTR := by omega
  simp [this]

/-- the same without `last ≤ now` (the clock was set back between the two interrupts): the signed C difference is
    negative, the model's truncated difference is 0, and both are "within INTR_TIME": abort / cancel.  (An UNSIGNED
    difference would be huge instead: report / stop.) -/
theorem c_test_any_order (now last : Nat) :
    decide ((now : Int) - (last : Int) > (INTR : Int)) = past now last := by
  unfold past
  have : ((now : Int) - (last : Int) > (INTR : Int)) ↔ now - last > INTR := by omega
  simp [this]

/-- ... and narrowing it to `w` bits is harmless exactly as long as the difference itself fits -/
theorem wrapTo_fits (w : Nat) (hw : 0 < w) (x : Int) (h1 : -(2 ^ (w - 1)) ≤ x) (h2 : x < 2 ^ (w - 1)) :
    wrapTo w x = x := by
  unfold wrapTo
  have e : (2 : Int) ^ w = 2 * 2 ^ (w - 1) := by
    obtain ⟨m, rfl⟩ : ∃ m, w = m + 1 := ⟨w - 1, by omega⟩
    simp [Int.pow_succ, Int.mul_comm]
  have hp : (0 : Int) < 2 ^ (w - 1) := Int.pow_pos (by decide)
  rw [e, Int.emod_eq_of_lt (by omega) (by omega)]; omega

/-- the witness for the width: at the instant 2^31 (19 Jan 2038) the first interrupt (`last_intr = 0`) is "long
    ago" for the model and for a 64-bit subtraction, but "within a second" when the difference is returned through a
    32-bit `int`; the same at 2^32 and 2^33 (the narrowed difference is 0) -/
example : past (2 ^ 31) 0 = true ∧ decide (wrapTo 64 ((2 ^ 31 : Nat) - (0 : Nat)) > (INTR : Int)) = true ∧
    decide (wrapTo 32 ((2 ^ 31 : Nat) - (0 : Nat)) > (INTR : Int)) = false := by decide
example : past (2 ^ 32) 0 = true ∧ decide (wrapTo 32 ((2 ^ 32 : Nat) - (0 : Nat)) > (INTR : Int)) = false ∧
    past (2 ^ 33) 0 = true ∧ decide (wrapTo 32 ((2 ^ 33 : Nat) - (0 : Nat)) > (INTR : Int)) = false := by decide
/-- the boundary straddling 2^31 and 2^32: one second apart = within INTR_TIME, two seconds apart = past it -/
example : past (2 ^ 31) (2 ^ 31 - 1) = false ∧ past (2 ^ 31) (2 ^ 31 - 2) = true ∧
    past (2 ^ 32) (2 ^ 32 - 1) = false ∧ past (2 ^ 32) (2 ^ 32 - 2) = true := by decide
/-- the epoch: `last_intr` starts at 0, so a first interrupt at clock 0 or 1 is within INTR_TIME of "the last one" -/
example : past 0 0 = false ∧ past 1 0 = false ∧ past 2 0 = true := by decide

end PdshVerif.Dsh.Sig
