import PdshVerif.Dsh.TimedInv

/-! # Timed LTS: streams that end by themselves (no hang after the connect) -/
namespace PdshVerif.Dsh.Timed
open PdshVerif.Dsh

/-- latest scripted instant of a stream (items that never arrive count 0) -/
def maxT : List Item → Nat
  | [] => 0
  | it :: rest => max (it.t.getD 0) (maxT rest)

/-- the instant (after the connect) at which the last polled stream has said everything -/
def lastT (c : Cfg) (sc : Script) : Nat := max (maxT sc.out) (if c.sopt then maxT sc.err else 0)

/-- no polled stream hangs: every item arrives at a finite scripted instant -/
def NoHang (c : Cfg) (sc : Script) : Prop :=
  (∀ it ∈ sc.out, it.t ≠ none) ∧ (c.sopt = true → ∀ it ∈ sc.err, it.t ≠ none)

theorem le_maxT {items : List Item} {it : Item} {t : Nat} (hm : it ∈ items) (ht : it.t = some t) : t ≤ maxT items := by
  induction items with
  | nil => cases hm
  | cons x xs ih =>
    simp only [maxT]
    rcases List.mem_cons.mp hm with rfl | hm'
    · rw [ht]; simp; omega
    · have := ih hm'; omega

/-- what every target's streams satisfy, whatever its script -/
structure GInv (c : Cfg) (sc : Script) (h : Host) : Prop where
  subO : ∀ it ∈ h.out.items, it ∈ sc.out
  subE : ∀ it ∈ h.err.items, it ∈ sc.err
  errC : c.sopt = false → h.err.closed = true
  opn : h.ph = .reading → h.out.closed = false ∨ h.err.closed = false

theorem pumpItems_sub (base now : Nat) : ∀ (items : List Item) (got : Nat),
    (∀ it ∈ (pumpItems base now items got).1.items, it ∈ items)
  | [], got => by simp [pumpItems]
  | x :: rest, got => by
      simp only [pumpItems]
      split
      · cases hk : x.kind with
        | data n =>
          simp only []
          intro it hit
          exact List.mem_cons_of_mem _ (pumpItems_sub base now rest (got + n) it hit)
        | eof => simp
        | err => simp
      · simp

theorem pump_sub (base now : Nat) (st : Stream) :
    (∀ it ∈ (st.pump base now).1.items, it ∈ st.items) ∧ (st.closed = true → (st.pump base now).1.closed = true) := by
  simp only [Stream.pump]
  cases hc : st.closed with
  | true => simp [hc]
  | false => simp only [Bool.false_eq_true, if_false]; exact ⟨pumpItems_sub base now st.items st.got, by simp⟩

theorem pumpOne_sub (base now : Nat) (st : Stream) :
    (∀ it ∈ (st.pumpOne base now).1.items, it ∈ st.items) ∧ (st.closed = true → (st.pumpOne base now).1.closed = true) := by
  simp only [Stream.pumpOne]
  cases hc : st.closed with
  | true => simp [hc]
  | false =>
    simp only [Bool.false_eq_true, if_false]
    cases hi : st.items with
    | nil => simp
    | cons x rest =>
      simp only []
      split
      · cases hk : x.kind <;> simp
        intro it hit; exact Or.inr hit
      · simp [hi]

theorem ginv_pollRound {c : Cfg} {sc : Script} {h : Host} (now : Nat) (hO : ∀ it ∈ h.out.items, it ∈ sc.out)
    (hE : ∀ it ∈ h.err.items, it ∈ sc.err) (hC : c.sopt = false → h.err.closed = true) : GInv c sc (h.pollRound now) := by
  have hg : GInv c sc { h with ph := .finished } := ⟨hO, hE, hC, by simp⟩
  have po := pump_sub h.conn now h.out
  have pe := pump_sub h.conn now h.err
  simp only [Host.pollRound]
  split
  · rename_i hcl
    exact { subO := fun it hit => hg.subO it (po.1 it hit), subE := fun it hit => hg.subE it (pe.1 it hit),
            errC := fun hs => pe.2 (hg.errC hs), opn := by simp }
  · rename_i hcl
    refine { subO := fun it hit => hg.subO it (po.1 it hit), subE := fun it hit => hg.subE it (pe.1 it hit),
             errC := fun hs => pe.2 (hg.errC hs), opn := ?_ }
    intro _
    simp only [Bool.and_eq_true, not_and, Bool.not_eq_true] at hcl
    cases h1 : (h.out.pump h.conn now).1.closed with
    | false => exact Or.inl rfl
    | true => exact Or.inr (hcl h1)

theorem ginv_oneRound {c : Cfg} {sc : Script} {h : Host} (now : Nat) (hO : ∀ it ∈ h.out.items, it ∈ sc.out)
    (hE : ∀ it ∈ h.err.items, it ∈ sc.err) (hC : c.sopt = false → h.err.closed = true) : GInv c sc (h.oneRound now) := by
  have hg : GInv c sc { h with ph := .finished } := ⟨hO, hE, hC, by simp⟩
  have po := pumpOne_sub h.conn now h.out
  have pe := pumpOne_sub h.conn now h.err
  simp only [Host.oneRound]
  split
  · rename_i hcl
    exact { subO := fun it hit => hg.subO it (po.1 it hit), subE := fun it hit => hg.subE it (pe.1 it hit),
            errC := fun hs => pe.2 (hg.errC hs), opn := by simp }
  · rename_i hcl
    refine { subO := fun it hit => hg.subO it (po.1 it hit), subE := fun it hit => hg.subE it (pe.1 it hit),
             errC := fun hs => pe.2 (hg.errC hs), opn := ?_ }
    intro _
    simp only [Bool.and_eq_true, not_and, Bool.not_eq_true] at hcl
    cases h1 : (h.out.pumpOne h.conn now).1.closed with
    | false => exact Or.inl rfl
    | true => exact Or.inr (hcl h1)

theorem ginv_frame {c : Cfg} {sc : Script} {h h' : Host} (hg : GInv c sc h) (ho : h'.out = h.out) (he : h'.err = h.err)
    (hp : h'.ph = .reading → h.ph = .reading) : GInv c sc h' :=
  { subO := by rw [ho]; exact hg.subO, subE := by rw [he]; exact hg.subE, errC := by rw [he]; exact hg.errC,
    opn := fun hh => by rw [ho, he]; exact hg.opn (hp hh) }

/-- `GInv` is preserved by whatever happens to the target -/
theorem ginv_hostStep {c : Cfg} {sc : Script} {h : Host} (now : Nat) (hg : GInv c sc h) (lo : Local) :
    GInv c sc (hostStep c sc now h lo) := by
  cases lo with
  | create => exact ginv_frame hg rfl rfl (by simp [hostStep])
  | connBegin => exact ginv_frame hg rfl rfl (by simp [hostStep])
  | connEnd =>
    simp only [hostStep]
    split
    · exact ginv_frame hg rfl rfl (by simp)
    · split
      · exact ginv_pollRound now hg.subO hg.subE hg.errC
      · exact ginv_frame hg rfl rfl (by simp)
      · exact hg
  | wake =>
    have hself : ∀ x : Host, GInv c sc x → GInv c sc (x.selfTimeout c now) := by
      intro x hx; simp only [Host.selfTimeout]; split
      · exact ginv_frame hx (by simp) (by simp) (by simp)
      · exact hx
    simp only [hostStep]
    apply hself
    simp only [Host.wakeCore]
    split
    · split
      · exact ginv_frame hg (by simp) (by simp) (by simp)
      · exact ginv_pollRound now hg.subO hg.subE hg.errC
    · split
      · exact ginv_oneRound now hg.subO hg.subE hg.errC
      · exact ginv_pollRound now hg.subO hg.subE hg.errC
  | scan => simp only [hostStep]; split
            · exact ginv_frame hg rfl rfl (fun hh => hh)
            · exact hg
  | destEnd => simp only [hostStep]; split
               · exact ginv_frame hg rfl rfl (fun hh => hh)
               · exact ginv_frame hg rfl rfl (fun hh => hh)
  | other => exact hg

theorem ginv_init (c : Cfg) (sc : Script) : GInv c sc (initHost c sc) := by
  constructor <;> simp [initHost]

theorem ginv_step {s s' : St} {l : Label} (h : step s l = some s') {j : Nat} (hj : j < s.hs.length)
    (hg : GInv s.cfg (s.script j) (s.host j)) : GInv s'.cfg (s'.script j) (s'.host j) := by
  have hpar := step_params h
  rw [hpar.1, script_congr hpar.2.1, host_local' h hj]
  exact ginv_hostStep _ hg _

theorem ginv_exec {v f c scripts} {ls : List Label} {s : St} (he : Exec (init v f c scripts) ls s) :
    s.cfg = c ∧ s.scripts = scripts ∧ s.hs.length = scripts.length ∧
    ∀ j, j < scripts.length → GInv s.cfg (s.script j) (s.host j) := by
  induction he with
  | nil =>
    refine ⟨rfl, rfl, by simp [init], ?_⟩
    intro j hj
    rw [host_init v f c scripts hj]
    exact ginv_init _ _
  | snoc he' hs ih =>
    obtain ⟨h1, h2, h3, h4⟩ := ih
    have hpar := step_params hs
    refine ⟨hpar.1.trans h1, hpar.2.1.trans h2, hpar.2.2.trans h3, ?_⟩
    intro j hj
    exact ginv_step hs (by rw [h3]; exact hj) (h4 j hj)

/-- command_timeout = 0, no stream of the target hangs: while the clock can advance, a target whose command
    is running is still before the scripted end of its streams -/
theorem reading_waits {s : St} (hq : quiescent s = true) {k : Nat} (hk : k < s.hs.length)
    (hg : GInv s.cfg (s.script k) (s.host k)) (hnh : NoHang s.cfg (s.script k)) (hph : (s.host k).ph = .reading) :
    s.now < (s.host k).conn + lastT s.cfg (s.script k) := by
  have hn := quiescent_none hq (mem_cands_wake s hk)
  simp only [dstep, hk, hph, true_and] at hn
  split at hn
  · simp at hn
  · rename_i hne
    have hro : (s.host k).out.ready (s.host k).conn s.now = false := by
      cases hr : (s.host k).out.ready (s.host k).conn s.now with
      | false => rfl
      | true => exact absurd (Or.inr (Or.inl hr)) hne
    have hre : (s.host k).err.ready (s.host k).conn s.now = false := by
      cases hr : (s.host k).err.ready (s.host k).conn s.now with
      | false => rfl
      | true => exact absurd (Or.inr (Or.inr hr)) hne
    rcases hg.opn hph with hop | hop
    · -- stdout is open and not readable: its next item is in the future
      cases hi : (s.host k).out.items with
      | nil => simp [Stream.ready, hop, hi] at hro
      | cons it rest =>
        have hm : it ∈ (s.script k).out := hg.subO it (by rw [hi]; exact List.mem_cons_self)
        cases ht : it.t with
        | none => exact absurd ht (hnh.1 it hm)
        | some t =>
          simp [Stream.ready, hop, hi, Item.avail, ht] at hro
          have h1 := le_maxT hm ht
          simp only [lastT]; omega
    · have hs : s.cfg.sopt = true := by
        cases hso : s.cfg.sopt with
        | true => rfl
        | false => have := hg.errC hso; rw [hop] at this; cases this
      cases hi : (s.host k).err.items with
      | nil => simp [Stream.ready, hop, hi] at hre
      | cons it rest =>
        have hm : it ∈ (s.script k).err := hg.subE it (by rw [hi]; exact List.mem_cons_self)
        cases ht : it.t with
        | none => exact absurd ht (hnh.2 hs it hm)
        | some t =>
          simp [Stream.ready, hop, hi, Item.avail, ht] at hre
          have h1 := le_maxT hm ht
          simp only [lastT, hs, if_true]; omega

end PdshVerif.Dsh.Timed
