import PdshVerif.Dsh.SignalsCancel

/-! # The repaired worker (`g = true`): a canceled slot — thread created or not — never gets a connect, and no
canceled host ever has its output relayed

`g` is the form of the worker's first state write (probed by behaviour on every run of the check):
`false` = the blind `a->state = DSH_RCMD` of the pinned source (defect F20-LOSTCANCEL, witness
`Props/C20.lean:canceled_created_slot_runs`), `true` = the repair
`if (a->state == DSH_CANCELED) result = DSH_CANCELED; else a->state = DSH_RCMD; ... if (result == DSH_CANCELED) goto out;`
(decision taken under thd_mutex, no unprotected re-read). -/
namespace PdshVerif.Dsh.Sig
open PdshVerif.Dsh.Fan (Variant DPC)

/-- the form of the worker never changes -/
theorem step_g {s s' : St} {l : Label} (hs : step s l = some s') : s'.g = s.g := by
  cases l with
  | d a =>
    have hd := step_d hs
    cases a <;> simp only [dStep] at hd <;> (try split at hd) <;> (try split at hd) <;>
      simp [roomTest, drainTest] at hd <;> (try split at hd) <;>
      (try (obtain ⟨_, hd⟩ := hd)) <;> (try subst hd) <;> simp_all
  | w i a =>
    obtain ⟨p, q, _, _, _, _, rfl⟩ := w_step_facts (step_w hs)
    cases a <;> simp [wEffect]
  | s a =>
    have hd := step_s hs
    cases a <;> simp only [sStep] at hd <;> (try split at hd) <;> (try split at hd) <;> (try split at hd) <;>
      simp at hd <;> (try (obtain ⟨_, hd⟩ := hd)) <;> (try subst hd) <;> simp_all
  | e a =>
    have hd := step_e hs
    cases a <;> simp only [eStep] at hd <;> (try split at hd) <;> simp at hd <;> subst hd <;> simp
  | g a => rw [g_step_frame (step_wd hs)]

theorem exec_g {s0 s : St} {ls : List Label} (he : Exec s0 ls s) : s.g = s0.g := by
  induction he with
  | nil => rfl
  | snoc _ hs ih => rw [step_g hs, ih]

/-- the form of the shutdown never changes -/
theorem step_sw {s s' : St} {l : Label} (hs : step s l = some s') : s'.sw = s.sw := by
  cases l with
  | d a =>
    have hd := step_d hs
    cases a <;> simp only [dStep] at hd <;> (try split at hd) <;> (try split at hd) <;>
      simp [roomTest, drainTest] at hd <;> (try split at hd) <;>
      (try (obtain ⟨_, hd⟩ := hd)) <;> (try subst hd) <;> simp_all
  | w i a =>
    obtain ⟨p, q, _, _, _, _, rfl⟩ := w_step_facts (step_w hs)
    cases a <;> simp [wEffect]
  | s a =>
    have hd := step_s hs
    cases a <;> simp only [sStep] at hd <;> (try split at hd) <;> (try split at hd) <;> (try split at hd) <;>
      simp at hd <;> (try (obtain ⟨_, hd⟩ := hd)) <;> (try subst hd) <;> simp_all
  | e a =>
    have hd := step_e hs
    cases a <;> simp only [eStep] at hd <;> (try split at hd) <;> simp at hd <;> subst hd <;> simp
  | g a => rw [g_step_frame (step_wd hs)]

theorem exec_sw {s0 s : St} {ls : List Label} (he : Exec s0 ls s) : s.sw = s0.sw := by
  induction he with
  | nil => rfl
  | snoc _ hs ih => rw [step_sw hs, ih]

/-! ## (A) a slot canceled while NEW — no thread, or a thread that has not marked itself — is never connected -/

/-- program counters from which a canceled worker goes to its epilogue without connecting -/
def skipsConnect : WP → Bool
  | .idle | .started | .skipL | .torn | .locked | .signaled | .done => true
  | _ => false

theorem tbl_skip {a : WAct} {p q : WP} (h : wNext true a p true = some q) (hp : skipsConnect p = true) :
    skipsConnect q = true ∧ a ≠ .connectBegin ∧ wWrite true a p .canceled = .canceled := by
  cases a <;> (try (rename_i ok; cases ok)) <;> cases p <;> simp [wNext] at h <;> (try subst h) <;>
    simp_all [skipsConnect, wWrite]

theorem canceled_skip_step {s s' : St} {l : Label} {j : Nat} (hg : s.g = true) (ht : TInv s)
    (hp : skipsConnect (pc s j) = true) (hc : tsAt s j = .canceled) (hs : step s l = some s') :
    skipsConnect (pc s' j) = true ∧ tsAt s' j = .canceled ∧ l ≠ .w j .connectBegin := by
  have hj : j < s.ts.length := by
    apply Nat.lt_of_not_le; intro hge
    have : tsAt s j = .new := getD_ge' hge
    rw [this] at hc; cases hc
  cases l with
  | g a => rw [g_step_frame (step_wd hs)]; exact ⟨hp, hc, by simp⟩
  | e a =>
    obtain ⟨hws, hts, _⟩ := e_step_frame (step_e hs)
    exact ⟨by rw [pc_congr hws]; exact hp, by rw [tsAt_congr hts]; exact hc, by simp⟩
  | s a =>
    obtain ⟨hws, _, _, _, _, _, hts⟩ := s_step_frame (step_s hs)
    refine ⟨by rw [pc_congr hws]; exact hp, ?_, by simp⟩
    rcases hts with hts | ⟨_, hts⟩
    · rw [tsAt_congr hts]; exact hc
    · rw [tsAt_map_cancel hts j hj, hc]; rfl
  | w i a =>
    obtain ⟨p, q, ⟨hi, hpci, hn, _, _⟩, rfl⟩ := w_facts (step_w hs)
    rw [pc_after hi, tsAt_after (by rw [ht.len]; exact hi)]
    by_cases hji : j = i
    · subst hji
      rw [hpci] at hp
      rw [hg, hc] at hn
      have hn' : wNext true a p true = some q := by simpa using hn
      obtain ⟨h1, h2, h3⟩ := tbl_skip hn' hp
      simp only [if_true]
      rw [hg, hc]
      exact ⟨h1, h3, fun he => by cases he; exact h2 rfl⟩
    · simp only [if_neg hji]
      exact ⟨hp, hc, fun he => by cases he; exact hji rfl⟩
  | d a =>
    have hd := step_d hs
    cases a with
    | create k =>
      simp only [dStep] at hd
      split at hd <;> simp at hd
      obtain ⟨⟨hk, hlt⟩, hd⟩ := hd
      subst hd
      have hne : j ≠ k := by
        intro he; subst he
        have := skip_stop s.ts s.i (by rw [← hk, ht.len]; exact hlt)
        rw [← hk] at this
        exact this hc
      refine ⟨?_, hc, by simp⟩
      show skipsConnect ((s.ws.set k WP.started).getD j .idle) = true
      rw [getD_set' hlt, if_neg hne]; exact hp
    | createG | createS | lock | wait | wake _ | relock | unlock | cancelG | joinG | cancelS | ret =>
      have : s'.ws = s.ws ∧ s'.ts = s.ts := by
        simp only [dStep] at hd
        (repeat' split at hd) <;> simp [roomTest, drainTest] at hd <;> (try split at hd) <;>
          (try subst hd) <;> simp_all
      exact ⟨by rw [pc_congr this.1]; exact hp, by rw [tsAt_congr this.2]; exact hc, by simp⟩

theorem canceled_skip_exec {s0 s : St} {ls : List Label} {j : Nat} (hg : s0.g = true) (h0 : Inv s0)
    (he : Exec s0 ls s) (hp : skipsConnect (pc s0 j) = true) (hc : tsAt s0 j = .canceled) :
    (skipsConnect (pc s j) = true ∧ tsAt s j = .canceled) ∧ Label.w j .connectBegin ∉ ls := by
  induction he with
  | nil => exact ⟨⟨hp, hc⟩, by simp⟩
  | snoc he' hs ih =>
    rename_i ls0 s1 l s2
    obtain ⟨⟨ip, ic⟩, inl⟩ := ih
    have hg1 : s1.g = true := by rw [exec_g he', hg]
    obtain ⟨h1, h2, h3⟩ := canceled_skip_step hg1 (inv_exec h0 he').t ip ic hs
    refine ⟨⟨h1, h2⟩, ?_⟩
    intro hm
    rcases List.mem_append.mp hm with h | h
    · exact inl h
    · simp at h; exact h3 h.symm

/-! ## (B) no canceled host — canceled while NEW or while connecting — ever reaches the read loop -/

/-- the worker will not relay output: it is canceled and has not yet written its result, or it is past that -/
def dropped (p : WP) (t : TS) : Bool :=
  match p with
  | .reading => false
  | .resL | .flushed | .tearing | .torn | .locked | .signaled | .done => true
  | _ => t == .canceled

theorem tbl_dropped {a : WAct} {p q : WP} {t : TS} (h : wNext true a p (t == .canceled) = some q)
    (hd : dropped p t = true) : dropped q (wWrite true a p t) = true := by
  cases t <;> cases a <;> (try (rename_i ok; cases ok)) <;> cases p <;> simp [wNext] at h <;> (try subst h) <;>
    simp_all [dropped, wWrite]

theorem dropped_cancelT {p : WP} {t : TS} (h : dropped p t = true) : dropped p (cancelT t) = true := by
  cases p <;> cases t <;> simp_all [dropped, cancelT, isPending]

theorem dropped_step {s s' : St} {l : Label} {j : Nat} (hg : s.g = true) (h : Inv s) (hj : j < s.ts.length)
    (hd : dropped (pc s j) (tsAt s j) = true) (hs : step s l = some s') :
    dropped (pc s' j) (tsAt s' j) = true := by
  have ht := h.t
  cases l with
  | g a => rw [g_step_frame (step_wd hs)]; exact hd
  | e a =>
    obtain ⟨hws, hts, _⟩ := e_step_frame (step_e hs)
    rw [pc_congr hws, tsAt_congr hts]; exact hd
  | s a =>
    obtain ⟨hws, _, _, _, _, _, hts⟩ := s_step_frame (step_s hs)
    rw [pc_congr hws]
    rcases hts with hts | ⟨_, hts⟩
    · rw [tsAt_congr hts]; exact hd
    · rw [tsAt_map_cancel hts j hj]; exact dropped_cancelT hd
  | w i a =>
    obtain ⟨p, q, ⟨hi, hpci, hn, _, _⟩, rfl⟩ := w_facts (step_w hs)
    rw [pc_after hi, tsAt_after (by rw [ht.len]; exact hi)]
    by_cases hji : j = i
    · subst hji
      simp only [if_true]
      rw [hpci] at hd
      rw [hg] at hn ⊢
      exact tbl_dropped hn hd
    · simp only [if_neg hji]; exact hd
  | d a =>
    have hdd := step_d hs
    cases a with
    | create k =>
      simp only [dStep] at hdd
      split at hdd <;> simp at hdd
      rename_i hdp
      obtain ⟨⟨hk, hlt⟩, hdd⟩ := hdd
      subst hdd
      show dropped ((s.ws.set k WP.started).getD j .idle) (tsAt s j) = true
      rw [getD_set' hlt]
      by_cases hjk : j = k
      · -- the slot the dispatcher creates is idle and not CANCELED, but `dropped idle t` says it is CANCELED
        exfalso
        subst hjk
        have hst := skip_stop s.ts s.i (by rw [← hk, ht.len]; exact hlt)
        rw [← hk] at hst
        have hidle : pc s j = .idle := by rw [hk]; exact create_idle h.f hdp
        rw [hidle] at hd
        have hcc : tsAt s j = .canceled := by simpa [dropped] using hd
        exact hst hcc
      · simp only [if_neg hjk]; exact hd
    | createG | createS | lock | wait | wake _ | relock | unlock | cancelG | joinG | cancelS | ret =>
      have : s'.ws = s.ws ∧ s'.ts = s.ts := by
        simp only [dStep] at hdd
        (repeat' split at hdd) <;> simp [roomTest, drainTest] at hdd <;> (try split at hdd) <;>
          (try subst hdd) <;> simp_all
      rw [pc_congr this.1, tsAt_congr this.2]; exact hd

theorem dropped_exec {s0 s : St} {ls : List Label} {j : Nat} (hg : s0.g = true) (h0 : Inv s0) (he : Exec s0 ls s)
    (hj : j < s0.ts.length) (hd : dropped (pc s0 j) (tsAt s0 j) = true) :
    dropped (pc s j) (tsAt s j) = true := by
  induction he with
  | nil => exact hd
  | snoc he' hs ih =>
    have hg1 := (exec_g he').trans hg
    have hl := (exec_params he').2.2.2.2
    exact dropped_step hg1 (inv_exec h0 he') (by rw [hl]; exact hj) ih hs

/-- a CANCELED slot is `dropped` (a worker in the read loop has state READING) -/
theorem dropped_of_canceled {s : St} {j : Nat} (ht : TInv s) (hc : tsAt s j = .canceled) :
    dropped (pc s j) (tsAt s j) = true := by
  have := ht.ok j
  rw [hc] at this ⊢
  revert this; cases pc s j <;> simp [okTS, dropped]

theorem dropped_not_reading {p : WP} {t : TS} (h : dropped p t = true) : p ≠ .reading := by
  intro hc; subst hc; simp [dropped] at h

end PdshVerif.Dsh.Sig
