import PdshVerif.Dsh.SignalsStepS

/-! # The abort path of the signals thread: `_fwd_signal(SIGINT)` reaches every READING host, then `exit(1)` -/
namespace PdshVerif.Dsh.Sig
open PdshVerif.Dsh.Fan (Variant DPC)

/-- the READING slots below `k`, in order -/
def readingUpTo (ts : List TS) (k : Nat) : List Nat := (List.range k).filter fun j => ts.getD j .new == .reading

/-- not (yet) on the abort path and not cancelled -/
def SPC.preAbort : SPC → Bool
  | .fwding _ | .exiting | .cancelled => false
  | _ => true

structure AInv (s : St) : Prop where
  fw : ∀ k, s.spc = .fwding k → s.fwds = readingUpTo s.ts k
  pre : s.spc.preAbort = true → s.fwds = []
  ex : s.exited.isSome = true → s.spc = .exiting ∧ s.exited = some 1

theorem ainv_init (v : Variant) (g sw : Bool) (f n : Nat) (b : Bool) (t0 : Nat) : AInv (init v g sw f n b t0) := by
  refine ⟨?_, ?_, ?_⟩ <;> simp [init]

theorem readingUpTo_congr {ts ts' : List TS} (h : ∀ j, ts'.getD j .new = ts.getD j .new) (k : Nat) :
    readingUpTo ts' k = readingUpTo ts k := by
  simp only [readingUpTo]; apply List.filter_congr; intro j _; rw [h]

theorem readingUpTo_succ (ts : List TS) (m : Nat) :
    readingUpTo ts (m + 1) = readingUpTo ts m ++ (if ts.getD m .new = .reading then [m] else []) := by
  simp only [readingUpTo, List.range_succ, List.filter_append, List.filter_cons, List.filter_nil]
  congr 1
  by_cases h : ts.getD m .new = .reading <;> simp

theorem noReading_succ' (ts : List TS) (k m : Nat) :
    noReading ts k (m + 1) = (noReading ts k m && (decide (m < k) || ts.getD m .new != .reading)) := by
  simp [noReading, List.range_succ, List.all_append]

/-- no READING slot in [k, m): the READING slots below m are those below k -/
theorem readingUpTo_skip (ts : List TS) (k : Nat) : ∀ m, k ≤ m → noReading ts k m = true →
    readingUpTo ts m = readingUpTo ts k := by
  intro m hkm
  induction m with
  | zero => intro _; have : k = 0 := by omega
            subst this; rfl
  | succ m ih =>
    intro hn
    by_cases hk : k = m + 1
    · subst hk; rfl
    · rw [noReading_succ'] at hn
      simp only [Bool.and_eq_true, Bool.or_eq_true, decide_eq_true_eq] at hn
      obtain ⟨hn1, hn2⟩ := hn
      have hne : ts.getD m .new ≠ .reading := by
        rcases hn2 with h | h
        · omega
        · simpa using h
      rw [readingUpTo_succ, if_neg hne, List.append_nil]
      exact ih (by omega) hn1

theorem readingUpTo_fwd (ts : List TS) (k h : Nat) (hk : k ≤ h) (hr : ts.getD h .new = .reading)
    (hn : noReading ts k h = true) : readingUpTo ts (h + 1) = readingUpTo ts k ++ [h] := by
  rw [readingUpTo_succ, if_pos hr, readingUpTo_skip ts k h hk hn]

/-- a worker step while the signals thread holds thd_mutex does not write `t[].state` -/
theorem w_no_write {s : St} {i : Nat} {a : WAct} {p q : WP} (hm : MInv s) (hthd : s.thd = .s)
    (hw : WFacts s i a p q) : wWrite s.g a p (tsAt s i) = tsAt s i := by
  obtain ⟨hi, hpci, hn, hgT, hgO⟩ := hw
  have ⟨tp, _⟩ := tbl_holdsT hn
  have hnl : a.locksT = false := by
    cases hc : a.locksT with
    | false => rfl
    | true => have := hgT hc; rw [hthd] at this; cases this
  have hnt : a ≠ .time := by
    intro hc
    have := (hm.thdW i).mpr (by rw [hpci]; exact tp.mpr (Or.inl hc))
    rw [hthd] at this; cases this
  cases a <;> cases p <;> simp_all [wWrite, WAct.locksT]

theorem ainv_step {s s' : St} {l : Label} (h : Inv s) (ha : AInv s) (hs : step s l = some s') : AInv s' := by
  have hx := step_live hs
  have ⟨a1, a2, a3⟩ := ha
  have hex : ∀ {t : St}, t.exited = s.exited → t.exited.isSome = true → False := by
    intro t ht hc; rw [ht, hx] at hc; cases hc
  cases l with
  | g a => rw [g_step_frame (step_wd hs)]; exact ⟨a1, a2, a3⟩
  | e a =>
    obtain ⟨hws, hts, _, _, _, _, _, _, _, hspc⟩ := e_step_frame (step_e hs)
    have hf : s'.fwds = s.fwds ∧ s'.exited = s.exited := by
      have hd := step_e hs
      cases a <;> simp only [eStep] at hd <;> (try split at hd) <;> simp at hd <;> subst hd <;> simp
    refine ⟨fun k hk => ?_, fun hp => ?_, fun hc => (hex hf.2 hc).elim⟩
    · rw [hf.1, hts]; exact a1 k (by rw [← hspc]; exact hk)
    · rw [hf.1]; exact a2 (by rw [← hspc]; exact hp)
  | d a =>
    have hd := step_d hs
    have hfr : s'.ts = s.ts ∧ s'.fwds = s.fwds ∧ s'.exited = s.exited ∧
        (s'.spc = s.spc ∨ (s.spc = .off ∧ s'.spc = .waiting) ∨ s'.spc = .cancelled) := by
      cases a <;> simp only [dStep] at hd <;> (try split at hd) <;> (try split at hd) <;>
        simp [roomTest, drainTest] at hd <;> (try split at hd) <;>
        (try (obtain ⟨_, hd⟩ := hd)) <;> (try subst hd) <;> simp_all
    obtain ⟨hts, hfw, hxx, hspc⟩ := hfr
    refine ⟨fun k hk => ?_, fun hp => ?_, fun hc => (hex hxx hc).elim⟩
    · rw [hfw, hts]
      rcases hspc with h1 | ⟨_, h1⟩ | h1
      · exact a1 k (by rw [← h1]; exact hk)
      · rw [h1] at hk; cases hk
      · rw [h1] at hk; cases hk
    · rw [hfw]
      rcases hspc with h1 | ⟨h0, _⟩ | h1
      · exact a2 (by rw [← h1]; exact hp)
      · exact a2 (by rw [h0]; rfl)
      · rw [h1] at hp; cases hp
  | w i a =>
    obtain ⟨p, q, hw, rfl⟩ := w_facts (step_w hs)
    have hlen : i < s.ts.length := by rw [h.t.len]; exact hw.hi
    refine ⟨fun k hk => ?_, fun hp => ?_, fun hc => ?_⟩
    · have hk' : s.spc = .fwding k := by simpa [wEffect_spc] using hk
      have hthd : s.thd = .s := h.m.thdS1 (by rw [hk']; rfl)
      have hnw := w_no_write h.m hthd hw
      have hf : (wEffect i { s with ws := s.ws.set i q, ts := s.ts.set i (wWrite s.g a p (tsAt s i)) } a).fwds = s.fwds := by
        cases a <;> rfl
      have hts' : ∀ j, tsAt (wEffect i { s with ws := s.ws.set i q, ts := s.ts.set i (wWrite s.g a p (tsAt s i)) } a) j =
          tsAt s j := by
        intro j
        rw [tsAt_after (s := s) (a := a) (q := q) (x := wWrite s.g a p (tsAt s i)) hlen j]; split
        · subst_vars; exact hnw
        · rfl
      exact hf.trans ((a1 k hk').trans (readingUpTo_congr hts' k).symm)
    · have hf : (wEffect i { s with ws := s.ws.set i q, ts := s.ts.set i (wWrite s.g a p (tsAt s i)) } a).fwds = s.fwds := by
        cases a <;> rfl
      rw [hf]; exact a2 (by simpa [wEffect_spc] using hp)
    · have : (wEffect i { s with ws := s.ws.set i q, ts := s.ts.set i (wWrite s.g a p (tsAt s i)) } a).exited = s.exited := by
        cases a <;> rfl
      exact (hex this hc).elim
  | s a =>
    have hd := step_s hs
    cases a with
    | fwd j =>
      simp only [sStep] at hd
      split at hd <;> (try split at hd) <;> simp at hd; subst hd
      rename_i k hw hg
      obtain ⟨hk, hr, hn⟩ := hg
      refine ⟨fun k' hk' => ?_, fun hp => ?_, fun hc => ?_⟩
      · have : k' = j + 1 := by simp at hk'; omega
        subst this
        show s.fwds ++ [j] = readingUpTo s.ts (j + 1)
        rw [a1 k hw, readingUpTo_fwd s.ts k j hk (getD_of_getElem?' hr) hn]
      · simp [SPC.preAbort] at hp
      · simp [hx] at hc
    | lockT =>
      simp only [sStep] at hd
      split at hd <;> simp at hd <;> subst hd
      · rename_i hw
        refine ⟨fun k hk => by simp at hk, fun _ => ?_, fun hc => by simp [hx] at hc⟩
        exact a2 (by rw [hw]; rfl)
      · rename_i hw
        refine ⟨fun k hk => ?_, fun hp => by simp [SPC.preAbort] at hp, fun hc => by simp [hx] at hc⟩
        have : k = 0 := by simp at hk; omega
        subst this
        show s.fwds = readingUpTo s.ts 0
        rw [a2 (by rw [hw]; rfl)]; rfl
    | lock =>
      simp only [sStep] at hd
      split at hd <;> simp at hd; subst hd
      rename_i hw
      refine ⟨fun k hk => by simp at hk, fun _ => ?_, fun hc => by simp [hx] at hc⟩
      exact a2 (by rw [hw]; rfl)
    | exit c =>
      simp only [sStep] at hd
      split at hd <;> (try split at hd) <;> simp at hd; subst hd
      rename_i hw _
      refine ⟨fun k hk => ?_, fun hp => ?_, fun _ => ⟨hw, rfl⟩⟩
      · have hk' : s.spc = .fwding k := hk
        rw [hw] at hk'; cases hk'
      · have hp' : s.spc.preAbort = true := hp
        rw [hw] at hp'; cases hp'
    | sigwait g =>
      simp only [sStep] at hd
      split at hd <;> (try split at hd) <;> simp at hd; subst hd
      rename_i hw _
      refine ⟨fun k hk => ?_, fun _ => a2 (by rw [hw]; rfl), fun hc => by simp [hx] at hc⟩
      cases g <;> cases hb : s.batch <;> simp [hb] at hk
    | time v =>
      simp only [sStep] at hd
      split at hd
      · split at hd <;> simp at hd <;> subst hd
        · rename_i hw
          refine ⟨fun k hk => ?_, fun _ => a2 (by rw [hw]; rfl), fun hc => by simp [hx] at hc⟩
          revert hk; simp only; split <;> simp
        · rename_i hw
          exact ⟨fun k hk => by simp at hk, fun _ => a2 (by rw [hw]; rfl), fun hc => by simp [hx] at hc⟩
        · rename_i k0 hw
          exact ⟨fun k hk => by simp at hk, fun _ => a2 (by rw [hw]; rfl), fun hc => by simp [hx] at hc⟩
        · rename_i k0 hw
          exact ⟨fun k hk => by simp at hk, fun _ => a2 (by rw [hw]; rfl), fun hc => by simp [hx] at hc⟩
        · rename_i hw
          exact ⟨fun k hk => by simp at hk, fun _ => a2 (by rw [hw]; rfl), fun hc => by simp [hx] at hc⟩
        · rename_i hw
          refine ⟨fun k hk => ?_, fun _ => a2 (by rw [hw]; rfl), fun hc => by simp [hx] at hc⟩
          revert hk; simp only; split <;> simp
      · simp at hd
    | unlockT =>
      simp only [sStep] at hd
      split at hd
      · simp only [Option.some.injEq] at hd; subst hd
        rename_i hw
        exact ⟨fun k hk => by simp at hk, fun _ => a2 (by rw [hw]; rfl), fun hc => by simp [hx] at hc⟩
      · simp only [Option.some.injEq] at hd; subst hd
        rename_i k0 hw
        exact ⟨fun k hk => by simp at hk, fun _ => a2 (by rw [hw]; rfl), fun hc => by simp [hx] at hc⟩
      · split at hd <;> simp at hd; subst hd
        exact ⟨fun k hk => by simp at hk, fun hp => by simp [SPC.preAbort] at hp, fun hc => by simp [hx] at hc⟩
      · simp at hd
    | unlock =>
      simp only [sStep] at hd
      split at hd <;> simp at hd; subst hd
      rename_i hw
      exact ⟨fun k hk => by simp at hk, fun _ => a2 (by rw [hw]; rfl), fun hc => by simp [hx] at hc⟩
    | stop =>
      simp only [sStep] at hd
      split at hd <;> simp at hd; subst hd
      rename_i hw
      exact ⟨fun k hk => by simp at hk, fun _ => a2 (by rw [hw]; rfl), fun hc => by simp [hx] at hc⟩
    | die =>
      simp only [sStep] at hd
      split at hd <;> simp at hd; subst hd
      exact ⟨fun k hk => by simp at hk, fun hp => by simp [SPC.preAbort] at hp, fun hc => by simp [hx] at hc⟩

theorem ainv_exec {s0 s : St} {ls : List Label} (h0 : Inv s0) (a0 : AInv s0) (he : Exec s0 ls s) : AInv s := by
  induction he with
  | nil => exact a0
  | snoc he' hs ih => exact ainv_step (inv_exec h0 he') ih hs

theorem ainv_reach {v g sw f n b t0 s} (h : Reach v g sw f n b t0 s) : AInv s := by
  obtain ⟨ls, he⟩ := h; exact ainv_exec (inv_init v g sw f n b t0) (ainv_init v g sw f n b t0) he

/-- rank of the abort path: the number of operations the signals thread still performs before `exit` -/
def arank (s : St) : Nat :=
  match s.spc with
  | .abLock => 2 * s.ts.length + 3
  | .fwding k => 2 * (s.ts.length - k) + 2
  | .exiting => 1
  | _ => 0

end PdshVerif.Dsh.Sig
