import PdshVerif.Dsh.FanRelay
import PdshVerif.Relay.Poll

/-!
# The fan-out protocol composed with the poll / read loop of `_rsh_thread` itself

`Dsh/FanRelay.lean` composes the protocol with the per-stream view of the relay and has to SAY when a worker may
leave its read loop (guard of `W i.destroyBegin`: "every polled stream of `i` has finished") -- a statement about
the loop that the composition takes for granted.  This file removes it.  The worker's loop is here the transition
system of property C05 (`Relay/Model.lean: pollStep`, the model of

    xpfds[0].fd = a->rcmd->fd;  xpfds[1].fd = a->dsh_sopt ? a->rcmd->efd : -1;
    while (xpfds[0].fd >= 0 || xpfds[1].fd >= 0) { xpoll; handlers of the reported descriptors }

executed against the real code by C05's correspondence): the state of worker `i` is `pollStep` folded over ITS
events (data arriving / the remote side closing on either descriptor, `xpoll` returns reporting any subset, short
reads, EAGAIN, EINTR -- the environment chooses all of them, in any order and any interleaving with the other
workers and the protocol), and the guard of `W i.destroyBegin` is nothing but the loop condition of the code,
`Worker.loopLeft` (both poll slots are -1) -- control flow, no claim about streams.  That the streams are then at
EOF with everything read and written is a THEOREM (`Relay/Poll.lean: pollRun_inv`, exported by Props/C05 as
`poll_loop_left_only_at_eof_of_both`), imported in `Props/C03.EndToEnd.returns_after_output_delivered_poll`.
-/
namespace PdshVerif.Dsh.FanPoll
open PdshVerif.Dsh PdshVerif.Relay

/-- the two poll slots at loop entry: without `-s` the second one is -1 from the start (never polled, never read) -/
def initW (sopt : Bool) (b0 : PBuf) : Worker PBuf :=
  if sopt then Worker.init b0
  else { Worker.init b0 with err := ({ buf := b0, pipe := [], weof := true, closed := true }, 0, []) }

/-- what the run is started with: label options, host names, the buffers `cbuf_create` returns, `-s` -/
structure Params where
  cfg : Cfg
  names : Nat → Bytes
  b0 : PBuf
  sopt : Bool

structure St where
  fan : FanG.St
  evs : List (Nat × PEv)            -- the poll-loop events of all workers, in their global order
  nofd : List Nat                   -- targets whose `rcmd_connect` failed: the loop is skipped

inductive Label | fan (l : FanG.Label) | pev (i : Nat) (e : PEv) | cfail (i : Nat)

/-- the events of worker `i`, in order -/
def evsOf (evs : List (Nat × PEv)) (i : Nat) : List PEv := (evs.filter (fun e => e.1 = i)).map (·.2)

/-- worker `i`'s loop state: a function of its own events only (per-thread `thd_t`, per-stream cbuf) -/
def worker (P : Params) (s : St) (i : Nat) : Worker PBuf :=
  (evsOf s.evs i).foldl (pollStep fifoOps P.cfg (P.names i)) (initW P.sopt P.b0)

/-- `while (xpfds[0].fd >= 0 || xpfds[1].fd >= 0)` is over, or was never entered (`a->rcmd->fd == -1`) -/
def loopOver (P : Params) (s : St) (i : Nat) : Bool := s.nofd.contains i || (worker P s i).loopLeft

def fanGuard (P : Params) (s : St) : FanG.Label → Bool
  | .w i .destroyBegin => loopOver P s i
  | _ => true

def step (P : Params) (s : St) : Label → Option St
  | .fan l =>
      if fanGuard P s l then (FanG.step s.fan l).map fun f => { s with fan := f } else none
  | .pev i e =>
      if FanG.pc s.fan i = .connected ∧ s.nofd.contains i = false then
        some { s with evs := s.evs ++ [(i, e)] }
      else none
  | .cfail i =>
      if FanG.pc s.fan i = .connected ∧ evsOf s.evs i = [] then some { s with nofd := i :: s.nofd } else none

def init (v : FanG.Variant) (f n : Nat) : St := { fan := FanG.init v f n, evs := [], nofd := [] }

inductive Exec (P : Params) (s0 : St) : List Label → St → Prop
  | nil : Exec P s0 [] s0
  | snoc {ls s l s'} : Exec P s0 ls s → step P s l = some s' → Exec P s0 (ls ++ [l]) s'

def run (P : Params) (s : St) : List Label → Option St
  | [] => some s
  | l :: ls => (step P s l).bind (run P · ls)

theorem exec_cons {P : Params} {s0 s1 s : St} {l : Label} {ls : List Label} (hs : step P s0 l = some s1)
    (he : Exec P s1 ls s) : Exec P s0 (l :: ls) s := by
  induction he with
  | nil => exact Exec.snoc (ls := []) Exec.nil hs
  | snoc _ hs' ih => exact Exec.snoc ih hs'

theorem exec_of_run {P : Params} : ∀ {ls : List Label} {s0 s : St}, run P s0 ls = some s → Exec P s0 ls s
  | [], s0, s, h => by simp [run] at h; subst h; exact Exec.nil
  | l :: ls, s0, s, h => by
      simp only [run] at h
      cases hs : step P s0 l with
      | none => rw [hs] at h; simp at h
      | some s1 => rw [hs] at h; exact exec_cons hs (exec_of_run (by simpa using h))

def projLabel : Label → Option FanG.Label
  | .fan l => some l
  | _ => none

theorem step_fan {P : Params} {s s' : St} {l : FanG.Label} (h : step P s (.fan l) = some s') :
    FanG.step s.fan l = some s'.fan ∧ s'.evs = s.evs ∧ fanGuard P s l = true ∧ s'.nofd = s.nofd := by
  simp only [step] at h
  split at h
  · rename_i hg
    cases hf : FanG.step s.fan l with
    | none => rw [hf] at h; simp at h
    | some f => rw [hf] at h; simp at h; subst h; exact ⟨rfl, rfl, hg, rfl⟩
  · simp at h

theorem step_pev {P : Params} {s s' : St} {i : Nat} {e : PEv} (h : step P s (.pev i e) = some s') :
    s'.fan = s.fan ∧ s'.evs = s.evs ++ [(i, e)] ∧ FanG.pc s.fan i = .connected ∧ s'.nofd = s.nofd := by
  simp only [step] at h
  split at h
  · rename_i hg; simp at h; subst h; exact ⟨rfl, rfl, hg.1, rfl⟩
  · simp at h

theorem step_cfail {P : Params} {s s' : St} {i : Nat} (h : step P s (.cfail i) = some s') :
    s'.fan = s.fan ∧ s'.evs = s.evs ∧ s'.nofd = i :: s.nofd := by
  simp only [step] at h
  split at h
  · simp at h; subst h; exact ⟨rfl, rfl, rfl⟩
  · simp at h

/-- poll-loop events forgotten, every execution is an execution of the protocol LTS: all of `Props/C03.G` and
    `Props/C04.G` applies -/
theorem fan_refinement {P : Params} {v f n} {ls : List Label} {s : St} (he : Exec P (init v f n) ls s) :
    FanG.Exec (FanG.init v f n) (ls.filterMap projLabel) s.fan := by
  induction he with
  | nil => exact FanG.Exec.nil
  | snoc he0 hs ih =>
    rename_i ls0 s0 l0 s1
    rw [List.filterMap_append]
    cases l0 with
    | fan l =>
      simp only [List.filterMap_cons, projLabel, List.filterMap_nil]
      exact FanG.Exec.snoc ih (step_fan hs).1
    | pev k e =>
      simp only [List.filterMap_cons, projLabel, List.filterMap_nil, List.append_nil]
      rw [(step_pev hs).1]; exact ih
    | cfail i =>
      simp only [List.filterMap_cons, projLabel, List.filterMap_nil, List.append_nil]
      rw [(step_cfail hs).1]; exact ih

theorem evsOf_append (evs : List (Nat × PEv)) (k i : Nat) (e : PEv) :
    evsOf (evs ++ [(k, e)]) i = if k = i then evsOf evs i ++ [e] else evsOf evs i := by
  simp only [evsOf, List.filter_append, List.map_append]
  by_cases h : k = i <;> simp [h]

/-- a worker that has left its loop (is tearing down or further) had its loop condition false when it left, and
    nothing has touched its loop state since -/
def Inv (P : Params) (s : St) : Prop :=
  ∀ i, FanRelay.pastLoop (FanG.pc s.fan i) = true → loopOver P s i = true

theorem inv_init (P : Params) (v f n) : Inv P (init v f n) := by
  intro i h
  simp only [init] at h
  rw [FanG.pc_init] at h; simp [FanRelay.pastLoop] at h

theorem inv_step {P : Params} {s s' : St} {l : Label} (hfi : FanG.Inv s.fan) (hi : Inv P s)
    (hs : step P s l = some s') : Inv P s' := by
  cases l with
  | pev k e =>
    obtain ⟨hf, he, hpc, hno⟩ := step_pev hs
    intro i hp
    rw [hf] at hp
    have hik : k ≠ i := by
      intro h; subst h; rw [hpc] at hp; simp [FanRelay.pastLoop] at hp
    have hw : worker P s' i = worker P s i := by simp [worker, he, evsOf_append, hik]
    have := hi i hp
    simpa [loopOver, hw, hno] using this
  | cfail k =>
    obtain ⟨hf, he, hno⟩ := step_cfail hs
    intro i hp
    rw [hf] at hp
    have hw : worker P s' i = worker P s i := by simp [worker, he]
    have := hi i hp
    simp only [loopOver, hw, hno, List.contains_cons, Bool.or_eq_true] at this ⊢
    rcases this with h | h
    · exact Or.inl (Or.inr h)
    · exact Or.inr h
  | fan fl =>
    obtain ⟨hf, he, hg, hno⟩ := step_fan hs
    intro i hp
    have hdr : loopOver P s' i = loopOver P s i := by simp [loopOver, worker, he, hno]
    rw [hdr]
    cases fl with
    | d a =>
      rcases FanG.pc_after_d hfi hf i with h | ⟨_, h2⟩
      · rw [h] at hp; exact hi i hp
      · rw [h2] at hp; simp [FanRelay.pastLoop] at hp
    | w k a =>
      obtain ⟨hpre, _, hs'⟩ := FanG.w_step_facts hf
      have hk := FanG.lt_of_getElem? hpre
      have hpk : FanG.pc s.fan k = a.pre := FanG.getD_of_getElem? hpre
      have hpc : FanG.pc s'.fan i = if i = k then a.post else FanG.pc s.fan i := by
        rw [hs']
        have : (FanG.wEffect k { s.fan with ws := s.fan.ws.set k a.post } a).ws = s.fan.ws.set k a.post := by
          cases a <;> rfl
        simp only [FanG.pc, this]; exact FanG.pc_set hk i
      rw [hpc] at hp
      by_cases hik : i = k
      · subst hik
        simp only [if_true] at hp
        cases a with
        | destroyBegin => simpa [fanGuard] using hg
        | connectBegin | connectEnd => simp [FanRelay.pastLoop, FanG.WAct.post] at hp
        | destroyEnd | lock | signal | unlock | unlockFirst | signalAfter =>
          exact hi i (by rw [hpk]; rfl)
      · simp only [hik, if_false] at hp; exact hi i hp

theorem inv_exec {P : Params} {v f n} {ls : List Label} {s : St} (he : Exec P (init v f n) ls s) : Inv P s := by
  induction he with
  | nil => exact inv_init P v f n
  | snoc he' hs ih =>
    exact inv_step (FanG.inv_exec (FanG.inv_init v f n) (fan_refinement he')) ih hs

/-- when dsh() has returned, the loop condition of every worker whose connect succeeded is false: both its poll
    slots are -1 -/
theorem final_loops_left {P : Params} {v f n} {ls : List Label} {s : St} (he : Exec P (init v f n) ls s)
    (hf : FanG.Final s.fan) (i : Nat) (hi : i < n) (hconn : s.nofd.contains i = false) :
    (worker P s i).loopLeft = true := by
  have hinv := inv_exec he
  have hfe := fan_refinement he
  have hfi := FanG.inv_exec (FanG.inv_init v f n) hfe
  have hlen : s.fan.ws.length = n := by have := (FanG.exec_params hfe).2.2; simpa [FanG.init] using this
  have hout : FanG.isOut (FanG.pc s.fan i) = true := hfi.fin (by rw [hf]; rfl) i (by omega)
  have hpast : FanRelay.pastLoop (FanG.pc s.fan i) = true := by
    revert hout; cases FanG.pc s.fan i <;> simp [FanG.isOut, FanRelay.pastLoop]
  have := hinv i hpast
  simp only [loopOver, hconn, Bool.false_or] at this
  exact this

/-- the invariant of `Relay/Poll.lean` holds at loop entry, with and without `-s` -/
theorem initW_inv (cfg : Cfg) (host : Bytes) (sopt : Bool) {sizeMeta : Nat} (hg : growthOk sizeMeta = true)
    {b0 : PBuf} (hb0 : mkFifoBuf sizeMeta = some b0) : WInv cfg host sizeMeta [] [] (initW sopt b0) := by
  have h := worker_init_inv cfg host hg hb0
  cases sopt with
  | true => simpa [initW] using h
  | false =>
    obtain ⟨ho, he, hlo, hle⟩ := h
    refine ⟨by simpa [initW] using ho, ⟨?_, ?_⟩, by simpa [initW, Worker.logOf, Worker.init] using hlo, ?_⟩
    · obtain ⟨x, hx, hb, hq, hout⟩ := he.1
      exact ⟨x, by simpa [initW, Worker.init] using hx, by simpa [initW, Worker.init] using hb,
        by simpa [initW, Worker.init] using hq, by simpa [initW, Worker.init] using hout⟩
    · intro _; simp [initW]
    · simp [initW, Worker.logOf, Worker.init]

end PdshVerif.Dsh.FanPoll
