import PdshVerif.Dsh.Fan
import PdshVerif.Dsh.FanG

/-!
# `Dsh/Fan.lean` is the sub-LTS of `Dsh/FanG.lean` in which every wake-up call is made inside the critical section

The pinned discipline (`lock; threadcount--; signal; unlock`) is one of the choices `FanG` leaves to each worker.
Formally: the obvious embedding of states and labels maps every step of `Fan` to a step of `FanG`, hence every
execution to an execution.  So whatever is proved about all `FanG` executions (Props/C03 `G.*`, Props/C04 `G.*`)
holds of the `Fan` executions -- in particular of the projections of the signal-extended LTS of C20
(`SignalsFan.lean`), which are `Fan` executions.
-/
namespace PdshVerif.Dsh.FanG
open PdshVerif.Dsh

def ofVariant : Fan.Variant → Variant
  | .ifWait => .ifWait | .whileWait => .whileWait

def ofW : Fan.W → W
  | .idle => .idle | .started => .started | .connecting => .connecting | .connected => .connected
  | .tearing => .tearing | .torn => .torn | .locked => .locked | .signaled => .signaled | .done => .done

def ofDPC : Fan.DPC → DPC
  | .top => .top | .wait => .wait | .parked => .parked | .woken => .woken | .create => .create | .unlock => .unlock
  | .dtop => .dtop | .dwait => .dwait | .dparked => .dparked | .dwoken => .dwoken | .dunlock => .dunlock
  | .finishing => .finishing | .returned => .returned

def ofOwner : Fan.Owner → Owner
  | .none => .none | .d => .d | .w i => .w i

def ofSt (s : Fan.St) : St :=
  { v := ofVariant s.v, f := s.f, i := s.i, dpc := ofDPC s.dpc, tc := s.tc, own := ofOwner s.own, sig := s.sig,
    ws := s.ws.map ofW }

def ofDAct : Fan.DAct → DAct
  | .lock => .lock | .wait => .wait | .wake sp => .wake sp | .relock => .relock | .create j => .create j
  | .unlock => .unlock | .ret => .ret

def ofWAct : Fan.WAct → WAct
  | .connectBegin => .connectBegin | .connectEnd => .connectEnd | .destroyBegin => .destroyBegin
  | .destroyEnd => .destroyEnd | .lock => .lock | .signal => .signal | .unlock => .unlock

def ofLabel : Fan.Label → Label
  | .d a => .d (ofDAct a)
  | .w i a => .w i (ofWAct a)

theorem ofSt_init (v : Fan.Variant) (f n : Nat) : ofSt (Fan.init v f n) = init (ofVariant v) f n := by
  simp only [ofSt, Fan.init, init, List.map_replicate, ofW, ofOwner]
  congr 1
  split <;> rfl

theorem isParked_of (d : Fan.DPC) : (ofDPC d).isParked = d.isParked := by cases d <;> rfl

theorem ofW_pre (a : Fan.WAct) : ofW a.pre = (ofWAct a).pre := by cases a <;> rfl
theorem ofW_post (a : Fan.WAct) : ofW a.post = (ofWAct a).post := by cases a <;> rfl

theorem ofW_inj {a b : Fan.W} (h : ofW a = ofW b) : a = b := by cases a <;> cases b <;> simp [ofW] at h ⊢

theorem ofSt_roomTest (s : Fan.St) : ofSt (Fan.roomTest s) = roomTest (ofSt s) := by
  unfold Fan.roomTest roomTest
  by_cases h : (s.f == s.tc) = true
  · have h' : ((ofSt s).f == (ofSt s).tc) = true := h
    rw [if_pos h, if_pos h']; rfl
  · have h' : ¬ ((ofSt s).f == (ofSt s).tc) = true := h
    rw [if_neg h, if_neg h']; rfl

theorem ofSt_drainTest (s : Fan.St) : ofSt (Fan.drainTest s) = drainTest (ofSt s) := by
  unfold Fan.drainTest drainTest
  by_cases h : s.tc > 0
  · have h' : (ofSt s).tc > 0 := h
    rw [if_pos h, if_pos h']; rfl
  · have h' : ¬ (ofSt s).tc > 0 := h
    rw [if_neg h, if_neg h']; rfl

theorem dpc_of (s : Fan.St) : (ofSt s).dpc = ofDPC s.dpc := rfl
theorem own_of (s : Fan.St) : (ofSt s).own = ofOwner s.own := rfl
theorem v_of (s : Fan.St) : (ofSt s).v = ofVariant s.v := rfl

/-- every step of the pinned-discipline LTS is a step of the general one -/
theorem step_of_fan {s s' : Fan.St} {l : Fan.Label} (h : Fan.step s l = some s') :
    step (ofSt s) (ofLabel l) = some (ofSt s') := by
  cases l with
  | d a =>
    cases a with
    | lock =>
      simp only [Fan.step] at h
      split at h
      · rename_i hd ho; simp only [Option.some.injEq] at h; subst h
        have hd' : (ofSt s).dpc = .top := by rw [dpc_of, hd]; rfl
        have ho' : (ofSt s).own = .none := by rw [own_of, ho]; rfl
        simp only [ofLabel, ofDAct, step, hd', ho']
        rw [ofSt_roomTest]; rfl
      · rename_i hd ho; simp only [Option.some.injEq] at h; subst h
        have hd' : (ofSt s).dpc = .dtop := by rw [dpc_of, hd]; rfl
        have ho' : (ofSt s).own = .none := by rw [own_of, ho]; rfl
        simp only [ofLabel, ofDAct, step, hd', ho']
        rw [ofSt_drainTest]; rfl
      · simp at h
    | wait =>
      simp only [Fan.step] at h
      split at h <;> simp only [Option.some.injEq, reduceCtorEq] at h
      · rename_i hd; subst h
        have hd' : (ofSt s).dpc = .wait := by rw [dpc_of, hd]; rfl
        simp only [ofLabel, ofDAct, step, hd']; rfl
      · rename_i hd; subst h
        have hd' : (ofSt s).dpc = .dwait := by rw [dpc_of, hd]; rfl
        simp only [ofLabel, ofDAct, step, hd']; rfl
    | wake sp =>
      simp only [Fan.step] at h
      split at h
      · rename_i hd
        split at h <;> simp only [Option.some.injEq, reduceCtorEq] at h
        rename_i hsp; subst h
        have hd' : (ofSt s).dpc = .parked := by rw [dpc_of, hd]; rfl
        have hsp' : (sp != (ofSt s).sig) = true := hsp
        simp only [ofLabel, ofDAct, step, hd', hsp', if_true]; rfl
      · rename_i hd
        split at h <;> simp only [Option.some.injEq, reduceCtorEq] at h
        rename_i hsp; subst h
        have hd' : (ofSt s).dpc = .dparked := by rw [dpc_of, hd]; rfl
        have hsp' : (sp != (ofSt s).sig) = true := hsp
        simp only [ofLabel, ofDAct, step, hd', hsp', if_true]; rfl
      · simp at h
    | relock =>
      simp only [Fan.step] at h
      split at h
      · rename_i hd ho
        have hd' : (ofSt s).dpc = .woken := by rw [dpc_of, hd]; rfl
        have ho' : (ofSt s).own = .none := by rw [own_of, ho]; rfl
        split at h
        · rename_i hv; simp only [Option.some.injEq] at h; subst h
          have hv' : (ofSt s).v = .ifWait := by rw [v_of, hv]; rfl
          simp only [ofLabel, ofDAct, step, hd', ho', hv']
          simp [ofSt, hv, ofVariant, ofDPC, ofOwner]
        · rename_i hv; simp only [Option.some.injEq] at h; subst h
          have hv' : (ofSt s).v = .whileWait := by rw [v_of, hv]; rfl
          simp only [ofLabel, ofDAct, step, hd', ho', hv']
          rw [ofSt_roomTest]
          simp [ofSt, hv, hd, ofVariant, ofDPC, ofOwner]
      · rename_i hd ho; simp only [Option.some.injEq] at h; subst h
        have hd' : (ofSt s).dpc = .dwoken := by rw [dpc_of, hd]; rfl
        have ho' : (ofSt s).own = .none := by rw [own_of, ho]; rfl
        simp only [ofLabel, ofDAct, step, hd', ho']
        rw [ofSt_drainTest]; rfl
      · simp at h
    | create j =>
      simp only [Fan.step] at h
      split at h
      · rename_i hd
        split at h <;> simp only [Option.some.injEq, reduceCtorEq] at h
        rename_i hc; subst h
        have hd' : (ofSt s).dpc = .create := by rw [dpc_of, hd]; rfl
        have hc' : j = (ofSt s).i ∧ (ofSt s).i < (ofSt s).ws.length := by
          refine ⟨hc.1, ?_⟩; show s.i < (s.ws.map ofW).length; simpa using hc.2
        simp only [ofLabel, ofDAct, step, hd', hc', and_self, if_true]
        congr 1
        simp only [ofSt, List.map_set, ofW, ofDPC]
      · simp at h
    | unlock =>
      simp only [Fan.step] at h
      split at h <;> simp only [Option.some.injEq, reduceCtorEq] at h
      · rename_i hd; subst h
        have hd' : (ofSt s).dpc = .unlock := by rw [dpc_of, hd]; rfl
        simp only [ofLabel, ofDAct, step, hd']
        congr 1
        simp only [ofSt, ofOwner, List.length_map]
        congr 1
        split <;> rfl
      · rename_i hd; subst h
        have hd' : (ofSt s).dpc = .dunlock := by rw [dpc_of, hd]; rfl
        simp only [ofLabel, ofDAct, step, hd']; rfl
    | ret =>
      simp only [Fan.step] at h
      split at h <;> simp only [Option.some.injEq, reduceCtorEq] at h
      rename_i hd; subst h
      have hd' : (ofSt s).dpc = .finishing := by rw [dpc_of, hd]; rfl
      simp only [ofLabel, ofDAct, step, hd']; rfl
  | w i a =>
    simp only [Fan.step] at h
    split at h
    · rename_i hg
      simp only [Option.some.injEq] at h; subst h
      obtain ⟨hpre, hlk⟩ := hg
      have hpre' : (ofSt s).ws[i]? = some (ofWAct a).pre := by
        show (s.ws.map ofW)[i]? = _
        rw [List.getElem?_map, hpre, ← ofW_pre]; rfl
      have hlk' : ofWAct a = .lock → (ofSt s).own = .none := by
        intro ha
        have : a = .lock := by cases a <;> simp [ofWAct] at ha ⊢
        rw [own_of, hlk this]; rfl
      have hg' : (ofSt s).ws[i]? = some (ofWAct a).pre ∧ (ofWAct a = .lock → (ofSt s).own = .none) := ⟨hpre', hlk'⟩
      simp only [ofLabel, step, hg']
      congr 1
      cases a
      case lock =>
        have := hlk rfl
        simp [Fan.wEffect, wEffect, ofWAct, ofSt, List.map_set, ofW, Fan.WAct.post, WAct.post, ofOwner, this]
      all_goals
        simp [Fan.wEffect, wEffect, ofWAct, ofSt, List.map_set, ofW, Fan.WAct.post, WAct.post, ofOwner, isParked_of]
    · simp at h

/-- every execution of `Fan` is an execution of `FanG` -/
theorem exec_of_fan {s0 s : Fan.St} {ls : List Fan.Label} (he : Fan.Exec s0 ls s) :
    Exec (ofSt s0) (ls.map ofLabel) (ofSt s) := by
  induction he with
  | nil => exact Exec.nil
  | snoc _ hs ih =>
    rw [List.map_append]
    exact Exec.snoc ih (step_of_fan hs)

theorem inflight_of (s : Fan.St) : inflight (ofSt s) = Fan.inflight s := by
  simp only [inflight, Fan.inflight, ofSt, List.countP_map]
  congr 1
  funext w; cases w <;> rfl

/-- reachable in the pinned-discipline LTS ⇒ (its image is) reachable in the general one -/
theorem reach_of_fan {v : Fan.Variant} {f n : Nat} {s : Fan.St} (h : Fan.Reach v f n s) :
    Reach (ofVariant v) f n (ofSt s) := by
  obtain ⟨ls, he⟩ := h
  exact ⟨ls.map ofLabel, by have := exec_of_fan he; rwa [ofSt_init] at this⟩

end PdshVerif.Dsh.FanG
