import PdshVerif.Dsh.Signals
import PdshVerif.Dsh.SignalsList

/-!
# C20 — the set-up code as steps: `_mask_signals(SIG_BLOCK)` … `_mask_signals(SIG_UNBLOCK)`, and what pdsh inherits

`Dsh/Signals.lean` starts where every thread of pdsh blocks SIGINT/SIGTSTP and the signals thread takes them with
sigwait(): a delivered signal is *pending* (`St.pend`) until `S.sigwait` takes it.  That is true of dsh.c only between
two calls: `_mask_signals (SIG_BLOCK)`, the first statement of dsh(), and `_mask_signals (SIG_UNBLOCK)` after the signals
thread was cancelled (and joined).  This file wraps the LTS (as `Dsh/SignalsOutput.lean` does for stdio) with

* `Inh`    what the process finds when pdsh starts: per signal, disposition SIG_IGN or not, blocked or not (`pdsh … &` from
           a script, nohup-like wrappers, `trap '' INT`, pdsh's own prompt mode: main.c sets SIGINT to SIG_IGN before it
           forks the run of each typed command);
* `MPh`    where dsh() is: `fresh` (nothing blocked by dsh() yet) → `mask` → `masked` → `unmask` → `unmasked`;
* the kernel's rule for a signal sent to the process: if some thread has it unblocked it is *acted on at once* — discarded
  when its disposition is SIG_IGN, else the default action (SIGINT ends the process, SIGTSTP stops it): `arrive` —;
  otherwise it is queued, **whatever its disposition** (Linux queues a blocked signal even when it is ignored; sigwait()
  dequeues it), and that is the `deliver` step of the LTS.
  The only thread that can have a signal unblocked is the initial one: every other thread of pdsh is created by it in the
  `masked` phase (the wrapper lets the dispatcher act only there, as dsh() does) and inherits its mask.

Proved (for every inherited state `inh`):
* `mexec_projects`          with the set-up steps and the signals that were acted on at once forgotten, a run is a run of
                            the LTS: every theorem of Props/C20.lean holds of it;
* `every_run_is_masked`     conversely every run of the LTS that has not returned is a run of the wrapper from `mask` on,
                            for EVERY `inh`, in which no signal was discarded, killed or stopped the process: what pdsh
                            inherits makes no difference while dsh() runs (the class of seeded change C20-12: there the
                            sigwait set depended on the inherited disposition);
* `queued_while_masked`     in the `masked` phase a delivered signal is pending afterwards and nothing else happened;
* `acted_on_only_outside`   a step that discards a signal or lets it take its default action starts in `fresh` or ends in `unmasked`;
* `unmasked_after_cancel`   `unmasked`: pthread_cancel(thread_sig) was called — by `cancel_requested_after_drain`
                            (Props/C20.lean: `signal_outside_sigwait_only_when_idle`) no host is connecting or running;
                            in `fresh` the dispatcher has not acted (by definition of `mstep`; that no other thread can
                            act before it was created is a guard of the LTS, not restated here).
-/
namespace PdshVerif.Dsh.Sig
open PdshVerif.Dsh.Fan (Variant DPC)

/-- what the process finds when pdsh starts -/
structure Inh where
  ign : Sg → Bool     -- disposition SIG_IGN
  blk : Sg → Bool     -- blocked in the initial thread

inductive MPh | fresh | masked | unmasked
deriving DecidableEq, Repr

structure MSt where
  p : St
  inh : Inh
  ph : MPh
  killed : Bool       -- SIGINT took its default action: the process is gone
  stops : Nat         -- SIGTSTP took its default action (the process was stopped, and continued)
  dropped : Nat       -- signals discarded: disposition SIG_IGN and a thread had them unblocked

inductive MLabel
  | proto (l : Label)     -- an operation of the LTS (or an environment step)
  | mask                  -- dsh(): `_mask_signals (SIG_BLOCK)`
  | unmask                -- dsh(): `_mask_signals (SIG_UNBLOCK)`
deriving DecidableEq

/-- does some thread have `g` unblocked?  (only the initial thread can: see the header) -/
def openFor (m : MSt) (g : Sg) : Bool :=
  match m.ph with
  | .fresh => !m.inh.blk g
  | .masked => false
  | .unmasked => true

/-- the signal reaches a thread that has it unblocked -/
def arrive (m : MSt) (g : Sg) : MSt :=
  if m.inh.ign g then { m with dropped := m.dropped + 1 }
  else match g with
    | .int => { m with killed := true }
    | .tstp => { m with stops := m.stops + 1 }

def mstep (m : MSt) (l : MLabel) : Option MSt :=
  if m.killed then none else
  match l with
  | .mask => match m.ph with
      | .fresh => some { m with ph := .masked }
      | .masked => some m                      -- blocking twice changes nothing
      | .unmasked => none
  | .unmask =>
      -- after pthread_cancel(thread_sig) (repaired shutdown: and the join); signals still pending are acted on now
      if m.ph = .masked ∧ m.p.exited = none ∧ m.p.scan = true ∧ (m.p.sw = true → m.p.spc = .cancelled) then
        some (m.p.pend.foldl arrive { m with ph := .unmasked })
      else none
  | .proto (.e (.deliver g)) =>
      if openFor m g then (if m.p.exited = none then some (arrive m g) else none)
      else (step m.p (.e (.deliver g))).map fun p' => { m with p := p' }
  | .proto (.d .ret) => if m.ph = .unmasked then (step m.p (.d .ret)).map fun p' => { m with p := p' } else none
  | .proto (.d a) => if m.ph = .masked then (step m.p (.d a)).map fun p' => { m with p := p' } else none
  | .proto l => (step m.p l).map fun p' => { m with p := p' }

def minit (inh : Inh) (v : Variant) (g sw : Bool) (f n : Nat) (b : Bool) (t0 : Nat) : MSt :=
  { p := init v g sw f n b t0, inh := inh, ph := .fresh, killed := false, stops := 0, dropped := 0 }

inductive MExec (m0 : MSt) : List MLabel → MSt → Prop
  | nil : MExec m0 [] m0
  | snoc {ls m l m'} : MExec m0 ls m → mstep m l = some m' → MExec m0 (ls ++ [l]) m'

def mrun (m : MSt) : List MLabel → Option MSt
  | [] => some m
  | l :: ls => (mstep m l).bind (mrun · ls)

/-- is the dispatcher runnable?  (what the harness calls runnable: the set-up calls are operations of the dispatcher) -/
def mdEnabled (m : MSt) : Bool :=
  (mstep m .mask).isSome && m.ph == .fresh || (mstep m .unmask).isSome ||
  (dActs m.p).any fun a => (mstep m (.proto (.d a))).isSome

/-! ## every step is a step of the LTS, or leaves its state alone -/

theorem foldl_arrive_p (l : List Sg) (m : MSt) : (l.foldl arrive m).p = m.p ∧ (l.foldl arrive m).ph = m.ph ∧
    (l.foldl arrive m).inh = m.inh := by
  induction l generalizing m with
  | nil => simp
  | cons g l ih =>
    simp only [List.foldl_cons]
    obtain ⟨h1, h2, h3⟩ := ih (arrive m g)
    rw [h1, h2, h3]
    unfold arrive
    split
    · simp
    · cases g <;> simp

theorem arrive_p (m : MSt) (g : Sg) : (arrive m g).p = m.p ∧ (arrive m g).ph = m.ph ∧ (arrive m g).inh = m.inh := by
  have := foldl_arrive_p [g] m
  simpa using this

/-- the label of the LTS a wrapper step stands for, if any -/
def protoOf (m : MSt) : MLabel → Option Label
  | .proto (.e (.deliver g)) => if openFor m g then none else some (.e (.deliver g))
  | .proto l => some l
  | _ => none

theorem mstep_cases {m m' : MSt} {l : MLabel} (hs : mstep m l = some m') :
    (protoOf m l = none ∧ m'.p = m.p) ∨ (∃ l0, protoOf m l = some l0 ∧ step m.p l0 = some m'.p) := by
  unfold mstep at hs
  split at hs
  · cases hs
  · cases l with
    | mask =>
      left
      simp only at hs
      split at hs <;> simp at hs <;> subst hs <;> simp [protoOf]
    | unmask =>
      left
      simp only at hs
      split at hs
      · simp at hs; subst hs
        exact ⟨rfl, (foldl_arrive_p _ _).1⟩
      · cases hs
    | proto l0 =>
      cases l0 with
      | e a =>
        cases a with
        | deliver g =>
          simp only at hs
          by_cases ho : openFor m g = true
          · left
            simp only [ho, if_true] at hs
            split at hs
            · simp at hs; subst hs
              exact ⟨by simp [protoOf, ho], (arrive_p m g).1⟩
            · cases hs
          · right
            simp [ho] at hs
            obtain ⟨p', hp, rfl⟩ := hs
            exact ⟨_, by simp [protoOf, ho], hp⟩
        | tick v =>
          right
          simp only [Option.map_eq_some_iff] at hs
          obtain ⟨p', hp, rfl⟩ := hs
          exact ⟨_, rfl, hp⟩
      | d a =>
        right
        cases a <;> simp only at hs <;> split at hs <;> (try cases hs) <;>
          (simp only [Option.map_eq_some_iff] at hs; obtain ⟨p', hp, rfl⟩ := hs; exact ⟨_, rfl, hp⟩)
      | w i a =>
        right
        simp only [Option.map_eq_some_iff] at hs
        obtain ⟨p', hp, rfl⟩ := hs
        exact ⟨_, rfl, hp⟩
      | s a =>
        right
        simp only [Option.map_eq_some_iff] at hs
        obtain ⟨p', hp, rfl⟩ := hs
        exact ⟨_, rfl, hp⟩
      | g a =>
        right
        simp only [Option.map_eq_some_iff] at hs
        obtain ⟨p', hp, rfl⟩ := hs
        exact ⟨_, rfl, hp⟩

/-- **a run of the wrapper is a run of the LTS** (set-up steps and signals acted on at once forgotten) -/
theorem mexec_projects {m0 m : MSt} {ls : List MLabel} (h : MExec m0 ls m) : ∃ ls', Exec m0.p ls' m.p := by
  induction h with
  | nil => exact ⟨[], .nil⟩
  | snoc _ hs ih =>
    obtain ⟨ls', he⟩ := ih
    rcases mstep_cases hs with ⟨_, hp⟩ | ⟨l0, _, hp⟩
    · exact ⟨ls', hp ▸ he⟩
    · exact ⟨ls' ++ [l0], .snoc he hp⟩

/-! ## while dsh() runs nothing is lost, whatever was inherited -/

/-- in the `masked` phase a delivered signal is queued for the signals thread — ignored or not, and whatever was blocked
    at start — and nothing else happens -/
theorem queued_while_masked {m m' : MSt} {g : Sg} (hp : m.ph = .masked)
    (hs : mstep m (.proto (.e (.deliver g))) = some m') :
    g ∈ m'.p.pend ∧ m'.killed = m.killed ∧ m'.stops = m.stops ∧ m'.dropped = m.dropped ∧ m'.ph = .masked := by
  unfold mstep at hs
  split at hs
  · cases hs
  · simp only [openFor, hp] at hs
    simp only [Bool.false_eq_true, if_false, Option.map_eq_some_iff] at hs
    obtain ⟨p', hp', rfl⟩ := hs
    refine ⟨?_, rfl, rfl, rfl, rfl⟩
    unfold step at hp'
    split at hp'
    · cases hp'
    · simp only [eStep, Option.some.injEq] at hp'
      subst hp'
      simp only
      split
      · assumption
      · simp

/-- a step that discards a signal, or lets one take its default action, starts in `fresh` or ends in `unmasked` -/
theorem acted_on_only_outside {m m' : MSt} {l : MLabel} (hs : mstep m l = some m')
    (hc : m'.killed ≠ m.killed ∨ m'.stops ≠ m.stops ∨ m'.dropped ≠ m.dropped) : m.ph = .fresh ∨ m'.ph = .unmasked := by
  cases hph : m.ph with
  | fresh => exact Or.inl rfl
  | unmasked =>
    right
    unfold mstep at hs
    split at hs
    · cases hs
    · cases l with
      | mask => simp [hph] at hs
      | unmask => simp [hph] at hs
      | proto l0 =>
        cases l0 with
        | e a =>
          cases a with
          | deliver g =>
            simp only [openFor, hph, if_true] at hs
            split at hs
            · simp at hs; subst hs; rw [(arrive_p m g).2.1]; exact hph
            · cases hs
          | tick v =>
            simp only [Option.map_eq_some_iff] at hs
            obtain ⟨p', _, rfl⟩ := hs
            exact hph
        | d a =>
          cases a <;> simp only [hph] at hs <;> (try simp at hs) <;>
            (try (obtain ⟨p', _, rfl⟩ := hs; first | exact hph | rfl))
        | w i a => simp only [Option.map_eq_some_iff] at hs; obtain ⟨p', _, rfl⟩ := hs; exact hph
        | s a => simp only [Option.map_eq_some_iff] at hs; obtain ⟨p', _, rfl⟩ := hs; exact hph
        | g a => simp only [Option.map_eq_some_iff] at hs; obtain ⟨p', _, rfl⟩ := hs; exact hph
  | masked =>
    unfold mstep at hs
    split at hs
    · cases hs
    · cases l with
      | mask => simp [hph] at hs; subst hs; simp at hc
      | unmask =>
        right
        simp only at hs
        split at hs
        · simp at hs; subst hs; exact (foldl_arrive_p _ _).2.1
        · cases hs
      | proto l0 =>
        exfalso
        cases l0 with
        | e a =>
          cases a with
          | deliver g =>
            simp only [openFor, hph, Bool.false_eq_true, if_false, Option.map_eq_some_iff] at hs
            obtain ⟨p', _, rfl⟩ := hs
            simp at hc
          | tick v =>
            simp only [Option.map_eq_some_iff] at hs
            obtain ⟨p', _, rfl⟩ := hs
            simp at hc
        | d a =>
          cases a <;> simp only [hph] at hs <;> (try simp at hs) <;>
            (try (obtain ⟨p', _, rfl⟩ := hs; simp at hc))
        | w i a => simp only [Option.map_eq_some_iff] at hs; obtain ⟨p', _, rfl⟩ := hs; simp at hc
        | s a => simp only [Option.map_eq_some_iff] at hs; obtain ⟨p', _, rfl⟩ := hs; simp at hc
        | g a => simp only [Option.map_eq_some_iff] at hs; obtain ⟨p', _, rfl⟩ := hs; simp at hc

/-! ## the phases and the protocol -/

/-- pthread_cancel(thread_sig) is not taken back -/
theorem scan_mono {s s' : St} {l : Label} (hs : step s l = some s') (hc : s.scan = true) : s'.scan = true := by
  cases l with
  | d a =>
    have hd := step_d hs
    cases a <;> simp only [dStep] at hd <;> (repeat' split at hd) <;> simp [roomTest, drainTest] at hd <;>
      (try split at hd) <;> (try (obtain ⟨_, hd⟩ := hd)) <;> (try subst hd) <;> simp_all
  | w i a =>
    obtain ⟨p, q, _, rfl⟩ := w_facts (step_w hs)
    cases a <;> exact hc
  | e a =>
    have hd := step_e hs
    cases a <;> simp only [eStep] at hd <;> (try split at hd) <;> simp at hd <;> subst hd <;> exact hc
  | g a => rw [g_step_frame (step_wd hs)]; exact hc
  | s a =>
    have hd := step_s hs
    cases a <;> simp only [sStep] at hd <;> (repeat' split at hd) <;> simp at hd <;>
      (try (obtain ⟨_, hd⟩ := hd)) <;> (try subst hd) <;> simp_all

theorem mstep_ph {m m' : MSt} {l0 : Label} (hs : mstep m (.proto l0) = some m') : m'.ph = m.ph := by
  unfold mstep at hs
  split at hs
  · cases hs
  · cases l0 with
    | e a =>
      cases a with
      | deliver g =>
        simp only at hs
        split at hs
        · split at hs
          · simp at hs; subst hs; exact (arrive_p m g).2.1
          · cases hs
        · simp only [Option.map_eq_some_iff] at hs; obtain ⟨p', _, rfl⟩ := hs; rfl
      | tick v => simp only [Option.map_eq_some_iff] at hs; obtain ⟨p', _, rfl⟩ := hs; rfl
    | d a =>
      cases a <;> simp only at hs <;> split at hs <;> (try cases hs) <;>
        (simp only [Option.map_eq_some_iff] at hs; obtain ⟨p', _, rfl⟩ := hs; rfl)
    | w i a => simp only [Option.map_eq_some_iff] at hs; obtain ⟨p', _, rfl⟩ := hs; rfl
    | s a => simp only [Option.map_eq_some_iff] at hs; obtain ⟨p', _, rfl⟩ := hs; rfl
    | g a => simp only [Option.map_eq_some_iff] at hs; obtain ⟨p', _, rfl⟩ := hs; rfl

/-- `unmasked`: dsh() has asked the signals thread to end -/
theorem unmasked_after_cancel {m0 m : MSt} {ls : List MLabel} (h : MExec m0 ls m) (h0 : m0.ph = .fresh)
    (hu : m.ph = .unmasked) : m.p.scan = true := by
  induction h with
  | nil => rw [h0] at hu; cases hu
  | @snoc ls m1 l m2 _ hs ih =>
    have hc := mstep_cases hs
    cases l with
    | mask =>
      unfold mstep at hs
      split at hs
      · cases hs
      · simp only at hs
        split at hs <;> simp at hs <;> subst hs
        · cases hu
        · exact ih hu
    | unmask =>
      unfold mstep at hs
      split at hs
      · cases hs
      · simp only at hs
        split at hs
        · rename_i hg
          simp at hs; subst hs
          rw [(foldl_arrive_p _ _).1]; exact hg.2.2.1
        · cases hs
    | proto l0 =>
      have hph := mstep_ph hs
      have hu1 : m1.ph = .unmasked := hph ▸ hu
      rcases hc with ⟨_, hp⟩ | ⟨l1, _, hp⟩
      · rw [hp]; exact ih hu1
      · exact scan_mono hp (ih hu1)

/-! ## every run of the LTS is a run of the wrapper, whatever was inherited -/

/-- **what pdsh inherits makes no difference while dsh() runs**: a run of the LTS in which dsh() has not returned is, for
    every inherited state, a run of the wrapper from `mask` on, in the `masked` phase throughout, in which no signal was
    discarded and none took its default action: every signal sent to pdsh was queued for the signals thread -/
theorem every_run_is_masked (inh : Inh) {v : Variant} {g sw : Bool} {f n t0 : Nat} {b : Bool} {ls : List Label} {s : St}
    (h : Exec (init v g sw f n b t0) ls s) (hr : ∀ l ∈ ls, l ≠ .d .ret) :
    MExec (minit inh v g sw f n b t0) (.mask :: ls.map .proto)
      { p := s, inh := inh, ph := .masked, killed := false, stops := 0, dropped := 0 } := by
  induction h with
  | nil =>
    have : MExec (minit inh v g sw f n b t0) ([] ++ [.mask])
        { p := init v g sw f n b t0, inh := inh, ph := .masked, killed := false, stops := 0, dropped := 0 } :=
      .snoc .nil (by simp [mstep, minit])
    simpa using this
  | @snoc ls s l s' _ hs ih =>
    have ih' := ih (fun l hl => hr l (by simp [hl]))
    have hl : l ≠ .d .ret := hr l (by simp)
    have : mstep { p := s, inh := inh, ph := .masked, killed := false, stops := 0, dropped := 0 } (.proto l) =
        some { p := s', inh := inh, ph := .masked, killed := false, stops := 0, dropped := 0 } := by
      unfold mstep
      simp only [Bool.false_eq_true, if_false]
      cases l with
      | e a =>
        cases a with
        | deliver g => simp [openFor, hs]
        | tick v => simp [hs]
      | d a => cases a <;> first | exact absurd rfl hl | simp [hs]
      | w i a => simp [hs]
      | s a => simp [hs]
      | g a => simp [hs]
    have := MExec.snoc ih' this
    simpa [List.map_append] using this

end PdshVerif.Dsh.Sig
