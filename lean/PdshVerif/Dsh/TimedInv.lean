import PdshVerif.Dsh.TimedHost
import PdshVerif.Dsh.FanGBound

/-! # Timed LTS: the global invariant and its preservation -/
namespace PdshVerif.Dsh.Timed
open PdshVerif.Dsh

/-- how a worker's program counter (Fan) and its target's phase (Timed) go together -/
def phOK : FanG.W → Phase → Prop
  | .idle, ph => ph = .new
  | .started, ph => ph = .rcmd
  | .connecting, ph => ph = .connecting
  | .connected, ph => ph = .reading ∨ ph = .finished
  | _, ph => ph = .finished

structure TInv (s : St) : Prop where
  fan : FanG.Inv s.fan
  lenH : s.hs.length = s.fan.ws.length
  sync : ∀ i, i < s.hs.length → phOK (FanG.pc s.fan i) (s.host i).ph
  nowWake : s.now ≤ s.wake
  wakeNow : s.wake ≤ s.now + WDOG_POLL
  hosts : ∀ i, i < s.hs.length → HostInv s.cfg s.now s.wake (s.host i)

theorem host_init (v f c scripts) {i : Nat} (hi : i < scripts.length) :
    (init v f c scripts).host i = initHost c (scripts.getD i defaultScript) := by
  simp [St.host, init, List.getD_eq_getElem?_getD, List.getElem?_map, List.getElem?_eq_getElem hi]

theorem tinv_init (v : FanG.Variant) (f : Nat) (c : Cfg) (scripts : List Script) : TInv (init v f c scripts) := by
  refine { fan := FanG.inv_init v f scripts.length, lenH := by simp [init, FanG.init], sync := ?_,
           nowWake := by simp [init], wakeNow := by simp [init], hosts := ?_ }
  · intro i hi
    have hi' : i < scripts.length := by simpa [init] using hi
    rw [host_init v f c scripts hi']
    show phOK (FanG.pc (FanG.init v f scripts.length) i) _
    rw [FanG.pc_init]; simp [phOK, initHost]
  · intro i hi
    have hi' : i < scripts.length := by simpa [init] using hi
    rw [host_init v f c scripts hi']
    exact hostInv_init _ _ _ _

/-! ## program counter from phase (the converse reading of `phOK`) -/

theorem pc_of_rcmd {w : FanG.W} {ph : Phase} (h : phOK w ph) (hp : ph = .rcmd) : w = .started := by
  subst hp; cases w <;> simp [phOK] at h ⊢
theorem pc_of_connecting {w : FanG.W} {ph : Phase} (h : phOK w ph) (hp : ph = .connecting) : w = .connecting := by
  subst hp; cases w <;> simp [phOK] at h ⊢
theorem pc_of_reading {w : FanG.W} {ph : Phase} (h : phOK w ph) (hp : ph = .reading) : w = .connected := by
  subst hp; cases w <;> simp [phOK] at h ⊢
theorem pc_of_new {w : FanG.W} {ph : Phase} (h : phOK w ph) (hp : ph = .new) : w = .idle := by
  subst hp; cases w <;> simp [phOK] at h ⊢

/-! ## what blocks the clock -/

theorem mem_cands_scan (s : St) : Label.scan ∈ cands s := by simp [cands]

theorem mem_cands_w (s : St) {i : Nat} (hi : i < s.hs.length) (a : FanG.WAct) :
    Label.fan (.w i a) ∈ cands s := by
  simp only [cands, List.mem_cons, List.mem_append, List.mem_flatMap, List.mem_range]
  right
  refine ⟨i, hi, Or.inr ?_⟩
  simp only [List.mem_map]
  exact ⟨a, by cases a <;> simp [FanG.wActs], rfl⟩

theorem mem_cands_wake (s : St) {i : Nat} (hi : i < s.hs.length) : Label.wake i ∈ cands s := by
  simp only [cands, List.mem_cons, List.mem_append, List.mem_flatMap, List.mem_range]
  right
  exact ⟨i, hi, Or.inl rfl⟩

theorem quiescent_none {s : St} (hq : quiescent s = true) {l : Label} (hl : l ∈ cands s) : dstep s l = none := by
  simp only [quiescent, List.all_eq_true] at hq
  have := hq l hl
  cases h : dstep s l with
  | none => rfl
  | some x => rw [h] at this; simp at this

/-- a worker label is enabled as soon as its Fan step is and the timed guard holds -/
theorem dstep_fan_some {s : St} {l : FanG.Label} {f' : FanG.St} (hf : FanG.step s.fan l = some f')
    (hg : fanGuard s l = true) : (dstep s (.fan l)).isSome = true := by
  simp only [dstep, hf, hg, if_true]; split <;> rfl

theorem fan_step_w_some {f : FanG.St} {i : Nat} {a : FanG.WAct} (hpc : FanG.pc f i = a.pre) (ha : a ≠ .lock) :
    ∃ f', FanG.step f (.w i a) = some f' := by
  have hne : a.pre ≠ .idle := by cases a <;> simp [FanG.WAct.pre]
  have h1 := FanG.getElem?_of_getD (w := a.pre) hpc hne
  exact ⟨_, by simp only [FanG.step]; exact if_pos ⟨h1, fun h => absurd h ha⟩⟩

/-- when a second passes the watchdog is asleep: either its poll instant lies ahead, or (repair variant) it has
    been stopped — but then dsh() is about to return, which would come first -/
theorem tick_lt_wake {s s' : St} (h : step s .tick = some s') : s.now < s.wake := by
  obtain ⟨hq, _⟩ := step_tick_facts h
  have hnr := step_tick_notret h
  have := quiescent_none hq (mem_cands_scan s)
  simp only [dstep] at this
  split at this
  · simp at this
  · rename_i hg
    cases hlt : decide (s.now < s.wake) with
    | true => exact of_decide_eq_true hlt
    | false =>
      exfalso
      have hle : s.wake ≤ s.now := by have := of_decide_eq_false hlt; omega
      have hst : s.cfg.stopWdog = true ∧ (s.fan.dpc = .finishing ∨ s.fan.dpc = .returned) := by
        cases hd : decide (s.cfg.stopWdog = true ∧ (s.fan.dpc = .finishing ∨ s.fan.dpc = .returned)) with
        | true => exact of_decide_eq_true hd
        | false => exact absurd ⟨hle, of_decide_eq_false hd⟩ hg
      rcases hst.2 with hfin | hret
      · -- the return of dsh() is enabled: the clock cannot advance
        have hf : FanG.step s.fan (.d .ret) = some { s.fan with dpc := .returned } := by simp [FanG.step, hfin]
        have hen := dstep_fan_some (s := s) hf (by simp [fanGuard])
        have hm : Label.fan (.d .ret) ∈ cands s := by
          simp only [cands, List.mem_cons, List.mem_append, List.mem_map]
          left; right; exact ⟨.ret, by simp [FanG.dActs], rfl⟩
        rw [quiescent_none hq hm] at hen; cases hen
      · exact hnr hret

/-! ## preservation -/

theorem tinv_step {s s' : St} {l : Label} (hi : TInv s) (h : step s l = some s') : TInv s' := by
  have hpar := step_params h
  have hloc : ∀ j, j < s.hs.length → s'.host j = hostStep s.cfg (s.script j) s.now (s.host j) (localOf j l) :=
    fun j hj => host_local' h hj
  cases l with
  | fan fl =>
    obtain ⟨hfs, hg, he⟩ := dstep_fan_facts (by simpa [step] using h)
    have hnow : s'.now = s.now := by rw [he]
    have hwake : s'.wake = s.wake := by rw [he]
    have hfi := FanG.inv_step hi.fan hfs
    have hlen := (FanG.step_params hfs).2.2
    -- per host: new program counter, new record
    have key : ∀ j, j < s.hs.length →
        phOK (FanG.pc s'.fan j) (s'.host j).ph ∧ HostInv s.cfg s.now s.wake (s'.host j) := by
      intro j hj
      have hsy := hi.sync j hj
      have hho := hi.hosts j hj
      rw [hloc j hj]
      cases fl with
      | d a =>
        obtain ⟨hcr, hpc⟩ := FanG.pc_step_d hi.fan hfs
        rw [hpc j]
        cases a with
        | create k =>
          obtain ⟨_, _, hidle⟩ := hcr k rfl
          simp only [localOf, fanLocal]
          by_cases hkj : k = j
          · subst hkj
            rw [hidle] at hsy
            simp only [if_true]
            exact ⟨by simp [phOK, hostStep], hostInv_create hho hsy⟩
          · have : ¬ j = k := fun hc => hkj hc.symm
            simp only [hkj, this, if_false, hostStep_other]; exact ⟨hsy, hho⟩
        | lock | wait | wake _ | relock | unlock | ret =>
          simp only [localOf, fanLocal, hostStep_other]; exact ⟨hsy, hho⟩
      | w k a =>
        obtain ⟨hpre, hk, hpc⟩ := FanG.pc_step_w hfs
        rw [hpc j]
        by_cases hkj : k = j
        · subst hkj
          rw [hpre] at hsy
          simp only [if_true]
          cases a with
          | connectBegin =>
            simp only [localOf, fanLocal, if_true]
            have hph : (s.host k).ph = .rcmd := by simpa [phOK, FanG.WAct.pre] using hsy
            exact ⟨by simp [phOK, hostStep, FanG.WAct.post], hostInv_connBegin hho hph hi.wakeNow⟩
          | connectEnd =>
            simp only [localOf, fanLocal, if_true]
            have hph : (s.host k).ph = .connecting := by simpa [phOK, FanG.WAct.pre] using hsy
            obtain ⟨h1, h2⟩ := hostInv_connEnd (sc := s.script k) hho hph hi.wakeNow
            refine ⟨?_, h1⟩
            rcases h2 with h2 | h2 | ⟨hc, hint⟩
            · simp [phOK, FanG.WAct.post, h2]
            · simp [phOK, FanG.WAct.post, h2]
            · -- a hanging connect cannot end without an interrupt
              simp [fanGuard, hint, connReady, hc] at hg
          | destroyBegin =>
            have hfin : (s.host k).ph = .finished := by have := hg; simp [fanGuard] at this; exact this.1
            simp only [localOf, fanLocal, hostStep_other]
            exact ⟨by simp [phOK, FanG.WAct.post, hfin], hho⟩
          | destroyEnd =>
            simp only [localOf, fanLocal, if_true]
            have hfin : (s.host k).ph = .finished := by simpa [phOK, FanG.WAct.pre] using hsy
            obtain ⟨h1, h2, _⟩ := hostInv_destEnd (sc := s.script k) hho hfin
            exact ⟨by simp [phOK, FanG.WAct.post, h2], h1⟩
          | lock | signal | unlock | unlockFirst | signalAfter =>
            simp only [localOf, fanLocal, hostStep_other]
            have hfin : (s.host k).ph = .finished := by simpa [phOK, FanG.WAct.pre] using hsy
            exact ⟨by simp [phOK, FanG.WAct.post, hfin], hho⟩
        · have hjk : ¬ j = k := fun hc => hkj hc.symm
          have hother : localOf j (.fan (.w k a)) = .other := by
            simp only [localOf]; cases a <;> simp [fanLocal, hkj]
          rw [hother]; simp only [hjk, if_false, hostStep_other]; exact ⟨hsy, hho⟩
    refine { fan := hfi, lenH := by rw [hpar.2.2, hlen]; exact hi.lenH, sync := ?_,
             nowWake := by rw [hnow, hwake]; exact hi.nowWake,
             wakeNow := by rw [hnow, hwake]; exact hi.wakeNow, hosts := ?_ }
    · intro j hj; rw [hpar.2.2] at hj; exact (key j hj).1
    · intro j hj; rw [hpar.2.2] at hj; rw [hpar.1, hnow, hwake]; exact (key j hj).2
  | wake k =>
    obtain ⟨hk, hph, _, he⟩ := dstep_wake_facts (by simpa [step] using h)
    have hfan : s'.fan = s.fan := by rw [he]
    have hnow : s'.now = s.now := by rw [he]
    have hwake : s'.wake = s.wake := by rw [he]
    have key : ∀ j, j < s.hs.length →
        phOK (FanG.pc s.fan j) (s'.host j).ph ∧ HostInv s.cfg s.now s.wake (s'.host j) := by
      intro j hj
      rw [hloc j hj]
      by_cases hkj : k = j
      · subst hkj
        simp only [localOf, if_true]
        obtain ⟨h1, h2⟩ := hostInv_wake (sc := s.script k) (hi.hosts k hj) hph hi.wakeNow
        have hpc := pc_of_reading (hi.sync k hj) hph
        refine ⟨?_, h1⟩
        rw [hpc]; rcases h2 with h2 | h2 <;> simp [phOK, h2]
      · simp only [localOf, hkj, if_false, hostStep_other]; exact ⟨hi.sync j hj, hi.hosts j hj⟩
    refine { fan := by rw [hfan]; exact hi.fan, lenH := by rw [hpar.2.2, hfan]; exact hi.lenH, sync := ?_,
             nowWake := by rw [hnow, hwake]; exact hi.nowWake,
             wakeNow := by rw [hnow, hwake]; exact hi.wakeNow, hosts := ?_ }
    · intro j hj; rw [hpar.2.2] at hj; rw [hfan]; exact (key j hj).1
    · intro j hj; rw [hpar.2.2] at hj; rw [hpar.1, hnow, hwake]; exact (key j hj).2
  | scan =>
    obtain ⟨hw, he⟩ := dstep_scan_facts (by simpa [step] using h)
    have hfan : s'.fan = s.fan := by rw [he]
    have hnow : s'.now = s.now := by rw [he]
    have hwake : s'.wake = s.now + WDOG_POLL := by rw [he]
    have heq : s.now = s.wake := Nat.le_antisymm hi.nowWake hw
    refine { fan := by rw [hfan]; exact hi.fan, lenH := by rw [hpar.2.2, hfan]; exact hi.lenH, sync := ?_,
             nowWake := by rw [hnow, hwake]; omega, wakeNow := by rw [hnow, hwake]; omega, hosts := ?_ }
    · intro j hj; rw [hpar.2.2] at hj; rw [hfan, hloc j hj]
      have := hi.sync j hj
      simp only [localOf, hostStep]; split <;> exact this
    · intro j hj; rw [hpar.2.2] at hj; rw [hpar.1, hnow, hwake, hloc j hj]
      exact hostInv_scan (hi.hosts j hj) heq
  | tick =>
    obtain ⟨hq, he⟩ := step_tick_facts h
    have hfan : s'.fan = s.fan := by rw [he]
    have hnow : s'.now = s.now + 1 := by rw [he]
    have hwake : s'.wake = s.wake := by rw [he]
    have hlt : s.now < s.wake := tick_lt_wake h
    refine { fan := by rw [hfan]; exact hi.fan, lenH := by rw [hpar.2.2, hfan]; exact hi.lenH, sync := ?_,
             nowWake := by rw [hnow, hwake]; omega, wakeNow := by rw [hnow, hwake]; have := hi.wakeNow; omega,
             hosts := ?_ }
    · intro j hj; rw [hpar.2.2] at hj; rw [hfan, hloc j hj]; exact hi.sync j hj
    · intro j hj; rw [hpar.2.2] at hj; rw [hpar.1, hnow, hwake, hloc j hj]
      simp only [localOf, hostStep_other]
      have hsy := hi.sync j hj
      apply hostInv_tick (hi.hosts j hj)
      · -- a worker that has not yet entered connect would run first
        intro hph
        have hpc := pc_of_rcmd hsy hph
        obtain ⟨f', hf⟩ := fan_step_w_some (a := .connectBegin) (by rw [hpc]; rfl) (by simp)
        have := dstep_fan_some (s := s) hf (by simp [fanGuard])
        rw [quiescent_none hq (mem_cands_w s hj _)] at this; cases this
      · -- an interrupted connect returns first
        rintro ⟨hph, hint⟩
        have hpc := pc_of_connecting hsy hph
        obtain ⟨f', hf⟩ := fan_step_w_some (a := .connectEnd) (by rw [hpc]; rfl) (by simp)
        have := dstep_fan_some (s := s) hf (by simp [fanGuard, hint])
        rw [quiescent_none hq (mem_cands_w s hj _)] at this; cases this
      · -- an interrupted xpoll returns first
        rintro ⟨hph, hint⟩
        have : (dstep s (.wake j)).isSome = true := by simp [dstep, hj, hph, hint]
        rw [quiescent_none hq (mem_cands_wake s hj)] at this; cases this

theorem tinv_exec {s0 s : St} {ls : List Label} (h0 : TInv s0) (he : Exec s0 ls s) : TInv s := by
  induction he with
  | nil => exact h0
  | snoc _ hs ih => exact tinv_step ih hs

theorem tinv_reach {v f c scripts s} (h : Reach v f c scripts s) : TInv s := by
  obtain ⟨ls, he⟩ := h; exact tinv_exec (tinv_init v f c scripts) he

end PdshVerif.Dsh.Timed
