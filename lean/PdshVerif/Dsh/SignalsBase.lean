import PdshVerif.Dsh.Signals

/-! # Executions of the signal-extended LTS, list facts, shape of the steps -/
namespace PdshVerif.Dsh.Sig
open PdshVerif.Dsh.Fan (Variant DPC)

/-! ## list facts (any element type) -/

theorem getElem?_of_getD' {α} {l : List α} {j : Nat} {d a : α} (h : l.getD j d = a) (hne : a ≠ d) :
    l[j]? = some a := by
  rw [List.getD_eq_getElem?_getD] at h
  cases hj : l[j]? with
  | none => rw [hj] at h; exact absurd h.symm hne
  | some x => rw [hj] at h; simp at h; rw [h]

theorem getElem?_of_getD_lt {α} {l : List α} {j : Nat} {d a : α} (hj : j < l.length) (h : l.getD j d = a) :
    l[j]? = some a := by
  rw [List.getD_eq_getElem?_getD, List.getElem?_eq_getElem hj] at h
  rw [List.getElem?_eq_getElem hj]; simpa using h

theorem getD_of_getElem?' {α} {l : List α} {j : Nat} {d a : α} (h : l[j]? = some a) : l.getD j d = a := by
  rw [List.getD_eq_getElem?_getD, h]; rfl

theorem lt_of_getElem?' {α} {l : List α} {j : Nat} {a : α} (h : l[j]? = some a) : j < l.length := by
  rw [List.getElem?_eq_some_iff] at h; exact h.1

theorem getD_set' {α} {l : List α} {i j : Nat} {a d : α} (hi : i < l.length) :
    (l.set i a).getD j d = if j = i then a else l.getD j d := by
  rw [List.getD_eq_getElem?_getD, List.getD_eq_getElem?_getD, List.getElem?_set]
  by_cases h : i = j
  · subst h; simp [hi]
  · have : ¬ j = i := fun hc => h hc.symm
    simp [h, this]

theorem getD_ge' {α} {l : List α} {j : Nat} {d : α} (h : l.length ≤ j) : l.getD j d = d := by
  rw [List.getD_eq_getElem?_getD, List.getElem?_eq_none h]; rfl

theorem countP_set_of' {α} (p : α → Bool) {l : List α} {i : Nat} {a b : α} (h : l[i]? = some a) :
    (l.set i b).countP p + (if p a then 1 else 0) = l.countP p + (if p b then 1 else 0) := by
  rw [List.getElem?_eq_some_iff] at h
  obtain ⟨hi, he⟩ := h
  rw [List.countP_set hi, he]
  have : (if p a = true then 1 else 0) ≤ l.countP p := by
    have := List.boole_getElem_le_countP (p := p) hi; rw [he] at this; exact this
  omega

theorem exists_of_countP_pos' {α} (p : α → Bool) {l : List α} (d : α) (h : 0 < l.countP p) :
    ∃ j, p (l.getD j d) = true ∧ j < l.length := by
  rw [List.countP_pos_iff] at h
  obtain ⟨a, ha, hp⟩ := h
  obtain ⟨j, hj, he⟩ := List.mem_iff_getElem.mp ha
  refine ⟨j, ?_, hj⟩
  rw [List.getD_eq_getElem?_getD, List.getElem?_eq_getElem hj, he]; exact hp

theorem getD_map' {α β} (f : α → β) {l : List α} {j : Nat} {d : α} : (l.map f).getD j (f d) = f (l.getD j d) := by
  rw [List.getD_eq_getElem?_getD, List.getD_eq_getElem?_getD, List.getElem?_map]
  cases l[j]? <;> rfl

/-! ## executions: relation `Exec` vs. the acceptor's fold `run` -/

theorem exec_cons {s0 s1 s : St} {l : Label} {ls : List Label} (hs : step s0 l = some s1) (he : Exec s1 ls s) :
    Exec s0 (l :: ls) s := by
  induction he with
  | nil => exact Exec.snoc (ls := []) Exec.nil hs
  | snoc _ hs' ih => exact Exec.snoc ih hs'

/-- what the compiled acceptor accepts is an execution of the LTS -/
theorem exec_of_run : ∀ {ls : List Label} {s0 s : St}, run s0 ls = some s → Exec s0 ls s
  | [], s0, s, h => by simp [run] at h; subst h; exact Exec.nil
  | l :: ls, s0, s, h => by
      simp only [run] at h
      cases hs : step s0 l with
      | none => rw [hs] at h; simp at h
      | some s1 => rw [hs] at h; exact exec_cons hs (exec_of_run (by simpa using h))

theorem exec_snoc_inv {s0 s : St} {ls : List Label} {l : Label} (he : Exec s0 (ls ++ [l]) s) :
    ∃ s1, Exec s0 ls s1 ∧ step s1 l = some s := by
  generalize hm : ls ++ [l] = m at he
  cases he with
  | nil => simp at hm
  | snoc he0 hs =>
    rename_i ls0 s1 l0
    have h := List.append_inj' hm rfl
    obtain ⟨h1, h2⟩ := h
    simp at h2
    subst h1 h2
    exact ⟨s1, he0, hs⟩

theorem exec_append {s0 s1 s2 : St} {l1 l2 : List Label} (h1 : Exec s0 l1 s1) (h2 : Exec s1 l2 s2) :
    Exec s0 (l1 ++ l2) s2 := by
  induction h2 with
  | nil => simpa using h1
  | snoc _ hs ih => rw [← List.append_assoc]; exact Exec.snoc ih hs

/-! ## shape of the steps -/

theorem step_live {s s' : St} {l : Label} (hs : step s l = some s') : s.exited = none := by
  simp only [step] at hs
  split at hs
  · simp at hs
  · rename_i h; cases he : s.exited <;> simp_all

theorem step_d {s s' : St} {a : DAct} (hs : step s (.d a) = some s') : dStep s a = some s' := by
  have := step_live hs; simp only [step, this] at hs; simpa using hs
theorem step_w {s s' : St} {i : Nat} {a : WAct} (hs : step s (.w i a) = some s') : wStep s i a = some s' := by
  have := step_live hs; simp only [step, this] at hs; simpa using hs
theorem step_s {s s' : St} {a : SAct} (hs : step s (.s a) = some s') : sStep s a = some s' := by
  have := step_live hs; simp only [step, this] at hs; simpa using hs
theorem step_e {s s' : St} {a : EAct} (hs : step s (.e a) = some s') : eStep s a = some s' := by
  have := step_live hs; simp only [step, this] at hs; simpa using hs

theorem step_wd {s s' : St} {a : GAct} (hs : step s (.g a) = some s') : gStep s a = some s' := by
  have := step_live hs; simp only [step, this] at hs; simpa using hs

theorem step_of_wd {s : St} {a : GAct} (h : s.exited = none) : step s (.g a) = gStep s a := by simp [step, h]

/-- a step of the watchdog changes only the owner of thd_mutex and the watchdog's program counter -/
theorem g_step_frame {s s' : St} {a : GAct} (hs : gStep s a = some s') :
    s' = { s with thd := s'.thd, gpc := s'.gpc } := by
  cases a <;> simp only [gStep] at hs <;> split at hs <;> simp at hs <;> subst hs <;> rfl

theorem step_of_d {s : St} {a : DAct} (h : s.exited = none) : step s (.d a) = dStep s a := by simp [step, h]
theorem step_of_w {s : St} {i : Nat} {a : WAct} (h : s.exited = none) : step s (.w i a) = wStep s i a := by
  simp [step, h]
theorem step_of_s {s : St} {a : SAct} (h : s.exited = none) : step s (.s a) = sStep s a := by simp [step, h]
theorem step_of_e {s : St} {a : EAct} (h : s.exited = none) : step s (.e a) = eStep s a := by simp [step, h]

/-- a worker step: worker `i` moves from `p` to `q`, writes its slot, and touches the mutexes -/
theorem w_step_facts {s s' : St} {i : Nat} {a : WAct} (hs : wStep s i a = some s') :
    ∃ p q, s.ws[i]? = some p ∧ wNext s.g a p (tsAt s i == .canceled) = some q ∧
      (a.locksT = true → s.thd = .none) ∧ (a = .lock → s.own = .none) ∧
      s' = wEffect i { s with ws := s.ws.set i q, ts := s.ts.set i (wWrite s.g a p (tsAt s i)) } a := by
  simp only [wStep] at hs
  split at hs
  · simp at hs
  · rename_i p hp
    split at hs
    · simp at hs
    · rename_i q hq
      split at hs
      · rename_i hg
        simp only [Option.some.injEq] at hs
        exact ⟨p, q, hp, hq, hg.1, hg.2, hs.symm⟩
      · simp at hs

def pc (s : St) (j : Nat) : WP := s.ws.getD j .idle

theorem wEffect_ws (i : Nat) (s : St) (a : WAct) : (wEffect i s a).ws = s.ws := by cases a <;> rfl
theorem wEffect_ts (i : Nat) (s : St) (a : WAct) : (wEffect i s a).ts = s.ts := by cases a <;> rfl
theorem wEffect_dpc (i : Nat) (s : St) (a : WAct) : (wEffect i s a).dpc = s.dpc := by cases a <;> rfl
theorem wEffect_i (i : Nat) (s : St) (a : WAct) : (wEffect i s a).i = s.i := by cases a <;> rfl
theorem wEffect_spc (i : Nat) (s : St) (a : WAct) : (wEffect i s a).spc = s.spc := by cases a <;> rfl
theorem wEffect_f (i : Nat) (s : St) (a : WAct) : (wEffect i s a).f = s.f := by cases a <;> rfl

/-! ## the parameters never change -/

theorem step_params {s s' : St} {l : Label} (hs : step s l = some s') :
    s'.v = s.v ∧ s'.f = s.f ∧ s'.batch = s.batch ∧ s'.ws.length = s.ws.length ∧ s'.ts.length = s.ts.length := by
  cases l with
  | d a =>
    have hd := step_d hs
    cases a <;> simp only [dStep] at hd <;> (try split at hd) <;> (try split at hd) <;>
      simp [roomTest, drainTest] at hd <;> (try split at hd) <;>
      (try (obtain ⟨_, hd⟩ := hd)) <;> (try subst hd) <;> simp_all
  | w i a =>
    obtain ⟨p, q, _, _, _, _, rfl⟩ := w_step_facts (step_w hs)
    cases a <;> simp [wEffect]
  | s a =>
    have hd := step_s hs
    cases a <;> simp only [sStep] at hd <;> (try split at hd) <;> (try split at hd) <;> (try split at hd) <;>
      simp at hd <;> (try (obtain ⟨_, hd⟩ := hd)) <;> (try subst hd) <;> simp_all
  | e a =>
    have hd := step_e hs
    cases a <;> simp only [eStep] at hd <;> (try split at hd) <;> simp at hd <;> subst hd <;> simp
  | g a => rw [g_step_frame (step_wd hs)]; simp

theorem exec_params {s0 s : St} {ls : List Label} (he : Exec s0 ls s) :
    s.v = s0.v ∧ s.f = s0.f ∧ s.batch = s0.batch ∧ s.ws.length = s0.ws.length ∧ s.ts.length = s0.ts.length := by
  induction he with
  | nil => exact ⟨rfl, rfl, rfl, rfl, rfl⟩
  | snoc _ hs ih =>
    have := step_params hs
    exact ⟨this.1.trans ih.1, this.2.1.trans ih.2.1, this.2.2.1.trans ih.2.2.1, this.2.2.2.1.trans ih.2.2.2.1,
           this.2.2.2.2.trans ih.2.2.2.2⟩

theorem reach_params {v g sw f n b t0 s} (h : Reach v g sw f n b t0 s) :
    s.v = v ∧ s.f = f ∧ s.batch = b ∧ s.ws.length = n ∧ s.ts.length = n := by
  obtain ⟨ls, he⟩ := h
  have := exec_params he
  simpa [init] using this

end PdshVerif.Dsh.Sig
