/-
  Every way pdsh ends BEFORE a target is contacted (property C08: "exits ... 1 when it refuses its arguments";
  property C18: "rejected with a diagnostic and a non-zero exit before anything is contacted"), as the C code has it:
  which statement ends the process and with which status.

  Code modelled: src/pdsh/main.c main (`errx ("Couldn't load any pdsh modules")`, `retval = 1` when opt_verify fails,
  `return retval`), src/pdsh/opt.c (opt_default, opt_env, opt_args, wcoll_arg_process, get_host_rcmd_type,
  copy_username, _usage, _show_version), src/common/err.c errx (`exit (1)`), the prologue of dsh() in src/pdsh/dsh.c
  (`rcmd_init` fails: `exit (1)`; `pcp_expand_dirs` of pcp_client.c: errx), module loading (mod.c: no module found).

  The enumeration is tied to the source by harness/consts/exitsites.c (Gen/Exitsites.lean, regenerated every run): the
  probe numbers every `errx` / `exit` call site of opt.c and main.c, runs a battery of refusals through the real
  main(), and reports the sites no entry reaches; C08.exit_sites_all_mapped, C08.battery_agrees and
  C08.every_refusal_probed are the tie.
-/
import PdshVerif.Dsh.Exit
import PdshVerif.Gen.Exitsites

namespace PdshVerif.Dsh.Exit

/-- why the process ends before anything is contacted -/
inductive Refusal where
  | envNumber      -- opt_env: FANOUT / PDSH_CONNECT_TIMEOUT / PDSH_COMMAND_TIMEOUT is not a number: errx
  | optNumber      -- opt_args: the argument of -f / -t / -u is not a number: errx
  | userTooLong    -- copy_username (-l) / wcoll_arg_process (user@hosts): errx
  | usage          -- _usage: -h, an unknown option, a missing argument, an option of the other personality
  | hostSpec       -- a -w word not of the form [rcmd_type:][user@]hosts, or naming an unknown transport: errx
  | wcollFile      -- `-w ^file`: the file cannot be read: errx
  | unknownRcmd    -- -R / PDSH_RCMD_TYPE names no loaded transport: rcmd_register_default_rcmd < 0, exit (1)
  | noModules      -- module loading: no module could be loaded: errx
  | modReadWcoll   -- a module's target-list reader failed: exit (1)
  | progName       -- opt_default: the program is not called pdsh / dsh / pdcp / dcp / pcp / rpdcp: errx
  | verify         -- opt_verify returned false (no targets, negative time-out, fanout < 1, the copy's operands, a
                   -- module's post-option check): main returns 1
  | rcmdInit       -- dsh(): rcmd_init failed: exit (1)
  | copyList       -- dsh() -> pcp_expand_dirs (pcp_client.c): a source cannot be read (access / stat / opendir): errx
                   -- (pcp_expand_dirs never returns NULL, so dsh()'s own `exit (1)` after it is dead code)
  deriving DecidableEq, Repr

/-- information-only endings: nothing is contacted, status 0 -/
inductive Info where
  | listModules    -- -L: mod_list_module_info (); exit (0)
  | version        -- -V: _show_version: exit (0)
  | testcase       -- -T n: the built-in test case, exit (0)
  | settings       -- -q / -Q: opt_list, main returns 0
  deriving DecidableEq, Repr

/-- the statement that ends the process -/
inductive Ending where
  | errx                         -- err.c: `_verr (stderr, ...); exit (1);`
  | exitLit (n : Nat)            -- `exit (n)`
  | usage                        -- `_usage`: the usage text on stderr, `exit (1)`
  | mainReturn (retval : Nat)    -- `return retval;` at the end of main
  deriving DecidableEq, Repr

def Ending.status : Ending → Nat
  | .errx => 1
  | .exitLit n => n % 256
  | .usage => 1
  | .mainReturn r => r % 256

def Refusal.ending : Refusal → Ending
  | .envNumber => .errx
  | .optNumber => .errx
  | .userTooLong => .errx
  | .usage => .usage
  | .hostSpec => .errx
  | .wcollFile => .errx
  | .unknownRcmd => .exitLit 1
  | .noModules => .errx
  | .modReadWcoll => .exitLit 1
  | .progName => .errx
  | .verify => .mainReturn 1
  | .rcmdInit => .exitLit 1
  | .copyList => .errx

def Info.ending : Info → Ending
  | .listModules => .exitLit 0
  | .version => .exitLit 0
  | .testcase => .exitLit 0
  | .settings => .mainReturn 0

def Refusal.all : List Refusal :=
  [.envNumber, .optNumber, .userTooLong, .usage, .hostSpec, .wcollFile, .unknownRcmd, .noModules, .modReadWcoll,
   .progName, .verify, .rcmdInit, .copyList]

def Info.all : List Info := [.listModules, .version, .testcase, .settings]

def Refusal.name : Refusal → String
  | .envNumber => "envNumber" | .optNumber => "optNumber" | .userTooLong => "userTooLong" | .usage => "usage"
  | .hostSpec => "hostSpec" | .wcollFile => "wcollFile" | .unknownRcmd => "unknownRcmd" | .noModules => "noModules"
  | .modReadWcoll => "modReadWcoll" | .progName => "progName" | .verify => "verify" | .rcmdInit => "rcmdInit"
  | .copyList => "copyList"

def Info.name : Info → String
  | .listModules => "listModules" | .version => "version" | .testcase => "testcase" | .settings => "settings"

/-- the exit status the model gives for the outcome called `name` in the generated battery: a refusal, an
    information-only ending, or a run that was started (`started`: the stub of dsh() returns 0; `promptLoop`: stdin at
    end of file, nothing is run) -/
def statusOfName (name : String) : Option Nat :=
  match Refusal.all.find? (·.name = name) with
  | some r => some r.ending.status
  | none =>
    match Info.all.find? (·.name = name) with
    | some i => some i.ending.status
    | none => if name = "started" ∨ name = "promptLoop" then some 0 else none

/-- the refusals that lie in dsh()'s prologue or in the module loader: not reachable through the probe's stubs; they are
    driven on the real binary by checks/c08.py -/
def Refusal.beyondProbe : List Refusal := [.rcmdInit, .copyList]

end PdshVerif.Dsh.Exit
