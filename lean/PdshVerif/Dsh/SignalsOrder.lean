import PdshVerif.Dsh.SignalsLive
import PdshVerif.Dsh.SignalsCancel

/-! # Lock discipline of dsh() with the signals thread AND the watchdog: whoever holds a mutex is not waiting for one

Threads: dispatcher `D`, workers `W i`, signals thread `S`, watchdog `G` (repaired shutdown: it takes thd_mutex around
every slot it tests and signals).  Mutexes: threadcount_mutex (`St.own`), thd_mutex (`St.thd`).  A deadlock among
mutexes needs a cycle "a holds m₁ and waits for m₂, b holds m₂ and waits for …".  Here no thread that holds a mutex waits
at all: the holder of either mutex always has an enabled operation *of its own* that acquires nothing (it computes,
signals, waits on the condition variable — which releases —, or unlocks), and no thread ever holds both.  So the
wait-for graph has no edge leaving a holder: it is acyclic whatever the schedule, the arrival times of the signals and
the watchdog's scans — in particular the signals thread and the watchdog never hold each other's mutex in reverse order
(the watchdog never holds threadcount_mutex at all, and neither of them ever requests a second mutex). -/
namespace PdshVerif.Dsh.Sig
open PdshVerif.Dsh.Fan (Variant DPC)

/-- whose operation a label is -/
def Label.thread : Label → Own
  | .d _ => .d
  | .w i _ => .w i
  | .s _ => .s
  | .g _ => .g
  | .e _ => .none

/-- the operation acquires a mutex (and blocks while the mutex is taken) -/
def Label.acquires : Label → Bool
  | .d .lock | .d .relock | .w _ .lockT | .w _ .lockTF | .w _ .lock | .s .lockT | .s .lock | .g .lockT => true
  | _ => false

/-- "thread `t` can perform an operation that acquires nothing" -/
def RunsOn (s : St) (t : Own) : Prop :=
  ∃ l, l.thread = t ∧ l.acquires = false ∧ l.proper = true ∧ (step s l).isSome = true

theorem w_runs {s : St} {i : Nat} {a : WAct} {p q : WP} (hx : s.exited = none) (hp : s.ws[i]? = some p)
    (hn : wNext s.g a p (tsAt s i == .canceled) = some q) (h1 : a.locksT = false) (h2 : a ≠ .lock) : RunsOn s (.w i) := by
  refine ⟨.w i a, rfl, ?_, by simp [Label.proper, Label.spurious, Label.isEnv], ?_⟩
  · cases a <;> simp_all [Label.acquires, WAct.locksT]
  · rw [step_of_w hx]
    simp only [wStep, hp, hn]
    have hg : (a.locksT = true → s.thd = .none) ∧ (a = .lock → s.own = .none) :=
      ⟨fun h => (by rw [h1] at h; cases h), fun h => absurd h h2⟩
    rw [if_pos hg]; rfl

theorem s_runs {s : St} {a : SAct} (hx : s.exited = none) (h1 : a ≠ .lockT) (h2 : a ≠ .lock)
    (h : (sStep s a).isSome = true) : RunsOn s .s := by
  refine ⟨.s a, rfl, ?_, by simp [Label.proper, Label.spurious, Label.isEnv], by rw [step_of_s hx]; exact h⟩
  cases a <;> simp_all [Label.acquires]

/-- the holder of thd_mutex — a worker, the signals thread or the watchdog — can go on without acquiring anything -/
theorem thd_holder_runs {s : St} (h : Inv s) (hx : s.exited = none) (hthd : s.thd ≠ .none)
    (hnc : s.spc ≠ .cancelled) : RunsOn s s.thd := by
  cases ho : s.thd with
  | none => exact absurd ho hthd
  | d => exact absurd ho h.m.thdD
  | w k =>
    have hh := (h.m.thdW k).mp ho
    cases hp : pc s k <;> rw [hp] at hh <;> simp [holdsT] at hh
    · exact w_runs (a := .unlockT) hx (getElem?_of_getD' hp (by simp)) (by simp [wNext]; rfl) (by simp [WAct.locksT]) (by simp)
    · exact w_runs (a := .unlockT) hx (getElem?_of_getD' hp (by simp)) (by simp [wNext]; rfl) (by simp [WAct.locksT]) (by simp)
    · exact w_runs (a := .time) hx (getElem?_of_getD' hp (by simp)) (by simp [wNext]; rfl) (by simp [WAct.locksT]) (by simp)
    · exact w_runs (a := .unlockT) hx (getElem?_of_getD' hp (by simp)) (by simp [wNext]; rfl) (by simp [WAct.locksT]) (by simp)
    · exact w_runs (a := .unlockT) hx (getElem?_of_getD' hp (by simp)) (by simp [wNext]; rfl) (by simp [WAct.locksT]) (by simp)
  | g =>
    have hh := h.w.thdG2 ho
    cases hg : s.gpc <;> rw [hg] at hh <;> simp [GPC.holds] at hh
    exact ⟨.g .unlockT, rfl, rfl, by simp [Label.proper, Label.spurious, Label.isEnv],
      by rw [step_of_wd hx]; simp [gStep, hg]⟩
  | s =>
    rcases h.m.thdS2 ho with hs | hs
    · cases hsp : s.spc <;> rw [hsp] at hs <;> simp [SPC.holdsT] at hs
      · rename_i k
        cases k with
        | zero => exact s_runs (a := .unlockT) hx (by simp) (by simp) (by simp [sStep, hsp])
        | succ k => exact s_runs (a := .time s.now) hx (by simp) (by simp) (by simp [sStep, hsp])
      · rename_i k
        rcases fwd_or_done s.ts k s.ts.length with hn | ⟨j, hlt, hk, hr, hn⟩
        · exact s_runs (a := .unlockT) hx (by simp) (by simp) (by simp [sStep, hsp, hn])
        · have hg : s.ts[j]? = some TS.reading := getElem?_of_getD' hr (by simp)
          exact s_runs (a := .fwd j) hx (by simp) (by simp) (by simp [sStep, hsp, hk, hg, hn])
    · exact absurd hs hnc

/-- the holder of threadcount_mutex — the dispatcher, a worker in its epilogue or the signals thread while it
    cancels — can go on without acquiring anything (the dispatcher's `pthread_cond_wait` releases the mutex) -/
theorem own_holder_runs {s : St} (h : Inv s) (hx : s.exited = none) (hown : s.own ≠ .none)
    (hnc : s.spc ≠ .cancelled) : RunsOn s s.own := by
  cases ho : s.own with
  | none => exact absurd ho hown
  | d =>
    have hh := h.m.ownD.mp ho
    have dl : ∀ a : DAct, (Label.d a).acquires = false → (Label.d a).spurious = false → (dStep s a).isSome = true →
        RunsOn s .d := fun a h1 h2 h3 =>
      ⟨.d a, rfl, h1, by simp [Label.proper, h2, Label.isEnv], by rw [step_of_d hx]; exact h3⟩
    cases hd : s.dpc <;> rw [hd] at hh <;> simp [DPC.holds] at hh
    · exact dl .wait rfl rfl (by simp [dStep, hd])
    · by_cases hsk : skip s.ts s.i < s.ws.length
      · exact dl (.create (skip s.ts s.i)) rfl rfl (by simp [dStep, hd, hsk])
      · exact dl .unlock rfl rfl (by simp [dStep, hd]; omega)
    · exact dl .unlock rfl rfl (by simp [dStep, hd])
    · exact dl .wait rfl rfl (by simp [dStep, hd])
    · exact dl .unlock rfl rfl (by simp [dStep, hd])
  | w k =>
    have hh := (h.m.ownW k).mp ho
    cases hp : pc s k <;> rw [hp] at hh <;> simp [holdsW] at hh
    · exact w_runs (a := .signal) hx (getElem?_of_getD' hp (by simp)) (by simp [wNext]; rfl) (by simp [WAct.locksT]) (by simp)
    · exact w_runs (a := .unlock) hx (getElem?_of_getD' hp (by simp)) (by simp [wNext]; rfl) (by simp [WAct.locksT]) (by simp)
  | g => exact absurd ho h.w.ownG
  | s =>
    rcases h.m.ownS2 ho with hs | hs
    · exact s_runs (a := .unlock) hx (by simp) (by simp) (by simp [sStep, hs])
    · exact absurd hs hnc

/-- no thread holds threadcount_mutex and thd_mutex together — the watchdog included -/
theorem never_both {s : St} (h : Inv s) (hnc : s.spc ≠ .cancelled) (t : Own) (ht : t ≠ .none) :
    ¬ (s.own = t ∧ s.thd = t) := by
  obtain ⟨n1, n2, n3⟩ := no_nested_locks h.m
  intro ⟨ho, hth⟩
  cases t with
  | none => exact ht rfl
  | d => exact n2 hth
  | w j => exact n1 j ⟨ho, hth⟩
  | s => exact n3 hnc ⟨ho, hth⟩
  | g => exact h.w.ownG ho

end PdshVerif.Dsh.Sig
