/-
  Specification of property C08 "exit status faithfully summarises the run", written from the
  property text only (no reference to how dsh.c computes anything).

  Input: the flags, whether the arguments were refused, and for every target what happened to
  its remote command.  Output: which process exit statuses are admissible.

  Policy-free: the text says a command that terminates abnormally "never counts as success" but
  not which code it contributes; the spec admits every non-zero code 1..255 for it
  (the shell convention 128+sig is one of them).
-/
namespace PdshVerif.Dsh.ExitSpec

/-- what happened to the remote command on one target -/
inductive Outcome where
  | exited (code : Nat)          -- ran and returned `code` (0..255)
  | killed (sig : Nat)           -- terminated abnormally (by signal `sig`)
  | connectFailed                -- the host could not be reached
  | timedOut                     -- the command time-out fired (a command that, terminated for that reason, still
                                 -- returned a code is described by this AND `.exited code`: `admissible` takes
                                 -- `any` / `max` over the list, so a target may contribute two observations)
  deriving DecidableEq, Repr

def Outcome.unreachable : Outcome → Bool
  | .connectFailed => true
  | .timedOut => true
  | _ => false

def Outcome.isKilled : Outcome → Bool
  | .killed _ => true
  | _ => false

/-- anything but "ran and returned 0" -/
def Outcome.isFailure : Outcome → Bool
  | .exited 0 => false
  | _ => true

/-- return code of a command that ran to its end; others contribute through the rules below -/
def Outcome.code : Outcome → Nat
  | .exited c => c
  | _ => 0

def maxCode (outs : List Outcome) : Nat := outs.foldl (fun a o => max a o.code) 0

/-- "-S: the largest return code of any remote command, raised to 254 if any host could not be
    reached or timed out" -/
def base (outs : List Outcome) : Nat :=
  max (maxCode outs) (if outs.any Outcome.unreachable then 254 else 0)

/-- the admissible exit statuses -/
def admissible (S k refused : Bool) (outs : List Outcome) (exit : Nat) : Bool :=
  if refused then exit = 1                                   -- "1 when it refuses its arguments"
  else if k && outs.any Outcome.isFailure then exit ≠ 0      -- "-k: any failure makes it non-zero"
  else if !S then exit = 0                                   -- "exits 0 after a run it was able to start"
  else if outs.any Outcome.isKilled then                     -- "abnormal termination never counts as success"
    max (base outs) 1 ≤ exit && exit ≤ 255
  else exit = base outs

/-- consequence spelt out in the text: with -S, 0 only if every command ran and succeeded -/
theorem admissible_zero (outs : List Outcome) (h : admissible true false false outs 0 = true) :
    base outs = 0 ∧ outs.any Outcome.isKilled = false := by
  unfold admissible at h
  by_cases hk : outs.any Outcome.isKilled = true
  · simp [hk] at h
  · simp [hk] at h
    simp [← h, hk]

end PdshVerif.Dsh.ExitSpec
