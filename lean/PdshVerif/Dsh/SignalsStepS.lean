import PdshVerif.Dsh.SignalsStepW

/-! # The invariants are preserved by the steps of the signals thread and of the environment -/
namespace PdshVerif.Dsh.Sig
open PdshVerif.Dsh.Fan (Variant DPC)

theorem okTS_cancelT {p : WP} {t : TS} (h : okTS p t = true) : okTS p (cancelT t) = true := by
  cases p <;> cases t <;> simp_all [okTS, cancelT, isPending]

theorem tsAt_cancel {s : St} (j : Nat) :
    (s.ts.map cancelT).getD j .new = if j < s.ts.length then cancelT (tsAt s j) else .new := by
  simp only [tsAt, List.getD_eq_getElem?_getD, List.getElem?_map]
  split
  · rename_i h; rw [List.getElem?_eq_getElem h]; rfl
  · rename_i h; rw [List.getElem?_eq_none (by omega)]; rfl

/-- the control part of an S step: own/thd/spc before and after; everything else but ts, and the logs, is unchanged -/
theorem minv_s {s s' : St} {a : SAct} (hm : MInv s) (hs : sStep s a = some s') : MInv s' := by
  have ⟨h1, h2, h3, h4, h5, h6, h7, h8, h9⟩ := hm
  cases a with
  | sigwait g =>
    simp only [sStep] at hs
    split at hs <;> (try split at hs) <;> simp at hs; subst hs
    rename_i hw _
    have hno : s.own ≠ .s := by intro hc; rcases h4 hc with h | h <;> rw [hw] at h <;> cases h
    have hnt : s.thd ≠ .s := by
      intro hc; rcases h8 hc with h | h <;> rw [hw] at h <;> simp [SPC.holdsT] at h
    refine { ownD := h1, ownW := h2, ownS1 := ?_, ownS2 := ?_, thdD := h5, thdW := h6, thdS1 := ?_, thdS2 := ?_,
             canc := ?_ }
    · cases g <;> cases s.batch <;> simp
    · intro hc; exact absurd hc hno
    · cases g <;> cases s.batch <;> simp [SPC.holdsT]
    · intro hc; exact absurd hc hnt
    · cases g <;> cases s.batch <;> simp
  | time v =>
    simp only [sStep] at hs
    split at hs
    · split at hs <;> simp at hs <;> subst hs
      · rename_i hw
        have hno : s.own ≠ .s := by intro hc; rcases h4 hc with h | h <;> rw [hw] at h <;> cases h
        have hnt : s.thd ≠ .s := by
          intro hc; rcases h8 hc with h | h <;> rw [hw] at h <;> simp [SPC.holdsT] at h
        refine { ownD := h1, ownW := h2, ownS1 := ?_, ownS2 := ?_, thdD := h5, thdW := h6, thdS1 := ?_,
                 thdS2 := ?_, canc := ?_ }
        · split <;> simp
        · intro hc; exact absurd hc hno
        · split <;> simp [SPC.holdsT]
        · intro hc; exact absurd hc hnt
        · split <;> simp
      · rename_i hw
        have hno : s.own ≠ .s := by intro hc; rcases h4 hc with h | h <;> rw [hw] at h <;> cases h
        have hnt : s.thd ≠ .s := by
          intro hc; rcases h8 hc with h | h <;> rw [hw] at h <;> simp [SPC.holdsT] at h
        refine { ownD := h1, ownW := h2, ownS1 := ?_, ownS2 := ?_, thdD := h5, thdW := h6, thdS1 := ?_,
                 thdS2 := ?_, canc := ?_ }
        · simp
        · intro hc; exact absurd hc hno
        · simp [SPC.holdsT]
        · intro hc; exact absurd hc hnt
        · simp
      · rename_i k hw
        have hts : s.thd = .s := h7 (by rw [hw]; rfl)
        have hno : s.own ≠ .s := by intro hc; rcases h4 hc with h | h <;> rw [hw] at h <;> cases h
        refine { ownD := h1, ownW := h2, ownS1 := ?_, ownS2 := ?_, thdD := h5, thdW := h6, thdS1 := ?_,
                 thdS2 := ?_, canc := ?_ }
        · simp
        · intro hc; exact absurd hc hno
        · intro _; exact hts
        · intro _; exact Or.inl rfl
        · simp
      · rename_i hw
        have hno : s.own ≠ .s := by intro hc; rcases h4 hc with h | h <;> rw [hw] at h <;> cases h
        have hnt : s.thd ≠ .s := by
          intro hc; rcases h8 hc with h | h <;> rw [hw] at h <;> simp [SPC.holdsT] at h
        refine { ownD := h1, ownW := h2, ownS1 := ?_, ownS2 := ?_, thdD := h5, thdW := h6, thdS1 := ?_,
                 thdS2 := ?_, canc := ?_ }
        · split <;> simp
        · intro hc; exact absurd hc hno
        · split <;> simp [SPC.holdsT]
        · intro hc; exact absurd hc hnt
        · split <;> simp
    · simp at hs
  | lockT =>
    simp only [sStep] at hs
    split at hs <;> simp at hs <;> subst hs
    · rename_i ht hw
      have hno : s.own ≠ .s := by intro hc; rcases h4 hc with h | h <;> rw [hw] at h <;> cases h
      have hnw : ∀ j, holdsT (pc s j) = false := by
        intro j; cases hh : holdsT (pc s j) with
        | false => rfl
        | true => have := (h6 j).mpr hh; rw [ht] at this; cases this
      refine { ownD := h1, ownW := h2, ownS1 := ?_, ownS2 := ?_, thdD := ?_, thdW := ?_, thdS1 := ?_,
               thdS2 := ?_, canc := ?_ }
      · simp
      · intro hc; exact absurd hc hno
      · simp
      · intro j; show Own.s = Own.w j ↔ holdsT (pc s j) = true; simp [hnw j]
      · intro _; rfl
      · intro _; exact Or.inl rfl
      · simp
    · rename_i ht hw
      have hno : s.own ≠ .s := by intro hc; rcases h4 hc with h | h <;> rw [hw] at h <;> cases h
      have hnw : ∀ j, holdsT (pc s j) = false := by
        intro j; cases hh : holdsT (pc s j) with
        | false => rfl
        | true => have := (h6 j).mpr hh; rw [ht] at this; cases this
      refine { ownD := h1, ownW := h2, ownS1 := ?_, ownS2 := ?_, thdD := ?_, thdW := ?_, thdS1 := ?_,
               thdS2 := ?_, canc := ?_ }
      · simp
      · intro hc; exact absurd hc hno
      · simp
      · intro j; show Own.s = Own.w j ↔ holdsT (pc s j) = true; simp [hnw j]
      · intro _; rfl
      · intro _; exact Or.inl rfl
      · simp
  | fwd h =>
    simp only [sStep] at hs
    split at hs <;> (try split at hs) <;> simp at hs; subst hs
    rename_i k hw _
    have hts : s.thd = .s := h7 (by rw [hw]; rfl)
    have hno : s.own ≠ .s := by intro hc; rcases h4 hc with h | h <;> rw [hw] at h <;> cases h
    refine { ownD := h1, ownW := h2, ownS1 := ?_, ownS2 := ?_, thdD := h5, thdW := h6, thdS1 := ?_,
             thdS2 := ?_, canc := ?_ }
    · simp
    · intro hc; exact absurd hc hno
    · intro _; exact hts
    · intro _; exact Or.inl rfl
    · simp
  | unlockT =>
    simp only [sStep] at hs
    split at hs
    · simp only [Option.some.injEq] at hs; subst hs
      rename_i hw
      have hts : s.thd = .s := h7 (by rw [hw]; rfl)
      have hno : s.own ≠ .s := by intro hc; rcases h4 hc with h | h <;> rw [hw] at h <;> cases h
      have hnw : ∀ j, holdsT (pc s j) = false := by
        intro j; cases hh : holdsT (pc s j) with
        | false => rfl
        | true => have := (h6 j).mpr hh; rw [hts] at this; cases this
      refine { ownD := h1, ownW := h2, ownS1 := ?_, ownS2 := ?_, thdD := ?_, thdW := ?_, thdS1 := ?_,
               thdS2 := ?_, canc := ?_ }
      · simp
      · intro hc; exact absurd hc hno
      · simp
      · intro j; show Own.none = Own.w j ↔ holdsT (pc s j) = true; simp [hnw j]
      · simp [SPC.holdsT]
      · simp
      · simp
    · split at hs <;> simp at hs; subst hs
      rename_i k hw _
      have hts : s.thd = .s := h7 (by rw [hw]; rfl)
      have hno : s.own ≠ .s := by intro hc; rcases h4 hc with h | h <;> rw [hw] at h <;> cases h
      have hnw : ∀ j, holdsT (pc s j) = false := by
        intro j; cases hh : holdsT (pc s j) with
        | false => rfl
        | true => have := (h6 j).mpr hh; rw [hts] at this; cases this
      refine { ownD := h1, ownW := h2, ownS1 := ?_, ownS2 := ?_, thdD := ?_, thdW := ?_, thdS1 := ?_,
               thdS2 := ?_, canc := ?_ }
      · simp
      · intro hc; exact absurd hc hno
      · simp
      · intro j; show Own.none = Own.w j ↔ holdsT (pc s j) = true; simp [hnw j]
      · simp [SPC.holdsT]
      · simp
      · simp
    · simp at hs
  | lock =>
    simp only [sStep] at hs
    split at hs <;> simp at hs; subst hs
    rename_i ho hw
    have hnt : s.thd ≠ .s := by
      intro hc; rcases h8 hc with h | h <;> rw [hw] at h <;> simp [SPC.holdsT] at h
    have hnh : s.dpc.holds = false := by
      cases hh : s.dpc.holds with
      | false => rfl
      | true => have := h1.mpr hh; rw [ho] at this; cases this
    have hnw : ∀ j, holdsW (pc s j) = false := by
      intro j; cases hh : holdsW (pc s j) with
      | false => rfl
      | true => have := (h2 j).mpr hh; rw [ho] at this; cases this
    refine { ownD := ?_, ownW := ?_, ownS1 := ?_, ownS2 := ?_, thdD := h5, thdW := h6, thdS1 := ?_,
             thdS2 := ?_, canc := ?_ }
    · simp [hnh]
    · intro j; show Own.s = Own.w j ↔ holdsW (pc s j) = true; simp [hnw j]
    · intro _; rfl
    · intro _; exact Or.inl rfl
    · simp [SPC.holdsT]
    · intro hc; exact absurd hc hnt
    · simp
  | unlock =>
    simp only [sStep] at hs
    split at hs <;> simp at hs; subst hs
    rename_i hw
    have ho : s.own = .s := h3 hw
    have hnt : s.thd ≠ .s := by
      intro hc; rcases h8 hc with h | h <;> rw [hw] at h <;> simp [SPC.holdsT] at h
    have hnh : s.dpc.holds = false := by
      cases hh : s.dpc.holds with
      | false => rfl
      | true => have := h1.mpr hh; rw [ho] at this; cases this
    have hnw : ∀ j, holdsW (pc s j) = false := by
      intro j; cases hh : holdsW (pc s j) with
      | false => rfl
      | true => have := (h2 j).mpr hh; rw [ho] at this; cases this
    refine { ownD := ?_, ownW := ?_, ownS1 := ?_, ownS2 := ?_, thdD := h5, thdW := h6, thdS1 := ?_,
             thdS2 := ?_, canc := ?_ }
    · simp [hnh]
    · intro j; show Own.none = Own.w j ↔ holdsW (pc s j) = true; simp [hnw j]
    · simp
    · simp
    · simp [SPC.holdsT]
    · intro hc; exact absurd hc hnt
    · simp
  | stop =>
    simp only [sStep] at hs
    split at hs <;> simp at hs; subst hs
    rename_i hw
    have hno : s.own ≠ .s := by intro hc; rcases h4 hc with h | h <;> rw [hw] at h <;> cases h
    have hnt : s.thd ≠ .s := by
      intro hc; rcases h8 hc with h | h <;> rw [hw] at h <;> simp [SPC.holdsT] at h
    refine { ownD := h1, ownW := h2, ownS1 := ?_, ownS2 := ?_, thdD := h5, thdW := h6, thdS1 := ?_,
             thdS2 := ?_, canc := ?_ }
    · simp
    · intro hc; exact absurd hc hno
    · simp [SPC.holdsT]
    · intro hc; exact absurd hc hnt
    · simp
  | exit c =>
    simp only [sStep] at hs
    split at hs <;> (try split at hs) <;> simp at hs; subst hs
    exact ⟨h1, h2, h3, h4, h5, h6, h7, h8, h9⟩

/-- the only S step that touches `ws`, `ts`, `tc`, the dispatcher or `sig` is the cancellation -/
theorem s_step_frame {s s' : St} {a : SAct} (hs : sStep s a = some s') :
    s'.ws = s.ws ∧ s'.tc = s.tc ∧ s'.dpc = s.dpc ∧ s'.i = s.i ∧ s'.sig = s.sig ∧ s'.f = s.f ∧
      (s'.ts = s.ts ∨ (a = .lock ∧ s'.ts = s.ts.map cancelT)) := by
  cases a <;> simp only [sStep] at hs <;> (try split at hs) <;> (try split at hs) <;> (try split at hs) <;>
    simp at hs <;> (try (obtain ⟨_, hs⟩ := hs)) <;> (try subst hs) <;> simp_all

theorem tinv_s {s s' : St} {a : SAct} (ht : TInv s) (hs : sStep s a = some s') : TInv s' := by
  obtain ⟨hws, _, _, _, _, _, hts⟩ := s_step_frame hs
  have ⟨hl, hok⟩ := ht
  rcases hts with hts | ⟨_, hts⟩
  · exact ⟨by rw [hts, hws]; exact hl, fun j => by rw [pc_congr hws, tsAt_congr hts]; exact hok j⟩
  · refine ⟨by rw [hts, hws]; simpa using hl, fun j => ?_⟩
    rw [pc_congr hws]
    show okTS (pc s j) (s'.ts.getD j .new) = true
    rw [hts, tsAt_cancel]
    split
    · exact okTS_cancelT (hok j)
    · rename_i hj
      have : pc s j = .idle := getD_ge' (by omega)
      rw [this]; rfl

theorem frontier_le {s : St} (hf : FInv s) : frontier s ≤ s.ws.length := by
  simp only [frontier]
  split
  · rename_i hd; have := hf.disp (by rw [hd]; rfl); omega
  · cases hd : s.dpc.dispatching with
    | true => have := hf.disp hd; omega
    | false => have := hf.drain hd; omega

theorem finv_s {s s' : St} {a : SAct} (ht : TInv s) (hf : FInv s) (hs : sStep s a = some s') : FInv s' := by
  obtain ⟨hws, htc, hdpc, hi, hsig, hff, hts⟩ := s_step_frame hs
  have ⟨h1, h2, h3, h4, h5, h6, h7, h8, h9, h10⟩ := hf
  have hfr : frontier s' = frontier s := by simp [frontier, hdpc, hi]
  refine { cnt := by rw [htc, hws]; exact h1, front1 := ?_, front2 := ?_, disp := ?_, drain := ?_, waitEq := ?_,
           dwaitPos := ?_, fin := ?_, park := ?_, dpark := ?_ }
  · intro j hj; rw [pc_congr hws]; exact h2 j (by rw [← hfr]; exact hj)
  · intro j hj hid
    rw [pc_congr hws] at hid; rw [hfr] at hj
    have hc := h3 j hj hid
    rcases hts with hts | ⟨_, hts⟩
    · rw [tsAt_congr hts]; exact hc
    · show s'.ts.getD j .new = .canceled
      rw [hts, tsAt_cancel, if_pos (by have := frontier_le hf; rw [ht.len]; omega), hc]; rfl
  · rw [hdpc, hi, hws]; exact h4
  · rw [hdpc, hi, hws]; exact h5
  · rw [hdpc, htc, hff]; exact h6
  · rw [hdpc, htc]; exact h7
  · rw [hdpc, hws]; intro hc j hj; rw [pc_congr hws]; exact h8 hc j hj
  · rw [hdpc, hsig, htc, hws, hff]; exact h9
  · rw [hdpc, hsig, htc, hws]; exact h10

/-! ## environment steps -/

theorem e_step_frame {s s' : St} {a : EAct} (hs : eStep s a = some s') :
    s'.ws = s.ws ∧ s'.ts = s.ts ∧ s'.tc = s.tc ∧ s'.dpc = s.dpc ∧ s'.i = s.i ∧ s'.sig = s.sig ∧ s'.f = s.f ∧
      s'.own = s.own ∧ s'.thd = s.thd ∧ s'.spc = s.spc := by
  cases a <;> simp only [eStep] at hs <;> (try split at hs) <;> simp at hs <;> subst hs <;> simp

theorem inv_e {s s' : St} {a : EAct} (h : Inv s) (hs : eStep s a = some s') : Inv s' := by
  obtain ⟨hws, hts, htc, hdpc, hi, hsig, hff, hown, hthd, hspc⟩ := e_step_frame hs
  have hpc : ∀ j, pc s' j = pc s j := pc_congr hws
  have hfr : frontier s' = frontier s := by simp [frontier, hdpc, hi]
  obtain ⟨⟨m1, m2, m3, m4, m5, m6, m7, m8, m9⟩, ⟨t1, t2⟩, ⟨f1, f2, f3, f4, f5, f6, f7, f8, f9, f10⟩⟩ := h
  refine ⟨⟨?_, ?_, ?_, ?_, ?_, ?_, ?_, ?_, ?_⟩, ⟨?_, ?_⟩, ⟨?_, ?_, ?_, ?_, ?_, ?_, ?_, ?_, ?_, ?_⟩⟩
  · rw [hown, hdpc]; exact m1
  · intro j; rw [hown, hpc]; exact m2 j
  · rw [hown, hspc]; exact m3
  · rw [hown, hspc]; exact m4
  · rw [hthd]; exact m5
  · intro j; rw [hthd, hpc]; exact m6 j
  · rw [hthd, hspc]; exact m7
  · rw [hthd, hspc]; exact m8
  · rw [hspc, hdpc]; exact m9
  · rw [hts, hws]; exact t1
  · intro j; rw [hpc, tsAt_congr hts]; exact t2 j
  · rw [htc, hws]; exact f1
  · intro j hj; rw [hpc]; exact f2 j (by rw [← hfr]; exact hj)
  · intro j hj hid; rw [hpc] at hid; rw [tsAt_congr hts]; exact f3 j (by rw [← hfr]; exact hj) hid
  · rw [hdpc, hi, hws]; exact f4
  · rw [hdpc, hi, hws]; exact f5
  · rw [hdpc, htc, hff]; exact f6
  · rw [hdpc, htc]; exact f7
  · rw [hdpc, hws]; intro hc j hj; rw [hpc]; exact f8 hc j hj
  · rw [hdpc, hsig, htc, hws, hff]; exact f9
  · rw [hdpc, hsig, htc, hws]; exact f10

/-! ## every step -/

theorem inv_step {s s' : St} {l : Label} (h : Inv s) (hs : step s l = some s') : Inv s' := by
  cases l with
  | d a => have hd := step_d hs; exact ⟨minv_d h.m h.f hd, tinv_d h.t h.f hd, finv_d h.m h.t h.f hd⟩
  | w i a => have hd := step_w hs; exact ⟨minv_w h.m hd, tinv_w h.t hd, finv_w h.m h.t h.f hd⟩
  | s a => have hd := step_s hs; exact ⟨minv_s h.m hd, tinv_s h.t hd, finv_s h.t h.f hd⟩
  | e a => exact inv_e h (step_e hs)

theorem inv_exec {s0 s : St} {ls : List Label} (h0 : Inv s0) (he : Exec s0 ls s) : Inv s := by
  induction he with
  | nil => exact h0
  | snoc _ hs ih => exact inv_step ih hs

theorem inv_reach {v g f n b t0 s} (h : Reach v g f n b t0 s) : Inv s := by
  obtain ⟨ls, he⟩ := h; exact inv_exec (inv_init v g f n b t0) he

end PdshVerif.Dsh.Sig
