import PdshVerif.Dsh.SignalsStepW

/-! # The invariants are preserved by the steps of the signals thread and of the environment -/
namespace PdshVerif.Dsh.Sig
open PdshVerif.Dsh.Fan (Variant DPC)

theorem okTS_cancelT {p : WP} {t : TS} (h : okTS p t = true) : okTS p (cancelT t) = true := by
  cases p <;> cases t <;> simp_all [okTS, cancelT, isPending]

theorem tsAt_cancel {s : St} (j : Nat) :
    (s.ts.map cancelT).getD j .new = if j < s.ts.length then cancelT (tsAt s j) else .new := by
  simp only [tsAt, List.getD_eq_getElem?_getD, List.getElem?_map]
  split
  · rename_i h; rw [List.getElem?_eq_getElem h]; rfl
  · rename_i h; rw [List.getElem?_eq_none (by omega)]; rfl

/-- the control part of an S step: own/thd/spc before and after; everything else but ts, and the logs, is unchanged -/
theorem minv_s {s s' : St} {a : SAct} (hm : MInv s) (hcv : CInv s) (hs : sStep s a = some s') : MInv s' := by
  have ⟨h1, h2, h3, h4, h5, h6, h7, h8, h9⟩ := hm
  cases a with
  | sigwait g =>
    simp only [sStep] at hs
    split at hs <;> (try split at hs) <;> simp at hs; subst hs
    rename_i hw _
    have hno : s.own ≠ .s := by intro hc; rcases h4 hc with h | h <;> rw [hw] at h <;> cases h
    have hnt : s.thd ≠ .s := by
      intro hc; rcases h8 hc with h | h <;> rw [hw] at h <;> simp [SPC.holdsT] at h
    refine { ownD := h1, ownW := h2, ownS1 := ?_, ownS2 := ?_, thdD := h5, thdW := h6, thdS1 := ?_, thdS2 := ?_,
             canc := ?_ }
    · cases g <;> cases s.batch <;> simp
    · intro hc; exact absurd hc hno
    · cases g <;> cases s.batch <;> simp [SPC.holdsT]
    · intro hc; exact absurd hc hnt
    · cases g <;> cases s.batch <;> simp
  | time v =>
    simp only [sStep] at hs
    split at hs
    · split at hs <;> simp at hs <;> subst hs
      · rename_i hw
        have hno : s.own ≠ .s := by intro hc; rcases h4 hc with h | h <;> rw [hw] at h <;> cases h
        have hnt : s.thd ≠ .s := by
          intro hc; rcases h8 hc with h | h <;> rw [hw] at h <;> simp [SPC.holdsT] at h
        refine { ownD := h1, ownW := h2, ownS1 := ?_, ownS2 := ?_, thdD := h5, thdW := h6, thdS1 := ?_,
                 thdS2 := ?_, canc := ?_ }
        · split <;> simp
        · intro hc; exact absurd hc hno
        · split <;> simp [SPC.holdsT]
        · intro hc; exact absurd hc hnt
        · split <;> simp
      · rename_i hw
        have hno : s.own ≠ .s := by intro hc; rcases h4 hc with h | h <;> rw [hw] at h <;> cases h
        have hnt : s.thd ≠ .s := by
          intro hc; rcases h8 hc with h | h <;> rw [hw] at h <;> simp [SPC.holdsT] at h
        refine { ownD := h1, ownW := h2, ownS1 := ?_, ownS2 := ?_, thdD := h5, thdW := h6, thdS1 := ?_,
                 thdS2 := ?_, canc := ?_ }
        · simp
        · intro hc; exact absurd hc hno
        · simp [SPC.holdsT]
        · intro hc; exact absurd hc hnt
        · simp
      · rename_i k hw
        have hts : s.thd = .s := h7 (by rw [hw]; rfl)
        have hno : s.own ≠ .s := by intro hc; rcases h4 hc with h | h <;> rw [hw] at h <;> cases h
        refine { ownD := h1, ownW := h2, ownS1 := ?_, ownS2 := ?_, thdD := h5, thdW := h6, thdS1 := ?_,
                 thdS2 := ?_, canc := ?_ }
        · simp
        · intro hc; exact absurd hc hno
        · intro _; exact hts
        · intro _; exact Or.inl rfl
        · simp
      · rename_i k hw
        have hno : s.own ≠ .s := by intro hc; rcases h4 hc with h | h <;> rw [hw] at h <;> cases h
        have hnt : s.thd ≠ .s := by
          intro hc; rcases h8 hc with h | h <;> rw [hw] at h <;> simp [SPC.holdsT] at h
        refine { ownD := h1, ownW := h2, ownS1 := ?_, ownS2 := ?_, thdD := h5, thdW := h6, thdS1 := ?_,
                 thdS2 := ?_, canc := ?_ }
        · simp
        · intro hc; exact absurd hc hno
        · simp [SPC.holdsT]
        · intro hc; exact absurd hc hnt
        · simp
      · rename_i hw
        have hno : s.own ≠ .s := by intro hc; rcases h4 hc with h | h <;> rw [hw] at h <;> cases h
        have hnt : s.thd ≠ .s := by
          intro hc; rcases h8 hc with h | h <;> rw [hw] at h <;> simp [SPC.holdsT] at h
        refine { ownD := h1, ownW := h2, ownS1 := ?_, ownS2 := ?_, thdD := h5, thdW := h6, thdS1 := ?_,
                 thdS2 := ?_, canc := ?_ }
        · simp
        · intro hc; exact absurd hc hno
        · simp [SPC.holdsT]
        · intro hc; exact absurd hc hnt
        · simp
      · rename_i hw
        have hno : s.own ≠ .s := by intro hc; rcases h4 hc with h | h <;> rw [hw] at h <;> cases h
        have hnt : s.thd ≠ .s := by
          intro hc; rcases h8 hc with h | h <;> rw [hw] at h <;> simp [SPC.holdsT] at h
        refine { ownD := h1, ownW := h2, ownS1 := ?_, ownS2 := ?_, thdD := h5, thdW := h6, thdS1 := ?_,
                 thdS2 := ?_, canc := ?_ }
        · split <;> simp
        · intro hc; exact absurd hc hno
        · split <;> simp [SPC.holdsT]
        · intro hc; exact absurd hc hnt
        · split <;> simp
    · simp at hs
  | lockT =>
    simp only [sStep] at hs
    split at hs <;> simp at hs <;> subst hs
    · rename_i ht hw
      have hno : s.own ≠ .s := by intro hc; rcases h4 hc with h | h <;> rw [hw] at h <;> cases h
      have hnw : ∀ j, holdsT (pc s j) = false := by
        intro j; cases hh : holdsT (pc s j) with
        | false => rfl
        | true => have := (h6 j).mpr hh; rw [ht] at this; cases this
      refine { ownD := h1, ownW := h2, ownS1 := ?_, ownS2 := ?_, thdD := ?_, thdW := ?_, thdS1 := ?_,
               thdS2 := ?_, canc := ?_ }
      · simp
      · intro hc; exact absurd hc hno
      · simp
      · intro j; show Own.s = Own.w j ↔ holdsT (pc s j) = true; simp [hnw j]
      · intro _; rfl
      · intro _; exact Or.inl rfl
      · simp
    · rename_i ht hw
      have hno : s.own ≠ .s := by intro hc; rcases h4 hc with h | h <;> rw [hw] at h <;> cases h
      have hnw : ∀ j, holdsT (pc s j) = false := by
        intro j; cases hh : holdsT (pc s j) with
        | false => rfl
        | true => have := (h6 j).mpr hh; rw [ht] at this; cases this
      refine { ownD := h1, ownW := h2, ownS1 := ?_, ownS2 := ?_, thdD := ?_, thdW := ?_, thdS1 := ?_,
               thdS2 := ?_, canc := ?_ }
      · simp
      · intro hc; exact absurd hc hno
      · simp
      · intro j; show Own.s = Own.w j ↔ holdsT (pc s j) = true; simp [hnw j]
      · intro _; rfl
      · intro _; exact Or.inl rfl
      · simp
  | fwd h =>
    simp only [sStep] at hs
    split at hs <;> (try split at hs) <;> simp at hs; subst hs
    rename_i k hw _
    have hts : s.thd = .s := h7 (by rw [hw]; rfl)
    have hno : s.own ≠ .s := by intro hc; rcases h4 hc with h | h <;> rw [hw] at h <;> cases h
    refine { ownD := h1, ownW := h2, ownS1 := ?_, ownS2 := ?_, thdD := h5, thdW := h6, thdS1 := ?_,
             thdS2 := ?_, canc := ?_ }
    · simp
    · intro hc; exact absurd hc hno
    · intro _; exact hts
    · intro _; exact Or.inl rfl
    · simp
  | unlockT =>
    simp only [sStep] at hs
    split at hs
    · simp only [Option.some.injEq] at hs; subst hs
      rename_i hw
      have hts : s.thd = .s := h7 (by rw [hw]; rfl)
      have hno : s.own ≠ .s := by intro hc; rcases h4 hc with h | h <;> rw [hw] at h <;> cases h
      have hnw : ∀ j, holdsT (pc s j) = false := by
        intro j; cases hh : holdsT (pc s j) with
        | false => rfl
        | true => have := (h6 j).mpr hh; rw [hts] at this; cases this
      refine { ownD := h1, ownW := h2, ownS1 := ?_, ownS2 := ?_, thdD := ?_, thdW := ?_, thdS1 := ?_,
               thdS2 := ?_, canc := ?_ }
      · simp
      · intro hc; exact absurd hc hno
      · simp
      · intro j; show Own.none = Own.w j ↔ holdsT (pc s j) = true; simp [hnw j]
      · simp [SPC.holdsT]
      · simp
      · simp
    · simp only [Option.some.injEq] at hs; subst hs
      rename_i k hw
      have hts : s.thd = .s := h7 (by rw [hw]; rfl)
      have hno : s.own ≠ .s := by intro hc; rcases h4 hc with h | h <;> rw [hw] at h <;> cases h
      have hnw : ∀ j, holdsT (pc s j) = false := by
        intro j; cases hh : holdsT (pc s j) with
        | false => rfl
        | true => have := (h6 j).mpr hh; rw [hts] at this; cases this
      refine { ownD := h1, ownW := h2, ownS1 := ?_, ownS2 := ?_, thdD := ?_, thdW := ?_, thdS1 := ?_,
               thdS2 := ?_, canc := ?_ }
      · simp
      · intro hc; exact absurd hc hno
      · simp
      · intro j; show Own.none = Own.w j ↔ holdsT (pc s j) = true; simp [hnw j]
      · simp [SPC.holdsT]
      · simp
      · simp
    · split at hs <;> simp at hs; subst hs
      rename_i k hw _
      have hts : s.thd = .s := h7 (by rw [hw]; rfl)
      have hno : s.own ≠ .s := by intro hc; rcases h4 hc with h | h <;> rw [hw] at h <;> cases h
      have hnw : ∀ j, holdsT (pc s j) = false := by
        intro j; cases hh : holdsT (pc s j) with
        | false => rfl
        | true => have := (h6 j).mpr hh; rw [hts] at this; cases this
      refine { ownD := h1, ownW := h2, ownS1 := ?_, ownS2 := ?_, thdD := ?_, thdW := ?_, thdS1 := ?_,
               thdS2 := ?_, canc := ?_ }
      · simp
      · intro hc; exact absurd hc hno
      · simp
      · intro j; show Own.none = Own.w j ↔ holdsT (pc s j) = true; simp [hnw j]
      · simp [SPC.holdsT]
      · simp
      · simp
    · simp at hs
  | lock =>
    simp only [sStep] at hs
    split at hs <;> simp at hs; subst hs
    rename_i ho hw
    have hnt : s.thd ≠ .s := by
      intro hc; rcases h8 hc with h | h <;> rw [hw] at h <;> simp [SPC.holdsT] at h
    have hnh : s.dpc.holds = false := by
      cases hh : s.dpc.holds with
      | false => rfl
      | true => have := h1.mpr hh; rw [ho] at this; cases this
    have hnw : ∀ j, holdsW (pc s j) = false := by
      intro j; cases hh : holdsW (pc s j) with
      | false => rfl
      | true => have := (h2 j).mpr hh; rw [ho] at this; cases this
    refine { ownD := ?_, ownW := ?_, ownS1 := ?_, ownS2 := ?_, thdD := h5, thdW := h6, thdS1 := ?_,
             thdS2 := ?_, canc := ?_ }
    · simp [hnh]
    · intro j; show Own.s = Own.w j ↔ holdsW (pc s j) = true; simp [hnw j]
    · intro _; rfl
    · intro _; exact Or.inl rfl
    · simp [SPC.holdsT]
    · intro hc; exact absurd hc hnt
    · simp
  | unlock =>
    simp only [sStep] at hs
    split at hs <;> simp at hs; subst hs
    rename_i hw
    have ho : s.own = .s := h3 hw
    have hnt : s.thd ≠ .s := by
      intro hc; rcases h8 hc with h | h <;> rw [hw] at h <;> simp [SPC.holdsT] at h
    have hnh : s.dpc.holds = false := by
      cases hh : s.dpc.holds with
      | false => rfl
      | true => have := h1.mpr hh; rw [ho] at this; cases this
    have hnw : ∀ j, holdsW (pc s j) = false := by
      intro j; cases hh : holdsW (pc s j) with
      | false => rfl
      | true => have := (h2 j).mpr hh; rw [ho] at this; cases this
    refine { ownD := ?_, ownW := ?_, ownS1 := ?_, ownS2 := ?_, thdD := h5, thdW := h6, thdS1 := ?_,
             thdS2 := ?_, canc := ?_ }
    · simp [hnh]
    · intro j; show Own.none = Own.w j ↔ holdsW (pc s j) = true; simp [hnw j]
    · simp
    · simp
    · simp [SPC.holdsT]
    · intro hc; exact absurd hc hnt
    · simp
  | stop =>
    simp only [sStep] at hs
    split at hs <;> simp at hs; subst hs
    rename_i hw
    have hno : s.own ≠ .s := by intro hc; rcases h4 hc with h | h <;> rw [hw] at h <;> cases h
    have hnt : s.thd ≠ .s := by
      intro hc; rcases h8 hc with h | h <;> rw [hw] at h <;> simp [SPC.holdsT] at h
    refine { ownD := h1, ownW := h2, ownS1 := ?_, ownS2 := ?_, thdD := h5, thdW := h6, thdS1 := ?_,
             thdS2 := ?_, canc := ?_ }
    · simp
    · intro hc; exact absurd hc hno
    · simp [SPC.holdsT]
    · intro hc; exact absurd hc hnt
    · simp
  | exit c =>
    simp only [sStep] at hs
    split at hs <;> (try split at hs) <;> simp at hs; subst hs
    exact ⟨h1, h2, h3, h4, h5, h6, h7, h8, h9⟩
  | die =>
    simp only [sStep] at hs
    split at hs <;> simp at hs; subst hs
    rename_i hg
    refine { ownD := h1, ownW := h2, ownS1 := ?_, ownS2 := ?_, thdD := h5, thdW := h6, thdS1 := ?_, thdS2 := ?_,
             canc := ?_ }
    · intro hc; cases hc
    · intro _; exact Or.inr rfl
    · intro hc; simp [SPC.holdsT] at hc
    · intro _; exact Or.inr rfl
    · intro _; exact hcv.fin hg.1

/-- the only S step that touches `ws`, `ts`, `tc`, the dispatcher or `sig` is the cancellation -/
theorem s_step_frame {s s' : St} {a : SAct} (hs : sStep s a = some s') :
    s'.ws = s.ws ∧ s'.tc = s.tc ∧ s'.dpc = s.dpc ∧ s'.i = s.i ∧ s'.sig = s.sig ∧ s'.f = s.f ∧
      (s'.ts = s.ts ∨ (a = .lock ∧ s'.ts = s.ts.map cancelT)) := by
  cases a <;> simp only [sStep] at hs <;> (try split at hs) <;> (try split at hs) <;> (try split at hs) <;>
    simp at hs <;> (try (obtain ⟨_, hs⟩ := hs)) <;> (try subst hs) <;> simp_all

theorem tinv_s {s s' : St} {a : SAct} (ht : TInv s) (hs : sStep s a = some s') : TInv s' := by
  obtain ⟨hws, _, _, _, _, _, hts⟩ := s_step_frame hs
  have ⟨hl, hok⟩ := ht
  rcases hts with hts | ⟨_, hts⟩
  · exact ⟨by rw [hts, hws]; exact hl, fun j => by rw [pc_congr hws, tsAt_congr hts]; exact hok j⟩
  · refine ⟨by rw [hts, hws]; simpa using hl, fun j => ?_⟩
    rw [pc_congr hws]
    show okTS (pc s j) (s'.ts.getD j .new) = true
    rw [hts, tsAt_cancel]
    split
    · exact okTS_cancelT (hok j)
    · rename_i hj
      have : pc s j = .idle := getD_ge' (by omega)
      rw [this]; rfl

theorem frontier_le {s : St} (hf : FInv s) : frontier s ≤ s.ws.length := by
  simp only [frontier]
  split
  · rename_i hd; have := hf.disp (by rw [hd]; rfl); omega
  · cases hd : s.dpc.dispatching with
    | true => have := hf.disp hd; omega
    | false => have := hf.drain hd; omega

theorem finv_s {s s' : St} {a : SAct} (ht : TInv s) (hf : FInv s) (hs : sStep s a = some s') : FInv s' := by
  obtain ⟨hws, htc, hdpc, hi, hsig, hff, hts⟩ := s_step_frame hs
  have ⟨h1, h2, h3, h4, h5, h6, h7, h8, h9, h10⟩ := hf
  have hfr : frontier s' = frontier s := by simp [frontier, hdpc, hi]
  refine { cnt := by rw [htc, hws]; exact h1, front1 := ?_, front2 := ?_, disp := ?_, drain := ?_, waitEq := ?_,
           dwaitPos := ?_, fin := ?_, park := ?_, dpark := ?_ }
  · intro j hj; rw [pc_congr hws]; exact h2 j (by rw [← hfr]; exact hj)
  · intro j hj hid
    rw [pc_congr hws] at hid; rw [hfr] at hj
    have hc := h3 j hj hid
    rcases hts with hts | ⟨_, hts⟩
    · rw [tsAt_congr hts]; exact hc
    · show s'.ts.getD j .new = .canceled
      rw [hts, tsAt_cancel, if_pos (by have := frontier_le hf; rw [ht.len]; omega), hc]; rfl
  · rw [hdpc, hi, hws]; exact h4
  · rw [hdpc, hi, hws]; exact h5
  · rw [hdpc, htc, hff]; exact h6
  · rw [hdpc, htc]; exact h7
  · rw [hdpc, hws]; intro hc j hj; rw [pc_congr hws]; exact h8 hc j hj
  · rw [hdpc, hsig, htc, hws, hff]; exact h9
  · rw [hdpc, hsig, htc, hws]; exact h10

/-! ## environment steps -/

theorem e_step_frame {s s' : St} {a : EAct} (hs : eStep s a = some s') :
    s'.ws = s.ws ∧ s'.ts = s.ts ∧ s'.tc = s.tc ∧ s'.dpc = s.dpc ∧ s'.i = s.i ∧ s'.sig = s.sig ∧ s'.f = s.f ∧
      s'.own = s.own ∧ s'.thd = s.thd ∧ s'.spc = s.spc := by
  cases a <;> simp only [eStep] at hs <;> (try split at hs) <;> simp at hs <;> subst hs <;> simp

theorem ginv_e {s s' : St} {a : EAct} (hw : GInv s) (hs : eStep s a = some s') : GInv s' := by
  have ⟨g1, g2, g3, g4, g5, g6, g7, g8, g9, g10, g11⟩ := hw
  cases a <;> simp only [eStep] at hs <;> (try split at hs) <;> simp at hs <;> subst hs <;>
    exact ⟨g1, g2, g3, g4, g5, g6, g7, g8, g9, g10, g11⟩

theorem cinv_e {s s' : St} {a : EAct} (hc : CInv s) (hs : eStep s a = some s') : CInv s' := by
  have ⟨c1, c2, c3, c4⟩ := hc
  cases a <;> simp only [eStep] at hs <;> (try split at hs) <;> simp at hs <;> subst hs <;> exact ⟨c1, c2, c3, c4⟩

theorem inv_e {s s' : St} {a : EAct} (h : Inv s) (hs : eStep s a = some s') : Inv s' := by
  obtain ⟨hws, hts, htc, hdpc, hi, hsig, hff, hown, hthd, hspc⟩ := e_step_frame hs
  have hpc : ∀ j, pc s' j = pc s j := pc_congr hws
  have hfr : frontier s' = frontier s := by simp [frontier, hdpc, hi]
  obtain ⟨⟨m1, m2, m3, m4, m5, m6, m7, m8, m9⟩, ⟨t1, t2⟩, ⟨f1, f2, f3, f4, f5, f6, f7, f8, f9, f10⟩, hwd, hcv⟩ := h
  refine ⟨⟨?_, ?_, ?_, ?_, ?_, ?_, ?_, ?_, ?_⟩, ⟨?_, ?_⟩, ⟨?_, ?_, ?_, ?_, ?_, ?_, ?_, ?_, ?_, ?_⟩, ginv_e hwd hs,
          cinv_e hcv hs⟩
  · rw [hown, hdpc]; exact m1
  · intro j; rw [hown, hpc]; exact m2 j
  · rw [hown, hspc]; exact m3
  · rw [hown, hspc]; exact m4
  · rw [hthd]; exact m5
  · intro j; rw [hthd, hpc]; exact m6 j
  · rw [hthd, hspc]; exact m7
  · rw [hthd, hspc]; exact m8
  · rw [hspc, hdpc]; exact m9
  · rw [hts, hws]; exact t1
  · intro j; rw [hpc, tsAt_congr hts]; exact t2 j
  · rw [htc, hws]; exact f1
  · intro j hj; rw [hpc]; exact f2 j (by rw [← hfr]; exact hj)
  · intro j hj hid; rw [hpc] at hid; rw [tsAt_congr hts]; exact f3 j (by rw [← hfr]; exact hj) hid
  · rw [hdpc, hi, hws]; exact f4
  · rw [hdpc, hi, hws]; exact f5
  · rw [hdpc, htc, hff]; exact f6
  · rw [hdpc, htc]; exact f7
  · rw [hdpc, hws]; intro hc j hj; rw [hpc]; exact f8 hc j hj
  · rw [hdpc, hsig, htc, hws, hff]; exact f9
  · rw [hdpc, hsig, htc, hws]; exact f10

/-! ## the watchdog (STALEID repair): its own steps, and `GInv` under every step -/

theorem minv_g {s s' : St} {a : GAct} (hm : MInv s) (hw : GInv s) (hs : gStep s a = some s') : MInv s' := by
  have ⟨h1, h2, h3, h4, h5, h6, h7, h8, h9⟩ := hm
  cases a with
  | wake =>
    simp only [gStep] at hs
    split at hs <;> simp at hs; subst hs
    exact ⟨h1, h2, h3, h4, h5, h6, h7, h8, h9⟩
  | lockT =>
    simp only [gStep] at hs
    split at hs <;> simp at hs; subst hs
    rename_i ht _
    have hnw : ∀ j, holdsT (pc s j) = false := by
      intro j; cases hh : holdsT (pc s j) with
      | false => rfl
      | true => have := (h6 j).mpr hh; rw [ht] at this; cases this
    have hns : s.spc.holdsT = false := by
      cases hh : s.spc.holdsT with
      | false => rfl
      | true => have := h7 hh; rw [ht] at this; cases this
    refine { ownD := h1, ownW := h2, ownS1 := h3, ownS2 := h4, thdD := ?_, thdW := ?_, thdS1 := ?_, thdS2 := ?_,
             canc := h9 }
    · simp
    · intro j; show Own.g = Own.w j ↔ holdsT (pc s j) = true; simp [hnw j]
    · intro hc; have hc' : s.spc.holdsT = true := hc; rw [hns] at hc'; cases hc'
    · intro hc; cases hc
  | unlockT =>
    simp only [gStep] at hs
    split at hs <;> simp at hs; subst hs
    rename_i k hg
    have ht : s.thd = .g := hw.thdG1 (by rw [hg]; rfl)
    have hnw : ∀ j, holdsT (pc s j) = false := by
      intro j; cases hh : holdsT (pc s j) with
      | false => rfl
      | true => have := (h6 j).mpr hh; rw [ht] at this; cases this
    have hns : s.spc.holdsT = false := by
      cases hh : s.spc.holdsT with
      | false => rfl
      | true => have := h7 hh; rw [ht] at this; cases this
    refine { ownD := h1, ownW := h2, ownS1 := h3, ownS2 := h4, thdD := ?_, thdW := ?_, thdS1 := ?_, thdS2 := ?_,
             canc := h9 }
    · simp
    · intro j; show Own.none = Own.w j ↔ holdsT (pc s j) = true; simp [hnw j]
    · intro hc; have hc' : s.spc.holdsT = true := hc; rw [hns] at hc'; cases hc'
    · intro hc; cases hc

theorem tinv_g {s s' : St} {a : GAct} (ht : TInv s) (hs : gStep s a = some s') : TInv s' := by
  rw [g_step_frame hs]; exact ⟨ht.len, ht.ok⟩

theorem finv_g {s s' : St} {a : GAct} (hf : FInv s) (hs : gStep s a = some s') : FInv s' := by
  have ⟨h1, h2, h3, h4, h5, h6, h7, h8, h9, h10⟩ := hf
  rw [g_step_frame hs]; exact ⟨h1, h2, h3, h4, h5, h6, h7, h8, h9, h10⟩

theorem ginv_g {s s' : St} {a : GAct} (hw : GInv s) (hs : gStep s a = some s') : GInv s' := by
  have ⟨g1, g2, g3, g4, g5, g6, g7, g8, g9, g10, g11⟩ := hw
  cases a with
  | wake =>
    simp only [gStep] at hs
    split at hs <;> simp at hs; subst hs
    rename_i hg
    have hnc : s.gcan = false := by
      cases hc : s.gcan with
      | false => rfl
      | true => exact absurd hg (g5 hc).1
    have hsw : s.sw = true := by
      cases hc : s.sw with
      | true => rfl
      | false => have := (g4 hc).1; rw [hg] at this; cases this
    refine ⟨?_, ?_, g3, ?_, ?_, ?_, ?_, ?_, ?_, g10, g11⟩
    · intro hc; dsimp only at hc; split at hc <;> simp [GPC.holds] at hc
    · intro hc; have := g2 hc; rw [hg] at this; cases this
    · intro hc; rw [hsw] at hc; cases hc
    · intro hc; rw [hnc] at hc; cases hc
    · intro hc; have := g6 hc; rw [hg] at this; cases this.2
    · intro hc; dsimp only at hc; split at hc <;> cases hc
    · intro _ hc; dsimp only at hc; split at hc <;> cases hc
    · intro k hc; dsimp only at hc
      split at hc
      · rcases hc with hc | hc <;> cases hc; assumption
      · rcases hc with hc | hc <;> cases hc
  | lockT =>
    simp only [gStep] at hs
    split at hs <;> simp at hs; subst hs
    rename_i k ht hg
    have hsw : s.sw = true := by
      cases hc : s.sw with
      | true => rfl
      | false => have := (g4 hc).1; rw [hg] at this; cases this
    refine ⟨fun _ => rfl, fun _ => rfl, g3, ?_, ?_, ?_, ?_, ?_, ?_, g10, g11⟩
    · intro hc; rw [hsw] at hc; cases hc
    · intro hc; exact ⟨by simp, by simp, (g5 hc).2.2⟩
    · intro hc; have := g6 hc; rw [hg] at this; cases this.2
    · intro hc; cases hc
    · intro _ hc; cases hc
    · intro k' hc; rcases hc with hc | hc <;> cases hc
      exact g9 k (Or.inl hg)
  | unlockT =>
    simp only [gStep] at hs
    split at hs <;> simp at hs; subst hs
    rename_i k hg
    have hsw : s.sw = true := by
      cases hc : s.sw with
      | true => rfl
      | false => have := (g4 hc).1; rw [hg] at this; cases this
    have hk := g9 k (Or.inr hg)
    refine ⟨?_, ?_, g3, ?_, ?_, ?_, ?_, ?_, ?_, g10, g11⟩
    · intro hc; dsimp only at hc; split at hc <;> (try split at hc) <;> simp [GPC.holds] at hc
    · intro hc; cases hc
    · intro hc; rw [hsw] at hc; cases hc
    · intro hc
      have hc' : s.gcan = true := hc
      refine ⟨?_, ?_, (g5 hc').2.2⟩ <;> dsimp only <;> split <;> simp
    · intro hc; have := g6 hc; rw [hg] at this; cases this.2
    · intro hc; dsimp only at hc
      split at hc
      · cases hc
      · split at hc
        · assumption
        · cases hc
    · intro _ hc; dsimp only at hc; split at hc <;> (try split at hc) <;> cases hc
    · intro k' hc; dsimp only at hc
      split at hc
      · rcases hc with hc | hc <;> cases hc; assumption
      · split at hc <;> rcases hc with hc | hc <;> cases hc

theorem ginv_w {s s' : St} {i : Nat} {a : WAct} (hm : MInv s) (hw : GInv s) (hs : wStep s i a = some s') :
    GInv s' := by
  obtain ⟨p, q, ⟨hi, hpci, hn, hgT, hgO⟩, rfl⟩ := w_facts hs
  have ⟨g1, g2, g3, g4, g5, g6, g7, g8, g9, g10, g11⟩ := hw
  have ⟨tp, _⟩ := tbl_holdsT hn
  have hthdI := hm.thdW i
  rw [hpci] at hthdI
  have e : ∀ x : St, (wEffect i x a).gpc = x.gpc ∧ (wEffect i x a).gcan = x.gcan ∧ (wEffect i x a).gjoin = x.gjoin ∧
      (wEffect i x a).sw = x.sw ∧ (wEffect i x a).spc = x.spc ∧ (wEffect i x a).dpc = x.dpc ∧
      (wEffect i x a).ts = x.ts := by intro x; cases a <;> simp [wEffect]
  obtain ⟨e1, e2, e3, e4, e5, e6, e7⟩ := e { s with ws := s.ws.set i q, ts := s.ts.set i (wWrite s.g a p (tsAt s i)) }
  refine ⟨?_, ?_, ?_, ?_, ?_, ?_, ?_, ?_, ?_, ?_, ?_⟩
  · rw [e1]; intro hc
    have ht := g1 hc
    cases a with
    | lockT | lockTF => have := hgT rfl; rw [this] at ht; cases ht
    | unlockT => have := hthdI.mpr (tp.mpr (Or.inr rfl)); rw [this] at ht; cases ht
    | _ => exact ht
  · rw [e1]; intro hc; apply g2
    cases a with
    | lockT | lockTF => simp [wEffect] at hc
    | unlockT => simp [wEffect] at hc
    | _ => exact hc
  · cases a with
    | lock => simp [wEffect]
    | unlock => simp [wEffect]
    | _ => exact g3
  · rw [e1, e2, e3, e4]; exact g4
  · rw [e1, e2, e6]; exact g5
  · rw [e1, e2, e3]; exact g6
  · rw [e1, e2]; exact g7
  · rw [e1, e4, e5]; exact g8
  · rw [e1, e7]; simpa using g9
  · rw [e3, e4, e5]; exact g10
  · rw [e5, e6]; exact g11

/-- the dispatcher's protocol operations proper leave the watchdog's bookkeeping alone, and are not taken while
    dsh() is finishing, nor before the signals thread exists -/
theorem d_plain_frame {s s' : St} {a : DAct}
    (ha : a ≠ .createG ∧ a ≠ .createS ∧ a ≠ .cancelG ∧ a ≠ .joinG ∧ a ≠ .cancelS ∧ a ≠ .ret)
    (hs : dStep s a = some s') :
    s'.gpc = s.gpc ∧ s'.gcan = s.gcan ∧ s'.gjoin = s.gjoin ∧ s'.sw = s.sw ∧ s'.spc = s.spc ∧ s'.thd = s.thd ∧
      s'.ts = s.ts ∧ (s'.own = s.own ∨ s'.own = .none ∨ s'.own = .d) ∧ s.dpc ≠ .finishing ∧ s.dpc ≠ .returned ∧
      (s.dpc = .top ∨ s.dpc = .dtop → s.spc ≠ .off) := by
  obtain ⟨a1, a2, a3, a4, a5, a6⟩ := ha
  cases a <;> (first | exact absurd rfl a1 | exact absurd rfl a2 | exact absurd rfl a3 | exact absurd rfl a4 |
      exact absurd rfl a5 | exact absurd rfl a6 | skip) <;>
    simp only [dStep] at hs <;> (repeat' split at hs) <;> simp [roomTest, drainTest] at hs <;>
    (try split at hs) <;> (try (obtain ⟨_, hs⟩ := hs)) <;> (try subst hs) <;> simp_all

theorem ginv_d {s s' : St} {a : DAct} (hm : MInv s) (hw : GInv s) (hs : dStep s a = some s') : GInv s' := by
  have ⟨g1, g2, g3, g4, g5, g6, g7, g8, g9, g10, g11⟩ := hw
  by_cases ha : a ≠ .createG ∧ a ≠ .createS ∧ a ≠ .cancelG ∧ a ≠ .joinG ∧ a ≠ .cancelS ∧ a ≠ .ret
  · obtain ⟨e1, e2, e3, e4, e5, e6, e7, e8, e9, e10, e11⟩ := d_plain_frame ha hs
    have hnc : s.gcan = false := by
      cases hc : s.gcan with
      | false => rfl
      | true => rcases (g5 hc).2.2 with h | h
                · exact absurd h e9
                · exact absurd h e10
    have hns : s.spc ≠ .cancelled := by
      intro hc; rcases hm.canc hc with h | h
      · exact e9 h
      · exact e10 h
    have hnoff : s.spc ≠ .off := fun hc => e11 (g11 hc) hc
    refine ⟨?_, ?_, ?_, ?_, ?_, ?_, ?_, ?_, ?_, ?_, ?_⟩
    · rw [e1, e6]; exact g1
    · rw [e1, e6]; exact g2
    · rcases e8 with h | h | h <;> rw [h]
      · exact g3
      · simp
      · simp
    · rw [e1, e2, e3, e4]; exact g4
    · rw [e2, hnc]; intro hc; cases hc
    · rw [e1, e2, e3]; exact g6
    · rw [e1, e2]; exact g7
    · rw [e1, e4, e5]; exact g8
    · rw [e1, e7]; exact g9
    · rw [e5]; intro hc; exact absurd hc hns
    · rw [e5]; intro hc; exact absurd hc hnoff
  · cases a with
    | createG =>
      simp only [dStep] at hs
      split at hs <;> (try split at hs) <;> simp at hs; subst hs
      rename_i hg hsp hsw
      have hnc : s.gcan = false := by
        cases hc : s.gcan with
        | false => rfl
        | true => exact absurd hg (g5 hc).2.1
      have hnj : s.gjoin = false := by
        cases hc : s.gjoin with
        | false => rfl
        | true => have := (g6 hc).1; rw [hnc] at this; cases this
      have hnt : s.thd ≠ .g := by intro hc; have := g2 hc; rw [hg] at this; cases this
      refine ⟨?_, ?_, g3, ?_, ?_, ?_, ?_, ?_, ?_, ?_, g11⟩
      · intro hc; dsimp only at hc; split at hc <;> simp [GPC.holds] at hc
      · intro hc; exact absurd hc hnt
      · intro hc; have hc' : s.sw = false := hc; rw [hsw] at hc'; cases hc'
      · intro hc; have hc' : s.gcan = true := hc; rw [hnc] at hc'; cases hc'
      · intro hc; have hc' : s.gjoin = true := hc; rw [hnj] at hc'; cases hc'
      · intro hc; dsimp only at hc; split at hc <;> cases hc
      · intro _ hc; dsimp only at hc; split at hc <;> cases hc
      · intro k hc; dsimp only at hc
        split at hc
        · rcases hc with hc | hc <;> cases hc; assumption
        · rcases hc with hc | hc <;> cases hc
      · intro hc; have hc' : s.spc = .cancelled := hc; rw [hsp] at hc'; cases hc'
    | createS =>
      simp only [dStep] at hs
      split at hs <;> (try split at hs) <;> simp at hs; subst hs
      rename_i hsp hgd
      refine ⟨g1, g2, g3, g4, g5, g6, g7, ?_, g9, ?_, ?_⟩
      · intro h1 h2; exact absurd ⟨h1, h2⟩ hgd
      · intro hc; cases hc
      · intro hc; cases hc
    | cancelG =>
      simp only [dStep] at hs
      split at hs <;> (try split at hs) <;> simp at hs; subst hs
      rename_i hd hg
      obtain ⟨hsw, hnc⟩ := hg
      have hnoff : s.gpc ≠ .off := by
        intro hc
        rcases g11 (g8 hsw hc) with h | h <;> rw [hd] at h <;> cases h
      refine ⟨?_, ?_, g3, ?_, ?_, ?_, ?_, ?_, ?_, g10, g11⟩
      · intro hc; apply g1; dsimp only at hc; split at hc
        · simp [GPC.holds] at hc
        · exact hc
      · intro hc; have := g2 hc; dsimp only
        split
        · rename_i hsl; rw [hsl] at this; cases this
        · exact this
      · intro hc; have hc' : s.sw = false := hc; rw [hsw] at hc'; cases hc'
      · intro _; refine ⟨?_, ?_, Or.inl hd⟩ <;> dsimp only <;> split <;> simp_all
      · intro hc; have hc' : s.gjoin = true := hc; have := (g6 hc').1; rw [hnc] at this; cases this
      · intro _; rfl
      · intro _ hc; dsimp only at hc; split at hc
        · cases hc
        · exact absurd hc hnoff
      · intro k hc; apply g9 k; dsimp only at hc; split at hc
        · rcases hc with hc | hc <;> cases hc
        · exact hc
    | joinG =>
      simp only [dStep] at hs
      split at hs <;> (try split at hs) <;> simp at hs; subst hs
      rename_i hd hg
      obtain ⟨hc1, hc2, hc3⟩ := hg
      have hsw : s.sw = true := by
        cases hc : s.sw with
        | true => rfl
        | false => have := (g4 hc).2.1; rw [hc1] at this; cases this
      refine ⟨g1, g2, g3, ?_, g5, fun _ => ⟨hc1, hc2⟩, g7, g8, g9, fun _ _ => rfl, g11⟩
      intro hc; have hc' : s.sw = false := hc; rw [hsw] at hc'; cases hc'
    | cancelS =>
      simp only [dStep] at hs
      split at hs <;> (try split at hs) <;> simp at hs; subst hs
      exact ⟨g1, g2, g3, g4, g5, g6, g7, g8, g9, g10, g11⟩
    | ret =>
      simp only [dStep] at hs
      split at hs <;> (try split at hs) <;> simp at hs; subst hs
      rename_i hd hc
      refine ⟨g1, g2, g3, g4, ?_, g6, g7, g8, g9, g10, ?_⟩
      · intro h; have := g5 h; exact ⟨this.1, this.2.1, Or.inr rfl⟩
      · intro h; rcases g11 h with h' | h' <;> rw [hd] at h' <;> cases h'
    | lock | wait | wake _ | relock | create _ | unlock => exact absurd (by simp) ha

/-- what a step of the signals thread does to the mutexes and to its own program counter, in general -/
theorem s_step_ctl {s s' : St} {a : SAct} (ha : a ≠ .die) (hs : sStep s a = some s') :
    s'.gpc = s.gpc ∧ s'.gcan = s.gcan ∧ s'.gjoin = s.gjoin ∧ s'.sw = s.sw ∧
    s.spc ≠ .off ∧ s'.spc ≠ .off ∧ s'.spc ≠ .cancelled ∧
    (s'.thd = s.thd ∨ (s.thd = .none ∧ s'.thd = .s) ∨ (s.spc.holdsT = true ∧ s'.thd = .none)) ∧
    (s'.own = s.own ∨ s'.own = .s ∨ s'.own = .none) := by
  cases a <;> (first | exact absurd rfl ha | skip) <;>
    simp only [sStep] at hs <;> (repeat' split at hs) <;> simp at hs <;>
    (try (obtain ⟨_, hs⟩ := hs)) <;> (try subst hs) <;> simp_all [SPC.holdsT] <;> (try (split <;> simp))

theorem ginv_s {s s' : St} {a : SAct} (hm : MInv s) (hw : GInv s) (hcv : CInv s) (hs : sStep s a = some s') :
    GInv s' := by
  have ⟨g1, g2, g3, g4, g5, g6, g7, g8, g9, g10, g11⟩ := hw
  by_cases ha : a = .die
  · subst ha
    simp only [sStep] at hs
    split at hs <;> simp at hs; subst hs
    rename_i hg
    refine ⟨g1, g2, g3, g4, g5, g6, g7, ?_, g9, fun _ hsw => hcv.joined hg.1 hsw, ?_⟩
    · intro h1 h2; exact absurd (g8 h1 h2) hg.2.1
    · intro hc; cases hc
  obtain ⟨e1, e2, e3, e4, hnoff, hnoff', hnc', hthd, hown⟩ := s_step_ctl ha hs
  obtain ⟨_, _, hdpc, _, _, _, hts⟩ := s_step_frame hs
  have hlen : s'.ts.length = s.ts.length := by rcases hts with h | ⟨_, h⟩ <;> rw [h]; simp
  refine ⟨?_, ?_, ?_, ?_, ?_, ?_, ?_, ?_, ?_, ?_, ?_⟩
  · rw [e1]; intro hc
    have ht := g1 hc
    rcases hthd with h | ⟨h, _⟩ | ⟨h, _⟩
    · rw [h]; exact ht
    · rw [h] at ht; cases ht
    · have := hm.thdS1 h; rw [this] at ht; cases ht
  · rw [e1]; intro hc; apply g2
    rcases hthd with h | ⟨_, h⟩ | ⟨_, h⟩
    · rw [← h]; exact hc
    · rw [h] at hc; cases hc
    · rw [h] at hc; cases hc
  · rcases hown with h | h | h <;> rw [h]
    · exact g3
    · simp
    · simp
  · rw [e1, e2, e3, e4]; exact g4
  · rw [e1, e2, hdpc]; exact g5
  · rw [e1, e2, e3]; exact g6
  · rw [e1, e2]; exact g7
  · rw [e1, e4]; intro h1 h2; exact absurd (g8 h1 h2) hnoff
  · rw [e1, hlen]; exact g9
  · intro hc; exact absurd hc hnc'
  · intro hc; exact absurd hc hnoff'

/-! ## the cancellation request for the signals thread -/

theorem cinv_d {s s' : St} {a : DAct} (hc : CInv s) (hs : dStep s a = some s') : CInv s' := by
  have ⟨c1, c2, c3, c4⟩ := hc
  cases a <;> simp only [dStep] at hs <;> (repeat' split at hs) <;> simp [roomTest, drainTest] at hs <;>
    (try split at hs) <;> (try (obtain ⟨_, hs⟩ := hs)) <;> (try subst hs) <;>
    (refine ⟨?_, ?_, ?_, ?_⟩ <;> simp_all)

theorem cinv_w {s s' : St} {i : Nat} {a : WAct} (hc : CInv s) (hs : wStep s i a = some s') : CInv s' := by
  obtain ⟨p, q, _, rfl⟩ := w_facts hs
  have ⟨c1, c2, c3, c4⟩ := hc
  have e : ∀ x : St, (wEffect i x a).scan = x.scan ∧ (wEffect i x a).gjoin = x.gjoin ∧
      (wEffect i x a).sw = x.sw ∧ (wEffect i x a).spc = x.spc ∧ (wEffect i x a).dpc = x.dpc := by
    intro x; cases a <;> simp [wEffect]
  obtain ⟨e1, e2, e3, e4, e5⟩ := e { s with ws := s.ws.set i q, ts := s.ts.set i (wWrite s.g a p (tsAt s i)) }
  refine ⟨?_, ?_, ?_, ?_⟩
  · rw [e1, e5]; exact c1
  · rw [e1, e2, e3]; exact c2
  · rw [e1, e4]; exact c3
  · rw [e1, e3, e4, e5]; exact c4

theorem cinv_s {s s' : St} {a : SAct} (hc : CInv s) (hs : sStep s a = some s') : CInv s' := by
  have ⟨c1, c2, c3, c4⟩ := hc
  cases a <;> simp only [sStep] at hs <;> (repeat' split at hs) <;> simp at hs <;>
    (try (obtain ⟨_, hs⟩ := hs)) <;> (try subst hs) <;>
    (refine ⟨?_, ?_, ?_, ?_⟩ <;> simp_all)

/-! ## every step -/

theorem inv_step {s s' : St} {l : Label} (h : Inv s) (hs : step s l = some s') : Inv s' := by
  cases l with
  | d a =>
    have hd := step_d hs
    exact ⟨minv_d h.m h.f hd, tinv_d h.t h.f hd, finv_d h.m h.t h.f hd, ginv_d h.m h.w hd, cinv_d h.c hd⟩
  | w i a =>
    have hd := step_w hs
    exact ⟨minv_w h.m hd, tinv_w h.t hd, finv_w h.m h.t h.f hd, ginv_w h.m h.w hd, cinv_w h.c hd⟩
  | s a =>
    have hd := step_s hs
    exact ⟨minv_s h.m h.c hd, tinv_s h.t hd, finv_s h.t h.f hd, ginv_s h.m h.w h.c hd, cinv_s h.c hd⟩
  | e a => exact inv_e h (step_e hs)
  | g a =>
    have hd := step_wd hs
    exact ⟨minv_g h.m h.w hd, tinv_g h.t hd, finv_g h.f hd, ginv_g h.w hd, by rw [g_step_frame hd]; exact ⟨h.c.fin, h.c.joined, h.c.cs, h.c.ret⟩⟩

theorem inv_exec {s0 s : St} {ls : List Label} (h0 : Inv s0) (he : Exec s0 ls s) : Inv s := by
  induction he with
  | nil => exact h0
  | snoc _ hs ih => exact inv_step ih hs

theorem inv_reach {v g sw f n b t0 s} (h : Reach v g sw f n b t0 s) : Inv s := by
  obtain ⟨ls, he⟩ := h; exact inv_exec (inv_init v g sw f n b t0) he

end PdshVerif.Dsh.Sig
