/-
  -k (fail-fast) as a transition system over the EXIT model of property C08 (Dsh/Exit.lean): WHERE the process ends,
  with which status, and what has become of the sibling targets at that moment.

  Code modelled (src/pdsh/dsh.c):
    _rsh_thread      the poll loop: after every iteration `if (a->kill_on_fail) _die_if_signalled (a);`
                     the epilogue: `a->state = result; ... rv = rcmd_destroy (a->rcmd); if ((a->rc == 0) && (rv > 0)) a->rc = rv;
                     if (a->kill_on_fail && ((a->state == DSH_FAILED) || (a->rc > 0))) { _fwd_signal (SIGTERM); errx (...); }`
    _die_if_signalled  `if ((sig = (th->rc - 128)) <= 0) return 0; err (...); _fwd_signal (SIGTERM); errx (...);`  (exit 1)
    _fwd_signal      `for (i ...) if (t[i].state == DSH_READING) rcmd_signal (t[i].rcmd, signum);`
    dsh()            returns only when every thread has ended; main passes the value to exit

  The unit of progress of a worker inside its poll loop is one ITERATION: `_do_output` reads what has arrived and
  `_flush_lines` handles every complete line of it (`th->rc` updated per line: `lineStep`), and only then
  `_die_if_signalled` looks at `th->rc`.  How the lines of a target are cut into iterations is the schedule's choice
  (event `poll i n`: n further complete lines in this iteration).

  This is the fanout-UNCONSTRAINED system: `start i` is enabled for any target not yet started.  The executions of
  the real dispatcher (at most `fanout` targets in flight, started in order: Fan*.lean, property C03/C04) are a
  subset of the executions here, so what is proved here for every execution holds for every one of those.
-/
import PdshVerif.Dsh.Exit

namespace PdshVerif.Dsh.Exit.Kill
open PdshVerif PdshVerif.Dsh.Exit

/-- a target of the run: `none` = rcmd_create failed / canceled before its thread was created (DSH_CANCELED) -/
abbrev Target := Option Script

def hostOfT (fx : Fixes) : Target → Host
  | none => ⟨.canceled, 0⟩
  | some sc => hostOf fx sc

/-- where one worker stands -/
inductive Phase where
  | new                              -- thread not created: the command has not been started
  | connecting                       -- state DSH_RCMD: rcmd_connect under way
  | reading (seen : Nat) (rc : Int)  -- state DSH_READING: in the poll loop; `seen` complete stdout lines handled, `th->rc`
  | atEnd (st : State) (rc : Int)    -- loop left, `a->state = result` written; teardown not done yet
  | finished (h : Host)              -- teardown done and the -k test passed: status final, thread gone
  deriving DecidableEq, Repr

/-- which statement ended the process -/
inductive How where
  | midstream (i : Nat)              -- `_die_if_signalled` in worker i
  | teardown (i : Nat)               -- the -k test after `rcmd_destroy` in worker i
  | returned                         -- dsh() returned, main passed its value to exit
  deriving DecidableEq, Repr

inductive St where
  | run (ps : List Phase)
  /-- the process has ended: status, the statement that ended it, the phases of all targets AT THAT MOMENT, and the
      targets `_fwd_signal (SIGTERM)` reached -/
  | exited (code : Nat) (how : How) (ps : List Phase) (signalled : List Nat)
  deriving DecidableEq, Repr

inductive Ev where
  | start (i : Nat)                  -- dsh(): pthread_create for target i
  | connected (i : Nat)              -- rcmd_connect returned (with or without a descriptor)
  | poll (i n : Nat)                 -- one iteration of the poll loop of worker i that completes n further lines
  | leave (i : Nat)                  -- both streams at EOF, or the command time-out: the loop is left
  | teardown (i : Nat)               -- rcmd_destroy, the merge of its value, the -k test
  | ret                              -- every thread has ended: dsh() returns
  deriving DecidableEq, Repr

def isReading : Phase → Bool
  | .reading _ _ => true
  | _ => false

/-- `_fwd_signal`: the indices of the targets in state DSH_READING (`k` = index of the head) -/
def readingFrom (k : Nat) : List Phase → List Nat
  | [] => []
  | p :: ps => (if isReading p then [k] else []) ++ readingFrom (k + 1) ps

def readingIdx (ps : List Phase) : List Nat := readingFrom 0 ps

def isFinished : Phase → Bool
  | .finished _ => true
  | _ => false

def hostsOf : List Phase → List Host
  | [] => []
  | .finished h :: ps => h :: hostsOf ps
  | _ :: ps => hostsOf ps

def linesOf (sc : Script) : List Str := splitLines sc.stdout

/-- `th->rc` after `n` more complete lines -/
def rcAfter (fx : Fixes) (rc : Int) (ls : List Str) (seen n : Nat) : Int :=
  ((ls.drop seen).take n).foldl (lineStep fx) rc

def init (ts : List Target) : St :=
  .run (ts.map fun t => match t with | none => .finished ⟨.canceled, 0⟩ | some _ => .new)

def step (fx : Fixes) (fl : Flags) (ts : List Target) : St → Ev → Option St
  | .exited _ _ _ _, _ => none
  | .run ps, .start i =>
    match ps[i]?, ts[i]? with
    | some .new, some (some _) => some (.run (ps.set i .connecting))
    | _, _ => none
  | .run ps, .connected i =>
    match ps[i]?, ts[i]? with
    | some .connecting, some (some sc) =>
      some (.run (ps.set i (if sc.connectOk then .reading 0 0 else .atEnd .failed 0)))
    | _, _ => none
  | .run ps, .poll i n =>
    match ps[i]?, ts[i]? with
    | some (.reading seen rc), some (some sc) =>
      if seen + n ≤ (linesOf sc).length then
        let rc' := rcAfter fx rc (linesOf sc) seen n
        let ps' := ps.set i (.reading (seen + n) rc')
        if fl.k && decide (rc' - 128 > 0) then some (.exited 1 (.midstream i) ps' (readingIdx ps'))
        else some (.run ps')
      else none
    | _, _ => none
  | .run ps, .leave i =>
    match ps[i]?, ts[i]? with
    | some (.reading seen rc), some (some sc) =>
      if seen = (linesOf sc).length then
        some (.run (ps.set i (.atEnd (if sc.timedOut then .failed else .done) rc)))
      else none
    | _, _ => none
  | .run ps, .teardown i =>
    match ps[i]?, ts[i]? with
    | some (.atEnd st rc), some (some sc) =>
      let h : Host := ⟨st, finalRc rc sc.rv⟩
      if fl.k && kFails h then some (.exited 1 (.teardown i) ps (readingIdx ps))
      else some (.run (ps.set i (.finished h)))
    | _, _ => none
  | .run ps, .ret =>
    if ps.all isFinished then some (.exited (exitStatus (dshReturn fx fl (hostsOf ps))) .returned ps [])
    else none

/-- the state after a schedule (`none`: the schedule is not one of this run) -/
def exec (fx : Fixes) (fl : Flags) (ts : List Target) : St → List Ev → Option St
  | s, [] => some s
  | s, e :: es =>
    match step fx fl ts s e with
    | none => none
    | some s' => exec fx fl ts s' es

/-- the canonical complete schedule of one target: started, connected, everything read in one iteration, torn down -/
def whole (ts : List Target) (i : Nat) : List Ev :=
  match ts[i]? with
  | some (some sc) =>
    if sc.connectOk then [.start i, .connected i, .poll i (linesOf sc).length, .leave i, .teardown i]
    else [.start i, .connected i, .teardown i]
  | _ => []

/-- one target after the other (fanout 1), then the return -/
def sequential (ts : List Target) : List Ev := (List.range ts.length).flatMap (whole ts) ++ [.ret]

end PdshVerif.Dsh.Exit.Kill
