import PdshVerif.Dsh.TimedNoHang

/-! # Timed LTS: the teardown phase

After a worker has given up on its target (or the streams have ended) the target is *tearing down*: the worker
sits in `rcmd_destroy` until the remote command is gone (it exited by itself; or it was killed by the SIGTERM the
worker forwarded at the command timeout, unless it ignores SIGTERM), and only then goes on to release its fanout
slot.  This file: the facts about `death` / `reaped`, how they go with the worker's program counter, the in-flight
count of the Timed model, and the invariant used by the time bound (`MInv`). -/
namespace PdshVerif.Dsh.Timed
open PdshVerif.Dsh

/-! ## frames -/

theorem pollRound_td (now : Nat) (h : Host) :
    (h.pollRound now).reaped = h.reaped ∧ (h.pollRound now).death = h.death ∧ (h.pollRound now).grace = h.grace := by
  simp only [Host.pollRound]; split <;> simp

theorem oneRound_td (now : Nat) (h : Host) :
    (h.oneRound now).reaped = h.reaped ∧ (h.oneRound now).death = h.death ∧ (h.oneRound now).grace = h.grace := by
  simp only [Host.oneRound]; split <;> simp

theorem selfTimeout_td (c : Cfg) (now : Nat) (h : Host) :
    (h.selfTimeout c now).reaped = h.reaped ∧ (h.selfTimeout c now).grace = h.grace := by
  simp only [Host.selfTimeout]; split <;> simp

theorem wakeCore_td (c : Cfg) (now : Nat) (h : Host) :
    (h.wakeCore c now).reaped = h.reaped ∧ (h.wakeCore c now).grace = h.grace := by
  simp only [Host.wakeCore]
  split
  · split
    · simp
    · exact ⟨(pollRound_td _ _).1, (pollRound_td _ _).2.2⟩
  · split
    · exact ⟨(oneRound_td _ _).1, (oneRound_td _ _).2.2⟩
    · exact ⟨(pollRound_td _ _).1, (pollRound_td _ _).2.2⟩

/-- the phase an operation on a target starts from -/
def LocalPre (h : Host) (lo : Local) : Prop :=
  (lo = .connBegin → h.ph = .rcmd) ∧ (lo = .connEnd → h.ph = .connecting) ∧ (lo = .wake → h.ph = .reading) ∧
  (lo = .create → h.ph = .new) ∧ (lo = .destEnd → h.ph = .finished)

/-- only `rcmd_destroy` returning sets `reaped`; the script's `grace` is never touched -/
theorem hostStep_reaped (c : Cfg) (sc : Script) (now : Nat) (h : Host) (lo : Local) :
    (lo ≠ .destEnd → (hostStep c sc now h lo).reaped = h.reaped) ∧ (hostStep c sc now h lo).grace = h.grace := by
  cases lo with
  | create => simp [hostStep]
  | connBegin => simp [hostStep]
  | connEnd =>
    simp only [hostStep]
    split
    · simp
    · split
      · exact ⟨fun _ => (pollRound_td _ _).1, (pollRound_td _ _).2.2⟩
      · simp
      · simp
  | wake =>
    simp only [hostStep]
    exact ⟨fun _ => ((selfTimeout_td _ _ _).1).trans (wakeCore_td _ _ _).1,
           ((selfTimeout_td _ _ _).2).trans (wakeCore_td _ _ _).2⟩
  | scan => simp only [hostStep]; split <;> simp
  | destEnd => simp only [hostStep]; split <;> simp
  | other => simp [hostStep]

/-- a target that is `finished` stays so, and the fate of its command is sealed -/
theorem hostStep_fin {c : Cfg} {sc : Script} {now : Nat} {h : Host} {lo : Local} (hpre : LocalPre h lo)
    (hf : h.ph = .finished) :
    (hostStep c sc now h lo).ph = .finished ∧ (hostStep c sc now h lo).death = h.death := by
  obtain ⟨h1, h2, h3, h4, _⟩ := hpre
  cases lo with
  | create => have := h4 rfl; rw [hf] at this; cases this
  | connBegin => have := h1 rfl; rw [hf] at this; cases this
  | connEnd => have := h2 rfl; rw [hf] at this; cases this
  | wake => have := h3 rfl; rw [hf] at this; cases this
  | scan => simp only [hostStep]; split <;> simp [hf]
  | destEnd => simp only [hostStep]; split <;> simp [hf]
  | other => exact ⟨hf, rfl⟩

/-- whatever happens to target `j` in a step finds it in the phase that operation starts from -/
theorem local_pre {s s' : St} {l : Label} (hi : TInv s) (h : step s l = some s') {j : Nat} (hj : j < s.hs.length) :
    LocalPre (s.host j) (localOf j l) := by
  have hsy := hi.sync j hj
  unfold LocalPre
  cases l with
  | tick => simp [localOf]
  | scan => simp [localOf]
  | wake k =>
    obtain ⟨_, hph, _, _⟩ := dstep_wake_facts (by simpa [step] using h)
    by_cases hkj : k = j
    · subst hkj; simp [localOf, hph]
    · simp [localOf, hkj]
  | fan fl =>
    obtain ⟨hfs, _, _⟩ := dstep_fan_facts (by simpa [step] using h)
    cases fl with
    | d a =>
      obtain ⟨hcr, _⟩ := FanG.pc_step_d hi.fan hfs
      cases a with
      | create k =>
        obtain ⟨_, _, hidle⟩ := hcr k rfl
        by_cases hkj : k = j
        · subst hkj; rw [hidle] at hsy
          simp [localOf, fanLocal]; simpa [phOK] using hsy
        · simp [localOf, fanLocal, hkj]
      | lock | wait | wake _ | relock | unlock | ret => simp [localOf, fanLocal]
    | w k a =>
      obtain ⟨hpre, _, _⟩ := FanG.pc_step_w hfs
      by_cases hkj : k = j
      · subst hkj; rw [hpre] at hsy
        cases a <;> simp [localOf, fanLocal] <;> simpa [phOK, FanG.WAct.pre] using hsy
      · cases a <;> simp [localOf, fanLocal, hkj]

/-! ## `death` and `reaped` -/

theorem gone_mono {now : Nat} {h : Host} (hg : h.gone now = true) : h.gone (now + 1) = true := by
  simp only [Host.gone] at hg ⊢
  split at hg
  · cases hg
  · rename_i d hd
    have := of_decide_eq_true hg
    exact decide_eq_true (by omega)

theorem gone_congr {now : Nat} {h h' : Host} (hd : h'.death = h.death) : h'.gone now = h.gone now := by
  simp only [Host.gone, hd]

structure DHost (now : Nat) (h : Host) : Prop where
  pre : (h.ph = .new ∨ h.ph = .rcmd ∨ h.ph = .connecting) → h.death = some 0
  reapFin : h.reaped = true → h.ph = .finished
  gone : h.reaped = true → h.gone now = true

theorem dhost_init (c : Cfg) (sc : Script) (now : Nat) : DHost now (initHost c sc) := by
  constructor <;> simp [initHost]

theorem dhost_tick {now : Nat} {h : Host} (hd : DHost now h) : DHost (now + 1) h :=
  { pre := hd.pre, reapFin := hd.reapFin, gone := fun hr => gone_mono (hd.gone hr) }

theorem dhost_hostStep {c : Cfg} {sc : Script} {now wake : Nat} {h : Host} {lo : Local} (hd : DHost now h)
    (hi : HostInv c now wake h) (hw : wake ≤ now + WDOG_POLL) (hpre : LocalPre h lo)
    (hguard : lo = .destEnd → h.intr = true ∨ h.gone now = true) : DHost now (hostStep c sc now h lo) := by
  have hrp := (hostStep_reaped c sc now h lo).1
  by_cases hlo : lo = .destEnd
  · subst hlo
    have hfin := hpre.2.2.2.2 rfl
    obtain ⟨_, h2, _, h4⟩ := hostInv_destEnd (sc := sc) hi hfin
    have hint : h.intr = false := by
      cases hh : h.intr with
      | false => rfl
      | true => have := hi.intrPh hh; rw [hfin] at this; simp at this
    have hg : h.gone now = true := by
      rcases hguard rfl with hx | hx
      · rw [hint] at hx; cases hx
      · exact hx
    refine { pre := ?_, reapFin := fun _ => h2, gone := fun _ => by rw [gone_congr h4]; exact hg }
    intro hp; rw [h2] at hp; simp at hp
  · have hr := hrp hlo
    refine { pre := ?_, reapFin := ?_, gone := ?_ }
    · obtain ⟨h1, h2, h3, h4, _⟩ := hpre
      cases lo with
      | create => intro _; simp only [hostStep]; exact hd.pre (Or.inl (h4 rfl))
      | connBegin => intro _; simp only [hostStep]; exact hd.pre (Or.inr (Or.inl (h1 rfl)))
      | connEnd =>
        have hph := h2 rfl
        obtain ⟨_, hq⟩ := hostInv_connEnd (sc := sc) hi hph hw
        intro hp
        rcases hq with hq | hq | ⟨hc, hint⟩
        · rw [hq] at hp; simp at hp
        · rw [hq] at hp; simp at hp
        · simp only [hostStep, hint, Bool.false_eq_true, if_false, hc]
          exact hd.pre (Or.inr (Or.inr hph))
      | wake =>
        obtain ⟨_, hq⟩ := hostInv_wake (sc := sc) hi (h3 rfl) hw
        intro hp
        rcases hq with hq | hq <;> rw [hq] at hp <;> simp at hp
      | scan => simp only [hostStep]; split <;> exact hd.pre
      | destEnd => exact absurd rfl hlo
      | other => exact hd.pre
    · intro hx; rw [hr] at hx; exact (hostStep_fin hpre (hd.reapFin hx)).1
    · intro hx; rw [hr] at hx
      rw [gone_congr (hostStep_fin hpre (hd.reapFin hx)).2]; exact hd.gone hx

/-- how the worker's program counter and `reaped` go together: the slot is released (`torn` and later) only
    after `rcmd_destroy` has returned with the command gone -/
def rpOK : FanG.W → Bool → Prop
  | .idle, r => r = false
  | .started, r => r = false
  | .connecting, r => r = false
  | .connected, r => r = false
  | .tearing, r => r = false
  | _, r => r = true

/-- the teardown invariant of a state -/
structure DInv (s : St) : Prop where
  host : ∀ j, j < s.hs.length → DHost s.now (s.host j)
  reap : ∀ j, j < s.hs.length → rpOK (FanG.pc s.fan j) (s.host j).reaped

theorem dinv_init (v f c scripts) : DInv (init v f c scripts) := by
  constructor
  · intro j hj
    have hj' : j < scripts.length := by simpa [init] using hj
    rw [host_init v f c scripts hj']; exact dhost_init _ _ _
  · intro j hj
    have hj' : j < scripts.length := by simpa [init] using hj
    rw [host_init v f c scripts hj']
    show rpOK (FanG.pc (FanG.init v f scripts.length) j) _
    rw [FanG.pc_init]; simp [rpOK, initHost]

theorem dinv_step {s s' : St} {l : Label} (hi : TInv s) (hd : DInv s) (h : step s l = some s') : DInv s' := by
  have hpar := step_params h
  constructor
  · -- the per-host part
    intro j hj; rw [hpar.2.2] at hj
    rw [host_local' h hj]
    by_cases hl : l = .tick
    · subst hl
      obtain ⟨_, he⟩ := step_tick_facts h
      have : s'.now = s.now + 1 := by rw [he]
      rw [this]; simp only [localOf, hostStep_other]; exact dhost_tick (hd.host j hj)
    · have hnow : s'.now = s.now := by
        cases l with
        | fan fl => obtain ⟨_, _, he⟩ := dstep_fan_facts (by simpa [step] using h); rw [he]
        | wake i => obtain ⟨_, _, _, he⟩ := dstep_wake_facts (by simpa [step] using h); rw [he]
        | scan => obtain ⟨_, he⟩ := dstep_scan_facts (by simpa [step] using h); rw [he]
        | tick => exact absurd rfl hl
      rw [hnow]
      apply dhost_hostStep (hd.host j hj) (hi.hosts j hj) hi.wakeNow (local_pre hi h hj)
      intro hlo
      -- `rcmd_destroy` returns: the guard of the step
      cases l with
      | fan fl =>
        obtain ⟨_, hg, _⟩ := dstep_fan_facts (by simpa [step] using h)
        cases fl with
        | d a => cases a <;> simp [localOf, fanLocal] at hlo
                 rename_i k; split at hlo <;> cases hlo
        | w k a =>
          by_cases hkj : k = j
          · subst hkj
            cases a <;> simp [localOf, fanLocal] at hlo
            simpa [fanGuard] using hg
          · cases a <;> simp [localOf, fanLocal, hkj] at hlo
      | wake i => simp only [localOf] at hlo; split at hlo <;> cases hlo
      | scan => simp [localOf] at hlo
      | tick => simp [localOf] at hlo
  · -- program counter vs `reaped`
    intro j hj; rw [hpar.2.2] at hj
    have hr := hd.reap j hj
    have hrp := hostStep_reaped s.cfg (s.script j) s.now (s.host j) (localOf j l)
    rw [host_local' h hj]
    cases l with
    | tick =>
      obtain ⟨_, he⟩ := step_tick_facts h
      have : s'.fan = s.fan := by rw [he]
      rw [this, hrp.1 (by simp [localOf])]; exact hr
    | scan =>
      obtain ⟨_, he⟩ := dstep_scan_facts (by simpa [step] using h)
      have : s'.fan = s.fan := by rw [he]
      rw [this, hrp.1 (by simp [localOf])]; exact hr
    | wake i =>
      obtain ⟨_, _, _, he⟩ := dstep_wake_facts (by simpa [step] using h)
      have : s'.fan = s.fan := by rw [he]
      rw [this, hrp.1 (by simp only [localOf]; split <;> simp)]; exact hr
    | fan fl =>
      obtain ⟨hfs, _, _⟩ := dstep_fan_facts (by simpa [step] using h)
      cases fl with
      | d a =>
        obtain ⟨hcr, hpc⟩ := FanG.pc_step_d hi.fan hfs
        have hne : localOf j (.fan (.d a)) ≠ .destEnd := by
          cases a <;> simp [localOf, fanLocal]
          rename_i k; split <;> simp
        rw [hrp.1 hne, hpc j]
        cases a with
        | create k =>
          obtain ⟨_, _, hidle⟩ := hcr k rfl
          by_cases hkj : j = k
          · subst hkj; rw [hidle] at hr; simp only [if_true]; simpa [rpOK] using hr
          · simp only [hkj, if_false]; exact hr
        | lock | wait | wake _ | relock | unlock | ret => exact hr
      | w k a =>
        obtain ⟨hpre, _, hpc⟩ := FanG.pc_step_w hfs
        rw [hpc j]
        by_cases hkj : j = k
        · subst hkj
          rw [hpre] at hr
          simp only [if_true]
          cases a with
          | destroyEnd =>
            have hfin : (s.host j).ph = .finished := by
              have := hi.sync j hj; rw [hpre] at this; simpa [phOK, FanG.WAct.pre] using this
            obtain ⟨_, _, h3, _⟩ := hostInv_destEnd (sc := s.script j) (hi.hosts j hj) hfin
            simp only [localOf, fanLocal, if_true, h3]; simp [rpOK, FanG.WAct.post]
          | connectBegin | connectEnd | destroyBegin | lock | signal | unlock | unlockFirst | signalAfter =>
            rw [hrp.1 (by simp [localOf, fanLocal])]
            simpa [rpOK, FanG.WAct.pre, FanG.WAct.post] using hr
        · have hne : localOf j (.fan (.w k a)) ≠ .destEnd := by
            have hkj' : ¬ k = j := fun hc => hkj hc.symm
            cases a <;> simp [localOf, fanLocal, hkj']
          rw [hrp.1 hne]; simp only [hkj, if_false]; exact hr

theorem dinv_exec {v f c scripts} {ls : List Label} {s : St} (he : Exec (init v f c scripts) ls s) : DInv s := by
  induction he with
  | nil => exact dinv_init v f c scripts
  | snoc he' hs ih => exact dinv_step (tinv_exec (tinv_init v f c scripts) he') ih hs

/-! ## connections in flight, commands alive -/

/-- the connection to the target has been initiated and is not torn down: connect begun, `rcmd_destroy` has not
    returned -/
def Host.inflight (h : Host) : Bool :=
  (h.ph == .connecting || h.ph == .reading || h.ph == .finished) && !h.reaped

/-- the remote command is (still) running -/
def Host.alive (now : Nat) (h : Host) : Bool := !h.gone now

def St.inflight (s : St) : Nat := s.hs.countP Host.inflight
def St.alive (s : St) : Nat := s.hs.countP (Host.alive s.now)

theorem countP_congr_idx {α β : Type} (p : α → Bool) (q : β → Bool) (da : α) (db : β) :
    ∀ (l1 : List α) (l2 : List β), l1.length = l2.length →
      (∀ i, i < l1.length → p (l1.getD i da) = q (l2.getD i db)) → l1.countP p = l2.countP q := by
  intro l1
  induction l1 with
  | nil => intro l2 hl _; cases l2 with
    | nil => rfl
    | cons b bs => simp at hl
  | cons a as ih =>
    intro l2 hl hp
    cases l2 with
    | nil => simp at hl
    | cons b bs =>
      have h0 : p a = q b := by simpa using hp 0 (by simp)
      have ht := ih bs (by simpa using hl) (fun i hi => by simpa using hp (i + 1) (by simp; omega))
      simp only [List.countP_cons, h0, ht]

/-- a target is in flight in the Timed sense exactly when its worker is, in the Fan sense -/
theorem inflight_iff_flying {s : St} (hi : TInv s) (hd : DInv s) {j : Nat} (hj : j < s.hs.length) :
    (s.host j).inflight = FanG.flying (FanG.pc s.fan j) := by
  have h1 := hi.sync j hj
  have h2 := hd.reap j hj
  cases hw : FanG.pc s.fan j <;> rw [hw] at h1 h2 <;> simp only [phOK, rpOK] at h1 h2 <;>
    simp [Host.inflight, FanG.flying, h2]
  all_goals first
    | (rcases h1 with h1 | h1 <;> simp [h1])
    | simp [h1]

theorem inflight_eq_fan {s : St} (hi : TInv s) (hd : DInv s) : s.inflight = FanG.inflight s.fan := by
  unfold St.inflight FanG.inflight
  apply countP_congr_idx Host.inflight FanG.flying (initHost s.cfg defaultScript) FanG.W.idle _ _ hi.lenH
  intro j hj
  exact inflight_iff_flying hi hd hj

/-- a command that is alive belongs to a connection in flight -/
theorem alive_inflight {now : Nat} {h : Host} (hd : DHost now h) (ha : h.alive now = true) : h.inflight = true := by
  have hng : h.gone now = false := by simpa [Host.alive] using ha
  have hnr : h.reaped = false := by
    cases hr : h.reaped with
    | false => rfl
    | true => have := hd.gone hr; rw [hng] at this; cases this
  have hph : ¬ (h.ph = .new ∨ h.ph = .rcmd ∨ h.ph = .connecting) := by
    intro hp
    have := hd.pre hp
    simp [Host.gone, this] at hng
  simp only [Host.inflight, hnr, Bool.not_false, Bool.and_true]
  cases hp : h.ph <;> simp_all

/-! ## a stream that hangs; what is known about the end of a command -/

/-- the stream delivers data for a while and then hangs forever (no EOF, no error before that) -/
def hangsItems : List Item → Bool
  | [] => false
  | it :: rest => match it.t with
    | none => true
    | some _ => match it.kind with
      | .data _ => hangsItems rest
      | _ => false

theorem hangs_avail {base now : Nat} {it : Item} {rest : List Item} (h : hangsItems (it :: rest) = true)
    (ha : it.avail base now = true) : ∃ n, it.kind = .data n ∧ hangsItems rest = true := by
  cases ht : it.t with
  | none => simp [Item.avail, ht] at ha
  | some t =>
    simp only [hangsItems, ht] at h
    cases hk : it.kind with
    | data n => rw [hk] at h; exact ⟨n, rfl, h⟩
    | eof => rw [hk] at h; cases h
    | err => rw [hk] at h; cases h

theorem pumpItems_hangs (base now : Nat) : ∀ (items : List Item) (got : Nat), hangsItems items = true →
    (pumpItems base now items got).1.closed = false ∧ hangsItems (pumpItems base now items got).1.items = true := by
  intro items
  induction items with
  | nil => intro got h; simp [hangsItems] at h
  | cons it rest ih =>
    intro got h
    simp only [pumpItems]
    cases ha : it.avail base now with
    | true =>
      obtain ⟨n, hk, hr⟩ := hangs_avail h ha
      simp only [if_true, hk]; exact ih _ hr
    | false => simp [h]

theorem pump_hangs (base now : Nat) {st : Stream} (hc : st.closed = false) (hh : hangsItems st.items = true) :
    (st.pump base now).1.closed = false ∧ hangsItems (st.pump base now).1.items = true := by
  simp only [Stream.pump, hc, Bool.false_eq_true, if_false]; exact pumpItems_hangs base now _ _ hh

theorem pumpOne_hangs (base now : Nat) {st : Stream} (hc : st.closed = false) (hh : hangsItems st.items = true) :
    (st.pumpOne base now).1.closed = false ∧ hangsItems (st.pumpOne base now).1.items = true := by
  simp only [Stream.pumpOne, hc, Bool.false_eq_true, if_false]
  cases hi : st.items with
  | nil => rw [hi] at hh; simp [hangsItems] at hh
  | cons it rest =>
    rw [hi] at hh
    simp only []
    cases ha : it.avail base now with
    | true =>
      obtain ⟨n, hk, hr⟩ := hangs_avail hh ha
      simp [hk, hr]
    | false => simp [hc, hi, hh]

/-- a target whose stdout hangs never ends by itself -/
theorem pollRound_hangs (now : Nat) {h : Host} (hc : h.out.closed = false) (hh : hangsItems h.out.items = true) :
    (h.pollRound now).ph = h.ph ∧ (h.pollRound now).out.closed = false ∧
    hangsItems (h.pollRound now).out.items = true := by
  have po := pump_hangs h.conn now hc hh
  simp [Host.pollRound, po.1, po.2]

theorem oneRound_hangs (now : Nat) {h : Host} (hc : h.out.closed = false) (hh : hangsItems h.out.items = true) :
    (h.oneRound now).ph = h.ph ∧ (h.oneRound now).out.closed = false ∧
    hangsItems (h.oneRound now).out.items = true := by
  have po := pumpOne_hangs h.conn now hc hh
  simp [Host.oneRound, po.1, po.2]

/-- EVERY COMMAND ENDS: either it exits by itself within `K` seconds of the connect (whatever it does with
    signals), or it holds stdout open for ever — then only the command timeout ends it — and is gone within `K`
    seconds of the SIGTERM pdsh forwards at the command timeout -/
def Td (c : Cfg) (K : Nat) (sc : Script) : Prop :=
  (∃ l, sc.life = some l ∧ l ≤ K) ∨
  (sc.life = none ∧ hangsItems sc.out = true ∧ (∃ k, sc.grace = some k ∧ k ≤ K) ∧ 0 < c.ut)

structure MInv (sc : Script) (K : Nat) (h : Host) : Prop where
  grace : h.grace = sc.grace
  fresh : (h.ph = .new ∨ h.ph = .rcmd ∨ h.ph = .connecting) → h.out.items = sc.out ∧ h.out.closed = false
  rd : h.ph = .reading → (∃ d, h.death = some d ∧ d ≤ h.conn + K) ∨
        (h.death = none ∧ h.out.closed = false ∧ hangsItems h.out.items = true ∧ ∃ k, h.grace = some k ∧ k ≤ K)
  fin : h.ph = .finished → ∃ d, h.death = some d

theorem minv_init (c : Cfg) (sc : Script) (K : Nat) : MInv sc K (initHost c sc) := by
  constructor <;> simp [initHost]

theorem termDeath_some {g : Option Nat} {now : Nat} {d : Option Nat}
    (h : (∃ x, d = some x) ∨ ∃ k, g = some k) : ∃ x, termDeath g now d = some x := by
  cases g with
  | none =>
    rcases h with ⟨x, hx⟩ | ⟨k, hk⟩
    · exact ⟨x, by simp [termDeath, hx]⟩
    · cases hk
  | some k =>
    cases d with
    | none => exact ⟨_, rfl⟩
    | some x => exact ⟨_, rfl⟩

/-- giving up never makes a command that was going to end immortal; with `killAfter` it ends whatever it does -/
theorem Host.giveUp_death_some (c : Cfg) (now : Nat) (h : Host)
    (hx : ∃ x, termDeath h.grace now h.death = some x) : ∃ x, (Host.giveUp c now h).death = some x := by
  unfold Host.giveUp; split
  · exact termDeath_some (Or.inr ⟨_, rfl⟩)
  · exact hx

/-- THE REPAIR BOUNDS THE TEARDOWN: with `killAfter` a target that is given up on is gone one watchdog period later
    at the latest -- whatever its script says about its life and about SIGTERM -/
theorem Host.giveUp_kills {c : Cfg} (hk : c.killAfter = true) (now : Nat) (h : Host) :
    ∃ d, (Host.giveUp c now h).death = some d ∧ d ≤ now + WDOG_POLL ∧ (Host.giveUp c now h).hold = now + WDOG_POLL := by
  simp only [Host.giveUp, hk, if_true]
  cases hd : termDeath h.grace now h.death with
  | none => exact ⟨_, rfl, Nat.le_refl _, trivial⟩
  | some x => exact ⟨_, rfl, Nat.min_le_right _ _, trivial⟩

/-- a reading target is given up on (command timeout; SIGTERM forwarded) -/
theorem minv_timeout {sc : Script} {K now : Nat} {h h' : Host} (hm : MInv sc K h) (hph : h.ph = .reading)
    (hg : h'.grace = h.grace) (hf : h'.ph = .finished)
    (hd : (∃ x, termDeath h.grace now h.death = some x) → ∃ x, h'.death = some x) :
    MInv sc K h' := by
  refine { grace := hg.trans hm.grace, fresh := ?_, rd := ?_, fin := ?_ }
  · intro hp; rw [hf] at hp; simp at hp
  · intro hp; rw [hf] at hp; cases hp
  · intro _; apply hd
    apply termDeath_some
    rcases hm.rd hph with ⟨d, hd, _⟩ | ⟨_, _, _, k, hk, _⟩
    · exact Or.inl ⟨d, hd⟩
    · exact Or.inr ⟨k, hk⟩

/-- a poll round (all reads, or one pass) on a reading target -/
theorem minv_round {sc : Script} {K : Nat} {h h' : Host} (hm : MInv sc K h) (hph : h.ph = .reading)
    (hg : h'.grace = h.grace) (hd : h'.death = h.death) (hc : h'.conn = h.conn)
    (hp : h'.ph = h.ph ∨ h'.ph = .finished)
    (hh : h.out.closed = false → hangsItems h.out.items = true →
      h'.ph = h.ph ∧ h'.out.closed = false ∧ hangsItems h'.out.items = true) :
    MInv sc K h' := by
  refine { grace := hg.trans hm.grace, fresh := ?_, rd := ?_, fin := ?_ }
  · intro hx; rcases hp with hp | hp <;> rw [hp] at hx <;> simp [hph] at hx
  · intro _
    rcases hm.rd hph with ⟨d, hd', hle⟩ | ⟨hn, hcl, hhg, k, hk, hkK⟩
    · exact Or.inl ⟨d, by rw [hd]; exact hd', by rw [hc]; exact hle⟩
    · obtain ⟨_, h2, h3⟩ := hh hcl hhg
      exact Or.inr ⟨by rw [hd]; exact hn, h2, h3, k, by rw [hg]; exact hk, hkK⟩
  · intro hx
    rcases hm.rd hph with ⟨d, hd', _⟩ | ⟨_, hcl, hhg, _⟩
    · exact ⟨d, by rw [hd]; exact hd'⟩
    · obtain ⟨h1, _, _⟩ := hh hcl hhg
      rw [h1, hph] at hx; cases hx

theorem minv_selfTimeout {c : Cfg} {sc : Script} {K now : Nat} {h : Host} (hm : MInv sc K h) :
    MInv sc K (h.selfTimeout c now) := by
  simp only [Host.selfTimeout]
  split
  · rename_i hc
    exact minv_timeout (now := now) hm hc.2.1 (by simp) (by simp) (fun hx => Host.giveUp_death_some c now _ hx)
  · exact hm

theorem minv_wakeCore {c : Cfg} {sc : Script} {K now : Nat} {h : Host} (hm : MInv sc K h) (hp : h.ph = .reading) :
    MInv sc K (h.wakeCore c now) := by
  simp only [Host.wakeCore]
  split
  · split
    · exact minv_timeout (now := now) hm hp (by simp) (by simp) (fun hx => Host.giveUp_death_some c now _ hx)
    · let x : Host := { h with intr := false }
      have hxm : MInv sc K x := ⟨hm.grace, hm.fresh, hm.rd, hm.fin⟩
      have hf := pollRound_frame now x
      have htdf := pollRound_td now x
      exact minv_round hxm hp htdf.2.2 htdf.2.1 hf.2.2.1
        (by rcases pollRound_ph now x with hq | hq
            · exact Or.inl hq.1
            · exact Or.inr hq.1)
        (fun hc hh => pollRound_hangs now hc hh)
  · split
    · have hf := oneRound_frame now h
      have htdf := oneRound_td now h
      exact minv_round hm hp htdf.2.2 htdf.2.1 hf.2.2.1
        (by rcases oneRound_ph now h with hq | hq
            · exact Or.inl hq.1
            · exact Or.inr hq.1)
        (fun hc hh => oneRound_hangs now hc hh)
    · have hf := pollRound_frame now h
      have htdf := pollRound_td now h
      exact minv_round hm hp htdf.2.2 htdf.2.1 hf.2.2.1
        (by rcases pollRound_ph now h with hq | hq
            · exact Or.inl hq.1
            · exact Or.inr hq.1)
        (fun hc hh => pollRound_hangs now hc hh)

theorem minv_hostStep {c : Cfg} {sc : Script} {K now : Nat} {h : Host} {lo : Local} (htd : Td c K sc)
    (hm : MInv sc K h) (hd : DHost now h) (hpre : LocalPre h lo) :
    MInv sc K (hostStep c sc now h lo) := by
  obtain ⟨h1, h2, h3, h4, h5⟩ := hpre
  cases lo with
  | create =>
    have hp := h4 rfl
    exact { grace := hm.grace, fresh := fun _ => hm.fresh (Or.inl hp), rd := by simp [hostStep],
            fin := by simp [hostStep] }
  | connBegin =>
    have hp := h1 rfl
    exact { grace := hm.grace, fresh := fun _ => hm.fresh (Or.inr (Or.inl hp)), rd := by simp [hostStep],
            fin := by simp [hostStep] }
  | connEnd =>
    have hp := h2 rfl
    have hd0 := hd.pre (Or.inr (Or.inr hp))
    have hfr := hm.fresh (Or.inr (Or.inr hp))
    simp only [hostStep]
    split
    · exact { grace := hm.grace, fresh := by simp, rd := by simp, fin := fun _ => ⟨0, hd0⟩ }
    · split
      · -- connected
        let x : Host := { h with conn := now, ph := .reading, death := sc.life.map (now + ·) }
        have hxm : MInv sc K x := by
          refine { grace := hm.grace, fresh := by simp [x], rd := ?_, fin := by simp [x] }
          intro _
          rcases htd with ⟨l, hl, hlK⟩ | ⟨hn, hhg, ⟨k, hk, hkK⟩, _⟩
          · exact Or.inl ⟨now + l, by simp [x, hl], by simp [x]; omega⟩
          · refine Or.inr ⟨by simp [x, hn], hfr.2, by rw [show x.out = h.out from rfl, hfr.1]; exact hhg, k, ?_, hkK⟩
            rw [show x.grace = h.grace from rfl, hm.grace]; exact hk
        have hf := pollRound_frame now x
        have htdf := pollRound_td now x
        exact minv_round hxm rfl htdf.2.2 htdf.2.1 hf.2.2.1
          (by rcases pollRound_ph now x with hq | hq
              · exact Or.inl hq.1
              · exact Or.inr hq.1)
          (fun hc hh => pollRound_hangs now hc hh)
      · exact { grace := hm.grace, fresh := by simp, rd := by simp, fin := fun _ => ⟨0, hd0⟩ }
      · exact hm
  | wake =>
    have hp := h3 rfl
    simp only [hostStep]
    exact minv_selfTimeout (minv_wakeCore hm hp)
  | scan =>
    simp only [hostStep]; split
    · exact ⟨hm.grace, hm.fresh, hm.rd, hm.fin⟩
    · exact hm
  | destEnd =>
    simp only [hostStep]; split
    · exact ⟨hm.grace, hm.fresh, hm.rd, hm.fin⟩
    · exact ⟨hm.grace, hm.fresh, hm.rd, hm.fin⟩
  | other => exact hm

theorem minv_exec {v f c scripts} {K : Nat} {ls : List Label} {s : St} (he : Exec (init v f c scripts) ls s)
    (htd : ∀ j, j < scripts.length → Td c K (scripts.getD j defaultScript)) :
    ∀ j, j < scripts.length → MInv (s.script j) K (s.host j) := by
  induction he with
  | nil =>
    intro j hj
    rw [host_init v f c scripts hj]
    exact minv_init _ _ _
  | snoc he' hs ih =>
    rename_i ls0 s1 l0 s2
    intro j hj
    have hti := tinv_exec (tinv_init v f c scripts) he'
    have hdi := dinv_exec he'
    obtain ⟨hc, hscr, hlen, _⟩ := ginv_exec he'
    have hpar := step_params hs
    have hj' : j < s1.hs.length := by rw [hlen]; exact hj
    rw [script_congr hpar.2.1, host_local' hs hj']
    exact minv_hostStep (by rw [hc]; simp only [St.script, hscr]; exact htd j hj) (ih j hj)
      (hdi.host j hj') (local_pre hti hs hj')

/-! ## a command that never ends -/

/-- the script's command neither exits by itself nor reacts to SIGTERM: once it has been started (the connect
    succeeded), it is never gone -/
structure Imm (h : Host) : Prop where
  grace : h.grace = none
  early : h.res ≠ .none → h.ph = .finished
  started : (h.ph = .reading ∨ h.res = .done ∨ h.res = .cmdTimedOut) → h.death = none

theorem imm_init (c : Cfg) (sc : Script) (hg : sc.grace = none) : Imm (initHost c sc) := by
  constructor <;> simp [initHost, hg]

theorem wakeCore_immortal {c : Cfg} (hka : c.killAfter = false) {now : Nat} {h : Host} (hd : h.death = none)
    (hg : h.grace = none) : (h.wakeCore c now).death = none := by
  simp only [Host.wakeCore]
  split
  · split
    · simp [Host.giveUp, hka, termDeath, hd, hg]
    · rw [(pollRound_td _ _).2.1]; exact hd
  · split
    · rw [(oneRound_td _ _).2.1]; exact hd
    · rw [(pollRound_td _ _).2.1]; exact hd

theorem selfTimeout_immortal {c : Cfg} (hka : c.killAfter = false) {now : Nat} {h : Host} (hd : h.death = none)
    (hg : h.grace = none) : (h.selfTimeout c now).death = none := by
  simp only [Host.selfTimeout]
  split
  · simp [Host.giveUp, hka, termDeath, hd, hg]
  · exact hd

/-- a poll round gives a result only by finishing the target -/
theorem round_early {h h' : Host} (hr : h.res = .none)
    (hp : (h'.ph = h.ph ∧ h'.res = h.res) ∨ (h'.ph = .finished ∧ h'.res = .done)) : h'.res ≠ .none → h'.ph = .finished := by
  intro hne
  rcases hp with hp | hp
  · rw [hp.2] at hne; exact absurd hr hne
  · exact hp.1

theorem wakeCore_early {c : Cfg} {now : Nat} {h : Host} (hr : h.res = .none) :
    (h.wakeCore c now).res ≠ .none → (h.wakeCore c now).ph = .finished := by
  simp only [Host.wakeCore]
  split
  · split
    · simp
    · exact round_early (h := { h with intr := false }) hr (pollRound_ph _ _)
  · split
    · exact round_early hr (oneRound_ph _ _)
    · exact round_early hr (pollRound_ph _ _)

theorem selfTimeout_early {c : Cfg} {now : Nat} {x : Host} (hx : x.res ≠ .none → x.ph = .finished) :
    (x.selfTimeout c now).res ≠ .none → (x.selfTimeout c now).ph = .finished := by
  simp only [Host.selfTimeout]
  split
  · simp
  · exact hx

theorem imm_hostStep {c : Cfg} {sc : Script} {now : Nat} {h : Host} {lo : Local} (hka : c.killAfter = false)
    (hl : sc.life = none)
    (him : Imm h) (hpre : LocalPre h lo) : Imm (hostStep c sc now h lo) := by
  have hgr := (hostStep_reaped c sc now h lo).2
  obtain ⟨h1, h2, h3, h4, h5⟩ := hpre
  have hres0 : h.ph ≠ .finished → h.res = .none := by
    intro hp
    cases hr : h.res with
    | none => rfl
    | done | connFailed | connTimedOut | cmdTimedOut => exact absurd (him.early (by rw [hr]; simp)) hp
  cases lo with
  | create =>
    have hp := h4 rfl
    have hr := hres0 (by rw [hp]; simp)
    exact { grace := him.grace, early := by simp [hostStep, hr], started := by simp [hostStep, hr] }
  | connBegin =>
    have hp := h1 rfl
    have hr := hres0 (by rw [hp]; simp)
    exact { grace := him.grace, early := by simp [hostStep, hr], started := by simp [hostStep, hr] }
  | connEnd =>
    have hp := h2 rfl
    have hr := hres0 (by rw [hp]; simp)
    refine { grace := hgr.trans him.grace, early := ?_, started := ?_ }
    · simp only [hostStep]
      split
      · simp
      · split
        · exact round_early (h := { h with conn := now, ph := .reading, death := sc.life.map (now + ·) }) hr
            (pollRound_ph _ _)
        · simp
        · exact him.early
    · simp only [hostStep]
      split
      · simp
      · split
        · intro _; rw [(pollRound_td _ _).2.1]; simp [hl]
        · simp
        · intro hx
          rcases hx with hx | hx | hx
          · rw [hp] at hx; cases hx
          · rw [hr] at hx; cases hx
          · rw [hr] at hx; cases hx
  | wake =>
    have hp := h3 rfl
    have hd := him.started (Or.inl hp)
    have hr := hres0 (by rw [hp]; simp)
    refine { grace := hgr.trans him.grace, early := ?_, started := ?_ }
    · simp only [hostStep]
      exact selfTimeout_early (wakeCore_early hr)
    · intro _
      simp only [hostStep]
      exact selfTimeout_immortal hka (wakeCore_immortal hka hd him.grace) ((wakeCore_td _ _ _).2.trans him.grace)
  | scan =>
    simp only [hostStep]; split
    · exact ⟨him.grace, him.early, him.started⟩
    · exact him
  | destEnd =>
    simp only [hostStep]; split
    · exact ⟨him.grace, him.early, him.started⟩
    · exact ⟨him.grace, him.early, him.started⟩
  | other => exact him

theorem imm_exec {v f c scripts} {ls : List Label} {s : St} (he : Exec (init v f c scripts) ls s) {j : Nat}
    (hka : c.killAfter = false) (hj : j < scripts.length) (hl : (scripts.getD j defaultScript).life = none)
    (hg : (scripts.getD j defaultScript).grace = none) : Imm (s.host j) := by
  induction he with
  | nil =>
    rw [host_init v f c scripts hj]
    exact imm_init _ _ hg
  | snoc he' hs ih =>
    rename_i ls0 s1 l0 s2
    have hti := tinv_exec (tinv_init v f c scripts) he'
    obtain ⟨hc, hscr, hlen, _⟩ := ginv_exec he'
    have hj' : j < s1.hs.length := by rw [hlen]; exact hj
    rw [host_local' hs hj']
    exact imm_hostStep (by rw [hc]; exact hka) (by simp only [St.script, hscr]; exact hl) ih (local_pre hti hs hj')

/-! ## the grace wait exists only with `killAfter` -/

theorem hostStep_hold_off {c : Cfg} (hka : c.killAfter = false) (sc : Script) (now : Nat) (h : Host) (lo : Local) :
    (hostStep c sc now h lo).hold = h.hold := by
  have hp : ∀ x : Host, (x.pollRound now).hold = x.hold := by
    intro x; simp only [Host.pollRound]; split <;> rfl
  have ho : ∀ x : Host, (x.oneRound now).hold = x.hold := by
    intro x; simp only [Host.oneRound]; split <;> rfl
  have hw : ∀ x : Host, (x.wakeCore c now).hold = x.hold := by
    intro x; simp only [Host.wakeCore]
    split
    · split
      · rw [Host.giveUp_off hka]
      · rw [hp]
    · split
      · rw [ho]
      · rw [hp]
  have hs : ∀ x : Host, (x.selfTimeout c now).hold = x.hold := by
    intro x; simp only [Host.selfTimeout]; split
    · rw [Host.giveUp_off hka]
    · rfl
  cases lo with
  | create | connBegin | other => rfl
  | connEnd =>
    simp only [hostStep]; split
    · rfl
    · split
      · rw [hp]
      · rfl
      · rfl
  | wake => simp only [hostStep]; rw [hs, hw]
  | scan => simp only [hostStep]; split <;> rfl
  | destEnd => simp only [hostStep]; split <;> rfl

/-- on the tree as it is (`killAfter = false`) no worker ever waits before its teardown -/
theorem hold_exec {v f c scripts} {ls : List Label} {s : St} (he : Exec (init v f c scripts) ls s)
    (hka : c.killAfter = false) {j : Nat} (hj : j < scripts.length) : (s.host j).hold = 0 := by
  induction he with
  | nil => rw [host_init v f c scripts hj]; rfl
  | snoc he' hs ih =>
    rename_i ls0 s1 l0 s2
    obtain ⟨hc, _, hlen, _⟩ := ginv_exec he'
    have hj' : j < s1.hs.length := by rw [hlen]; exact hj
    rw [host_local' hs hj', hostStep_hold_off (by rw [hc]; exact hka)]
    exact ih

/-! ## with `killAfter` a target that was given up on is gone when its grace wait is over -/

/-- given up on => finished, and the command is gone by the instant before which the teardown does not begin -/
def KInv (h : Host) : Prop := h.res = .cmdTimedOut → h.ph = .finished ∧ ∃ d, h.death = some d ∧ d ≤ h.hold

theorem kinv_giveUp {c : Cfg} (hk : c.killAfter = true) (now : Nat) (h : Host) (hp : h.ph = .finished) :
    KInv (Host.giveUp c now h) := by
  intro _
  obtain ⟨d, h1, h2, h3⟩ := Host.giveUp_kills hk now h
  exact ⟨by simp [hp], d, h1, by rw [h3]; exact h2⟩

theorem kinv_round {h h' : Host} (hi : KInv h) (hnf : h.ph ≠ .finished)
    (hp : (h'.ph = h.ph ∧ h'.res = h.res) ∨ (h'.ph = .finished ∧ h'.res = .done)) : KInv h' := by
  intro hr
  rcases hp with hp | hp
  · rw [hp.2] at hr; exact absurd (hi hr).1 hnf
  · rw [hp.2] at hr; cases hr

theorem kinv_hostStep {c : Cfg} (hk : c.killAfter = true) {sc : Script} {now : Nat} {h : Host} {lo : Local}
    (hi : KInv h) (hpre : LocalPre h lo) : KInv (hostStep c sc now h lo) := by
  obtain ⟨h1, h2, h3, h4, _⟩ := hpre
  have keep : ∀ h' : Host, h'.res = h.res → h'.ph = h.ph → h'.death = h.death → h'.hold = h.hold → KInv h' := by
    intro h' e1 e2 e3 e4 hr
    rw [e1] at hr; rw [e2, e3, e4]; exact hi hr
  have noRes : ∀ h' : Host, h.ph ≠ .finished → h'.res = h.res → KInv h' := by
    intro h' hnf e1 hr; rw [e1] at hr; exact absurd (hi hr).1 hnf
  cases lo with
  | create => exact noRes _ (by rw [h4 rfl]; simp) rfl
  | connBegin => exact noRes _ (by rw [h1 rfl]; simp) rfl
  | other => exact hi
  | scan => simp only [hostStep]; split
            · exact keep _ rfl rfl rfl rfl
            · exact hi
  | destEnd => simp only [hostStep]; split
               · exact keep _ rfl rfl rfl rfl
               · exact keep _ rfl rfl rfl rfl
  | connEnd =>
    have hp := h2 rfl
    simp only [hostStep]; split
    · intro hr; cases hr
    · split
      · refine kinv_round (h := { h with conn := now, ph := .reading, death := sc.life.map (now + ·) }) ?_ (by simp)
          (pollRound_ph _ _)
        intro hr; exact absurd (hi hr).1 (by rw [hp]; simp)
      · intro hr; cases hr
      · exact hi
  | wake =>
    have hp := h3 rfl
    have hcore : KInv (h.wakeCore c now) := by
      simp only [Host.wakeCore]
      split
      · split
        · exact kinv_giveUp hk now _ rfl
        · refine kinv_round (h := { h with intr := false }) ?_ (by simp [hp]) (pollRound_ph _ _)
          intro hr; exact absurd (hi hr).1 (by rw [hp]; simp)
      · split
        · exact kinv_round hi (by rw [hp]; simp) (oneRound_ph _ _)
        · exact kinv_round hi (by rw [hp]; simp) (pollRound_ph _ _)
    simp only [hostStep, Host.selfTimeout]
    split
    · exact kinv_giveUp hk now _ rfl
    · exact hcore

theorem kinv_exec {v f c scripts} {ls : List Label} {s : St} (he : Exec (init v f c scripts) ls s)
    (hk : c.killAfter = true) {j : Nat} (hj : j < scripts.length) : KInv (s.host j) := by
  induction he with
  | nil => rw [host_init v f c scripts hj]; intro hr; cases hr
  | snoc he' hs ih =>
    rename_i ls0 s1 l0 s2
    have hti := tinv_exec (tinv_init v f c scripts) he'
    obtain ⟨hc, _, hlen, _⟩ := ginv_exec he'
    have hj' : j < s1.hs.length := by rw [hlen]; exact hj
    rw [host_local' hs hj']
    exact kinv_hostStep (by rw [hc]; exact hk) ih (local_pre hti hs hj')

end PdshVerif.Dsh.Timed
