import PdshVerif.Dsh.Timed
import PdshVerif.Dsh.FanGInv

/-!
# `-k` (fail-fast) on top of the timed LTS (C07: "... unless -k asks for fail-fast")

dsh.c `_rsh_thread`, after `rcmd_destroy` has returned and before the epilogue that gives the slot back:

    if (a->kill_on_fail && ((a->state == DSH_FAILED) || (a->rc > 0))) {
        _fwd_signal(SIGTERM);                       /* every target in state DSH_READING */
        errx("%p: terminating all processes\n");    /* exit(1) */
    }

State = the timed state + the `-k` flag + which targets' commands exit non-zero (`a->rc > 0`; the timed LTS itself
does not care about exit codes) + `exited`.  A worker whose target failed and that has left `rcmd_destroy`
(program counter `torn`) is `aborting`: under `-k` its next and last operation is `abort` -- it does NOT need the
mutex, it does not wait for anybody, and the clock cannot advance while it is pending (maximal progress, as in
`Timed.lean`).  `abort` sends SIGTERM to every target that is READING and ends the process: nothing happens
afterwards.  Every other label is the timed LTS's own `step` (the same function the C07 theorems are about).
-/
namespace PdshVerif.Dsh.TimedK
open PdshVerif.Dsh PdshVerif.Dsh.Timed

structure St where
  t : Timed.St
  k : Bool                -- opt->kill_on_fail
  nz : List Bool          -- per target: the remote command exits non-zero
  exited : Bool           -- pdsh has called exit()

/-- `a->state == DSH_FAILED || a->rc > 0`, evaluated by a worker that has left `rcmd_destroy` -/
def failed (s : St) (i : Nat) : Bool := (s.t.host i).res != .done || s.nz.getD i false

/-- worker `i` has left `rcmd_destroy`, its target failed, and -k is set -/
def aborting (s : St) (i : Nat) : Bool :=
  s.k && decide (i < s.t.hs.length) && decide (FanG.pc s.t.fan i = .torn) && failed s i

def anyAborting (s : St) : Bool := (List.range s.t.hs.length).any (aborting s)

inductive Label | t (l : Timed.Label) | abort (i : Nat)

/-- `_fwd_signal (SIGTERM)`: every target in state DSH_READING is sent SIGTERM -/
def sigtermAll (t : Timed.St) : Timed.St :=
  { t with hs := t.hs.map fun h => if h.ph = .reading then { h with death := termDeath h.grace t.now h.death } else h }

def lift (s : St) (l : Timed.Label) : Option St := (Timed.step s.t l).map fun t' => { s with t := t' }

def step (s : St) : Label → Option St
  | .abort i => if s.exited = false ∧ aborting s i = true then some { s with exited := true, t := sigtermAll s.t } else none
  | .t l =>
      if s.exited then none
      else match l with
        | .fan (.w i .lock) => if aborting s i then none else lift s l     -- a failed worker never gives its slot back
        | .tick => if anyAborting s then none else lift s l                -- the exit is instantaneous
        | _ => lift s l

def init (v : FanG.Variant) (f : Nat) (c : Cfg) (scripts : List Script) (k : Bool) (nz : List Bool) : St :=
  { t := Timed.init v f c scripts, k := k, nz := nz, exited := false }

inductive Exec (s0 : St) : List Label → St → Prop
  | nil : Exec s0 [] s0
  | snoc {ls s l s'} : Exec s0 ls s → step s l = some s' → Exec s0 (ls ++ [l]) s'

def run (s : St) : List Label → Option St
  | [] => some s
  | l :: ls => (step s l).bind (run · ls)

def projLabel : Label → Option Timed.Label
  | .t l => some l
  | .abort _ => none

/-! ## facts -/

theorem lift_facts {s s' : St} {l : Timed.Label} (h : lift s l = some s') :
    Timed.step s.t l = some s'.t ∧ s'.k = s.k ∧ s'.nz = s.nz ∧ s'.exited = s.exited := by
  simp only [lift] at h
  cases ht : Timed.step s.t l with
  | none => rw [ht] at h; simp at h
  | some t' => rw [ht] at h; simp at h; subst h; exact ⟨rfl, rfl, rfl, rfl⟩

/-- a `t` step of the -k system is a step of the timed LTS, and it happens only while pdsh has not exited -/
theorem step_t {s s' : St} {l : Timed.Label} (h : step s (.t l) = some s') :
    s.exited = false ∧ Timed.step s.t l = some s'.t ∧ s'.k = s.k ∧ s'.nz = s.nz ∧ s'.exited = false := by
  simp only [step] at h
  split at h
  · simp at h
  · rename_i hex
    have hex' : s.exited = false := by simpa using hex
    have key : lift s l = some s' := by
      split at h
      · split at h
        · simp at h
        · exact h
      · split at h
        · simp at h
        · exact h
      · exact h
    obtain ⟨h1, h2, h3, h4⟩ := lift_facts key
    exact ⟨hex', h1, h2, h3, by rw [h4]; exact hex'⟩

theorem step_abort {s s' : St} {i : Nat} (h : step s (.abort i) = some s') :
    s.exited = false ∧ aborting s i = true ∧ s' = { s with exited := true, t := sigtermAll s.t } := by
  simp only [step] at h
  split at h
  · rename_i hg; simp at h; exact ⟨hg.1, hg.2, h.symm⟩
  · simp at h

/-- until pdsh exits, a -k run is a run of the timed LTS: every safety theorem of Props/C07 applies to it -/
theorem refines_timed {v f c scripts k nz} {ls : List Label} {s : St} (he : Exec (init v f c scripts k nz) ls s)
    (hne : s.exited = false) : Timed.Exec (Timed.init v f c scripts) (ls.filterMap projLabel) s.t := by
  induction he with
  | nil => exact Timed.Exec.nil
  | snoc he0 hs ih =>
    rename_i ls0 s0 l0 s1
    rw [List.filterMap_append]
    cases l0 with
    | t l =>
      obtain ⟨hex, hst, _, _, _⟩ := step_t hs
      simp only [List.filterMap_cons, projLabel, List.filterMap_nil]
      exact Timed.Exec.snoc (ih hex) hst
    | abort i =>
      obtain ⟨_, _, hs'⟩ := step_abort hs
      rw [hs'] at hne; simp at hne

theorem flags_const {v f c scripts k nz} {ls : List Label} {s : St} (he : Exec (init v f c scripts k nz) ls s) :
    s.k = k ∧ s.nz = nz := by
  induction he with
  | nil => exact ⟨rfl, rfl⟩
  | snoc he0 hs ih =>
    rename_i ls0 s0 l0 s1
    cases l0 with
    | t l => obtain ⟨_, _, h3, h4, _⟩ := step_t hs; exact ⟨h3.trans ih.1, h4.trans ih.2⟩
    | abort i => obtain ⟨_, _, hs'⟩ := step_abort hs; rw [hs']; exact ih

theorem aborting_of_not_k {s : St} (hk : s.k = false) (i : Nat) : aborting s i = false := by
  simp [aborting, hk]

theorem anyAborting_of_not_k {s : St} (hk : s.k = false) : anyAborting s = false := by
  simp only [anyAborting, List.any_eq_false]
  intro i _; simp [aborting_of_not_k hk i]

theorem mem_range_aborting {s : St} {i : Nat} (h : aborting s i = true) : anyAborting s = true := by
  simp only [anyAborting, List.any_eq_true]
  refine ⟨i, ?_, h⟩
  simp only [aborting, Bool.and_eq_true, decide_eq_true_eq] at h
  exact List.mem_range.mpr h.1.1.2

theorem host_sigtermAll (t : Timed.St) (j : Nat) (hj : j < t.hs.length) :
    (sigtermAll t).host j =
      if (t.host j).ph = .reading then { t.host j with death := termDeath (t.host j).grace t.now (t.host j).death }
      else t.host j := by
  simp only [St.host, sigtermAll, List.getD_eq_getElem?_getD, List.getElem?_map, List.getElem?_eq_getElem hj,
    Option.map_some, Option.getD_some]

end PdshVerif.Dsh.TimedK
