import PdshVerif.Dsh.TimedProj

/-! # Timed LTS: how the worker program counters move (Fan side) and per-host invariants -/
namespace PdshVerif.Dsh.FanG

/-- effect of a worker step on all program counters -/
theorem pc_step_w {s s' : St} {k : Nat} {a : WAct} (hs : step s (.w k a) = some s') :
    pc s k = a.pre ∧ k < s.ws.length ∧ ∀ i, pc s' i = if i = k then a.post else pc s i := by
  obtain ⟨hpre, _, rfl⟩ := w_step_facts hs
  have hk := lt_of_getElem? hpre
  refine ⟨getD_of_getElem? hpre, hk, ?_⟩
  intro i
  have : (wEffect k { s with ws := s.ws.set k a.post } a).ws = s.ws.set k a.post := by cases a <;> rfl
  simp only [pc, this]; exact pc_set hk i

/-- effect of a dispatcher step on the program counters: only `create` touches one -/
theorem pc_step_d {s s' : St} {a : DAct} (hi : Inv s) (hs : step s (.d a) = some s') :
    (∀ j, a = .create j → j = s.i ∧ j < s.ws.length ∧ pc s j = .idle) ∧
    ∀ i, pc s' i = (match a with
                    | .create j => if i = j then W.started else pc s i
                    | _ => pc s i) := by
  by_cases hcr : ∃ j, a = .create j
  · obtain ⟨j, rfl⟩ := hcr
    simp only [step] at hs
    split at hs <;> simp at hs
    rename_i hd
    obtain ⟨⟨hj, hlt⟩, hs⟩ := hs
    subst hs; subst hj
    have hidle : pc s s.i = .idle := (hi.front s.i).mpr (by simp [frontier, hd])
    refine ⟨fun j hj => by cases hj; exact ⟨rfl, hlt, hidle⟩, ?_⟩
    intro i; simp only [pc]; split
    · subst_vars; exact getD_set_eq hlt
    · exact getD_set_ne (by omega)
  · have hws : s'.ws = s.ws := by
      cases a <;> simp only [step] at hs <;> (try split at hs) <;> (try split at hs) <;>
        simp [roomTest, drainTest] at hs <;> (try split at hs) <;> (try subst hs) <;> simp_all
    refine ⟨fun j hj => absurd ⟨j, hj⟩ hcr, ?_⟩
    intro i
    have : pc s' i = pc s i := pc_congr hws i
    cases a <;> simp_all

end PdshVerif.Dsh.FanG

namespace PdshVerif.Dsh.Timed
open PdshVerif.Dsh

/-! ## pumping a stream -/

theorem pollRound_frame (now : Nat) (h : Host) :
    (h.pollRound now).start = h.start ∧ (h.pollRound now).cbeg = h.cbeg ∧ (h.pollRound now).conn = h.conn ∧
    (h.pollRound now).intr = h.intr := by
  simp only [Host.pollRound]; split <;> simp

theorem pollRound_ph (now : Nat) (h : Host) :
    ((h.pollRound now).ph = h.ph ∧ (h.pollRound now).res = h.res) ∨
    ((h.pollRound now).ph = .finished ∧ (h.pollRound now).res = .done) := by
  simp only [Host.pollRound]; split <;> simp

theorem pollRound_reps (now : Nat) (h : Host) (r : Rep) (hr : r ∈ h.reps) : r ∈ (h.pollRound now).reps := by
  simp only [Host.pollRound]; split <;> simp [hr]

theorem oneRound_frame (now : Nat) (h : Host) :
    (h.oneRound now).start = h.start ∧ (h.oneRound now).cbeg = h.cbeg ∧ (h.oneRound now).conn = h.conn ∧
    (h.oneRound now).intr = h.intr := by
  simp only [Host.oneRound]; split <;> simp

theorem oneRound_ph (now : Nat) (h : Host) :
    ((h.oneRound now).ph = h.ph ∧ (h.oneRound now).res = h.res) ∨
    ((h.oneRound now).ph = .finished ∧ (h.oneRound now).res = .done) := by
  simp only [Host.oneRound]; split <;> simp

theorem oneRound_reps (now : Nat) (h : Host) (r : Rep) (hr : r ∈ h.reps) : r ∈ (h.oneRound now).reps := by
  simp only [Host.oneRound]; split <;> simp [hr]

/-! ## the per-host invariant: phases, timestamps and the two deadlines -/

structure HostInv (c : Cfg) (now wake : Nat) (h : Host) : Prop where
  rcmdNow : h.ph = .rcmd → now = h.start
  connBeg : h.ph = .connecting → h.cbeg = h.start
  connDl : h.ph = .connecting → h.intr = false → 0 < c.ct → wake ≤ h.start + c.ct + WDOG_POLL
  connIntr : h.ph = .connecting → h.intr = true → 0 < c.ct ∧ now ≤ h.start + c.ct + WDOG_POLL
  readDl : h.ph = .reading → h.intr = false → 0 < c.ut → wake ≤ h.conn + c.ut + WDOG_POLL
  readIntr : h.ph = .reading → h.intr = true → 0 < c.ut ∧ now ≤ h.conn + c.ut + WDOG_POLL
  intrPh : h.intr = true → h.ph = .connecting ∨ h.ph = .reading
  resRep : h.res = .cmdTimedOut → Rep.cmdTimeout ∈ h.reps
  connLe : h.ph = .reading → h.conn ≤ now
  startLe : (h.ph = .rcmd ∨ h.ph = .connecting) → h.start ≤ now

theorem hostInv_init (c : Cfg) (sc : Script) (now wake : Nat) : HostInv c now wake (initHost c sc) := by
  constructor <;> simp [initHost]

theorem hostInv_create {c : Cfg} {sc : Script} {now wake : Nat} {h : Host} (hi : HostInv c now wake h)
    (hph : h.ph = .new) : HostInv c now wake (hostStep c sc now h .create) := by
  have hint : h.intr = false := by
    cases hh : h.intr with
    | false => rfl
    | true => have := hi.intrPh hh; rw [hph] at this; simp at this
  constructor <;> simp [hostStep, hint]
  · exact hi.resRep

theorem hostInv_connBegin {c : Cfg} {sc : Script} {now wake : Nat} {h : Host} (hi : HostInv c now wake h)
    (hph : h.ph = .rcmd) (hw : wake ≤ now + WDOG_POLL) :
    HostInv c now wake (hostStep c sc now h .connBegin) := by
  have hint : h.intr = false := by
    cases hh : h.intr with
    | false => rfl
    | true => have := hi.intrPh hh; rw [hph] at this; simp at this
  have hnow := hi.rcmdNow hph
  constructor <;> simp [hostStep, hint]
  · exact hnow
  · intro _; omega
  · exact hi.resRep
  · omega

theorem hostInv_connEnd {c : Cfg} {sc : Script} {now wake : Nat} {h : Host} (hi : HostInv c now wake h)
    (hph : h.ph = .connecting) (hw : wake ≤ now + WDOG_POLL) :
    HostInv c now wake (hostStep c sc now h .connEnd) ∧
    ((hostStep c sc now h .connEnd).ph = .reading ∨ (hostStep c sc now h .connEnd).ph = .finished ∨
      (sc.conn = .hang ∧ h.intr = false)) := by
  simp only [hostStep]
  split
  · -- interrupted
    refine ⟨?_, Or.inr (Or.inl rfl)⟩
    constructor <;> simp
  · rename_i hint
    have hint : h.intr = false := by simpa using hint
    split
    · -- ok
      let h1 : Host := { h with conn := now, ph := .reading, death := sc.life.map (now + ·) }
      have hf := pollRound_frame now h1
      have hp := pollRound_ph now h1
      refine ⟨?_, ?_⟩
      · constructor
        · intro hh; rcases hp with hp | hp <;> rw [hp.1] at hh <;> simp [h1] at hh
        · intro hh; rcases hp with hp | hp <;> rw [hp.1] at hh <;> simp [h1] at hh
        · intro hh; rcases hp with hp | hp <;> rw [hp.1] at hh <;> simp [h1] at hh
        · intro hh; rcases hp with hp | hp <;> rw [hp.1] at hh <;> simp [h1] at hh
        · intro _ _ _; rw [hf.2.2.1]; show wake ≤ now + c.ut + WDOG_POLL; omega
        · intro _ hh; rw [hf.2.2.2] at hh; simp [h1, hint] at hh
        · intro hh; rw [hf.2.2.2] at hh; simp [h1, hint] at hh
        · intro hh; rcases hp with hp | hp
          · rw [hp.2] at hh; exact pollRound_reps now h1 _ (hi.resRep hh)
          · rw [hp.2] at hh; cases hh
        · intro _; rw [hf.2.2.1]; show now ≤ now; omega
        · intro hh; rcases hp with hp | hp <;> rw [hp.1] at hh <;> simp [h1] at hh
      · rcases hp with hp | hp
        · left; rw [hp.1]
        · right; left; exact hp.1
    · -- refuse
      refine ⟨?_, Or.inr (Or.inl rfl)⟩
      constructor <;> simp
      · exact hint
    · -- hang: the step cannot happen without an interrupt (guard); the record is unchanged
      rename_i hc
      exact ⟨hi, Or.inr (Or.inr ⟨hc, hint⟩)⟩

theorem hostInv_wakeCore {c : Cfg} {now wake : Nat} {h : Host} (hi : HostInv c now wake h)
    (hph : h.ph = .reading) (hw : wake ≤ now + WDOG_POLL) :
    HostInv c now wake (h.wakeCore c now) ∧
    ((h.wakeCore c now).ph = .reading ∨ (h.wakeCore c now).ph = .finished) ∧ (h.wakeCore c now).intr = false := by
  -- a poll round (all reads, or one pass) on a reading host keeps the invariant
  have round : ∀ (g : Host → Host) (h1 : Host),
      ((g h1).start = h1.start ∧ (g h1).cbeg = h1.cbeg ∧ (g h1).conn = h1.conn ∧ (g h1).intr = h1.intr) →
      (((g h1).ph = h1.ph ∧ (g h1).res = h1.res) ∨ ((g h1).ph = .finished ∧ (g h1).res = .done)) →
      (∀ r, r ∈ h1.reps → r ∈ (g h1).reps) →
      h1.ph = .reading → h1.intr = false → h1.conn = h.conn → h1.res = h.res →
      h1.reps = h.reps → (0 < c.ut → wake ≤ h.conn + c.ut + WDOG_POLL) →
      HostInv c now wake (g h1) ∧
      ((g h1).ph = .reading ∨ (g h1).ph = .finished) ∧ (g h1).intr = false := by
    intro g h1 hf hp hreps h1ph h1i h1c h1r h1reps hdl
    refine ⟨?_, ?_, by rw [hf.2.2.2, h1i]⟩
    · constructor
      · intro hh; rcases hp with hp | hp <;> rw [hp.1] at hh <;> simp [h1ph] at hh
      · intro hh; rcases hp with hp | hp <;> rw [hp.1] at hh <;> simp [h1ph] at hh
      · intro hh; rcases hp with hp | hp <;> rw [hp.1] at hh <;> simp [h1ph] at hh
      · intro hh; rcases hp with hp | hp <;> rw [hp.1] at hh <;> simp [h1ph] at hh
      · intro _ _ hu; rw [hf.2.2.1, h1c]; exact hdl hu
      · intro _ hh; rw [hf.2.2.2, h1i] at hh; cases hh
      · intro hh; rw [hf.2.2.2, h1i] at hh; cases hh
      · intro hh; rcases hp with hp | hp
        · rw [hp.2, h1r] at hh
          exact hreps _ (by rw [h1reps]; exact hi.resRep hh)
        · rw [hp.2] at hh; cases hh
      · intro _; rw [hf.2.2.1, h1c]; exact hi.connLe hph
      · intro hh; rcases hp with hp | hp <;> rw [hp.1] at hh <;> simp [h1ph] at hh
    · rcases hp with hp | hp
      · left; rw [hp.1, h1ph]
      · right; exact hp.1
  simp only [Host.wakeCore]
  split
  · rename_i hint
    split
    · -- EINTR with the command timeout expired: report, fail
      refine ⟨?_, Or.inr (by simp), by simp⟩
      constructor <;> simp
    · rename_i hnt
      have hu := (hi.readIntr hph hint).1
      have hle : now ≤ h.conn + c.ut := by
        have : ¬ (h.conn + c.ut < now) := fun hc => hnt ⟨hu, hc⟩
        omega
      exact round (Host.pollRound now) { h with intr := false } (pollRound_frame _ _) (pollRound_ph _ _)
        (pollRound_reps _ _) hph rfl rfl rfl rfl (fun _ => by omega)
  · rename_i hint
    have hint : h.intr = false := by simpa using hint
    split
    · exact round (Host.oneRound now) h (oneRound_frame _ _) (oneRound_ph _ _) (oneRound_reps _ _)
        hph hint rfl rfl rfl (fun hu => hi.readDl hph hint hu)
    · exact round (Host.pollRound now) h (pollRound_frame _ _) (pollRound_ph _ _) (pollRound_reps _ _)
        hph hint rfl rfl rfl (fun hu => hi.readDl hph hint hu)

theorem hostInv_selfTimeout {c : Cfg} {now wake : Nat} {h : Host} (hi : HostInv c now wake h) (hint : h.intr = false) :
    HostInv c now wake (h.selfTimeout c now) ∧
    ((h.selfTimeout c now).ph = h.ph ∨ (h.selfTimeout c now).ph = .finished) := by
  simp only [Host.selfTimeout]
  split
  · refine ⟨?_, Or.inr (by simp)⟩
    constructor <;> simp [hint]
  · exact ⟨hi, Or.inl rfl⟩

theorem hostInv_wake {c : Cfg} {sc : Script} {now wake : Nat} {h : Host} (hi : HostInv c now wake h)
    (hph : h.ph = .reading) (hw : wake ≤ now + WDOG_POLL) :
    HostInv c now wake (hostStep c sc now h .wake) ∧
    ((hostStep c sc now h .wake).ph = .reading ∨ (hostStep c sc now h .wake).ph = .finished) := by
  obtain ⟨h1, h2, h3⟩ := hostInv_wakeCore hi hph hw
  obtain ⟨h4, h5⟩ := hostInv_selfTimeout h1 h3
  refine ⟨h4, ?_⟩
  simp only [hostStep]
  rcases h5 with h5 | h5
  · rw [h5]; exact h2
  · exact Or.inr h5

/-- `rcmd_destroy` returns: the phase is `finished`, so no signal is pending (the watchdog only hits targets that
    are connecting or reading) and the EINTR branch is dead: the command is reaped -/
theorem hostInv_destEnd {c : Cfg} {sc : Script} {now wake : Nat} {h : Host} (hi : HostInv c now wake h)
    (hph : h.ph = .finished) :
    HostInv c now wake (hostStep c sc now h .destEnd) ∧ (hostStep c sc now h .destEnd).ph = .finished ∧
    (hostStep c sc now h .destEnd).reaped = true ∧ (hostStep c sc now h .destEnd).death = h.death := by
  have hint : h.intr = false := by
    cases hh : h.intr with
    | false => rfl
    | true => have := hi.intrPh hh; rw [hph] at this; simp at this
  simp only [hostStep, hint]
  refine ⟨?_, by simp [hph], by simp, by simp⟩
  constructor <;> simp [hph]
  · exact hi.resRep

theorem killed_cases {c : Cfg} {now : Nat} {h : Host} (hk : killed c now h = true) :
    (h.ph = .connecting ∧ 0 < c.ct ∧ h.start + c.ct < now) ∨ (h.ph = .reading ∧ 0 < c.ut ∧ h.conn + c.ut < now) := by
  simp only [killed, Bool.or_eq_true, Bool.and_eq_true, beq_iff_eq, decide_eq_true_eq] at hk
  rcases hk with ⟨⟨a, b⟩, d⟩ | ⟨⟨a, b⟩, d⟩
  · exact Or.inl ⟨a, b, d⟩
  · exact Or.inr ⟨a, b, d⟩

theorem not_killed_conn {c : Cfg} {now : Nat} {h : Host} (hk : killed c now h = false) (hph : h.ph = .connecting)
    (hc : 0 < c.ct) : now ≤ h.start + c.ct := by
  cases hlt : decide (h.start + c.ct < now) with
  | false => have := of_decide_eq_false hlt; omega
  | true =>
    have : killed c now h = true := by simp [killed, hph, hc, of_decide_eq_true hlt]
    rw [hk] at this; cases this

theorem not_killed_read {c : Cfg} {now : Nat} {h : Host} (hk : killed c now h = false) (hph : h.ph = .reading)
    (hc : 0 < c.ut) : now ≤ h.conn + c.ut := by
  cases hlt : decide (h.conn + c.ut < now) with
  | false => have := of_decide_eq_false hlt; omega
  | true =>
    have : killed c now h = true := by simp [killed, hph, hc, of_decide_eq_true hlt]
    rw [hk] at this; cases this

/-- the watchdog's pass at `now = wake` -/
theorem hostInv_scan {c : Cfg} {sc : Script} {now wake : Nat} {h : Host} (hi : HostInv c now wake h)
    (heq : now = wake) : HostInv c now (now + WDOG_POLL) (hostStep c sc now h .scan) := by
  simp only [hostStep]
  cases hk : killed c now h with
  | true =>
    simp only [if_true]
    have hkc := killed_cases hk
    constructor <;> simp
    · exact hi.rcmdNow
    · exact hi.connBeg
    · intro hph
      rcases hkc with ⟨_, hc, _⟩ | ⟨hr, _, _⟩
      · refine ⟨hc, ?_⟩
        cases hint : h.intr with
        | false => have := hi.connDl hph hint hc; omega
        | true => exact (hi.connIntr hph hint).2
      · rw [hph] at hr; cases hr
    · intro hph
      rcases hkc with ⟨hr, _, _⟩ | ⟨_, hc, _⟩
      · rw [hph] at hr; cases hr
      · refine ⟨hc, ?_⟩
        cases hint : h.intr with
        | false => have := hi.readDl hph hint hc; omega
        | true => exact (hi.readIntr hph hint).2
    · rcases hkc with ⟨hr, _, _⟩ | ⟨hr, _, _⟩
      · exact Or.inl hr
      · exact Or.inr hr
    · exact hi.resRep
    · exact hi.connLe
    · exact hi.startLe
  | false =>
    simp only [Bool.false_eq_true, if_false]
    refine { rcmdNow := hi.rcmdNow, connBeg := hi.connBeg, connDl := ?_, connIntr := hi.connIntr, readDl := ?_,
             readIntr := hi.readIntr, intrPh := hi.intrPh, resRep := hi.resRep, connLe := hi.connLe,
             startLe := hi.startLe }
    · intro hph _ hc; have := not_killed_conn hk hph hc; omega
    · intro hph _ hc; have := not_killed_read hk hph hc; omega

/-- one second passes; the host is not in a state that would have forbidden the tick -/
theorem hostInv_tick {c : Cfg} {now wake : Nat} {h : Host} (hi : HostInv c now wake h)
    (h1 : h.ph ≠ .rcmd) (h2 : ¬ (h.ph = .connecting ∧ h.intr = true)) (h3 : ¬ (h.ph = .reading ∧ h.intr = true)) :
    HostInv c (now + 1) wake h := by
  refine { rcmdNow := fun hh => absurd hh h1, connBeg := hi.connBeg, connDl := hi.connDl,
           connIntr := fun hp hint => absurd ⟨hp, hint⟩ h2, readDl := hi.readDl,
           readIntr := fun hp hint => absurd ⟨hp, hint⟩ h3, intrPh := hi.intrPh, resRep := hi.resRep,
           connLe := ?_, startLe := ?_ }
  · intro hp; have := hi.connLe hp; omega
  · intro hp; have := hi.startLe hp; omega

end PdshVerif.Dsh.Timed
