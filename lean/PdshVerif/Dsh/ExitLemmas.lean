/-
  Helper lemmas for property C08 (the property theorems are in Props/C08.lean).
-/
import PdshVerif.Dsh.Exit
import PdshVerif.Dsh.ExitSpec
import PdshVerif.Base.CIntLemmas

namespace PdshVerif.Dsh.Exit
open PdshVerif
open PdshVerif.CInt (isDigit_toNat isDigit_not_space scan_numeral toInt32_small)

/-! ### the -S loop -/

def maxRcFrom (a : Int) (hs : List Host) : Int := hs.foldl (fun a h => max a h.rc) a
def maxRc (hs : List Host) : Int := maxRcFrom 0 hs
def anyFailed (hs : List Host) : Bool := hs.any (fun h => h.state = .failed)

/-- what the property text says -S returns: the largest code, raised to RC_FAILED if a host failed -/
def specAgg (hs : List Host) : Int := max (maxRc hs) (if anyFailed hs then RC_FAILED else 0)

theorem RC_FAILED_pos : 0 < RC_FAILED := by decide
theorem RC_FAILED_le : RC_FAILED ≤ 255 := by decide

theorem maxRcFrom_max (a b : Int) (hs : List Host) :
    maxRcFrom (max a b) hs = max (maxRcFrom a hs) b := by
  induction hs generalizing a with
  | nil => rfl
  | cons h t ih =>
    simp only [maxRcFrom, List.foldl_cons] at ih ⊢
    rw [show max (max a b) h.rc = max (max a h.rc) b by omega]
    exact ih _

theorem maxRcFrom_ge (a : Int) (hs : List Host) : a ≤ maxRcFrom a hs := by
  induction hs generalizing a with
  | nil => simp [maxRcFrom]
  | cons h t ih =>
    simp only [maxRcFrom, List.foldl_cons] at ih ⊢
    have := ih (max a h.rc)
    omega

theorem maxRcFrom_cons (a : Int) (h : Host) (t : List Host) :
    maxRcFrom a (h :: t) = max (maxRcFrom a t) h.rc := by
  simp only [maxRcFrom, List.foldl_cons]
  exact maxRcFrom_max a h.rc t

theorem anyFailed_cons (h : Host) (t : List Host) :
    anyFailed (h :: t) = (decide (h.state = .failed) || anyFailed t) := rfl

/-- closed form of the repaired loop -/
theorem aggLoop_fixed (fx : Fixes) (hd8 : fx.d8 = true) (a : Int) (hs : List Host) :
    aggLoop fx a hs = if anyFailed hs then max (maxRcFrom a hs) RC_FAILED else maxRcFrom a hs := by
  induction hs generalizing a with
  | nil => simp [aggLoop, anyFailed, maxRcFrom]
  | cons h t ih =>
    simp only [aggLoop, hd8, if_true]
    rw [show maxRcFrom a (h :: t) = maxRcFrom (max a h.rc) t from rfl, anyFailed_cons]
    by_cases hf : h.state = .failed
    · have e : (if h.rc > max a RC_FAILED then h.rc else max a RC_FAILED) = max (max a h.rc) RC_FAILED := by
        split <;> omega
      simp only [hf, if_true, e, ih, decide_true, Bool.true_or, maxRcFrom_max]
      by_cases hb : anyFailed t = true
      · rw [if_pos hb]; omega
      · rw [if_neg hb]
    · have e : (if h.rc > a then h.rc else a) = max a h.rc := by split <;> omega
      simp only [hf, if_false, e, ih, decide_false, Bool.false_or]

/-- the unchanged loop agrees with the repaired one as long as no code exceeds RC_FAILED -/
theorem aggLoop_unchanged_eq (fx fx' : Fixes) (hd8 : fx'.d8 = true) (a : Int) (hs : List Host)
    (ha : a ≤ RC_FAILED) (hrc : ∀ h ∈ hs, h.rc ≤ RC_FAILED) :
    aggLoop fx a hs = aggLoop fx' a hs := by
  induction hs generalizing a with
  | nil => rfl
  | cons h t ih =>
    have hh : h.rc ≤ RC_FAILED := hrc h (by simp)
    have ht : ∀ x ∈ t, x.rc ≤ RC_FAILED := fun x hx => hrc x (by simp [hx])
    simp only [aggLoop, hd8, if_true]
    have e1 : (if fx.d8 = true then max a RC_FAILED else RC_FAILED) = max a RC_FAILED := by
      split <;> omega
    by_cases hf : h.state = .failed
    · simp only [hf, if_true, e1]
      apply ih _ _ ht
      split <;> omega
    · simp only [hf, if_false]
      apply ih _ _ ht
      split <;> omega

theorem aggLoop_pos (fx : Fixes) (a : Int) (hs : List Host) (ha : 0 < a) : 0 < aggLoop fx a hs := by
  induction hs generalizing a with
  | nil => simpa [aggLoop] using ha
  | cons h t ih =>
    simp only [aggLoop]
    apply ih
    have := RC_FAILED_pos
    split <;> split <;> (try split) <;> omega

theorem aggLoop_zero_iff (fx : Fixes) (hs : List Host) :
    aggLoop fx 0 hs = 0 ↔ ∀ h ∈ hs, h.state ≠ .failed ∧ h.rc ≤ 0 := by
  induction hs with
  | nil => simp [aggLoop]
  | cons h t ih =>
    simp only [aggLoop, List.mem_cons, forall_eq_or_imp]
    have hp := RC_FAILED_pos
    by_cases hf : h.state = .failed
    · simp only [hf, if_true, ne_eq, not_true_eq_false, false_and, iff_false]
      have : 0 < aggLoop fx (if h.rc > (if fx.d8 = true then max 0 RC_FAILED else RC_FAILED) then h.rc
          else (if fx.d8 = true then max 0 RC_FAILED else RC_FAILED)) t := by
        apply aggLoop_pos
        split <;> split <;> omega
      omega
    · simp only [hf, if_false, ne_eq, not_false_eq_true, true_and]
      by_cases hr : h.rc > 0
      · simp only [hr, if_true]
        have := aggLoop_pos fx h.rc t hr
        constructor
        · intro h0; omega
        · intro ⟨h1, _⟩; omega
      · simp only [hr, if_false, ih]
        constructor
        · intro h2; exact ⟨by omega, h2⟩
        · intro ⟨_, h2⟩; exact h2

theorem maxRcFrom_bounds (a lo hi : Int) (hs : List Host) (ha : lo ≤ a ∧ a ≤ hi)
    (hrc : ∀ h ∈ hs, h.rc ≤ hi) : lo ≤ maxRcFrom a hs ∧ maxRcFrom a hs ≤ hi := by
  induction hs generalizing a with
  | nil => simpa [maxRcFrom] using ha
  | cons h t ih =>
    have hh := hrc h (by simp)
    exact ih (max a h.rc) (by omega) (fun x hx => hrc x (by simp [hx]))

/-! ### strstr -/

theorem findSub_skip (c0 : Char) (m pre suf : Str) (hpre : c0 ∉ pre) :
    findSub (c0 :: m) (pre ++ (c0 :: m) ++ suf) = some pre.length := by
  induction pre with
  | nil =>
    simp only [List.nil_append, List.cons_append, findSub, List.length_nil]
    have : (c0 :: m).isPrefixOf (c0 :: (m ++ suf)) = true := by
      rw [List.isPrefixOf_iff_prefix]
      exact ⟨suf, by simp⟩
    simp [this]
  | cons x pre ih =>
    have hx : c0 ≠ x := fun e => hpre (by simp [e])
    have hp : c0 ∉ pre := fun e => hpre (by simp [e])
    simp only [List.cons_append, findSub, List.isPrefixOf, List.length_cons]
    have : (c0 == x) = false := by simpa using hx
    simp only [this, Bool.false_and, Bool.false_eq_true, if_false]
    have ih' := ih hp
    rw [ih']
    rfl

theorem findSub_none_of_not_mem (c0 : Char) (m s : Str) (hs : c0 ∉ s) : findSub (c0 :: m) s = none := by
  induction s with
  | nil => simp [findSub]
  | cons x s ih =>
    have hx : c0 ≠ x := fun e => hs (by simp [e])
    have hp : c0 ∉ s := fun e => hs (by simp [e])
    have : (c0 == x) = false := by simpa using hx
    simp [findSub, List.isPrefixOf, this, ih hp]

/-! ### atoi on a decimal numeral -/

/-- `atoi` of a canonical numeral followed by a non-digit is the number (below 2^31) -/
theorem atoi_digits (n : Nat) (rest : List Char) (hn : n < CInt.I31)
    (hr : ∀ c, rest.head? = some c → c.isDigit = false) :
    CInt.atoi (digits n ++ rest) = n := by
  have hs := scan_numeral (digits n) rest Nat.toDigits_ne_nil
    (fun c hc => Nat.isDigit_of_mem_toDigits (by decide) (by decide) hc) hr
  have hv : CInt.digitsVal (digits n) = n := by simp [CInt.digitsVal, digits]
  have hne : digits n ≠ [] := Nat.toDigits_ne_nil
  unfold CInt.atoi CInt.strtol
  simp only [hs, hne, if_false, hv]
  have : ¬ (n ≥ CInt.I63) := by unfold CInt.I63; unfold CInt.I31 at hn; omega
  simp only [Bool.false_eq_true, if_false, this]
  exact toInt32_small n hn

/-! ### `_extract_rc` on a marker line -/

theorem MAGIC_eq : MAGIC = 'X' :: ['X', 'R', 'E', 'T', 'C', 'O', 'D', 'E', ':'] := by decide

/-- shape of `_extract_rc` on `pre ++ MAGIC ++ tail ++ "\n"` when the marker's first character does
    not occur in `pre` (so the first occurrence of the marker is the one after `pre`) -/
theorem extractRc_marker (fx : Fixes) (pre tail : Str) (hpre : 'X' ∉ pre) :
    extractRc fx (pre ++ MAGIC ++ tail ++ [NL]) =
      if pre = [] then (CInt.atoi (tail ++ [NL]), [])
      else (CInt.atoi (if fx.d9 then tail ++ [NL] else (tail ++ [NL]).drop 1), pre ++ [NL]) := by
  have hf : findSub MAGIC (pre ++ MAGIC ++ tail ++ [NL]) = some pre.length := by
    rw [MAGIC_eq, List.append_assoc (pre ++ _)]
    exact findSub_skip 'X' _ pre (tail ++ [NL]) hpre
  unfold extractRc
  simp only [hf]
  have hlast : (pre ++ MAGIC ++ tail ++ [NL]).getLast? = some NL := by simp
  have htake : (pre ++ MAGIC ++ tail ++ [NL]).take pre.length = pre := by
    simp [List.append_assoc]
  have hdrop : (pre ++ MAGIC ++ tail ++ [NL]).drop (pre.length + MAGIC.length) = tail ++ [NL] := by
    rw [List.append_assoc (pre ++ MAGIC), ← List.length_append]
    exact List.drop_left
  simp only [hlast, htake, hdrop, true_and]
  by_cases hp : pre = []
  · subst hp; simp
  · have : pre.length ≠ 0 := by simpa using hp
    simp [hp, this]

theorem cstr_eq_self (s : Str) (h : NUL ∉ s) : cstr s = s := by
  unfold cstr
  induction s with
  | nil => rfl
  | cons c t ih =>
    have hc : c ≠ NUL := fun e => h (by simp [e])
    have ht : NUL ∉ t := fun e => h (by simp [e])
    have ih' := ih ht
    simp only [ne_eq, decide_not] at ih' ⊢
    simp [hc, ih']

theorem not_mem_cstr (c : Char) (s : Str) (h : c ∉ s) : c ∉ cstr s :=
  fun hc => h ((List.takeWhile_sublist _).subset hc)

theorem digits_no_NUL (n : Nat) : NUL ∉ digits n := by
  intro h
  have := isDigit_toNat (Nat.isDigit_of_mem_toDigits (b := 10) (by decide) (by decide) h)
  simp [NUL] at this

theorem digits_no_X (n : Nat) : 'X' ∉ digits n := by
  intro h
  have := isDigit_toNat (Nat.isDigit_of_mem_toDigits (b := 10) (by decide) (by decide) h)
  simp at this

/-- a line without the marker's first character leaves th->rc alone once only marker lines count -/
theorem lineStep_noX (fx : Fixes) (hl : fx.late = true) (rc : Int) (line : Str) (h : 'X' ∉ line) :
    lineStep fx rc line = rc := by
  unfold lineStep
  have : findSub MAGIC (cstr line) = none := by
    rw [MAGIC_eq]; exact findSub_none_of_not_mem _ _ _ (not_mem_cstr _ _ h)
  simp [hl, this]

theorem foldl_lineStep_noX (fx : Fixes) (hl : fx.late = true) (rc : Int) (ls : List Str)
    (h : ∀ l ∈ ls, 'X' ∉ l) : ls.foldl (lineStep fx) rc = rc := by
  induction ls generalizing rc with
  | nil => rfl
  | cons l t ih =>
    simp only [List.foldl_cons]
    rw [lineStep_noX fx hl rc l (h l (by simp))]
    exact ih rc (fun x hx => h x (by simp [hx]))

/-! ### the out-of-band channel -/

theorem finalRc_zero (rv : Int) (h : 0 ≤ rv) : finalRc 0 rv = rv := by
  unfold finalRc
  split <;> omega

theorem splitLines_nil : splitLines [] = [] := rfl

/-- the property's domain for one outcome: exit codes 0..255, real signal numbers -/
def okOutcome : Outcome → Prop
  | .exited c => c ≤ 255
  | .killed s => 1 ≤ s ∧ s ≤ 64
  | _ => True

/-- what the repaired exec channel (D7) makes of an outcome -/
def execHostSpec : Outcome → Host
  | .exited c => ⟨.done, c⟩
  | .killed s => ⟨.done, 128 + s⟩
  | .connectFailed => ⟨.failed, 1⟩
  | .timedOut => ⟨.failed, 143⟩

theorem execHost_eq (fx : Fixes) (hd7 : fx.d7 = true) (o : Outcome) (hok : okOutcome o) :
    hostOf fx (execScript fx o) = execHostSpec o := by
  cases o with
  | exited c =>
    have hc : c ≤ 255 := hok
    have hw : wifsignaled (c % 256 * 256) = false := by
      have : c % 256 * 256 % 128 = 0 := by omega
      simp [wifsignaled, wtermsig, this]
    have hx : wexitstatus (c % 256 * 256) = c := by
      show c % 256 * 256 / 256 % 256 = c
      omega
    simp only [hostOf, execScript, execDestroy, hw, Bool.and_false, Bool.false_eq_true, if_false,
      Bool.not_true, splitLines_nil, rcAfterLines, List.foldl_nil, hx, execHostSpec]
    rw [finalRc_zero _ (by omega)]
  | killed s =>
    have hs : 1 ≤ s ∧ s ≤ 64 := hok
    have hw : wifsignaled (s % 128) = true := by
      simp [wifsignaled, wtermsig]; omega
    have : s % 128 % 128 = s := by omega
    simp only [hostOf, execScript, execDestroy, hd7, hw, Bool.and_self, if_true, Bool.not_true,
      Bool.false_eq_true, if_false, splitLines_nil, rcAfterLines, List.foldl_nil, wtermsig, this, execHostSpec]
    rw [finalRc_zero _ (by omega)]
    simp
  | connectFailed =>
    simp [hostOf, execScript, execDestroy, execHostSpec, finalRc]
  | timedOut =>
    have hw : wifsignaled 15 = true := by decide
    simp only [hostOf, execScript, execDestroy, hd7, hw, Bool.and_self, if_true, Bool.not_true,
      Bool.false_eq_true, if_false, splitLines_nil, rcAfterLines, List.foldl_nil, wtermsig, execHostSpec]
    rw [finalRc_zero _ (by omega)]
    simp

theorem map_execHost (fx : Fixes) (hd7 : fx.d7 = true) (outs : List Outcome) (hok : ∀ o ∈ outs, okOutcome o) :
    outs.map (fun o => hostOf fx (execScript fx o)) = outs.map execHostSpec :=
  List.map_congr_left (fun o ho => execHost_eq fx hd7 o (hok o ho))

theorem specMaxFrom_max (a b : Nat) (outs : List Outcome) :
    outs.foldl (fun a o => max a o.code) (max a b) = max (outs.foldl (fun a o => max a o.code) a) b := by
  induction outs generalizing a with
  | nil => rfl
  | cons o t ih =>
    simp only [List.foldl_cons]
    rw [show max (max a b) o.code = max (max a o.code) b by omega]
    exact ih _

theorem maxCode_cons (o : Outcome) (outs : List Outcome) :
    ExitSpec.maxCode (o :: outs) = max (ExitSpec.maxCode outs) o.code := by
  unfold ExitSpec.maxCode
  simp only [List.foldl_cons]
  exact specMaxFrom_max 0 o.code outs

theorem exec_anyFailed (outs : List Outcome) :
    anyFailed (outs.map execHostSpec) = outs.any ExitSpec.Outcome.unreachable := by
  induction outs with
  | nil => rfl
  | cons o t ih =>
    rw [List.map_cons, anyFailed_cons, ih, List.any_cons]
    cases o <;> simp [execHostSpec, ExitSpec.Outcome.unreachable]

theorem exec_anyKFails (outs : List Outcome) :
    (outs.map execHostSpec).any kFails = outs.any ExitSpec.Outcome.isFailure := by
  induction outs with
  | nil => rfl
  | cons o t ih =>
    rw [List.map_cons, List.any_cons, ih, List.any_cons]
    cases o with
    | exited c =>
      cases c with
      | zero => simp [execHostSpec, kFails, ExitSpec.Outcome.isFailure]
      | succ n =>
        have : (0 : Int) < (n : Int) + 1 := by omega
        simp [execHostSpec, kFails, ExitSpec.Outcome.isFailure, this]
    | killed s =>
      have : (0 : Int) < 128 + (s : Int) := by omega
      simp [execHostSpec, kFails, ExitSpec.Outcome.isFailure, this]
    | connectFailed => simp [execHostSpec, kFails, ExitSpec.Outcome.isFailure]
    | timedOut => simp [execHostSpec, kFails, ExitSpec.Outcome.isFailure]

/-- the largest per-host code of the repaired exec channel against the spec's quantities -/
theorem exec_maxRc (outs : List Outcome) (hok : ∀ o ∈ outs, okOutcome o) :
    (ExitSpec.maxCode outs : Int) ≤ maxRc (outs.map execHostSpec) ∧
    maxRc (outs.map execHostSpec) ≤ 255 ∧
    (outs.any ExitSpec.Outcome.isKilled = true → 1 ≤ maxRc (outs.map execHostSpec)) ∧
    (outs.any ExitSpec.Outcome.isKilled = false →
      maxRc (outs.map execHostSpec) ≤ max (ExitSpec.maxCode outs : Int) 254 ∧
      (outs.any ExitSpec.Outcome.unreachable = false → maxRc (outs.map execHostSpec) = ExitSpec.maxCode outs)) := by
  induction outs with
  | nil => simp [maxRc, maxRcFrom, ExitSpec.maxCode]; decide
  | cons o t ih =>
    have ih' := ih (fun x hx => hok x (by simp [hx]))
    have ho := hok o (by simp)
    obtain ⟨i1, i2, i3, i4⟩ := ih'
    rw [List.map_cons]
    unfold maxRc at *
    rw [maxRcFrom_cons, maxCode_cons]
    simp only [List.any_cons]
    cases o with
    | exited c =>
      have hc : c ≤ 255 := ho
      simp only [execHostSpec, ExitSpec.Outcome.isKilled, ExitSpec.Outcome.unreachable, ExitSpec.Outcome.code,
        Bool.false_or]
      refine ⟨by omega, by omega, fun h => by have := i3 h; omega, fun h => ?_⟩
      have ⟨j1, j2⟩ := i4 h
      exact ⟨by omega, fun hu => by have := j2 hu; omega⟩
    | killed s =>
      have hs : 1 ≤ s ∧ s ≤ 64 := ho
      simp only [execHostSpec, ExitSpec.Outcome.isKilled, ExitSpec.Outcome.code, Bool.true_or]
      refine ⟨by omega, by omega, fun _ => by omega, fun h => by simp at h⟩
    | connectFailed =>
      simp only [execHostSpec, ExitSpec.Outcome.isKilled, ExitSpec.Outcome.unreachable, ExitSpec.Outcome.code,
        Bool.false_or, Bool.true_or]
      refine ⟨by omega, by omega, fun h => by have := i3 h; omega, fun h => ?_⟩
      have ⟨j1, _⟩ := i4 h
      exact ⟨by omega, fun hu => by simp at hu⟩
    | timedOut =>
      simp only [execHostSpec, ExitSpec.Outcome.isKilled, ExitSpec.Outcome.unreachable, ExitSpec.Outcome.code,
        Bool.false_or, Bool.true_or]
      refine ⟨by omega, by omega, fun h => by have := i3 h; omega, fun h => ?_⟩
      have ⟨j1, _⟩ := i4 h
      exact ⟨by omega, fun hu => by simp at hu⟩

end PdshVerif.Dsh.Exit
