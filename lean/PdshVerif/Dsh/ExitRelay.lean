/-
  C08 helper lemmas, part 3: the in-band return code through the relay model (Relay/Model.lean, owned by the
  C05/C06 work): whatever the chunking of a host's stdout, `runStream` over the FIFO buffer leaves in th->rc the
  code the marker line carries (repaired switches rcSkipDigit = false, rcEveryLine = false).
  Property theorems are in Props/C08.lean.
-/
import PdshVerif.Relay.RunFifo
import PdshVerif.Dsh.ExitRefine

namespace PdshVerif.Dsh.ExitRelay
open PdshVerif PdshVerif.Relay
open PdshVerif.Relay.Spec (split)

/-- decimal digits of `k` as bytes -/
def digitsB (k : Nat) : Bytes := (Nat.toDigits 10 k).map fun c => UInt8.ofNat c.toNat

theorem magic_eq : magic = 88 :: [88, 82, 69, 84, 67, 79, 68, 69, 58] := by decide

set_option maxRecDepth 100000 in
/-- exit codes: the relay's `atoi` reads back what the remote shell printed -/
theorem atoi_digitsB : ∀ k < 256, Relay.atoi (digitsB k ++ [10]) = (k : Int) := by decide

set_option maxRecDepth 100000 in
theorem digitsB_clean : ∀ k < 256, ∀ b ∈ digitsB k, b ≠ 0 ∧ b ≠ 10 ∧ b ≠ 88 := by decide

theorem findSub_skip (c0 : UInt8) (m pre suf : Bytes) (hpre : c0 ∉ pre) :
    Relay.findSub (c0 :: m) (pre ++ (c0 :: m) ++ suf) = some pre.length := by
  induction pre with
  | nil =>
    have : (c0 :: m).isPrefixOf (c0 :: (m ++ suf)) = true := by
      rw [List.isPrefixOf_iff_prefix]
      exact ⟨suf, by simp⟩
    show Relay.findSub (c0 :: m) (c0 :: (m ++ suf)) = some 0
    rw [Relay.findSub]
    simp [this]
  | cons x pre ih =>
    have hx : c0 ≠ x := fun e => hpre (by simp [e])
    have hp : c0 ∉ pre := fun e => hpre (by simp [e])
    have hne : (c0 :: m).isPrefixOf (x :: (pre ++ (c0 :: m) ++ suf)) = false := by
      have : (c0 == x) = false := by simpa using hx
      simp [List.isPrefixOf, this]
    show Relay.findSub (c0 :: m) (x :: (pre ++ (c0 :: m) ++ suf)) = some (pre.length + 1)
    rw [Relay.findSub]
    simp only [hne, Bool.false_eq_true, if_false, ih hp]
    rfl

theorem findSub_none_of_not_mem (c0 : UInt8) (m s : Bytes) (hs : c0 ∉ s) : Relay.findSub (c0 :: m) s = none := by
  induction s with
  | nil => simp [Relay.findSub]
  | cons x s ih =>
    have hx : c0 ≠ x := fun e => hs (by simp [e])
    have hp : c0 ∉ s := fun e => hs (by simp [e])
    have hne : (c0 :: m).isPrefixOf (x :: s) = false := by
      have : (c0 == x) = false := by simpa using hx
      simp [List.isPrefixOf, this]
    rw [Relay.findSub]
    simp [hne, ih hp]

theorem cstr_eq_self (s : Bytes) (h : (0 : UInt8) ∉ s) : Relay.cstr s = s := by
  unfold Relay.cstr
  induction s with
  | nil => rfl
  | cons c t ih =>
    have hc : c ≠ 0 := fun e => h (by simp [e])
    have ht : (0 : UInt8) ∉ t := fun e => h (by simp [e])
    have ih' := ih ht
    simp only [ne_eq, decide_not] at ih' ⊢
    simp [hc, ih']

theorem not_mem_cstr (c : UInt8) (s : Bytes) (h : c ∉ s) : c ∉ Relay.cstr s :=
  fun hc => h ((List.takeWhile_sublist _).subset hc)

/-- a line without the marker's first byte leaves th->rc alone (repaired: only marker lines count) -/
theorem emitLine_noX (cfg : Cfg) (hev : cfg.rcEveryLine = false) (host : Bytes) (strm : Nat) (readRc : Bool)
    (rc : Int) (line : Bytes) (h : (88 : UInt8) ∉ line) : (emitLine cfg host strm readRc rc line).1 = rc := by
  unfold emitLine
  have : Relay.findSub magic (Relay.cstr line) = none := by
    rw [magic_eq]; exact findSub_none_of_not_mem _ _ _ (not_mem_cstr _ _ h)
  simp [hev, this]

/-- the marker line sets th->rc to the code it carries (repaired `_extract_rc`) -/
theorem emitLine_marker (cfg : Cfg) (hsk : cfg.rcSkipDigit = false) (host : Bytes) (strm : Nat) (rc : Int)
    (pre : Bytes) (k : Nat) (hk : k < 256) (hx : (88 : UInt8) ∉ pre) (h0 : (0 : UInt8) ∉ pre) :
    (emitLine cfg host strm true rc (pre ++ magic ++ digitsB k ++ [10])).1 = k := by
  have hclean := digitsB_clean k hk
  have hnul : (0 : UInt8) ∉ pre ++ magic ++ digitsB k ++ [10] := by
    simp only [List.mem_append, List.mem_singleton, not_or]
    refine ⟨⟨⟨h0, by decide⟩, fun h => (hclean 0 h).1 rfl⟩, by decide⟩
  have hf : Relay.findSub magic (pre ++ magic ++ digitsB k ++ [10]) = some pre.length := by
    rw [magic_eq, List.append_assoc (pre ++ _)]
    exact findSub_skip 88 _ pre _ hx
  unfold emitLine Relay.extractRc
  simp only [cstr_eq_self _ hnul, hf, Option.isSome_some, or_true, and_self, if_true, hsk, Bool.false_eq_true,
    if_false, Nat.add_zero]
  have hdrop : (pre ++ magic ++ digitsB k ++ [10]).drop (pre.length + magic.length) = digitsB k ++ [10] := by
    rw [List.append_assoc (pre ++ magic), ← List.length_append]
    exact List.drop_left
  simp only [hdrop, atoi_digitsB k hk]
  split <;> rfl

/-- the th->rc component of folding `lineStep` -/
theorem foldl_lineStep_rc (cfg : Cfg) (host : Bytes) (strm : Nat) (readRc : Bool) :
    ∀ (L : List Bytes) (rc : Int) (acc : List Em),
      (L.foldl (lineStep cfg host strm readRc) (rc, acc)).1 =
        L.foldl (fun r l => (emitLine cfg host strm readRc r l).1) rc
  | [], _, _ => rfl
  | l :: ls, rc, acc => by
    simp only [List.foldl_cons, lineStep]
    exact foldl_lineStep_rc cfg host strm readRc ls _ _

theorem foldl_rc_noX (cfg : Cfg) (hev : cfg.rcEveryLine = false) (host : Bytes) (strm : Nat) (readRc : Bool) :
    ∀ (L : List Bytes) (rc : Int), (∀ l ∈ L, (88 : UInt8) ∉ l) →
      L.foldl (fun r l => (emitLine cfg host strm readRc r l).1) rc = rc
  | [], _, _ => rfl
  | l :: ls, rc, h => by
    simp only [List.foldl_cons]
    rw [emitLine_noX cfg hev host strm readRc rc l (h l (by simp))]
    exact foldl_rc_noX cfg hev host strm readRc ls rc (fun x hx => h x (by simp [hx]))

/-- a run of bytes without newline, then a newline: one line -/
theorem split_line (l r : Bytes) (h : ∀ b ∈ l, b ≠ 10) :
    split (l ++ 10 :: r) = ((l ++ [10]) :: (split r).1, (split r).2) := by
  induction l with
  | nil => simp [Spec.split_cons_nl]
  | cons b l ih =>
    have hb : b ≠ 10 := h b (by simp)
    rw [List.cons_append, Spec.split_cons_ne hb, ih (fun x hx => h x (by simp [hx]))]
    rfl

/-- every byte of a line / of the rest of `s` is a byte of `s` -/
theorem mem_of_split (s : Bytes) : (∀ l ∈ (split s).1, ∀ b ∈ l, b ∈ s) ∧ ∀ b ∈ (split s).2, b ∈ s := by
  have hf := Spec.split_flatten s
  constructor
  · intro l hl b hb
    rw [← hf]
    exact List.mem_append_left _ (List.mem_flatten.mpr ⟨l, hl, hb⟩)
  · intro b hb
    rw [← hf]
    exact List.mem_append_right _ hb

/-- th->rc after all complete lines of `U ++ marker line ++ late`, `U` and `late` free of the byte 'X' -/
theorem afterLines_marker (cfg : Cfg) (hsk : cfg.rcSkipDigit = false) (hev : cfg.rcEveryLine = false)
    (host : Bytes) (strm : Nat) (U late : Bytes) (k : Nat) (hk : k < 256)
    (hU : (88 : UInt8) ∉ U) (hL : (88 : UInt8) ∉ late) (h0 : (0 : UInt8) ∉ (split U).2) :
    (afterLines cfg host strm true (U ++ (magic ++ digitsB k ++ [10] ++ late))).1 = k := by
  unfold afterLines
  rw [foldl_lineStep_rc, Spec.split_append]
  simp only
  have hclean := digitsB_clean k hk
  obtain ⟨hUl, hUr⟩ := mem_of_split U
  obtain ⟨hLl, _⟩ := mem_of_split late
  have hpre_nl : ∀ b ∈ (split U).2 ++ magic ++ digitsB k, b ≠ 10 := by
    intro b hb
    simp only [List.mem_append] at hb
    rcases hb with (hb | hb) | hb
    · exact Spec.split_rest_noNl U b hb
    · intro e; subst e; revert hb; decide
    · exact (hclean b hb).2.1
  have hsp : split ((split U).2 ++ (magic ++ digitsB k ++ [10] ++ late)) =
      (((split U).2 ++ magic ++ digitsB k ++ [10]) :: (split late).1, (split late).2) := by
    have : (split U).2 ++ (magic ++ digitsB k ++ [10] ++ late) = ((split U).2 ++ magic ++ digitsB k) ++ 10 :: late := by
      simp [List.append_assoc]
    rw [this, split_line _ _ hpre_nl]
  rw [hsp]
  simp only [List.foldl_append, List.foldl_cons]
  rw [foldl_rc_noX cfg hev host strm true (split U).1 0 (fun l hl hx => hU (hUl l hl _ hx))]
  rw [emitLine_marker cfg hsk host strm 0 (split U).2 k hk (fun hx => hU (hUr _ hx)) h0]
  exact foldl_rc_noX cfg hev host strm true (split late).1 k (fun l hl hx => hL (hLl l hl _ hx))

/-- one target of an in-band (-S over rsh/ssh-like transport) run as the relay sees it: the chunks in which
    its stdout arrives (`script`, ANY chunking), made of what the command printed (`user`), the marker line the
    remote shell appends (`XXRETCODE:<code>\n`) and whatever arrives later (`late`) -/
structure RelayTarget where
  host     : Bytes
  sizeMeta : Nat
  b0       : PBuf
  script   : List Bytes
  user     : Bytes
  late     : Bytes
  code     : Nat

/-- the domain: a cbuf as dsh.c creates it (`growthOk`: the decidable side condition of Relay/Growth.lean on the
    regenerated constants and the build flavour's bookkeeping cells -- Props/C05 `growthOk_generated(_assert)` for
    the two flavours that exist, `Relay.growthOk_of_le` for every 1 <= sizeMeta <= 928 without evaluation),
    lines within the buffer's maximum (`Room`, C05's domain), the
    command's output and the late output free of the byte 'X' (hence marker-free), no NUL in the unterminated
    text right before the marker, an exit code -/
def RelayTarget.ok (t : RelayTarget) : Prop :=
  growthOk t.sizeMeta = true ∧ mkFifoBuf t.sizeMeta = some t.b0 ∧
  t.script.flatten = t.user ++ (magic ++ digitsB t.code ++ [10] ++ t.late) ∧ Room t.script.flatten ∧
  (88 : UInt8) ∉ t.user ∧ (88 : UInt8) ∉ t.late ∧ (0 : UInt8) ∉ (split t.user).2 ∧ t.code < 256

/-- what the -S loop sees of that target: th->rc left by the relay, then `rcmd_destroy`'s 0 -/
def RelayTarget.seenBy (cfg : Cfg) (t0host : Bytes) (t : RelayTarget) : Exit.Host :=
  { state := .done, rc := Exit.finalRc (runStream fifoOps cfg t.host t0host 1 true t.b0 t.script).rc 0 }

end PdshVerif.Dsh.ExitRelay
