/-
  C08 helper lemmas, part 2: from faithful per-host (state, code) pairs to an admissible exit status,
  and the in-band channel (line splitting, marker line).  Property theorems are in Props/C08.lean.
-/
import PdshVerif.Dsh.ExitLemmas

namespace PdshVerif.Dsh.Exit
open PdshVerif

/-- what the -S loop must see of a target for its outcome: the code of a command that ran, some
    non-zero code <= 255 for one that was killed, state FAILED (and a code <= 254) for an unreachable
    or timed-out one -/
def Faithful (o : Outcome) (h : Host) : Prop :=
  match o with
  | .exited c => h = ⟨.done, c⟩
  | .killed _ => h.state = .done ∧ 1 ≤ h.rc ∧ h.rc ≤ 255
  | .connectFailed => h.state = .failed ∧ 0 ≤ h.rc ∧ h.rc ≤ 254
  | .timedOut => h.state = .failed ∧ 0 ≤ h.rc ∧ h.rc ≤ 254

theorem execHostSpec_faithful (o : Outcome) (hok : okOutcome o) : Faithful o (execHostSpec o) := by
  cases o with
  | exited c => rfl
  | killed s =>
    have hs : 1 ≤ s ∧ s ≤ 64 := hok
    simp only [Faithful, execHostSpec, true_and]
    omega
  | connectFailed => simp [Faithful, execHostSpec]
  | timedOut => simp [Faithful, execHostSpec]

/-- pointwise over the target list -/
inductive AllFaithful : List Outcome → List Host → Prop where
  | nil : AllFaithful [] []
  | cons {o : Outcome} {h : Host} {os : List Outcome} {hs : List Host} :
      Faithful o h → AllFaithful os hs → AllFaithful (o :: os) (h :: hs)

/-- the invariants that tie the model's per-host data to the specification's quantities -/
theorem faithful_invariants (outs : List Outcome) (hs : List Host) (hrel : AllFaithful outs hs)
    (hok : ∀ o ∈ outs, okOutcome o) :
    anyFailed hs = outs.any ExitSpec.Outcome.unreachable ∧
    hs.any kFails = outs.any ExitSpec.Outcome.isFailure ∧
    (ExitSpec.maxCode outs : Int) ≤ maxRc hs ∧ maxRc hs ≤ 255 ∧
    (outs.any ExitSpec.Outcome.isKilled = true → 1 ≤ maxRc hs) ∧
    (outs.any ExitSpec.Outcome.isKilled = false →
      maxRc hs ≤ max (ExitSpec.maxCode outs : Int) 254 ∧
      (outs.any ExitSpec.Outcome.unreachable = false → maxRc hs = ExitSpec.maxCode outs)) := by
  induction hrel with
  | nil => simp [anyFailed, maxRc, maxRcFrom, ExitSpec.maxCode]; decide
  | @cons o h outs hs hoh _ ih =>
    obtain ⟨i0, i00, i1, i2, i3, i4⟩ := ih (fun x hx => hok x (by simp [hx]))
    have ho := hok o (by simp)
    unfold maxRc at *
    rw [maxRcFrom_cons, maxCode_cons, anyFailed_cons, List.any_cons, List.any_cons, List.any_cons, List.any_cons, i0, i00]
    cases o with
    | exited c =>
      have hc : c ≤ 255 := ho
      have hh : h = ⟨.done, c⟩ := hoh
      subst hh
      simp only [ExitSpec.Outcome.isKilled, ExitSpec.Outcome.unreachable, ExitSpec.Outcome.code, Bool.false_or]
      refine ⟨by simp, ?_, by omega, by omega, fun hk => by have := i3 hk; omega, fun hk => ?_⟩
      · cases c with
        | zero => simp [kFails, ExitSpec.Outcome.isFailure]
        | succ n =>
          have : (0 : Int) < (n : Int) + 1 := by omega
          simp [kFails, ExitSpec.Outcome.isFailure, this]
      · have ⟨j1, j2⟩ := i4 hk
        exact ⟨by omega, fun hu => by have := j2 hu; omega⟩
    | killed s =>
      obtain ⟨h1, h2, h3⟩ : h.state = .done ∧ 1 ≤ h.rc ∧ h.rc ≤ 255 := hoh
      simp only [ExitSpec.Outcome.isKilled, ExitSpec.Outcome.unreachable, ExitSpec.Outcome.code, Bool.true_or,
        Bool.false_or, h1]
      refine ⟨by simp, ?_, by omega, by omega, fun _ => by omega, fun hk => by simp at hk⟩
      have : (0 : Int) < h.rc := by omega
      simp [kFails, ExitSpec.Outcome.isFailure, this]
    | connectFailed =>
      obtain ⟨h1, h2, h3⟩ : h.state = .failed ∧ 0 ≤ h.rc ∧ h.rc ≤ 254 := hoh
      simp only [ExitSpec.Outcome.isKilled, ExitSpec.Outcome.unreachable, ExitSpec.Outcome.code, Bool.true_or,
        Bool.false_or, h1]
      refine ⟨by simp, by simp [kFails, ExitSpec.Outcome.isFailure, h1], by omega, by omega,
        fun hk => by have := i3 hk; omega, fun hk => ?_⟩
      have ⟨j1, _⟩ := i4 hk
      exact ⟨by omega, fun hu => by simp at hu⟩
    | timedOut =>
      obtain ⟨h1, h2, h3⟩ : h.state = .failed ∧ 0 ≤ h.rc ∧ h.rc ≤ 254 := hoh
      simp only [ExitSpec.Outcome.isKilled, ExitSpec.Outcome.unreachable, ExitSpec.Outcome.code, Bool.true_or,
        Bool.false_or, h1]
      refine ⟨by simp, by simp [kFails, ExitSpec.Outcome.isFailure, h1], by omega, by omega,
        fun hk => by have := i3 hk; omega, fun hk => ?_⟩
      have ⟨j1, _⟩ := i4 hk
      exact ⟨by omega, fun hu => by simp at hu⟩

/-! ### splitting a stream into lines -/

/-- a complete line: no newline except the final one -/
def IsLine (l : Str) : Prop := ∃ body, l = body ++ [NL] ∧ NL ∉ body

theorem splitLinesAux_tail (cur t : Str) (h : NL ∉ t) : splitLinesAux cur t = ([], cur.reverse ++ t) := by
  induction t generalizing cur with
  | nil => simp [splitLinesAux]
  | cons c t ih =>
    have hc : c ≠ NL := fun e => h (by simp [e])
    have ht : NL ∉ t := fun e => h (by simp [e])
    simp [splitLinesAux, hc, ih (c :: cur) ht]

theorem splitLinesAux_body (cur body rest : Str) (h : NL ∉ body) :
    splitLinesAux cur (body ++ NL :: rest) =
      ((cur.reverse ++ body ++ [NL]) :: (splitLinesAux [] rest).1, (splitLinesAux [] rest).2) := by
  induction body generalizing cur with
  | nil => simp [splitLinesAux]
  | cons c body ih =>
    have hc : c ≠ NL := fun e => h (by simp [e])
    have hb : NL ∉ body := fun e => h (by simp [e])
    simp [splitLinesAux, hc, ih (c :: cur) hb]

/-- a stream made of complete lines followed by an unterminated tail splits into exactly these lines -/
theorem splitLines_flatten (ls : List Str) (tail : Str) (hl : ∀ l ∈ ls, IsLine l) (ht : NL ∉ tail) :
    splitLines (ls.flatten ++ tail) = ls := by
  unfold splitLines
  induction ls with
  | nil => simp [splitLinesAux_tail [] tail ht]
  | cons l ls ih =>
    obtain ⟨body, rfl, hb⟩ := hl l (by simp)
    have ih' := ih (fun x hx => hl x (by simp [hx]))
    have : ((body ++ [NL]) :: ls).flatten ++ tail = body ++ NL :: (ls.flatten ++ tail) := by simp
    rw [this, splitLinesAux_body [] body _ hb]
    simp [ih']

theorem markerLine_isLine (pre : Str) (c : Nat) (hnl : NL ∉ pre) : IsLine (markerLine pre c) := by
  refine ⟨pre ++ MAGIC ++ digits c, rfl, ?_⟩
  simp only [List.mem_append, not_or]
  refine ⟨⟨hnl, by decide⟩, ?_⟩
  intro h
  have := CInt.isDigit_toNat (Nat.isDigit_of_mem_toDigits (b := 10) (by decide) (by decide) h)
  simp [NL] at this

theorem allFaithful_map (g : Outcome → Host) (outs : List Outcome) (h : ∀ o ∈ outs, Faithful o (g o)) :
    AllFaithful outs (outs.map g) := by
  induction outs with
  | nil => exact .nil
  | cons o os ih => exact .cons (h o (by simp)) (ih (fun x hx => h x (by simp [hx])))


/-- what one target's in-band data looks like: complete lines before the marker line, unterminated text
    right before the marker, lines after it; none contains the marker's first character or NUL -/
structure InbandData where
  out  : List Str
  pre  : Str
  late : List Str

def InbandData.ok (x : InbandData) : Prop :=
  (∀ l ∈ x.out, IsLine l ∧ 'X' ∉ l) ∧ (∀ l ∈ x.late, IsLine l ∧ 'X' ∉ l) ∧
  'X' ∉ x.pre ∧ NUL ∉ x.pre ∧ NL ∉ x.pre


/-! ### the `canc` repair: how the loop sees a canceled target -/

theorem seen_rc (fx : Fixes) (h : Host) : (seen fx h).rc = h.rc := by
  unfold seen; split <;> rfl

theorem seen_of_not_canceled (fx : Fixes) (h : Host) (hc : h.state ≠ .canceled) : seen fx h = h := by
  unfold seen; simp [hc]

theorem seen_unrepaired (fx : Fixes) (hc : fx.canc = false) (h : Host) : seen fx h = h := by
  unfold seen; simp [hc]

theorem map_seen_of_no_canceled (fx : Fixes) (hs : List Host) (hc : ∀ h ∈ hs, h.state ≠ .canceled) :
    hs.map (seen fx) = hs := by
  induction hs with
  | nil => rfl
  | cons h t ih =>
    rw [List.map_cons, seen_of_not_canceled fx h (hc h (by simp)), ih (fun x hx => hc x (by simp [hx]))]

theorem map_seen_unrepaired (fx : Fixes) (hc : fx.canc = false) (hs : List Host) : hs.map (seen fx) = hs := by
  induction hs with
  | nil => rfl
  | cons h t ih => rw [List.map_cons, seen_unrepaired fx hc h, ih]

/-- with the repair, "not seen as failed" means DONE -/
theorem seen_not_failed_iff (fx : Fixes) (hc : fx.canc = true) (h : Host) :
    (seen fx h).state ≠ .failed ↔ h.state = .done := by
  unfold seen
  cases hs : h.state <;> simp [hc, hs]

theorem faithful_not_canceled {o : Outcome} {h : Host} (hf : Faithful o h) : h.state ≠ .canceled := by
  cases o with
  | exited c => have : h = ⟨.done, c⟩ := hf; subst this; simp
  | killed s => have := (show h.state = .done ∧ _ from hf).1; simp [this]
  | connectFailed => have := (show h.state = .failed ∧ _ from hf).1; simp [this]
  | timedOut => have := (show h.state = .failed ∧ _ from hf).1; simp [this]

theorem allFaithful_not_canceled {outs : List Outcome} {hs : List Host} (hrel : AllFaithful outs hs) :
    ∀ h ∈ hs, h.state ≠ .canceled := by
  induction hrel with
  | nil => intro h hh; simp at hh
  | cons hoh _ ih =>
    intro h hh
    rcases List.mem_cons.mp hh with rfl | hin
    · exact faithful_not_canceled hoh
    · exact ih h hin

/-- closed form of the loop started at 0 (repaired D8) -/
theorem aggLoop_specAgg (fx : Fixes) (hd8 : fx.d8 = true) (l : List Host) : aggLoop fx 0 l = specAgg l := by
  unfold specAgg maxRc
  rw [aggLoop_fixed fx hd8]
  have := maxRcFrom_ge 0 l
  split <;> omega

/-! ### bounds of the -S loop, every variant (for time-outs and other cut-short runs) -/

theorem aggLoop_le (fx : Fixes) (a : Int) (l : List Host) (ha : a ≤ 255) (hl : ∀ h ∈ l, h.rc ≤ 255) :
    aggLoop fx a l ≤ 255 := by
  induction l generalizing a with
  | nil => simpa [aggLoop] using ha
  | cons h t ih =>
    have hh := hl h (by simp)
    have hR := RC_FAILED_le
    simp only [aggLoop]
    apply ih _ _ (fun x hx => hl x (by simp [hx]))
    split <;> split <;> (try split) <;> omega

theorem aggLoop_ge_of_ge (fx : Fixes) (a : Int) (l : List Host) (ha : RC_FAILED ≤ a) :
    RC_FAILED ≤ aggLoop fx a l := by
  induction l generalizing a with
  | nil => simpa [aggLoop] using ha
  | cons h t ih =>
    simp only [aggLoop]
    apply ih
    split <;> split <;> (try split) <;> omega

/-- once a target is seen as failed the loop's value is at least RC_FAILED, repaired or not -/
theorem aggLoop_ge_failed (fx : Fixes) (a : Int) (l : List Host) (h : ∃ x ∈ l, x.state = .failed) :
    RC_FAILED ≤ aggLoop fx a l := by
  induction l generalizing a with
  | nil => obtain ⟨x, hx, _⟩ := h; simp at hx
  | cons y t ih =>
    simp only [aggLoop]
    by_cases hy : y.state = .failed
    · apply aggLoop_ge_of_ge
      simp only [hy, if_true]
      split <;> split <;> omega
    · obtain ⟨x, hx, hxs⟩ := h
      rcases List.mem_cons.mp hx with rfl | hin
      · exact absurd hxs hy
      · exact ih _ ⟨x, hin, hxs⟩

end PdshVerif.Dsh.Exit
