/-
  C08 helper lemmas, part 2: from faithful per-host (state, code) pairs to an admissible exit status,
  and the in-band channel (line splitting, marker line).  Property theorems are in Props/C08.lean.
-/
import PdshVerif.Dsh.ExitLemmas

namespace PdshVerif.Dsh.Exit
open PdshVerif

/-- what the -S loop must see of a target for its outcome: the code of a command that ran, some
    non-zero code <= 255 for one that was killed, state FAILED (and a code <= 254) for an unreachable
    or timed-out one -/
def Faithful (o : Outcome) (h : Host) : Prop :=
  match o with
  | .exited c => h = ⟨.done, c⟩
  | .killed _ => h.state = .done ∧ 1 ≤ h.rc ∧ h.rc ≤ 255
  | .connectFailed => h.state = .failed ∧ 0 ≤ h.rc ∧ h.rc ≤ 254
  | .timedOut => h.state = .failed ∧ 0 ≤ h.rc ∧ h.rc ≤ 254

theorem execHostSpec_faithful (o : Outcome) (hok : okOutcome o) : Faithful o (execHostSpec o) := by
  cases o with
  | exited c => rfl
  | killed s =>
    have hs : 1 ≤ s ∧ s ≤ 64 := hok
    simp only [Faithful, execHostSpec, true_and]
    omega
  | connectFailed => simp [Faithful, execHostSpec]
  | timedOut => simp [Faithful, execHostSpec]

/-- pointwise over the target list -/
inductive AllFaithful : List Outcome → List Host → Prop where
  | nil : AllFaithful [] []
  | cons {o : Outcome} {h : Host} {os : List Outcome} {hs : List Host} :
      Faithful o h → AllFaithful os hs → AllFaithful (o :: os) (h :: hs)

/-- the invariants that tie the model's per-host data to the specification's quantities -/
theorem faithful_invariants (outs : List Outcome) (hs : List Host) (hrel : AllFaithful outs hs)
    (hok : ∀ o ∈ outs, okOutcome o) :
    anyFailed hs = outs.any ExitSpec.Outcome.unreachable ∧
    hs.any kFails = outs.any ExitSpec.Outcome.isFailure ∧
    (ExitSpec.maxCode outs : Int) ≤ maxRc hs ∧ maxRc hs ≤ 255 ∧
    (outs.any ExitSpec.Outcome.isKilled = true → 1 ≤ maxRc hs) ∧
    (outs.any ExitSpec.Outcome.isKilled = false →
      maxRc hs ≤ max (ExitSpec.maxCode outs : Int) 254 ∧
      (outs.any ExitSpec.Outcome.unreachable = false → maxRc hs = ExitSpec.maxCode outs)) := by
  induction hrel with
  | nil => simp [anyFailed, maxRc, maxRcFrom, ExitSpec.maxCode]; decide
  | @cons o h outs hs hoh _ ih =>
    obtain ⟨i0, i00, i1, i2, i3, i4⟩ := ih (fun x hx => hok x (by simp [hx]))
    have ho := hok o (by simp)
    unfold maxRc at *
    rw [maxRcFrom_cons, maxCode_cons, anyFailed_cons, List.any_cons, List.any_cons, List.any_cons, List.any_cons, i0, i00]
    cases o with
    | exited c =>
      have hc : c ≤ 255 := ho
      have hh : h = ⟨.done, c⟩ := hoh
      subst hh
      simp only [ExitSpec.Outcome.isKilled, ExitSpec.Outcome.unreachable, ExitSpec.Outcome.code, Bool.false_or]
      refine ⟨by simp, ?_, by omega, by omega, fun hk => by have := i3 hk; omega, fun hk => ?_⟩
      · cases c with
        | zero => simp [kFails, ExitSpec.Outcome.isFailure]
        | succ n =>
          have : (0 : Int) < (n : Int) + 1 := by omega
          simp [kFails, ExitSpec.Outcome.isFailure, this]
      · have ⟨j1, j2⟩ := i4 hk
        exact ⟨by omega, fun hu => by have := j2 hu; omega⟩
    | killed s =>
      obtain ⟨h1, h2, h3⟩ : h.state = .done ∧ 1 ≤ h.rc ∧ h.rc ≤ 255 := hoh
      simp only [ExitSpec.Outcome.isKilled, ExitSpec.Outcome.unreachable, ExitSpec.Outcome.code, Bool.true_or,
        Bool.false_or, h1]
      refine ⟨by simp, ?_, by omega, by omega, fun _ => by omega, fun hk => by simp at hk⟩
      have : (0 : Int) < h.rc := by omega
      simp [kFails, ExitSpec.Outcome.isFailure, this]
    | connectFailed =>
      obtain ⟨h1, h2, h3⟩ : h.state = .failed ∧ 0 ≤ h.rc ∧ h.rc ≤ 254 := hoh
      simp only [ExitSpec.Outcome.isKilled, ExitSpec.Outcome.unreachable, ExitSpec.Outcome.code, Bool.true_or,
        Bool.false_or, h1]
      refine ⟨by simp, by simp [kFails, ExitSpec.Outcome.isFailure, h1], by omega, by omega,
        fun hk => by have := i3 hk; omega, fun hk => ?_⟩
      have ⟨j1, _⟩ := i4 hk
      exact ⟨by omega, fun hu => by simp at hu⟩
    | timedOut =>
      obtain ⟨h1, h2, h3⟩ : h.state = .failed ∧ 0 ≤ h.rc ∧ h.rc ≤ 254 := hoh
      simp only [ExitSpec.Outcome.isKilled, ExitSpec.Outcome.unreachable, ExitSpec.Outcome.code, Bool.true_or,
        Bool.false_or, h1]
      refine ⟨by simp, by simp [kFails, ExitSpec.Outcome.isFailure, h1], by omega, by omega,
        fun hk => by have := i3 hk; omega, fun hk => ?_⟩
      have ⟨j1, _⟩ := i4 hk
      exact ⟨by omega, fun hu => by simp at hu⟩

/-! ### splitting a stream into lines -/

/-- a complete line: no newline except the final one -/
def IsLine (l : Str) : Prop := ∃ body, l = body ++ [NL] ∧ NL ∉ body

theorem splitLinesAux_tail (cur t : Str) (h : NL ∉ t) : splitLinesAux cur t = ([], cur.reverse ++ t) := by
  induction t generalizing cur with
  | nil => simp [splitLinesAux]
  | cons c t ih =>
    have hc : c ≠ NL := fun e => h (by simp [e])
    have ht : NL ∉ t := fun e => h (by simp [e])
    simp [splitLinesAux, hc, ih (c :: cur) ht]

theorem splitLinesAux_body (cur body rest : Str) (h : NL ∉ body) :
    splitLinesAux cur (body ++ NL :: rest) =
      ((cur.reverse ++ body ++ [NL]) :: (splitLinesAux [] rest).1, (splitLinesAux [] rest).2) := by
  induction body generalizing cur with
  | nil => simp [splitLinesAux]
  | cons c body ih =>
    have hc : c ≠ NL := fun e => h (by simp [e])
    have hb : NL ∉ body := fun e => h (by simp [e])
    simp [splitLinesAux, hc, ih (c :: cur) hb]

/-- a stream made of complete lines followed by an unterminated tail splits into exactly these lines -/
theorem splitLines_flatten (ls : List Str) (tail : Str) (hl : ∀ l ∈ ls, IsLine l) (ht : NL ∉ tail) :
    splitLines (ls.flatten ++ tail) = ls := by
  unfold splitLines
  induction ls with
  | nil => simp [splitLinesAux_tail [] tail ht]
  | cons l ls ih =>
    obtain ⟨body, rfl, hb⟩ := hl l (by simp)
    have ih' := ih (fun x hx => hl x (by simp [hx]))
    have : ((body ++ [NL]) :: ls).flatten ++ tail = body ++ NL :: (ls.flatten ++ tail) := by simp
    rw [this, splitLinesAux_body [] body _ hb]
    simp [ih']

theorem markerLine_isLine (pre : Str) (c : Nat) (hnl : NL ∉ pre) : IsLine (markerLine pre c) := by
  refine ⟨pre ++ MAGIC ++ digits c, rfl, ?_⟩
  simp only [List.mem_append, not_or]
  refine ⟨⟨hnl, by decide⟩, ?_⟩
  intro h
  have := CInt.isDigit_toNat (Nat.isDigit_of_mem_toDigits (b := 10) (by decide) (by decide) h)
  simp [NL] at this

theorem allFaithful_map (g : Outcome → Host) (outs : List Outcome) (h : ∀ o ∈ outs, Faithful o (g o)) :
    AllFaithful outs (outs.map g) := by
  induction outs with
  | nil => exact .nil
  | cons o os ih => exact .cons (h o (by simp)) (ih (fun x hx => h x (by simp [hx])))


/-- what one target's in-band data looks like: complete lines before the marker line, unterminated text
    right before the marker, lines after it; none contains the marker's first character or NUL -/
structure InbandData where
  out  : List Str
  pre  : Str
  late : List Str

def InbandData.ok (x : InbandData) : Prop :=
  (∀ l ∈ x.out, IsLine l ∧ 'X' ∉ l) ∧ (∀ l ∈ x.late, IsLine l ∧ 'X' ∉ l) ∧
  'X' ∉ x.pre ∧ NUL ∉ x.pre ∧ NL ∉ x.pre


end PdshVerif.Dsh.Exit
