import PdshVerif.Dsh.FanG

/-! # Invariants of the fan-out LTS (helper lemmas for Props/C03.lean and Props/C04.lean) -/
namespace PdshVerif.Dsh.FanG

/-! ## list facts -/

theorem getElem?_of_getD {ws : List W} {j : Nat} {w : W} (h : ws.getD j .idle = w) (hw : w ≠ .idle) :
    ws[j]? = some w := by
  rw [List.getD_eq_getElem?_getD] at h
  cases hj : ws[j]? with
  | none => rw [hj] at h; exact absurd h.symm hw
  | some x => rw [hj] at h; simp at h; rw [h]

theorem getD_of_getElem? {ws : List W} {j : Nat} {w : W} (h : ws[j]? = some w) : ws.getD j .idle = w := by
  rw [List.getD_eq_getElem?_getD, h]; rfl

theorem lt_of_getElem? {ws : List W} {j : Nat} {w : W} (h : ws[j]? = some w) : j < ws.length := by
  rw [List.getElem?_eq_some_iff] at h; exact h.1

theorem getD_set_eq {ws : List W} {i : Nat} {a : W} (hi : i < ws.length) : (ws.set i a).getD i .idle = a := by
  rw [List.getD_eq_getElem?_getD, List.getElem?_set]; simp [hi]

theorem getD_set_ne {ws : List W} {i j : Nat} {a : W} (hne : i ≠ j) :
    (ws.set i a).getD j .idle = ws.getD j .idle := by
  rw [List.getD_eq_getElem?_getD, List.getD_eq_getElem?_getD, List.getElem?_set]; simp [hne]

theorem countP_set_of (p : W → Bool) {ws : List W} {i : Nat} {a b : W} (h : ws[i]? = some a) :
    (ws.set i b).countP p + (if p a then 1 else 0) = ws.countP p + (if p b then 1 else 0) := by
  rw [List.getElem?_eq_some_iff] at h
  obtain ⟨hi, he⟩ := h
  rw [List.countP_set hi, he]
  have : (if p a = true then 1 else 0) ≤ ws.countP p := by
    have := List.boole_getElem_le_countP (p := p) hi; rw [he] at this; exact this
  omega

theorem sum_map_set (g : W → Nat) : ∀ {ws : List W} {i : Nat} {a b : W}, ws[i]? = some a →
    ((ws.set i b).map g).sum + g a = (ws.map g).sum + g b
  | [], i, a, b, h => by simp at h
  | x :: xs, 0, a, b, h => by
      simp at h; subst h; simp [List.set]; omega
  | x :: xs, i + 1, a, b, h => by
      have h' : xs[i]? = some a := by simpa using h
      have := sum_map_set g (ws := xs) (i := i) (a := a) (b := b) h'
      simp only [List.set_cons_succ, List.map_cons, List.sum_cons]; omega

theorem exists_of_countP_pos (p : W → Bool) {ws : List W} (h : 0 < ws.countP p) :
    ∃ j, p (ws.getD j .idle) = true ∧ j < ws.length := by
  rw [List.countP_pos_iff] at h
  obtain ⟨a, ha, hp⟩ := h
  obtain ⟨j, hj, he⟩ := List.mem_iff_getElem.mp ha
  refine ⟨j, ?_, hj⟩
  rw [List.getD_eq_getElem?_getD, List.getElem?_eq_getElem hj, he]; exact hp

/-! ## the invariant -/

def pc (s : St) (j : Nat) : W := s.ws.getD j .idle
def frontier (s : St) : Nat := if s.dpc = .unlock then s.i + 1 else s.i

def DPC.holds : DPC → Bool
  | .wait | .create | .unlock | .dwait | .dunlock => true
  | _ => false
def DPC.dispatching : DPC → Bool
  | .top | .wait | .parked | .woken | .create | .unlock => true
  | _ => false
def DPC.finished : DPC → Bool
  | .dunlock | .finishing | .returned => true
  | _ => false
def holdsW : W → Bool
  | .locked | .signaled => true
  | _ => false
def isLocked : W → Bool
  | .locked => true
  | _ => false
/-- slot given back and mutex dropped, wake-up call still to come -/
def isReleased : W → Bool
  | .released => true
  | _ => false
/-- through with everything the dispatcher waits for (`threadcount--` and `unlock` done) -/
def isOut : W → Bool
  | .done | .released => true
  | _ => false

structure Inv (s : St) : Prop where
  cnt : s.tc = s.ws.countP counted
  ownD : s.own = .d ↔ s.dpc.holds = true
  ownW : ∀ j, s.own = .w j ↔ holdsW (pc s j) = true
  front : ∀ j, pc s j = .idle ↔ frontier s ≤ j
  disp : s.dpc.dispatching = true → s.i < s.ws.length
  drain : s.dpc.dispatching = false → s.i = s.ws.length
  waitEq : s.dpc = .wait → s.tc = s.f
  dwaitPos : s.dpc = .dwait → 0 < s.tc
  fin : s.dpc.finished = true → ∀ j, j < s.ws.length → isOut (pc s j) = true
  park : s.dpc = .parked → s.sig = false → s.f ≤ s.tc + s.ws.countP isLocked + s.ws.countP isReleased
  dpark : s.dpc = .dparked → s.sig = false → 0 < s.tc + s.ws.countP isLocked + s.ws.countP isReleased

theorem pc_init (v f n j) : pc (init v f n) j = .idle := by
  simp [pc, init, List.getD_eq_getElem?_getD, List.getElem?_replicate]
  split <;> rfl

theorem countP_replicate_idle (p : W → Bool) (hp : p .idle = false) (n : Nat) :
    (List.replicate n W.idle).countP p = 0 := by
  rw [List.countP_eq_zero]; intro a ha; rw [List.eq_of_mem_replicate ha, hp]; simp

theorem inv_init (v : Variant) (f n : Nat) : Inv (init v f n) := by
  have hpc := pc_init v f n
  refine { cnt := ?_, ownD := ?_, ownW := ?_, front := ?_, disp := ?_, drain := ?_, waitEq := ?_, dwaitPos := ?_,
           fin := ?_, park := ?_, dpark := ?_ }
  · simp [init, countP_replicate_idle counted rfl]
  · simp only [init]; split <;> simp [DPC.holds]
  · intro j; rw [hpc]; simp [init, holdsW]
  · intro j; rw [hpc]; simp only [init, frontier]; split <;> simp
  · simp only [init]; split <;> simp_all [DPC.dispatching]
  · simp only [init]; split <;> simp_all [DPC.dispatching]
  · simp only [init]; split <;> simp
  · simp only [init]; split <;> simp
  · simp only [init]; split <;> simp [DPC.finished]
  · simp only [init]; split <;> simp
  · simp only [init]; split <;> simp

end PdshVerif.Dsh.FanG
