/-
  Invariant of the -k transition system (Dsh/ExitKill.lean) and the lemmas the property theorems of Props/C08.lean
  are assembled from.
-/
import PdshVerif.Dsh.ExitKill
import PdshVerif.Dsh.ExitLemmas

namespace PdshVerif.Dsh.Exit.Kill
open PdshVerif PdshVerif.Dsh.Exit

/-- what is known of one target in a reachable state -/
def Ok (fx : Fixes) (fl : Flags) : Target → Phase → Prop
  | none, p => p = .finished ⟨.canceled, 0⟩
  | some _, .new => True
  | some _, .connecting => True
  | some sc, .reading seen rc =>
    sc.connectOk = true ∧ seen ≤ (linesOf sc).length ∧ rc = rcAfter fx 0 (linesOf sc) 0 seen
  | some sc, .atEnd st rc => (⟨st, finalRc rc sc.rv⟩ : Host) = hostOf fx sc
  | some sc, .finished h => h = hostOf fx sc ∧ (fl.k = true → kFails h = false)

def Inv (fx : Fixes) (fl : Flags) (ts : List Target) (ps : List Phase) : Prop :=
  ps.length = ts.length ∧ ∀ j (h1 : j < ps.length) (h2 : j < ts.length), Ok fx fl ts[j] ps[j]

/-- the invariant of a whole state -/
def SInv (fx : Fixes) (fl : Flags) (ts : List Target) : St → Prop
  | .run ps => Inv fx fl ts ps
  | .exited c how ps sg =>
    Inv fx fl ts ps ∧
    match how with
    | .midstream i =>
      c = 1 ∧ fl.k = true ∧ sg = readingIdx ps ∧
      ∃ seen rc sc, ps[i]? = some (.reading seen rc) ∧ ts[i]? = some (some sc) ∧ rc - 128 > 0
    | .teardown i =>
      c = 1 ∧ fl.k = true ∧ sg = readingIdx ps ∧
      ∃ st rc sc, ps[i]? = some (.atEnd st rc) ∧ ts[i]? = some (some sc) ∧ kFails (hostOf fx sc) = true
    | .returned => ps.all isFinished = true ∧ c = exitStatus (dshReturn fx fl (hostsOf ps)) ∧ sg = []

theorem inv_init (fx : Fixes) (fl : Flags) (ts : List Target) :
    Inv fx fl ts (ts.map fun t => match t with | none => .finished ⟨.canceled, 0⟩ | some _ => .new) := by
  refine ⟨by simp, ?_⟩
  intro j h1 h2
  simp only [List.getElem_map]
  cases ts[j] with
  | none => simp [Ok]
  | some sc => simp [Ok]

theorem inv_set {fx : Fixes} {fl : Flags} {ts : List Target} {ps : List Phase} (h : Inv fx fl ts ps) (i : Nat)
    (p : Phase) (hp : ∀ (h2 : i < ts.length), Ok fx fl ts[i] p) : Inv fx fl ts (ps.set i p) := by
  obtain ⟨hl, hj⟩ := h
  refine ⟨by simp [hl], ?_⟩
  intro j h1 h2
  rw [List.getElem_set]
  split
  · next hij => subst hij; exact hp h2
  · exact hj j (by simpa using h1) h2

theorem rcAfter_add (fx : Fixes) (ls : List Str) (seen n : Nat) :
    rcAfter fx (rcAfter fx 0 ls 0 seen) ls seen n = rcAfter fx 0 ls 0 (seen + n) := by
  unfold rcAfter
  simp only [List.drop_zero]
  rw [List.take_add, List.foldl_append]

theorem rcAfter_all (fx : Fixes) (ls : List Str) : rcAfter fx 0 ls 0 ls.length = rcAfterLines fx ls := by
  unfold rcAfter rcAfterLines
  simp

/-- one step preserves the invariant -/
theorem sinv_step (fx : Fixes) (fl : Flags) (ts : List Target) (s s' : St) (e : Ev)
    (hi : SInv fx fl ts s) (hs : step fx fl ts s e = some s') : SInv fx fl ts s' := by
  cases s with
  | exited c how ps sg => simp [step] at hs
  | run ps =>
    have hinv : Inv fx fl ts ps := hi
    cases e with
    | start i =>
      simp only [step] at hs
      split at hs
      · next h1 h2 =>
        simp only [Option.some.injEq] at hs; subst hs
        obtain ⟨ht, e2⟩ := getElem_of_getElem? h2
        exact inv_set hinv i _ (fun _ => by rw [e2]; trivial)
      · cases hs
    | connected i =>
      simp only [step] at hs
      split at hs
      · next sc h1 h2 =>
        simp only [Option.some.injEq] at hs; subst hs
        obtain ⟨ht, e2⟩ := getElem_of_getElem? h2
        refine inv_set hinv i _ (fun _ => ?_)
        rw [e2]
        cases hc : sc.connectOk with
        | true => simp [Ok, hc, rcAfter]
        | false => simp [Ok, hostOf, hc]
      · cases hs
    | poll i n =>
      simp only [step] at hs
      split at hs
      · next seen rc sc h1 h2 =>
        obtain ⟨hp, e1⟩ := getElem_of_getElem? h1
        obtain ⟨ht, e2⟩ := getElem_of_getElem? h2
        have hok := hinv.2 i hp ht
        rw [e1, e2] at hok
        obtain ⟨hc, hle, hrc⟩ := hok
        split at hs
        · next hlen =>
          have hinv' : Inv fx fl ts (ps.set i (.reading (seen + n) (rcAfter fx rc (linesOf sc) seen n))) := by
            refine inv_set hinv i _ (fun _ => ?_)
            rw [e2]
            exact ⟨hc, hlen, by rw [hrc, rcAfter_add]⟩
          split at hs
          · next hk =>
            simp only [Option.some.injEq] at hs; subst hs
            simp only [Bool.and_eq_true, decide_eq_true_eq] at hk
            refine ⟨hinv', rfl, hk.1, rfl, seen + n, _, sc, ?_, h2, hk.2⟩
            simp [hp]
          · simp only [Option.some.injEq] at hs; subst hs
            exact hinv'
        · cases hs
      · cases hs
    | leave i =>
      simp only [step] at hs
      split at hs
      · next seen rc sc h1 h2 =>
        obtain ⟨hp, e1⟩ := getElem_of_getElem? h1
        obtain ⟨ht, e2⟩ := getElem_of_getElem? h2
        have hok := hinv.2 i hp ht
        rw [e1, e2] at hok
        obtain ⟨hc, hle, hrc⟩ := hok
        split at hs
        · next hall =>
          simp only [Option.some.injEq] at hs; subst hs
          refine inv_set hinv i _ (fun _ => ?_)
          rw [e2]
          subst hall
          rw [rcAfter_all] at hrc
          simp [Ok, hostOf, hc, hrc, linesOf]
        · cases hs
      · cases hs
    | teardown i =>
      simp only [step] at hs
      split at hs
      · next st rc sc h1 h2 =>
        obtain ⟨hp, e1⟩ := getElem_of_getElem? h1
        obtain ⟨ht, e2⟩ := getElem_of_getElem? h2
        have hok := hinv.2 i hp ht
        rw [e1, e2] at hok
        have hok' : (⟨st, finalRc rc sc.rv⟩ : Host) = hostOf fx sc := hok
        split at hs
        · next hk =>
          simp only [Option.some.injEq] at hs; subst hs
          simp only [Bool.and_eq_true] at hk
          exact ⟨hinv, rfl, hk.1, rfl, st, rc, sc, h1, h2, by rw [← hok']; exact hk.2⟩
        · next hk =>
          simp only [Option.some.injEq] at hs; subst hs
          refine inv_set hinv i _ (fun _ => ?_)
          rw [e2]
          refine ⟨hok', fun hkk => ?_⟩
          simp only [Bool.and_eq_true, not_and, Bool.not_eq_true] at hk
          exact hk hkk
      · cases hs
    | ret =>
      simp only [step] at hs
      split at hs
      · next hall =>
        simp only [Option.some.injEq] at hs; subst hs
        exact ⟨hinv, hall, rfl, rfl⟩
      · cases hs

theorem sinv_exec (fx : Fixes) (fl : Flags) (ts : List Target) (evs : List Ev) (s s' : St)
    (hi : SInv fx fl ts s) (hx : exec fx fl ts s evs = some s') : SInv fx fl ts s' := by
  induction evs generalizing s with
  | nil => simp only [exec, Option.some.injEq] at hx; subst hx; exact hi
  | cons e es ih =>
    simp only [exec] at hx
    cases hstep : step fx fl ts s e with
    | none => simp [hstep] at hx
    | some s1 =>
      simp only [hstep] at hx
      exact ih s1 (sinv_step fx fl ts s s1 e hi hstep) hx

theorem sinv_reach (fx : Fixes) (fl : Flags) (ts : List Target) (evs : List Ev) (s : St)
    (hx : exec fx fl ts (init ts) evs = some s) : SInv fx fl ts s :=
  sinv_exec fx fl ts evs (init ts) s (inv_init fx fl ts) hx

/-! ### when every target is finished -/

theorem hostsOf_all_finished (fx : Fixes) (fl : Flags) :
    ∀ (ts : List Target) (ps : List Phase), Inv fx fl ts ps → ps.all isFinished = true →
      hostsOf ps = ts.map (hostOfT fx) ∧ (fl.k = true → (hostsOf ps).any kFails = false) := by
  intro ts
  induction ts with
  | nil =>
    intro ps hinv _
    have : ps = [] := List.eq_nil_of_length_eq_zero (by simpa using hinv.1)
    subst this
    simp [hostsOf]
  | cons t ts ih =>
    intro ps hinv hall
    cases ps with
    | nil => exact absurd hinv.1 (by simp)
    | cons p ps =>
      have hlen : ps.length = ts.length := by simpa using hinv.1
      have htail : Inv fx fl ts ps := by
        refine ⟨hlen, fun j h1 h2 => ?_⟩
        have := hinv.2 (j + 1) (by simp; omega) (by simp; omega)
        simpa using this
      have hhead : Ok fx fl t p := by
        have := hinv.2 0 (by simp) (by simp)
        simpa using this
      simp only [List.all_cons, Bool.and_eq_true] at hall
      obtain ⟨ih1, ih2⟩ := ih ps htail hall.2
      cases p with
      | finished h =>
        cases t with
        | none =>
          have : h = ⟨.canceled, 0⟩ := by simpa [Ok] using hhead
          subst this
          refine ⟨by simp [hostsOf, ih1, hostOfT], fun hk => ?_⟩
          simp [hostsOf, ih2 hk, kFails]
        | some sc =>
          obtain ⟨e1, e2⟩ : h = hostOf fx sc ∧ (fl.k = true → kFails h = false) := hhead
          refine ⟨by simp [hostsOf, ih1, hostOfT, e1], fun hk => ?_⟩
          simp [hostsOf, ih2 hk, e2 hk]
      | new => simp [isFinished] at hall
      | connecting => simp [isFinished] at hall
      | reading a b => simp [isFinished] at hall
      | atEnd a b => simp [isFinished] at hall

theorem any_kFails_of_mem (fx : Fixes) (ts : List Target) (i : Nat) (sc : Script) (h : ts[i]? = some (some sc))
    (hk : kFails (hostOf fx sc) = true) : (ts.map (hostOfT fx)).any kFails = true := by
  rw [List.any_eq_true]
  obtain ⟨hi, e⟩ := getElem_of_getElem? h
  exact ⟨hostOf fx sc, List.mem_map.mpr ⟨some sc, by rw [← e]; exact List.getElem_mem hi, rfl⟩, hk⟩

/-- a mid-stream death happens only to a target whose final status fails as well (true of every target whose
    output carries at most one marker line: `noEarlyDeath_exec`, `noEarlyDeath_of_prefix_stable`) -/
def NoEarlyDeath (fx : Fixes) (ts : List Target) : Prop :=
  ∀ sc, some sc ∈ ts → ∀ m, m ≤ (linesOf sc).length → rcAfter fx 0 (linesOf sc) 0 m - 128 > 0 →
    kFails (hostOf fx sc) = true

/-- the exit status of a finished -k run, whatever the schedule -/
theorem exited_code (fx : Fixes) (fl : Flags) (ts : List Target) (c : Nat) (how : How) (ps : List Phase)
    (sg : List Nat) (hi : SInv fx fl ts (.exited c how ps sg)) (hne : NoEarlyDeath fx ts) :
    c = mainExit fx fl (.started (ts.map (hostOfT fx))) := by
  obtain ⟨hinv, hhow⟩ := hi
  cases how with
  | midstream i =>
    obtain ⟨hc, hk, _, seen, rc, sc, h1, h2, hrc⟩ := hhow
    obtain ⟨hp, e1⟩ := getElem_of_getElem? h1
    obtain ⟨ht, e2⟩ := getElem_of_getElem? h2
    have hok := hinv.2 i hp ht
    rw [e1, e2] at hok
    obtain ⟨_, hle, hrc'⟩ := hok
    have hkf := hne sc (by rw [← e2]; exact List.getElem_mem ht) seen hle (by rw [← hrc']; exact hrc)
    simp [mainExit, hk, any_kFails_of_mem fx ts i sc h2 hkf, hc]
  | teardown i =>
    obtain ⟨hc, hk, _, st, rc, sc, h1, h2, hkf⟩ := hhow
    simp [mainExit, hk, any_kFails_of_mem fx ts i sc h2 hkf, hc]
  | returned =>
    obtain ⟨hall, hc, _⟩ := hhow
    obtain ⟨e1, e2⟩ := hostsOf_all_finished fx fl ts ps hinv hall
    rw [hc, e1]
    unfold mainExit
    cases hk : fl.k with
    | false => simp
    | true =>
      have := e2 hk
      rw [e1] at this
      simp [this]

/-- out-of-band targets (nothing on stdout) never die in mid-stream -/
theorem noEarlyDeath_of_no_lines (fx : Fixes) (ts : List Target)
    (h : ∀ sc, some sc ∈ ts → linesOf sc = []) : NoEarlyDeath fx ts := by
  intro sc hm m _ hrc
  rw [h sc hm] at hrc
  simp [rcAfter] at hrc

/-- PREFIX-STABLE targets: after every prefix of its lines `th->rc` is 0 or already the value it has at the end -/
theorem noEarlyDeath_of_prefix_stable (fx : Fixes) (ts : List Target)
    (h : ∀ sc, some sc ∈ ts → sc.connectOk = true ∧ ∀ m, m ≤ (linesOf sc).length →
      rcAfter fx 0 (linesOf sc) 0 m = 0 ∨ rcAfter fx 0 (linesOf sc) 0 m = rcAfterLines fx (linesOf sc)) :
    NoEarlyDeath fx ts := by
  intro sc hm m hle hrc
  obtain ⟨hc, hst⟩ := h sc hm
  rcases hst m hle with h0 | h1
  · rw [h0] at hrc; omega
  · rw [h1] at hrc
    have : finalRc (rcAfterLines fx (linesOf sc)) sc.rv = rcAfterLines fx (linesOf sc) := by
      unfold finalRc; split <;> omega
    simp only [hostOf, hc, Bool.not_true, Bool.false_eq_true, if_false, kFails, linesOf] at *
    rw [this]
    simp
    right
    omega

/-! ### `_fwd_signal` -/

theorem mem_readingFrom (k j : Nat) : ∀ (ps : List Phase),
    j ∈ readingFrom k ps ↔ ∃ h : k ≤ j, ∃ h2 : j - k < ps.length, isReading ps[j - k] = true := by
  intro ps
  induction ps generalizing k with
  | nil => simp [readingFrom]
  | cons p ps ih =>
    simp only [readingFrom, List.mem_append, ih]
    constructor
    · rintro (h | ⟨h1, h2, h3⟩)
      · split at h
        · next hr =>
          simp only [List.mem_singleton] at h; subst h
          exact ⟨Nat.le_refl _, by simp, by simpa using hr⟩
        · cases h
      · refine ⟨by omega, by simp; omega, ?_⟩
        have : j - k = (j - (k + 1)) + 1 := by omega
        simp only [this, List.getElem_cons_succ]
        exact h3
    · rintro ⟨h1, h2, h3⟩
      by_cases hjk : j = k
      · subst hjk
        left
        simp only [Nat.sub_self, List.getElem_cons_zero] at h3
        simp [h3]
      · right
        refine ⟨by omega, by simp at h2; omega, ?_⟩
        have : j - k = (j - (k + 1)) + 1 := by omega
        simp only [this, List.getElem_cons_succ] at h3
        exact h3

/-- the targets SIGTERM is forwarded to are exactly the ones inside their poll loop -/
theorem mem_readingIdx (ps : List Phase) (j : Nat) :
    j ∈ readingIdx ps ↔ ∃ seen rc, ps[j]? = some (.reading seen rc) := by
  unfold readingIdx
  rw [mem_readingFrom]
  simp only [Nat.zero_le, Nat.sub_zero, exists_true_left]
  constructor
  · rintro ⟨h2, h3⟩
    cases hp : ps[j] with
    | reading seen rc => exact ⟨seen, rc, by simp [List.getElem?_eq_getElem h2, hp]⟩
    | new => simp [hp, isReading] at h3
    | connecting => simp [hp, isReading] at h3
    | atEnd a b => simp [hp, isReading] at h3
    | finished a => simp [hp, isReading] at h3
  · rintro ⟨seen, rc, h⟩
    obtain ⟨h2, e⟩ := getElem_of_getElem? h
    exact ⟨h2, by simp [e, isReading]⟩

end PdshVerif.Dsh.Exit.Kill
