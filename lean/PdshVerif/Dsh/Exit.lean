/-
  Model of how pdsh computes its exit status (property C08).

  Code modelled (all in /repo):
    src/pdsh/dsh.c      _extract_rc, _flush_lines (`th->rc = _extract_rc (buf)` per complete line),
                        _rsh_thread (`rv = rcmd_destroy; if (a->rc == 0 && rv > 0) a->rc = rv`,
                        kill_on_fail), dsh() (the -S loop at its end)
    src/modules/execcmd.c  exec_destroy (WEXITSTATUS of the wait status; 1 when there is nothing to wait for)
    src/pdsh/main.c     main: opt_verify false => 1, else `return dsh (&opt)` (exit status = low 8 bits)

  Bytes are `Char`s with code < 256; a C string ends at its first NUL.

  Every place where the unchanged code violates the property text has ONE switch in `Fixes`;
  `Fixes.none` is the code as it is in /repo, `Fixes.all` the proposed repairs (see findings/C08.json):
    d7   exec_destroy: a child killed by a signal yields 128+sig instead of WEXITSTATUS (= 0)
    d8   -S loop: a failed host *raises* rc to RC_FAILED instead of assigning it
    d9   _extract_rc: read the number before cutting the line (not from one past its first digit)
    late _flush_lines: only a line that contains the marker updates th->rc
    canc (canceledCountsAsFailure) -S loop: DSH_CANCELED is tested together with DSH_FAILED
         (`if ((t[i].state == DSH_FAILED || t[i].state == DSH_CANCELED) && rc < RC_FAILED) rc = RC_FAILED;`)
-/
import PdshVerif.Base.CInt
import PdshVerif.Gen.Dsh
import PdshVerif.Dsh.ExitSpec

namespace PdshVerif.Dsh.Exit
open PdshVerif

abbrev Str := List Char

structure Fixes where
  d7   : Bool
  d8   : Bool
  d9   : Bool
  late : Bool
  canc : Bool
  deriving DecidableEq, Repr

def Fixes.none : Fixes := ⟨false, false, false, false, false⟩
def Fixes.all  : Fixes := ⟨true, true, true, true, true⟩

def MAGIC : Str := Gen.RC_MAGIC.toList
def RC_FAILED : Int := (Gen.RC_FAILED : Int)
def NUL : Char := Char.ofNat 0
def NL : Char := '\n'

/-- the C string held by a buffer -/
def cstr (b : Str) : Str := b.takeWhile (· ≠ NUL)

/-- `strstr`: index of the first occurrence of `pat` -/
def findSub (pat : Str) : Str → Option Nat
  | [] => if pat = [] then some 0 else none
  | c :: s => if pat.isPrefixOf (c :: s) then some 0 else (findSub pat s).map (· + 1)

/-- `_extract_rc (buf)` on the C string `s`: (returned code, the C string left in buf).

    ```
    char *p = strstr (buf, RC_MAGIC);
    if (p) {
        if (buf[strlen (buf) - 1] == '\n' && p != buf)
            *p++ = '\n';
        *p = '\0';
        p += strlen (RC_MAGIC);
        ret = atoi (p);
    }
    ```
    When text precedes the marker, `p` has been advanced by one before `strlen (RC_MAGIC)` is added:
    atoi starts one character past the first digit (D9). -/
def extractRc (fx : Fixes) (s : Str) : Int × Str :=
  match findSub MAGIC s with
  | none => (0, s)
  | some i =>
    let pre := s.take i
    let after := s.drop (i + MAGIC.length)
    if s.getLast? = some NL ∧ i ≠ 0 then
      (CInt.atoi (if fx.d9 then after else after.drop 1), pre ++ [NL])
    else
      (CInt.atoi after, pre)

/-- split a byte stream into its complete lines (each with its '\n') and the unterminated tail -/
def splitLinesAux (cur : Str) : Str → List Str × Str
  | [] => ([], cur.reverse)
  | c :: s =>
    if c = NL then
      let r := splitLinesAux [] s
      ((cur.reverse ++ [NL]) :: r.1, r.2)
    else splitLinesAux (c :: cur) s

def splitLines (s : Str) : List Str := (splitLinesAux [] s).1

/-- `_flush_lines (..., read_rc = true, th)`: one complete stdout line -/
def lineStep (fx : Fixes) (rc : Int) (line : Str) : Int :=
  let s := cstr line
  if fx.late then
    (if (findSub MAGIC s).isSome then (extractRc fx s).1 else rc)
  else (extractRc fx s).1

/-- th->rc after all complete stdout lines (the unterminated tail is flushed with read_rc = false) -/
def rcAfterLines (fx : Fixes) (lines : List Str) : Int := lines.foldl (lineStep fx) 0

/-- `rv = rcmd_destroy (a->rcmd); if ((a->rc == 0) && (rv > 0)) a->rc = rv;` -/
def finalRc (rc rv : Int) : Int := if rc = 0 ∧ rv > 0 then rv else rc

/-! wait status (Linux encoding) -/
def wexitstatus (st : Nat) : Nat := (st / 256) % 256
def wtermsig (st : Nat) : Nat := st % 128
def wifsignaled (st : Nat) : Bool := wtermsig st ≠ 0 && wtermsig st ≠ 127

/-- `exec_destroy`: `none` = nothing to wait for (pipecmd failed: `pipecmd_wait (NULL)` < 0) -/
def execDestroy (fx : Fixes) : Option Nat → Int
  | none => 1
  | some st => if fx.d7 && wifsignaled st then (128 + wtermsig st : Nat) else (wexitstatus st : Nat)

inductive State where
  | done | failed | canceled
  deriving DecidableEq, Repr

/-- what the -S loop sees of one target -/
structure Host where
  state : State
  rc    : Int
  deriving DecidableEq, Repr

/-- the transport script of one target as the rcmd layer presents it to `_rsh_thread` -/
structure Script where
  connectOk : Bool       -- rcmd_connect returned a descriptor
  stdout    : Str        -- bytes read from it before EOF (or before the time-out)
  timedOut  : Bool       -- the command time-out fired (state DSH_FAILED)
  /-- HOW the expiry was noticed: `false` = the watchdog's SIGALRM interrupted xpoll (EINTR, an idle command),
      `true` = the worker itself at the top of its poll loop (a command that keeps it busy with output; the
      signal sent meanwhile was lost).  Both paths set `result = DSH_FAILED`, print the diagnostic, send SIGTERM
      and leave the loop: the field has no influence on `hostOf` — that is what C08.timeout_nonzero states. -/
  viaLoopTop : Bool := false
  rv        : Int        -- value of rcmd_destroy
  deriving Repr

def hostOf (fx : Fixes) (sc : Script) : Host :=
  if !sc.connectOk then { state := .failed, rc := finalRc 0 sc.rv }
  else { state := if sc.timedOut then .failed else .done,
         rc := finalRc (rcAfterLines fx (splitLines sc.stdout)) sc.rv }

/-- the loop `if (opt->ret_remote_rc) for (...)` at the end of dsh()
    ```
    if (t[i].state == DSH_FAILED) rc = RC_FAILED;
    if (t[i].rc > rc)             rc = t[i].rc;
    ``` -/
def aggLoop (fx : Fixes) (rc : Int) : List Host → Int
  | [] => rc
  | h :: t =>
    let rc1 := if h.state = .failed then (if fx.d8 then max rc RC_FAILED else RC_FAILED) else rc
    let rc2 := if h.rc > rc1 then h.rc else rc1
    aggLoop fx rc2 t

/-- how the loop's state test classifies a target: with the `canc` repair the test reads
    `state == DSH_FAILED || state == DSH_CANCELED`, i.e. a canceled target is seen as a failed one
    (the loop looks at the state through this one test only, so this mirrors the patched line exactly) -/
def seen (fx : Fixes) (h : Host) : Host :=
  if fx.canc && h.state = .canceled then { h with state := .failed } else h

def aggregate (fx : Fixes) (hs : List Host) : Int := aggLoop fx 0 (hs.map (seen fx))

structure Flags where
  S : Bool
  k : Bool
  deriving DecidableEq, Repr

/-- `-k`: `if (a->kill_on_fail && ((a->state == DSH_FAILED) || (a->rc > 0))) errx (...)` (exit 1) -/
def kFails (h : Host) : Bool := h.state = .failed || h.rc > 0

def dshReturn (fx : Fixes) (fl : Flags) (hs : List Host) : Int :=
  if fl.S then aggregate fx hs else 0

/-- exit status of a process whose main returns `r` -/
def exitStatus (r : Int) : Nat := (r % 256).toNat

inductive Run where
  | refused                       -- opt_verify failed / errx during option processing
  | started (hs : List Host)
  | aborted                       -- errx while the run is under way: batch-mode ^C, a second ^C within a second
  deriving Repr

def mainExit (fx : Fixes) (fl : Flags) : Run → Nat
  | .refused => 1
  | .aborted => 1                 -- _handle_sigint: errx ("... aborting.") = exit (1)
  | .started hs => if fl.k && hs.any kFails then 1 else exitStatus (dshReturn fx fl hs)

/-! ### the request for the status marker -/

/-- `opt->getstat = ";echo " RC_MAGIC "$?"` -/
def getstat : Str := ";echo ".toList ++ MAGIC ++ "$?".toList

/-- the command string dsh() hands to the transport for the user's command `cmd` (DSH personality, no DSHPATH):
    `if (opt->kill_on_fail || opt->ret_remote_rc) opt->getstat = ...;` then `xstrcat (&cmd, opt->getstat)` -/
def sentCommand (fl : Flags) (cmd : Str) : Str := if fl.k || fl.S then cmd ++ getstat else cmd

/-- what the caller of dsh() sees: `some r` = it returned r; `none` = it did not return: a worker's -k test ended
    the process (errx).  The driver prints this next to `mainExit`; `mainExit_started` ties the two. -/
def dshResult (fx : Fixes) (fl : Flags) (hs : List Host) : Option Int :=
  if fl.k && hs.any kFails then none else some (dshReturn fx fl hs)

theorem mainExit_started (fx : Fixes) (fl : Flags) (hs : List Host) :
    mainExit fx fl (.started hs) = match dshResult fx fl hs with | none => 1 | some r => exitStatus r := by
  simp only [mainExit, dshResult]
  split <;> rfl

/-! ### from outcomes to scripts: the two status channels -/

export ExitSpec (Outcome)

def digits (n : Nat) : Str := Nat.toDigits 10 n

/-- out-of-band channel (`-R exec`): the status is the child's wait status -/
def execScript (fx : Fixes) : Outcome → Script
  | .exited c => { connectOk := true, stdout := [], timedOut := false, rv := execDestroy fx (some (c % 256 * 256)) }
  | .killed s => { connectOk := true, stdout := [], timedOut := false, rv := execDestroy fx (some (s % 128)) }
  | .connectFailed => { connectOk := false, stdout := [], timedOut := false, rv := execDestroy fx none }
  -- the child is sent SIGTERM and reaped
  | .timedOut => { connectOk := true, stdout := [], timedOut := true, rv := execDestroy fx (some 15) }

/-- in-band channel (rsh/ssh-like): the remote shell runs `cmd;echo XXRETCODE:$?`.
    `out` = complete lines the command printed, `pre` = its unterminated last output (no NL),
    `late` = lines arriving after the marker (background jobs);
    a command killed by signal s makes the shell report 128+s. -/
def markerLine (pre : Str) (code : Nat) : Str := pre ++ MAGIC ++ digits code ++ [NL]

def inbandScript (out pre late : Str) : Outcome → Script
  | .exited c => { connectOk := true, stdout := out ++ markerLine pre c ++ late, timedOut := false, rv := 0 }
  | .killed s => { connectOk := true, stdout := out ++ markerLine pre (128 + s) ++ late, timedOut := false, rv := 0 }
  | .connectFailed => { connectOk := false, stdout := [], timedOut := false, rv := 0 }
  | .timedOut => { connectOk := true, stdout := out ++ pre, timedOut := true, rv := 0 }

end PdshVerif.Dsh.Exit
