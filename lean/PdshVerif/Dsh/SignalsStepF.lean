import PdshVerif.Dsh.SignalsStepD

/-! # The fan-out bookkeeping `FInv` is preserved by the dispatcher's steps -/
namespace PdshVerif.Dsh.Sig
open PdshVerif.Dsh.Fan (Variant DPC)

/-- when the dispatcher finds `threadcount == 0` in the drain loop, holding no one back, every worker that
    was ever created is done -/
theorem all_done {s : St} (hm : MInv s) (h : FInv s) (hown : s.own = .none) (htc : s.tc = 0) :
    ∀ j, j < s.ws.length → pc s j = .done ∨ pc s j = .idle := by
  intro j hj
  have h2 : holdsW (pc s j) = false := by
    cases hh : holdsW (pc s j) with
    | false => rfl
    | true => have := (hm.ownW j).mpr hh; rw [hown] at this; cases this
  have h3 : counted (pc s j) = false := by
    have hz : s.ws.countP counted = 0 := by rw [← h.cnt, htc]
    rw [List.countP_eq_zero] at hz
    have hmem : pc s j ∈ s.ws := by
      simp only [pc, List.getD_eq_getElem?_getD, List.getElem?_eq_getElem hj]; exact List.getElem_mem hj
    simpa using hz _ hmem
  revert h2 h3
  cases pc s j <;> simp [holdsW, counted]

/-- while the dispatcher holds the mutex no worker is between `threadcount--` and its signal -/
theorem no_locked {s : St} (hm : MInv s) (ho : s.own = .d) : s.ws.countP isLocked = 0 := by
  rw [List.countP_eq_zero]; intro x hx
  obtain ⟨j, hj, he⟩ := List.mem_iff_getElem.mp hx
  have := hm.ownW j
  rw [ho] at this
  have hp : pc s j = x := by simp [pc, List.getD_eq_getElem?_getD, List.getElem?_eq_getElem hj, he]
  rw [hp] at this
  cases x <;> simp_all [holdsW, isLocked]

theorem finv_d {s s' : St} {a : DAct} (hm : MInv s) (_ht : TInv s) (h : FInv s) (hs : dStep s a = some s') :
    FInv s' := by
  have ⟨h1, h2, h3, h4, h5, h6, h7, h8, h9, h10⟩ := h
  cases a with
  | createG => rw [d_wd_frame (Or.inl rfl) hs]; exact ⟨h1, h2, h3, h4, h5, h6, h7, h8, h9, h10⟩
  | cancelG => rw [d_wd_frame (Or.inr (Or.inl rfl)) hs]; exact ⟨h1, h2, h3, h4, h5, h6, h7, h8, h9, h10⟩
  | joinG => rw [d_wd_frame (Or.inr (Or.inr rfl)) hs]; exact ⟨h1, h2, h3, h4, h5, h6, h7, h8, h9, h10⟩
  | createS =>
    simp only [dStep] at hs
    split at hs <;> (try split at hs) <;> simp at hs; subst hs
    exact ⟨h1, h2, h3, h4, h5, h6, h7, h8, h9, h10⟩
  | lock =>
    simp only [dStep] at hs
    split at hs
    · split at hs
      · simp at hs
      · simp only [Option.some.injEq, roomTest] at hs
        split at hs <;> subst hs <;>
          constructor <;> simp_all [DPC.dispatching, DPC.finished, frontier, pc, tsAt]
    · rename_i hd ho
      split at hs
      · simp at hs
      · simp only [Option.some.injEq, drainTest] at hs
        split at hs
        · subst hs; constructor <;> simp_all [DPC.dispatching, DPC.finished, frontier, pc, tsAt]
        · rename_i htc
          have hdone := all_done hm h ho (by omega)
          subst hs; constructor <;> simp_all [DPC.dispatching, DPC.finished, frontier, pc, tsAt]
    · simp at hs
  | wait =>
    simp only [dStep] at hs
    split at hs <;> simp at hs <;> subst hs
    · rename_i hd
      have hnl := no_locked hm (hm.ownD.mpr (by simp [hd, DPC.holds]))
      constructor <;> simp_all [DPC.dispatching, DPC.finished, frontier, pc, tsAt]
    · rename_i hd
      have hpos := h7 hd
      constructor <;> (try (simp_all [DPC.dispatching, DPC.finished, frontier, pc, tsAt]; done))
      intro _ _; dsimp only; omega
  | wake sp =>
    simp only [dStep] at hs
    split at hs <;> (try split at hs) <;> simp at hs <;> subst hs <;>
      constructor <;> simp_all [DPC.dispatching, DPC.finished, frontier, pc, tsAt]
  | relock =>
    simp only [dStep] at hs
    split at hs
    · split at hs
      · simp only [Option.some.injEq] at hs; subst hs
        constructor <;> simp_all [DPC.dispatching, DPC.finished, frontier, pc, tsAt]
      · simp only [Option.some.injEq, roomTest] at hs
        split at hs <;> subst hs <;>
          constructor <;> simp_all [DPC.dispatching, DPC.finished, frontier, pc, tsAt]
    · rename_i hd ho
      simp only [Option.some.injEq, drainTest] at hs
      split at hs
      · subst hs; constructor <;> simp_all [DPC.dispatching, DPC.finished, frontier, pc, tsAt]
      · rename_i htc
        have hdone := all_done hm h ho (by omega)
        subst hs; constructor <;> simp_all [DPC.dispatching, DPC.finished, frontier, pc, tsAt]
    · simp at hs
  | create j =>
    simp only [dStep] at hs
    split at hs <;> simp at hs
    rename_i hd
    obtain ⟨⟨hj, hlt⟩, hs⟩ := hs
    subst hs
    have hidle : pc s j = .idle := by rw [hj]; exact create_idle h hd
    have hget : s.ws[j]? = some WP.idle := getElem?_of_getD_lt hlt hidle
    have hc := countP_set_of' counted (b := WP.started) hget
    have hfr : frontier s = s.i := by simp [frontier, hd]
    have hpc : ∀ k, pc { s with dpc := DPC.unlock, i := j, ws := s.ws.set j WP.started, tc := s.tc + 1 } k =
        if k = j then .started else pc s k := fun k => getD_set' hlt
    refine { cnt := ?_, front1 := ?_, front2 := ?_, disp := ?_, drain := ?_, waitEq := ?_, dwaitPos := ?_,
             fin := ?_, park := ?_, dpark := ?_ }
    · simp [counted] at hc; simp; omega
    · intro k hk
      have hk' : j + 1 ≤ k := by simpa [frontier] using hk
      rw [hpc, if_neg (by omega)]
      exact h2 k (by rw [hfr]; have := skip_ge s.ts s.i; omega)
    · intro k hk hidk
      have hk' : k < j + 1 := by simpa [frontier] using hk
      rw [hpc] at hidk
      split at hidk
      · cases hidk
      · show tsAt s k = .canceled
        by_cases hki : k < s.i
        · exact h3 k (by rw [hfr]; exact hki) hidk
        · exact skip_canceled s.ts s.i k (by omega) (by omega)
    · intro _; simpa using hlt
    · simp [DPC.dispatching]
    · simp
    · simp
    · simp [DPC.finished]
    · simp
    · simp
  | unlock =>
    simp only [dStep] at hs
    split at hs
    · simp only [Option.some.injEq] at hs; subst hs
      rename_i hd
      have hlt := h4 (by simp [hd, DPC.dispatching])
      have hfr : frontier s = s.i + 1 := by simp [frontier, hd]
      refine { cnt := h1, front1 := ?_, front2 := ?_, disp := ?_, drain := ?_, waitEq := ?_, dwaitPos := ?_,
               fin := ?_, park := ?_, dpark := ?_ }
      · intro k hk; apply h2 k; rw [hfr]
        revert hk; simp only [frontier]; split <;> split <;> simp_all
      · intro k hk; apply h3 k; rw [hfr]
        revert hk; simp only [frontier]; split <;> split <;> simp_all
      · split <;> simp_all [DPC.dispatching]
      · split <;> simp_all [DPC.dispatching]; omega
      · split <;> simp
      · split <;> simp
      · split <;> simp [DPC.finished]
      · split <;> simp
      · split <;> simp
    · split at hs
      · simp only [Option.some.injEq] at hs; subst hs
        rename_i hd hsk
        have hlt := h4 (by simp [hd, DPC.dispatching])
        have hfr : frontier s = s.i := by simp [frontier, hd]
        refine { cnt := h1, front1 := ?_, front2 := ?_, disp := ?_, drain := ?_, waitEq := ?_, dwaitPos := ?_,
                 fin := ?_, park := ?_, dpark := ?_ }
        · intro k hk
          have hk' : s.ws.length ≤ k := by simpa [frontier] using hk
          exact h2 k (by rw [hfr]; omega)
        · intro k hk hidk
          have hk' : k < s.ws.length := by simpa [frontier] using hk
          show tsAt s k = .canceled
          by_cases hki : k < s.i
          · exact h3 k (by rw [hfr]; exact hki) hidk
          · exact skip_canceled s.ts s.i k (by omega) (by omega)
        · simp [DPC.dispatching]
        · simp
        · simp
        · simp
        · simp [DPC.finished]
        · simp
        · simp
      · simp at hs
    · simp only [Option.some.injEq] at hs; subst hs
      rename_i hd
      constructor <;> simp_all [DPC.dispatching, DPC.finished, frontier, pc, tsAt]
    · simp at hs
  | cancelS =>
    simp only [dStep] at hs
    split at hs <;> (try split at hs) <;> simp at hs; subst hs
    exact ⟨h1, h2, h3, h4, h5, h6, h7, h8, h9, h10⟩
  | ret =>
    simp only [dStep] at hs
    split at hs <;> (try split at hs) <;> simp at hs; subst hs
    constructor <;> simp_all [DPC.dispatching, DPC.finished, frontier, pc, tsAt]

end PdshVerif.Dsh.Sig
