/-!
# The fan-out protocol of `dsh()` for EVERY signalling discipline (C03, C04, C07)

`Dsh/Fan.lean` fixes the worker epilogue to the text of the pinned source:
`lock; threadcount--; pthread_cond_signal; unlock`.  The property texts do not ask for that: a maintainer may wake
the dispatcher with `pthread_cond_broadcast`, and may do so after the mutex has been dropped
(`lock; threadcount--; unlock; signal`) -- both are everyday, correct variations.  This LTS is `Fan.lean` with the
discipline left open:

* WHERE the wake-up call sits is a nondeterministic choice of each worker: after `W.lock` (which acquires the
  mutex and decrements `threadcount`) a worker either performs `signal` then `unlock` (inside the critical section,
  as pinned), or `unlockFirst` then `signalAfter` (the wake-up call after the critical section; in between the
  worker is `released`: it holds nothing and is no longer counted, but its wake-up call is still to come);
* WHICH call it is (`pthread_cond_signal` | `pthread_cond_broadcast`) makes no difference to this protocol and is
  therefore not a distinction of the LTS: the dispatcher is the only thread that ever waits on `threadcount_cond`
  (only `D` has `wait` / `wake` / `relock` labels), so "wake one waiter" and "wake all waiters" are the same
  transition `sig := sig || parked`.  The acceptor (Driver/FanDrv.lean) maps both calls to `signal` resp.
  `signalAfter` and rejects a `wait` on the condition variable by any other thread.

Every theorem of Props/C03.lean, Props/C04.lean and (through `Dsh/Timed.lean`, whose protocol component is advanced
by THIS `step`) Props/C07.lean is proved for all executions of this LTS, hence for each of the four fixed disciplines
and for any mixture.  `Dsh/Fan.lean` is the sub-LTS in which no worker ever chooses `unlockFirst`
(`FanGEmbed.lean`: every `Fan` execution is a `FanG` execution).

What changes with the freedom (and is visible in the statements): dsh() may return while a worker that has
released its slot still owes its (then pointless) wake-up call -- `Final` no longer means "nothing can happen",
only "nothing but late wake-up calls"; and the dispatcher may be parked for a moment although there is room,
namely while the worker that made the room is between its unlock and its wake-up call
(`Props/C04.work_conserving`).  One statement is FALSE under the freedom: with the pinned `if` a late wake-up call
lets the in-flight count exceed the fanout WITHOUT any spurious wake-up (`Props/C04.if_after_exceeds_without_spurious`);
the repaired `while` is what makes the discipline a free choice.

Everything else is `Fan.lean` word for word (same threads, same dispatcher, same condition-variable semantics).
The *same* `step` is used by the theorems and, compiled, as the trace acceptor of the `fan` and `timed` engines.
-/
namespace PdshVerif.Dsh.FanG

inductive Variant | ifWait | whileWait
deriving DecidableEq, Repr

/-- program counter of a worker = what it does next -/
inductive W
  | idle        -- thread not created yet
  | started     -- created and counted; next: rcmd_connect begins
  | connecting  -- inside rcmd_connect
  | connected   -- command running / output being relayed; next: rcmd_destroy begins
  | tearing     -- inside rcmd_destroy
  | torn        -- connection torn down; next: lock(threadcount_mutex)
  | locked      -- holds the mutex, `threadcount--` done; next: cond_signal (then unlock) OR unlock (then cond_signal)
  | signaled    -- wake-up call made inside the critical section; next: unlock
  | released    -- mutex dropped first; next: the wake-up call (outside the critical section)
  | done
deriving DecidableEq, Repr

/-- program counter of the dispatcher = its pending operation -/
inductive DPC
  | top         -- loop iteration `i`: next lock
  | wait        -- holds mutex, saw `fanout == threadcount`: next cond_wait
  | parked      -- inside cond_wait, mutex released, not yet woken
  | woken       -- inside cond_wait, woken, next: re-acquire the mutex
  | create      -- holds mutex: next pthread_create(t[i])
  | unlock      -- holds mutex, `threadcount++` done: next unlock
  | dtop        -- drain: next lock
  | dwait       -- holds mutex, saw `threadcount > 0`: next cond_wait
  | dparked
  | dwoken
  | dunlock     -- holds mutex, saw `threadcount == 0`: next unlock
  | finishing   -- next: return from dsh()
  | returned
deriving DecidableEq, Repr

inductive Owner | none | d | w (i : Nat)
deriving DecidableEq, Repr

structure St where
  v : Variant
  f : Nat           -- opt->fanout
  i : Nat           -- loop variable of the dispatch loop
  dpc : DPC
  tc : Nat          -- threadcount
  own : Owner       -- owner of threadcount_mutex
  sig : Bool        -- the parked dispatcher has been signalled
  ws : List W       -- one entry per target (rshcount = ws.length)
deriving Repr

inductive DAct | lock | wait | wake (spurious : Bool) | relock | create (j : Nat) | unlock | ret
deriving DecidableEq, Repr

inductive WAct | connectBegin | connectEnd | destroyBegin | destroyEnd | lock | signal | unlock
  | unlockFirst | signalAfter
deriving DecidableEq, Repr

inductive Label | d (a : DAct) | w (i : Nat) (a : WAct)
deriving DecidableEq, Repr

def Label.spurious : Label → Bool
  | .d (.wake sp) => sp
  | _ => false

def WAct.pre : WAct → W
  | .connectBegin => .started | .connectEnd => .connecting | .destroyBegin => .connected
  | .destroyEnd => .tearing | .lock => .torn | .signal => .locked | .unlock => .signaled
  | .unlockFirst => .locked | .signalAfter => .released

def WAct.post : WAct → W
  | .connectBegin => .connecting | .connectEnd => .connected | .destroyBegin => .tearing
  | .destroyEnd => .torn | .lock => .locked | .signal => .signaled | .unlock => .done
  | .unlockFirst => .released | .signalAfter => .done

def DPC.isParked : DPC → Bool
  | .parked | .dparked => true
  | _ => false

/-- `if/while (opt->fanout == threadcount)` evaluated with the mutex held -/
def roomTest (s : St) : St :=
  if s.f == s.tc then { s with dpc := .wait } else { s with dpc := .create }

/-- `while (threadcount > 0)` evaluated with the mutex held -/
def drainTest (s : St) : St :=
  if s.tc > 0 then { s with dpc := .dwait } else { s with dpc := .dunlock }

/-- what a worker operation does besides advancing the worker's own program counter -/
def wEffect (i : Nat) (s : St) : WAct → St
  | .lock => { s with own := .w i, tc := s.tc - 1 }                    -- lock; threadcount--
  | .signal | .signalAfter => { s with sig := s.sig || s.dpc.isParked }  -- lost when nobody is parked
  | .unlock | .unlockFirst => { s with own := .none }
  | _ => s

def step (s : St) : Label → Option St
  | .d .lock => match s.dpc, s.own with
      | .top, .none => some (roomTest { s with own := .d })
      | .dtop, .none => some (drainTest { s with own := .d })
      | _, _ => none
  | .d .wait => match s.dpc with
      | .wait => some { s with dpc := .parked, own := .none, sig := false }
      | .dwait => some { s with dpc := .dparked, own := .none, sig := false }
      | _ => none
  | .d (.wake sp) => match s.dpc with
      | .parked => if sp != s.sig then some { s with dpc := .woken, sig := false } else none
      | .dparked => if sp != s.sig then some { s with dpc := .dwoken, sig := false } else none
      | _ => none
  | .d .relock => match s.dpc, s.own with
      | .woken, .none =>
          match s.v with
          | .ifWait => some { s with own := .d, dpc := .create }        -- `if`: no re-test
          | .whileWait => some (roomTest { s with own := .d })          -- `while`: re-test
      | .dwoken, .none => some (drainTest { s with own := .d })
      | _, _ => none
  | .d (.create j) => match s.dpc with
      | .create =>
          if j = s.i ∧ s.i < s.ws.length then
            some { s with dpc := .unlock, ws := s.ws.set s.i .started, tc := s.tc + 1 }
          else none
      | _ => none
  | .d .unlock => match s.dpc with
      | .unlock => some { s with own := .none, i := s.i + 1,
                                 dpc := if s.i + 1 < s.ws.length then .top else .dtop }
      | .dunlock => some { s with own := .none, dpc := .finishing }
      | _ => none
  | .d .ret => match s.dpc with
      | .finishing => some { s with dpc := .returned }
      | _ => none
  | .w i a =>
      if s.ws[i]? = some a.pre ∧ (a = .lock → s.own = .none) then
        some (wEffect i { s with ws := s.ws.set i a.post } a)
      else none

def init (v : Variant) (f n : Nat) : St :=
  { v := v, f := f, i := 0, dpc := if 0 < n then .top else .dtop, tc := 0, own := .none, sig := false,
    ws := List.replicate n .idle }

/-- executions: the labels performed so far (oldest first) and the state reached -/
inductive Exec (s0 : St) : List Label → St → Prop
  | nil : Exec s0 [] s0
  | snoc {ls s l s'} : Exec s0 ls s → step s l = some s' → Exec s0 (ls ++ [l]) s'

def Reach (v : Variant) (f n : Nat) (s : St) : Prop := ∃ ls, Exec (init v f n) ls s

/-- the acceptor's view: fold `step` over a label list -/
def run (s : St) : List Label → Option St
  | [] => some s
  | l :: ls => (step s l).bind (run · ls)

/-! ## observables -/

/-- counted in `threadcount`: created and not yet decremented -/
def counted : W → Bool
  | .started | .connecting | .connected | .tearing | .torn => true
  | _ => false

/-- in flight: connection initiated and not yet torn down -/
def flying : W → Bool
  | .connecting | .connected | .tearing => true
  | _ => false

def inflight (s : St) : Nat := s.ws.countP flying

def Final (s : St) : Prop := s.dpc = .returned

/-- a wake-up call made after the critical section: the only thing that can still happen once dsh() has returned -/
def Label.late : Label → Bool
  | .w _ .signalAfter => true
  | _ => false

/-! ## enabled sets (what the harness calls the runnable set) -/

def dActs (s : St) : List DAct := [.lock, .wait, .wake false, .relock, .create s.i, .unlock, .ret]
def wActs : List WAct :=
  [.connectBegin, .connectEnd, .destroyBegin, .destroyEnd, .lock, .signal, .unlock, .unlockFirst, .signalAfter]

/-- the dispatcher has an enabled non-spurious operation -/
def dEnabled (s : St) : Bool := (dActs s).any fun a => (step s (.d a)).isSome
/-- worker `i` has an enabled operation -/
def wEnabled (s : St) (i : Nat) : Bool := wActs.any fun a => (step s (.w i a)).isSome
/-- a spurious wake-up is possible: the dispatcher is parked and not signalled -/
def spuriousEnabled (s : St) : Bool := (step s (.d (.wake true))).isSome

end PdshVerif.Dsh.FanG
