import PdshVerif.Dsh.TimedTeardown
import PdshVerif.Dsh.FanGLive

/-! # Timed LTS: with the timeouts set and every command ending, virtual time is bounded (potential argument) -/
namespace PdshVerif.Dsh.Timed
open PdshVerif.Dsh

/-- seconds a connected target may keep the run busy reading: the command timeout plus one watchdog period, or,
    without a command timeout, until the scripted end of its streams -/
def readB (c : Cfg) (sc : Script) : Nat := if 0 < c.ut then c.ut + WDOG_POLL else lastT c sc

/-- seconds target `h` may still keep the run busy (`R` = its `readB`, `K` = the teardown allowance of `Td`) -/
def rem (c : Cfg) (R K : Nat) (now : Nat) (h : Host) : Nat :=
  match h.ph with
  | .new => (c.ct + WDOG_POLL) + R + K
  | .rcmd => (c.ct + WDOG_POLL) + R + K
  | .connecting => (h.start + (c.ct + WDOG_POLL) - now) + R + K
  | .reading => (h.conn + R - now) + K
  | .finished => match h.death with
    | some d => d - now
    | none => 0

def potential (K : Nat) (s : St) : Nat :=
  ((List.range s.hs.length).map fun j => rem s.cfg (readB s.cfg (s.script j)) K s.now (s.host j)).sum

theorem sum_range_le {n : Nat} {a b : Nat → Nat} (h : ∀ j, j < n → a j ≤ b j) :
    ((List.range n).map a).sum ≤ ((List.range n).map b).sum := by
  induction n with
  | zero => simp
  | succ k ih =>
    rw [List.range_succ, List.map_append, List.map_append, List.sum_append, List.sum_append]
    have := ih (fun j hj => h j (by omega))
    have := h k (by omega)
    simp; omega

theorem sum_range_lt {n : Nat} {a b : Nat → Nat} (h : ∀ j, j < n → a j ≤ b j) {k : Nat} (hk : k < n)
    (hlt : a k < b k) : ((List.range n).map a).sum < ((List.range n).map b).sum := by
  induction n with
  | zero => omega
  | succ m ih =>
    rw [List.range_succ, List.map_append, List.map_append, List.sum_append, List.sum_append]
    by_cases hkm : k = m
    · subst hkm
      have := sum_range_le (n := k) (fun j hj => h j (by omega))
      simp; omega
    · have := ih (fun j hj => h j (by omega)) (by omega)
      have := h m (by omega)
      simp; omega

theorem sum_range_const (n x : Nat) : ((List.range n).map fun _ => x).sum = n * x := by
  induction n with
  | zero => simp
  | succ k ih => rw [List.range_succ, List.map_append, List.sum_append, ih]; simp [Nat.succ_mul]

/-- the command of a reading target is gone within the allowance once the target has been given up on -/
theorem rem_timeout {c : Cfg} {sc : Script} {R K now : Nat} {x x' : Host} (hx : MInv sc K x) (hph : x.ph = .reading)
    (hcl : x.conn ≤ now) (hf : x'.ph = .finished) (hd : x'.death = termDeath x.grace now x.death) :
    rem c R K now x' ≤ rem c R K now x := by
  simp only [rem, hf, hph, hd]
  rcases hx.rd hph with ⟨d, hd', hle⟩ | ⟨hn, _, _, k, hk, hkK⟩
  · rw [hd']
    cases hg : x.grace with
    | none => simp only [termDeath]; omega
    | some k => simp only [termDeath]; omega
  · rw [hn, hk]; simp only [termDeath]; omega

theorem rem_round {c : Cfg} {sc : Script} {R K now : Nat} {x x' : Host} (hx : MInv sc K x) (hph : x.ph = .reading)
    (hcl : x.conn ≤ now) (hc : x'.conn = x.conn) (hd : x'.death = x.death)
    (hp : x'.ph = x.ph ∨ x'.ph = .finished) : rem c R K now x' ≤ rem c R K now x := by
  rcases hp with hp | hp
  · simp only [rem, hp, hph, hc]; exact Nat.le_refl _
  · simp only [rem, hp, hph, hd]
    rcases hx.rd hph with ⟨d, hd', hle⟩ | ⟨hn, _⟩
    · rw [hd']; simp only []; omega
    · rw [hn]; simp only []; omega

/-- a step of the target itself never increases what it may still cost -/
theorem rem_hostStep {c : Cfg} (hka : c.killAfter = false) {sc : Script} {now wake : Nat} {h : Host} (R K : Nat)
    (hi : HostInv c now wake h)
    (hw : wake ≤ now + WDOG_POLL) (lo : Local) (hpre : LocalPre h lo) (hd : DHost now h) (hm : MInv sc K h)
    (hlife : ∀ l, sc.life = some l → l ≤ K) :
    rem c R K now (hostStep c sc now h lo) ≤ rem c R K now h := by
  cases lo with
  | create =>
    have hp := hpre.2.2.2.1 rfl
    simp [rem, hostStep, hp]
  | connBegin =>
    have hp := hpre.1 rfl
    have := hi.rcmdNow hp
    simp [rem, hostStep, hp]; omega
  | connEnd =>
    have hp := hpre.2.1 rfl
    have hd0 := hd.pre (Or.inr (Or.inr hp))
    simp only [hostStep]
    split
    · simp [rem, hp, hd0]
    · split
      · let h1 : Host := { h with conn := now, ph := .reading, death := sc.life.map (now + ·) }
        have hf := pollRound_frame now h1
        have htd := pollRound_td now h1
        rcases pollRound_ph now h1 with hq | hq
        · have : rem c R K now (h1.pollRound now) = (now + R - now) + K := by
            simp only [rem, hq.1, hf.2.2.1, h1]
          rw [this]; simp only [rem, hp]; omega
        · have hdeath : (h1.pollRound now).death = sc.life.map (now + ·) := htd.2.1
          have : rem c R K now (h1.pollRound now) ≤ K := by
            simp only [rem, hq.1, hdeath]
            cases hl : sc.life with
            | none => simp
            | some l => have := hlife l hl; simp only [Option.map]; omega
          refine Nat.le_trans this ?_
          simp only [rem, hp]; omega
      · simp [rem, hp, hd0]
      · exact Nat.le_refl _
  | wake =>
    have hp := hpre.2.2.1 rfl
    have hcl := hi.connLe hp
    obtain ⟨hci, hcp, _⟩ := hostInv_wakeCore hi hp hw
    have hcm : MInv sc K (h.wakeCore c now) := minv_wakeCore hm hp
    have hcore : rem c R K now (h.wakeCore c now) ≤ rem c R K now h := by
      simp only [Host.wakeCore]
      split
      · split
        · rw [Host.giveUp_off hka]; exact rem_timeout hm hp hcl rfl rfl
        · exact rem_round hm hp hcl (pollRound_frame _ _).2.2.1 (pollRound_td _ _).2.1
            (by rcases pollRound_ph now { h with intr := false } with hq | hq
                · exact Or.inl hq.1
                · exact Or.inr hq.1)
      · split
        · exact rem_round hm hp hcl (oneRound_frame _ _).2.2.1 (oneRound_td _ _).2.1
            (by rcases oneRound_ph now h with hq | hq
                · exact Or.inl hq.1
                · exact Or.inr hq.1)
        · exact rem_round hm hp hcl (pollRound_frame _ _).2.2.1 (pollRound_td _ _).2.1
            (by rcases pollRound_ph now h with hq | hq
                · exact Or.inl hq.1
                · exact Or.inr hq.1)
    have hself : rem c R K now ((h.wakeCore c now).selfTimeout c now) ≤ rem c R K now (h.wakeCore c now) := by
      simp only [Host.selfTimeout]; split
      · rename_i hc
        rw [Host.giveUp_off hka]; exact rem_timeout hcm hc.2.1 (hci.connLe hc.2.1) rfl rfl
      · exact Nat.le_refl _
    simp only [hostStep]
    exact Nat.le_trans hself hcore
  | scan =>
    simp only [hostStep]; split
    · simp only [rem]; exact Nat.le_refl _
    · exact Nat.le_refl _
  | destEnd =>
    simp only [hostStep]; split
    · simp only [rem]; exact Nat.le_refl _
    · simp only [rem]; exact Nat.le_refl _
  | other => exact Nat.le_refl _

theorem rem_tick_le (c : Cfg) (R K now : Nat) (h : Host) : rem c R K (now + 1) h ≤ rem c R K now h := by
  simp only [rem]; split <;> (try split) <;> omega

theorem dstep_fan_none_guard' {s : St} {l : FanG.Label} {f' : FanG.St} (hf : FanG.step s.fan l = some f')
    (hn : dstep s (.fan l) = none) : fanGuard s l = false := by
  cases hg : fanGuard s l with
  | false => rfl
  | true => have := dstep_fan_some hf hg; rw [hn] at this; cases this

theorem step_now {s s' : St} {l : Label} (h : step s l = some s') (hl : l ≠ .tick) : s'.now = s.now := by
  cases l with
  | fan fl => obtain ⟨_, _, he⟩ := dstep_fan_facts (by simpa [step] using h); rw [he]
  | wake i => obtain ⟨_, _, _, he⟩ := dstep_wake_facts (by simpa [step] using h); rw [he]
  | scan => obtain ⟨_, he⟩ := dstep_scan_facts (by simpa [step] using h); rw [he]
  | tick => exact absurd rfl hl

/-- no operation of any thread increases the potential -/
theorem potential_dstep {K : Nat} {s s' : St} {l : Label} (hka : s.cfg.killAfter = false) (hi : TInv s) (hd : DInv s)
    (hm : ∀ j, j < s.hs.length → MInv (s.script j) K (s.host j))
    (hlife : ∀ j, j < s.hs.length → ∀ l, (s.script j).life = some l → l ≤ K)
    (h : step s l = some s') (hl : l ≠ .tick) :
    potential K s' ≤ potential K s := by
  have hpar := step_params h
  simp only [potential, hpar.2.2, hpar.1, step_now h hl, script_congr hpar.2.1]
  apply sum_range_le
  intro j hj
  rw [host_local' h hj]
  exact rem_hostStep hka _ _ (hi.hosts j hj) hi.wakeNow _ (local_pre hi h hj) (hd.host j hj) (hm j hj) (hlife j hj)

/-- when the clock can advance and dsh() has not returned, the run is waiting for some target: one blocked in
    connect or in xpoll, not interrupted; or one whose teardown waits for a command that is not gone yet -/
theorem waiting_for {s : St} (hi : TInv s) (hq : quiescent s = true) (hf : 0 < s.fan.f) (hnf : ¬ Final s)
    (hhold : ∀ j, j < s.hs.length → (s.host j).hold ≤ s.now) :
    ∃ j, j < s.hs.length ∧
      (((s.host j).intr = false ∧ ((s.host j).ph = .connecting ∨ (s.host j).ph = .reading)) ∨
       ((s.host j).ph = .finished ∧ (s.host j).gone s.now = false)) := by
  obtain ⟨l, hsp, hen⟩ := FanG.progress_inv hi.fan hf hnf
  have hen' := FanG.enabled_of_step hsp hen
  cases l with
  | d a =>
    exfalso
    simp only [FanG.dEnabled, List.any_eq_true] at hen'
    obtain ⟨a', ha', hs'⟩ := hen'
    cases hst : FanG.step s.fan (.d a') with
    | none => rw [hst] at hs'; cases hs'
    | some f' =>
      have := dstep_fan_some (s := s) hst (by simp [fanGuard])
      have hm : Label.fan (.d a') ∈ cands s := by
        simp only [cands, List.mem_cons, List.mem_append, List.mem_map]
        left; right; exact ⟨a', ha', rfl⟩
      rw [quiescent_none hq hm] at this; cases this
  | w i a =>
    obtain ⟨hen1, hi'⟩ := hen'
    have hih : i < s.hs.length := by rw [hi.lenH]; exact hi'
    have hsy := hi.sync i hih
    cases hst : FanG.step s.fan (.w i a) with
    | none => rw [hst] at hen; cases hen
    | some f' =>
      have hg := dstep_fan_none_guard' hst (quiescent_none hq (mem_cands_w s hih a))
      obtain ⟨hpre, _, _⟩ := FanG.pc_step_w hst
      rw [hpre] at hsy
      -- an interrupted target would have blocked the clock
      have hint : (s.host i).intr = true → ((s.host i).ph = .connecting ∨ (s.host i).ph = .reading) → False := by
        intro hint hph
        rcases hph with hph | hph
        · have hpc := pc_of_connecting (hi.sync i hih) hph
          obtain ⟨f'', hf''⟩ := fan_step_w_some (a := .connectEnd) (by rw [hpc]; rfl) (by simp)
          have := dstep_fan_some (s := s) hf'' (by simp [fanGuard, hint])
          rw [quiescent_none hq (mem_cands_w s hih _)] at this; cases this
        · have : (dstep s (.wake i)).isSome = true := by simp [dstep, hih, hph, hint]
          rw [quiescent_none hq (mem_cands_wake s hih)] at this; cases this
      cases a with
      | connectEnd =>
        have hph : (s.host i).ph = .connecting := by simpa [phOK, FanG.WAct.pre] using hsy
        refine ⟨i, hih, Or.inl ⟨?_, Or.inl hph⟩⟩
        cases hh : (s.host i).intr with
        | false => rfl
        | true => exact absurd (Or.inl hph) (fun x => hint hh x)
      | destroyBegin =>
        have hnfin : (s.host i).ph ≠ .finished := by
          intro hfin'
          have hg' := hg
          simp only [fanGuard, hfin', beq_self_eq_true, Bool.true_and, decide_eq_false_iff_not] at hg'
          exact hg' (hhold i hih)
        have hph : (s.host i).ph = .reading := by
          have : (s.host i).ph = .reading ∨ (s.host i).ph = .finished := by simpa [phOK, FanG.WAct.pre] using hsy
          rcases this with h1 | h1
          · exact h1
          · exact absurd h1 hnfin
        refine ⟨i, hih, Or.inl ⟨?_, Or.inr hph⟩⟩
        cases hh : (s.host i).intr with
        | false => rfl
        | true => exact absurd (Or.inr hph) (fun x => hint hh x)
      | destroyEnd =>
        have hph : (s.host i).ph = .finished := by simpa [phOK, FanG.WAct.pre] using hsy
        have hng : (s.host i).gone s.now = false := by
          simp only [fanGuard, Bool.or_eq_false_iff] at hg; exact hg.2
        exact ⟨i, hih, Or.inr ⟨hph, hng⟩⟩
      | connectBegin | lock | signal | unlock | unlockFirst | signalAfter => simp [fanGuard] at hg

/-- a second that passes is paid for by a target the run is waiting for -/
theorem potential_tick {K : Nat} {s s' : St} (hi : TInv s) (h : step s .tick = some s') (hf : 0 < s.fan.f)
    (hnf : ¬ Final s) (hct : 0 < s.cfg.ct) (hhold : ∀ j, j < s.hs.length → (s.host j).hold ≤ s.now)
    (hread : ∀ k, k < s.hs.length → (s.host k).ph = .reading → (s.host k).intr = false →
      s.now < (s.host k).conn + readB s.cfg (s.script k))
    (hfin : ∀ k, k < s.hs.length → (s.host k).ph = .finished → ∃ d, (s.host k).death = some d) :
    potential K s' + 1 ≤ potential K s := by
  obtain ⟨hq, he⟩ := step_tick_facts h
  have hlt : s.now < s.wake := tick_lt_wake h
  obtain ⟨k, hk, hwf⟩ := waiting_for hi hq hf hnf hhold
  have hho := hi.hosts k hk
  have : potential K s' < potential K s := by
    rw [he]; simp only [potential]
    apply sum_range_lt (k := k) _ hk
    · show rem s.cfg (readB s.cfg (s.script k)) K (s.now + 1) (s.host k) <
        rem s.cfg (readB s.cfg (s.script k)) K s.now (s.host k)
      rcases hwf with ⟨hint, hph | hph⟩ | ⟨hph, hng⟩
      · have := hho.connDl hph hint hct
        simp only [rem, hph]; omega
      · have := hread k hk hph hint
        simp only [rem, hph]; omega
      · obtain ⟨d, hd⟩ := hfin k hk hph
        have hnd : s.now < d := by
          simp only [Host.gone, hd] at hng
          have := of_decide_eq_false hng; omega
        simp only [rem, hph, hd]; omega
    · intro j _; exact rem_tick_le _ _ _ _ _
  omega

/-- what a target may cost in all -/
def budget (c : Cfg) (K : Nat) (sc : Script) : Nat := (c.ct + WDOG_POLL) + readB c sc + K

theorem range_map_getD {α : Type} (l : List α) (d : α) (g : α → Nat) :
    (List.range l.length).map (fun j => g (l.getD j d)) = l.map g := by
  apply List.ext_getElem
  · simp
  · intro i h1 h2
    simp only [List.getElem_map, List.getElem_range]
    have : i < l.length := by simpa using h1
    simp [List.getD_eq_getElem?_getD, List.getElem?_eq_getElem this]

theorem potential_init (v f c scripts) (K : Nat) :
    potential K (init v f c scripts) = (scripts.map (budget c K)).sum := by
  simp only [potential]
  have hl : (init v f c scripts).hs.length = scripts.length := by simp [init]
  rw [hl, ← range_map_getD scripts defaultScript (budget c K)]
  congr 1
  apply List.map_congr_left
  intro j hj
  have hj' : j < scripts.length := by simpa using hj
  rw [host_init v f c scripts hj']; simp [rem, initHost, init, budget, St.script]

/-- once dsh() has returned it stays returned (all that can still happen in the protocol component are wake-up
    calls that workers which unlocked first still owe) -/
theorem fan_final_stable {f f' : FanG.St} (hfin : FanG.Final f) {l : FanG.Label} (hs : FanG.step f l = some f') :
    FanG.Final f' := by
  have hd : f.dpc = .returned := hfin
  cases l with
  | d a => cases a <;> simp [FanG.step, hd] at hs
  | w i a =>
    obtain ⟨_, _, rfl⟩ := FanG.w_step_facts hs
    show (FanG.wEffect i _ a).dpc = .returned
    cases a <;> exact hd

/-- TIMEOUTS BOUND THE RUN: with the connect timeout set, either the command timeout set or no target whose
    streams hang after the connect, and every command ending (`Td`: it exits by itself within `K` of its connect,
    or it holds stdout open and is gone within `K` of the forwarded SIGTERM), until dsh() returns the virtual
    clock never exceeds the sum over the targets of (connect_timeout + WDOG_POLL) + (command_timeout + WDOG_POLL,
    resp. the scripted end of its streams) + K -/
theorem time_bounded {v f c scripts} {K : Nat} {ls : List Label} {s : St} (he : Exec (init v f c scripts) ls s)
    (hka : c.killAfter = false) (hf : 0 < f) (hct : 0 < c.ct)
    (hcov : 0 < c.ut ∨ ∀ j, j < scripts.length → NoHang c (scripts.getD j defaultScript))
    (htd : ∀ j, j < scripts.length → Td c K (scripts.getD j defaultScript)) :
    s.cfg = c ∧ s.fan.f = f ∧
    (¬ Final s → s.now + potential K s ≤ (scripts.map (budget c K)).sum) := by
  induction he with
  | nil =>
    refine ⟨rfl, by simp [init, FanG.init], fun _ => ?_⟩
    rw [potential_init]; simp [init]
  | snoc he' hs ih =>
    rename_i ls0 s1 l0 s2
    obtain ⟨hc, hff, hb⟩ := ih
    have hti := tinv_exec (tinv_init v f c scripts) he'
    have hdi := dinv_exec he'
    have hmi := minv_exec he' htd
    obtain ⟨_, hscr, hlen, hgi⟩ := ginv_exec he'
    have hpar := step_params hs
    have hproj := step_proj hs
    have hfan : s2.fan.f = f := by
      cases hp : projLabel l0 with
      | none => rw [hp] at hproj; rw [hproj]; exact hff
      | some fl => rw [hp] at hproj; rw [(FanG.step_params hproj).2.1]; exact hff
    refine ⟨hpar.1.trans hc, hfan, fun hnf2 => ?_⟩
    -- dsh() had not returned before either (nothing happens after the return)
    have hnf1 : ¬ Final s1 := by
      intro hfin
      cases hp : projLabel l0 with
      | some fl =>
        rw [hp] at hproj
        have h2 : FanG.step s1.fan fl = some s2.fan := hproj
        exact hnf2 (fan_final_stable hfin h2)
      | none => rw [hp] at hproj; exact hnf2 (by unfold Final; rw [hproj]; exact hfin)
    have hb1 := hb hnf1
    have hmi' : ∀ j, j < s1.hs.length → MInv (s1.script j) K (s1.host j) :=
      fun j hj => hmi j (by rw [← hlen]; exact hj)
    by_cases hl : l0 = .tick
    · subst hl
      obtain ⟨hq, he2⟩ := step_tick_facts hs
      have hread : ∀ k, k < s1.hs.length → (s1.host k).ph = .reading → (s1.host k).intr = false →
          s1.now < (s1.host k).conn + readB s1.cfg (s1.script k) := by
        intro k hk hph hint
        have hlt : s1.now < s1.wake := tick_lt_wake hs
        by_cases hu : 0 < s1.cfg.ut
        · have := (hti.hosts k hk).readDl hph hint hu
          simp only [readB, hu, if_true]; omega
        · have hk' : k < scripts.length := by rw [← hlen]; exact hk
          have hnh : NoHang s1.cfg (s1.script k) := by
            rcases hcov with h0 | hall
            · rw [hc] at hu; exact absurd h0 hu
            · rw [hc]; simp only [St.script, hscr]; exact hall k hk'
          have := reading_waits hq hk (hgi k hk') hnh hph
          simp only [readB, hu, if_false]; exact this
      have := potential_tick (K := K) hti hs (by rw [hff]; exact hf) hnf1 (by rw [hc]; exact hct)
        (fun j hj => by rw [hold_exec he' hka (by rw [← hlen]; exact hj)]; exact Nat.zero_le _) hread
        (fun k hk hph => (hmi' k hk).fin hph)
      have hn : s2.now = s1.now + 1 := by rw [he2]
      omega
    · have hlife : ∀ j, j < s1.hs.length → ∀ l, (s1.script j).life = some l → l ≤ K := by
        intro j hj l hl
        have hj' : j < scripts.length := by rw [← hlen]; exact hj
        have hsc : s1.script j = scripts.getD j defaultScript := by simp only [St.script, hscr]
        rcases htd j hj' with ⟨l', hl', hle⟩ | ⟨hn, _⟩
        · rw [hsc, hl'] at hl; cases hl; exact hle
        · rw [hsc, hn] at hl; cases hl
      have := potential_dstep (by rw [hc]; exact hka) hti hdi hmi' hlife hs hl
      rw [step_now hs hl]; omega

end PdshVerif.Dsh.Timed
