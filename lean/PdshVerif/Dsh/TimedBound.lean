import PdshVerif.Dsh.TimedInv
import PdshVerif.Dsh.FanLive

/-! # Timed LTS: with both timeouts set, virtual time is bounded (potential argument) -/
namespace PdshVerif.Dsh.Timed
open PdshVerif.Dsh

/-- seconds target `h` may still keep the run busy -/
def rem (c : Cfg) (now : Nat) (h : Host) : Nat :=
  match h.ph with
  | .new => (c.ct + WDOG_POLL) + (c.ut + WDOG_POLL)
  | .rcmd => (c.ct + WDOG_POLL) + (c.ut + WDOG_POLL)
  | .connecting => (h.start + (c.ct + WDOG_POLL) - now) + (c.ut + WDOG_POLL)
  | .reading => h.conn + (c.ut + WDOG_POLL) - now
  | .finished => 0

def potential (s : St) : Nat := ((List.range s.hs.length).map fun j => rem s.cfg s.now (s.host j)).sum

theorem sum_range_le {n : Nat} {a b : Nat → Nat} (h : ∀ j, j < n → a j ≤ b j) :
    ((List.range n).map a).sum ≤ ((List.range n).map b).sum := by
  induction n with
  | zero => simp
  | succ k ih =>
    rw [List.range_succ, List.map_append, List.map_append, List.sum_append, List.sum_append]
    have := ih (fun j hj => h j (by omega))
    have := h k (by omega)
    simp; omega

theorem sum_range_lt {n : Nat} {a b : Nat → Nat} (h : ∀ j, j < n → a j ≤ b j) {k : Nat} (hk : k < n)
    (hlt : a k < b k) : ((List.range n).map a).sum < ((List.range n).map b).sum := by
  induction n with
  | zero => omega
  | succ m ih =>
    rw [List.range_succ, List.map_append, List.map_append, List.sum_append, List.sum_append]
    by_cases hkm : k = m
    · subst hkm
      have := sum_range_le (n := k) (fun j hj => h j (by omega))
      simp; omega
    · have := ih (fun j hj => h j (by omega)) (by omega)
      have := h m (by omega)
      simp; omega

theorem sum_range_const (n x : Nat) : ((List.range n).map fun _ => x).sum = n * x := by
  induction n with
  | zero => simp
  | succ k ih => rw [List.range_succ, List.map_append, List.sum_append, ih]; simp [Nat.succ_mul]

/-- a step of the target itself never increases what it may still cost -/
theorem rem_hostStep {c : Cfg} {sc : Script} {now wake : Nat} {h : Host} (hi : HostInv c now wake h) (lo : Local)
    (hpre : (lo = .connBegin → h.ph = .rcmd) ∧ (lo = .connEnd → h.ph = .connecting) ∧ (lo = .wake → h.ph = .reading) ∧
            (lo = .create → h.ph = .new)) :
    rem c now (hostStep c sc now h lo) ≤ rem c now h := by
  cases lo with
  | create =>
    have hp := hpre.2.2.2 rfl
    simp [rem, hostStep, hp]
  | connBegin =>
    have hp := hpre.1 rfl
    have := hi.rcmdNow hp
    simp [rem, hostStep, hp]; omega
  | connEnd =>
    have hp := hpre.2.1 rfl
    simp only [hostStep]
    split
    · simp [rem, hp]
    · split
      · let h1 : Host := { h with conn := now, ph := .reading }
        have hf := pollRound_frame now h1
        rcases pollRound_ph now h1 with hq | hq
        · have : rem c now (h1.pollRound now) = now + (c.ut + WDOG_POLL) - now := by
            simp only [rem, hq.1, hf.2.2.1, h1]
          rw [this]; simp [rem, hp]
        · have : rem c now (h1.pollRound now) = 0 := by simp only [rem, hq.1]
          rw [this]; omega
      · simp [rem, hp]
      · exact Nat.le_refl _
  | wake =>
    have hp := hpre.2.2.1 rfl
    have round : ∀ (g : Host → Host) (h1 : Host),
        ((g h1).start = h1.start ∧ (g h1).cbeg = h1.cbeg ∧ (g h1).conn = h1.conn ∧ (g h1).intr = h1.intr) →
        (((g h1).ph = h1.ph ∧ (g h1).res = h1.res) ∨ ((g h1).ph = .finished ∧ (g h1).res = .done)) →
        h1.ph = .reading → h1.conn = h.conn → rem c now (g h1) ≤ rem c now h := by
      intro g h1 hf hq h1p h1c
      rcases hq with hq | hq
      · simp only [rem, hq.1, h1p, hf.2.2.1, h1c, hp]; exact Nat.le_refl _
      · simp only [rem, hq.1]; omega
    have hcore : rem c now (h.wakeCore c now) ≤ rem c now h := by
      simp only [Host.wakeCore]
      split
      · split
        · simp [rem]
        · exact round (Host.pollRound now) _ (pollRound_frame _ _) (pollRound_ph _ _) hp rfl
      · split
        · exact round (Host.oneRound now) _ (oneRound_frame _ _) (oneRound_ph _ _) hp rfl
        · exact round (Host.pollRound now) _ (pollRound_frame _ _) (pollRound_ph _ _) hp rfl
    have hself : ∀ x : Host, rem c now (x.selfTimeout c now) ≤ rem c now x := by
      intro x; simp only [Host.selfTimeout]; split
      · simp [rem]
      · exact Nat.le_refl _
    simp only [hostStep]
    exact Nat.le_trans (hself _) hcore
  | scan =>
    simp only [hostStep]; split
    · simp only [rem]; exact Nat.le_refl _
    · exact Nat.le_refl _
  | other => exact Nat.le_refl _

theorem rem_tick_le (c : Cfg) (now : Nat) (h : Host) : rem c (now + 1) h ≤ rem c now h := by
  simp only [rem]; split <;> omega

theorem dstep_fan_none_guard' {s : St} {l : Fan.Label} {f' : Fan.St} (hf : Fan.step s.fan l = some f')
    (hn : dstep s (.fan l) = none) : fanGuard s l = false := by
  cases hg : fanGuard s l with
  | false => rfl
  | true => have := dstep_fan_some hf hg; rw [hn] at this; cases this

/-- whatever happens to target `j` in a step finds it in the phase that operation starts from -/
theorem local_pre {s s' : St} {l : Label} (hi : TInv s) (h : step s l = some s') {j : Nat} (hj : j < s.hs.length) :
    (localOf j l = .connBegin → (s.host j).ph = .rcmd) ∧ (localOf j l = .connEnd → (s.host j).ph = .connecting) ∧
    (localOf j l = .wake → (s.host j).ph = .reading) ∧ (localOf j l = .create → (s.host j).ph = .new) := by
  have hsy := hi.sync j hj
  cases l with
  | tick => simp [localOf]
  | scan => simp [localOf]
  | wake k =>
    obtain ⟨_, hph, _, _⟩ := dstep_wake_facts (by simpa [step] using h)
    by_cases hkj : k = j
    · subst hkj; simp [localOf, hph]
    · simp [localOf, hkj]
  | fan fl =>
    obtain ⟨hfs, _, _⟩ := dstep_fan_facts (by simpa [step] using h)
    cases fl with
    | d a =>
      obtain ⟨hcr, _⟩ := Fan.pc_step_d hi.fan hfs
      cases a with
      | create k =>
        obtain ⟨_, _, hidle⟩ := hcr k rfl
        by_cases hkj : k = j
        · subst hkj; rw [hidle] at hsy
          simp [localOf, fanLocal]; simpa [phOK] using hsy
        · simp [localOf, fanLocal, hkj]
      | lock | wait | wake _ | relock | unlock | ret => simp [localOf, fanLocal]
    | w k a =>
      obtain ⟨hpre, _, _⟩ := Fan.pc_step_w hfs
      by_cases hkj : k = j
      · subst hkj; rw [hpre] at hsy
        cases a <;> simp [localOf, fanLocal] <;> simpa [phOK, Fan.WAct.pre] using hsy
      · cases a <;> simp [localOf, fanLocal, hkj]

theorem step_now {s s' : St} {l : Label} (h : step s l = some s') (hl : l ≠ .tick) : s'.now = s.now := by
  cases l with
  | fan fl => obtain ⟨_, _, he⟩ := dstep_fan_facts (by simpa [step] using h); rw [he]
  | wake i => obtain ⟨_, _, _, he⟩ := dstep_wake_facts (by simpa [step] using h); rw [he]
  | scan => obtain ⟨_, he⟩ := dstep_scan_facts (by simpa [step] using h); rw [he]
  | tick => exact absurd rfl hl

/-- no operation of any thread increases the potential -/
theorem potential_dstep {s s' : St} {l : Label} (hi : TInv s) (h : step s l = some s') (hl : l ≠ .tick) :
    potential s' ≤ potential s := by
  have hpar := step_params h
  simp only [potential, hpar.2.2, hpar.1, step_now h hl]
  apply sum_range_le
  intro j hj
  rw [host_local' h hj]
  exact rem_hostStep (hi.hosts j hj) _ (local_pre hi h hj)

/-- when the clock can advance and dsh() has not returned, some target is blocked in connect or in xpoll,
    not interrupted (it is what the run is waiting for) -/
theorem waiting_for {s : St} (hi : TInv s) (hq : quiescent s = true) (hf : 0 < s.fan.f) (hnf : ¬ Final s) :
    ∃ j, j < s.hs.length ∧ (s.host j).intr = false ∧
      ((s.host j).ph = .connecting ∨ (s.host j).ph = .reading) := by
  obtain ⟨l, hsp, hen⟩ := Fan.progress_inv hi.fan hf hnf
  have hen' := Fan.enabled_of_step hsp hen
  cases l with
  | d a =>
    exfalso
    simp only [Fan.dEnabled, List.any_eq_true] at hen'
    obtain ⟨a', ha', hs'⟩ := hen'
    cases hst : Fan.step s.fan (.d a') with
    | none => rw [hst] at hs'; cases hs'
    | some f' =>
      have := dstep_fan_some (s := s) hst (by simp [fanGuard])
      have hm : Label.fan (.d a') ∈ cands s := by
        simp only [cands, List.mem_cons, List.mem_append, List.mem_map]
        left; right; exact ⟨a', ha', rfl⟩
      rw [quiescent_none hq hm] at this; cases this
  | w i a =>
    obtain ⟨hen1, hi'⟩ := hen'
    have hih : i < s.hs.length := by rw [hi.lenH]; exact hi'
    have hsy := hi.sync i hih
    cases hst : Fan.step s.fan (.w i a) with
    | none => rw [hst] at hen; cases hen
    | some f' =>
      have hg := dstep_fan_none_guard' hst (quiescent_none hq (mem_cands_w s hih a))
      obtain ⟨hpre, _, _⟩ := Fan.pc_step_w hst
      rw [hpre] at hsy
      -- an interrupted target would have blocked the clock
      have hint : (s.host i).intr = true → ((s.host i).ph = .connecting ∨ (s.host i).ph = .reading) → False := by
        intro hint hph
        rcases hph with hph | hph
        · have hpc := pc_of_connecting (hi.sync i hih) hph
          obtain ⟨f'', hf''⟩ := fan_step_w_some (a := .connectEnd) (by rw [hpc]; rfl) (by simp)
          have := dstep_fan_some (s := s) hf'' (by simp [fanGuard, hint])
          rw [quiescent_none hq (mem_cands_w s hih _)] at this; cases this
        · have : (dstep s (.wake i)).isSome = true := by simp [dstep, hih, hph, hint]
          rw [quiescent_none hq (mem_cands_wake s hih)] at this; cases this
      cases a with
      | connectEnd =>
        have hph : (s.host i).ph = .connecting := by simpa [phOK, Fan.WAct.pre] using hsy
        refine ⟨i, hih, ?_, Or.inl hph⟩
        cases hh : (s.host i).intr with
        | false => rfl
        | true => exact absurd (Or.inl hph) (fun x => hint hh x)
      | destroyBegin =>
        have hnfin : (s.host i).ph ≠ .finished := by simpa [fanGuard] using hg
        have hph : (s.host i).ph = .reading := by
          have : (s.host i).ph = .reading ∨ (s.host i).ph = .finished := by simpa [phOK, Fan.WAct.pre] using hsy
          rcases this with h1 | h1
          · exact h1
          · exact absurd h1 hnfin
        refine ⟨i, hih, ?_, Or.inr hph⟩
        cases hh : (s.host i).intr with
        | false => rfl
        | true => exact absurd (Or.inr hph) (fun x => hint hh x)
      | connectBegin | destroyEnd | lock | signal | unlock => simp [fanGuard] at hg

/-- a second that passes is paid for by a target the run is waiting for -/
theorem potential_tick {s s' : St} (hi : TInv s) (h : step s .tick = some s') (hf : 0 < s.fan.f) (hnf : ¬ Final s)
    (hct : 0 < s.cfg.ct) (hut : 0 < s.cfg.ut) : potential s' + 1 ≤ potential s := by
  obtain ⟨hq, he⟩ := step_tick_facts h
  have hlt : s.now < s.wake := by
    have := quiescent_none hq (mem_cands_scan s)
    simp only [dstep] at this
    split at this
    · simp at this
    · omega
  obtain ⟨k, hk, hint, hph⟩ := waiting_for hi hq hf hnf
  have hho := hi.hosts k hk
  have : potential s' < potential s := by
    rw [he]; simp only [potential]
    apply sum_range_lt (k := k) _ hk
    · show rem s.cfg (s.now + 1) (s.host k) < rem s.cfg s.now (s.host k)
      rcases hph with hph | hph
      · have := hho.connDl hph hint hct
        simp only [rem, hph]; omega
      · have := hho.readDl hph hint hut
        simp only [rem, hph]; omega
    · intro j _; exact rem_tick_le _ _ _
  omega

theorem potential_init (v f c scripts) :
    potential (init v f c scripts) = scripts.length * ((c.ct + WDOG_POLL) + (c.ut + WDOG_POLL)) := by
  simp only [potential]
  have hl : (init v f c scripts).hs.length = scripts.length := by simp [init]
  rw [hl, ← sum_range_const]
  congr 1
  apply List.map_congr_left
  intro j hj
  have hj' : j < scripts.length := by simpa using hj
  rw [host_init v f c scripts hj']; simp [rem, initHost, init]

/-- nothing happens in the Fan component after dsh() has returned -/
theorem fan_final_stuck {f : Fan.St} (hi : Fan.Inv f) (hfin : Fan.Final f) (l : Fan.Label) : Fan.step f l = none := by
  have hd : f.dpc = .returned := hfin
  cases hs : Fan.step f l with
  | none => rfl
  | some f' =>
    exfalso
    cases l with
    | d a => cases a <;> simp [Fan.step, hd] at hs
    | w i a =>
      obtain ⟨hpre, _, _⟩ := Fan.w_step_facts hs
      have hdone := hi.fin (by rw [hd]; rfl) i (Fan.lt_of_getElem? hpre)
      have hp : Fan.pc f i = a.pre := Fan.getD_of_getElem? hpre
      rw [hp] at hdone
      cases a <;> cases hdone

/-- TIMEOUTS BOUND THE RUN: with both timeouts set, until dsh() returns the virtual clock never exceeds
    n · (connect_timeout + command_timeout + 2 · WDOG_POLL) -/
theorem time_bounded {v f c scripts} {ls : List Label} {s : St} (he : Exec (init v f c scripts) ls s) (hf : 0 < f)
    (hct : 0 < c.ct) (hut : 0 < c.ut) :
    s.cfg = c ∧ s.fan.f = f ∧
    (¬ Final s → s.now + potential s ≤ scripts.length * ((c.ct + WDOG_POLL) + (c.ut + WDOG_POLL))) := by
  induction he with
  | nil =>
    refine ⟨rfl, by simp [init, Fan.init], fun _ => ?_⟩
    rw [potential_init]; simp [init]
  | snoc he' hs ih =>
    rename_i ls0 s1 l0 s2
    obtain ⟨hc, hff, hb⟩ := ih
    have hti := tinv_exec (tinv_init v f c scripts) he'
    have hpar := step_params hs
    have hproj := step_proj hs
    have hfan : s2.fan.f = f := by
      cases hp : projLabel l0 with
      | none => rw [hp] at hproj; rw [hproj]; exact hff
      | some fl => rw [hp] at hproj; rw [(Fan.step_params hproj).2.1]; exact hff
    refine ⟨hpar.1.trans hc, hfan, fun hnf2 => ?_⟩
    -- dsh() had not returned before either (nothing happens after the return)
    have hnf1 : ¬ Final s1 := by
      intro hfin
      cases hp : projLabel l0 with
      | some fl =>
        rw [hp] at hproj
        have h2 : Fan.step s1.fan fl = some s2.fan := hproj
        rw [fan_final_stuck hti.fan hfin fl] at h2; cases h2
      | none => rw [hp] at hproj; exact hnf2 (by unfold Final; rw [hproj]; exact hfin)
    have hb1 := hb hnf1
    by_cases hl : l0 = .tick
    · subst hl
      have := potential_tick hti hs (by rw [hff]; exact hf) hnf1 (by rw [hc]; exact hct) (by rw [hc]; exact hut)
      obtain ⟨_, he2⟩ := step_tick_facts hs
      have hn : s2.now = s1.now + 1 := by rw [he2]
      omega
    · have := potential_dstep hti hs hl
      rw [step_now hs hl]; omega

end PdshVerif.Dsh.Timed
