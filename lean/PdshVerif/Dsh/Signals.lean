import PdshVerif.Dsh.Fan
import PdshVerif.Gen.Dsh

/-!
# `dsh()` with the signals thread: the fan-out protocol extended by interrupts (C20)

The LTS of `Dsh/Fan.lean` (dispatcher `D`, one worker `W i` per target, POSIX mutex/condvar
semantics, both wait constructs) extended with what src/pdsh/dsh.c does about SIGINT/SIGTSTP:

* thread `S` = `_signals_thread`: `sigwait` → `_handle_sigint` / `_handle_sigtstp`
  (`_fwd_signal`, `_list_slowthreads`, `_cancel_pending_threads`);
* the environment: `deliver INT|TSTP` (a blocked standard signal is pending at most once) and
  `tick v` (the clock `time(NULL)` reads);
* the second mutex, `thd_mutex`, and the per-target `t[i].state` (NEW/RCMD/READING/DONE/FAILED/
  CANCELED) exactly as dsh.c keeps it: the worker-side writes happen under `thd_mutex`
  (`_rsh_thread`: `state = DSH_RCMD` — a blind write; `_update_connect_state`: `if (state !=
  DSH_CANCELED) state = DSH_READING`; `state = result`), `_cancel_pending_threads` writes under
  `threadcount_mutex`, the dispatch loop reads under `threadcount_mutex`;
* the dispatch loop's `while (t[i].state == DSH_CANCELED && i < rshcount) ++i;` and
  `if (i >= rshcount) { unlock; break; }` (no thread is created for a skipped slot and
  `threadcount` is not touched for it).

A label is one operation of a thread on the protocol objects — the operations the controlled
scheduler of the `sched` harness lets happen one at a time.  The code a thread runs between two
of its operations is attributed to the operation that precedes it (it touches only data protected
by the mutex held, or the thread's own data): `W.lockT` acquires `thd_mutex` *and* writes the state,
`S.lock` acquires `threadcount_mutex` *and* cancels every NEW/RCMD slot, `S.time` reads the clock
*and* takes the INTR_TIME decision, ...

`St.g` is the form of the worker's first state write, probed by behaviour on every run of the check like the wait
construct: `false` = the blind `a->state = DSH_RCMD` of the pinned source (defect F20-LOSTCANCEL), `true` = the
repair (`if (a->state == DSH_CANCELED) result = DSH_CANCELED; else a->state = DSH_RCMD;` under thd_mutex, then
`if (result == DSH_CANCELED) goto out;`): the worker goes through `skipL` straight to its epilogue.

A read loop may be given up at any moment (`W.lockTF`: command time-out noticed through the watchdog's SIGALRM or by
the worker itself, or a transport error): the result written under thd_mutex is then DSH_FAILED.  The watchdog
(repaired shutdown) takes part with its lock / signal / unlock of thd_mutex; *when* a deadline passes is C07's model.

Outside the model (see Props/C20.lean): -k, `pthread_create` failure, `rcmd_create` failure, everything after `exit()`
was called.

The *same* `step` is used by the theorems (Props/C20.lean) and, compiled, as the trace acceptor of
the `sig` engine (Driver/SigDrv.lean).
-/
namespace PdshVerif.Dsh.Sig
open PdshVerif.Dsh.Fan (Variant DPC)

/-- INTR_TIME of src/pdsh/dsh.h (regenerated from the tree being checked) -/
def INTR : Nat := PdshVerif.Gen.INTR_TIME

/-- `t[i].state` -/
inductive TS | new | rcmd | reading | done | failed | canceled
deriving DecidableEq, Repr

inductive Sg | int | tstp
deriving DecidableEq, Repr

/-- program counter of a worker (`_rsh_thread`) = what it does next -/
inductive WP
  | idle        -- thread not created
  | started     -- created and counted; next: lock(thd_mutex), `state = DSH_RCMD`
  | rcmdL       -- holds thd_mutex; next: unlock
  | skipL       -- (repaired worker only) holds thd_mutex, found its slot CANCELED before marking itself:
                --   next: unlock, then straight to the epilogue (`goto out`): no connect, no state write
  | ready       -- next: rcmd_connect begins
  | connecting  -- inside rcmd_connect
  | connOk      -- connected; next: lock(thd_mutex) in `_update_connect_state`
  | connFail    -- connect failed (`result = DSH_FAILED`); next: lock(thd_mutex), `state = result`
  | updT        -- holds thd_mutex in `_update_connect_state`; next: `a->connect = time(NULL)`, then
                --   `if (a->state != DSH_CANCELED) a->state = DSH_READING`
  | updL        -- holds thd_mutex, state updated; next: unlock
  | reading     -- the poll/read/report loop (command running); next: lock(thd_mutex), `state = result`
  | closing     -- found itself canceled: closes the fds, no output relayed; next: lock(thd_mutex)
  | resL        -- holds thd_mutex, result written; next: unlock
  | flushed     -- next: rcmd_destroy begins
  | tearing | torn | locked | signaled | done     -- as in Fan
deriving DecidableEq, Repr

/-- program counter of the signals thread -/
inductive SPC
  | off           -- not created yet
  | waiting       -- in sigwait
  | intT          -- SIGINT, not batch: next `time(NULL) - last_intr > INTR_TIME`
  | intT2         -- first interrupt: notice printed; next `last_intr = time(NULL)`
  | listLock      -- `_list_slowthreads`: next lock(thd_mutex)
  | listing (k : Nat)   -- holds thd_mutex, `k` calls of time() (one per listed host) to go
  | printing (k : Nat)  -- thd_mutex released with `k + 1` calls of time() still to go: the listing is printed from a
                        --   snapshot taken under the mutex (both disciplines are accepted: print while locked = unlock
                        --   at `listing 0`; copy, unlock, print = unlock at `listing l.length`; and every mixture)
  | abLock        -- abort (batch, or second ^C): `_fwd_signal(SIGINT)`: next lock(thd_mutex)
  | fwding (k : Nat)    -- holds thd_mutex, slots < k scanned
  | exiting       -- next: errx → exit(1)
  | tstpT         -- SIGTSTP: next `time(NULL) - last_intr > INTR_TIME`
  | stopping      -- next raise(SIGSTOP)
  | cancLock      -- `_cancel_pending_threads`: next lock(threadcount_mutex)
  | cancUnlock    -- holds threadcount_mutex, slots canceled, count printed; next unlock
  | cancelled     -- pthread_cancel()ed by dsh()
deriving DecidableEq, Repr

inductive Own | none | d | w (i : Nat) | s | g
deriving DecidableEq, Repr

/-- program counter of the watchdog `_wdog` as far as it takes part in the protocol — only with the repair of
    F07-STALEID (`St.sw`): it holds thd_mutex around the test of each slot (and the pthread_kill) -/
inductive GPC
  | off               -- not created (or: the pinned watchdog, which touches no protocol object)
  | at (k : Nat)      -- scanning: next lock(thd_mutex) for slot k
  | inside (k : Nat)  -- holds thd_mutex for slot k; next unlock
  | sleeping          -- in sleep(WDOG_POLL): a cancellation point
  | ended             -- cancelled
deriving DecidableEq, Repr

structure St where
  v : Variant
  f : Nat             -- opt->fanout
  batch : Bool        -- sigint_terminates
  g : Bool            -- the worker's first state write is guarded: `if (a->state == DSH_CANCELED) result =
                      --   DSH_CANCELED; else a->state = DSH_RCMD; ... if (result == DSH_CANCELED) goto out;`
                      --   (the repair of F20-LOSTCANCEL); false = the blind `a->state = DSH_RCMD` as pinned
  i : Nat
  dpc : DPC
  tc : Nat            -- threadcount
  own : Own           -- owner of threadcount_mutex
  thd : Own           -- owner of thd_mutex
  sig : Bool          -- the parked dispatcher has been signalled
  ws : List WP
  ts : List TS        -- t[i].state
  spc : SPC
  pend : List Sg      -- pending signals (blocked in every thread, taken by sigwait)
  now : Nat           -- what time(NULL) returns
  last : Nat          -- last_intr
  listed : List Nat   -- hosts named by the most recent listing
  fwds : List Nat     -- hosts SIGINT was forwarded to
  ncanc : Nat         -- the number printed by the most recent "Canceled %d pending threads"
  exited : Option Nat -- exit() was called with this status
  sw : Bool           -- shutdown order of the repair of F07-STALEID (probed by behaviour): the watchdog is joinable,
                      --   takes thd_mutex per slot, and dsh() cancels and joins it before it cancels the signals
                      --   thread (and before t[] is freed); false = the pinned source
  gpc : GPC
  gcan : Bool         -- pthread_cancel(thread_wdog) was called (deferred: acts when the watchdog sleeps)
  gjoin : Bool        -- pthread_join(thread_wdog) has returned
  scan : Bool         -- pthread_cancel(thread_sig) was called.  Cancellation is deferred: the signals thread runs on
                      --   and ends (`SAct.die`) at a later point of its own: at the latest in sigwait
deriving Repr

inductive DAct
  | createG | createS | lock | wait | wake (spurious : Bool) | relock | create (j : Nat) | unlock
  | cancelG | joinG | cancelS | ret
deriving DecidableEq, Repr

inductive WAct
  | lockT | time | unlockT | connectBegin | connectEnd (ok : Bool) | destroyBegin | destroyEnd | lock | signal | unlock
  | lockTF    -- lock(thd_mutex) at the end of a read loop that was given up: the command timed out (the watchdog's
              --   SIGALRM, or the worker's own test) or the transport failed: `state = result` writes DSH_FAILED
deriving DecidableEq, Repr

inductive SAct
  | sigwait (g : Sg) | time (v : Nat) | lockT | fwd (h : Nat) | unlockT | lock | unlock | stop | exit (code : Nat)
  | die     -- the pending cancellation request takes effect
deriving DecidableEq, Repr

inductive EAct | deliver (g : Sg) | tick (v : Nat)
deriving DecidableEq, Repr

/-- the watchdog: lock/unlock of thd_mutex around a slot, return from sleep (driven by the clock) -/
inductive GAct | lockT | unlockT | wake
deriving DecidableEq, Repr

inductive Label | d (a : DAct) | w (i : Nat) (a : WAct) | s (a : SAct) | e (a : EAct) | g (a : GAct)
deriving DecidableEq, Repr

def Label.spurious : Label → Bool
  | .d (.wake sp) => sp
  | _ => false

/-- steps of the environment: deliveries, clock ticks, and the watchdog's return from sleep (driven by the clock) -/
def Label.isEnv : Label → Bool
  | .e _ => true
  | .g .wake => true
  | _ => false

/-! ## pieces of the transition function -/

def tsAt (s : St) (j : Nat) : TS := s.ts.getD j .new

/-- `_cancel_pending_threads`: NEW and RCMD slots -/
def isPending : TS → Bool
  | .new | .rcmd => true
  | _ => false
def cancelT (t : TS) : TS := if isPending t then .canceled else t

/-- `_list_slowthreads` without -d: RCMD ("connecting") and READING ("command in progress") -/
def isListed : TS → Bool
  | .rcmd | .reading => true
  | _ => false

/-- length of the run of CANCELED slots at the head -/
def skipRun : List TS → Nat
  | [] => 0
  | t :: r => if t = .canceled then skipRun r + 1 else 0

/-- `while (t[i].state == DSH_CANCELED && i < rshcount) ++i;` -/
def skip (ts : List TS) (i : Nat) : Nat := i + skipRun (ts.drop i)

/-- no slot in [k, h) is READING -/
def noReading (ts : List TS) (k h : Nat) : Bool :=
  (List.range h).all fun j => j < k || ts.getD j .new != .reading

def roomTest (s : St) : St :=
  if s.f == s.tc then { s with dpc := .wait } else { s with dpc := .create }

def drainTest (s : St) : St :=
  if s.tc > 0 then { s with dpc := .dwait } else { s with dpc := .dunlock }

def dStep (s : St) : DAct → Option St
  | .createG => match s.gpc, s.spc with
      | .off, .off => if s.sw then some { s with gpc := if 0 < s.ts.length then .at 0 else .sleeping } else none
      | _, _ => none
  | .createS => match s.spc with
      | .off => if s.sw = true ∧ s.gpc = .off then none else some { s with spc := .waiting }
      | _ => none
  | .lock => match s.dpc, s.own with
      | .top, .none => if s.spc = .off then none else some (roomTest { s with own := .d })
      | .dtop, .none => if s.spc = .off then none else some (drainTest { s with own := .d })
      | _, _ => none
  | .wait => match s.dpc with
      | .wait => some { s with dpc := .parked, own := .none, sig := false }
      | .dwait => some { s with dpc := .dparked, own := .none, sig := false }
      | _ => none
  | .wake sp => match s.dpc with
      | .parked => if sp != s.sig then some { s with dpc := .woken, sig := false } else none
      | .dparked => if sp != s.sig then some { s with dpc := .dwoken, sig := false } else none
      | _ => none
  | .relock => match s.dpc, s.own with
      | .woken, .none =>
          match s.v with
          | .ifWait => some { s with own := .d, dpc := .create }
          | .whileWait => some (roomTest { s with own := .d })
      | .dwoken, .none => some (drainTest { s with own := .d })
      | _, _ => none
  | .create j => match s.dpc with
      | .create =>
          -- advance past canceled slots, then create the thread and count it
          if j = skip s.ts s.i ∧ j < s.ws.length then
            some { s with dpc := .unlock, i := j, ws := s.ws.set j .started, tc := s.tc + 1 }
          else none
      | _ => none
  | .unlock => match s.dpc with
      | .unlock => some { s with own := .none, i := s.i + 1,
                                 dpc := if s.i + 1 < s.ws.length then .top else .dtop }
      | .create =>
          -- every remaining slot is canceled: `if (i >= rshcount) { unlock; break; }`
          if s.ws.length ≤ skip s.ts s.i then some { s with own := .none, i := s.ws.length, dpc := .dtop }
          else none
      | .dunlock => some { s with own := .none, dpc := .finishing }
      | _ => none
  | .cancelG => match s.dpc with
      | .finishing =>
          if s.sw = true ∧ s.gcan = false then
            some { s with gcan := true, gpc := if s.gpc = .sleeping then .ended else s.gpc }
          else none
      | _ => none
  | .joinG => match s.dpc with
      | .finishing => if s.gcan = true ∧ s.gpc = .ended ∧ s.gjoin = false then some { s with gjoin := true } else none
      | _ => none
  | .cancelS => match s.dpc with
      | .finishing =>
          if s.scan = true ∨ (s.sw = true ∧ s.gjoin = false) then none else some { s with scan := true }
      | _ => none
  | .ret => match s.dpc with
      -- the repaired shutdown joins the signals thread before dsh() goes on to free t[] (repair of F20-LATEINT);
      -- the pinned source returns as soon as it has asked for the cancellation
      | .finishing =>
          if s.scan = true ∧ (s.sw = true → s.spc = .cancelled) then some { s with dpc := .returned } else none
      | _ => none

/-- the local move of a worker: its next program counter; `canceled` = what the unprotected re-read
    `if (a->state == DSH_CANCELED)` in `_update_connect_state` sees -/
def wNext (g : Bool) (a : WAct) (p : WP) (canceled : Bool) : Option WP :=
  match a, p with
  | .lockT, .started => some (if g && canceled then .skipL else .rcmdL)
  | .lockT, .connOk => some .updT
  | .lockT, .connFail => some .resL
  | .lockT, .reading => some .resL
  | .lockT, .closing => some .resL
  | .lockTF, .reading => some .resL
  | .time, .updT => some .updL
  | .unlockT, .rcmdL => some .ready
  | .unlockT, .skipL => some .torn                              -- `goto out`
  | .unlockT, .updL => some (if canceled then .closing else .reading)
  | .unlockT, .resL => some .flushed
  | .connectBegin, .ready => some .connecting
  | .connectEnd ok, .connecting => some (if ok then .connOk else .connFail)
  | .destroyBegin, .flushed => some .tearing
  | .destroyEnd, .tearing => some .torn
  | .lock, .torn => some .locked
  | .signal, .locked => some .signaled
  | .unlock, .signaled => some .done
  | _, _ => none

/-- the write to `t[i].state` that goes with the move (all of them with thd_mutex held) -/
def wWrite (g : Bool) (a : WAct) (p : WP) (t : TS) : TS :=
  match a, p with
  | .lockT, .started => if g && t == .canceled then .canceled else .rcmd   -- blind write unless repaired
  | .lockT, .connFail => .failed                                -- `a->state = result`
  | .lockT, .reading => .done
  | .lockT, .closing => .done                                   -- result is DSH_DONE for a canceled host too
  | .lockTF, .reading => .failed                                -- the command was given up (time-out, read error)
  | .time, .updT => if t = .canceled then .canceled else .reading   -- `_update_connect_state`
  | _, _ => t

/-- what a worker operation does to the shared protocol objects -/
def wEffect (i : Nat) (s : St) : WAct → St
  | .lockT => { s with thd := .w i }
  | .lockTF => { s with thd := .w i }
  | .unlockT => { s with thd := .none }
  | .lock => { s with own := .w i, tc := s.tc - 1 }                    -- lock; threadcount--
  | .signal => { s with sig := s.sig || s.dpc.isParked }               -- lost when nobody is parked
  | .unlock => { s with own := .none }
  | _ => s

/-- the operation acquires thd_mutex -/
def WAct.locksT : WAct → Bool
  | .lockT | .lockTF => true
  | _ => false

def wStep (s : St) (i : Nat) (a : WAct) : Option St :=
  match s.ws[i]? with
  | none => none
  | some p =>
    match wNext s.g a p (tsAt s i == .canceled) with
    | none => none
    | some q =>
      if (a.locksT = true → s.thd = .none) ∧ (a = .lock → s.own = .none) then
        some (wEffect i { s with ws := s.ws.set i q, ts := s.ts.set i (wWrite s.g a p (tsAt s i)) } a)
      else none

def sStep (s : St) : SAct → Option St
  | .sigwait g => match s.spc with
      | .waiting =>
          if g ∈ s.pend then
            some { s with pend := s.pend.erase g,
                          spc := match g with
                            | .int => if s.batch then .abLock else .intT
                            | .tstp => .tstpT }
          else none
      | _ => none
  | .time v =>
      if v = s.now then
        match s.spc with
        | .intT => some { s with spc := if s.now - s.last > INTR then .intT2 else .abLock }
        | .intT2 => some { s with last := s.now, spc := .listLock }
        | .listing (k + 1) => some { s with spc := .listing k }
        | .printing (k + 1) => some { s with spc := .printing k }
        | .printing 0 => some { s with spc := .waiting }
        | .tstpT => some { s with spc := if s.now - s.last > INTR then .stopping else .cancLock }
        | _ => none
      else none
  | .lockT => match s.thd, s.spc with
      | .none, .listLock =>
          let l := (List.range s.ts.length).filter fun j => isListed (tsAt s j)
          some { s with thd := .s, listed := l, spc := .listing l.length }
      | .none, .abLock => some { s with thd := .s, spc := .fwding 0 }
      | _, _ => none
  | .fwd h => match s.spc with
      | .fwding k =>
          if k ≤ h ∧ s.ts[h]? = some .reading ∧ noReading s.ts k h then
            some { s with fwds := s.fwds ++ [h], spc := .fwding (h + 1) }
          else none
      | _ => none
  | .unlockT => match s.spc with
      | .listing 0 => some { s with thd := .none, spc := .waiting }
      | .listing (k + 1) => some { s with thd := .none, spc := .printing k }
      | .fwding k => if noReading s.ts k s.ts.length then some { s with thd := .none, spc := .exiting } else none
      | _ => none
  | .lock => match s.own, s.spc with
      | .none, .cancLock =>
          some { s with own := .s, ncanc := s.ts.countP isPending, ts := s.ts.map cancelT, spc := .cancUnlock }
      | _, _ => none
  | .unlock => match s.spc with
      | .cancUnlock => some { s with own := .none, spc := .waiting }
      | _ => none
  | .stop => match s.spc with
      | .stopping => some { s with spc := .waiting }
      | _ => none
  | .exit c => match s.spc with
      | .exiting => if c = 1 then some { s with exited := some 1 } else none
      | _ => none
  -- deferred cancellation: after pthread_cancel(thread_sig) the thread ends at a cancellation point.  Which calls are
  -- cancellation points depends on the C library (sigwait is one; the fprintf of a listing may be one, with
  -- thd_mutex held): the model lets it end anywhere, so every choice is covered
  | .die => if s.scan = true ∧ s.spc ≠ .off ∧ s.spc ≠ .cancelled then some { s with spc := .cancelled } else none

def eStep (s : St) : EAct → Option St
  | .deliver g => some { s with pend := if g ∈ s.pend then s.pend else s.pend ++ [g] }
  | .tick v => if s.now < v then some { s with now := v } else none

/-- once `exit()` was called nothing happens any more -/
def gStep (s : St) : GAct → Option St
  | .lockT => match s.thd, s.gpc with
      | .none, .at k => some { s with thd := .g, gpc := .inside k }
      | _, _ => none
  | .unlockT => match s.gpc with
      | .inside k =>
          some { s with thd := .none,
                        gpc := if k + 1 < s.ts.length then .at (k + 1) else if s.gcan then .ended else .sleeping }
      | _ => none
  | .wake => match s.gpc with
      | .sleeping => some { s with gpc := if 0 < s.ts.length then .at 0 else .sleeping }
      | _ => none

def step (s : St) (l : Label) : Option St :=
  if s.exited.isSome then none else
  match l with
  | .d a => dStep s a
  | .w i a => wStep s i a
  | .s a => sStep s a
  | .e a => eStep s a
  | .g a => gStep s a

def init (v : Variant) (g sw : Bool) (f n : Nat) (batch : Bool) (now : Nat) : St :=
  { v := v, f := f, batch := batch, g := g, i := 0, dpc := if 0 < n then .top else .dtop, tc := 0, own := .none,
    thd := .none, sig := false, ws := List.replicate n .idle, ts := List.replicate n .new, spc := .off,
    pend := [], now := now, last := 0, listed := [], fwds := [], ncanc := 0, exited := none,
    sw := sw, gpc := .off, gcan := false, gjoin := false, scan := false }

/-- executions: the labels performed so far (oldest first) and the state reached -/
inductive Exec (s0 : St) : List Label → St → Prop
  | nil : Exec s0 [] s0
  | snoc {ls s l s'} : Exec s0 ls s → step s l = some s' → Exec s0 (ls ++ [l]) s'

def Reach (v : Variant) (g sw : Bool) (f n : Nat) (b : Bool) (t0 : Nat) (s : St) : Prop :=
  ∃ ls, Exec (init v g sw f n b t0) ls s

def run (s : St) : List Label → Option St
  | [] => some s
  | l :: ls => (step s l).bind (run · ls)

/-- dsh() has returned, or exit() was called -/
def Final (s : St) : Prop := s.dpc = .returned ∨ s.exited.isSome = true

/-! ## enabled sets (what the harness calls the runnable set) -/

def dActs (s : St) : List DAct :=
  [.createG, .createS, .lock, .wait, .wake false, .relock, .create (skip s.ts s.i), .unlock, .cancelG, .joinG,
   .cancelS, .ret]
def wActs : List WAct :=
  [.lockT, .time, .unlockT, .connectBegin, .connectEnd true, .connectEnd false, .destroyBegin, .destroyEnd, .lock,
   .signal, .unlock, .lockTF]
def sActs (s : St) : List SAct :=
  [.sigwait .int, .sigwait .tstp, .time s.now, .lockT, .unlockT, .lock, .unlock, .stop, .exit 1, .die] ++
  (List.range s.ts.length).map .fwd

def dEnabled (s : St) : Bool := (dActs s).any fun a => (step s (.d a)).isSome
def wEnabled (s : St) (i : Nat) : Bool := wActs.any fun a => (step s (.w i a)).isSome
def sEnabled (s : St) : Bool := (sActs s).any fun a => (step s (.s a)).isSome
def gEnabled (s : St) : Bool := [GAct.lockT, .unlockT, .wake].any fun a => (step s (.g a)).isSome
def spuriousEnabled (s : St) : Bool := (step s (.d (.wake true))).isSome

end PdshVerif.Dsh.Sig
