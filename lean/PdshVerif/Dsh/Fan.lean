/-!
# The fan-out protocol of `dsh()` as a labelled transition system (C03, C04)

Threads: the dispatcher `D` (the `for` loop and the drain loop of `dsh()` in src/pdsh/dsh.c) and
one worker `W i` per target (`_rsh_thread` / `_rcp_thread`).  A label is one *operation* of a
thread on the shared protocol objects, exactly the operations the controlled scheduler of the
`sched` harness lets happen one at a time:

* `threadcount_mutex`: lock / unlock, `threadcount_cond`: wait / wake / re-lock / signal,
* `pthread_create` of a worker, `rcmd_connect` begin/end, `rcmd_destroy` begin/end, `return`.

The code a thread executes between two of its operations touches only data protected by the
mutex it holds (or its own data) and is attributed to the operation that precedes it: e.g.
`D.lock` acquires the mutex *and* evaluates `opt->fanout == threadcount`, `D.create` creates the
thread *and* does `threadcount++`, `W.lock` acquires the mutex *and* does `threadcount--`.

Condition variable = POSIX: `wait` releases the mutex and parks; a parked thread is woken by a
signal or *spuriously*; a woken thread must re-acquire the mutex (a separate step); a signal
that finds no parked thread is lost.

`Variant` is the construct guarding the wait for room in the dispatch loop:
`ifWait`    = `if (opt->fanout == threadcount) pthread_cond_wait(...)`   (the pinned source),
`whileWait` = the same with `while` (the repair).  The drain loop is a `while` in both.

The *same* `step` is used by the theorems (Props/C03.lean, Props/C04.lean) and, compiled, as
the trace acceptor of the `fan` engine (Driver/FanDrv.lean).
-/
namespace PdshVerif.Dsh.Fan

inductive Variant | ifWait | whileWait
deriving DecidableEq, Repr

/-- program counter of a worker = what it does next -/
inductive W
  | idle        -- thread not created yet
  | started     -- created and counted; next: rcmd_connect begins
  | connecting  -- inside rcmd_connect
  | connected   -- command running / output being relayed; next: rcmd_destroy begins
  | tearing     -- inside rcmd_destroy
  | torn        -- connection torn down; next: lock(threadcount_mutex)
  | locked      -- holds the mutex, `threadcount--` done; next: cond_signal
  | signaled    -- next: unlock
  | done
deriving DecidableEq, Repr

/-- program counter of the dispatcher = its pending operation -/
inductive DPC
  | top         -- loop iteration `i`: next lock
  | wait        -- holds mutex, saw `fanout == threadcount`: next cond_wait
  | parked      -- inside cond_wait, mutex released, not yet woken
  | woken       -- inside cond_wait, woken, next: re-acquire the mutex
  | create      -- holds mutex: next pthread_create(t[i])
  | unlock      -- holds mutex, `threadcount++` done: next unlock
  | dtop        -- drain: next lock
  | dwait       -- holds mutex, saw `threadcount > 0`: next cond_wait
  | dparked
  | dwoken
  | dunlock     -- holds mutex, saw `threadcount == 0`: next unlock
  | finishing   -- next: return from dsh()
  | returned
deriving DecidableEq, Repr

inductive Owner | none | d | w (i : Nat)
deriving DecidableEq, Repr

structure St where
  v : Variant
  f : Nat           -- opt->fanout
  i : Nat           -- loop variable of the dispatch loop
  dpc : DPC
  tc : Nat          -- threadcount
  own : Owner       -- owner of threadcount_mutex
  sig : Bool        -- the parked dispatcher has been signalled
  ws : List W       -- one entry per target (rshcount = ws.length)
deriving Repr

inductive DAct | lock | wait | wake (spurious : Bool) | relock | create (j : Nat) | unlock | ret
deriving DecidableEq, Repr

inductive WAct | connectBegin | connectEnd | destroyBegin | destroyEnd | lock | signal | unlock
deriving DecidableEq, Repr

inductive Label | d (a : DAct) | w (i : Nat) (a : WAct)
deriving DecidableEq, Repr

def Label.spurious : Label → Bool
  | .d (.wake sp) => sp
  | _ => false

def WAct.pre : WAct → W
  | .connectBegin => .started | .connectEnd => .connecting | .destroyBegin => .connected
  | .destroyEnd => .tearing | .lock => .torn | .signal => .locked | .unlock => .signaled

def WAct.post : WAct → W
  | .connectBegin => .connecting | .connectEnd => .connected | .destroyBegin => .tearing
  | .destroyEnd => .torn | .lock => .locked | .signal => .signaled | .unlock => .done

def DPC.isParked : DPC → Bool
  | .parked | .dparked => true
  | _ => false

/-- `if/while (opt->fanout == threadcount)` evaluated with the mutex held -/
def roomTest (s : St) : St :=
  if s.f == s.tc then { s with dpc := .wait } else { s with dpc := .create }

/-- `while (threadcount > 0)` evaluated with the mutex held -/
def drainTest (s : St) : St :=
  if s.tc > 0 then { s with dpc := .dwait } else { s with dpc := .dunlock }

/-- what a worker operation does besides advancing the worker's own program counter -/
def wEffect (i : Nat) (s : St) : WAct → St
  | .lock => { s with own := .w i, tc := s.tc - 1 }                    -- lock; threadcount--
  | .signal => { s with sig := s.sig || s.dpc.isParked }               -- lost when nobody is parked
  | .unlock => { s with own := .none }
  | _ => s

def step (s : St) : Label → Option St
  | .d .lock => match s.dpc, s.own with
      | .top, .none => some (roomTest { s with own := .d })
      | .dtop, .none => some (drainTest { s with own := .d })
      | _, _ => none
  | .d .wait => match s.dpc with
      | .wait => some { s with dpc := .parked, own := .none, sig := false }
      | .dwait => some { s with dpc := .dparked, own := .none, sig := false }
      | _ => none
  | .d (.wake sp) => match s.dpc with
      | .parked => if sp != s.sig then some { s with dpc := .woken, sig := false } else none
      | .dparked => if sp != s.sig then some { s with dpc := .dwoken, sig := false } else none
      | _ => none
  | .d .relock => match s.dpc, s.own with
      | .woken, .none =>
          match s.v with
          | .ifWait => some { s with own := .d, dpc := .create }        -- `if`: no re-test
          | .whileWait => some (roomTest { s with own := .d })          -- `while`: re-test
      | .dwoken, .none => some (drainTest { s with own := .d })
      | _, _ => none
  | .d (.create j) => match s.dpc with
      | .create =>
          if j = s.i ∧ s.i < s.ws.length then
            some { s with dpc := .unlock, ws := s.ws.set s.i .started, tc := s.tc + 1 }
          else none
      | _ => none
  | .d .unlock => match s.dpc with
      | .unlock => some { s with own := .none, i := s.i + 1,
                                 dpc := if s.i + 1 < s.ws.length then .top else .dtop }
      | .dunlock => some { s with own := .none, dpc := .finishing }
      | _ => none
  | .d .ret => match s.dpc with
      | .finishing => some { s with dpc := .returned }
      | _ => none
  | .w i a =>
      if s.ws[i]? = some a.pre ∧ (a = .lock → s.own = .none) then
        some (wEffect i { s with ws := s.ws.set i a.post } a)
      else none

def init (v : Variant) (f n : Nat) : St :=
  { v := v, f := f, i := 0, dpc := if 0 < n then .top else .dtop, tc := 0, own := .none, sig := false,
    ws := List.replicate n .idle }

/-- executions: the labels performed so far (oldest first) and the state reached -/
inductive Exec (s0 : St) : List Label → St → Prop
  | nil : Exec s0 [] s0
  | snoc {ls s l s'} : Exec s0 ls s → step s l = some s' → Exec s0 (ls ++ [l]) s'

def Reach (v : Variant) (f n : Nat) (s : St) : Prop := ∃ ls, Exec (init v f n) ls s

/-- the acceptor's view: fold `step` over a label list -/
def run (s : St) : List Label → Option St
  | [] => some s
  | l :: ls => (step s l).bind (run · ls)

/-! ## observables -/

/-- counted in `threadcount`: created and not yet decremented -/
def counted : W → Bool
  | .started | .connecting | .connected | .tearing | .torn => true
  | _ => false

/-- in flight: connection initiated and not yet torn down -/
def flying : W → Bool
  | .connecting | .connected | .tearing => true
  | _ => false

def inflight (s : St) : Nat := s.ws.countP flying

def Final (s : St) : Prop := s.dpc = .returned

/-! ## enabled sets (what the harness calls the runnable set) -/

def dActs (s : St) : List DAct := [.lock, .wait, .wake false, .relock, .create s.i, .unlock, .ret]
def wActs : List WAct := [.connectBegin, .connectEnd, .destroyBegin, .destroyEnd, .lock, .signal, .unlock]

/-- the dispatcher has an enabled non-spurious operation -/
def dEnabled (s : St) : Bool := (dActs s).any fun a => (step s (.d a)).isSome
/-- worker `i` has an enabled operation -/
def wEnabled (s : St) (i : Nat) : Bool := wActs.any fun a => (step s (.w i a)).isSome
/-- a spurious wake-up is possible: the dispatcher is parked and not signalled -/
def spuriousEnabled (s : St) : Bool := (step s (.d (.wake true))).isSome

end PdshVerif.Dsh.Fan
