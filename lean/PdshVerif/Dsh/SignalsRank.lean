import PdshVerif.Dsh.SignalsLive
import PdshVerif.Dsh.SignalsSingle

/-! # A rank for the signal-extended LTS: every step of a thread of pdsh (other than a spurious wake-up)
decreases it; a spurious wake-up adds at most 2, the delivery of a signal at most `2n + 8`, a clock tick nothing.
So a run with finitely many spurious wake-ups and finitely many signals has finitely many steps. -/
namespace PdshVerif.Dsh.Sig
open PdshVerif.Dsh.Fan (Variant DPC)

def wrank : WP → Nat
  | .idle => 18 | .started => 17 | .rcmdL => 16 | .skipL => 16 | .ready => 15 | .connecting => 14 | .connOk => 13
  | .updT => 12 | .updL => 11 | .reading => 10 | .closing => 10 | .connFail => 10 | .resL => 9 | .flushed => 8
  | .tearing => 7 | .torn => 6 | .locked => 5 | .signaled => 1 | .done => 0

def drankOf (d : DPC) (rem : Nat) (scan : Bool) : Nat :=
  match d with
  | .top => 7 * rem + 7 + 6
  | .woken => 7 * rem + 7 + 5
  | .wait => 7 * rem + 7 + 4
  | .parked => 7 * rem + 7 + 3
  | .create => 7 * rem + 7 + 1
  | .unlock => 7 * rem + 7
  | .dtop => 7 | .dwoken => 6 | .dwait => 5 | .dparked => 4 | .dunlock => 3
  | .finishing => if scan then 1 else 2     -- pthread_cancel(thread_sig) still to come, or only the return
  | .returned => 0

def drank (s : St) : Nat := drankOf s.dpc (s.ws.length - s.i) s.scan

/-- what the signals thread still has to do for the signal it is handling -/
def srank (s : St) : Nat :=
  match s.spc with
  | .off => 2 | .waiting => 1 | .cancelled => 0
  | .intT => 2 * s.ts.length + 8 | .intT2 => 2 * s.ts.length + 7 | .listLock => 2 * s.ts.length + 6
  | .listing k => k + 2 | .printing k => k + 2
  | .abLock => 2 * s.ts.length + 5 | .fwding k => 2 * (s.ts.length - k) + 4 | .exiting => 3
  | .tstpT => 5 | .cancLock => 4 | .cancUnlock => 3 | .stopping => 2

/-- the credit of a pending signal -/
def sigCredit (s : St) : Nat := 2 * s.ts.length + 8

def rank (s : St) : Nat :=
  drank s + (if s.sig then 3 else 0) + (s.ws.map wrank).sum + srank s + sigCredit s * s.pend.length +
    (if s.exited.isSome then 0 else 1)

theorem sum_map_set' {α} (g : α → Nat) : ∀ {l : List α} {i : Nat} {a b : α}, l[i]? = some a →
    ((l.set i b).map g).sum + g a = (l.map g).sum + g b
  | [], i, a, b, h => by simp at h
  | x :: xs, 0, a, b, h => by
      simp at h; subst h; simp [List.set]; omega
  | x :: xs, i + 1, a, b, h => by
      have h' : xs[i]? = some a := by simpa using h
      have := sum_map_set' g (l := xs) (i := i) (a := a) (b := b) h'
      simp only [List.set_cons_succ, List.map_cons, List.sum_cons]; omega

theorem tbl_wrank {g : Bool} {a : WAct} {p q : WP} {c : Bool} (h : wNext g a p c = some q) :
    wrank q + (if a = .signal then 4 else 1) ≤ wrank p := by
  cases g <;> cases c <;> cases a <;> (try (rename_i ok; cases ok)) <;> cases p <;> simp [wNext] at h <;> (try subst h) <;>
    simp [wrank]

theorem rank_w {s s' : St} {i : Nat} {a : WAct} (hs : wStep s i a = some s') : rank s' < rank s := by
  obtain ⟨p, q, ⟨hi, hpci, hn, _, _⟩, rfl⟩ := w_facts hs
  have hget : s.ws[i]? = some p := getElem?_of_getD_lt hi hpci
  have hsum := sum_map_set' wrank (b := q) hget
  simp only [List.map_set] at hsum
  have htbl := tbl_wrank hn
  have e : ∀ x : St, drank (wEffect i x a) = drank x ∧ srank (wEffect i x a) = srank x ∧
      sigCredit (wEffect i x a) = sigCredit x ∧ (wEffect i x a).pend = x.pend ∧
      (wEffect i x a).exited = x.exited ∧ (wEffect i x a).ws = x.ws := by
    intro x; cases a <;> simp [wEffect, drank, srank, sigCredit]
  obtain ⟨e1, e2, e3, e4, e5, e6⟩ := e { s with ws := s.ws.set i q, ts := s.ts.set i (wWrite s.g a p (tsAt s i)) }
  have d1 : drank { s with ws := s.ws.set i q, ts := s.ts.set i (wWrite s.g a p (tsAt s i)) } = drank s := by
    simp [drank]
  have d2 : srank { s with ws := s.ws.set i q, ts := s.ts.set i (wWrite s.g a p (tsAt s i)) } = srank s := by
    simp [srank]
  have d3 : sigCredit { s with ws := s.ws.set i q, ts := s.ts.set i (wWrite s.g a p (tsAt s i)) } = sigCredit s := by
    simp [sigCredit]
  simp only [rank, e1, e2, e3, e4, e5, e6, d1, d2, d3]
  cases a <;> simp [wEffect] at htbl ⊢ <;> (try (cases s.sig <;> cases s.dpc.isParked <;> simp)) <;> omega

theorem rank_e {s s' : St} {a : EAct} (hs : eStep s a = some s') :
    (∀ g, a = .deliver g → rank s' ≤ rank s + sigCredit s) ∧ (∀ v, a = .tick v → rank s' = rank s) := by
  cases a with
  | tick v =>
    simp only [eStep] at hs
    split at hs <;> simp at hs; subst hs
    refine ⟨fun g hc => ?_, fun _ _ => ?_⟩
    · cases hc
    · simp [rank, drank, drankOf, srank, sigCredit]
  | deliver g =>
    simp only [eStep, Option.some.injEq] at hs; subst hs
    refine ⟨fun _ _ => ?_, fun v hc => ?_⟩
    · simp only [rank, drank, drankOf, srank, sigCredit]
      by_cases hg : g ∈ s.pend
      · simp [hg]
      · simp [hg, Nat.mul_add]; omega
    · cases hc

theorem rank_s {s s' : St} {a : SAct} (hx : s.exited = none) (hs : sStep s a = some s') : rank s' < rank s := by
  have hlen : s'.ts.length = s.ts.length := by
    rcases (s_step_frame hs).2.2.2.2.2.2 with h | ⟨_, h⟩ <;> rw [h]; simp
  cases a with
  | sigwait g =>
    simp only [sStep] at hs
    split at hs <;> (try split at hs) <;> simp at hs; subst hs
    rename_i hw hg
    have hl := List.length_erase_of_mem hg
    have hpos : 0 < s.pend.length := List.length_pos_of_mem hg
    have hmul : sigCredit s * s.pend.length = sigCredit s * (s.pend.length - 1) + sigCredit s := by
      rw [← Nat.mul_succ]; congr 1; omega
    simp only [rank, drank, drankOf, srank, sigCredit, hw, hl] at hmul ⊢
    cases g <;> cases s.batch <;> simp <;> omega
  | time v =>
    simp only [sStep] at hs
    split at hs
    · split at hs <;> simp at hs <;> subst hs <;> rename_i hw <;> simp only [rank, drank, drankOf, srank, sigCredit, hw]
      · by_cases hc : INTR < s.now - s.last <;> simp [hc] <;> omega
      · simp
      · simp
      · simp
      · simp
      · by_cases hc : INTR < s.now - s.last <;> simp [hc]
    · simp at hs
  | lockT =>
    simp only [sStep] at hs
    split at hs <;> simp at hs <;> subst hs <;> rename_i ht hw <;> simp only [rank, drank, drankOf, srank, sigCredit, hw]
    · have : ((List.range s.ts.length).filter fun j => isListed (tsAt s j)).length ≤ s.ts.length := by
        have := List.length_filter_le (fun j => isListed (tsAt s j)) (List.range s.ts.length)
        simpa using this
      simp; omega
    · simp
  | fwd h =>
    simp only [sStep] at hs
    split at hs <;> (try split at hs) <;> simp at hs; subst hs
    rename_i k hw hg
    have hlt := lt_of_getElem?' hg.2.1
    simp only [rank, drank, drankOf, srank, sigCredit, hw]
    simp; omega
  | unlockT =>
    simp only [sStep] at hs
    split at hs
    · simp only [Option.some.injEq] at hs; subst hs
      rename_i hw
      simp only [rank, drank, drankOf, srank, sigCredit, hw]; simp
    · simp only [Option.some.injEq] at hs; subst hs
      rename_i k hw
      simp only [rank, drank, drankOf, srank, sigCredit, hw]; simp
    · split at hs <;> simp at hs; subst hs
      rename_i k hw _
      simp only [rank, drank, drankOf, srank, sigCredit, hw]; simp
    · simp at hs
  | lock =>
    simp only [sStep] at hs
    split at hs <;> simp at hs; subst hs
    rename_i ho hw
    simp only [rank, drank, drankOf, srank, sigCredit, hw]; simp
  | unlock =>
    simp only [sStep] at hs
    split at hs <;> simp at hs; subst hs
    rename_i hw
    simp only [rank, drank, drankOf, srank, sigCredit, hw]; simp
  | stop =>
    simp only [sStep] at hs
    split at hs <;> simp at hs; subst hs
    rename_i hw
    simp only [rank, drank, drankOf, srank, sigCredit, hw]; simp
  | exit c =>
    simp only [sStep] at hs
    split at hs <;> (try split at hs) <;> simp at hs; subst hs
    rename_i hw _
    simp only [rank, drank, drankOf, srank, sigCredit, hw, hx]; simp
  | die =>
    simp only [sStep] at hs
    split at hs <;> simp at hs; subst hs
    rename_i hg
    have : 1 ≤ srank s := by
      simp only [srank]; split <;> (first | omega | (rename_i hh; exact absurd hh hg.2.2))
    simp only [rank, drank, drankOf, srank, sigCredit] at this ⊢
    simp; omega

theorem rank_d {s s' : St} {a : DAct} (h : Inv s) (ha : a ≠ .createG ∧ a ≠ .cancelG ∧ a ≠ .joinG)
    (hs : dStep s a = some s') :
    ((Label.d a).spurious = false → rank s' < rank s) ∧ rank s' ≤ rank s + 2 := by
  cases a with
  | createG => exact absurd rfl ha.1
  | cancelG => exact absurd rfl ha.2.1
  | joinG => exact absurd rfl ha.2.2
  | createS =>
    simp only [dStep] at hs
    split at hs <;> (try split at hs) <;> simp at hs; subst hs
    rename_i hw _
    simp [rank, drank, drankOf, srank, sigCredit, hw, Label.spurious]; omega
  | cancelS =>
    simp only [dStep] at hs
    split at hs <;> (try split at hs) <;> simp at hs; subst hs
    rename_i hd hc0
    have hsc : s.scan = false := by cases h' : s.scan <;> simp_all
    simp [rank, drank, drankOf, srank, sigCredit, hd, hsc, Label.spurious]; omega
  | lock =>
    simp only [dStep] at hs
    split at hs
    · split at hs
      · simp at hs
      · simp only [Option.some.injEq, roomTest] at hs
        split at hs <;> subst hs <;> simp_all [rank, drank, drankOf, srank, sigCredit, Label.spurious] <;> omega
    · split at hs
      · simp at hs
      · simp only [Option.some.injEq, drainTest] at hs
        split at hs <;> subst hs <;> simp_all [rank, drank, drankOf, srank, sigCredit, Label.spurious] <;> omega
    · simp at hs
  | wait =>
    simp only [dStep] at hs
    split at hs <;> simp at hs <;> subst hs <;> simp_all [rank, drank, drankOf, srank, sigCredit, Label.spurious] <;>
      (cases s.sig <;> simp <;> omega)
  | wake sp =>
    simp only [dStep] at hs
    split at hs <;> (try split at hs) <;> simp at hs <;> subst hs <;>
      simp_all [rank, drank, drankOf, srank, sigCredit, Label.spurious] <;>
      (cases hsg : s.sig <;> simp_all <;> omega)
  | relock =>
    simp only [dStep] at hs
    split at hs
    · split at hs
      · simp only [Option.some.injEq] at hs; subst hs
        simp_all [rank, drank, drankOf, srank, sigCredit, Label.spurious]; omega
      · simp only [Option.some.injEq, roomTest] at hs
        split at hs <;> subst hs <;> simp_all [rank, drank, drankOf, srank, sigCredit, Label.spurious] <;> omega
    · simp only [Option.some.injEq, drainTest] at hs
      split at hs <;> subst hs <;> simp_all [rank, drank, drankOf, srank, sigCredit, Label.spurious] <;> omega
    · simp at hs
  | create j =>
    simp only [dStep] at hs
    split at hs <;> simp at hs
    rename_i hd
    obtain ⟨⟨hj, hlt⟩, hs⟩ := hs
    subst hs
    have hidle : pc s j = .idle := by rw [hj]; exact create_idle h.f hd
    have hg : s.ws[j]? = some WP.idle := getElem?_of_getD_lt hlt hidle
    have hsum := sum_map_set' wrank (b := WP.started) hg
    have hge : s.i ≤ j := by rw [hj]; exact skip_ge s.ts s.i
    simp only [wrank] at hsum
    simp only [rank, drank, drankOf, srank, sigCredit, hd, Label.spurious, List.length_set]
    constructor
    · intro _; omega
    · omega
  | unlock =>
    simp only [dStep] at hs
    split at hs
    · simp only [Option.some.injEq] at hs; subst hs
      rename_i hd
      have hlt := h.f.disp (by rw [hd]; rfl)
      by_cases hn : s.i + 1 < s.ws.length
      · simp [rank, drank, drankOf, srank, sigCredit, hd, hn, Label.spurious]; omega
      · simp [rank, drank, drankOf, srank, sigCredit, hd, hn, Label.spurious]; omega
    · split at hs <;> simp at hs; subst hs
      rename_i hd _
      simp [rank, drank, drankOf, srank, sigCredit, hd, Label.spurious]; omega
    · simp only [Option.some.injEq] at hs; subst hs
      rename_i hd
      cases hsc : s.scan <;> simp [rank, drank, drankOf, srank, sigCredit, hd, Label.spurious] <;> omega
    · simp at hs
  | ret =>
    simp only [dStep] at hs
    split at hs <;> (try split at hs) <;> simp at hs; subst hs
    rename_i hd hc
    simp [rank, drank, drankOf, srank, sigCredit, hd, hc.1, Label.spurious]; omega

def Label.isTick : Label → Bool
  | .e (.tick _) => true
  | _ => false

/-- the watchdog's return from sleep (driven by the clock, like a tick) -/
def Label.isWdogWake : Label → Bool
  | .g .wake => true
  | _ => false

/-! ## the watchdog's share of the rank (only with the STALEID repair; constant otherwise) -/

def gpcRank (n : Nat) : GPC → Nat
  | .off => 2 * n + 1
  | .at k => 2 * (n - k)
  | .inside k => 2 * (n - k) - 1
  | .sleeping => 0
  | .ended => 0

def grank (s : St) : Nat :=
  gpcRank s.ts.length s.gpc + (if s.gcan then 0 else 1) + (if s.gjoin then 0 else 1)

/-- the rank of the whole system -/
def trank (s : St) : Nat := rank s + grank s

theorem grank_congr {s s' : St} (h1 : s'.gpc = s.gpc) (h2 : s'.gcan = s.gcan) (h3 : s'.gjoin = s.gjoin)
    (h4 : s'.ts.length = s.ts.length) : grank s' = grank s := by
  simp only [grank, h1, h2, h3, h4]

theorem gpcRank_cancel (n : Nat) (p : GPC) : gpcRank n (if p = .sleeping then .ended else p) = gpcRank n p := by
  cases p <;> simp [gpcRank]

theorem rank_wd_d {s s' : St} {a : DAct} (ha : a = .createG ∨ a = .cancelG ∨ a = .joinG)
    (hs : dStep s a = some s') : rank s' = rank s ∧ grank s' < grank s := by
  refine ⟨by rw [d_wd_frame ha hs]; rfl, ?_⟩
  rcases ha with ha | ha | ha <;> subst ha <;> simp only [dStep] at hs <;> split at hs <;> (try split at hs) <;>
    simp at hs <;> subst hs
  · rename_i hg _ _
    simp only [grank, hg]
    by_cases hn : 0 < s.ts.length
    · simp only [if_pos hn, gpcRank]; omega
    · simp only [if_neg hn, gpcRank]; omega
  · rename_i _ hg
    simp only [grank, hg.2, gpcRank_cancel]; simp
  · rename_i _ hg
    simp only [grank, hg.2.2]; simp

theorem rank_g {s s' : St} {a : GAct} (h : Inv s) (hs : gStep s a = some s') :
    rank s' = rank s ∧ (a ≠ .wake → grank s' < grank s) ∧ grank s' ≤ grank s + 2 * s.ts.length := by
  refine ⟨by rw [g_step_frame hs]; rfl, ?_⟩
  cases a with
  | lockT =>
    simp only [gStep] at hs
    split at hs <;> simp at hs; subst hs
    rename_i k _ hg
    have hk := h.w.idx k (Or.inl hg)
    simp only [grank, hg, gpcRank]
    constructor
    · intro _; omega
    · omega
  | unlockT =>
    simp only [gStep] at hs
    split at hs <;> simp at hs; subst hs
    rename_i k hg
    have hk := h.w.idx k (Or.inr hg)
    simp only [grank, hg]
    by_cases hn : k + 1 < s.ts.length
    · simp only [if_pos hn, gpcRank]
      constructor
      · intro _; omega
      · omega
    · simp only [if_neg hn]
      cases hc : s.gcan <;> simp only [gpcRank] <;> constructor <;> (try intro _) <;> simp <;> omega
  | wake =>
    simp only [gStep] at hs
    split at hs <;> simp at hs; subst hs
    rename_i hg
    simp only [grank, hg]
    constructor
    · intro hc; exact absurd rfl hc
    · by_cases hn : 0 < s.ts.length
      · simp only [if_pos hn, gpcRank]; omega
      · simp only [if_neg hn, gpcRank]; omega

/-- steps that are not about the watchdog leave its share of the rank alone -/
theorem grank_other {s s' : St} {l : Label} (hs : step s l = some s')
    (hl : ∀ a, l = .d a → a ≠ .createG ∧ a ≠ .cancelG ∧ a ≠ .joinG) (hg : ∀ a, l ≠ .g a) : grank s' = grank s := by
  cases l with
  | g a => exact absurd rfl (hg a)
  | e a =>
    have hd := step_e hs
    cases a <;> simp only [eStep] at hd <;> (try split at hd) <;> simp at hd <;> subst hd <;> rfl
  | w i a =>
    obtain ⟨p, q, _, rfl⟩ := w_facts (step_w hs)
    apply grank_congr <;> cases a <;> simp [wEffect]
  | s a =>
    have hd := step_s hs
    by_cases ha : a = .die
    · subst ha
      simp only [sStep] at hd
      split at hd <;> simp at hd; subst hd; rfl
    obtain ⟨e1, e2, e3, _⟩ := s_step_ctl ha hd
    obtain ⟨_, _, _, _, _, _, hts⟩ := s_step_frame hd
    exact grank_congr e1 e2 e3 (by rcases hts with h | ⟨_, h⟩ <;> rw [h]; simp)
  | d a =>
    have hd := step_d hs
    obtain ⟨a1, a2, a3⟩ := hl a rfl
    by_cases hp : a ≠ .createG ∧ a ≠ .createS ∧ a ≠ .cancelG ∧ a ≠ .joinG ∧ a ≠ .cancelS ∧ a ≠ .ret
    · obtain ⟨e1, e2, e3, _, _, _, e7, _⟩ := d_plain_frame hp hd
      exact grank_congr e1 e2 e3 (by rw [e7])
    · cases a with
      | createS =>
        simp only [dStep] at hd
        split at hd <;> (try split at hd) <;> simp at hd; subst hd; rfl
      | cancelS =>
        simp only [dStep] at hd
        split at hd <;> (try split at hd) <;> simp at hd; subst hd; rfl
      | ret =>
        simp only [dStep] at hd
        split at hd <;> (try split at hd) <;> simp at hd; subst hd; rfl
      | createG => exact absurd rfl a1
      | cancelG => exact absurd rfl a2
      | joinG => exact absurd rfl a3
      | lock | wait | wake _ | relock | create _ | unlock => exact absurd (by simp) hp

/-- every step: a proper step decreases the rank, a spurious wake-up adds at most 2, a delivery at most the
    credit `2n + 8`, a tick nothing, the watchdog's return from sleep at most `2n` -/
theorem rank_step {s s' : St} {l : Label} (h : Inv s) (hs : step s l = some s') :
    (l.proper = true → trank s' < trank s) ∧ (l.spurious = true → trank s' ≤ trank s + 2) ∧
    (l.isDeliver = true → trank s' ≤ trank s + sigCredit s) ∧ (l.isTick = true → trank s' = trank s) ∧
    (l.isWdogWake = true → trank s' ≤ trank s + 2 * s.ts.length) := by
  have hx := step_live hs
  cases l with
  | g a =>
    obtain ⟨h1, h2, h3⟩ := rank_g h (step_wd hs)
    refine ⟨fun hp => ?_, fun hc => by simp [Label.spurious] at hc, fun hc => by simp [Label.isDeliver] at hc,
            fun hc => by simp [Label.isTick] at hc, fun _ => by simp only [trank, h1]; omega⟩
    have : a ≠ .wake := by intro hc; subst hc; simp [Label.proper, Label.isEnv] at hp
    have := h2 this
    simp only [trank, h1]; omega
  | d a =>
    by_cases ha : a = .createG ∨ a = .cancelG ∨ a = .joinG
    · obtain ⟨h1, h2⟩ := rank_wd_d ha (step_d hs)
      refine ⟨fun _ => by simp only [trank, h1]; omega, fun _ => by simp only [trank, h1]; omega,
              fun hc => by simp [Label.isDeliver] at hc, fun hc => by simp [Label.isTick] at hc,
              fun hc => by simp [Label.isWdogWake] at hc⟩
    · have ha' : a ≠ .createG ∧ a ≠ .cancelG ∧ a ≠ .joinG :=
        ⟨fun hc => ha (Or.inl hc), fun hc => ha (Or.inr (Or.inl hc)), fun hc => ha (Or.inr (Or.inr hc))⟩
      have hg := grank_other hs (fun b hb => by cases hb; exact ha') (fun b hb => by cases hb)
      have := rank_d h ha' (step_d hs)
      refine ⟨fun hp => ?_, fun _ => by simp only [trank, hg]; omega, fun hc => by simp [Label.isDeliver] at hc,
              fun hc => by simp [Label.isTick] at hc, fun hc => by simp [Label.isWdogWake] at hc⟩
      simp only [Label.proper, Bool.and_eq_true, Bool.not_eq_true'] at hp
      have := this.1 hp.1
      simp only [trank, hg]; omega
  | w i a =>
    have hg := grank_other hs (fun b hb => by cases hb) (fun b hb => by cases hb)
    have := rank_w (step_w hs)
    exact ⟨fun _ => by simp only [trank, hg]; omega, fun hc => by simp [Label.spurious] at hc,
           fun hc => by simp [Label.isDeliver] at hc, fun hc => by simp [Label.isTick] at hc,
           fun hc => by simp [Label.isWdogWake] at hc⟩
  | s a =>
    have hg := grank_other hs (fun b hb => by cases hb) (fun b hb => by cases hb)
    have := rank_s hx (step_s hs)
    exact ⟨fun _ => by simp only [trank, hg]; omega, fun hc => by simp [Label.spurious] at hc,
           fun hc => by simp [Label.isDeliver] at hc, fun hc => by simp [Label.isTick] at hc,
           fun hc => by simp [Label.isWdogWake] at hc⟩
  | e a =>
    have hg := grank_other hs (fun b hb => by cases hb) (fun b hb => by cases hb)
    have := rank_e (step_e hs)
    refine ⟨fun hp => by simp [Label.proper, Label.isEnv] at hp, fun hc => by simp [Label.spurious] at hc,
            fun hc => ?_, fun hc => ?_, fun hc => by simp [Label.isWdogWake] at hc⟩
    · cases a with
      | deliver g => have := this.1 g rfl; simp only [trank, hg]; omega
      | tick v => simp [Label.isDeliver] at hc
    · cases a with
      | deliver g => simp [Label.isTick] at hc
      | tick v => have := this.2 v rfl; simp only [trank, hg]; omega

theorem rank_init (v : Variant) (g sw : Bool) (f n : Nat) (b : Bool) (t0 : Nat) :
    trank (init v g sw f n b t0) ≤ 27 * n + 19 := by
  have hs : ∀ n, ((List.replicate n WP.idle).map wrank).sum = 18 * n := by
    intro n; induction n with
    | zero => rfl
    | succ k ih => simp [List.replicate_succ, wrank] at ih ⊢; omega
  simp only [trank, grank, gpcRank, rank, init, hs, srank, sigCredit]
  split <;> simp [drank, drankOf] <;> omega

/-- termination: in an execution with `k` spurious wake-ups, `d` deliveries and `w` returns of the watchdog from its
    sleep the threads of pdsh take at most `27n + 19 + 2k + (2n + 8)d + 2n·w` steps (whatever the clock does) -/
theorem steps_bounded {v : Variant} {g sw : Bool} {f n t0 : Nat} {b : Bool} {ls : List Label} {s : St}
    (he : Exec (init v g sw f n b t0) ls s) :
    ls.countP Label.proper + trank s ≤
      27 * n + 19 + 2 * ls.countP Label.spurious + (2 * n + 8) * ls.countP Label.isDeliver +
        2 * n * ls.countP Label.isWdogWake := by
  have key : ∀ {ls s}, Exec (init v g sw f n b t0) ls s →
      ls.countP Label.proper + trank s ≤
        trank (init v g sw f n b t0) + 2 * ls.countP Label.spurious + (2 * n + 8) * ls.countP Label.isDeliver +
          2 * n * ls.countP Label.isWdogWake := by
    intro ls s he
    induction he with
    | nil => simp
    | snoc he' hs ih =>
      rename_i ls0 s0 l0 s1
      have hinv := inv_exec (inv_init v g sw f n b t0) he'
      have hr := rank_step hinv hs
      have hlen : s0.ts.length = n := by
        have := (exec_params he').2.2.2.2
        simpa [init] using this
      have hn : sigCredit s0 = 2 * n + 8 := by simp only [sigCredit, hlen]
      rw [hlen] at hr
      rw [List.countP_append, List.countP_append, List.countP_append, List.countP_append]
      simp only [List.countP_cons, List.countP_nil, Nat.zero_add]
      by_cases hp : l0.proper = true
      · have h1 := hr.1 hp
        have h2 : l0.spurious = false := by
          simp only [Label.proper, Bool.and_eq_true, Bool.not_eq_true'] at hp; exact hp.1
        have h3 : l0.isDeliver = false := by
          cases l0 <;> simp_all [Label.proper, Label.isEnv, Label.isDeliver]
        have h4 : l0.isWdogWake = false := by
          cases l0 <;> simp_all [Label.proper, Label.isEnv, Label.isWdogWake]
          rename_i a; cases a <;> simp_all [Label.isEnv]
        simp [hp, h2, h3, h4]; omega
      · have hp' : l0.proper = false := by cases hh : l0.proper <;> simp_all
        by_cases hsp : l0.spurious = true
        · have h1 := hr.2.1 hsp
          have h3 : l0.isDeliver = false := by cases l0 <;> simp_all [Label.spurious, Label.isDeliver]
          have h4 : l0.isWdogWake = false := by cases l0 <;> simp_all [Label.spurious, Label.isWdogWake]
          simp [hp', hsp, h3, h4]; omega
        · have hsp' : l0.spurious = false := by cases hh : l0.spurious <;> simp_all
          -- not proper, not spurious: an environment step
          cases l0 with
          | e a =>
            cases a with
            | deliver g0 =>
              have := hr.2.2.1 rfl
              rw [hn] at this
              simp [Label.proper, Label.spurious, Label.isEnv, Label.isDeliver, Label.isWdogWake, Nat.mul_add]; omega
            | tick t =>
              have := hr.2.2.2.1 rfl
              simp [Label.proper, Label.spurious, Label.isEnv, Label.isDeliver, Label.isWdogWake]; omega
          | g a =>
            cases a with
            | wake =>
              have := hr.2.2.2.2 rfl
              simp [Label.proper, Label.spurious, Label.isEnv, Label.isDeliver, Label.isWdogWake, Nat.mul_add]; omega
            | lockT => simp [Label.proper, Label.spurious, Label.isEnv] at hp'
            | unlockT => simp [Label.proper, Label.spurious, Label.isEnv] at hp'
          | d a => simp [Label.proper, Label.isEnv, hsp'] at hp'
          | w i a => simp [Label.proper, Label.isEnv, Label.spurious] at hp'
          | s a => simp [Label.proper, Label.isEnv, Label.spurious] at hp'
  have := key he
  have := rank_init v g sw f n b t0
  omega

end PdshVerif.Dsh.Sig
