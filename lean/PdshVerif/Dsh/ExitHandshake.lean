/-
  C08, in-band channel through the rsh transport: what the handshake of `xrcmd` (src/modules/xrcmd.c) leaves on the
  connection for dsh()'s relay.

  Code modelled:
      rv = read (s, &c, 1);                 -- ONE byte: the server's status
      if (rv != 1) ... goto bad2;           -- end of file: protocol failure
      if (c != 0) { ...error line...; goto bad2; }
      return s;                             -- everything after the status byte is the command's output
  The server's answer is a byte stream that arrives cut into chunks (what one read() could return at most); a fast
  command's output -- the marker line `XXRETCODE:n` included -- may arrive in the SAME chunk as the status byte.
  Because exactly one byte is consumed, what the relay sees does not depend on the cut (`handshake_any_chunking`);
  a handshake that reads "whatever is there" into a buffer and keeps only the status byte loses the rest of the first
  chunk (`buffered_depends_on_chunking`: the class of the seeded change C08-14).

  Correspondence: vlib/exitrsh.py runs the real module against a server that sends the same stream as one chunk
  (`coalesce`) and as two (`split`) for every flag combination; the model line it compares with is computed from the
  stream after the status byte, i.e. from `afterHandshake`.  Theorems only; no driver command.
-/
import PdshVerif.Dsh.ExitLemmas

namespace PdshVerif.Dsh.Exit

/-- `read (s, &c, 1)` on a stream that arrives in chunks: the first byte that arrives; the rest stays queued.
    (An empty chunk = a read that would have found nothing yet; `none` = end of file before any byte.) -/
def readByte : List Str → Option (Char × List Str)
  | [] => none
  | [] :: cs => readByte cs
  | (c :: r) :: cs => some (c, r :: cs)

theorem readByte_some (cs : List Str) (c : Char) (rest : List Str) (h : readByte cs = some (c, rest)) :
    cs.flatten = c :: rest.flatten := by
  induction cs with
  | nil => simp [readByte] at h
  | cons x xs ih =>
    cases x with
    | nil => simpa [readByte] using ih (by simpa [readByte] using h)
    | cons a r =>
      simp only [readByte, Option.some.injEq, Prod.mk.injEq] at h
      obtain ⟨h1, h2⟩ := h
      subst h1; subst h2
      simp

theorem readByte_none (cs : List Str) (h : readByte cs = none) : cs.flatten = [] := by
  induction cs with
  | nil => rfl
  | cons x xs ih =>
    cases x with
    | nil => simpa [readByte] using ih (by simpa [readByte] using h)
    | cons a r => simp [readByte] at h

/-- what xrcmd leaves for the relay after the handshake: `some out` = status byte 0, `out` is the command's output;
    `none` = the target failed (end of file, or a non-zero status byte followed by an error line): rcmd returns -1 -/
def afterHandshake (cs : List Str) : Option Str :=
  match readByte cs with
  | some (c, rest) => if c = NUL then some rest.flatten else none
  | none => none

/-- the same function of the STREAM alone -/
def afterHandshakeStream : Str → Option Str
  | [] => none
  | c :: out => if c = NUL then some out else none

theorem afterHandshake_stream (cs : List Str) : afterHandshake cs = afterHandshakeStream cs.flatten := by
  unfold afterHandshake
  cases h : readByte cs with
  | none => simp [readByte_none cs h, afterHandshakeStream]
  | some p =>
    obtain ⟨c, rest⟩ := p
    simp [readByte_some cs c rest h, afterHandshakeStream]

/-- however the server's answer is cut into chunks, the relay is handed the same bytes -/
theorem handshake_any_chunking (cs₁ cs₂ : List Str) (h : cs₁.flatten = cs₂.flatten) :
    afterHandshake cs₁ = afterHandshake cs₂ := by
  rw [afterHandshake_stream, afterHandshake_stream, h]

/-- a successful handshake loses nothing: all of the command's output reaches the relay, in every chunking -/
theorem handshake_keeps_output (cs : List Str) (out : Str) (h : cs.flatten = NUL :: out) :
    afterHandshake cs = some out := by
  rw [afterHandshake_stream, h]
  simp [afterHandshakeStream]

/-- a refused handshake (non-zero status byte) or an empty answer is a failure, in every chunking -/
theorem handshake_refused (cs : List Str) (c : Char) (txt : Str) (hc : c ≠ NUL) (h : cs.flatten = c :: txt) :
    afterHandshake cs = none := by
  rw [afterHandshake_stream, h]
  simp [afterHandshakeStream, hc]

/-- the script the rcmd layer presents to `_rsh_thread` for an rsh target whose server answered with the chunks `cs`
    and closed the connection (in-band channel: the transport has no status of its own, `rv = 0`) -/
def rshScript (cs : List Str) : Script :=
  match afterHandshake cs with
  | some out => { connectOk := true, stdout := out, timedOut := false, rv := 0 }
  | none => { connectOk := false, stdout := [], timedOut := false, rv := 0 }

/-- in every chunking of `status byte 0 ++ output` the worker is presented exactly the in-band script of that output -/
theorem rshScript_eq (cs : List Str) (sc : Script) (h : cs.flatten = NUL :: sc.stdout) (h1 : sc.connectOk = true)
    (h2 : sc.timedOut = false) (h3 : sc.rv = 0) (h4 : sc.viaLoopTop = false) : rshScript cs = sc := by
  cases sc
  simp_all [rshScript, handshake_keeps_output]

/-- a denied target (non-zero status byte, error line) FAILS WITHOUT A RETURN CODE: state failed, rc 0, in every chunking -/
theorem rshScript_denied (fx : Fixes) (cs : List Str) (c : Char) (txt : Str) (hc : c ≠ NUL) (h : cs.flatten = c :: txt) :
    hostOf fx (rshScript cs) = { state := .failed, rc := 0 } := by
  simp [rshScript, handshake_refused cs c txt hc h, hostOf, finalRc]

/-- the variant that fetches the answer with one read() into a buffer and looks at its first byte only -/
def afterHandshakeBuffered : List Str → Option Str
  | [] => none
  | [] :: cs => afterHandshakeBuffered cs
  | (c :: _) :: cs => if c = NUL then some cs.flatten else none

/-- ... depends on the cut: the output that shares a chunk with the status byte is gone (here the marker line's `3`) -/
theorem buffered_depends_on_chunking :
    ([[NUL, '3', NL]] : List Str).flatten = ([[NUL], ['3', NL]] : List Str).flatten ∧
    afterHandshakeBuffered [[NUL, '3', NL]] = some [] ∧
    afterHandshakeBuffered [[NUL], ['3', NL]] = some ['3', NL] ∧
    afterHandshake [[NUL, '3', NL]] = some ['3', NL] ∧
    afterHandshake [[NUL], ['3', NL]] = some ['3', NL] := by
  decide

end PdshVerif.Dsh.Exit
