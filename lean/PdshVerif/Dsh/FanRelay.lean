import PdshVerif.Dsh.FanGBound
import PdshVerif.Relay.Interleave

/-!
# The fan-out protocol composed with the relay (C03 "... and its output has been delivered")

`Dsh/FanG.lean` says WHEN a worker connects, tears down and gives its slot back; `Relay/Interleave.lean` says what
the relay of MANY streams at once writes, for ANY global order of events (a chunk arrives on a stream and its
handler runs | a stream finishes).  Neither knows the other.  This file puts them side by side the way
`_rsh_thread` does:

* a relay event of stream `(i, stderr?)` can happen only while worker `i` is between `connectEnd` and
  `destroyBegin` (program counter `connected`: the poll / read loop), and only while that stream has not finished
  (after EOF the stream is closed and never polled again); stderr streams exist only with `-s`;
* `W i.destroyBegin` (the worker leaves the loop: `while (xpfds[0].fd >= 0 || xpfds[1].fd >= 0)` is over) is
  possible only when every polled stream of `i` has finished -- or when there are no streams because
  `rcmd_connect` failed (`cfail i`: `a->rcmd->fd == -1`, the loop is skipped; possible only before any event of
  `i`'s streams, and none can follow).

State = the protocol state + the relay events so far, in their global order.  Everything else -- which worker
moves, which stream gets data when, how the chunks are cut -- is the environment: the theorems quantify over all
executions.  (A worker that gives up on its host at a timeout leaves the loop WITHOUT its streams having finished;
that is the Timed LTS of C07, `Props/C07.healthy_complete`.  Here every command ends, as in C03's statement.)
-/
namespace PdshVerif.Dsh.FanRelay
open PdshVerif.Dsh PdshVerif.Relay

structure St where
  fan : FanG.St
  evs : List (Key × LEv)
  sopt : Bool                       -- `-s`: stderr is a stream of its own
  nofd : List Nat                   -- targets whose `rcmd_connect` failed: no streams

inductive Label | fan (l : FanG.Label) | ev (k : Key) (e : LEv) | cfail (i : Nat)

def isFinish : LEv → Bool
  | .finish => true
  | _ => false

/-- the events of stream `k`, in order -/
def evsOf (evs : List (Key × LEv)) (k : Key) : List LEv := (evs.filter (fun e => e.1 = k)).map (·.2)

def finished (evs : List (Key × LEv)) (k : Key) : Bool := (evsOf evs k).any isFinish

/-- the chunks stream `k` has received, in order -/
def chunksOf (evs : List (Key × LEv)) (k : Key) : List Bytes :=
  (evsOf evs k).filterMap fun e => match e with | .feed c => some c | .finish => none

/-- all polled streams of target `i` have finished -/
def drained (s : St) (i : Nat) : Bool :=
  s.nofd.contains i || (finished s.evs (i, false) && (!s.sopt || finished s.evs (i, true)))

def fanGuard (s : St) : FanG.Label → Bool
  | .w i .destroyBegin => drained s i
  | _ => true

def step (s : St) : Label → Option St
  | .fan l =>
      if fanGuard s l then (FanG.step s.fan l).map fun f => { s with fan := f } else none
  | .ev k e =>
      if FanG.pc s.fan k.1 = .connected ∧ finished s.evs k = false ∧ (k.2 = true → s.sopt = true) ∧
          s.nofd.contains k.1 = false then
        some { s with evs := s.evs ++ [(k, e)] }
      else none
  | .cfail i =>
      if FanG.pc s.fan i = .connected ∧ evsOf s.evs (i, false) = [] ∧ evsOf s.evs (i, true) = [] then
        some { s with nofd := i :: s.nofd }
      else none

def init (v : FanG.Variant) (f n : Nat) (sopt : Bool) : St :=
  { fan := FanG.init v f n, evs := [], sopt := sopt, nofd := [] }

inductive Exec (s0 : St) : List Label → St → Prop
  | nil : Exec s0 [] s0
  | snoc {ls s l s'} : Exec s0 ls s → step s l = some s' → Exec s0 (ls ++ [l]) s'

/-- the acceptor's view: fold `step` over a label list -/
def run (s : St) : List Label → Option St
  | [] => some s
  | l :: ls => (step s l).bind (run · ls)

theorem exec_cons {s0 s1 s : St} {l : Label} {ls : List Label} (hs : step s0 l = some s1) (he : Exec s1 ls s) :
    Exec s0 (l :: ls) s := by
  induction he with
  | nil => exact Exec.snoc (ls := []) Exec.nil hs
  | snoc _ hs' ih => exact Exec.snoc ih hs'

theorem exec_of_run : ∀ {ls : List Label} {s0 s : St}, run s0 ls = some s → Exec s0 ls s
  | [], s0, s, h => by simp [run] at h; subst h; exact Exec.nil
  | l :: ls, s0, s, h => by
      simp only [run] at h
      cases hs : step s0 l with
      | none => rw [hs] at h; simp at h
      | some s1 => rw [hs] at h; exact exec_cons hs (exec_of_run (by simpa using h))

def projLabel : Label → Option FanG.Label
  | .fan l => some l
  | _ => none

/-! ## projection onto the protocol -/

theorem step_fan {s s' : St} {l : FanG.Label} (h : step s (.fan l) = some s') :
    FanG.step s.fan l = some s'.fan ∧ s'.evs = s.evs ∧ s'.sopt = s.sopt ∧ fanGuard s l = true ∧ s'.nofd = s.nofd := by
  simp only [step] at h
  split at h
  · rename_i hg
    cases hf : FanG.step s.fan l with
    | none => rw [hf] at h; simp at h
    | some f => rw [hf] at h; simp at h; subst h; exact ⟨rfl, rfl, rfl, hg, rfl⟩
  · simp at h

theorem step_ev {s s' : St} {k : Key} {e : LEv} (h : step s (.ev k e) = some s') :
    s'.fan = s.fan ∧ s'.evs = s.evs ++ [(k, e)] ∧ s'.sopt = s.sopt ∧
      FanG.pc s.fan k.1 = .connected ∧ finished s.evs k = false ∧ s'.nofd = s.nofd := by
  simp only [step] at h
  split at h
  · rename_i hg; simp at h; subst h; exact ⟨rfl, rfl, rfl, hg.1, hg.2.1, rfl⟩
  · simp at h

theorem step_cfail {s s' : St} {i : Nat} (h : step s (.cfail i) = some s') :
    s'.fan = s.fan ∧ s'.evs = s.evs ∧ s'.sopt = s.sopt ∧ s'.nofd = i :: s.nofd := by
  simp only [step] at h
  split at h
  · simp at h; subst h; exact ⟨rfl, rfl, rfl, rfl⟩
  · simp at h

/-- every execution of the composed system is, relay events forgotten, an execution of the protocol LTS: all of
    `Props/C03.G` and `Props/C04.G` applies -/
theorem fan_refinement {v f n sopt} {ls : List Label} {s : St} (he : Exec (init v f n sopt) ls s) :
    FanG.Exec (FanG.init v f n) (ls.filterMap projLabel) s.fan := by
  induction he with
  | nil => exact FanG.Exec.nil
  | snoc he0 hs ih =>
    rename_i ls0 s0 l0 s1
    rw [List.filterMap_append]
    cases l0 with
    | fan l =>
      simp only [List.filterMap_cons, projLabel, List.filterMap_nil]
      exact FanG.Exec.snoc ih (step_fan hs).1
    | ev k e =>
      simp only [List.filterMap_cons, projLabel, List.filterMap_nil, List.append_nil]
      rw [(step_ev hs).1]; exact ih
    | cfail i =>
      simp only [List.filterMap_cons, projLabel, List.filterMap_nil, List.append_nil]
      rw [(step_cfail hs).1]; exact ih

/-! ## the shape of a stream's events -/

theorem evsOf_append (evs : List (Key × LEv)) (k k' : Key) (e : LEv) :
    evsOf (evs ++ [(k', e)]) k = if k' = k then evsOf evs k ++ [e] else evsOf evs k := by
  simp only [evsOf, List.filter_append, List.map_append]
  by_cases h : k' = k <;> simp [h]

/-- feeds, then at most one finish, and nothing after it -/
def Shape (evs : List (Key × LEv)) : Prop :=
  ∀ k, evsOf evs k = (chunksOf evs k).map LEv.feed ++ (if finished evs k then [LEv.finish] else [])

theorem shape_nil : Shape [] := by intro k; simp [evsOf, chunksOf, finished]

theorem shape_append {evs : List (Key × LEv)} (h : Shape evs) {k : Key} (hnf : finished evs k = false) (e : LEv) :
    Shape (evs ++ [(k, e)]) := by
  intro k'
  have hk' := h k'
  by_cases hkk : k = k'
  · subst hkk
    have hE : evsOf (evs ++ [(k, e)]) k = evsOf evs k ++ [e] := by rw [evsOf_append]; simp
    rw [hnf] at hk'; simp at hk'
    have hall : (evsOf evs k).any isFinish = false := hnf
    cases e with
    | feed c =>
      have hf : finished (evs ++ [(k, LEv.feed c)]) k = false := by
        simp only [finished, hE, List.any_append, hall]; simp [isFinish]
      simp only [chunksOf, hE, hf, List.filterMap_append]
      rw [show (evsOf evs k).filterMap (fun e => match e with | .feed c => some c | .finish => none) = chunksOf evs k
        from rfl]
      conv => lhs; rw [hk']
      simp
    | finish =>
      have hf : finished (evs ++ [(k, LEv.finish)]) k = true := by
        simp only [finished, hE, List.any_append]; simp [isFinish]
      simp only [chunksOf, hE, hf, List.filterMap_append]
      rw [show (evsOf evs k).filterMap (fun e => match e with | .feed c => some c | .finish => none) = chunksOf evs k
        from rfl]
      conv => lhs; rw [hk']
      simp
  · have hE : evsOf (evs ++ [(k, e)]) k' = evsOf evs k' := by rw [evsOf_append]; simp [hkk]
    simp only [chunksOf, finished, hE]
    exact hk'

theorem finished_mono (evs : List (Key × LEv)) (k k' : Key) (e : LEv) (h : finished evs k = true) :
    finished (evs ++ [(k', e)]) k = true := by
  simp only [finished, evsOf_append]
  split
  · simp only [List.any_append]; simp [show (evsOf evs k).any isFinish = true from h]
  · exact h

/-! ## the invariant of the composition -/

/-- has left the poll / read loop -/
def pastLoop : FanG.W → Bool
  | .tearing | .torn | .locked | .signaled | .released | .done => true
  | _ => false

structure Inv (s : St) : Prop where
  shape : Shape s.evs
  drainedPast : ∀ i, pastLoop (FanG.pc s.fan i) = true → drained s i = true

theorem inv_init (v f n sopt) : Inv (init v f n sopt) := by
  refine ⟨shape_nil, ?_⟩
  intro i h
  simp only [init] at h
  rw [FanG.pc_init] at h; simp [pastLoop] at h

theorem drained_mono {s : St} {k : Key} {e : LEv} (i : Nat) (h : drained s i = true) :
    drained { s with evs := s.evs ++ [(k, e)] } i = true := by
  simp only [drained, Bool.and_eq_true, Bool.or_eq_true, Bool.not_eq_true'] at h ⊢
  rcases h with h | h
  · exact Or.inl h
  · refine Or.inr ⟨finished_mono _ _ _ _ h.1, ?_⟩
    rcases h.2 with h2 | h2
    · exact Or.inl h2
    · exact Or.inr (finished_mono _ _ _ _ h2)

theorem drained_cfail {s : St} {k : Nat} (i : Nat) (h : drained s i = true) :
    drained { s with nofd := k :: s.nofd } i = true := by
  simp only [drained, Bool.or_eq_true] at h ⊢
  rcases h with h | h
  · left; simp only [List.contains_cons, Bool.or_eq_true]; exact Or.inr h
  · exact Or.inr h

theorem inv_step {s s' : St} {l : Label} (hfi : FanG.Inv s.fan) (hi : Inv s) (hs : step s l = some s') : Inv s' := by
  cases l with
  | ev k e =>
    obtain ⟨hf, he, hso, _, hnf, hno⟩ := step_ev hs
    refine ⟨by rw [he]; exact shape_append hi.shape hnf e, ?_⟩
    intro i hp
    rw [hf] at hp
    have := drained_mono (k := k) (e := e) i (hi.drainedPast i hp)
    simpa [drained, he, hso, hno] using this
  | cfail k =>
    obtain ⟨hf, he, hso, hno⟩ := step_cfail hs
    refine ⟨by rw [he]; exact hi.shape, ?_⟩
    intro i hp
    rw [hf] at hp
    have := drained_cfail (k := k) i (hi.drainedPast i hp)
    simpa [drained, he, hso, hno] using this
  | fan fl =>
    obtain ⟨hf, he, hso, hg, hno⟩ := step_fan hs
    refine ⟨by rw [he]; exact hi.shape, ?_⟩
    intro i hp
    have hdr : drained s' i = drained s i := by simp [drained, he, hso, hno]
    rw [hdr]
    cases fl with
    | d a =>
      rcases FanG.pc_after_d hfi hf i with h | ⟨_, h2⟩
      · rw [h] at hp; exact hi.drainedPast i hp
      · rw [h2] at hp; simp [pastLoop] at hp
    | w k a =>
      obtain ⟨hpre, _, hs'⟩ := FanG.w_step_facts hf
      have hk := FanG.lt_of_getElem? hpre
      have hpk : FanG.pc s.fan k = a.pre := FanG.getD_of_getElem? hpre
      have hpc : FanG.pc s'.fan i = if i = k then a.post else FanG.pc s.fan i := by
        rw [hs']
        have : (FanG.wEffect k { s.fan with ws := s.fan.ws.set k a.post } a).ws = s.fan.ws.set k a.post := by
          cases a <;> rfl
        simp only [FanG.pc, this]; exact FanG.pc_set hk i
      rw [hpc] at hp
      by_cases hik : i = k
      · subst hik
        simp only [if_true] at hp
        cases a with
        | destroyBegin => simpa [fanGuard] using hg
        | connectBegin | connectEnd => simp [pastLoop, FanG.WAct.post] at hp
        | destroyEnd | lock | signal | unlock | unlockFirst | signalAfter =>
          exact hi.drainedPast i (by rw [hpk]; rfl)
      · simp only [hik, if_false] at hp; exact hi.drainedPast i hp

theorem inv_exec {v f n sopt} {ls : List Label} {s : St} (he : Exec (init v f n sopt) ls s) :
    Inv s ∧ s.sopt = sopt := by
  induction he with
  | nil => exact ⟨inv_init v f n sopt, rfl⟩
  | snoc he' hs ih =>
    rename_i ls0 s0 l0 s1
    have hfi := FanG.inv_exec (FanG.inv_init v f n) (fan_refinement he')
    refine ⟨inv_step hfi ih.1 hs, ?_⟩
    cases l0 with
    | fan l => rw [(step_fan hs).2.2.1]; exact ih.2
    | ev k e => rw [(step_ev hs).2.2.1]; exact ih.2
    | cfail i => rw [(step_cfail hs).2.2.1]; exact ih.2

/-- when dsh() has returned, every polled stream of every target whose connect succeeded has received its chunks
    and has finished: its events are exactly `feed c₁ … feed cₘ, finish` -/
theorem final_streams_complete {v f n sopt} {ls : List Label} {s : St} (he : Exec (init v f n sopt) ls s)
    (hf : FanG.Final s.fan) (i : Nat) (hi : i < n) (hconn : s.nofd.contains i = false)
    (strm : Bool) (hstrm : strm = true → sopt = true) :
    evsOf s.evs (i, strm) = (chunksOf s.evs (i, strm)).map LEv.feed ++ [LEv.finish] := by
  obtain ⟨hinv, hso⟩ := inv_exec he
  have hfe := fan_refinement he
  have hfi := FanG.inv_exec (FanG.inv_init v f n) hfe
  have hlen : s.fan.ws.length = n := by have := (FanG.exec_params hfe).2.2; simpa [FanG.init] using this
  have hout : FanG.isOut (FanG.pc s.fan i) = true := hfi.fin (by rw [hf]; rfl) i (by omega)
  have hpast : pastLoop (FanG.pc s.fan i) = true := by
    revert hout; cases FanG.pc s.fan i <;> simp [FanG.isOut, pastLoop]
  have hdr := hinv.drainedPast i hpast
  have hfin : finished s.evs (i, strm) = true := by
    simp only [drained, hconn, Bool.false_or, Bool.and_eq_true, Bool.or_eq_true, Bool.not_eq_true'] at hdr
    cases strm with
    | false => exact hdr.1
    | true =>
      rcases hdr.2 with h | h
      · rw [hso, hstrm rfl] at h; cases h
      · exact h
  have := hinv.shape (i, strm)
  rw [hfin] at this; simpa using this

end PdshVerif.Dsh.FanRelay
