import PdshVerif.Dsh.SignalsRank

/-! # Each target is connected at most once — in every run, with cancellations, aborts, any signals

`once_only_without_cancel` carries the C03 theorem over through the projection onto the Fan LTS, which exists only
for runs in which `_cancel_pending_threads` does not run.  Here the same is proved of the signal-extended LTS
directly: the number of `rcmd_connect` calls for slot `i` so far is 0 as long as worker `i` is before its connect,
and at most 1 ever. -/
namespace PdshVerif.Dsh.Sig
open PdshVerif.Dsh.Fan (Variant DPC)

/-- `wrank p ≤ 14`: the worker has begun its rcmd_connect, or is past the point where it could -/
def OInv (ls : List Label) (s : St) : Prop :=
  ∀ i, ls.count (.w i .connectBegin) ≤ if wrank (pc s i) ≤ 14 then 1 else 0

theorem count_snoc_label (ls : List Label) (l x : Label) :
    (ls ++ [l]).count x = ls.count x + if l = x then 1 else 0 := by
  simp only [List.count_append, List.count_cons, List.count_nil, Nat.zero_add, beq_iff_eq]

theorem oinv_step {ls : List Label} {s s' : St} {l : Label} (hf : FInv s) (ho : OInv ls s)
    (hs : step s l = some s') : OInv (ls ++ [l]) s' := by
  intro i
  rw [count_snoc_label]
  have hoi := ho i
  cases l with
  | g a =>
    have hws : s'.ws = s.ws := by rw [g_step_frame (step_wd hs)]
    rw [pc_congr hws]; simpa using hoi
  | e a =>
    obtain ⟨hws, _⟩ := e_step_frame (step_e hs)
    rw [pc_congr hws]; simpa using hoi
  | s a =>
    obtain ⟨hws, _⟩ := s_step_frame (step_s hs)
    rw [pc_congr hws]; simpa using hoi
  | d a =>
    have hd := step_d hs
    have hne : (Label.d a = Label.w i .connectBegin) = False := by simp
    simp only [hne, if_false, Nat.add_zero]
    cases a with
    | create j =>
      simp only [dStep] at hd
      split at hd <;> simp at hd
      rename_i hdp
      obtain ⟨⟨hj, hlt⟩, hd⟩ := hd
      subst hd
      have hidle : pc s j = .idle := by rw [hj]; exact create_idle hf hdp
      show _ ≤ if wrank ((s.ws.set j WP.started).getD i .idle) ≤ 14 then 1 else 0
      rw [getD_set' hlt]
      by_cases hij : i = j
      · rw [if_pos hij]
        rw [hij, hidle] at hoi
        simp [wrank] at hoi ⊢
        rw [hij]; exact hoi
      · rw [if_neg hij]; exact hoi
    | _ =>
      have hws : s'.ws = s.ws := by
        simp only [dStep] at hd
        (repeat' split at hd) <;> simp [roomTest, drainTest] at hd <;> (try split at hd) <;>
          (try (obtain ⟨_, hd⟩ := hd)) <;> (try subst hd) <;> rfl
      rw [pc_congr hws]; exact hoi
  | w k a =>
    obtain ⟨p, q, ⟨hi, hpci, hn, _, _⟩, rfl⟩ := w_facts (step_w hs)
    rw [pc_after hi i]
    by_cases hik : i = k
    · rw [if_pos hik]
      rw [hik, hpci] at hoi
      have htbl := tbl_wrank hn
      by_cases hcb : a = .connectBegin
      · subst hcb
        have hpq : p = .ready ∧ q = .connecting := by
          cases p <;> simp [wNext] at hn
          exact ⟨rfl, hn.symm⟩
        obtain ⟨rfl, rfl⟩ := hpq
        simp [wrank] at hoi ⊢
        rw [hik, hoi]; simp
      · have hne : (Label.w k a = Label.w i .connectBegin) = False := by
          simp only [eq_iff_iff, iff_false]; intro hc; cases hc; exact hcb rfl
        simp only [hne, if_false, Nat.add_zero]
        have hmono : (if wrank p ≤ 14 then 1 else 0) ≤ (if wrank q ≤ 14 then 1 else 0) := by
          by_cases h14 : wrank p ≤ 14
          · have : wrank q ≤ 14 := by split at htbl <;> omega
            rw [if_pos h14, if_pos this]; exact Nat.le_refl 1
          · rw [if_neg h14]; exact Nat.zero_le _
        rw [hik]; exact Nat.le_trans hoi hmono
    · rw [if_neg hik]
      have hne : (Label.w k a = Label.w i .connectBegin) = False := by
        simp only [eq_iff_iff, iff_false]; intro hc; cases hc; exact hik rfl
      simp only [hne, if_false, Nat.add_zero]; exact hoi

theorem oinv_exec {s0 s : St} {ls : List Label} (h0 : Inv s0) (he : Exec s0 ls s)
    (hidle : ∀ i, pc s0 i = .idle) : OInv ls s := by
  induction he with
  | nil => intro i; rw [hidle i]; simp [wrank]
  | snoc he' hs ih => exact oinv_step (inv_exec h0 he').f ih hs

end PdshVerif.Dsh.Sig
