import PdshVerif.Dsh.FanGBound

/-! # Progress (no lost wake-up) and the rank (termination) of the fan-out LTS -/
namespace PdshVerif.Dsh.FanG

/-! ## progress -/

/-- a worker that is counted or holds the mutex exists, and the dispatcher does not hold the mutex:
    then some worker operation is enabled -/
theorem worker_can_move {s : St} (h : Inv s) (hnd : s.own ≠ .d)
    (hex : ∃ j, counted (pc s j) = true ∨ holdsW (pc s j) = true ∨ isReleased (pc s j) = true) :
    ∃ j a, (step s (.w j a)).isSome = true := by
  -- a worker that holds the mutex can always move
  have holder : ∀ k, holdsW (pc s k) = true → ∃ j a, (step s (.w j a)).isSome = true := by
    intro k hk
    cases hp : pc s k <;> rw [hp] at hk <;> simp [holdsW] at hk
    · exact ⟨k, .signal, by simp [step, getElem?_of_getD hp (by simp), WAct.pre]⟩
    · exact ⟨k, .unlock, by simp [step, getElem?_of_getD hp (by simp), WAct.pre]⟩
  obtain ⟨j, hj⟩ := hex
  rcases hj with hj | hj | hj
  · cases hp : pc s j <;> rw [hp] at hj <;> simp [counted] at hj
    · exact ⟨j, .connectBegin, by simp [step, getElem?_of_getD hp (by simp), WAct.pre]⟩
    · exact ⟨j, .connectEnd, by simp [step, getElem?_of_getD hp (by simp), WAct.pre]⟩
    · exact ⟨j, .destroyBegin, by simp [step, getElem?_of_getD hp (by simp), WAct.pre]⟩
    · exact ⟨j, .destroyEnd, by simp [step, getElem?_of_getD hp (by simp), WAct.pre]⟩
    · -- torn: needs the mutex
      cases ho : s.own with
      | none => exact ⟨j, .lock, by simp [step, getElem?_of_getD hp (by simp), WAct.pre, ho]⟩
      | d => exact absurd ho hnd
      | w k => exact holder k ((h.ownW k).mp ho)
  · exact holder j hj
  · -- released: the late wake-up call is always possible
    cases hp : pc s j <;> rw [hp] at hj <;> simp [isReleased] at hj
    exact ⟨j, .signalAfter, by simp [step, getElem?_of_getD hp (by simp), WAct.pre]⟩

/-- the mutex is free or a worker can move -/
theorem free_or_worker {s : St} (h : Inv s) (hnd : s.dpc.holds = false) :
    s.own = .none ∨ ∃ j a, (step s (.w j a)).isSome = true := by
  cases ho : s.own with
  | none => exact Or.inl rfl
  | d => have := h.ownD.mp ho; rw [hnd] at this; cases this
  | w k =>
    right
    exact worker_can_move h (by rw [ho]; intro hc; cases hc) ⟨k, Or.inr (Or.inl ((h.ownW k).mp ho))⟩

theorem progress_inv {s : St} (h : Inv s) (hf : 0 < s.f) (hnf : s.dpc ≠ .returned) :
    ∃ l, l.spurious = false ∧ (step s l).isSome = true := by
  have lift : (∃ j a, (step s (.w j a)).isSome = true) → ∃ l, l.spurious = false ∧ (step s l).isSome = true := by
    rintro ⟨j, a, hja⟩; exact ⟨.w j a, rfl, hja⟩
  have hnd_of : s.dpc.holds = false → s.own ≠ .d := by
    intro hh hc; have := h.ownD.mp hc; rw [hh] at this; cases this
  cases hd : s.dpc with
  | top =>
    rcases free_or_worker h (by rw [hd]; rfl) with ho | hw
    · exact ⟨.d .lock, rfl, by simp [step, hd, ho]⟩
    · exact lift hw
  | wait => exact ⟨.d .wait, rfl, by simp [step, hd]⟩
  | parked =>
    cases hsg : s.sig with
    | true => exact ⟨.d (.wake false), rfl, by simp [step, hd, hsg]⟩
    | false =>
      have hp := h.park hd hsg
      apply lift
      apply worker_can_move h (hnd_of (by rw [hd]; rfl))
      by_cases hl : 0 < s.ws.countP isLocked
      · obtain ⟨j, hj, _⟩ := exists_of_countP_pos isLocked hl
        refine ⟨j, Or.inr (Or.inl ?_)⟩
        show holdsW (s.ws.getD j .idle) = true
        revert hj; cases s.ws.getD j .idle <;> simp [isLocked, holdsW]
      · by_cases hr : 0 < s.ws.countP isReleased
        · obtain ⟨j, hj, _⟩ := exists_of_countP_pos isReleased hr
          exact ⟨j, Or.inr (Or.inr hj)⟩
        · have hc : 0 < s.ws.countP counted := by rw [← h.cnt]; omega
          obtain ⟨j, hj, _⟩ := exists_of_countP_pos counted hc
          exact ⟨j, Or.inl hj⟩
  | woken =>
    rcases free_or_worker h (by rw [hd]; rfl) with ho | hw
    · refine ⟨.d .relock, rfl, ?_⟩
      simp only [step, hd, ho]; cases s.v <;> simp
    · exact lift hw
  | create =>
    have := h.disp (by rw [hd]; rfl)
    exact ⟨.d (.create s.i), rfl, by simp [step, hd, this]⟩
  | unlock => exact ⟨.d .unlock, rfl, by simp [step, hd]⟩
  | dtop =>
    rcases free_or_worker h (by rw [hd]; rfl) with ho | hw
    · exact ⟨.d .lock, rfl, by simp [step, hd, ho]⟩
    · exact lift hw
  | dwait => exact ⟨.d .wait, rfl, by simp [step, hd]⟩
  | dparked =>
    cases hsg : s.sig with
    | true => exact ⟨.d (.wake false), rfl, by simp [step, hd, hsg]⟩
    | false =>
      have hp := h.dpark hd hsg
      apply lift
      apply worker_can_move h (hnd_of (by rw [hd]; rfl))
      by_cases hl : 0 < s.ws.countP isLocked
      · obtain ⟨j, hj, _⟩ := exists_of_countP_pos isLocked hl
        refine ⟨j, Or.inr (Or.inl ?_)⟩
        show holdsW (s.ws.getD j .idle) = true
        revert hj; cases s.ws.getD j .idle <;> simp [isLocked, holdsW]
      · by_cases hr : 0 < s.ws.countP isReleased
        · obtain ⟨j, hj, _⟩ := exists_of_countP_pos isReleased hr
          exact ⟨j, Or.inr (Or.inr hj)⟩
        · have hc : 0 < s.ws.countP counted := by rw [← h.cnt]; omega
          obtain ⟨j, hj, _⟩ := exists_of_countP_pos counted hc
          exact ⟨j, Or.inl hj⟩
  | dwoken =>
    rcases free_or_worker h (by rw [hd]; rfl) with ho | hw
    · exact ⟨.d .relock, rfl, by simp [step, hd, ho]⟩
    · exact lift hw
  | dunlock => exact ⟨.d .unlock, rfl, by simp [step, hd]⟩
  | finishing => exact ⟨.d .ret, rfl, by simp [step, hd]⟩
  | returned => exact absurd hd hnf

/-- an enabled non-spurious label shows up in the enabled *sets* the acceptor compares with the
    harness's runnable set -/
theorem enabled_of_step {s : St} {l : Label} (hsp : l.spurious = false) (h : (step s l).isSome = true) :
    match l with
    | .d _ => dEnabled s = true
    | .w i _ => wEnabled s i = true ∧ i < s.ws.length := by
  cases l with
  | d a =>
    simp only [dEnabled, List.any_eq_true]
    refine ⟨a, ?_, h⟩
    cases a with
    | create j =>
      have hj : j = s.i := by
        simp only [step] at h
        split at h
        · split at h
          · rename_i hc; exact hc.1
          · simp at h
        · simp at h
      subst hj; simp [dActs]
    | wake sp =>
      cases sp with
      | false => simp [dActs]
      | true => simp [Label.spurious] at hsp
    | lock | wait | relock | unlock | ret => simp [dActs]
  | w i a =>
    refine ⟨?_, ?_⟩
    · simp only [wEnabled, List.any_eq_true]
      exact ⟨a, by cases a <;> simp [wActs], h⟩
    · cases hs : step s (.w i a) with
      | none => rw [hs] at h; cases h
      | some s' => exact lt_of_getElem? (w_step_facts hs).1

/-! ## rank: remaining work, with a credit of 3 for a pending signal and 4 for a signal to come -/

def wrank : W → Nat
  | .idle => 11 | .started => 10 | .connecting => 9 | .connected => 8 | .tearing => 7
  | .torn => 6 | .locked => 5 | .signaled => 1 | .released => 4 | .done => 0

def drank (s : St) : Nat :=
  match s.dpc with
  | .top => 7 * (s.ws.length - s.i) + 7 + 6
  | .woken => 7 * (s.ws.length - s.i) + 7 + 5
  | .wait => 7 * (s.ws.length - s.i) + 7 + 4
  | .parked => 7 * (s.ws.length - s.i) + 7 + 3
  | .create => 7 * (s.ws.length - s.i) + 7 + 1
  | .unlock => 7 * (s.ws.length - s.i) + 7
  | .dtop => 6 | .dwoken => 5 | .dwait => 4 | .dparked => 3 | .dunlock => 2 | .finishing => 1 | .returned => 0

def rank (s : St) : Nat := drank s + (if s.sig then 3 else 0) + (s.ws.map wrank).sum

theorem rank_step {s s' : St} {l : Label} (h : Inv s) (hs : step s l = some s') :
    (l.spurious = false → rank s' < rank s) ∧ rank s' ≤ rank s + 2 := by
  cases l with
  | d a =>
    cases a with
    | lock =>
      simp only [step] at hs
      split at hs
      · simp only [Option.some.injEq, roomTest] at hs
        split at hs <;> subst hs <;> simp_all [rank, drank, Label.spurious] <;> omega
      · simp only [Option.some.injEq, drainTest] at hs
        split at hs <;> subst hs <;> simp_all [rank, drank, Label.spurious] <;> omega
      · simp at hs
    | wait =>
      simp only [step] at hs
      split at hs <;> simp at hs <;> subst hs <;> simp_all [rank, drank, Label.spurious] <;>
        (cases s.sig <;> simp <;> omega)
    | wake sp =>
      simp only [step] at hs
      split at hs <;> (try split at hs) <;> simp at hs <;> subst hs <;>
        simp_all [rank, drank, Label.spurious] <;>
        (cases hsg : s.sig <;> simp_all <;> omega)
    | relock =>
      simp only [step] at hs
      split at hs
      · split at hs
        · simp only [Option.some.injEq] at hs; subst hs
          simp_all [rank, drank, Label.spurious]; omega
        · simp only [Option.some.injEq, roomTest] at hs
          split at hs <;> subst hs <;> simp_all [rank, drank, Label.spurious] <;> omega
      · simp only [Option.some.injEq, drainTest] at hs
        split at hs <;> subst hs <;> simp_all [rank, drank, Label.spurious] <;> omega
      · simp at hs
    | create j =>
      simp only [step] at hs
      split at hs <;> simp at hs
      rename_i hd
      obtain ⟨⟨_, hlt⟩, hs⟩ := hs
      subst hs
      have hidle : pc s s.i = .idle := (h.front s.i).mpr (by simp [frontier, hd])
      have hg : s.ws[s.i]? = some W.idle := by
        rw [List.getElem?_eq_getElem hlt]
        simp only [pc, List.getD_eq_getElem?_getD, List.getElem?_eq_getElem hlt] at hidle
        simpa using hidle
      have hsum := sum_map_set wrank (b := W.started) hg
      simp only [rank, drank, hd, Label.spurious, List.length_set]
      simp only [wrank] at hsum
      constructor
      · intro _; omega
      · omega
    | unlock =>
      simp only [step] at hs
      split at hs <;> simp at hs <;> subst hs
      · rename_i hd
        by_cases hlt : s.i + 1 < s.ws.length
        · simp [rank, drank, hd, hlt, Label.spurious]; omega
        · simp [rank, drank, hd, hlt, Label.spurious]; omega
      · simp_all [rank, drank, Label.spurious]; omega
    | ret =>
      simp only [step] at hs
      split at hs <;> simp at hs <;> subst hs <;> simp_all [rank, drank, Label.spurious] <;> omega
  | w i a =>
    obtain ⟨hpre, _, rfl⟩ := w_step_facts hs
    have hsum := sum_map_set wrank (b := a.post) hpre
    have hd : drank (wEffect i { s with ws := s.ws.set i a.post } a) = drank s := by
      cases a <;> simp [wEffect, drank]
    have hws : (wEffect i { s with ws := s.ws.set i a.post } a).ws = s.ws.set i a.post := by cases a <;> rfl
    simp only [rank, hd, hws, Label.spurious]
    cases a <;> simp [wEffect, WAct.pre, WAct.post, wrank] at hsum ⊢ <;>
      (cases s.sig <;> cases s.dpc.isParked <;> simp <;> omega)

end PdshVerif.Dsh.FanG
