import PdshVerif.Dsh.SignalsStepS
import PdshVerif.Dsh.FanExec

/-! # Projection of the signal-extended LTS onto the fan-out LTS `Dsh/Fan.lean`

As long as `_cancel_pending_threads` has not run, a run of the signal-extended system *is* a run of the Fan
LTS with stutter steps: forget thd_mutex, `t[i].state`, the signals thread and the environment; map the worker's
finer program counters onto Fan's.  So every theorem of Props/C03.lean and Props/C04.lean about `Fan.Exec`
holds of the cancel-free runs of the extended system — in particular of all runs in which no signal arrives,
and of all runs in which interrupts only report. -/
namespace PdshVerif.Dsh.Sig
open PdshVerif.Dsh.Fan (Variant DPC)

def projW : WP → Fan.W
  | .idle => .idle
  | .started | .rcmdL | .skipL | .ready => .started
  | .connecting => .connecting
  | .connOk | .connFail | .updT | .updL | .reading | .closing | .resL | .flushed => .connected
  | .tearing => .tearing
  | .torn => .torn
  | .locked => .locked
  | .signaled => .signaled
  | .done => .done

def projOwn : Own → Fan.Owner
  | .none => .none
  | .d => .d
  | .w i => .w i
  | .s => .none
  | .g => .none

def proj (s : St) : Fan.St :=
  { v := s.v, f := s.f, i := s.i, dpc := s.dpc, tc := s.tc, own := projOwn s.own, sig := s.sig, ws := s.ws.map projW }

def projWAct : WAct → Option Fan.WAct
  | .lockT | .time | .unlockT | .lockTF => none
  | .connectBegin => some .connectBegin
  | .connectEnd _ => some .connectEnd
  | .destroyBegin => some .destroyBegin
  | .destroyEnd => some .destroyEnd
  | .lock => some .lock
  | .signal => some .signal
  | .unlock => some .unlock

def projL : Label → Option Fan.Label
  | .d .createS | .d .cancelS | .d .createG | .d .cancelG | .d .joinG => none
  | .d .lock => some (.d .lock)
  | .d .wait => some (.d .wait)
  | .d (.wake sp) => some (.d (.wake sp))
  | .d .relock => some (.d .relock)
  | .d (.create j) => some (.d (.create j))
  | .d .unlock => some (.d .unlock)
  | .d .ret => some (.d .ret)
  | .w i a => (projWAct a).map (.w i)
  | .s _ => none
  | .e _ => none
  | .g _ => none

/-- `_cancel_pending_threads` has not run: no slot is CANCELED, the signals thread does not hold threadcount_mutex -/
structure NoCancel (s : St) : Prop where
  ts : ∀ j, tsAt s j ≠ .canceled
  own : s.own ≠ .s

theorem proj_init (v g sw f n b t0) : proj (init v g sw f n b t0) = Fan.init v f n := by
  simp [proj, init, Fan.init, projOwn, projW]

theorem skipRun_none : ∀ (l : List TS), (∀ k, l.getD k .new ≠ .canceled) → skipRun l = 0
  | [], _ => rfl
  | t :: r, h => by
      have := h 0
      simp at this
      simp [skipRun, this]

theorem skip_none {s : St} (h : NoCancel s) (i : Nat) : skip s.ts i = i := by
  have : skipRun (s.ts.drop i) = 0 := skipRun_none _ (fun k => by rw [getD_drop]; exact h.ts (i + k))
  simp [skip, this]

/-- the table behind the projection of a worker move -/
theorem tbl_proj {g : Bool} {a : WAct} {p q : WP} {c : Bool} (h : wNext g a p c = some q) (hp : p ≠ .skipL) :
    match projWAct a with
    | none => projW q = projW p
    | some a' => projW p = a'.pre ∧ projW q = a'.post := by
  cases g <;> cases c <;> cases a <;> (try (rename_i ok; cases ok)) <;> cases p <;> (try (exact absurd rfl hp)) <;>
    simp [wNext] at h <;> (try subst h) <;> simp [projWAct, projW, Fan.WAct.pre, Fan.WAct.post]

theorem nocancel_step {s s' : St} {l : Label} (ht : TInv s) (h : NoCancel s) (hl : l ≠ .s .lock)
    (hs : step s l = some s') : NoCancel s' := by
  cases l with
  | g a => rw [g_step_frame (step_wd hs)]; exact ⟨h.ts, h.own⟩
  | e a =>
    obtain ⟨_, hts, _, _, _, _, _, hown, _, _⟩ := e_step_frame (step_e hs)
    exact ⟨fun j => by rw [tsAt_congr hts]; exact h.ts j, by rw [hown]; exact h.own⟩
  | d a =>
    have hd := step_d hs
    have hfr : s'.ts = s.ts ∧ (s'.own = s.own ∨ s'.own = .none ∨ s'.own = .d) := by
      cases a <;> simp only [dStep] at hd <;> (try split at hd) <;> (try split at hd) <;>
        simp [roomTest, drainTest] at hd <;> (try split at hd) <;>
        (try (obtain ⟨_, hd⟩ := hd)) <;> (try subst hd) <;> simp_all
    refine ⟨fun j => by rw [tsAt_congr hfr.1]; exact h.ts j, ?_⟩
    rcases hfr.2 with h1 | h1 | h1 <;> rw [h1]
    · exact h.own
    · simp
    · simp
  | w i a =>
    obtain ⟨p, q, ⟨hi, hpci, hn, _, _⟩, rfl⟩ := w_facts (step_w hs)
    refine ⟨fun j => ?_, ?_⟩
    · rw [tsAt_after (by rw [ht.len]; exact hi)]
      split
      · have := h.ts i
        cases a <;> cases p <;> simp [wNext] at hn <;> simp [wWrite, this]
      · exact h.ts j
    · cases a <;> simp [wEffect] <;> exact h.own
  | s a =>
    have hd := step_s hs
    obtain ⟨_, _, _, _, _, _, hts⟩ := s_step_frame hd
    have hts' : s'.ts = s.ts := by
      rcases hts with h1 | ⟨h1, _⟩
      · exact h1
      · subst h1; exact absurd rfl hl
    refine ⟨fun j => by rw [tsAt_congr hts']; exact h.ts j, ?_⟩
    have : s'.own = s.own ∨ s'.own = .none := by
      cases a <;> simp only [sStep] at hd <;> (try split at hd) <;> (try split at hd) <;> (try split at hd) <;>
        simp at hd <;> (try (obtain ⟨_, hd⟩ := hd)) <;> (try subst hd) <;> simp_all
    rcases this with h1 | h1 <;> rw [h1]
    · exact h.own
    · simp

theorem projOwn_none {o : Own} (h : o ≠ .s) (hg : o ≠ .g) : projOwn o = .none ↔ o = .none := by
  cases o <;> simp_all [projOwn]

/-- one step of the extended system, seen through the projection: a step of the Fan LTS, or nothing -/
theorem proj_step {s s' : St} {l : Label} (hinv : Inv s) (hnc : NoCancel s) (hs : step s l = some s') :
    match projL l with
    | some l' => Fan.step (proj s) l' = some (proj s')
    | none => proj s' = proj s := by
  cases l with
  | g a => rw [g_step_frame (step_wd hs)]; simp only [projL]; rfl
  | e a =>
    obtain ⟨hws, _, htc, hdpc, hi, hsig, hf, hown, _, _⟩ := e_step_frame (step_e hs)
    have hv : s'.v = s.v := (step_params hs).1
    simp only [projL, proj, hws, htc, hdpc, hi, hsig, hf, hown, hv]
  | s a =>
    have hd := step_s hs
    obtain ⟨hws, htc, hdpc, hi, hsig, hf, _⟩ := s_step_frame hd
    have hv : s'.v = s.v := (step_params hs).1
    have hcu : s.spc ≠ .cancUnlock := fun hc => hnc.own (hinv.m.ownS1 hc)
    have hown : projOwn s'.own = projOwn s.own := by
      cases a <;> simp only [sStep] at hd <;> (try split at hd) <;> (try split at hd) <;> (try split at hd) <;>
        simp at hd <;> (try (obtain ⟨_, hd⟩ := hd)) <;> (try subst hd) <;> simp_all [projOwn]
    simp only [projL, proj, hws, htc, hdpc, hi, hsig, hf, hown, hv]
  | w i a =>
    obtain ⟨p, q, ⟨hi, hpci, hn, hgT, hgO⟩, rfl⟩ := w_facts (step_w hs)
    have hget : s.ws[i]? = some p := getElem?_of_getD_lt hi hpci
    have hnsk : p ≠ .skipL := by
      intro hc
      have := hinv.t.ok i
      rw [hpci, hc] at this
      exact hnc.ts i (by simpa [okTS] using this)
    have htbl := tbl_proj hn hnsk
    have hmap : (s.ws.set i q).map projW = (s.ws.map projW).set i (projW q) := by simp [List.map_set]
    simp only [projL]
    cases ha : projWAct a with
    | none =>
      rw [ha] at htbl
      simp only [Option.map_none]
      obtain ⟨_, hgi⟩ := List.getElem?_eq_some_iff.mp hget
      have hself : (s.ws.map projW).set i (projW q) = s.ws.map projW := by
        rw [htbl]
        apply List.ext_getElem?
        intro k
        rw [List.getElem?_set]
        split
        · rename_i hk; subst hk
          simp [hi, hgi]
        · rfl
      cases a <;> simp [projWAct] at ha
      all_goals (simp only [proj, wEffect]; rw [hmap, hself])
    | some a' =>
      rw [ha] at htbl
      obtain ⟨hpre, hpost⟩ := htbl
      simp only [Option.map_some]
      have hg : (s.ws.map projW)[i]? = some a'.pre := by simp [hget, hpre]
      have hlk : a' = .lock → projOwn s.own = .none := by
        intro hc
        have : a = .lock := by cases a <;> simp [projWAct] at ha <;> subst ha <;> first | rfl | cases hc
        rw [hgO this]; rfl
      have hgl : (proj s).ws[i]? = some a'.pre ∧ (a' = .lock → (proj s).own = .none) := ⟨hg, hlk⟩
      simp only [Fan.step]
      rw [if_pos hgl]
      cases a <;> simp [projWAct] at ha <;> subst ha <;>
        simp only [proj, wEffect, Fan.wEffect, projOwn, hmap, hpost]
  | d a =>
    have hd := step_d hs
    cases a with
    | createG => rw [d_wd_frame (Or.inl rfl) hd]; simp only [projL]; rfl
    | cancelG => rw [d_wd_frame (Or.inr (Or.inl rfl)) hd]; simp only [projL]; rfl
    | joinG => rw [d_wd_frame (Or.inr (Or.inr rfl)) hd]; simp only [projL]; rfl
    | createS =>
      simp only [dStep] at hd
      split at hd <;> (try split at hd) <;> simp at hd; subst hd
      simp [projL, proj]
    | cancelS =>
      simp only [dStep] at hd
      split at hd <;> (try split at hd) <;> simp at hd; subst hd
      simp [projL, proj]
    | lock =>
      simp only [dStep] at hd
      simp only [projL, Fan.step, proj]
      split at hd
      · rename_i hdp ho
        split at hd
        · simp at hd
        · simp only [Option.some.injEq] at hd; subst hd
          simp only [hdp, ho, projOwn, roomTest, Fan.roomTest]
          split <;> simp
      · rename_i hdp ho
        split at hd
        · simp at hd
        · simp only [Option.some.injEq] at hd; subst hd
          simp only [hdp, ho, projOwn, drainTest, Fan.drainTest]
          split <;> simp
      · simp at hd
    | wait =>
      simp only [dStep] at hd
      simp only [projL, Fan.step, proj]
      split at hd <;> simp at hd <;> subst hd <;> rename_i hdp <;> simp [hdp, projOwn]
    | wake sp =>
      simp only [dStep] at hd
      simp only [projL, Fan.step, proj]
      split at hd <;> (try split at hd) <;> simp at hd <;> subst hd <;> rename_i hdp hsg <;>
        simp [hdp] <;> simpa using hsg
    | relock =>
      simp only [dStep] at hd
      simp only [projL, Fan.step, proj]
      split at hd
      · rename_i hdp ho
        split at hd
        · rename_i hv
          simp only [Option.some.injEq] at hd; subst hd
          simp [hdp, ho, hv, projOwn]
        · rename_i hv
          simp only [Option.some.injEq] at hd; subst hd
          simp only [hdp, ho, hv, projOwn, roomTest, Fan.roomTest]
          split <;> simp
      · rename_i hdp ho
        simp only [Option.some.injEq] at hd; subst hd
        simp only [hdp, ho, projOwn, drainTest, Fan.drainTest]
        split <;> simp
      · simp at hd
    | create j =>
      simp only [dStep] at hd
      split at hd <;> simp at hd
      rename_i hdp
      obtain ⟨⟨hj, hlt⟩, hd⟩ := hd
      subst hd
      rw [skip_none hnc] at hj
      subst hj
      simp only [projL, Fan.step, proj, hdp]
      rw [if_pos ⟨trivial, by simpa using hlt⟩, List.map_set]
      rfl
    | unlock =>
      simp only [dStep] at hd
      simp only [projL, Fan.step, proj]
      split at hd
      · rename_i hdp
        simp only [Option.some.injEq] at hd; subst hd
        simp [hdp, projOwn]
      · rename_i hdp
        split at hd <;> simp at hd
        rename_i hsk
        -- the break out of the dispatch loop needs a canceled slot: impossible here
        exfalso
        rw [skip_none hnc] at hsk
        have := hinv.f.disp (by rw [hdp]; rfl)
        omega
      · rename_i hdp
        simp only [Option.some.injEq] at hd; subst hd
        simp [hdp, projOwn]
      · simp at hd
    | ret =>
      simp only [dStep] at hd
      simp only [projL, Fan.step, proj]
      split at hd <;> (try split at hd) <;> simp at hd; subst hd
      rename_i hdp _
      simp [hdp]

/-- a cancel-free run of the extended system projects to a run of the Fan LTS -/
theorem proj_exec {v : Variant} {g sw : Bool} {f n t0 : Nat} {b : Bool} {ls : List Label} {s : St}
    (he : Exec (init v g sw f n b t0) ls s) (hl : ∀ l ∈ ls, l ≠ .s .lock) :
    Fan.Exec (Fan.init v f n) (ls.filterMap projL) (proj s) ∧ NoCancel s := by
  induction he with
  | nil =>
    rw [proj_init]
    exact ⟨Fan.Exec.nil, ⟨fun j => by rw [tsAt_init]; simp, by simp [init]⟩⟩
  | snoc he' hs ih =>
    rename_i ls0 s1 l s2
    obtain ⟨ihe, ihn⟩ := ih (fun l hl' => hl l (by simp [hl']))
    have hinv := inv_exec (inv_init v g sw f n b t0) he'
    have hnc := nocancel_step hinv.t ihn (hl l (by simp)) hs
    refine ⟨?_, hnc⟩
    have hp := proj_step hinv ihn hs
    rw [List.filterMap_append]
    cases hpl : projL l with
    | none =>
      rw [hpl] at hp
      simp only [List.filterMap_cons, hpl, List.filterMap_nil, List.append_nil]
      rw [hp]; exact ihe
    | some l' =>
      rw [hpl] at hp
      simp only [List.filterMap_cons, hpl, List.filterMap_nil]
      exact Fan.Exec.snoc ihe hp

end PdshVerif.Dsh.Sig
