import PdshVerif.Dsh.FanG

/-! # Executions: relation `Exec` vs. the acceptor's fold `run` -/
namespace PdshVerif.Dsh.FanG

theorem exec_cons {s0 s1 s : St} {l : Label} {ls : List Label} (hs : step s0 l = some s1) (he : Exec s1 ls s) :
    Exec s0 (l :: ls) s := by
  induction he with
  | nil => exact Exec.snoc (ls := []) Exec.nil hs
  | snoc _ hs' ih => exact Exec.snoc ih hs'

/-- what the compiled acceptor accepts is an execution of the LTS -/
theorem exec_of_run : ∀ {ls : List Label} {s0 s : St}, run s0 ls = some s → Exec s0 ls s
  | [], s0, s, h => by simp [run] at h; subst h; exact Exec.nil
  | l :: ls, s0, s, h => by
      simp only [run] at h
      cases hs : step s0 l with
      | none => rw [hs] at h; simp at h
      | some s1 => rw [hs] at h; exact exec_cons hs (exec_of_run (by simpa using h))

theorem exec_snoc_inv {s0 s : St} {ls : List Label} {l : Label} (he : Exec s0 (ls ++ [l]) s) :
    ∃ s1, Exec s0 ls s1 ∧ step s1 l = some s := by
  generalize hm : ls ++ [l] = m at he
  cases he with
  | nil => simp at hm
  | snoc he0 hs =>
    rename_i ls0 s1 l0
    have h := List.append_inj' hm rfl
    obtain ⟨h1, h2⟩ := h
    simp at h2
    subst h1 h2
    exact ⟨s1, he0, hs⟩

end PdshVerif.Dsh.FanG
