import PdshVerif.Dsh.SignalsBase
import PdshVerif.Dsh.FanInv

/-! # Invariants of the signal-extended LTS: definitions and the initial state

Three groups: `MInv` (who holds which mutex), `TInv` (a worker's program counter vs. its slot's
`t[i].state`), `FInv` (the fan-out bookkeeping of `Dsh/FanInv.lean`, adapted to canceled slots). -/
namespace PdshVerif.Dsh.Sig
open PdshVerif.Dsh.Fan (Variant DPC)

/-- counted in `threadcount`: created and not yet decremented -/
def counted : WP → Bool
  | .idle | .locked | .signaled | .done => false
  | _ => true

/-- holds threadcount_mutex -/
def holdsW : WP → Bool
  | .locked | .signaled => true
  | _ => false

def isLocked : WP → Bool
  | .locked => true
  | _ => false

/-- holds thd_mutex -/
def holdsT : WP → Bool
  | .rcmdL | .skipL | .updT | .updL | .resL => true
  | _ => false

def SPC.holdsT : SPC → Bool
  | .listing _ | .fwding _ => true
  | _ => false

/-- which `t[i].state` a worker at a given program counter can find in its slot -/
def okTS : WP → TS → Bool
  | .idle, t | .started, t => t == .new || t == .canceled
  | .rcmdL, t | .ready, t | .connecting, t | .connOk, t | .connFail, t | .updT, t => t == .rcmd || t == .canceled
  | .updL, t => t == .reading || t == .canceled
  | .reading, t => t == .reading
  | .closing, t | .skipL, t => t == .canceled
  | .resL, t | .flushed, t | .tearing, t => t == .done || t == .failed
  -- torn, locked, signaled, done: the epilogue; a repaired worker that skipped the connect arrives there CANCELED
  | _, t => t == .done || t == .failed || t == .canceled

def frontier (s : St) : Nat := if s.dpc = .unlock then s.i + 1 else s.i

structure MInv (s : St) : Prop where
  ownD : s.own = .d ↔ s.dpc.holds = true
  ownW : ∀ j, s.own = .w j ↔ holdsW (pc s j) = true
  ownS1 : s.spc = .cancUnlock → s.own = .s
  ownS2 : s.own = .s → s.spc = .cancUnlock ∨ s.spc = .cancelled
  thdD : s.thd ≠ .d
  thdW : ∀ j, s.thd = .w j ↔ holdsT (pc s j) = true
  thdS1 : s.spc.holdsT = true → s.thd = .s
  thdS2 : s.thd = .s → s.spc.holdsT = true ∨ s.spc = .cancelled
  canc : s.spc = .cancelled → s.dpc = .finishing ∨ s.dpc = .returned

structure TInv (s : St) : Prop where
  len : s.ts.length = s.ws.length
  ok : ∀ j, okTS (pc s j) (tsAt s j) = true

structure FInv (s : St) : Prop where
  cnt : s.tc = s.ws.countP counted
  front1 : ∀ j, frontier s ≤ j → pc s j = .idle
  front2 : ∀ j, j < frontier s → pc s j = .idle → tsAt s j = .canceled
  disp : s.dpc.dispatching = true → s.i < s.ws.length
  drain : s.dpc.dispatching = false → s.i = s.ws.length
  waitEq : s.dpc = .wait → s.tc = s.f
  dwaitPos : s.dpc = .dwait → 0 < s.tc
  fin : s.dpc.finished = true → ∀ j, j < s.ws.length → pc s j = .done ∨ pc s j = .idle
  park : s.dpc = .parked → s.sig = false → s.tc + s.ws.countP isLocked = s.f
  dpark : s.dpc = .dparked → s.sig = false → 0 < s.tc + s.ws.countP isLocked

def GPC.holds : GPC → Bool
  | .inside _ => true
  | _ => false

/-- the watchdog (only with the STALEID repair, `sw`): who holds thd_mutex, and the shutdown order -/
structure GInv (s : St) : Prop where
  thdG1 : s.gpc.holds = true → s.thd = .g
  thdG2 : s.thd = .g → s.gpc.holds = true
  ownG : s.own ≠ .g
  noSw : s.sw = false → s.gpc = .off ∧ s.gcan = false ∧ s.gjoin = false
  can : s.gcan = true → s.gpc ≠ .sleeping ∧ s.gpc ≠ .off ∧ (s.dpc = .finishing ∨ s.dpc = .returned)
  join : s.gjoin = true → s.gcan = true ∧ s.gpc = .ended
  ended : s.gpc = .ended → s.gcan = true
  off : s.sw = true → s.gpc = .off → s.spc = .off
  idx : ∀ k, s.gpc = .at k ∨ s.gpc = .inside k → k < s.ts.length
  scanc : s.spc = .cancelled → s.sw = true → s.gjoin = true
  soff : s.spc = .off → s.dpc = .top ∨ s.dpc = .dtop

/-- the cancellation request for the signals thread (deferred): when it is made, what it waits for, and that dsh()
    with the repaired shutdown returns only after the thread has ended -/
structure CInv (s : St) : Prop where
  fin : s.scan = true → s.dpc = .finishing ∨ s.dpc = .returned
  joined : s.scan = true → s.sw = true → s.gjoin = true
  cs : s.spc = .cancelled → s.scan = true
  ret : s.dpc = .returned → s.scan = true ∧ (s.sw = true → s.spc = .cancelled)

structure Inv (s : St) : Prop where
  m : MInv s
  t : TInv s
  f : FInv s
  w : GInv s
  c : CInv s

theorem pc_init (v g sw f n b t0 j) : pc (init v g sw f n b t0) j = .idle := by
  simp [pc, init, List.getD_eq_getElem?_getD, List.getElem?_replicate]
  split <;> rfl

theorem tsAt_init (v g sw f n b t0 j) : tsAt (init v g sw f n b t0) j = .new := by
  simp [tsAt, init, List.getD_eq_getElem?_getD, List.getElem?_replicate]
  split <;> rfl

theorem countP_replicate_idle (p : WP → Bool) (hp : p .idle = false) (n : Nat) :
    (List.replicate n WP.idle).countP p = 0 := by
  rw [List.countP_eq_zero]; intro a ha; rw [List.eq_of_mem_replicate ha, hp]; simp

theorem minv_init (v : Variant) (g sw : Bool) (f n : Nat) (b : Bool) (t0 : Nat) : MInv (init v g sw f n b t0) := by
  have hpc := pc_init v g sw f n b t0
  refine { ownD := ?_, ownW := ?_, ownS1 := ?_, ownS2 := ?_, thdD := ?_, thdW := ?_, thdS1 := ?_, thdS2 := ?_,
           canc := ?_ }
  · simp only [init]; split <;> simp [DPC.holds]
  · intro j; rw [hpc]; simp [init, holdsW]
  · simp [init]
  · simp [init]
  · simp [init]
  · intro j; rw [hpc]; simp [init, holdsT]
  · simp [init, SPC.holdsT]
  · simp [init]
  · simp [init]

theorem tinv_init (v : Variant) (g sw : Bool) (f n : Nat) (b : Bool) (t0 : Nat) : TInv (init v g sw f n b t0) := by
  refine { len := by simp [init], ok := ?_ }
  intro j; rw [pc_init, tsAt_init]; rfl

theorem finv_init (v : Variant) (g sw : Bool) (f n : Nat) (b : Bool) (t0 : Nat) : FInv (init v g sw f n b t0) := by
  have hpc := pc_init v g sw f n b t0
  refine { cnt := ?_, front1 := ?_, front2 := ?_, disp := ?_, drain := ?_, waitEq := ?_, dwaitPos := ?_,
           fin := ?_, park := ?_, dpark := ?_ }
  · simp [init, countP_replicate_idle counted rfl]
  · intro j _; exact hpc j
  · intro j hj; simp only [init, frontier] at hj; split at hj <;> simp at hj
  · simp only [init]; split <;> simp_all [DPC.dispatching]
  · simp only [init]; split <;> simp_all [DPC.dispatching]
  · simp only [init]; split <;> simp
  · simp only [init]; split <;> simp
  · intro _ j _; exact Or.inr (hpc j)
  · simp only [init]; split <;> simp
  · simp only [init]; split <;> simp

theorem ginv_init (v : Variant) (g sw : Bool) (f n : Nat) (b : Bool) (t0 : Nat) : GInv (init v g sw f n b t0) := by
  refine ⟨?_, ?_, ?_, ?_, ?_, ?_, ?_, ?_, ?_, ?_, ?_⟩ <;> simp [init, GPC.holds]
  omega

theorem cinv_init (v : Variant) (g sw : Bool) (f n : Nat) (b : Bool) (t0 : Nat) : CInv (init v g sw f n b t0) := by
  refine ⟨?_, ?_, ?_, ?_⟩ <;> simp only [init] <;> (try split) <;> simp

theorem inv_init (v : Variant) (g sw : Bool) (f n : Nat) (b : Bool) (t0 : Nat) : Inv (init v g sw f n b t0) :=
  ⟨minv_init v g sw f n b t0, tinv_init v g sw f n b t0, finv_init v g sw f n b t0, ginv_init v g sw f n b t0,
   cinv_init v g sw f n b t0⟩

end PdshVerif.Dsh.Sig
