import PdshVerif.Dsh.SignalsAbort

/-! # Erasing the signals thread: a run whose interrupts only report is a signal-free run with S steps inserted

`strip` forgets everything the signals thread owns (its program counter, `last_intr`, pending signals,
the listing, and thd_mutex when *it* holds it).  `erase` removes its steps and the deliveries from a
label sequence.  As long as the signals thread neither forwards, exits nor cancels, every other step
is enabled in the stripped state exactly as in the full state and has the same effect: the steps of
the signals thread commute with all others on the observable projection. -/
namespace PdshVerif.Dsh.Sig
open PdshVerif.Dsh.Fan (Variant DPC)

def stripSpc : SPC → SPC
  | .off => .off
  | .cancelled => .cancelled
  | _ => .waiting

def strip (s : St) : St :=
  { s with spc := stripSpc s.spc, thd := if s.thd = .s then .none else s.thd, pend := [], last := 0,
           listed := [], fwds := [] }

/-- what the user can observe of the hosts and of the run: worker progress, `t[i].state`, threadcount, the
    dispatcher, the exit status -/
def obs (s : St) : List WP × List TS × Nat × DPC × Nat × Option Nat := (s.ws, s.ts, s.tc, s.dpc, s.i, s.exited)

theorem obs_strip (s : St) : obs (strip s) = obs s := rfl

/-- steps of the signals thread and deliveries; not its end: a thread that handles no signal ends too when dsh()
    cancels it -/
def Label.erased : Label → Bool
  | .s .die => false
  | .s _ => true
  | .e (.deliver _) => true
  | _ => false

def erase (ls : List Label) : List Label := ls.filter fun l => !l.erased

/-- the signals thread does not forward, exit or cancel -/
def Label.harmless : Label → Bool
  | .s (.fwd _) | .s (.exit _) | .s .lock | .s .unlock => false
  | _ => true

theorem strip_init (v g sw f n b t0) : strip (init v g sw f n b t0) = init v g sw f n b t0 := by simp [strip, init, stripSpc]

theorem stripSpc_off {p : SPC} : stripSpc p = .off ↔ p = .off := by cases p <;> simp [stripSpc]
theorem stripSpc_cancelled {p : SPC} : stripSpc p = .cancelled ↔ p = .cancelled := by cases p <;> simp [stripSpc]

/-- a step of the dispatcher, of a worker, or a clock tick is enabled in the stripped state and commutes with `strip` -/
theorem strip_kept {s s' : St} {l : Label} (hl : l.erased = false) (hs : step s l = some s') :
    step (strip s) l = some (strip s') := by
  have hx := step_live hs
  have hx' : (strip s).exited = none := hx
  cases l with
  | g a =>
    have hd := step_wd hs
    rw [step_of_wd hx']
    cases a with
    | lockT =>
      simp only [gStep] at hd ⊢
      split at hd <;> simp at hd; subst hd
      rename_i k ht hg
      have e1 : (strip s).thd = .none := by simp [strip, ht]
      have e2 : (strip s).gpc = .at k := hg
      simp only [e1, e2]; simp [strip]
    | unlockT =>
      simp only [gStep] at hd ⊢
      split at hd <;> simp at hd; subst hd
      rename_i k hg
      have e2 : (strip s).gpc = .inside k := hg
      simp only [e2]; rfl
    | wake =>
      simp only [gStep] at hd ⊢
      split at hd <;> simp at hd; subst hd
      rename_i hg
      have e2 : (strip s).gpc = .sleeping := hg
      simp only [e2]; rfl
  | s a =>
    cases a with
    | die =>
      have hd := step_s hs
      rw [step_of_s hx']
      simp only [sStep] at hd ⊢
      split at hd <;> simp at hd; subst hd
      rename_i hg
      have e : (strip s).scan = true ∧ (strip s).spc ≠ .off ∧ (strip s).spc ≠ .cancelled :=
        ⟨hg.1, fun h => hg.2.1 (stripSpc_off.mp h), fun h => hg.2.2 (stripSpc_cancelled.mp h)⟩
      rw [if_pos e]; simp [strip, stripSpc]
    | _ => simp [Label.erased] at hl
  | e a =>
    cases a with
    | deliver g => simp [Label.erased] at hl
    | tick v =>
      have hd := step_e hs
      rw [step_of_e hx']
      simp only [eStep] at hd ⊢
      split at hd <;> simp at hd; subst hd
      rename_i hlt
      have : (strip s).now < v := hlt
      rw [if_pos this]; rfl
  | w i a =>
    obtain ⟨p, q, hp, hn, hgT, hgO, rfl⟩ := w_step_facts (step_w hs)
    rw [step_of_w hx']
    have hp' : (strip s).ws[i]? = some p := hp
    have hn' : wNext (strip s).g a p (tsAt (strip s) i == .canceled) = some q := hn
    have hg : (a.locksT = true → (strip s).thd = .none) ∧ (a = .lock → (strip s).own = .none) := by
      refine ⟨fun ha => ?_, hgO⟩
      show (if s.thd = .s then Own.none else s.thd) = .none
      rw [hgT ha]; rfl
    simp only [wStep, hp', hn']
    rw [if_pos hg]
    cases a <;> simp [wEffect, strip, tsAt]
  | d a =>
    have hd := step_d hs
    rw [step_of_d hx']
    cases a with
    | createS =>
      simp only [dStep] at hd ⊢
      split at hd <;> (try split at hd) <;> simp at hd; subst hd
      rename_i hoff hg
      have e1 : (strip s).spc = .off := by simp [strip, hoff, stripSpc]
      have e2 : ¬ ((strip s).sw = true ∧ (strip s).gpc = .off) := hg
      simp only [e1]; rw [if_neg e2]; simp [strip, stripSpc]
    | createG =>
      simp only [dStep] at hd ⊢
      split at hd <;> (try split at hd) <;> simp at hd; subst hd
      rename_i hg hoff hsw
      have e1 : (strip s).spc = .off := by simp [strip, hoff, stripSpc]
      have e2 : (strip s).gpc = .off := hg
      have e3 : (strip s).sw = true := hsw
      simp only [e1, e2, e3, if_true]; simp [strip, hoff, hsw, stripSpc] <;> rfl
    | cancelG =>
      simp only [dStep] at hd ⊢
      split at hd <;> (try split at hd) <;> simp at hd; subst hd
      rename_i hdp hg
      have e1 : (strip s).dpc = .finishing := hdp
      have e2 : (strip s).sw = true ∧ (strip s).gcan = false := hg
      simp only [e1]; rw [if_pos e2]; simp [strip, hdp] <;> rfl
    | joinG =>
      simp only [dStep] at hd ⊢
      split at hd <;> (try split at hd) <;> simp at hd; subst hd
      rename_i hdp hg
      have e1 : (strip s).dpc = .finishing := hdp
      have e2 : (strip s).gcan = true ∧ (strip s).gpc = .ended ∧ (strip s).gjoin = false := hg
      simp only [e1]; rw [if_pos e2]; simp [strip, hdp]
    | lock =>
      simp only [dStep] at hd ⊢
      split at hd
      · rename_i hdp ho
        split at hd
        · simp at hd
        · rename_i hoff
          simp only [Option.some.injEq] at hd; subst hd
          have : ¬ stripSpc s.spc = .off := fun hc => hoff (stripSpc_off.mp hc)
          simp only [strip, hdp, ho, this, if_false, roomTest]
          split <;> rfl
      · rename_i hdp ho
        split at hd
        · simp at hd
        · rename_i hoff
          simp only [Option.some.injEq] at hd; subst hd
          have : ¬ stripSpc s.spc = .off := fun hc => hoff (stripSpc_off.mp hc)
          simp only [strip, hdp, ho, this, if_false, drainTest]
          split <;> rfl
      · simp at hd
    | wait =>
      simp only [dStep] at hd ⊢
      split at hd <;> simp at hd <;> subst hd <;> rename_i hdp <;> simp [strip, hdp]
    | wake sp =>
      simp only [dStep] at hd ⊢
      split at hd <;> (try split at hd) <;> simp at hd <;> subst hd <;> rename_i hdp hsg <;>
        simp [strip, hdp] <;> simpa using hsg
    | relock =>
      simp only [dStep] at hd ⊢
      split at hd
      · rename_i hdp ho
        split at hd
        · rename_i hv
          simp only [Option.some.injEq] at hd; subst hd
          simp [strip, hdp, ho, hv]
        · rename_i hv
          simp only [Option.some.injEq] at hd; subst hd
          simp only [strip, hdp, ho, hv, roomTest]
          split <;> rfl
      · rename_i hdp ho
        simp only [Option.some.injEq] at hd; subst hd
        simp only [strip, hdp, ho, drainTest]
        split <;> rfl
      · simp at hd
    | create j =>
      simp only [dStep] at hd ⊢
      split at hd <;> simp at hd
      rename_i hdp
      obtain ⟨hg, hd⟩ := hd
      subst hd
      have hg' : j = skip (strip s).ts (strip s).i ∧ j < (strip s).ws.length := hg
      simp only [strip, hdp] at hg' ⊢
      rw [if_pos hg']
    | unlock =>
      simp only [dStep] at hd ⊢
      split at hd
      · rename_i hdp
        simp only [Option.some.injEq] at hd; subst hd
        simp [strip, hdp]
      · rename_i hdp
        split at hd <;> simp at hd; subst hd
        rename_i hsk
        have hsk' : (strip s).ws.length ≤ skip (strip s).ts (strip s).i := hsk
        simp only [strip, hdp] at hsk' ⊢
        rw [if_pos hsk']
      · rename_i hdp
        simp only [Option.some.injEq] at hd; subst hd
        simp [strip, hdp]
      · simp at hd
    | cancelS =>
      simp only [dStep] at hd ⊢
      split at hd <;> (try split at hd) <;> simp at hd; subst hd
      rename_i hdp hc
      have e1 : (strip s).dpc = .finishing := hdp
      have e2 : ¬ ((strip s).scan = true ∨ ((strip s).sw = true ∧ (strip s).gjoin = false)) := by
        intro h; apply hc
        rcases h with h | h
        · exact Or.inl h
        · exact Or.inr h
      simp only [e1]; rw [if_neg e2]; simp [strip, hdp, stripSpc]
    | ret =>
      simp only [dStep] at hd ⊢
      split at hd <;> (try split at hd) <;> simp at hd; subst hd
      rename_i hdp hc
      have e1 : (strip s).dpc = .finishing := hdp
      have e2 : (strip s).scan = true ∧ ((strip s).sw = true → (strip s).spc = .cancelled) :=
        ⟨hc.1, fun h => stripSpc_cancelled.mpr (hc.2 h)⟩
      simp only [e1]; rw [if_pos e2]; simp [strip, hdp]

/-- a harmless step of the signals thread, or a delivery, is invisible after stripping -/
theorem strip_erased {s s' : St} {l : Label} (hm : MInv s) (hl : l.erased = true) (hh : l.harmless = true)
    (hs : step s l = some s') : strip s' = strip s := by
  cases l with
  | d a => simp [Label.erased] at hl
  | w i a => simp [Label.erased] at hl
  | g a => simp [Label.erased] at hl
  | e a =>
    cases a with
    | tick v => simp [Label.erased] at hl
    | deliver g =>
      have hd := step_e hs
      simp only [eStep, Option.some.injEq] at hd; subst hd; rfl
  | s a =>
    have hd := step_s hs
    cases a with
    | die => simp [Label.erased] at hl
    | fwd h => simp [Label.harmless] at hh
    | exit c => simp [Label.harmless] at hh
    | lock => simp [Label.harmless] at hh
    | unlock => simp [Label.harmless] at hh
    | sigwait g =>
      simp only [sStep] at hd
      split at hd <;> (try split at hd) <;> simp at hd; subst hd
      rename_i hw _
      simp only [strip, hw]
      cases g <;> cases s.batch <;> simp [stripSpc]
    | time v =>
      simp only [sStep] at hd
      split at hd
      · split at hd <;> simp at hd <;> subst hd <;> rename_i hw <;> simp only [strip, hw]
        · by_cases hc : INTR < s.now - s.last <;> simp [hc, stripSpc]
        · simp [stripSpc]
        · simp [stripSpc]
        · simp [stripSpc]
        · simp [stripSpc]
        · by_cases hc : INTR < s.now - s.last <;> simp [hc, stripSpc]
      · simp at hd
    | lockT =>
      simp only [sStep] at hd
      split at hd <;> simp at hd <;> subst hd <;> rename_i ht hw <;> simp [strip, hw, ht, stripSpc]
    | unlockT =>
      simp only [sStep] at hd
      split at hd
      · simp only [Option.some.injEq] at hd; subst hd
        rename_i hw
        have ht : s.thd = .s := hm.thdS1 (by rw [hw]; rfl)
        simp [strip, hw, ht, stripSpc]
      · simp only [Option.some.injEq] at hd; subst hd
        rename_i k hw
        have ht : s.thd = .s := hm.thdS1 (by rw [hw]; rfl)
        simp [strip, hw, ht, stripSpc]
      · split at hd <;> simp at hd; subst hd
        rename_i k hw _
        have ht : s.thd = .s := hm.thdS1 (by rw [hw]; rfl)
        simp [strip, hw, ht, stripSpc]
      · simp at hd
    | stop =>
      simp only [sStep] at hd
      split at hd <;> simp at hd; subst hd
      rename_i hw
      simp [strip, hw, stripSpc]

/-- **commutation**: a run in which the signals thread only reports is, with its steps erased, a run of the
    stripped system ending in the stripped state -/
theorem erase_exec {s0 s : St} {ls : List Label} (h0 : Inv s0) (he : Exec s0 ls s)
    (hh : ∀ l ∈ ls, l.harmless = true) : Exec (strip s0) (erase ls) (strip s) := by
  induction he with
  | nil => exact Exec.nil
  | snoc he' hs ih =>
    rename_i ls0 s1 l s2
    have ih' := ih (fun l hl => hh l (by simp [hl]))
    have hl := hh l (by simp)
    cases hle : l.erased with
    | true =>
      have : erase (ls0 ++ [l]) = erase ls0 := by simp [erase, List.filter_append, hle]
      rw [this, strip_erased (inv_exec h0 he').m hle hl hs]; exact ih'
    | false =>
      have : erase (ls0 ++ [l]) = erase ls0 ++ [l] := by simp [erase, List.filter_append, hle]
      rw [this]; exact Exec.snoc ih' (strip_kept hle hs)

theorem erase_no_signal (ls : List Label) : ∀ l ∈ erase ls, l.erased = false := by
  intro l hl; simp [erase] at hl; simpa using hl.2

end PdshVerif.Dsh.Sig
