import PdshVerif.Dsh.SignalsErase

/-! # One interactive ^C: the signals thread only lists (control flow of `_handle_sigint` for a first interrupt) -/
namespace PdshVerif.Dsh.Sig
open PdshVerif.Dsh.Fan (Variant DPC)

def Label.isDeliver : Label → Bool
  | .e (.deliver _) => true
  | _ => false

def Label.isSigwait : Label → Bool
  | .s (.sigwait _) => true
  | _ => false

/-- inside `_list_slowthreads`: with thd_mutex (`listing`) or after it was released (`printing`) -/
def SPC.inList : SPC → Bool
  | .listing _ | .printing _ => true
  | _ => false

/-- only SIGINT is ever delivered -/
def OnlyInt (ls : List Label) : Prop := ∀ g, Label.e (.deliver g) ∈ ls → g = .int

/-- where the signals thread can be when at most one SIGINT (and nothing else) is delivered, not in batch mode,
    the clock past INTR_TIME -/
structure JInv (ls : List Label) (s : St) : Prop where
  pint : ∀ g, g ∈ s.pend → g = .int
  cnt : s.pend.length + ls.countP Label.isSigwait ≤ ls.countP Label.isDeliver
  zero : ls.countP Label.isSigwait = 0 → s.last = 0 ∧ (s.spc = .off ∨ s.spc = .waiting ∨ s.spc = .cancelled)
  one : 0 < ls.countP Label.isSigwait →
    (s.spc = .intT ∧ s.last = 0) ∨ s.spc = .intT2 ∨ s.spc = .listLock ∨ s.spc.inList = true ∨
      s.spc = .waiting ∨ s.spc = .cancelled
  clk : INTR < s.now
  nb : s.batch = false

theorem jinv_init (v g sw f n t0) (ht : INTR < t0) : JInv [] (init v g sw f n false t0) := by
  refine ⟨?_, ?_, ?_, ?_, ?_, ?_⟩ <;> simp [init, ht]

theorem count_snoc (p : Label → Bool) (ls : List Label) (l : Label) :
    (ls ++ [l]).countP p = ls.countP p + (if p l then 1 else 0) := by
  simp [List.countP_append, List.countP_cons]

theorem jinv_step {ls : List Label} {s s' : St} {l : Label} (hj : JInv ls s) (hs : step s l = some s')
    (hd1 : (ls ++ [l]).countP Label.isDeliver ≤ 1) (ho : OnlyInt (ls ++ [l])) :
    JInv (ls ++ [l]) s' ∧ l.harmless = true := by
  have ⟨j1, j2, j3, j4, j5, j6⟩ := hj
  rw [count_snoc] at hd1
  cases l with
  | g a =>
    rw [g_step_frame (step_wd hs)]
    refine ⟨⟨j1, ?_, ?_, ?_, j5, j6⟩, rfl⟩
    · rw [count_snoc, count_snoc]; simpa [Label.isSigwait, Label.isDeliver] using j2
    · rw [count_snoc]; simpa [Label.isSigwait] using j3
    · rw [count_snoc]; simpa [Label.isSigwait] using j4
  | w i a =>
    obtain ⟨p, q, _, _, _, _, rfl⟩ := w_step_facts (step_w hs)
    have e : ∀ x : St, (wEffect i x a).pend = x.pend ∧ (wEffect i x a).last = x.last ∧ (wEffect i x a).spc = x.spc ∧
        (wEffect i x a).now = x.now ∧ (wEffect i x a).batch = x.batch := by intro x; cases a <;> simp [wEffect]
    obtain ⟨e1, e2, e3, e4, e5⟩ := e { s with ws := s.ws.set i q, ts := s.ts.set i (wWrite s.g a p (tsAt s i)) }
    refine ⟨⟨?_, ?_, ?_, ?_, ?_, ?_⟩, rfl⟩
    · rw [e1]; exact j1
    · rw [e1, count_snoc, count_snoc]; simpa [Label.isSigwait, Label.isDeliver] using j2
    · rw [count_snoc, e2, e3]; simpa [Label.isSigwait] using j3
    · rw [count_snoc, e2, e3]; simpa [Label.isSigwait] using j4
    · rw [e4]; exact j5
    · rw [e5]; exact j6
  | d a =>
    have hd := step_d hs
    have hfr : s'.pend = s.pend ∧ s'.last = s.last ∧ s'.now = s.now ∧ s'.batch = s.batch ∧
        (s'.spc = s.spc ∨ s'.spc = .waiting ∨ s'.spc = .cancelled) := by
      cases a <;> simp only [dStep] at hd <;> (try split at hd) <;> (try split at hd) <;>
        simp [roomTest, drainTest] at hd <;> (try split at hd) <;>
        (try (obtain ⟨_, hd⟩ := hd)) <;> (try subst hd) <;> simp_all
    obtain ⟨e1, e2, e4, e5, e3⟩ := hfr
    refine ⟨⟨?_, ?_, ?_, ?_, ?_, ?_⟩, rfl⟩
    · rw [e1]; exact j1
    · rw [e1, count_snoc, count_snoc]; simpa [Label.isSigwait, Label.isDeliver] using j2
    · rw [count_snoc, e2]; intro hc
      have := j3 (by simpa [Label.isSigwait] using hc)
      refine ⟨this.1, ?_⟩
      rcases e3 with h | h | h
      · rw [h]; exact this.2
      · exact Or.inr (Or.inl h)
      · exact Or.inr (Or.inr h)
    · rw [count_snoc, e2]; intro hc
      have := j4 (by simpa [Label.isSigwait] using hc)
      rcases e3 with h | h | h
      · rw [h]; exact this
      · exact Or.inr (Or.inr (Or.inr (Or.inr (Or.inl h))))
      · exact Or.inr (Or.inr (Or.inr (Or.inr (Or.inr h))))
    · rw [e4]; exact j5
    · rw [e5]; exact j6
  | e a =>
    have hd := step_e hs
    cases a with
    | tick v =>
      simp only [eStep] at hd
      split at hd <;> simp at hd; subst hd
      rename_i hlt
      refine ⟨⟨j1, ?_, ?_, ?_, ?_, j6⟩, rfl⟩
      · rw [count_snoc, count_snoc]; simpa [Label.isSigwait, Label.isDeliver] using j2
      · rw [count_snoc]; simpa [Label.isSigwait] using j3
      · rw [count_snoc]; simpa [Label.isSigwait] using j4
      · show INTR < v; omega
    | deliver g =>
      have hg : g = .int := ho g (by simp)
      simp only [eStep, Option.some.injEq] at hd; subst hd
      refine ⟨⟨?_, ?_, ?_, ?_, j5, j6⟩, rfl⟩
      · intro x hx
        dsimp only at hx
        split at hx
        · exact j1 x hx
        · rcases List.mem_append.mp hx with h | h
          · exact j1 x h
          · simp at h; rw [h, hg]
      · rw [count_snoc, count_snoc]
        dsimp only
        split <;> simp [Label.isSigwait, Label.isDeliver] <;> omega
      · rw [count_snoc]; simpa [Label.isSigwait] using j3
      · rw [count_snoc]; simpa [Label.isSigwait] using j4
  | s a =>
    have hd := step_s hs
    have hnd : (ls ++ [Label.s a]).countP Label.isDeliver = ls.countP Label.isDeliver := by
      rw [count_snoc]; simp [Label.isDeliver]
    -- which program counters are possible at all
    have hpcs : (s.spc = .off ∨ s.spc = .waiting ∨ s.spc = .cancelled) ∨
        (s.spc = .intT ∧ s.last = 0) ∨ s.spc = .intT2 ∨ s.spc = .listLock ∨ s.spc.inList = true := by
      by_cases hz : ls.countP Label.isSigwait = 0
      · exact Or.inl (j3 hz).2
      · rcases j4 (by omega) with h | h | h | h | h | h
        · exact Or.inr (Or.inl h)
        · exact Or.inr (Or.inr (Or.inl h))
        · exact Or.inr (Or.inr (Or.inr (Or.inl h)))
        · exact Or.inr (Or.inr (Or.inr (Or.inr h)))
        · exact Or.inl (Or.inr (Or.inl h))
        · exact Or.inl (Or.inr (Or.inr h))
    cases a with
    | die =>
      simp only [sStep] at hd
      split at hd <;> simp at hd; subst hd
      refine ⟨⟨j1, ?_, ?_, ?_, j5, j6⟩, rfl⟩
      · rw [count_snoc, hnd]; simpa [Label.isSigwait] using j2
      · rw [count_snoc]; intro hc
        exact ⟨(j3 (by simpa [Label.isSigwait] using hc)).1, Or.inr (Or.inr rfl)⟩
      · intro _; exact Or.inr (Or.inr (Or.inr (Or.inr (Or.inr rfl))))
    | sigwait g =>
      simp only [sStep] at hd
      split at hd <;> (try split at hd) <;> simp at hd; subst hd
      rename_i hw hg
      have hgi : g = .int := j1 g hg
      subst hgi
      have hlen : 0 < s.pend.length := List.length_pos_of_mem hg
      have hz : ls.countP Label.isSigwait = 0 := by
        simp [Label.isDeliver] at hd1; omega
      refine ⟨⟨?_, ?_, ?_, ?_, j5, j6⟩, rfl⟩
      · intro x hx; exact j1 x (List.mem_of_mem_erase hx)
      · rw [count_snoc, hnd]
        simp only [Label.isSigwait, if_true]
        rw [List.length_erase_of_mem hg]; omega
      · rw [count_snoc]; simp [Label.isSigwait]
      · intro _; left
        simp only [j6]
        exact ⟨by simp, (j3 hz).1⟩
    | time v =>
      simp only [sStep] at hd
      split at hd
      · split at hd <;> simp at hd <;> subst hd <;> rename_i hw
        · -- intT: the first interrupt
          have hl0 : s.last = 0 := by
            rcases hpcs with h | h | h | h | h
            · rcases h with h | h | h <;> rw [hw] at h <;> cases h
            · exact h.2
            · rw [hw] at h; cases h
            · rw [hw] at h; cases h
            · rw [hw] at h; cases h
          have hgt : INTR < s.now - s.last := by rw [hl0]; simpa using j5
          have hz : 0 < ls.countP Label.isSigwait := by
            apply Nat.pos_of_ne_zero; intro hc
            rcases (j3 hc).2 with h | h | h <;> rw [hw] at h <;> cases h
          refine ⟨⟨j1, ?_, ?_, ?_, j5, j6⟩, rfl⟩
          · rw [count_snoc, hnd]; simpa [Label.isSigwait] using j2
          · intro hc; rw [count_snoc] at hc; omega
          · intro _; simp [hgt]
        · have hz : 0 < ls.countP Label.isSigwait := by
            apply Nat.pos_of_ne_zero; intro hc
            rcases (j3 hc).2 with h | h | h <;> rw [hw] at h <;> cases h
          refine ⟨⟨j1, ?_, ?_, ?_, j5, j6⟩, rfl⟩
          · rw [count_snoc, hnd]; simpa [Label.isSigwait] using j2
          · intro hc; rw [count_snoc] at hc; omega
          · intro _; simp
        · rename_i k
          have hz : 0 < ls.countP Label.isSigwait := by
            apply Nat.pos_of_ne_zero; intro hc
            rcases (j3 hc).2 with h | h | h <;> rw [hw] at h <;> cases h
          refine ⟨⟨j1, ?_, ?_, ?_, j5, j6⟩, rfl⟩
          · rw [count_snoc, hnd]; simpa [Label.isSigwait] using j2
          · intro hc; rw [count_snoc] at hc; omega
          · intro _; simp [SPC.inList]
        · rename_i k
          have hz : 0 < ls.countP Label.isSigwait := by
            apply Nat.pos_of_ne_zero; intro hc
            rcases (j3 hc).2 with h | h | h <;> rw [hw] at h <;> cases h
          refine ⟨⟨j1, ?_, ?_, ?_, j5, j6⟩, rfl⟩
          · rw [count_snoc, hnd]; simpa [Label.isSigwait] using j2
          · intro hc; rw [count_snoc] at hc; omega
          · intro _; simp [SPC.inList]
        · have hz : 0 < ls.countP Label.isSigwait := by
            apply Nat.pos_of_ne_zero; intro hc
            rcases (j3 hc).2 with h | h | h <;> rw [hw] at h <;> cases h
          refine ⟨⟨j1, ?_, ?_, ?_, j5, j6⟩, rfl⟩
          · rw [count_snoc, hnd]; simpa [Label.isSigwait] using j2
          · intro hc; rw [count_snoc] at hc; omega
          · intro _; simp
        · -- tstpT is unreachable
          exfalso
          rcases hpcs with h | h | h | h | h
          · rcases h with h | h | h <;> rw [hw] at h <;> cases h
          · rw [hw] at h; cases h.1
          · rw [hw] at h; cases h
          · rw [hw] at h; cases h
          · rw [hw] at h; cases h
      · simp at hd
    | lockT =>
      simp only [sStep] at hd
      split at hd <;> simp at hd <;> subst hd <;> rename_i ht hw
      · have hz : 0 < ls.countP Label.isSigwait := by
          apply Nat.pos_of_ne_zero; intro hc
          rcases (j3 hc).2 with h | h | h <;> rw [hw] at h <;> cases h
        refine ⟨⟨j1, ?_, ?_, ?_, j5, j6⟩, rfl⟩
        · rw [count_snoc, hnd]; simpa [Label.isSigwait] using j2
        · intro hc; rw [count_snoc] at hc; omega
        · intro _; simp [SPC.inList]
      · exfalso
        rcases hpcs with h | h | h | h | h
        · rcases h with h | h | h <;> rw [hw] at h <;> cases h
        · rw [hw] at h; cases h.1
        · rw [hw] at h; cases h
        · rw [hw] at h; cases h
        · rw [hw] at h; cases h
    | unlockT =>
      simp only [sStep] at hd
      split at hd
      · simp only [Option.some.injEq] at hd; subst hd
        rename_i hw
        have hz : 0 < ls.countP Label.isSigwait := by
          apply Nat.pos_of_ne_zero; intro hc
          rcases (j3 hc).2 with h | h | h <;> rw [hw] at h <;> cases h
        refine ⟨⟨j1, ?_, ?_, ?_, j5, j6⟩, rfl⟩
        · rw [count_snoc, hnd]; simpa [Label.isSigwait] using j2
        · intro hc; rw [count_snoc] at hc; omega
        · intro _; simp
      · simp only [Option.some.injEq] at hd; subst hd
        rename_i k hw
        have hz : 0 < ls.countP Label.isSigwait := by
          apply Nat.pos_of_ne_zero; intro hc
          rcases (j3 hc).2 with h | h | h <;> rw [hw] at h <;> cases h
        refine ⟨⟨j1, ?_, ?_, ?_, j5, j6⟩, rfl⟩
        · rw [count_snoc, hnd]; simpa [Label.isSigwait] using j2
        · intro hc; rw [count_snoc] at hc; omega
        · intro _; simp [SPC.inList]
      · split at hd <;> simp at hd; subst hd
        rename_i k hw _
        exfalso
        rcases hpcs with h | h | h | h | h
        · rcases h with h | h | h <;> rw [hw] at h <;> cases h
        · rw [hw] at h; cases h.1
        · rw [hw] at h; cases h
        · rw [hw] at h; cases h
        · rw [hw] at h; cases h
      · simp at hd
    | fwd h0 =>
      exfalso
      simp only [sStep] at hd
      split at hd <;> (try split at hd) <;> simp at hd
      rename_i k hw _
      rcases hpcs with h | h | h | h | h
      · rcases h with h | h | h <;> rw [hw] at h <;> cases h
      · rw [hw] at h; cases h.1
      · rw [hw] at h; cases h
      · rw [hw] at h; cases h
      · rw [hw] at h; cases h
    | lock =>
      exfalso
      simp only [sStep] at hd
      split at hd <;> simp at hd
      rename_i _ hw
      rcases hpcs with h | h | h | h | h
      · rcases h with h | h | h <;> rw [hw] at h <;> cases h
      · rw [hw] at h; cases h.1
      · rw [hw] at h; cases h
      · rw [hw] at h; cases h
      · rw [hw] at h; cases h
    | unlock =>
      exfalso
      simp only [sStep] at hd
      split at hd <;> simp at hd
      rename_i hw
      rcases hpcs with h | h | h | h | h
      · rcases h with h | h | h <;> rw [hw] at h <;> cases h
      · rw [hw] at h; cases h.1
      · rw [hw] at h; cases h
      · rw [hw] at h; cases h
      · rw [hw] at h; cases h
    | stop =>
      exfalso
      simp only [sStep] at hd
      split at hd <;> simp at hd
      rename_i hw
      rcases hpcs with h | h | h | h | h
      · rcases h with h | h | h <;> rw [hw] at h <;> cases h
      · rw [hw] at h; cases h.1
      · rw [hw] at h; cases h
      · rw [hw] at h; cases h
      · rw [hw] at h; cases h
    | exit c =>
      exfalso
      simp only [sStep] at hd
      split at hd <;> (try split at hd) <;> simp at hd
      rename_i hw _
      rcases hpcs with h | h | h | h | h
      · rcases h with h | h | h <;> rw [hw] at h <;> cases h
      · rw [hw] at h; cases h.1
      · rw [hw] at h; cases h
      · rw [hw] at h; cases h
      · rw [hw] at h; cases h

/-- not in batch mode, the clock past INTR_TIME at start, at most one signal delivered and that one a SIGINT:
    every step of the signals thread is harmless (it never forwards, exits or cancels) -/
theorem single_int_only_lists {v : Variant} {g sw : Bool} {f n t0 : Nat} {ls : List Label} {s : St} (ht : INTR < t0)
    (he : Exec (init v g sw f n false t0) ls s) (h1 : ls.countP Label.isDeliver ≤ 1) (ho : OnlyInt ls) :
    JInv ls s ∧ ∀ l ∈ ls, l.harmless = true := by
  induction he with
  | nil => exact ⟨jinv_init v g sw f n t0 ht, by simp⟩
  | snoc he' hs ih =>
    rename_i ls0 s1 l s2
    have h1' : ls0.countP Label.isDeliver ≤ 1 := by rw [count_snoc] at h1; omega
    have ho' : OnlyInt ls0 := fun g hg => ho g (by simp [hg])
    obtain ⟨hj, hh⟩ := ih h1' ho'
    obtain ⟨hj', hl⟩ := jinv_step hj hs h1 ho
    refine ⟨hj', ?_⟩
    intro x hx
    rcases List.mem_append.mp hx with h | h
    · exact hh x h
    · simp at h; rw [h]; exact hl

end PdshVerif.Dsh.Sig
