import PdshVerif.Dsh.SignalsStepS

/-! # Progress of the signal-extended LTS: no deadlock between dispatcher, workers and the signals thread -/
namespace PdshVerif.Dsh.Sig
open PdshVerif.Dsh.Fan (Variant DPC)

/-- a label of a thread of pdsh (not of the environment) that is not a spurious wake-up -/
def Label.proper (l : Label) : Bool := !l.spurious && !l.isEnv

/-- "some thread of pdsh can take a (non-spurious) step" -/
def CanMove (s : St) : Prop := ∃ l, l.proper = true ∧ (step s l).isSome = true

/-- ... and that step is not the signals thread giving way to a pending cancellation request: a thread goes on with
    its work.  (Which calls of a handler are cancellation points depends on the C library; the progress shown below
    needs none of them, only sigwait.) -/
def CanGoOn (s : St) : Prop := ∃ l, l.proper = true ∧ l ≠ .s .die ∧ (step s l).isSome = true

theorem CanGoOn.canMove {s : St} (h : CanGoOn s) : CanMove s := by
  obtain ⟨l, h1, _, h2⟩ := h; exact ⟨l, h1, h2⟩

theorem w_enabled {s : St} {i : Nat} {a : WAct} {p q : WP} (hx : s.exited = none) (hp : s.ws[i]? = some p)
    (hn : wNext s.g a p (tsAt s i == .canceled) = some q) (hT : a.locksT = true → s.thd = .none)
    (hO : a = .lock → s.own = .none) : CanGoOn s := by
  refine ⟨.w i a, by simp [Label.proper, Label.spurious, Label.isEnv], by simp, ?_⟩
  rw [step_of_w hx]
  simp only [wStep, hp, hn]
  rw [if_pos ⟨hT, hO⟩]; rfl

theorem s_enabled {s : St} {a : SAct} (hx : s.exited = none) (ha : a ≠ .die) (h : (sStep s a).isSome = true) :
    CanGoOn s :=
  ⟨.s a, by simp [Label.proper, Label.spurious, Label.isEnv], by simpa using ha, by rw [step_of_s hx]; exact h⟩

theorem d_enabled {s : St} {a : DAct} (hx : s.exited = none) (hsp : (Label.d a).spurious = false)
    (h : (dStep s a).isSome = true) : CanGoOn s :=
  ⟨.d a, by simp [Label.proper, hsp, Label.isEnv], by simp, by rw [step_of_d hx]; exact h⟩

theorem g_enabled {s : St} {a : GAct} (hx : s.exited = none) (ha : a ≠ .wake) (h : (gStep s a).isSome = true) :
    CanGoOn s :=
  ⟨.g a, by cases a <;> simp_all [Label.proper, Label.spurious, Label.isEnv], by simp, by rw [step_of_wd hx]; exact h⟩

/-! ## `_fwd_signal`: there is a next READING slot to signal, or the scan is over -/

theorem noReading_succ (ts : List TS) (k m : Nat) :
    noReading ts k (m + 1) = (noReading ts k m && (decide (m < k) || ts.getD m .new != .reading)) := by
  simp [noReading, List.range_succ, List.all_append]

theorem fwd_or_done (ts : List TS) (k : Nat) : ∀ m,
    noReading ts k m = true ∨ ∃ h, h < m ∧ k ≤ h ∧ ts.getD h .new = .reading ∧ noReading ts k h = true
  | 0 => Or.inl (by simp [noReading])
  | m + 1 => by
    rcases fwd_or_done ts k m with h | ⟨h, hlt, hk, hr, hn⟩
    · by_cases hm : m < k ∨ ts.getD m .new ≠ .reading
      · left; rw [noReading_succ, h]
        rcases hm with hm | hm
        · simp [hm]
        · have : (ts.getD m .new != .reading) = true := by simpa using hm
          rw [this]; simp
      · right
        refine ⟨m, by omega, by omega, ?_, h⟩
        cases hr : ts.getD m .new <;> simp_all
    · exact Or.inr ⟨h, by omega, hk, hr, hn⟩

/-! ## whoever holds a mutex can move -/

theorem thd_holder_moves {s : St} (h : Inv s) (hx : s.exited = none) (hthd : s.thd ≠ .none)
    (hnc : s.spc ≠ .cancelled) : CanGoOn s := by
  cases ho : s.thd with
  | none => exact absurd ho hthd
  | d => exact absurd ho h.m.thdD
  | w k =>
    have hh := (h.m.thdW k).mp ho
    cases hp : pc s k <;> rw [hp] at hh <;> simp [holdsT] at hh
    · exact w_enabled (a := .unlockT) hx (getElem?_of_getD' hp (by simp)) (by simp [wNext]; rfl) (by simp [WAct.locksT]) (by simp)
    · exact w_enabled (a := .unlockT) hx (getElem?_of_getD' hp (by simp)) (by simp [wNext]; rfl) (by simp [WAct.locksT]) (by simp)
    · exact w_enabled (a := .time) hx (getElem?_of_getD' hp (by simp)) (by simp [wNext]; rfl) (by simp [WAct.locksT]) (by simp)
    · exact w_enabled (a := .unlockT) hx (getElem?_of_getD' hp (by simp)) (by simp [wNext]; rfl) (by simp [WAct.locksT]) (by simp)
    · exact w_enabled (a := .unlockT) hx (getElem?_of_getD' hp (by simp)) (by simp [wNext]; rfl) (by simp [WAct.locksT]) (by simp)
  | g =>
    have hh := h.w.thdG2 ho
    cases hg : s.gpc <;> rw [hg] at hh <;> simp [GPC.holds] at hh
    exact g_enabled (a := .unlockT) hx (by simp) (by simp [gStep, hg])
  | s =>
    rcases h.m.thdS2 ho with hs | hs
    · cases hsp : s.spc <;> rw [hsp] at hs <;> simp [SPC.holdsT] at hs
      · rename_i k
        cases k with
        | zero => exact s_enabled (a := .unlockT) hx (by simp) (by simp [sStep, hsp])
        | succ k => exact s_enabled (a := .time s.now) hx (by simp) (by simp [sStep, hsp])
      · rename_i k
        rcases fwd_or_done s.ts k s.ts.length with hn | ⟨j, hlt, hk, hr, hn⟩
        · exact s_enabled (a := .unlockT) hx (by simp) (by simp [sStep, hsp, hn])
        · have hg : s.ts[j]? = some TS.reading := getElem?_of_getD' hr (by simp)
          exact s_enabled (a := .fwd j) hx (by simp) (by simp [sStep, hsp, hk, hg, hn])
    · exact absurd hs hnc

theorem own_holder_moves {s : St} (h : Inv s) (hx : s.exited = none) (hown : s.own ≠ .none) (hnd : s.own ≠ .d)
    (hnc : s.spc ≠ .cancelled) : CanGoOn s := by
  cases ho : s.own with
  | none => exact absurd ho hown
  | d => exact absurd ho hnd
  | w k =>
    have hh := (h.m.ownW k).mp ho
    cases hp : pc s k <;> rw [hp] at hh <;> simp [holdsW] at hh
    · exact w_enabled (a := .signal) hx (getElem?_of_getD' hp (by simp)) (by simp [wNext]; rfl) (by simp [WAct.locksT]) (by simp)
    · exact w_enabled (a := .unlock) hx (getElem?_of_getD' hp (by simp)) (by simp [wNext]; rfl) (by simp [WAct.locksT]) (by simp)
  | g => exact absurd ho h.w.ownG
  | s =>
    rcases h.m.ownS2 ho with hs | hs
    · exact s_enabled (a := .unlock) hx (by simp) (by simp [sStep, hs])
    · exact absurd hs hnc

/-- a worker that is counted in `threadcount` or holds its mutex exists, and the dispatcher does not hold the
    mutex: then some thread can move -/
theorem worker_can_move {s : St} (h : Inv s) (hx : s.exited = none) (hnd : s.own ≠ .d) (hnc : s.spc ≠ .cancelled)
    (hex : ∃ j, counted (pc s j) = true ∨ holdsW (pc s j) = true) : CanGoOn s := by
  obtain ⟨j, hj⟩ := hex
  have needT : ∀ {a : WAct} {p q : WP}, s.ws[j]? = some p → wNext s.g a p (tsAt s j == .canceled) = some q →
      a ≠ .lock → CanGoOn s := by
    intro a p q hp hn hne
    by_cases ht : s.thd = .none
    · exact w_enabled hx hp hn (fun _ => ht) (fun hc => absurd hc hne)
    · exact thd_holder_moves h hx ht hnc
  cases hp : pc s j <;> rw [hp] at hj <;> simp [counted, holdsW] at hj
  · exact needT (a := .lockT) (getElem?_of_getD' hp (by simp)) (by simp [wNext]; rfl) (by simp)
  · exact needT (a := .unlockT) (getElem?_of_getD' hp (by simp)) (by simp [wNext]; rfl) (by simp)
  · exact needT (a := .unlockT) (getElem?_of_getD' hp (by simp)) (by simp [wNext]; rfl) (by simp)
  · exact needT (a := .connectBegin) (getElem?_of_getD' hp (by simp)) (by simp [wNext]; rfl) (by simp)
  · exact needT (a := .connectEnd true) (getElem?_of_getD' hp (by simp)) (by simp [wNext]; rfl) (by simp)
  · exact needT (a := .lockT) (getElem?_of_getD' hp (by simp)) (by simp [wNext]; rfl) (by simp)
  · exact needT (a := .lockT) (getElem?_of_getD' hp (by simp)) (by simp [wNext]; rfl) (by simp)
  · exact needT (a := .time) (getElem?_of_getD' hp (by simp)) (by simp [wNext]; rfl) (by simp)
  · exact needT (a := .unlockT) (getElem?_of_getD' hp (by simp)) (by simp [wNext]; rfl) (by simp)
  · exact needT (a := .lockT) (getElem?_of_getD' hp (by simp)) (by simp [wNext]; rfl) (by simp)
  · exact needT (a := .lockT) (getElem?_of_getD' hp (by simp)) (by simp [wNext]; rfl) (by simp)
  · exact needT (a := .unlockT) (getElem?_of_getD' hp (by simp)) (by simp [wNext]; rfl) (by simp)
  · exact needT (a := .destroyBegin) (getElem?_of_getD' hp (by simp)) (by simp [wNext]; rfl) (by simp)
  · exact needT (a := .destroyEnd) (getElem?_of_getD' hp (by simp)) (by simp [wNext]; rfl) (by simp)
  · -- torn: needs threadcount_mutex
    by_cases ho : s.own = .none
    · exact w_enabled (a := .lock) hx (getElem?_of_getD' hp (by simp)) (by simp [wNext]; rfl) (by simp [WAct.locksT]) (fun _ => ho)
    · exact own_holder_moves h hx ho hnd hnc
  · exact w_enabled (a := .signal) hx (getElem?_of_getD' hp (by simp)) (by simp [wNext]; rfl) (by simp [WAct.locksT]) (by simp)
  · exact w_enabled (a := .unlock) hx (getElem?_of_getD' hp (by simp)) (by simp [wNext]; rfl) (by simp [WAct.locksT]) (by simp)

/-- the dispatcher wants threadcount_mutex: it is free, or its holder can move -/
theorem free_or_move {s : St} (h : Inv s) (hx : s.exited = none) (hnh : s.dpc.holds = false)
    (hnc : s.spc ≠ .cancelled) : s.own = .none ∨ CanGoOn s := by
  by_cases ho : s.own = .none
  · exact Or.inl ho
  · right
    apply own_holder_moves h hx ho _ hnc
    intro hc; have := h.m.ownD.mp hc; rw [hnh] at this; cases this

theorem not_cancelled {s : St} (h : Inv s) (h1 : s.dpc ≠ .finishing) (h2 : s.dpc ≠ .returned) :
    s.spc ≠ .cancelled := by
  intro hc; rcases h.m.canc hc with h | h
  · exact h1 h
  · exact h2 h

/-- before the signals thread exists: create the watchdog (repaired shutdown only), then the signals thread -/
theorem startup {s : St} (hx : s.exited = none) (hoff : s.spc = .off) : CanGoOn s := by
  by_cases hg : s.sw = true ∧ s.gpc = .off
  · exact d_enabled (a := .createG) hx rfl (by simp [dStep, hg.1, hg.2, hoff])
  · exact d_enabled (a := .createS) hx rfl (by simp only [dStep, hoff]; rw [if_neg hg]; rfl)

/-- dsh() is finishing: stop the watchdog (repaired shutdown only; it may have to finish its scan, for which it
    may need thd_mutex, which the signals thread — still alive — releases), then ask the signals thread to end.  The
    request is deferred: a handler that is running goes on — every one of its steps is possible, or whoever holds the
    mutex it needs can move — until the thread is back in sigwait, where it ends; then dsh() returns -/
theorem finishing_moves {s : St} (h : Inv s) (hx : s.exited = none) (hd : s.dpc = .finishing) :
    CanGoOn s ∨ (s.scan = true ∧ s.spc = .waiting) := by
  have hnh : s.dpc.holds = false := by rw [hd]; rfl
  have hnd : s.own ≠ .d := by intro hc; have := h.m.ownD.mp hc; rw [hnh] at this; cases this
  by_cases hc : s.spc = .cancelled
  · exact Or.inl (d_enabled (a := .ret) hx rfl (by simp [dStep, hd, hc, h.c.cs hc]))
  by_cases hj : s.sw = true ∧ s.gjoin = false
  · left
    obtain ⟨hsw, hgj⟩ := hj
    cases hcan : s.gcan with
    | false => exact d_enabled (a := .cancelG) hx rfl (by simp [dStep, hd, hsw, hcan])
    | true =>
      obtain ⟨hns, hnoff, _⟩ := h.w.can hcan
      cases hg : s.gpc with
      | off => exact absurd hg hnoff
      | sleeping => exact absurd hg hns
      | ended => exact d_enabled (a := .joinG) hx rfl (by simp [dStep, hd, hcan, hg, hgj])
      | inside k => exact g_enabled (a := .unlockT) hx (by simp) (by simp [gStep, hg])
      | «at» k =>
        by_cases ht : s.thd = .none
        · exact g_enabled (a := .lockT) hx (by simp) (by simp [gStep, hg, ht])
        · exact thd_holder_moves h hx ht hc
  have hoff : s.spc ≠ .off := by
    intro ho; rcases h.w.soff ho with h' | h' <;> rw [hd] at h' <;> cases h'
  cases hsc : s.scan with
  | false =>
    exact Or.inl (d_enabled (a := .cancelS) hx rfl (by
      simp only [dStep, hd]
      rw [if_neg (by
        intro hh; rcases hh with hh | hh
        · rw [hsc] at hh; cases hh
        · exact hj hh)]; rfl))
  | true =>
    cases hsp : s.spc with
    | waiting => exact Or.inr ⟨rfl, rfl⟩
    | off => exact absurd hsp hoff
    | cancelled => exact absurd hsp hc
    | intT => exact Or.inl (s_enabled (a := .time s.now) hx (by simp) (by simp [sStep, hsp]))
    | intT2 => exact Or.inl (s_enabled (a := .time s.now) hx (by simp) (by simp [sStep, hsp]))
    | tstpT => exact Or.inl (s_enabled (a := .time s.now) hx (by simp) (by simp [sStep, hsp]))
    | listLock =>
      left
      by_cases ht : s.thd = .none
      · exact s_enabled (a := .lockT) hx (by simp) (by simp [sStep, hsp, ht])
      · exact thd_holder_moves h hx ht hc
    | abLock =>
      left
      by_cases ht : s.thd = .none
      · exact s_enabled (a := .lockT) hx (by simp) (by simp [sStep, hsp, ht])
      · exact thd_holder_moves h hx ht hc
    | listing k =>
      left
      cases k with
      | zero => exact s_enabled (a := .unlockT) hx (by simp) (by simp [sStep, hsp])
      | succ k => exact s_enabled (a := .time s.now) hx (by simp) (by simp [sStep, hsp])
    | printing k =>
      left
      cases k with
      | zero => exact s_enabled (a := .time s.now) hx (by simp) (by simp [sStep, hsp])
      | succ k => exact s_enabled (a := .time s.now) hx (by simp) (by simp [sStep, hsp])
    | fwding k =>
      left
      rcases fwd_or_done s.ts k s.ts.length with hn | ⟨j, hlt, hk, hr, hn⟩
      · exact s_enabled (a := .unlockT) hx (by simp) (by simp [sStep, hsp, hn])
      · have hg : s.ts[j]? = some TS.reading := getElem?_of_getD' hr (by simp)
        exact s_enabled (a := .fwd j) hx (by simp) (by simp [sStep, hsp, hk, hg, hn])
    | exiting => exact Or.inl (s_enabled (a := .exit 1) hx (by simp) (by simp [sStep, hsp]))
    | stopping => exact Or.inl (s_enabled (a := .stop) hx (by simp) (by simp [sStep, hsp]))
    | cancLock =>
      left
      by_cases ho : s.own = .none
      · exact s_enabled (a := .lock) hx (by simp) (by simp [sStep, hsp, ho])
      · exact own_holder_moves h hx ho hnd hc
    | cancUnlock => exact Or.inl (s_enabled (a := .unlock) hx (by simp) (by simp [sStep, hsp]))

theorem progress_inv {s : St} (h : Inv s) (hf : 0 < s.f) (hx : s.exited = none) (hnf : s.dpc ≠ .returned) :
    CanGoOn s ∨ (s.scan = true ∧ s.spc = .waiting) := by
  by_cases hfin : s.dpc = .finishing
  · exact finishing_moves h hx hfin
  left
  have parkedCase : s.dpc.holds = false → s.dpc ≠ .finishing → 0 < s.tc + s.ws.countP isLocked → CanGoOn s := by
    intro hnh hnfin hpos
    have hnc := not_cancelled h hnfin hnf
    apply worker_can_move h hx _ hnc
    · by_cases hl : 0 < s.ws.countP isLocked
      · obtain ⟨j, hj, _⟩ := exists_of_countP_pos' isLocked WP.idle hl
        refine ⟨j, Or.inr ?_⟩
        show holdsW (s.ws.getD j .idle) = true
        revert hj; cases s.ws.getD j .idle <;> simp [isLocked, holdsW]
      · have hc : 0 < s.ws.countP counted := by rw [← h.f.cnt]; omega
        obtain ⟨j, hj, _⟩ := exists_of_countP_pos' counted WP.idle hc
        exact ⟨j, Or.inl hj⟩
    · intro hc; have := h.m.ownD.mp hc; rw [hnh] at this; cases this
  cases hd : s.dpc with
  | top =>
    by_cases hoff : s.spc = .off
    · exact startup hx hoff
    · rcases free_or_move h hx (by rw [hd]; rfl) (not_cancelled h (by simp [hd]) hnf) with ho | hm
      · exact d_enabled (a := .lock) hx rfl (by simp [dStep, hd, ho, hoff, roomTest])
      · exact hm
  | wait => exact d_enabled (a := .wait) hx rfl (by simp [dStep, hd])
  | parked =>
    cases hsg : s.sig with
    | true => exact d_enabled (a := .wake false) hx rfl (by simp [dStep, hd, hsg])
    | false =>
      have := h.f.park hd hsg
      exact parkedCase (by rw [hd]; rfl) (by simp [hd]) (by omega)
  | woken =>
    rcases free_or_move h hx (by rw [hd]; rfl) (not_cancelled h (by simp [hd]) hnf) with ho | hm
    · apply d_enabled (a := .relock) hx rfl
      simp only [dStep, hd, ho]; cases s.v <;> simp [roomTest] <;> split <;> rfl
    · exact hm
  | create =>
    by_cases hsk : skip s.ts s.i < s.ws.length
    · exact d_enabled (a := .create (skip s.ts s.i)) hx rfl (by simp [dStep, hd, hsk])
    · exact d_enabled (a := .unlock) hx rfl (by simp [dStep, hd]; omega)
  | unlock => exact d_enabled (a := .unlock) hx rfl (by simp [dStep, hd])
  | dtop =>
    by_cases hoff : s.spc = .off
    · exact startup hx hoff
    · rcases free_or_move h hx (by rw [hd]; rfl) (not_cancelled h (by simp [hd]) hnf) with ho | hm
      · exact d_enabled (a := .lock) hx rfl (by simp [dStep, hd, ho, hoff, drainTest])
      · exact hm
  | dwait => exact d_enabled (a := .wait) hx rfl (by simp [dStep, hd])
  | dparked =>
    cases hsg : s.sig with
    | true => exact d_enabled (a := .wake false) hx rfl (by simp [dStep, hd, hsg])
    | false =>
      have := h.f.dpark hd hsg
      exact parkedCase (by rw [hd]; rfl) (by simp [hd]) this
  | dwoken =>
    rcases free_or_move h hx (by rw [hd]; rfl) (not_cancelled h (by simp [hd]) hnf) with ho | hm
    · exact d_enabled (a := .relock) hx rfl (by simp [dStep, hd, ho, drainTest])
    · exact hm
  | dunlock => exact d_enabled (a := .unlock) hx rfl (by simp [dStep, hd])
  | finishing => exact absurd hd hfin
  | returned => exact absurd hd hnf

/-- in sigwait with the cancellation pending the signals thread ends -/
theorem die_enabled {s : St} (hx : s.exited = none) (hsc : s.scan = true) (hw : s.spc = .waiting) : CanMove s :=
  ⟨.s .die, by simp [Label.proper, Label.spurious, Label.isEnv], by rw [step_of_s hx]; simp [sStep, hsc, hw]⟩

theorem progress_move {s : St} (h : Inv s) (hf : 0 < s.f) (hx : s.exited = none) (hnf : s.dpc ≠ .returned) :
    CanMove s := by
  rcases progress_inv h hf hx hnf with hm | ⟨h1, h2⟩
  · exact hm.canMove
  · exact die_enabled hx h1 h2

end PdshVerif.Dsh.Sig
