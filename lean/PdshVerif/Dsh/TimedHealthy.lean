import PdshVerif.Dsh.TimedInv

/-! # Timed LTS: a healthy target is never interrupted and is relayed completely -/
namespace PdshVerif.Dsh.Timed
open PdshVerif.Dsh

/-- bytes the remote side sends on a stream before it ends it -/
def dataBefore : List Item → Nat
  | [] => 0
  | it :: rest =>
      match it.kind with
      | .data n => n + dataBefore rest
      | _ => 0

/-- a stream that ends by itself in time: every item arrives, within the command timeout if there is one,
    and there is no read error -/
def StreamOK (c : Cfg) (items : List Item) : Prop :=
  ∀ it ∈ items, (∃ t, it.t = some t ∧ (c.ut = 0 ∨ t ≤ c.ut)) ∧ it.kind ≠ .err

/-- a healthy target: accepts the connection within the connect timeout, both polled streams end by
    themselves within the command timeout (0 = no limit) -/
def Healthy (c : Cfg) (sc : Script) (d : Nat) : Prop :=
  sc.conn = .ok d ∧ (c.ct = 0 ∨ d ≤ c.ct) ∧ StreamOK c sc.out ∧ (c.sopt = true → StreamOK c sc.err)

structure StrInv (c : Cfg) (script : List Item) (st : Stream) : Prop where
  ok : StreamOK c st.items
  cons : st.got + dataBefore st.items = dataBefore script
  nil : st.closed = true → st.items = []

/-- the next item of an open stream is still in the future (or due exactly now) -/
def headLater (base now : Nat) (st : Stream) : Prop :=
  st.closed = false → ∃ it rest t, st.items = it :: rest ∧ it.t = some t ∧ now ≤ base + t

theorem streamOK_tail {c : Cfg} {it : Item} {rest : List Item} (h : StreamOK c (it :: rest)) : StreamOK c rest :=
  fun x hx => h x (List.mem_cons_of_mem _ hx)

theorem pumpItems_ok (c : Cfg) (base now : Nat) : ∀ (items : List Item) (got : Nat), StreamOK c items →
    StreamOK c (pumpItems base now items got).1.items ∧
    (pumpItems base now items got).1.got + dataBefore (pumpItems base now items got).1.items = got + dataBefore items ∧
    ((pumpItems base now items got).1.closed = true → (pumpItems base now items got).1.items = []) ∧
    (pumpItems base now items got).2 = false ∧
    ((pumpItems base now items got).1.closed = false →
      ∃ it rest t, (pumpItems base now items got).1.items = it :: rest ∧ it.t = some t ∧ now < base + t)
  | [], got, _ => by simp [pumpItems, dataBefore, StreamOK]
  | it :: rest, got, hok => by
      have hit := hok it (List.mem_cons_self)
      obtain ⟨⟨t, ht, _⟩, hne⟩ := hit
      simp only [pumpItems]
      by_cases hav : it.avail base now = true
      · simp only [hav, if_true]
        cases hk : it.kind with
        | data n =>
          have ih := pumpItems_ok c base now rest (got + n) (streamOK_tail hok)
          refine ⟨ih.1, ?_, ih.2.2.1, ih.2.2.2.1, ih.2.2.2.2⟩
          rw [ih.2.1]; simp [dataBefore, hk]; omega
        | eof => simp [dataBefore, hk, StreamOK]
        | err => exact absurd hk hne
      · simp only [hav]
        refine ⟨hok, rfl, by simp, rfl, ?_⟩
        intro _
        refine ⟨it, rest, t, rfl, ht, ?_⟩
        simp only [Item.avail, ht, decide_eq_true_eq] at hav
        omega

theorem pump_ok {c : Cfg} {script : List Item} {st : Stream} (base now : Nat) (hs : StrInv c script st) :
    StrInv c script (st.pump base now).1 ∧ (st.pump base now).2 = false ∧
    ((st.pump base now).1.closed = false →
      ∃ it rest t, (st.pump base now).1.items = it :: rest ∧ it.t = some t ∧ now < base + t) := by
  simp only [Stream.pump]
  cases hc : st.closed with
  | true => simp [hs, hc]
  | false =>
    simp only [Bool.false_eq_true, if_false]
    have := pumpItems_ok c base now st.items st.got hs.ok
    exact ⟨⟨this.1, by rw [this.2.1]; exact hs.cons, this.2.2.1⟩, this.2.2.2.1, this.2.2.2.2⟩

theorem pump_closed {st : Stream} (base now : Nat) (hc : st.closed = true) : (st.pump base now) = (st, false) := by
  simp [Stream.pump, hc]

/-- the invariant of a healthy target -/
structure HH (c : Cfg) (sc : Script) (d now : Nat) (h : Host) : Prop where
  intr : h.intr = false
  connNow : h.ph = .connecting → now ≤ h.cbeg + d
  out : StrInv c sc.out h.out
  err : c.sopt = true → StrInv c sc.err h.err
  errC : c.sopt = false → h.err.closed = true
  outHead : h.ph = .reading → headLater h.conn now h.out
  errHead : h.ph = .reading → headLater h.conn now h.err
  opn : h.ph = .reading → h.out.closed = false ∨ h.err.closed = false
  fin : h.ph = .finished → h.res = .done ∧ h.out.closed = true ∧ h.err.closed = true

theorem hh_init {c : Cfg} {sc : Script} {d : Nat} (hh : Healthy c sc d) (now : Nat) : HH c sc d now (initHost c sc) := by
  obtain ⟨_, _, ho, he⟩ := hh
  constructor <;> simp [initHost]
  · exact ⟨ho, by simp, by simp⟩
  · intro hs; exact ⟨he hs, by simp, by simp [hs]⟩

/-- a poll round of a healthy target: nothing is lost, and afterwards it is finished or waits for the future -/
theorem hh_pollRound {c : Cfg} {sc : Script} {d now : Nat} {h : Host} (hin : h.intr = false) (hph : h.ph = .reading)
    (ho : StrInv c sc.out h.out) (he : c.sopt = true → StrInv c sc.err h.err) (hec : c.sopt = false → h.err.closed = true) :
    HH c sc d now (h.pollRound now) := by
  have po := pump_ok h.conn now ho
  have hf := pollRound_frame now h
  cases hs : c.sopt with
  | true =>
    have pe := pump_ok h.conn now (he hs)
    simp only [Host.pollRound, po.2.1, pe.2.1]
    split
    · rename_i hcl
      simp only [Bool.and_eq_true] at hcl
      constructor <;> simp [hin, hcl, po.1, pe.1]
    · rename_i hcl
      have hcl' : ¬ ((h.out.pump h.conn now).1.closed = true ∧ (h.err.pump h.conn now).1.closed = true) := by
        simpa [Bool.and_eq_true] using hcl
      constructor <;> simp [hin, hph, po.1, pe.1, hs]
      · intro hc; obtain ⟨it, rest, t, h1, h2, h3⟩ := po.2.2 hc; exact ⟨it, rest, t, h1, h2, by omega⟩
      · intro hc; obtain ⟨it, rest, t, h1, h2, h3⟩ := pe.2.2 hc; exact ⟨it, rest, t, h1, h2, by omega⟩
      · cases h1 : (h.out.pump h.conn now).1.closed with
        | false => exact Or.inl rfl
        | true =>
          cases h2 : (h.err.pump h.conn now).1.closed with
          | false => exact Or.inr rfl
          | true => exact absurd ⟨h1, h2⟩ hcl'
  | false =>
    have hc := hec hs
    have pe := pump_closed h.conn now hc
    simp only [Host.pollRound, po.2.1, pe]
    split
    · rename_i hcl
      simp only [Bool.and_eq_true] at hcl
      constructor <;> simp [hin, hcl, po.1, hs, hc]
    · rename_i hcl
      have hcl' : ¬ ((h.out.pump h.conn now).1.closed = true) := by
        simpa [Bool.and_eq_true, hc] using hcl
      constructor <;> simp [hin, hph, po.1, hs, hc]
      · intro hc'; obtain ⟨it, rest, t, h1, h2, h3⟩ := po.2.2 hc'; exact ⟨it, rest, t, h1, h2, by omega⟩
      · intro hc'; rw [hc] at hc'; cases hc'
      · cases h1 : (h.out.pump h.conn now).1.closed with
        | false => rfl
        | true => exact absurd h1 hcl'

/-- a healthy target that is still reading is not overdue -/
theorem hh_not_overdue {c : Cfg} {sc : Script} {d now : Nat} {h : Host} (hh : HH c sc d now h) (hph : h.ph = .reading) :
    ¬ (c.selfCheck = true ∧ 0 < c.ut ∧ h.conn + c.ut < now) := by
  rintro ⟨_, hu, hlt⟩
  rcases hh.opn hph with hop | hop
  · obtain ⟨it, rest, t, h1, h2, h3⟩ := hh.outHead hph hop
    obtain ⟨t', ht', hb⟩ := (hh.out.ok it (by rw [h1]; exact List.mem_cons_self)).1
    rw [h2] at ht'; cases ht'
    rcases hb with hz | hle <;> omega
  · obtain ⟨it, rest, t, h1, h2, h3⟩ := hh.errHead hph hop
    have hs : c.sopt = true := by
      cases hso' : c.sopt with
      | true => rfl
      | false => have := hh.errC hso'; rw [hop] at this; cases this
    obtain ⟨t', ht', hb⟩ := ((hh.err hs).ok it (by rw [h1]; exact List.mem_cons_self)).1
    rw [h2] at ht'; cases ht'
    rcases hb with hz | hle <;> omega

/-- a healthy target never trips the worker's own timeout test either -/
theorem hh_selfTimeout {c : Cfg} {sc : Script} {d now : Nat} {h : Host} (hh : HH c sc d now h) :
    HH c sc d now (h.selfTimeout c now) := by
  have hno : ¬ (c.selfCheck = true ∧ h.ph = .reading ∧ 0 < c.ut ∧ h.conn + c.ut < now) := by
    rintro ⟨_, hph, hu, hlt⟩
    rcases hh.opn hph with hop | hop
    · obtain ⟨it, rest, t, h1, h2, h3⟩ := hh.outHead hph hop
      obtain ⟨t', ht', hb⟩ := (hh.out.ok it (by rw [h1]; exact List.mem_cons_self)).1
      rw [h2] at ht'; cases ht'
      rcases hb with hz | hle <;> omega
    · obtain ⟨it, rest, t, h1, h2, h3⟩ := hh.errHead hph hop
      have hs : c.sopt = true := by
        cases hso' : c.sopt with
        | true => rfl
        | false => have := hh.errC hso'; rw [hop] at this; cases this
      obtain ⟨t', ht', hb⟩ := ((hh.err hs).ok it (by rw [h1]; exact List.mem_cons_self)).1
      rw [h2] at ht'; cases ht'
      rcases hb with hz | hle <;> omega
  simp only [Host.selfTimeout, hno, if_false]; exact hh

theorem dstep_fan_none_guard {s : St} {l : FanG.Label} {f' : FanG.St} (hf : FanG.step s.fan l = some f')
    (hn : dstep s (.fan l) = none) : fanGuard s l = false := by
  cases hg : fanGuard s l with
  | false => rfl
  | true => have := dstep_fan_some hf hg; rw [hn] at this; cases this

theorem fanLocal_cases {fl : FanG.Label} {k : Nat} {lo : Local} (h : fanLocal fl = some (k, lo)) :
    lo = .create ∨ lo = .connBegin ∨ lo = .connEnd ∨ lo = .destEnd := by
  cases fl with
  | d a => cases a <;> simp [fanLocal] at h; exact Or.inl h.2.symm
  | w i a => cases a <;> simp [fanLocal] at h
             · exact Or.inr (Or.inl h.2.symm)
             · exact Or.inr (Or.inr (Or.inl h.2.symm))
             · exact Or.inr (Or.inr (Or.inr h.2.symm))

/-- a healthy target stays healthy, whatever step the system takes -/
theorem hh_step {s s' : St} {l : Label} (hi : TInv s) (h : step s l = some s') {j d : Nat} (hj : j < s.hs.length)
    (hhl : Healthy s.cfg (s.script j) d) (hh : HH s.cfg (s.script j) d s.now (s.host j)) :
    HH s'.cfg (s'.script j) d s'.now (s'.host j) := by
  have hpar := step_params h
  rw [hpar.1, script_congr hpar.2.1, host_local' h hj]
  obtain ⟨hconn, hct, hso, hse⟩ := hhl
  have hsy := hi.sync j hj
  have hho := hi.hosts j hj
  cases l with
  | tick =>
    obtain ⟨hq, he⟩ := step_tick_facts h
    have hnow : s'.now = s.now + 1 := by rw [he]
    rw [hnow]; simp only [localOf, hostStep_other]
    refine { intr := hh.intr, connNow := ?_, out := hh.out, err := hh.err, errC := hh.errC, outHead := ?_,
             errHead := ?_, opn := hh.opn, fin := hh.fin }
    · intro hph
      have hpc := pc_of_connecting hsy hph
      obtain ⟨f', hf⟩ := fan_step_w_some (a := .connectEnd) (by rw [hpc]; rfl) (by simp)
      have hg := dstep_fan_none_guard hf (quiescent_none hq (mem_cands_w s hj _))
      simp [fanGuard, hh.intr, connReady, hconn] at hg
      omega
    · intro hph hcl
      obtain ⟨it, rest, t, h1, h2, h3⟩ := hh.outHead hph hcl
      refine ⟨it, rest, t, h1, h2, ?_⟩
      have hn := quiescent_none hq (mem_cands_wake s hj)
      simp only [dstep, hj, hph, true_and] at hn
      split at hn
      · simp at hn
      · rename_i hne
        have : (s.host j).out.ready (s.host j).conn s.now = false := by
          cases hr : (s.host j).out.ready (s.host j).conn s.now with
          | false => rfl
          | true => exact absurd (Or.inr (Or.inl hr)) hne
        simp [Stream.ready, hcl, h1, Item.avail, h2] at this
        omega
    · intro hph hcl
      obtain ⟨it, rest, t, h1, h2, h3⟩ := hh.errHead hph hcl
      refine ⟨it, rest, t, h1, h2, ?_⟩
      have hn := quiescent_none hq (mem_cands_wake s hj)
      simp only [dstep, hj, hph, true_and] at hn
      split at hn
      · simp at hn
      · rename_i hne
        have : (s.host j).err.ready (s.host j).conn s.now = false := by
          cases hr : (s.host j).err.ready (s.host j).conn s.now with
          | false => rfl
          | true => exact absurd (Or.inr (Or.inr hr)) hne
        simp [Stream.ready, hcl, h1, Item.avail, h2] at this
        omega
  | scan =>
    obtain ⟨_, he⟩ := dstep_scan_facts (by simpa [step] using h)
    have hnow : s'.now = s.now := by rw [he]
    rw [hnow]; simp only [localOf, hostStep]
    -- the watchdog finds nothing overdue
    have hnk : killed s.cfg s.now (s.host j) = false := by
      cases hk : killed s.cfg s.now (s.host j) with
      | false => rfl
      | true =>
        exfalso
        rcases killed_cases hk with ⟨hph, hc, hlt⟩ | ⟨hph, hc, hlt⟩
        · have h1 := hh.connNow hph
          have h2 := hho.connBeg hph
          rcases hct with hz | hle <;> omega
        · rcases hh.opn hph with hop | hop
          · obtain ⟨it, rest, t, h1, h2, h3⟩ := hh.outHead hph hop
            have := (hh.out.ok it (by rw [h1]; exact List.mem_cons_self)).1
            obtain ⟨t', ht', hb⟩ := this
            rw [h2] at ht'; cases ht'
            rcases hb with hz | hle <;> omega
          · obtain ⟨it, rest, t, h1, h2, h3⟩ := hh.errHead hph hop
            have hs : s.cfg.sopt = true := by
              cases hso' : s.cfg.sopt with
              | true => rfl
              | false => have := hh.errC hso'; rw [hop] at this; cases this
            have := ((hh.err hs).ok it (by rw [h1]; exact List.mem_cons_self)).1
            obtain ⟨t', ht', hb⟩ := this
            rw [h2] at ht'; cases ht'
            rcases hb with hz | hle <;> omega
    simp only [hnk, Bool.false_eq_true, if_false]; exact hh
  | wake k =>
    obtain ⟨_, hph, _, he⟩ := dstep_wake_facts (by simpa [step] using h)
    have hnow : s'.now = s.now := by rw [he]
    rw [hnow]
    by_cases hkj : k = j
    · subst hkj
      simp only [localOf, if_true, hostStep, Host.wakeCore, hh.intr, Bool.false_eq_true, if_false,
        hh_not_overdue hh hph]
      exact hh_selfTimeout (hh_pollRound hh.intr hph hh.out hh.err hh.errC)
    · simp only [localOf, hkj, if_false, hostStep_other]; exact hh
  | fan fl =>
    obtain ⟨_, hg, he⟩ := dstep_fan_facts (by simpa [step] using h)
    have hnow : s'.now = s.now := by rw [he]
    rw [hnow]
    simp only [localOf]
    cases hfl : fanLocal fl with
    | none => simp only [hostStep_other]; exact hh
    | some p =>
      obtain ⟨k, lo⟩ := p
      by_cases hkj : k = j
      · subst hkj
        simp only [if_true]
        rcases fanLocal_cases hfl with rfl | rfl | rfl | rfl
        · simp only [hostStep]
          exact { intr := hh.intr, connNow := by simp, out := hh.out, err := hh.err, errC := hh.errC,
                  outHead := by simp, errHead := by simp, opn := by simp, fin := by simp }
        · simp only [hostStep]
          exact { intr := hh.intr, connNow := fun _ => Nat.le_add_right _ _, out := hh.out, err := hh.err,
                  errC := hh.errC, outHead := by simp, errHead := by simp, opn := by simp, fin := by simp }
        · simp only [hostStep, hh.intr, Bool.false_eq_true, if_false, hconn]
          exact hh_pollRound rfl rfl hh.out hh.err hh.errC
        · simp only [hostStep, hh.intr, Bool.false_eq_true, false_and, if_false]
          exact { intr := rfl, connNow := hh.connNow, out := hh.out, err := hh.err, errC := hh.errC,
                  outHead := hh.outHead, errHead := hh.errHead, opn := hh.opn, fin := hh.fin }
      · simp only [hkj, if_false, hostStep_other]; exact hh

/-- a healthy target is healthy in every reachable state -/
theorem hh_exec {v f c scripts} {ls : List Label} {s : St} (he : Exec (init v f c scripts) ls s) {j d : Nat}
    (hj : j < scripts.length) (hhl : Healthy c (scripts.getD j defaultScript) d) :
    s.cfg = c ∧ s.scripts = scripts ∧ s.hs.length = scripts.length ∧
    HH s.cfg (s.script j) d s.now (s.host j) := by
  induction he with
  | nil =>
    refine ⟨rfl, rfl, by simp [init], ?_⟩
    rw [host_init v f c scripts hj]
    exact hh_init hhl _
  | snoc he' hs ih =>
    obtain ⟨h1, h2, h3, h4⟩ := ih
    have hpar := step_params hs
    refine ⟨hpar.1.trans h1, hpar.2.1.trans h2, hpar.2.2.trans h3, ?_⟩
    have hti := tinv_exec (tinv_init v f c scripts) he'
    exact hh_step hti hs (by rw [h3]; exact hj) (by rw [h1]; simp only [St.script, h2]; exact hhl) h4

end PdshVerif.Dsh.Timed
