import PdshVerif.Dsh.SignalsGuarded
import PdshVerif.Dsh.SignalsErase
import PdshVerif.Dsh.ExitLemmas

/-! # The exit status of a run with interrupts: the signal-extended LTS (C20) composed with the -S loop of C08

`t[i].state` at the end of a run of `Dsh/Signals.lean` is what the loop at the end of dsh() (`Dsh/Exit.lean :
aggregate`, the model the C08 theorems are about) reads.  The per-target return codes are not part of the signals model
(they come from the relay, C08 `inband_end_to_end`): they are a parameter here. -/
namespace PdshVerif.Dsh.Sig
open PdshVerif.Dsh.Fan (Variant DPC)
open PdshVerif.Dsh

/-- how the -S loop reads a slot: `DSH_FAILED`, `DSH_CANCELED`, anything else is a command that ran -/
def exitState : TS → Exit.State
  | .failed => .failed
  | .canceled => .canceled
  | _ => .done

/-- what the -S loop sees at the end of the run: the slots' states with the targets' return codes -/
def finalHosts (ts : List TS) (rcs : List Int) : List Exit.Host :=
  List.zipWith (fun t rc => ({ state := exitState t, rc := rc } : Exit.Host)) ts rcs

theorem mem_finalHosts {ts : List TS} {rcs : List Int} {j : Nat} (h1 : j < ts.length) (h2 : j < rcs.length) :
    ({ state := exitState (ts.getD j .new), rc := rcs.getD j 0 } : Exit.Host) ∈ finalHosts ts rcs := by
  have hl : j < (finalHosts ts rcs).length := by simp [finalHosts]; omega
  have : (finalHosts ts rcs)[j] = { state := exitState (ts.getD j .new), rc := rcs.getD j 0 } := by
    simp [finalHosts, List.getD_eq_getElem?_getD, List.getElem?_eq_getElem h1, List.getElem?_eq_getElem h2]
  rw [← this]; exact List.getElem_mem hl

theorem finalHosts_rc {ts : List TS} {rcs : List Int} {h : Exit.Host} (hm : h ∈ finalHosts ts rcs) : h.rc ∈ rcs := by
  simp only [finalHosts, List.mem_iff_getElem, List.length_zipWith] at hm
  obtain ⟨i, hi, rfl⟩ := hm
  simp only [List.getElem_zipWith]
  exact List.getElem_mem (by omega)

/-- the -S loop over codes in 0..255 stays in 0..255 -/
theorem aggLoop_range (fx : Exit.Fixes) (a : Int) (hs : List Exit.Host) (ha : 0 ≤ a ∧ a ≤ 255)
    (hrc : ∀ h ∈ hs, 0 ≤ h.rc ∧ h.rc ≤ 255) : 0 ≤ Exit.aggLoop fx a hs ∧ Exit.aggLoop fx a hs ≤ 255 := by
  have hR : Exit.RC_FAILED = 254 := by decide
  induction hs generalizing a with
  | nil => simpa [Exit.aggLoop] using ha
  | cons h t ih =>
    simp only [Exit.aggLoop]
    apply ih
    · have := hrc h (by simp)
      split <;> split <;> (try split) <;> omega
    · intro x hx; exact hrc x (by simp [hx])

/-- **^C ^Z and -S**: a run in which `_cancel_pending_threads` found target `j` not yet started (repaired worker, the
    `canc` repair of the -S loop, codes in 0..255) that goes on to its normal end exits with a NON-ZERO status under -S:
    the slot is still DSH_CANCELED when dsh() returns (`canceled_skip_exec`), and the loop counts it as a failure -/
theorem canceled_run_S_nonzero {v : Variant} {sw : Bool} {f n t0 : Nat} {b : Bool} {s s' s'' : St} {ls : List Label} {j : Nat}
    (h : Reach v true sw f n b t0 s) (hs : step s (.s .lock) = some s') (he : Exec s' ls s'') (hj : j < n)
    (hnew : tsAt s j = .new) (fx : Exit.Fixes) (hc : fx.canc = true) (k : Bool) (rcs : List Int) (hl : rcs.length = n)
    (hrc : ∀ r ∈ rcs, 0 ≤ r ∧ r ≤ 255) :
    Exit.mainExit fx ⟨true, k⟩ (.started (finalHosts s''.ts rcs)) ≠ 0 := by
  obtain ⟨ls0, he0⟩ := h
  have hinv := inv_reach ⟨ls0, he0⟩
  have h' : Reach v true sw f n b t0 s' := ⟨ls0 ++ [.s .lock], Exec.snoc he0 hs⟩
  have h'' : Reach v true sw f n b t0 s'' := ⟨(ls0 ++ [.s .lock]) ++ ls, exec_append (Exec.snoc he0 hs) he⟩
  have hn : s.ts.length = n := (reach_params ⟨ls0, he0⟩).2.2.2.2
  have hn'' : s''.ts.length = n := (reach_params h'').2.2.2.2
  obtain ⟨hws, hts, _⟩ := cancel_effect (step_s hs)
  have hat := tsAt_map_cancel hts j (by omega)
  have hcj : tsAt s' j = .canceled := by rw [hat, hnew]; rfl
  have hsk : skipsConnect (pc s' j) = true := by
    rw [pc_congr hws]
    have := hinv.t.ok j
    rw [hnew] at this
    revert this; cases pc s j <;> simp [okTS, skipsConnect]
  have hg : s'.g = true := by
    have := exec_g (Exec.snoc he0 hs); simpa [init] using this
  obtain ⟨⟨_, hfin⟩, _⟩ := canceled_skip_exec hg (inv_reach h') he hsk hcj
  -- the canceled slot is among what the loop sees
  have hmem := mem_finalHosts (ts := s''.ts) (rcs := rcs) (j := j) (by omega) (by omega)
  have hst : exitState (s''.ts.getD j .new) = .canceled := by
    have : s''.ts.getD j .new = .canceled := hfin
    rw [this]; rfl
  rw [hst] at hmem
  -- the loop's result is in 1..255
  have hR : Exit.RC_FAILED = 254 := by decide
  have hrange := aggLoop_range fx 0 ((finalHosts s''.ts rcs).map (Exit.seen fx)) (by omega) (by
    intro x hx
    obtain ⟨y, hy, rfl⟩ := List.mem_map.mp hx
    have : (Exit.seen fx y).rc = y.rc := by simp only [Exit.seen]; split <;> rfl
    rw [this]; exact hrc _ (finalHosts_rc hy))
  have hne : Exit.aggregate fx (finalHosts s''.ts rcs) ≠ 0 := by
    intro h0
    have := (Exit.aggLoop_zero_iff fx _).mp h0 (Exit.seen fx ⟨.canceled, rcs.getD j 0⟩)
      (List.mem_map.mpr ⟨_, hmem, rfl⟩)
    simp [Exit.seen, hc] at this
  have hagg : Exit.aggregate fx (finalHosts s''.ts rcs) = Exit.aggLoop fx 0 ((finalHosts s''.ts rcs).map (Exit.seen fx)) := rfl
  simp only [Exit.mainExit, Exit.dshReturn, if_true]
  split
  · omega
  · simp only [Exit.exitStatus]
    rw [hagg] at hne ⊢
    omega

/-- **a single ^C and the exit status**: the -S loop reads the same slots after a run with a harmless interrupt as after
    the signal-free run obtained by erasing the signals thread's steps (`erase_commutes`): the exit status is the same,
    whatever the flags and the codes -/
theorem harmless_same_exit_status (s : St) (fx : Exit.Fixes) (fl : Exit.Flags) (rcs : List Int) :
    Exit.mainExit fx fl (.started (finalHosts (strip s).ts rcs)) = Exit.mainExit fx fl (.started (finalHosts s.ts rcs)) := rfl

end PdshVerif.Dsh.Sig
