import PdshVerif.Dsh.FanGInv

/-! # `Inv` is preserved by every step of the fan-out LTS -/
namespace PdshVerif.Dsh.FanG

theorem pc_congr {s s' : St} (h : s'.ws = s.ws) (j : Nat) : pc s' j = pc s j := by simp [pc, h]

/-- when the dispatcher finds `threadcount == 0` in the drain loop, holding the mutex, every worker is done -/
theorem all_done {s : St} (h : Inv s) (hown : s.own = .none) (htc : s.tc = 0) (hd : s.dpc.dispatching = false)
    (hnu : s.dpc ≠ .unlock) : ∀ j, j < s.ws.length → isOut (pc s j) = true := by
  intro j hj
  have hi := h.drain hd
  have h1 : pc s j ≠ .idle := by
    intro hc; have := (h.front j).mp hc; simp [frontier, hnu] at this; omega
  have h2 : holdsW (pc s j) = false := by
    cases hh : holdsW (pc s j) with
    | false => rfl
    | true => have := (h.ownW j).mpr hh; rw [hown] at this; cases this
  have h3 : counted (pc s j) = false := by
    have hz : s.ws.countP counted = 0 := by rw [← h.cnt, htc]
    rw [List.countP_eq_zero] at hz
    have hm : pc s j ∈ s.ws := by
      simp only [pc, List.getD_eq_getElem?_getD, List.getElem?_eq_getElem hj]; exact List.getElem_mem hj
    simpa using hz _ hm
  revert h1 h2 h3
  cases pc s j <;> simp [holdsW, counted, isOut]

/-- while the dispatcher holds the mutex no worker is between `threadcount--` and its signal -/
theorem no_locked {s : St} (h : Inv s) (ho : s.own = .d) : s.ws.countP isLocked = 0 := by
  rw [List.countP_eq_zero]; intro x hx
  obtain ⟨j, hj, he⟩ := List.mem_iff_getElem.mp hx
  have := h.ownW j
  rw [ho] at this
  have hp : pc s j = x := by simp [pc, List.getD_eq_getElem?_getD, List.getElem?_eq_getElem hj, he]
  rw [hp] at this
  cases x <;> simp_all [holdsW, isLocked]

theorem inv_d {s s' : St} {a : DAct} (h : Inv s) (hs : step s (.d a) = some s') : Inv s' := by
  have ⟨h1, h2, h3, h4, h5, h6, h7, h8, h9, h10, h11⟩ := h
  cases a with
  | lock =>
    simp only [step] at hs
    split at hs
    · -- top
      simp only [Option.some.injEq, roomTest] at hs
      split at hs <;> subst hs <;>
        constructor <;> simp_all [DPC.holds, DPC.dispatching, DPC.finished, frontier, pc]
    · -- dtop
      rename_i hd ho
      simp only [Option.some.injEq, drainTest] at hs
      split at hs
      · subst hs; constructor <;> simp_all [DPC.holds, DPC.dispatching, DPC.finished, frontier, pc]
      · rename_i htc
        have hdone := all_done h ho (by omega) (by simp [hd, DPC.dispatching]) (by simp [hd])
        subst hs; constructor <;> simp_all [DPC.holds, DPC.dispatching, DPC.finished, frontier, pc]
    · simp at hs
  | wait =>
    simp only [step] at hs
    split at hs <;> simp at hs <;> subst hs
    · rename_i hd
      have heq := h7 hd
      constructor <;> (try (simp_all [DPC.holds, DPC.dispatching, DPC.finished, frontier, pc]; done))
      intro _ _; dsimp only; omega
    · rename_i hd
      have hpos := h8 hd
      constructor <;> (try (simp_all [DPC.holds, DPC.dispatching, DPC.finished, frontier, pc]; done))
      intro _ _; dsimp only; omega
  | wake sp =>
    simp only [step] at hs
    split at hs <;> (try split at hs) <;> simp at hs <;> subst hs <;>
      constructor <;> simp_all [DPC.holds, DPC.dispatching, DPC.finished, frontier, pc]
  | relock =>
    simp only [step] at hs
    split at hs
    · -- woken
      split at hs
      · simp only [Option.some.injEq] at hs; subst hs
        constructor <;> simp_all [DPC.holds, DPC.dispatching, DPC.finished, frontier, pc]
      · simp only [Option.some.injEq, roomTest] at hs
        split at hs <;> subst hs <;>
          constructor <;> simp_all [DPC.holds, DPC.dispatching, DPC.finished, frontier, pc]
    · rename_i hd ho
      simp only [Option.some.injEq, drainTest] at hs
      split at hs
      · subst hs; constructor <;> simp_all [DPC.holds, DPC.dispatching, DPC.finished, frontier, pc]
      · rename_i htc
        have hdone := all_done h ho (by omega) (by simp [hd, DPC.dispatching]) (by simp [hd])
        subst hs; constructor <;> simp_all [DPC.holds, DPC.dispatching, DPC.finished, frontier, pc]
    · simp at hs
  | create j =>
    simp only [step] at hs
    split at hs <;> simp at hs
    rename_i hd
    obtain ⟨⟨hj, hlt⟩, hs⟩ := hs
    subst hs
    have hidle : pc s s.i = .idle := (h4 s.i).mpr (by simp [frontier, hd])
    have hget : s.ws[s.i]? = some W.idle := by
      rw [List.getElem?_eq_getElem hlt]
      simp only [pc, List.getD_eq_getElem?_getD, List.getElem?_eq_getElem hlt] at hidle
      simpa using hidle
    have hc := countP_set_of counted (b := W.started) hget
    have hpc : ∀ k, pc { s with dpc := DPC.unlock, ws := s.ws.set s.i W.started, tc := s.tc + 1 } k =
        if k = s.i then .started else pc s k := by
      intro k; simp only [pc]; split
      · subst_vars; exact getD_set_eq hlt
      · exact getD_set_ne (by omega)
    refine { cnt := ?_, ownD := ?_, ownW := ?_, front := ?_, disp := ?_, drain := ?_, waitEq := ?_, dwaitPos := ?_,
             fin := ?_, park := ?_, dpark := ?_ }
    · simp [counted] at hc; simp; omega
    · simp_all [DPC.holds]
    · intro k; rw [hpc]; split
      · have := h3 k; simp_all [DPC.holds, holdsW]
      · exact h3 k
    · intro k; rw [hpc]; simp only [frontier]; split
      · subst_vars; simp
      · have := h4 k; simp [frontier, hd] at this; rw [this]; simp; omega
    · intro _; simpa using hlt
    · simp [DPC.dispatching]
    · simp
    · simp
    · simp [DPC.finished]
    · simp
    · simp
  | unlock =>
    simp only [step] at hs
    split at hs <;> simp at hs <;> subst hs
    · rename_i hd
      have hlt := h5 (by simp [hd, DPC.dispatching])
      have ho : s.own = .d := h2.mpr (by simp [hd, DPC.holds])
      refine { cnt := h1, ownD := ?_, ownW := ?_, front := ?_, disp := ?_, drain := ?_, waitEq := ?_, dwaitPos := ?_,
               fin := ?_, park := ?_, dpark := ?_ }
      · split <;> simp [DPC.holds]
      · intro k
        have := h3 k; rw [ho] at this; simp at this
        show Owner.none = Owner.w k ↔ holdsW (pc s k) = true
        simp [this]
      · intro k; have := h4 k; simp [frontier, hd] at this
        simp only [pc] at this ⊢; rw [this]; simp only [frontier]; split <;> split <;> simp_all
      · split <;> simp_all [DPC.dispatching]
      · split <;> simp_all [DPC.dispatching]; omega
      · split <;> simp
      · split <;> simp
      · split <;> simp [DPC.finished]
      · split <;> simp
      · split <;> simp
    · rename_i hd
      constructor <;> simp_all [DPC.holds, DPC.dispatching, DPC.finished, frontier, pc]
  | ret =>
    simp only [step] at hs
    split at hs <;> simp at hs <;> subst hs
    constructor <;> simp_all [DPC.holds, DPC.dispatching, DPC.finished, frontier, pc]

/-! ## preservation: worker steps -/

theorem w_step_facts {s s' : St} {i : Nat} {a : WAct} (hs : step s (.w i a) = some s') :
    s.ws[i]? = some a.pre ∧ (a = .lock → s.own = .none) ∧
      s' = wEffect i { s with ws := s.ws.set i a.post } a := by
  simp only [step] at hs
  split at hs
  · rename_i hg; simp only [Option.some.injEq] at hs; exact ⟨hg.1, hg.2, hs.symm⟩
  · simp at hs

theorem pc_set {s : St} {i : Nat} {q : W} (hi : i < s.ws.length) (j : Nat) :
    (s.ws.set i q).getD j .idle = if j = i then q else pc s j := by
  split
  · subst_vars; exact getD_set_eq hi
  · exact getD_set_ne (by omega)

/-- a worker moves from `p` to `q`; the fields of `Inv` that only look at the worker list -/
structure WsInv (s : St) (ws' : List W) (i : Nat) (p q : W) : Prop where
  hi : i < s.ws.length
  hpci : pc s i = p
  len : ws'.length = s.ws.length
  pcs : ∀ j, ws'.getD j .idle = if j = i then q else pc s j
  cntC : ws'.countP counted + (if counted p then 1 else 0) = s.ws.countP counted + (if counted q then 1 else 0)
  cntL : ws'.countP isLocked + (if isLocked p then 1 else 0) = s.ws.countP isLocked + (if isLocked q then 1 else 0)
  cntR : ws'.countP isReleased + (if isReleased p then 1 else 0) =
    s.ws.countP isReleased + (if isReleased q then 1 else 0)

theorem wsInv_set {s : St} {i : Nat} {p q : W} (hpre : s.ws[i]? = some p) : WsInv s (s.ws.set i q) i p q :=
  { hi := lt_of_getElem? hpre, hpci := getD_of_getElem? hpre, len := by simp,
    pcs := pc_set (lt_of_getElem? hpre),
    cntC := countP_set_of counted hpre, cntL := countP_set_of isLocked hpre,
    cntR := countP_set_of isReleased hpre }

theorem inv_w {s s' : St} {i : Nat} {a : WAct} (h : Inv s) (hs : step s (.w i a) = some s') : Inv s' := by
  obtain ⟨hpre, hlk, rfl⟩ := w_step_facts hs
  have ⟨hi, hpci, hlen, hpc, hcnt, hlck, hrel⟩ := wsInv_set (q := a.post) hpre
  have ⟨h1, h2, h3, h4, h5, h6, h7, h8, h9, h10, h11⟩ := h
  -- worker i is not idle, hence behind the frontier
  have hfr : ¬ frontier s ≤ i := by
    intro hc; have := (h4 i).mpr hc; rw [hpci] at this; cases a <;> cases this
  have hown_i := h3 i
  rw [hpci] at hown_i
  -- fields that do not depend on the action
  have hfront : ∀ j, (s.ws.set i a.post).getD j .idle = .idle ↔ frontier s ≤ j := by
    intro j; rw [hpc]; split
    · subst_vars; constructor
      · intro hc; cases a <;> cases hc
      · intro hc; exact absurd hc hfr
    · exact h4 j
  -- once the dispatcher has seen `threadcount == 0` only late wake-up calls are left
  have hfin : s.dpc.finished = true → ∀ j, j < (s.ws.set i a.post).length →
      isOut ((s.ws.set i a.post).getD j .idle) = true := by
    intro hc j hj
    rw [hpc]; split
    · have := h9 hc i hi; rw [hpci] at this
      cases a <;> simp [isOut, WAct.pre, WAct.post] at this ⊢
    · exact h9 hc j (by simpa using hj)
  cases a with
  | lock =>
    have hon := hlk rfl
    have hnh : s.dpc.holds = false := by
      cases hh : s.dpc.holds with
      | false => rfl
      | true => have := h2.mpr hh; rw [hon] at this; cases this
    simp only [wEffect, WAct.pre, WAct.post] at *
    simp [counted, isLocked, isReleased] at hcnt hlck hrel
    refine { cnt := ?_, ownD := ?_, ownW := ?_, front := hfront, disp := ?_, drain := ?_, waitEq := ?_,
             dwaitPos := ?_, fin := hfin, park := ?_, dpark := ?_ }
    · dsimp only; omega
    · show Owner.w i = Owner.d ↔ _; simp [hnh]
    · intro j; show Owner.w i = Owner.w j ↔ holdsW ((s.ws.set i W.locked).getD j .idle) = true
      rw [hpc]; split
      · subst_vars; simp [holdsW]
      · have := h3 j; rw [hon] at this; simp at this
        simp [this]; omega
    · simpa using h5
    · simpa using h6
    · intro hd; have : s.dpc.holds = true := by rw [hd]; rfl
      rw [hnh] at this; cases this
    · intro hd; have : s.dpc.holds = true := by rw [hd]; rfl
      rw [hnh] at this; cases this
    · intro hd hsg; have := h10 hd hsg; dsimp only; omega
    · intro hd hsg; have := h11 hd hsg; dsimp only; omega
  | signal =>
    simp only [wEffect, WAct.pre, WAct.post] at *
    simp [counted, isLocked, isReleased] at hcnt hlck hrel
    simp [holdsW] at hown_i
    refine { cnt := ?_, ownD := h2, ownW := ?_, front := hfront, disp := ?_, drain := ?_, waitEq := h7,
             dwaitPos := h8, fin := hfin, park := ?_, dpark := ?_ }
    · dsimp only; omega
    · intro j; show s.own = Owner.w j ↔ holdsW ((s.ws.set i W.signaled).getD j .idle) = true
      rw [hpc]; split
      · subst_vars; simp [holdsW, hown_i]
      · exact h3 j
    · simpa using h5
    · simpa using h6
    · intro hd hsg
      have hd' : s.dpc = .parked := hd
      have : (s.sig || s.dpc.isParked) = false := hsg
      rw [hd'] at this; simp [DPC.isParked] at this
    · intro hd hsg
      have hd' : s.dpc = .dparked := hd
      have : (s.sig || s.dpc.isParked) = false := hsg
      rw [hd'] at this; simp [DPC.isParked] at this
  | signalAfter =>
    simp only [wEffect, WAct.pre, WAct.post] at *
    simp [counted, isLocked, isReleased] at hcnt hlck hrel
    simp [holdsW] at hown_i
    refine { cnt := ?_, ownD := h2, ownW := ?_, front := hfront, disp := ?_, drain := ?_, waitEq := h7,
             dwaitPos := h8, fin := hfin, park := ?_, dpark := ?_ }
    · dsimp only; omega
    · intro j; show s.own = Owner.w j ↔ holdsW ((s.ws.set i W.done).getD j .idle) = true
      rw [hpc]; split
      · subst_vars; simp [holdsW, hown_i]
      · exact h3 j
    · simpa using h5
    · simpa using h6
    · intro hd hsg
      have hd' : s.dpc = .parked := hd
      have : (s.sig || s.dpc.isParked) = false := hsg
      rw [hd'] at this; simp [DPC.isParked] at this
    · intro hd hsg
      have hd' : s.dpc = .dparked := hd
      have : (s.sig || s.dpc.isParked) = false := hsg
      rw [hd'] at this; simp [DPC.isParked] at this
  | unlock | unlockFirst =>
    simp only [wEffect, WAct.pre, WAct.post] at *
    simp [counted, isLocked, isReleased] at hcnt hlck hrel
    simp [holdsW] at hown_i
    have hnh : s.dpc.holds = false := by
      cases hh : s.dpc.holds with
      | false => rfl
      | true => have := h2.mpr hh; rw [hown_i] at this; cases this
    refine { cnt := ?_, ownD := ?_, ownW := ?_, front := hfront, disp := ?_, drain := ?_, waitEq := h7,
             dwaitPos := h8, fin := hfin, park := ?_, dpark := ?_ }
    · dsimp only; omega
    · show Owner.none = Owner.d ↔ _; simp [hnh]
    · intro j; show Owner.none = Owner.w j ↔ holdsW ((s.ws.set i _).getD j .idle) = true
      rw [hpc]; split
      · simp [holdsW]
      · have := h3 j; rw [hown_i] at this
        have hne : ¬ (Owner.w i = Owner.w j) := by intro hc; cases hc; omega
        simp [hne] at this; simp [this]
    · simpa using h5
    · simpa using h6
    · intro hd hsg; have := h10 hd hsg; dsimp only; omega
    · intro hd hsg; have := h11 hd hsg; dsimp only; omega
  | connectBegin | connectEnd | destroyBegin | destroyEnd =>
    simp only [wEffect, WAct.pre, WAct.post] at *
    simp [counted, isLocked, isReleased] at hcnt hlck hrel
    simp [holdsW] at hown_i
    refine { cnt := ?_, ownD := h2, ownW := ?_, front := hfront, disp := ?_, drain := ?_, waitEq := h7,
             dwaitPos := h8, fin := hfin, park := ?_, dpark := ?_ }
    · dsimp only; omega
    · intro j; show s.own = Owner.w j ↔ holdsW ((s.ws.set i _).getD j .idle) = true
      rw [hpc]; split
      · subst_vars; simp [holdsW, hown_i]
      · exact h3 j
    · simpa using h5
    · simpa using h6
    · intro hd hsg; have := h10 hd hsg; dsimp only; omega
    · intro hd hsg; have := h11 hd hsg; dsimp only; omega

theorem inv_step {s s' : St} {l : Label} (h : Inv s) (hs : step s l = some s') : Inv s' := by
  cases l with
  | d a => exact inv_d h hs
  | w i a => exact inv_w h hs

theorem inv_exec {s0 s : St} {ls : List Label} (h0 : Inv s0) (he : Exec s0 ls s) : Inv s := by
  induction he with
  | nil => exact h0
  | snoc _ hs ih => exact inv_step ih hs

theorem inv_reach {v f n s} (h : Reach v f n s) : Inv s := by
  obtain ⟨ls, he⟩ := h; exact inv_exec (inv_init v f n) he

end PdshVerif.Dsh.FanG
