import PdshVerif.Dsh.SignalsStepS

/-! # ^C ^Z: what `_cancel_pending_threads` does, and that a canceled slot without a thread never gets one -/
namespace PdshVerif.Dsh.Sig
open PdshVerif.Dsh.Fan (Variant DPC)

/-- the connection of this worker's host is not established as far as `t[i].state` knows: no thread yet,
    thread created, connecting, or connect returned but `_update_connect_state` not yet done -/
def preConnect : WP → Bool
  | .idle | .started | .rcmdL | .ready | .connecting | .connOk | .connFail | .updT => true
  | _ => false

theorem cancel_effect {s s' : St} (hs : sStep s .lock = some s') :
    s'.ws = s.ws ∧ s'.ts = s.ts.map cancelT ∧ s'.ncanc = s.ts.countP isPending ∧ s'.tc = s.tc ∧
      s'.dpc = s.dpc ∧ s'.i = s.i := by
  simp only [sStep] at hs
  split at hs <;> simp at hs; subst hs
  simp

theorem tsAt_map_cancel {s s' : St} (hts : s'.ts = s.ts.map cancelT) (j : Nat) (hj : j < s.ts.length) :
    tsAt s' j = cancelT (tsAt s j) := by
  show s'.ts.getD j .new = _
  rw [hts, tsAt_cancel, if_pos hj]

theorem okTS_pending {p : WP} {t : TS} (h : okTS p t = true) (hp : isPending t = true) : preConnect p = true := by
  cases p <;> cases t <;> simp_all [okTS, isPending, preConnect]

/-- a slot that is canceled and has no thread stays that way -/
theorem canceled_idle_step {s s' : St} {l : Label} {j : Nat} (ht : TInv s) (hp : pc s j = .idle)
    (hc : tsAt s j = .canceled) (hs : step s l = some s') : pc s' j = .idle ∧ tsAt s' j = .canceled := by
  have hj : j < s.ts.length := by
    apply Nat.lt_of_not_le; intro hge
    have : tsAt s j = .new := getD_ge' hge
    rw [this] at hc; cases hc
  cases l with
  | g a => rw [g_step_frame (step_wd hs)]; exact ⟨hp, hc⟩
  | e a =>
    obtain ⟨hws, hts, _⟩ := e_step_frame (step_e hs)
    exact ⟨by rw [pc_congr hws]; exact hp, by rw [tsAt_congr hts]; exact hc⟩
  | s a =>
    obtain ⟨hws, _, _, _, _, _, hts⟩ := s_step_frame (step_s hs)
    refine ⟨by rw [pc_congr hws]; exact hp, ?_⟩
    rcases hts with hts | ⟨_, hts⟩
    · rw [tsAt_congr hts]; exact hc
    · rw [tsAt_map_cancel hts j hj, hc]; rfl
  | w i a =>
    obtain ⟨p, q, ⟨hi, hpci, hn, _, _⟩, rfl⟩ := w_facts (step_w hs)
    have hne : j ≠ i := by
      intro he; subst he
      rw [hp] at hpci
      exact (tbl_ends hn).1 hpci.symm
    rw [pc_after hi, tsAt_after (by rw [ht.len]; exact hi), if_neg hne, if_neg hne]
    exact ⟨hp, hc⟩
  | d a =>
    have hd := step_d hs
    cases a with
    | create k =>
      simp only [dStep] at hd
      split at hd <;> simp at hd
      obtain ⟨⟨hk, hlt⟩, hd⟩ := hd
      subst hd
      have hne : j ≠ k := by
        intro he; subst he
        have := skip_stop s.ts s.i (by rw [← hk, ht.len]; exact hlt)
        rw [← hk] at this
        exact this hc
      refine ⟨?_, hc⟩
      show (s.ws.set k WP.started).getD j .idle = .idle
      rw [getD_set' hlt, if_neg hne]; exact hp
    | createG | createS | lock | wait | wake _ | relock | unlock | cancelG | joinG | cancelS | ret =>
      have : s'.ws = s.ws ∧ s'.ts = s.ts := by
        simp only [dStep] at hd
        (repeat' split at hd) <;> simp [roomTest, drainTest] at hd <;> (try split at hd) <;>
          (try subst hd) <;> simp_all
      exact ⟨by rw [pc_congr this.1]; exact hp, by rw [tsAt_congr this.2]; exact hc⟩

theorem canceled_idle_exec {s0 s : St} {ls : List Label} {j : Nat} (h0 : Inv s0) (he : Exec s0 ls s)
    (hp : pc s0 j = .idle) (hc : tsAt s0 j = .canceled) :
    (pc s j = .idle ∧ tsAt s j = .canceled) ∧ ∀ a, Label.w j a ∉ ls := by
  induction he with
  | nil => exact ⟨⟨hp, hc⟩, by simp⟩
  | snoc he' hs ih =>
    rename_i ls0 s1 l s2
    obtain ⟨⟨ip, ic⟩, inl⟩ := ih
    refine ⟨canceled_idle_step (inv_exec h0 he').t ip ic hs, ?_⟩
    intro a hm
    rcases List.mem_append.mp hm with h | h
    · exact inl a h
    · simp at h; subst h
      obtain ⟨p, q, ⟨_, hpci, hn, _, _⟩, _⟩ := w_facts (step_w hs)
      rw [ip] at hpci
      exact (tbl_ends hn).1 hpci.symm

/-- no thread of pdsh ever holds both mutexes (so there is no lock order to violate): a worker holds
    threadcount_mutex only in its epilogue, thd_mutex only around its state writes; the dispatcher never takes
    thd_mutex; the signals thread, while alive, holds thd_mutex only in `_list_slowthreads`/`_fwd_signal` and
    threadcount_mutex only in `_cancel_pending_threads` -/
theorem no_nested_locks {s : St} (h : MInv s) :
    (∀ j, ¬ (s.own = .w j ∧ s.thd = .w j)) ∧ s.thd ≠ .d ∧ (s.spc ≠ .cancelled → ¬ (s.own = .s ∧ s.thd = .s)) := by
  refine ⟨?_, h.thdD, ?_⟩
  · intro j ⟨ho, ht⟩
    have h1 := (h.ownW j).mp ho
    have h2 := (h.thdW j).mp ht
    revert h1 h2; cases pc s j <;> simp [holdsW, holdsT]
  · intro hnc ⟨ho, ht⟩
    rcases h.ownS2 ho with h1 | h1
    · rcases h.thdS2 ht with h2 | h2
      · rw [h1] at h2; simp [SPC.holdsT] at h2
      · exact hnc h2
    · exact hnc h1

end PdshVerif.Dsh.Sig
