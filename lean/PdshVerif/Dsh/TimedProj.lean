import PdshVerif.Dsh.Timed
import PdshVerif.Dsh.FanGStep

/-! # Timed LTS: what a step does (facts), projection onto the Fan LTS, locality of host records -/
namespace PdshVerif.Dsh.Timed
open PdshVerif.Dsh

/-! ## step facts -/

theorem dstep_fan_facts {s s' : St} {l : FanG.Label} (h : dstep s (.fan l) = some s') :
    FanG.step s.fan l = some s'.fan ∧ fanGuard s l = true ∧
    s' = { s with fan := s'.fan,
                  hs := match fanLocal l with
                        | some (i, lo) => updHost s i lo
                        | none => s.hs } := by
  simp only [dstep] at h
  split at h
  · simp at h
  · rename_i f' hf
    split at h
    · rename_i hg
      split at h <;> simp only [Option.some.injEq] at h <;> subst h <;> simp_all
    · simp at h

theorem dstep_wake_facts {s s' : St} {i : Nat} (h : dstep s (.wake i) = some s') :
    i < s.hs.length ∧ (s.host i).ph = .reading ∧
    ((s.host i).intr = true ∨ (s.host i).out.ready (s.host i).conn s.now = true ∨
      (s.host i).err.ready (s.host i).conn s.now = true) ∧
    s' = { s with hs := updHost s i .wake } := by
  simp only [dstep] at h
  split at h
  · rename_i hg; simp only [Option.some.injEq] at h
    exact ⟨hg.1, hg.2.1, hg.2.2, h.symm⟩
  · simp at h

theorem dstep_scan_facts {s s' : St} (h : dstep s .scan = some s') :
    s.wake ≤ s.now ∧
    s' = { s with wake := s.now + WDOG_POLL,
                  hs := s.hs.mapIdx fun i h => hostStep s.cfg (s.script i) s.now h .scan } := by
  simp only [dstep] at h
  split at h
  · rename_i hg; simp only [Option.some.injEq] at h; exact ⟨hg.1, h.symm⟩
  · simp at h

theorem step_tick_facts {s s' : St} (h : step s .tick = some s') :
    quiescent s = true ∧ s' = { s with now := s.now + 1 } := by
  simp only [step] at h
  split at h
  · rename_i hq; simp only [Option.some.injEq] at h; exact ⟨hq.1, h.symm⟩
  · simp at h

theorem step_tick_notret {s s' : St} (h : step s .tick = some s') : s.fan.dpc ≠ .returned := by
  simp only [step] at h
  split at h
  · rename_i hq; exact hq.2
  · simp at h

theorem step_eq_dstep {s : St} {l : Label} (hl : l ≠ .tick) : step s l = dstep s l := by
  cases l <;> simp [step] at hl ⊢

/-! ## parameters never change -/

theorem step_params {s s' : St} {l : Label} (h : step s l = some s') :
    s'.cfg = s.cfg ∧ s'.scripts = s.scripts ∧ s'.hs.length = s.hs.length := by
  cases l with
  | fan fl =>
    obtain ⟨_, _, he⟩ := dstep_fan_facts (by simpa [step] using h)
    rw [he]; refine ⟨rfl, rfl, ?_⟩
    simp only []; split <;> simp [updHost]
  | wake i =>
    obtain ⟨_, _, _, he⟩ := dstep_wake_facts (by simpa [step] using h)
    rw [he]; simp [updHost]
  | scan =>
    obtain ⟨_, he⟩ := dstep_scan_facts (by simpa [step] using h)
    rw [he]; simp
  | tick =>
    obtain ⟨_, he⟩ := step_tick_facts h
    rw [he]; simp

theorem script_congr {s s' : St} (h : s'.scripts = s.scripts) (i : Nat) : s'.script i = s.script i := by
  simp [St.script, h]

/-! ## projection onto the Fan LTS -/

def projLabel : Label → Option FanG.Label
  | .fan l => some l
  | _ => none

theorem step_proj {s s' : St} {l : Label} (h : step s l = some s') :
    match projLabel l with
    | some fl => FanG.step s.fan fl = some s'.fan
    | none => s'.fan = s.fan := by
  cases l with
  | fan fl => exact (dstep_fan_facts (by simpa [step] using h)).1
  | wake i => obtain ⟨_, _, _, he⟩ := dstep_wake_facts (by simpa [step] using h); rw [he]; rfl
  | scan => obtain ⟨_, he⟩ := dstep_scan_facts (by simpa [step] using h); rw [he]; rfl
  | tick => obtain ⟨_, he⟩ := step_tick_facts h; rw [he]; rfl

/-- every timed execution, with the clock, the watchdog and the reads forgotten, is an execution of the
    Fan LTS: the C03 / C04 theorems hold of the timed system as they stand -/
theorem exec_proj {s0 s : St} {ls : List Label} (he : Exec s0 ls s) :
    FanG.Exec s0.fan (ls.filterMap projLabel) s.fan := by
  induction he with
  | nil => exact FanG.Exec.nil
  | snoc he' hs ih =>
    rename_i ls0 s1 l0 s2
    have hp := step_proj hs
    rw [List.filterMap_append]
    cases hl : projLabel l0 with
    | none =>
      rw [hl] at hp
      simp [List.filterMap, hl, hp]; exact ih
    | some fl =>
      rw [hl] at hp
      have : List.filterMap projLabel [l0] = [fl] := by simp [List.filterMap, hl]
      rw [this]; exact FanG.Exec.snoc ih hp

theorem reach_proj {v f c scripts s} (h : Reach v f c scripts s) : FanG.Reach v f scripts.length s.fan := by
  obtain ⟨ls, he⟩ := h
  exact ⟨_, by simpa [init] using exec_proj he⟩

/-! ## locality: a host's record evolves as a function of itself, its script, the timeouts and the clock -/

def localOf (j : Nat) : Label → Local
  | .fan l => match fanLocal l with
      | some (i, lo) => if i = j then lo else .other
      | none => .other
  | .wake i => if i = j then .wake else .other
  | .scan => .scan
  | .tick => .other

theorem hostStep_other (c : Cfg) (sc : Script) (now : Nat) (h : Host) : hostStep c sc now h .other = h := rfl

theorem getElem?_updHost (s : St) (i : Nat) (lo : Local) (j : Nat) :
    (updHost s i lo)[j]? = (s.hs[j]?).map fun h =>
      if i = j then hostStep s.cfg (s.script i) s.now h lo else h := by
  simp [updHost, List.getElem?_modify]

/-- NON-INTERFERENCE, one step: whatever step the system takes, target `j`'s record afterwards is
    `hostStep` of its record before — a function of that record, `j`'s OWN script, the two timeouts and
    the current time, and of nothing else (no other target's script or state, not the fanout, not the
    schedule).  Other targets' steps (`localOf j l = other`) leave it unchanged. -/
theorem host_local {s s' : St} {l : Label} (h : step s l = some s') (j : Nat) :
    s'.hs[j]? = (s.hs[j]?).map fun hj => hostStep s.cfg (s.script j) s.now hj (localOf j l) := by
  cases l with
  | fan fl =>
    obtain ⟨_, _, he⟩ := dstep_fan_facts (by simpa [step] using h)
    rw [he]; simp only [localOf]
    cases hfl : fanLocal fl with
    | none => simp [hostStep_other]
    | some p =>
      obtain ⟨i, lo⟩ := p
      simp only [getElem?_updHost]
      by_cases hij : i = j
      · subst hij; simp
      · simp [hij, hostStep_other]
  | wake i =>
    obtain ⟨_, _, _, he⟩ := dstep_wake_facts (by simpa [step] using h)
    rw [he]; simp only [localOf, getElem?_updHost]
    by_cases hij : i = j
    · subst hij; simp
    · simp [hij, hostStep_other]
  | scan =>
    obtain ⟨_, he⟩ := dstep_scan_facts (by simpa [step] using h)
    rw [he]; simp [localOf, List.getElem?_mapIdx]
  | tick =>
    obtain ⟨_, he⟩ := step_tick_facts h
    rw [he]; simp [localOf, hostStep_other]

theorem host_getD {s : St} {j : Nat} (hj : j < s.hs.length) : s.hs[j]? = some (s.host j) := by
  simp [St.host, List.getD_eq_getElem?_getD, List.getElem?_eq_getElem hj]

/-- the same in terms of `St.host` -/
theorem host_local' {s s' : St} {l : Label} (h : step s l = some s') {j : Nat} (hj : j < s.hs.length) :
    s'.host j = hostStep s.cfg (s.script j) s.now (s.host j) (localOf j l) := by
  have h1 := host_local h j
  have hj' : j < s'.hs.length := by rw [(step_params h).2.2]; exact hj
  rw [host_getD hj, host_getD hj'] at h1
  simpa using h1

end PdshVerif.Dsh.Timed
