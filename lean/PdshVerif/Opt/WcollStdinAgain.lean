import PdshVerif.Opt.Wcoll
import PdshVerif.Opt.WcollBytes

/-!
A SECOND stdin source.  `read_wcoll ("-")` reads the process's standard input to its end; every later stdin source
(`-w - -w -`, `-w ^-,^-`, `-x ^-` after `-w -`, WCOLL=`-` after an exclusion file read from `-`) finds end of file.
In the model: `St.stdin` is `[]` once it was read and stays `[]`.  This file proves that such a later source is
INDISTINGUISHABLE FROM AN EMPTY READABLE FILE — argument by argument and for whole command lines — which reduces
every command line with k stdin sources to one with a single stdin source (the form `target_list_end_to_end`'s
domain asks for).
-/
namespace PdshVerif.Opt.Wcoll

theorem chunks_nil (mode : LineMode) : chunks mode [] = [] := by
  rw [chunks_eq]; simp [chunksGo]

theorem readStream_nil (mode : LineMode) (fs : FS) (dirs : List Str) : readStream mode fs dirs [] = {} := by
  simp [readStream, chunks_nil]

/-- reading stdin at end of file -/
theorem readWcoll_stdin_eof (mode : LineMode) (fs : FS) : readWcoll mode fs [] ['-'] = ({}, []) := by
  simp [readWcoll, readStream_nil]

/-- reading an empty readable file when stdin is at end of file -/
theorem readWcoll_empty_file (mode : LineMode) (fs : FS) (e : Str) (he : e ≠ ['-'])
    (hl : lookup fs e = some ⟨e, true, []⟩) : readWcoll mode fs [] e = ({}, []) := by
  simp [readWcoll, he, hl, readStream_nil]

/-- once standard input is consumed it stays consumed -/
theorem argProcess_stdin_nil (mode : LineMode) (fs : FS) (st : St) (arg : Str) (h : st.stdin = []) :
    (argProcess mode fs st arg).stdin = [] := by
  unfold argProcess
  split
  · exact h
  · dsimp only
    split
    · unfold absorb readWcoll
      dsimp only
      split
      · split <;> (try split) <;> simp
      · split
        · split <;> (try split) <;> simp [h]
        · split
          · split <;> (try split) <;> simp [h]
          · split <;> (try split) <;> simp [h]
    · exact h
    · split
      · exact h
      · split <;> exact h

theorem argProcess_caret (mode : LineMode) (fs : FS) (st : St) (hf : st.fatal = false) (file : Str) :
    argProcess mode fs st ('^' :: file) = absorb st false (readWcoll mode fs st.stdin file) := by
  simp [argProcess, hf, isspaceC]

theorem argProcess_dash_caret (mode : LineMode) (fs : FS) (st : St) (hf : st.fatal = false) (file : Str) :
    argProcess mode fs st ('-' :: '^' :: file) = absorb st true (readWcoll mode fs st.stdin file) := by
  simp [argProcess, hf, isspaceC]

/-- `^-` ↦ `^E`, `-^-` ↦ `-^E`; every other argument as it is -/
def stdinAsFile (e : Str) (arg : Str) : Str :=
  if arg = ['^', '-'] then '^' :: e else if arg = ['-', '^', '-'] then '-' :: '^' :: e else arg

/-- ONE ARGUMENT: with standard input at end of file, `^-` (and `-^-`) does exactly what `^E` (`-^E`) does for an
empty readable file `E` — same list, same exclusions, same warnings, no error, the list exists -/
theorem argProcess_stdinAsFile (mode : LineMode) (fs : FS) (e : Str) (he : e ≠ ['-'])
    (hl : lookup fs e = some ⟨e, true, []⟩) (st : St) (h : st.stdin = []) (arg : Str) :
    argProcess mode fs st (stdinAsFile e arg) = argProcess mode fs st arg := by
  by_cases hf : st.fatal = true
  · simp [argProcess, hf]
  · have hf' : st.fatal = false := by simpa using hf
    unfold stdinAsFile
    split
    · rename_i ha
      subst ha
      rw [argProcess_caret mode fs st hf' e, argProcess_caret mode fs st hf' ['-'], h,
        readWcoll_stdin_eof, readWcoll_empty_file mode fs e he hl]
    · split
      · rename_i _ ha
        subst ha
        rw [argProcess_dash_caret mode fs st hf' e, argProcess_dash_caret mode fs st hf' ['-'], h,
          readWcoll_stdin_eof, readWcoll_empty_file mode fs e he hl]
      · rfl

/-- A WHOLE ARGUMENT LIST after standard input was consumed: every further stdin source may be replaced by the
empty file, whatever else stands between them -/
theorem foldl_stdinAsFile (mode : LineMode) (fs : FS) (e : Str) (he : e ≠ ['-'])
    (hl : lookup fs e = some ⟨e, true, []⟩) : ∀ (args : List Str) (st : St), st.stdin = [] →
    (args.map (stdinAsFile e)).foldl (argProcess mode fs) st = args.foldl (argProcess mode fs) st
  | [], _, _ => rfl
  | a :: as, st, h => by
    simp only [List.map_cons, List.foldl_cons]
    rw [argProcess_stdinAsFile mode fs e he hl st h a]
    exact foldl_stdinAsFile mode fs e he hl as _ (argProcess_stdin_nil mode fs st a h)

/-- … hence: the arguments up to and including the FIRST stdin source as they are, every later one as the empty
file.  (`pre` ends where stdin has been read: `((pre).foldl …).stdin = []`, e.g. by `stdin_read_once`.) -/
theorem later_stdin_sources_are_empty_files (mode : LineMode) (fs : FS) (e : Str) (he : e ≠ ['-'])
    (hl : lookup fs e = some ⟨e, true, []⟩) (pre post : List Str) (st : St)
    (h : (pre.foldl (argProcess mode fs) st).stdin = []) :
    (pre ++ post.map (stdinAsFile e)).foldl (argProcess mode fs) st =
      (pre ++ post).foldl (argProcess mode fs) st := by
  rw [List.foldl_append, List.foldl_append]
  exact foldl_stdinAsFile mode fs e he hl post _ h

end PdshVerif.Opt.Wcoll
