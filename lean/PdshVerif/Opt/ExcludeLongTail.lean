/-
  C02 — `hostname_create_with_suffix` (hostlist.c) with the C library's `errno` as EXPLICIT state.

  Every name of an exclusion (`hostlist_delete_host` → `hostlist_find`) and every pushed name goes through
  `hostname_create`, which calls `strtoul` on the trailing digit run.  `strtoul` stores ERANGE into `errno`
  when the digits do not fit an `unsigned long` (20+ digits) and leaves `errno` alone otherwise: the value
  stays set for every later call.  The code as it stands decides "numeric suffix or not" from `*p` and
  `num <= MAX_HOST_SUFFIX` only — it never reads `errno` — so the parse of a name is a function of the name,
  whatever was parsed before it.  This file
    * mirrors the function with `errno` threaded through (`hostnameCreateE`, `parseAllE`: the names of an
      exclusion list in order) and proves that the threaded parse IS the pure `hostnameCreate` the model
      (`pdshmodel hl xcl`, Hostlist/Find.lean) executes, for every list and every incoming `errno`
      (`parseAllE_eq`) — hence independent of the order of the names (`parse_position_independent`);
    * classifies the long tails: a digit tail above ULONG_MAX leaves `errno = ERANGE` behind and yields a
      suffix-less single host (`hostnameCreate_longtail`), so such names DO occur as state-poisoning inputs;
    * names the variant that consults the stale `errno` (`hostnameCreateStale`) and shows by witness that it
      is NOT order independent: `foo3` behind a 26-digit name loses its number (the class of change the quick
      tier pins with vlib/xcl.py family `longtail`).
-/
import PdshVerif.Hostlist.LemmasCreate

namespace PdshVerif.Opt.LongTail
open PdshVerif.Gen PdshVerif.Hostlist

/-- `hostname_create(s)` run with `errno = ERANGE` iff `errno`; returns the components and the `errno` left
    behind (`strtoul` only ever SETS it) -/
def hostnameCreateE (errno : Bool) (s : Str) : Hostname × Bool :=
  let plen := hostPrefixLen s
  if plen = s.length then (⟨s, 0, none, false⟩, errno)
  else
    let suf := s.drop plen
    let r := strtoul suf
    let errno' := errno || r.erange
    if r.rest.isEmpty && r.val ≤ MAX_HOST_SUFFIX then (⟨s.take plen, r.val, some suf, r.erange⟩, errno')
    else (⟨s, r.val, none, r.erange⟩, errno')

/-- the names of one exclusion list (or of all of them, in the order pdsh walks them), parsed one after the
    other in the same process -/
def parseAllE : Bool → List Str → List Hostname
  | _, [] => []
  | e, s :: t => (hostnameCreateE e s).1 :: parseAllE (hostnameCreateE e s).2 t

/-- the components do not depend on the incoming `errno` -/
theorem hostnameCreateE_fst (e : Bool) (s : Str) : (hostnameCreateE e s).1 = hostnameCreate s := by
  unfold hostnameCreateE hostnameCreate
  simp only
  split
  · rfl
  · split <;> rfl

/-- `errno` afterwards: what it was, or ERANGE when this name's `strtoul` overflowed -/
theorem hostnameCreateE_snd (e : Bool) (s : Str) :
    (hostnameCreateE e s).2 = (e || (hostnameCreate s).erange) := by
  unfold hostnameCreateE hostnameCreate
  simp only
  split
  · simp
  · split <;> rfl

/-- the threaded parse of a whole list is the pure parse of each name -/
theorem parseAllE_eq (e : Bool) (l : List Str) : parseAllE e l = l.map hostnameCreate := by
  induction l generalizing e with
  | nil => rfl
  | cons s t ih => simp only [parseAllE, List.map_cons, hostnameCreateE_fst, ih]

/-- ORDER INDEPENDENCE of the parse: whatever stands before a name in the list (and whatever `errno` was on
    entry), the name gets the components `hostnameCreate` gives it -/
theorem parse_position_independent (e : Bool) (before after : List Str) (s : Str) :
    (parseAllE e (before ++ s :: after))[before.length]? = some (hostnameCreate s) := by
  rw [parseAllE_eq]
  simp

/-- a digit tail that does not fit an `unsigned long`: suffix-less single host, and ERANGE is left behind -/
theorem hostnameCreate_longtail (n : Str) (hv : dval (n.drop (hostPrefixLen n)) > ULONG_MAX) :
    (hostnameCreate n).suffix = none ∧ (hostnameCreate n).pre = n ∧ (hostnameCreate n).erange = true ∧
      ∀ e, (hostnameCreateE e n).2 = true := by
  obtain ⟨hle, hdig, hlen⟩ := hostPrefix_split n
  have hsne : n.drop (hostPrefixLen n) ≠ [] := by
    intro h0
    rw [h0] at hv
    simp [dval, Nat.ofDigitChars] at hv
  have hne : ¬ hostPrefixLen n = n.length := by
    intro h
    apply hsne
    rw [h]
    simp
  have hmx : MAX_HOST_SUFFIX < ULONG_MAX := by decide
  have hval := strtoul_digits_big hdig hsne hv
  have her : (strtoul (n.drop (hostPrefixLen n))).erange = true := by
    cases hd : n.drop (hostPrefixLen n) with
    | nil => exact absurd hd hsne
    | cons c cs =>
      have hdig' : allDigits (c :: cs) := hd ▸ hdig
      have hc := hdig' c (by simp)
      have hsp := isSpace_of_isDigit hc
      have hv' : Nat.ofDigitChars 10 (c :: cs) 0 > ULONG_MAX := by
        have := hv
        rw [hd] at this
        exact this
      unfold strtoul
      have hdw : (c :: cs).dropWhile isSpace = c :: cs := by simp [List.dropWhile, hsp]
      rw [hdw]
      have hcm : c ≠ '-' := by intro h; subst h; simp [isDigit] at hc
      have hcp : c ≠ '+' := by intro h; subst h; simp [isDigit] at hc
      split
      · rename_i t heq; exact absurd (List.cons.inj heq).1 hcm
      · rename_i t heq; exact absurd (List.cons.inj heq).1 hcp
      · unfold strtoulCore
        rw [takeWhile_allDigits hdig']
        simp only [List.isEmpty_cons, Bool.false_eq_true, ↓reduceIte, hv']
  have hcond : ¬ ((strtoul (n.drop (hostPrefixLen n))).rest.isEmpty &&
      decide ((strtoul (n.drop (hostPrefixLen n))).val ≤ MAX_HOST_SUFFIX)) = true := by
    rw [hval]
    simp only [Bool.and_eq_true, decide_eq_true_eq, not_and]
    intro _
    omega
  have hc : hostnameCreate n = ⟨n, (strtoul (n.drop (hostPrefixLen n))).val, none,
      (strtoul (n.drop (hostPrefixLen n))).erange⟩ := by
    unfold hostnameCreate
    simp only [hne, ↓reduceIte, hcond]
    rfl
  refine ⟨by rw [hc], by rw [hc], by rw [hc]; exact her, fun e => ?_⟩
  rw [hostnameCreateE_snd, hc]
  simp [her]

/-- the variant that also asks `errno != ERANGE` without clearing `errno` before `strtoul` (NOT the code) -/
def hostnameCreateStale (errno : Bool) (s : Str) : Hostname × Bool :=
  let plen := hostPrefixLen s
  if plen = s.length then (⟨s, 0, none, false⟩, errno)
  else
    let suf := s.drop plen
    let r := strtoul suf
    let errno' := errno || r.erange
    if r.rest.isEmpty && !errno' && r.val ≤ MAX_HOST_SUFFIX then (⟨s.take plen, r.val, some suf, r.erange⟩, errno')
    else (⟨s, r.val, none, r.erange⟩, errno')

/-- non-vacuity of `hostnameCreate_longtail`, and the witness that the stale-`errno` variant depends on what was
    parsed before: `foo3` keeps its number after `job20240929102030123456789` in the code as it stands, and loses
    it in the variant -/
example : dval ("job20240929102030123456789".toList.drop (hostPrefixLen "job20240929102030123456789".toList)) > ULONG_MAX ∧
    (hostnameCreateE false "job20240929102030123456789".toList).2 = true ∧
    (hostnameCreateE true "foo3".toList).1.suffix = some "3".toList ∧
    (hostnameCreateStale false "foo3".toList).1.suffix = some "3".toList ∧
    (hostnameCreateStale (hostnameCreateStale false "job20240929102030123456789".toList).2 "foo3".toList).1.suffix = none := by
  decide

end PdshVerif.Opt.LongTail
