/-
  C02  A LINEAR-TIME PATH through the model of Opt/Exclude.lean, proved EQUAL to it.

  The editable-list model (Hostlist/Edit.lean) keeps the records of a list in a `List`, first record first, as the C
  array does: `hostlist_push_range` looks at the LAST record and appends, `hostlist_pop` takes the last one off — a
  linear walk each, so reading an exclusion file of N names and popping the N names of its re-parsed text
  (`hostlist_delete`) cost N² steps; a file whose ranged form has 4 MiB (600 000 names) would take hours.

  Here the same functions work on the list kept LAST RECORD FIRST (`RevEL`), and the pop loop of `hostlist_delete` is
  replaced by what `popAll_spec` proves it returns (the hosts, last first) when the DECIDABLE side conditions of that
  lemma hold (checked at run time; otherwise the slow definition is run).  `cliFinalWF_eq`: for every configuration,
  environment and command line the fast function returns exactly what `cliFinalW` returns — `pdshmodel hl xcl` executes
  `cliFinalWF`, and every theorem of Props/C02 about `cliFinalW` / `cliFinal` is a theorem about what it prints.
-/
import PdshVerif.Opt.ExcludeLemmas
import PdshVerif.Hostlist.LemmasPop
import PdshVerif.Hostlist.LemmasGood
import PdshVerif.Hostlist.LemmasInv

namespace PdshVerif.Opt.Exclude
open PdshVerif.Hostlist

/-! ### the list, last record first -/
structure RevEL where
  rev : List RObj
  nhosts : Int
  nextId : Nat
  its : List (Nat × ItSt)

def RevEL.toEL (s : RevEL) : EL := ⟨s.rev.reverse, s.nhosts, s.nextId, s.its⟩
def RevEL.ofEL (e : EL) : RevEL := ⟨e.rs.reverse, e.nhosts, e.nextId, e.its⟩

theorem RevEL.toEL_ofEL (e : EL) : (RevEL.ofEL e).toEL = e := by
  simp [RevEL.toEL, RevEL.ofEL]

/-- `hostlist_push_range` on the reversed list: the tail record is the head -/
def pushRangeR (s : RevEL) (r : HRange) : RevEL :=
  let n := s.nhosts + r.count
  let fresh : RevEL := { s with rev := ⟨s.nextId, r⟩ :: s.rev, nextId := s.nextId + 1, nhosts := n }
  match s.rev with
  | [] => fresh
  | t :: rest =>
    if prefixCmpEq t.r r && t.r.hi == subU64 r.lo 1 then
      match widthCombine t.r r with
      | (true, wt, _) => { s with rev := { t with r := { t.r with hi := r.hi, width := wt } } :: rest, nhosts := n }
      | (false, _, _) => fresh
    else fresh

theorem pushRangeR_toEL (s : RevEL) (r : HRange) : (pushRangeR s r).toEL = pushRangeE s.toEL r := by
  obtain ⟨rev, nh, nx, its⟩ := s
  cases rev with
  | nil => simp [pushRangeR, pushRangeE, RevEL.toEL]
  | cons t rest =>
    simp only [pushRangeR, pushRangeE, RevEL.toEL, List.reverse_cons, List.getLast?_append, List.getLast?_singleton,
      Option.some_or, List.dropLast_concat]
    split
    · split <;> simp_all
    · simp

theorem foldl_pushRangeR_toEL (rs : List HRange) : ∀ (s : RevEL),
    (rs.foldl pushRangeR s).toEL = rs.foldl pushRangeE s.toEL := by
  induction rs with
  | nil => intro s; rfl
  | cons r rs ih => intro s; simp only [List.foldl_cons, ih, pushRangeR_toEL]

/-- `hostlist_push_list` -/
def pushListR (s : RevEL) (h : HL) : RevEL := h.ranges.toList.foldl pushRangeR s

theorem pushListR_toEL (s : RevEL) (h : HL) : (pushListR s h).toEL = pushListE s.toEL h :=
  foldl_pushRangeR_toEL _ s

/-! ### reading a file -/
/-- `pushX` on the reversed list -/
def pushXR (cfg : Cfg) (s : RevEL) (x : Str) : XM RevEL :=
  match create cfg x with
  | .ok n => .ok (pushListR s n)
  | .null _ f => if f = Fatal.none then .ok s else .error (.fatal "hostlist")
  | .ub w => if w = "diverge" then .error .diverge else .error (.ub w)
  | .diverge => .error .diverge

theorem pushXR_toEL (cfg : Cfg) (s : RevEL) (x : Str) :
    (pushXR cfg s x).map RevEL.toEL = pushX cfg s.toEL x := by
  unfold pushXR pushX pushE
  cases create cfg x with
  | ok n => simp [Except.map, pushListR_toEL]
  | null e f => by_cases hf : f = Fatal.none <;> simp [Except.map, hf]
  | ub w => by_cases hw : w = "diverge" <;> simp [Except.map, hw]
  | diverge => simp [Except.map]

def readHlR (cfg : Cfg) : List Str → RevEL → XM RevEL
  | [], s => .ok s
  | x :: xs, s =>
    match pushXR cfg s x with
    | .ok s' => readHlR cfg xs s'
    | .error r => .error r

theorem readHlR_toEL (cfg : Cfg) : ∀ (xs : List Str) (s : RevEL),
    (readHlR cfg xs s).map RevEL.toEL = readHl cfg xs s.toEL
  | [], s => rfl
  | x :: xs, s => by
    have h := pushXR_toEL cfg s x
    unfold readHlR readHl
    cases hp : pushXR cfg s x with
    | ok s' =>
      rw [hp] at h
      simp only [Except.map] at h
      rw [← h]
      exact readHlR_toEL cfg xs s'
    | error r =>
      rw [hp] at h
      simp only [Except.map] at h
      rw [← h]
      rfl

/-- `read_wcoll`, linear -/
def readHlF (cfg : Cfg) (xs : List Str) (e : EL) : XM EL := (readHlR cfg xs (RevEL.ofEL e)).map RevEL.toEL

theorem readHlF_eq (cfg : Cfg) (xs : List Str) (e : EL) : readHlF cfg xs e = readHl cfg xs e := by
  unfold readHlF
  rw [readHlR_toEL, RevEL.toEL_ofEL]

/-! ### the names `hostlist_delete` pops -/
theorem el_new_good : EL.new.Good := ⟨by simp [EL.new, EL.ranges], by simp [EL.new, EL.hosts, EL.ranges]⟩

/-- the names the pop loop of `hostlist_delete` hands out for the parsed expression `t`, computed without popping:
    the hosts of the temporary list, last first — when the side conditions of `popAll_spec` hold -/
def fastNames (cfg : Cfg) (t : HL) : Option (List Str) :=
  let tmp := (pushListR (RevEL.ofEL EL.new) t).toEL
  if cfg.fixUlongMax = true ∧ tmp.ranges.all (fun r => decide r.ShiftFits) = true then some tmp.hosts.reverse else none

theorem fastNames_spec (cfg : Cfg) (s : Str) (t : HL) (hc : create cfg s = .ok t) (names : List Str)
    (h : fastNames cfg t = some names) :
    popAll cfg (t.nhosts.toNat + 1) (pushListE EL.new t) = .ok names := by
  unfold fastNames at h
  rw [pushListR_toEL, RevEL.toEL_ofEL] at h
  simp only at h
  split at h
  · rename_i hcond
    obtain ⟨h15, hall⟩ := hcond
    have htg := create_good cfg h15 s t hc
    obtain ⟨hg, hh, _, _⟩ := pushListE_spec EL.new t el_new_good htg
    have hsf : ∀ r ∈ (pushListE EL.new t).ranges, r.ShiftFits := by
      intro r hr
      have := List.all_eq_true.mp hall r hr
      exact of_decide_eq_true this
    have hlen : (pushListE EL.new t).hosts.length < t.nhosts.toNat + 1 := by
      rw [hh]
      have h0 : EL.new.hosts = [] := by simp [EL.new, EL.hosts, EL.ranges]
      rw [h0, List.nil_append]
      have := htg.2
      omega
    rw [popAll_spec cfg _ _ hg hsf hlen]
    exact congrArg Except.ok (Option.some.inj h)
  · cases h

/-- `hostlist_delete`, linear in the number of names of the expression -/
def deleteXF (cfg : Cfg) (e : EL) (s : Str) : XM EL :=
  match create cfg s with
  | .ok t =>
    match fastNames cfg t with
    | some names => .ok (names.foldl (fun acc x => (deleteNameE cfg acc x).2) e)
    | none => deleteX cfg e s
  | _ => deleteX cfg e s

theorem deleteXF_eq (cfg : Cfg) (e : EL) (s : Str) : deleteXF cfg e s = deleteX cfg e s := by
  unfold deleteXF
  cases hc : create cfg s with
  | ok t =>
    simp only
    cases hf : fastNames cfg t with
    | none => rfl
    | some names =>
      simp only
      unfold deleteX
      rw [hc]
      simp only
      rw [fastNames_spec cfg s t hc names hf]
  | null _ _ => rfl
  | ub _ => rfl
  | diverge => rfl

/-- `wcoll_apply_excluded` -/
def applyExcludedF (cfg : Cfg) : List Str → EL → XM EL
  | [], e => .ok e
  | a :: as, e =>
    match deleteXF cfg e a with
    | .ok e' => applyExcludedF cfg as e'
    | .error r => .error r

theorem applyExcludedF_eq (cfg : Cfg) : ∀ (as : List Str) (e : EL), applyExcludedF cfg as e = applyExcluded cfg as e
  | [], _ => rfl
  | a :: as, e => by
    unfold applyExcludedF applyExcluded
    rw [deleteXF_eq]
    cases deleteX cfg e a with
    | ok e' => exact applyExcludedF_eq cfg as e'
    | error r => rfl

/-- `wcoll_apply_excluded`, F02-2BR repaired -/
def applyExcluded2F (cfg : Cfg) : List Str → EL → XM EL
  | [], e => .ok e
  | a :: as, e =>
    match create cfg a with
    | .null _ f => if f = Fatal.none then applyExcluded2F cfg as e else .error (.fatal "hostlist")
    | .ub w => .error (.ub w)
    | .diverge => .error .diverge
    | .ok t =>
      match (match fastNames cfg t with
             | some names => Except.ok names
             | none => popAll cfg (t.nhosts.toNat + 1) (pushListE EL.new t)) with
      | .error w => .error (.ub w)
      | .ok names =>
        match applyExcludedF cfg names e with
        | .ok e' => applyExcluded2F cfg as e'
        | .error r => .error r

theorem applyExcluded2F_eq (cfg : Cfg) : ∀ (as : List Str) (e : EL), applyExcluded2F cfg as e = applyExcluded2 cfg as e
  | [], _ => rfl
  | a :: as, e => by
    unfold applyExcluded2F applyExcluded2
    cases hc : create cfg a with
    | null _ f =>
      simp only
      by_cases hf : f = Fatal.none
      · rw [if_pos hf, if_pos hf]; exact applyExcluded2F_eq cfg as e
      · rw [if_neg hf, if_neg hf]
    | ub _ => rfl
    | diverge => rfl
    | ok t =>
      simp only
      have hn : (match fastNames cfg t with
             | some names => Except.ok names
             | none => popAll cfg (t.nhosts.toNat + 1) (pushListE EL.new t)) =
          popAll cfg (t.nhosts.toNat + 1) (pushListE EL.new t) := by
        cases hf : fastNames cfg t with
        | none => rfl
        | some names => exact (fastNames_spec cfg a t hc names hf).symm
      rw [hn]
      cases popAll cfg (t.nhosts.toNat + 1) (pushListE EL.new t) with
      | error w => rfl
      | ok names =>
        simp only
        rw [applyExcludedF_eq]
        cases applyExcluded cfg names e with
        | ok e' => exact applyExcluded2F_eq cfg as e'
        | error r => rfl

/-! ### the pipeline -/
/-- `wcoll_arg_process` (as `argProcess`, the file read by `readHlF`) -/
def argProcessF (cfg : Cfg) (env : Env) (st : St) (arg : Str) : XM St :=
  let excluded : Bool := arg.head? == some '-'
  let p := (if excluded then arg.drop 1 else arg).dropWhile Wcoll.isspaceC
  match p with
  | '^' :: file =>
    match env.files.lookup file with
    | none => .error (.fatal "wcoll file")
    | some exprs =>
      match readHlF cfg exprs EL.new with
      | .error r => .error r
      | .ok hl =>
        if excluded then
          match pushHostlist cfg hl with
          | .ok s => .ok { st with excl := s :: st.excl }
          | .error r => .error r
        else .ok { st with wcoll := some (pushListE (st.wcoll.getD EL.new) hl.toHL) }
  | '/' :: re =>
    let re' := if re.getLast? = some '/' then re.dropLast else re
    if env.badre re' then .error (.fatal "regex") else .ok { st with regex := (excluded, re') :: st.regex }
  | _ =>
    if excluded then .ok { st with excl := p :: st.excl }
    else
      match Wcoll.hostPart p with
      | none => .error (.fatal "host spec")
      | some h =>
        match pushX cfg (st.wcoll.getD EL.new) h with
        | .ok e => .ok { st with wcoll := some e }
        | .error r => .error r

theorem argProcessF_eq (cfg : Cfg) (env : Env) (st : St) (arg : Str) :
    argProcessF cfg env st arg = argProcess cfg env st arg := by
  unfold argProcessF argProcess
  simp only [readHlF_eq]
  rfl

def argsProcessF (cfg : Cfg) (env : Env) : List Str → St → XM St
  | [], st => .ok st
  | a :: as, st =>
    match argProcessF cfg env st a with
    | .ok st' => argsProcessF cfg env as st'
    | .error r => .error r

theorem argsProcessF_eq (cfg : Cfg) (env : Env) : ∀ (as : List Str) (st : St),
    argsProcessF cfg env as st = argsProcess cfg env as st
  | [], _ => rfl
  | a :: as, st => by
    unfold argsProcessF argsProcess
    rw [argProcessF_eq]
    cases argProcess cfg env st a with
    | ok st' => exact argsProcessF_eq cfg env as st'
    | error r => rfl

def finish2F (cfg : Cfg) (env : Env) (e : EL) (excl : List Str) (regex : List (Bool × Str)) : Res :=
  match wcollExpand cfg e.toHL with
  | .null _ _ => .fatal "hostlist"
  | .ub w => .ub w
  | .diverge => .diverge
  | .ok h =>
    match applyExcluded2F cfg excl (ofHL h) with
    | .error r => r
    | .ok e1 =>
      match applyRegex cfg env regex e1 with
      | .error r => r
      | .ok e2 => .ok e2.hosts

def finishF (cfg : Cfg) (env : Env) (st : St) : Res :=
  match st.wcoll with
  | none => .nohosts
  | some e =>
    if cfg.fix2Br then finish2F cfg env e st.excl st.regex else
    match applyExcludedF cfg st.excl e with
    | .error r => r
    | .ok e1 =>
      match applyRegex cfg env st.regex e1 with
      | .error r => r
      | .ok e2 =>
        match wcollExpand cfg e2.toHL with
        | .ok h => .ok h.hosts
        | .null _ _ => .fatal "hostlist"
        | .ub w => .ub w
        | .diverge => .diverge

theorem finishF_eq (cfg : Cfg) (env : Env) (st : St) : finishF cfg env st = finish cfg env st := by
  unfold finishF finish finish2F finish2
  simp only [applyExcluded2F_eq, applyExcludedF_eq]
  rfl

/-- `opt_args` (as `cliFinalW`), linear in the size of the exclusion files: what `pdshmodel hl xcl` executes -/
def cliFinalWF (cfg : Cfg) (env : Env) (wcollEnv : Option Str) (evs : List Ev) : Res :=
  match argsProcessF cfg env (evs.flatMap evWords) {} with
  | .error r => r
  | .ok st =>
    match st.wcoll, wcollEnv with
    | none, some file =>
      match env.files.lookup file with
      | none => .fatal "wcoll file"
      | some exprs =>
        match readHlF cfg exprs EL.new with
        | .error r => r
        | .ok hl => finishF cfg env { st with wcoll := some hl }
    | _, _ => finishF cfg env st

/-- THE FAST PATH IS THE MODEL: for every variant of the code, every environment and every command line -/
theorem cliFinalWF_eq (cfg : Cfg) (env : Env) (wcollEnv : Option Str) (evs : List Ev) :
    cliFinalWF cfg env wcollEnv evs = cliFinalW cfg env wcollEnv evs := by
  unfold cliFinalWF cliFinalW
  simp only [argsProcessF_eq, readHlF_eq, finishF_eq]
  rfl

end PdshVerif.Opt.Exclude
