/-
  C10 ∘ C02 ∘ C01: helper lemmas for `target_list_end_to_end` (Props/C10.lean).

  The command line is a list of SEGMENTS: C02's words (`CW`: target word, `-x` word, regex) and the two
  file forms C02's composition theorem leaves out, `^file` (targets) and `-^file` (exclusions).  A file
  segment carries the words its expressions stand for; the domain predicate ties them to C10's
  specification `WcollSpec.fileHosts` (includes inlined).

  Part 1: C02's `argsProcess` on segments (adapter: `^file` pushes a whole hostlist, so C02's
          `cliWords_correct` cannot be reused structurally — only through the invariants
          Good / IdsOk / its = [] / hosts).
  Part 2: C02's `finish` in the repaired order (F02-2BR: `wcoll_expand` first) from any list that denotes the
          first-level names: C01's `wcoll_expand₂` applies as it stands, two pairs of brackets included.
  Part 3: the table `Env.files` filled by C10's reader; the WCOLL step of `opt_args`.
-/
import PdshVerif.Opt.ExcludeCompose
import PdshVerif.Opt.WcollAssemble

namespace PdshVerif.Opt.Targets
open PdshVerif.Hostlist PdshVerif.Opt.Exclude

/-! ## Part 1: segments -/
inductive Seg where
  | cw (w : CW)
  /-- `^path`; `ws` = the words the file's expressions stand for -/
  | tfile (path : Str) (ws : List Spec.Word)
  /-- `-^path` -/
  | xfile (path : Str) (ws : List Spec.Word)

/-- the text `wcoll_arg_process` gets -/
def Seg.text : Seg → Str
  | .cw w => w.text
  | .tfile p _ => '^' :: p
  | .xfile p _ => '-' :: '^' :: p

/-- the hostlist `read_wcoll` returns for a file of these words -/
def fileEL (cfg : Cfg) (ws : List Spec.Word) : EL := assembleE cfg ws EL.new

/-- the entry `list_push_hostlist` puts on `exclude_list` for a file of these words -/
def xfileText (cfg : Cfg) (ws : List Spec.Word) : Str := rangedText (fileEL cfg ws).ranges

/-- one `wcoll_arg_process` call, by meaning -/
def step (cfg : Cfg) (st : St) : Seg → St
  | .cw (.tgt w) => { st with wcoll := some (assembleE cfg [w] (st.wcoll.getD EL.new)) }
  | .cw (.xcl w) => { st with excl := Spec.renderWord w :: st.excl }
  | .cw (.re ex p) => { st with regex := (ex, p) :: st.regex }
  | .tfile _ ws => { st with wcoll := some (pushListE (st.wcoll.getD EL.new) (fileEL cfg ws).toHL) }
  | .xfile _ ws => { st with excl := xfileText cfg ws :: st.excl }

def WordsFine (cfg : Cfg) (ws : List Spec.Word) : Prop := ∀ w ∈ ws, w.WF = true ∧ wordDom cfg w

/-- what `wcoll_arg_process` needs of one segment -/
def SegOk (cfg : Cfg) (env : Env) : Seg → Prop
  | .cw (.tgt w) => w.WF = true ∧ wordDom cfg w ∧ HostText (Spec.renderWord w) ∧
      Wcoll.hostPart (Spec.renderWord w) = some (Spec.renderWord w)
  | .cw (.xcl w) => XText (Spec.renderWord w)
  | .cw (.re _ p) => env.badre p = false
  | .tfile p ws => env.files.lookup p = some (ws.map Spec.renderWord) ∧ WordsFine cfg ws
  | .xfile p ws => env.files.lookup p = some (ws.map Spec.renderWord) ∧ WordsFine cfg ws ∧
      (xfileText cfg ws).length < 4095

theorem pushX_word (cfg : Cfg) (e : EL) (w : Spec.Word) (hw : w.WF = true) (hd : wordDom cfg w) :
    ∃ n, create cfg (Spec.renderWord w) = .ok n ∧ pushX cfg e (Spec.renderWord w) = .ok (pushListE e n) := by
  obtain ⟨n, hc, _, _⟩ := create_word cfg w hw hd
  exact ⟨n, hc, by simp only [pushX, pushE, hc, ↓reduceIte]⟩

/-- `read_wcoll` pushing the expressions of a file = the words pushed one after the other -/
theorem readHl_words (cfg : Cfg) : ∀ (ws : List Spec.Word) (e : EL), WordsFine cfg ws →
    readHl cfg (ws.map Spec.renderWord) e = .ok (assembleE cfg ws e)
  | [], e, _ => rfl
  | w :: ws, e, h => by
    obtain ⟨n, hc, hp⟩ := pushX_word cfg e w (h w (by simp)).1 (h w (by simp)).2
    simp only [List.map_cons, readHl, hp, assembleE, hc]
    exact readHl_words cfg ws _ fun x hx => h x (by simp [hx])

theorem pushHostlist_short (cfg : Cfg) (hl : EL) (h : (rangedText hl.ranges).length < 4095) :
    pushHostlist cfg hl = .ok (rangedText hl.ranges) := by
  have h1 : ¬ (rangedText hl.ranges).length ≥ 4096 - 1 := by omega
  have hloop : pushLoop cfg.fixPushLoop (rangedText hl.ranges).length PUSH_FUEL 4096 = some 4096 := by
    show pushLoop _ _ (12 + 1) 4096 = some 4096
    unfold pushLoop
    rw [if_neg h1]
  unfold pushHostlist
  simp only [hloop]
  rw [if_neg h1]

theorem argProcess_seg (cfg : Cfg) (env : Env) (st : St) : ∀ (s : Seg), SegOk cfg env s →
    argProcess cfg env st s.text = .ok (step cfg st s)
  | .cw (.tgt w), h => by
    obtain ⟨hw, hd, ht, hp⟩ := h
    obtain ⟨n, hc, ha⟩ := argProcess_tgt cfg env st w hw hd ht hp
    simp only [Seg.text, CW.text, ha, step, assembleE, hc]
  | .cw (.xcl w), h => by
    simp only [Seg.text, CW.text, step]
    exact argProcess_xcl cfg env st _ h
  | .cw (.re ex p), h => by
    simp only [Seg.text, step]
    exact argProcess_re cfg env st ex p h
  | .tfile p ws, h => by
    obtain ⟨hl, hf⟩ := h
    unfold argProcess
    have hex : (('^' :: p).head? == some '-') = false := by simp
    have hdw : ('^' :: p).dropWhile Wcoll.isspaceC = '^' :: p := by
      simp [List.dropWhile, Wcoll.isspaceC]
    simp only [Seg.text, hex, Bool.false_eq_true, ↓reduceIte, hdw, hl, readHl_words cfg ws EL.new hf, step,
      fileEL]
  | .xfile p ws, h => by
    obtain ⟨hl, hf, hlen⟩ := h
    unfold argProcess
    have hex : (('-' :: '^' :: p).head? == some '-') = true := by simp
    have hdw : ('^' :: p).dropWhile Wcoll.isspaceC = '^' :: p := by
      simp [List.dropWhile, Wcoll.isspaceC]
    have hph := pushHostlist_short cfg (assembleE cfg ws EL.new) hlen
    simp only [Seg.text, hex, ↓reduceIte, List.drop_succ_cons, List.drop_zero, hdw, hl,
      readHl_words cfg ws EL.new hf, hph, step, xfileText, fileEL]

theorem argsProcess_segs (cfg : Cfg) (env : Env) : ∀ (segs : List Seg) (st : St),
    (∀ s ∈ segs, SegOk cfg env s) →
    argsProcess cfg env (segs.map Seg.text) st = .ok (segs.foldl (step cfg) st)
  | [], _, _ => rfl
  | s :: segs, st, h => by
    simp only [List.map_cons, argsProcess, argProcess_seg cfg env st s (h s (by simp)), List.foldl_cons]
    exact argsProcess_segs cfg env segs _ fun x hx => h x (by simp [hx])

/-! ### what the segments mean -/
/-- first-level names a segment adds to the target list -/
def Seg.tgt : Seg → List Str
  | .cw (.tgt w) => w.expand₁
  | .tfile _ ws => Spec.expand₁ ws
  | _ => []

/-- exclusion entry of a segment: its text on `exclude_list` and the names it denotes -/
def Seg.ent (cfg : Cfg) : Seg → List (Str × List Str)
  | .cw (.xcl w) => [(Spec.renderWord w, w.expand₁)]
  | .xfile _ ws => [(xfileText cfg ws, Spec.expand₁ ws)]
  | _ => []

def Seg.reg : Seg → List (Bool × Str)
  | .cw (.re ex p) => [(ex, p)]
  | _ => []

def Seg.isTgt : Seg → Bool
  | .cw (.tgt _) => true
  | .tfile _ _ => true
  | _ => false

/-- the words of a target segment -/
def Seg.words : Seg → List Spec.Word
  | .cw (.tgt w) => [w]
  | .tfile _ ws => ws
  | _ => []

/-- what the later stages need of `opt->wcoll`: `T` = its hosts -/
def WInv (o : Option EL) (T : List Str) : Prop :=
  match o with
  | none => T = []
  | some e => e.Good ∧ e.IdsOk ∧ e.its = [] ∧ e.hosts = T

theorem new_good : EL.new.Good := ⟨by simp [EL.new, EL.ranges], by simp [EL.new, EL.hosts, EL.ranges]⟩
theorem new_ids : EL.new.IdsOk := ⟨by simp [EL.new], by simp [EL.new]⟩

theorem WInv.getD {o : Option EL} {T : List Str} (h : WInv o T) :
    (o.getD EL.new).Good ∧ (o.getD EL.new).IdsOk ∧ (o.getD EL.new).its = [] ∧ (o.getD EL.new).hosts = T := by
  cases o with
  | none =>
    simp only [WInv] at h
    subst h
    exact ⟨new_good, new_ids, rfl, by simp [EL.new, EL.hosts, EL.ranges]⟩
  | some e => exact h

theorem fileEL_spec (cfg : Cfg) (ws : List Spec.Word) (h : WordsFine cfg ws) :
    (fileEL cfg ws).Good ∧ (fileEL cfg ws).hosts = Spec.expand₁ ws := by
  obtain ⟨g, hh, _, _⟩ := assembleE_spec cfg ws EL.new new_good h
  refine ⟨g, ?_⟩
  rw [fileEL, hh]
  simp [EL.new, EL.hosts, EL.ranges]

/-- the words of every target segment are in C01's domain -/
def SegFine (cfg : Cfg) (s : Seg) : Prop := WordsFine cfg s.words

theorem step_spec (cfg : Cfg) (st : St) (T : List Str) (hI : WInv st.wcoll T) (s : Seg) (hf : SegFine cfg s) :
    WInv (step cfg st s).wcoll (T ++ s.tgt) ∧
    (step cfg st s).excl = (s.ent cfg).map (·.1) ++ st.excl ∧
    (step cfg st s).regex = s.reg ++ st.regex ∧
    (step cfg st s).wcoll.isSome = (st.wcoll.isSome || s.isTgt) := by
  obtain ⟨g, ids, its, hh⟩ := hI.getD
  match s, hf with
  | .cw (.tgt w), hf =>
    obtain ⟨g1, h1, k1, i1⟩ := assembleE_spec cfg [w] _ g hf
    refine ⟨⟨g1, k1 ids, by rw [i1, its], ?_⟩, by simp [step, Seg.ent], by simp [step, Seg.reg],
      by simp [step, Seg.isTgt]⟩
    rw [h1, hh]
    simp [Seg.tgt, Spec.expand₁]
  | .cw (.xcl w), _ =>
    refine ⟨?_, by simp [step, Seg.ent], by simp [step, Seg.reg], by simp [step, Seg.isTgt]⟩
    simpa [step, Seg.tgt] using hI
  | .cw (.re ex p), _ =>
    refine ⟨?_, by simp [step, Seg.ent], by simp [step, Seg.reg], by simp [step, Seg.isTgt]⟩
    simpa [step, Seg.tgt] using hI
  | .tfile p ws, hf =>
    obtain ⟨gf, hhf⟩ := fileEL_spec cfg ws hf
    obtain ⟨g1, h1, k1, i1⟩ := pushListE_spec (st.wcoll.getD EL.new) (fileEL cfg ws).toHL g
      ((EL.good_iff _).mp gf)
    refine ⟨⟨g1, k1 ids, by rw [i1, its], ?_⟩, by simp [step, Seg.ent], by simp [step, Seg.reg],
      by simp [step, Seg.isTgt]⟩
    rw [h1, hh, EL.toHL_hosts, hhf]
    rfl
  | .xfile p ws, _ =>
    refine ⟨?_, by simp [step, Seg.ent], by simp [step, Seg.reg], by simp [step, Seg.isTgt]⟩
    simpa [step, Seg.tgt] using hI

theorem foldl_step_spec (cfg : Cfg) : ∀ (segs : List Seg) (st : St) (T : List Str), WInv st.wcoll T →
    (∀ s ∈ segs, SegFine cfg s) →
    WInv (segs.foldl (step cfg) st).wcoll (T ++ segs.flatMap Seg.tgt) ∧
    (segs.foldl (step cfg) st).excl = ((segs.flatMap (Seg.ent cfg)).map (·.1)).reverse ++ st.excl ∧
    (segs.foldl (step cfg) st).regex = (segs.flatMap Seg.reg).reverse ++ st.regex ∧
    (segs.foldl (step cfg) st).wcoll.isSome = (st.wcoll.isSome || segs.any Seg.isTgt)
  | [], st, T, hI, _ => by simpa using hI
  | s :: segs, st, T, hI, hf => by
    obtain ⟨a1, a2, a3, a4⟩ := step_spec cfg st T hI s (hf s (by simp))
    obtain ⟨b1, b2, b3, b4⟩ := foldl_step_spec cfg segs (step cfg st s) _ a1 fun x hx => hf x (by simp [hx])
    simp only [List.foldl_cons, List.flatMap_cons, List.any_cons]
    refine ⟨by simpa [List.append_assoc] using b1, ?_, ?_, ?_⟩
    · rw [b2, a2]
      cases s with
      | cw w => cases w <;> simp [Seg.ent]
      | tfile _ _ => simp [Seg.ent]
      | xfile _ _ => simp [Seg.ent]
    · rw [b3, a3]
      cases s with
      | cw w => cases w <;> simp [Seg.reg]
      | tfile _ _ => simp [Seg.reg]
      | xfile _ _ => simp [Seg.reg]
    · rw [b4, a4, Bool.or_assoc]

/-! ## Part 2: `finish` (F02-2BR repaired order) from any list that denotes the first-level names -/
/-- the tail of `opt_args` in the repaired order — re-expansion (C01's `wcoll_expand₂`, applied as it stands),
    exclusions name by name, filters — on ANY list `e` that denotes the first-level expansion of well-formed
    words `ws`: the full two-level expansion, minus the excluded names, filtered.  Two pairs of brackets allowed. -/
theorem finish_correct (cfg : Cfg) (hD1 : cfg.fixDeleteAll = true) (hD17 : cfg.fixIterSuffix = true)
    (hD19 : cfg.fixRemoveDepth = true) (h2 : cfg.fix2Br = true) (env : Env) (e : EL) (ws : List Spec.Word)
    (es : List (Str × List Str)) (rs : List (Bool × Str))
    (hg : e.Good) (hh : e.hosts = Spec.expand₁ ws)
    (hwf : ∀ w ∈ ws, w.WF = true) (hd2 : ∀ w ∈ ws, ∀ w' ∈ reword w, wordDom cfg w')
    (hsf : ∀ r ∈ e.ranges, r.ShiftFits)
    (hes : ∀ p ∈ es, Entry2Ok cfg p.1 p.2)
    (horacle : ∀ p ∈ rs, ∀ h ∈ Spec.expand₂ ws, (env.rematch p.2 h).isSome = true) :
    finish cfg env { wcoll := some e, excl := es.map (·.1), regex := rs } =
      .ok (((Spec.expand₂ ws).filter fun h => !(es.flatMap (·.2)).contains h).filter (keepAll env rs)) := by
  have hwf' : Spec.WF ws = true := by
    unfold Spec.WF; simpa [List.all_eq_true] using hwf
  obtain ⟨h', hw1, hg', hw3⟩ := wcollExpand_expand₂ cfg ws hwf' hd2 e.toHL ((EL.good_iff e).mp hg)
    (fun r hr => hsf r (by simpa [EL.toHL] using hr)) (by rw [EL.toHL_hosts, hh])
  have hH : (ofHL h').hosts = Spec.expand₂ ws := by rw [ofHL_hosts, hw3]
  obtain ⟨e1, ha1, g1, hh1, k1⟩ := applyExcluded2_repaired cfg hD1 0 es (ofHL h') (ofHL_good h' hg') hes
  have hsub1 : ∀ h ∈ e1.hosts, h ∈ Spec.expand₂ ws := by
    intro h hh'; rw [hh1, hH] at hh'; exact (List.mem_filter.mp hh').1
  obtain ⟨e2, ha2, hh2, _, _, _, _⟩ := applyRegex_spec cfg hD19 (fun _ => True) (fun _ _ _ _ _ _ => trivial)
    (fun _ _ => Or.inl hD17) env rs e1 (k1.ids (ofHL_ids h')) g1 (fun _ _ => trivial) (k1.its rfl)
    (fun p hp h hh' => horacle p hp h (hsub1 h hh'))
  unfold finish
  simp only [h2, ↓reduceIte]
  unfold finish2
  rw [hw1]
  simp only
  rw [ha1]
  simp only
  rw [ha2]
  simp only [Res.ok.injEq]
  rw [hh2, hh1, hH]

/-! ## Part 3: the file table filled by C10's reader, the WCOLL step -/
open PdshVerif.Opt.Wcoll (LineMode FS readWcoll FileOK FsOK ContentOK LineOK PlainPath inclOK joinLines)

/-- `Env.files` of C02's model, filled by C10's reader: a path is in the table iff reading it is not fatal;
    the path `-` stands for standard input (`stdin` = its bytes) -/
def filesOf (mode : LineMode) (fs : FS) (stdin : Str) (paths : List Str) : List (Str × List Str) :=
  paths.filterMap fun p =>
    if (readWcoll mode fs stdin p).1.fatal then none else some (p, (readWcoll mode fs stdin p).1.exprs)

theorem lookup_filesOf (mode : LineMode) (fs : FS) (stdin : Str) : ∀ (paths : List Str) (p : Str), p ∈ paths →
    (readWcoll mode fs stdin p).1.fatal = false →
    (filesOf mode fs stdin paths).lookup p = some (readWcoll mode fs stdin p).1.exprs
  | [], _, h, _ => by simp at h
  | q :: qs, p, h, hf => by
    by_cases hpq : p = q
    · subst hpq
      simp [filesOf, List.filterMap_cons, hf, List.lookup]
    · have hin : p ∈ qs := by
        rcases List.mem_cons.mp h with h | h
        · exact absurd h hpq
        · exact h
      have ih := lookup_filesOf mode fs stdin qs p hin hf
      unfold filesOf at ih ⊢
      rw [List.filterMap_cons]
      split
      · exact ih
      · rename_i b hb
        split at hb
        · simp at hb
        · simp only [Option.some.injEq] at hb
          subst hb
          simp only [List.lookup]
          have : (p == q) = false := by simpa using hpq
          rw [this]
          exact ih

/-- the paths a command line names -/
def Seg.paths : Seg → List Str
  | .tfile p _ => [p]
  | .xfile p _ => [p]
  | _ => []

/-- the tail of `opt_args` after the option loop: the WCOLL step (C10), then C02's `finish` -/
def targetList (cfg : Cfg) (env : Env) (wcollEnv : Option Str) (words : List Str) : Res :=
  match argsProcess cfg env words {} with
  | .error r => r
  | .ok st =>
    match st.wcoll, wcollEnv with
    | none, some path =>
      match env.files.lookup path with
      | none => .fatal "wcoll file"
      | some exprs =>
        match readHl cfg exprs EL.new with
        | .error r => r
        | .ok hl => finish cfg env { st with wcoll := some hl }
    | _, _ => finish cfg env st

/-- without WCOLL this is C02's `cliWords` -/
theorem targetList_no_env (cfg : Cfg) (env : Env) (words : List Str) :
    targetList cfg env none words = cliWords cfg env words := by
  unfold targetList cliWords
  cases argsProcess cfg env words {} with
  | error r => rfl
  | ok st => cases h : st.wcoll <;> simp only [h]

/-! ### decidable forms of C10's reading domain -/
def lineOKB (d l : Str) : Bool :=
  !l.contains '\n' &&
  (!decide (l.take 8 = "#include".toList) ||
    (!l.contains '\r' && WcollSpec.startsBlank (l.drop 8) && inclOK d l))

theorem lineOKB_sound {d l : Str} (h : lineOKB d l = true) : LineOK d l := by
  unfold lineOKB at h
  simp only [Bool.and_eq_true, Bool.not_eq_true', Bool.or_eq_true, decide_eq_false_iff_not] at h
  obtain ⟨h1, h2⟩ := h
  have hn : '\n' ∉ l := by
    intro hm
    have : l.contains '\n' = true := List.contains_iff_mem.mpr hm
    rw [h1] at this; cases this
  refine ⟨hn, ?_, ?_⟩
  · intro hi
    rcases h2 with h2 | h2
    · exact absurd hi h2
    · intro hm
      have : l.contains '\r' = true := List.contains_iff_mem.mpr hm
      rw [h2.1.1] at this; cases this
  · intro hi
    rcases h2 with h2 | h2
    · exact absurd hi h2
    · exact ⟨h2.1.2, h2.2⟩

/-- the complete lines of a text and the unterminated rest -/
def splitNL : Str → List Str × Str
  | [] => ([], [])
  | c :: cs =>
    if c = '\n' then ([] :: (splitNL cs).1, (splitNL cs).2)
    else match (splitNL cs).1 with
      | [] => ([], c :: (splitNL cs).2)
      | l :: r => ((c :: l) :: r, (splitNL cs).2)

theorem joinLines_splitNL : ∀ (s : Str), joinLines (splitNL s).1 (splitNL s).2 = s
  | [] => rfl
  | c :: cs => by
    have ih := joinLines_splitNL cs
    unfold splitNL
    by_cases hc : c = '\n'
    · simp only [hc, ↓reduceIte]
      simp only [joinLines, List.flatMap_cons, List.nil_append, List.cons_append] at ih ⊢
      rw [ih]
    · simp only [hc, ↓reduceIte]
      cases hs : (splitNL cs).1 with
      | nil =>
        simp only [hs, joinLines, List.flatMap_nil, List.nil_append] at ih ⊢
        rw [ih]
      | cons l r =>
        simp only [hs, joinLines, List.flatMap_cons, List.cons_append, List.append_assoc] at ih ⊢
        rw [ih]

def fitsB (cap : Option Nat) (k : Nat) : Bool :=
  match cap with
  | none => true
  | some n => decide (k ≤ n)

def contentOKB (cap : Option Nat) (d c : Str) : Bool :=
  ((splitNL c).1.all fun l => lineOKB d l && fitsB cap (l.length + 1)) &&
  lineOKB d (splitNL c).2 && fitsB cap ((splitNL c).2.length + 1)

theorem contentOKB_sound {cap : Option Nat} {d c : Str} (h : contentOKB cap d c = true) : ContentOK cap d c := by
  unfold contentOKB at h
  simp only [Bool.and_eq_true, List.all_eq_true] at h
  obtain ⟨⟨h1, h2⟩, h3⟩ := h
  refine ⟨(splitNL c).1, (splitNL c).2, (joinLines_splitNL c).symm, ?_, lineOKB_sound h2, ?_⟩
  · intro l hl
    refine ⟨lineOKB_sound (h1 l hl).1, ?_⟩
    intro n hn
    have := (h1 l hl).2
    rw [hn] at this
    simpa [fitsB] using this
  · intro n hn
    rw [hn] at h3
    have : (splitNL c).2.length + 1 ≤ n := by simpa [fitsB] using h3
    omega

def fsOKB (cap : Option Nat) (d : Str) (fs : FS) : Bool :=
  fs.all fun f => !f.readable || contentOKB cap d f.content

theorem fsOKB_sound {cap : Option Nat} {d : Str} {fs : FS} (h : fsOKB cap d fs = true) : FsOK cap d fs := by
  intro f hf hr
  unfold fsOKB at h
  have := (List.all_eq_true.mp h) f hf
  simp only [hr, Bool.not_true, Bool.false_or] at this
  exact contentOKB_sound this

/-- no `//` in the path -/
def noDoubleSlash : Str → Bool
  | '/' :: '/' :: _ => false
  | _ :: r => noDoubleSlash r
  | [] => true

theorem noDoubleSlash_append : ∀ (a : Str) (r : Str), noDoubleSlash (a ++ '/' :: '/' :: r) = false
  | [], r => rfl
  | [c], r => by
    show noDoubleSlash (c :: '/' :: '/' :: r) = false
    unfold noDoubleSlash
    split
    · rfl
    · rename_i heq
      simp only [List.cons.injEq] at heq
      rw [← heq.2]
      rfl
    · rename_i heq; cases heq
  | c :: c' :: a, r => by
    have ih := noDoubleSlash_append (c' :: a) r
    show noDoubleSlash (c :: c' :: (a ++ '/' :: '/' :: r)) = false
    unfold noDoubleSlash
    split
    · rfl
    · rename_i heq
      simp only [List.cons.injEq] at heq
      rw [← heq.2]
      exact ih
    · rename_i heq; cases heq

def plainPathB (p : Str) : Bool := (p.getLast? != some '/') && noDoubleSlash p

theorem plainPathB_sound {p : Str} (h : plainPathB p = true) : PlainPath p := by
  unfold plainPathB at h
  simp only [Bool.and_eq_true, bne_iff_ne, ne_eq] at h
  refine ⟨h.1, ?_⟩
  intro B name hp _ hB
  obtain ⟨B', rfl⟩ : ∃ B', B = B' ++ ['/'] := by
    cases hd : B.reverse with
    | nil =>
      have : B = [] := by simpa using hd
      subst this; simp at hB
    | cons x xs =>
      have hBe : B = xs.reverse ++ [x] := by
        have := congrArg List.reverse hd
        simpa using this
      rw [hBe] at hB
      simp only [List.getLast?_append, List.getLast?_singleton, Option.some_or, Option.some.injEq] at hB
      exact ⟨xs.reverse, by rw [hBe, hB]⟩
  have h2 := h.2
  rw [hp, List.append_assoc] at h2
  simp only [List.singleton_append] at h2
  rw [noDoubleSlash_append] at h2
  cases h2

def fileOKB (mode : LineMode) (fs : FS) (p : Str) : Bool :=
  (p != ['-']) && plainPathB p && !(WcollSpec.dirOf p).contains ':' && fsOKB mode.cap (WcollSpec.dirOf p) fs

theorem fileOKB_sound {mode : LineMode} {fs : FS} {p : Str} (h : fileOKB mode fs p = true) : FileOK mode fs p := by
  unfold fileOKB at h
  simp only [Bool.and_eq_true, bne_iff_ne, ne_eq, Bool.not_eq_true'] at h
  obtain ⟨⟨⟨h1, h2⟩, h3⟩, h4⟩ := h
  refine ⟨h1, plainPathB_sound h2, ?_, fsOKB_sound h4⟩
  intro hm
  have : (WcollSpec.dirOf p).contains ':' = true := List.contains_iff_mem.mpr hm
  rw [h3] at this; cases this

/-- the file is in the domain of C10's `file_source_spec_partial`, the specification reads it without error,
    and its expressions are these words; for `-` (standard input): the stream is in the domain of
    `file_hosts_spec_partial` with the directory `.` -/
def readsAsB (mode : LineMode) (fs : FS) (stdin : Str) (p : Str) (ws : List Spec.Word) : Bool :=
  if p = ['-'] then
    fsOKB mode.cap ['.'] fs && contentOKB mode.cap ['.'] stdin &&
    !(WcollSpec.streamHosts fs ['.'] stdin).error &&
    decide ((WcollSpec.streamHosts fs ['.'] stdin).exprs = ws.map Spec.renderWord)
  else
    fileOKB mode fs p && !(WcollSpec.fileHosts fs p).error &&
    decide ((WcollSpec.fileHosts fs p).exprs = ws.map Spec.renderWord)

/-- C10 → C02: the reader fills the table with the words' texts -/
theorem readsAs_lookup {mode : LineMode} {fs : FS} {stdin : Str} {p : Str} {ws : List Spec.Word}
    (h : readsAsB mode fs stdin p ws = true) (paths : List Str) (hp : p ∈ paths) :
    (filesOf mode fs stdin paths).lookup p = some (ws.map Spec.renderWord) := by
  unfold readsAsB at h
  split at h
  · rename_i hdash
    subst hdash
    simp only [Bool.and_eq_true, Bool.not_eq_true', decide_eq_true_eq] at h
    obtain ⟨⟨⟨h0, h1⟩, h2⟩, h3⟩ := h
    have hdirs : Wcoll.listSplit [':'] ['.'] = [['.']] := by decide
    have hrd : (readWcoll mode fs stdin ['-']).1 = Wcoll.readStream mode fs [['.']] stdin := by
      simp [readWcoll, hdirs]
    obtain ⟨e1, _, e3⟩ := Wcoll.file_hosts_spec_partial' mode fs ['.'] (fsOKB_sound h0) stdin (contentOKB_sound h1)
    rw [lookup_filesOf mode fs stdin paths _ hp (by rw [hrd, e3, h2]), hrd, e1, h3]
  · simp only [Bool.and_eq_true, Bool.not_eq_true', decide_eq_true_eq] at h
    obtain ⟨⟨h1, h2⟩, h3⟩ := h
    have ok := fileOKB_sound h1
    obtain ⟨e1, _, e3⟩ := Wcoll.file_source_spec_partial' mode fs stdin p ok.notDash
      (Wcoll.search_path_of_plain p ok.plain ok.noColon) ok.fsok
    rw [lookup_filesOf mode fs stdin paths p hp (by rw [e3, h2]), e1, h3]

/-! ## Part 4: the domain as ONE decidable predicate, and the composition -/
open PdshVerif.Opt.Wcoll (hostPart isspaceC)

def hostTextB (t : Str) : Bool :=
  match t with
  | c :: _ => c != '-' && c != '^' && c != '/' && !isspaceC c
  | [] => false

theorem hostTextB_sound {t : Str} (h : hostTextB t = true) : HostText t := by
  cases t with
  | nil => simp [hostTextB] at h
  | cons c cs =>
    simp only [hostTextB, Bool.and_eq_true, bne_iff_ne, ne_eq, Bool.not_eq_true'] at h
    exact ⟨c, cs, rfl, h.1.1.1, h.1.1.2, h.1.2, h.2⟩

def xTextB (t : Str) : Bool :=
  match t with
  | c :: _ => c != '^' && c != '/' && !isspaceC c
  | [] => false

theorem xTextB_sound {t : Str} (h : xTextB t = true) : XText t := by
  cases t with
  | nil => simp [xTextB] at h
  | cons c cs =>
    simp only [xTextB, Bool.and_eq_true, bne_iff_ne, ne_eq, Bool.not_eq_true'] at h
    exact ⟨c, cs, rfl, h.1.1, h.1.2, h.2⟩

instance (e : EL) : Decidable e.Good := by unfold EL.Good; exact inferInstance
instance (x : Str) : Decidable (SmallName x) := by unfold SmallName; exact inferInstance

/-- C02's `EntryOk`, decided -/
def entryOkB (cfg : Cfg) (s : Str) (names : List Str) : Bool :=
  match create cfg s with
  | .ok t => decide ((pushListE EL.new t).Good ∧ (∀ r ∈ (pushListE EL.new t).ranges, r.ShiftFits) ∧
      (pushListE EL.new t).hosts.length ≤ t.nhosts.toNat ∧
      names = (pushListE EL.new t).hosts ∧ ∀ x ∈ names, SmallName x)
  | _ => false

theorem entryOkB_sound {cfg : Cfg} {s : Str} {names : List Str} (h : entryOkB cfg s names = true) :
    EntryOk cfg s names := by
  unfold entryOkB at h
  split at h
  · rename_i t ht
    exact ⟨t, ht, of_decide_eq_true h⟩
  · cases h

/-- C02's `Entry2Ok` (repaired `wcoll_apply_excluded`: every name goes through `hostlist_delete` on its own) -/
def entry2OkB (cfg : Cfg) (s : Str) (names : List Str) : Bool :=
  entryOkB cfg s names && names.all fun n => entryOkB cfg n [n]

theorem entry2OkB_sound {cfg : Cfg} {s : Str} {names : List Str} (h : entry2OkB cfg s names = true) :
    Entry2Ok cfg s names := by
  simp only [entry2OkB, Bool.and_eq_true, List.all_eq_true] at h
  exact ⟨entryOkB_sound h.1, fun n hn => entryOkB_sound (h.2 n hn)⟩

def wordsFineB (cfg : Cfg) (ws : List Spec.Word) : Bool := ws.all fun w => w.WF && decide (wordDom cfg w)

theorem wordsFineB_sound {cfg : Cfg} {ws : List Spec.Word} (h : wordsFineB cfg ws = true) : WordsFine cfg ws := by
  intro w hw
  have := (List.all_eq_true.mp h) w hw
  simpa using this

/-- C01's `hd2`: the first-level names, read as words again, are in the parser's domain -/
def rewordB (cfg : Cfg) (ws : List Spec.Word) : Bool := ws.all fun w => (reword w).all fun w' => decide (wordDom cfg w')

theorem rewordB_sound {cfg : Cfg} {ws : List Spec.Word} (h : rewordB cfg ws = true) :
    ∀ w ∈ ws, ∀ w' ∈ reword w, wordDom cfg w' := by
  intro w hw w' hw'
  have := (List.all_eq_true.mp ((List.all_eq_true.mp h) w hw)) w' hw'
  simpa using this

/-- the domain hypotheses of one segment: C01's (`WF`, `wordDom`, also of the first-level names), C02's
    (`HostText`, `XText`, `Entry2Ok`, `badre`) and C10's (`readsAsB`) -/
def segDomB (cfg : Cfg) (mode : LineMode) (fs : FS) (stdin : Str) (badre : Str → Bool) : Seg → Bool
  | .cw (.tgt w) => w.WF && decide (wordDom cfg w) && hostTextB (Spec.renderWord w) &&
      decide (hostPart (Spec.renderWord w) = some (Spec.renderWord w)) && rewordB cfg [w]
  | .cw (.xcl w) => xTextB (Spec.renderWord w) && entry2OkB cfg (Spec.renderWord w) w.expand₁
  | .cw (.re _ p) => !badre p
  | .tfile p ws => readsAsB mode fs stdin p ws && wordsFineB cfg ws && rewordB cfg ws
  | .xfile p ws => readsAsB mode fs stdin p ws && wordsFineB cfg ws && decide ((xfileText cfg ws).length < 4095) &&
      entry2OkB cfg (xfileText cfg ws) (Spec.expand₁ ws)

theorem segDomB_sound {cfg : Cfg} {mode : LineMode} {fs : FS} {stdin : Str} {rematch : Str → Str → Option Bool}
    {badre : Str → Bool} (paths : List Str) :
    ∀ (s : Seg), segDomB cfg mode fs stdin badre s = true → (∀ p ∈ s.paths, p ∈ paths) →
    SegOk cfg { files := filesOf mode fs stdin paths, rematch := rematch, badre := badre } s ∧ SegFine cfg s ∧
    (∀ w ∈ s.words, ∀ w' ∈ reword w, wordDom cfg w') ∧ (∀ p ∈ s.ent cfg, Entry2Ok cfg p.1 p.2)
  | .cw (.tgt w), h, _ => by
    simp only [segDomB, Bool.and_eq_true, decide_eq_true_eq] at h
    obtain ⟨⟨⟨⟨h1, h2⟩, h3⟩, h4⟩, h5⟩ := h
    refine ⟨⟨h1, h2, hostTextB_sound h3, h4⟩, ?_, rewordB_sound h5, by simp [Seg.ent]⟩
    intro x hx
    simp only [Seg.words, List.mem_singleton] at hx
    subst hx; exact ⟨h1, h2⟩
  | .cw (.xcl w), h, _ => by
    simp only [segDomB, Bool.and_eq_true] at h
    refine ⟨xTextB_sound h.1, by intro x hx; simp [Seg.words] at hx, by intro x hx; simp [Seg.words] at hx, ?_⟩
    intro p hp
    simp only [Seg.ent, List.mem_singleton] at hp
    subst hp; exact entry2OkB_sound h.2
  | .cw (.re ex p), h, _ => by
    simp only [segDomB, Bool.not_eq_true'] at h
    exact ⟨h, by intro x hx; simp [Seg.words] at hx, by intro x hx; simp [Seg.words] at hx, by simp [Seg.ent]⟩
  | .tfile p ws, h, hp => by
    simp only [segDomB, Bool.and_eq_true] at h
    obtain ⟨⟨h1, h2⟩, h3⟩ := h
    exact ⟨⟨readsAs_lookup h1 paths (hp p (by simp [Seg.paths])), wordsFineB_sound h2⟩, wordsFineB_sound h2,
      rewordB_sound h3, by simp [Seg.ent]⟩
  | .xfile p ws, h, hp => by
    simp only [segDomB, Bool.and_eq_true, decide_eq_true_eq] at h
    obtain ⟨⟨⟨h1, h2⟩, h3⟩, h4⟩ := h
    refine ⟨⟨readsAs_lookup h1 paths (hp p (by simp [Seg.paths])), wordsFineB_sound h2, h3⟩,
      by intro x hx; simp [Seg.words] at hx, by intro x hx; simp [Seg.words] at hx, ?_⟩
    intro q hq
    simp only [Seg.ent, List.mem_singleton] at hq
    subst hq; exact entry2OkB_sound h4

/-- the words the target list is made of: those of the target segments, files inlined where they stand;
    WCOLL's iff there is no target segment -/
def tgtWords (segs : List Seg) (wenv : Option (Str × List Spec.Word)) : List Spec.Word :=
  if segs.any Seg.isTgt then segs.flatMap Seg.words
  else match wenv with
    | some (_, ws) => ws
    | none => []

/-- the names a segment excludes -/
def Seg.xnames : Seg → List Str
  | .cw (.xcl w) => w.expand₁
  | .xfile _ ws => Spec.expand₁ ws
  | _ => []

def allPaths (segs : List Seg) (wenv : Option (Str × List Spec.Word)) : List Str :=
  segs.flatMap Seg.paths ++ (match wenv with | some (p, _) => [p] | none => [])

/-- C02's environment, its file table filled by C10's reader -/
def envOf (mode : LineMode) (fs : FS) (stdin : Str) (rematch : Str → Str → Option Bool) (badre : Str → Bool)
    (segs : List Seg) (wenv : Option (Str × List Spec.Word)) : Env :=
  { files := filesOf mode fs stdin (allPaths segs wenv), rematch := rematch, badre := badre }

/-- `opt->wcoll` before `wcoll_expand` -/
def finalEL (cfg : Cfg) (segs : List Seg) (wenv : Option (Str × List Spec.Word)) : Option EL :=
  match (segs.foldl (step cfg) {}).wcoll, wenv with
  | none, some (_, ws) => some (fileEL cfg ws)
  | o, _ => o

/-- THE DOMAIN of `target_list_end_to_end`, one decidable predicate -/
def targetDomain (cfg : Cfg) (mode : LineMode) (fs : FS) (stdin : Str) (rematch : Str → Str → Option Bool)
    (badre : Str → Bool) (segs : List Seg) (wenv : Option (Str × List Spec.Word)) : Bool :=
  -- every segment is in the domain of the theorem that handles it
  segs.all (segDomB cfg mode fs stdin badre) &&
  -- there is a source of targets; WCOLL, if it is consulted, is a readable file of words
  (segs.any Seg.isTgt ||
    match wenv with
    | some (p, ws) => readsAsB mode fs stdin p ws && wordsFineB cfg ws && rewordB cfg ws
    | none => false) &&
  -- the regex oracle answers for every pattern and target
  ((segs.flatMap Seg.reg).all fun p =>
    (Spec.expand₂ (tgtWords segs wenv)).all fun h => (rematch p.2 h).isSome) &&
  -- C01's `hf` for `wcoll_expand₂`: the numbers of the assembled list fit `hostrange_shift`'s buffer
  -- (a hypothesis on the list, not on the words)
  (match finalEL cfg segs wenv with
   | some e => decide (∀ r ∈ e.ranges, r.ShiftFits)
   | none => true) &&
  -- standard input is read once: at most one of the sources is `-` (a second one would find end of file,
  -- `stdin_read_once`; C02's file table is a static lookup)
  decide ((allPaths segs wenv).count ['-'] ≤ 1)

theorem segs_tgt_expand₁ : ∀ (segs : List Seg), segs.flatMap Seg.tgt = Spec.expand₁ (segs.flatMap Seg.words)
  | [] => rfl
  | s :: segs => by
    have ih := segs_tgt_expand₁ segs
    have h1 : s.tgt = Spec.expand₁ s.words := by
      match s with
      | .cw (.tgt w) => simp [Seg.tgt, Seg.words, Spec.expand₁]
      | .cw (.xcl _) => rfl
      | .cw (.re _ _) => rfl
      | .tfile _ ws => rfl
      | .xfile _ _ => rfl
    unfold Spec.expand₁ at ih h1 ⊢
    simp only [List.flatMap_cons, List.flatMap_append, ih, h1]

theorem ent_names (cfg : Cfg) : ∀ (segs : List Seg),
    (segs.flatMap (Seg.ent cfg)).flatMap (·.2) = segs.flatMap Seg.xnames
  | [] => rfl
  | s :: segs => by
    have ih := ent_names cfg segs
    simp only [List.flatMap_cons, List.flatMap_append, ih]
    congr 1
    cases s with
    | cw w => cases w <;> simp [Seg.ent, Seg.xnames]
    | tfile _ _ => simp [Seg.ent, Seg.xnames]
    | xfile _ _ => simp [Seg.ent, Seg.xnames]

/-- the formula: the targets in source order, minus every excluded name, filtered by every regex -/
def targetSpec (env : Env) (segs : List Seg) (wenv : Option (Str × List Spec.Word)) : List Str :=
  (((Spec.expand₂ (tgtWords segs wenv)).filter fun h => !(segs.flatMap Seg.xnames).contains h).filter
    (keepAll env (segs.flatMap Seg.reg)))

theorem targetList_correct (cfg : Cfg) (hD1 : cfg.fixDeleteAll = true) (hD17 : cfg.fixIterSuffix = true)
    (hD19 : cfg.fixRemoveDepth = true) (h2 : cfg.fix2Br = true) (mode : LineMode) (fs : FS) (stdin : Str)
    (rematch : Str → Str → Option Bool)
    (badre : Str → Bool) (segs : List Seg) (wenv : Option (Str × List Spec.Word))
    (hdom : targetDomain cfg mode fs stdin rematch badre segs wenv = true) :
    targetList cfg (envOf mode fs stdin rematch badre segs wenv) (wenv.map (·.1)) (segs.map Seg.text) =
      .ok (targetSpec (envOf mode fs stdin rematch badre segs wenv) segs wenv) := by
  unfold targetDomain at hdom
  simp only [Bool.and_eq_true, List.all_eq_true] at hdom
  obtain ⟨⟨⟨⟨d1, d2⟩, d4⟩, d5⟩, _⟩ := hdom
  -- the segments, one by one
  have hseg := fun s (hs : s ∈ segs) =>
    segDomB_sound (cfg := cfg) (mode := mode) (fs := fs) (stdin := stdin) (rematch := rematch) (badre := badre)
      (allPaths segs wenv) s (d1 s hs)
      (fun p hp => List.mem_append_left _ (List.mem_flatMap.mpr ⟨s, hs, hp⟩))
  have hst := argsProcess_segs cfg (envOf mode fs stdin rematch badre segs wenv) segs {}
    (fun s hs => (hseg s hs).1)
  obtain ⟨i1, i2, i3, i4⟩ := foldl_step_spec cfg segs {} [] (by simp [WInv]) (fun s hs => (hseg s hs).2.1)
  simp only [List.nil_append, List.append_nil, Option.isSome_none, Bool.false_or] at i1 i2 i3 i4
  -- the exclusion entries (the stack is walked newest first) and the filters
  let es : List (Str × List Str) := (segs.flatMap (Seg.ent cfg)).reverse
  have hes : ∀ p ∈ es, Entry2Ok cfg p.1 p.2 := by
    intro p hp
    obtain ⟨s, hs, hps⟩ := List.mem_flatMap.mp (List.mem_reverse.mp hp)
    exact (hseg s hs).2.2.2 p hps
  have hesm : es.map (·.1) = ((segs.flatMap (Seg.ent cfg)).map (·.1)).reverse := by
    simp [es, List.map_reverse]
  -- the list the later stages start from, in both cases
  have key : ∀ (e : EL), finalEL cfg segs wenv = some e →
      e.Good → e.hosts = Spec.expand₁ (tgtWords segs wenv) →
      (∀ w ∈ tgtWords segs wenv, w.WF = true) →
      (∀ w ∈ tgtWords segs wenv, ∀ w' ∈ reword w, wordDom cfg w') →
      finish cfg (envOf mode fs stdin rematch badre segs wenv)
        { wcoll := some e, excl := (segs.foldl (step cfg) {}).excl, regex := (segs.foldl (step cfg) {}).regex } =
      .ok (targetSpec (envOf mode fs stdin rematch badre segs wenv) segs wenv) := by
    intro e hfe hg hh hwf hd2
    have hsf : ∀ r ∈ e.ranges, r.ShiftFits := by
      rw [hfe] at d5; simpa using d5
    rw [i2, i3, ← hesm]
    rw [finish_correct cfg hD1 hD17 hD19 h2 _ e (tgtWords segs wenv) es _ hg hh hwf hd2 hsf hes
      (fun p hp h hh' => d4 p (List.mem_reverse.mp hp) h hh')]
    unfold targetSpec
    congr 1
    have hf1 : (Spec.expand₂ (tgtWords segs wenv)).filter (fun h => !(es.flatMap (·.2)).contains h) =
        (Spec.expand₂ (tgtWords segs wenv)).filter (fun h => !(segs.flatMap Seg.xnames).contains h) := by
      apply List.filter_congr
      intro h _
      congr 1
      rw [Bool.eq_iff_iff, ← ent_names cfg segs]
      simp [es, List.mem_flatMap]
    rw [hf1]
    apply List.filter_congr
    intro h _
    simp [keepAll, List.all_reverse]
  unfold targetList
  rw [hst]
  simp only
  cases hany : segs.any Seg.isTgt with
  | true =>
    rw [hany] at i4
    obtain ⟨e, he⟩ := Option.isSome_iff_exists.mp i4
    have hfe : finalEL cfg segs wenv = some e := by
      unfold finalEL; rw [he]
    have hW : tgtWords segs wenv = segs.flatMap Seg.words := by simp [tgtWords, hany]
    rw [he] at i1
    obtain ⟨g, _, _, hh⟩ := i1
    have := key e hfe g (by rw [hh, segs_tgt_expand₁, hW])
      (by
        rw [hW]; intro w hw
        obtain ⟨s, hs, hws⟩ := List.mem_flatMap.mp hw
        exact ((hseg s hs).2.1 w hws).1)
      (by
        rw [hW]; intro w hw
        obtain ⟨s, hs, hws⟩ := List.mem_flatMap.mp hw
        exact (hseg s hs).2.2.1 w hws)
    rw [he]
    simp only
    rw [← this]
    congr 1
    cases hs : segs.foldl (step cfg) {} with
    | mk w x r => rw [hs] at he; simp only at he; rw [he]
  | false =>
    rw [hany] at i4
    have hnone : (segs.foldl (step cfg) {}).wcoll = none := by
      cases h : (segs.foldl (step cfg) {}).wcoll with
      | none => rfl
      | some e => rw [h] at i4; simp at i4
    simp only [hany, Bool.false_or] at d2
    match wenv, d2, key, d4, d5 with
    | some (p, ws), d2, key, _, _ =>
      simp only [Bool.and_eq_true] at d2
      obtain ⟨⟨r1, r2⟩, r3⟩ := d2
      have hfine := wordsFineB_sound r2
      have hlk := readsAs_lookup r1 (allPaths segs (some (p, ws))) (by simp [allPaths])
      have hfe : finalEL cfg segs (some (p, ws)) = some (fileEL cfg ws) := by
        unfold finalEL; rw [hnone]
      have hW : tgtWords segs (some (p, ws)) = ws := by simp [tgtWords, hany]
      obtain ⟨g, hh⟩ := fileEL_spec cfg ws hfine
      have := key _ hfe g (by rw [hh, hW]) (by rw [hW]; exact fun w hw => (hfine w hw).1)
        (by rw [hW]; exact rewordB_sound r3)
      rw [hnone]
      simp only [Option.map_some, envOf] at hlk ⊢
      rw [hlk]
      simp only
      rw [readHl_words cfg ws EL.new hfine]
      simp only
      exact this

end PdshVerif.Opt.Targets
