/-
  Helper lemmas for C18.accepts_valid (the forward direction: valid settings are accepted).
-/
import PdshVerif.Opt.Lemmas

namespace PdshVerif.Opt
open PdshVerif

/-- a numeric text in canonical valid form: plain decimal, no sign / blanks / superfluous zeros,
    `lo <= value <= INT_MAX` -/
def validNum (lo : Nat) (s : Str) : Prop :=
  CInt.canonical s = true ∧ lo ≤ CInt.digitsVal s ∧ (CInt.digitsVal s : Int) ≤ CInt.INT_MAX

/-- an option (with its argument) that the switch of opt_args accepts for every variant of the code:
    valid numbers for -f / -t / -u, a user name within the limit, any -R / -e / -M text (checked later / never),
    a -w argument whose words are well-formed `[rcmd_type:][user@]hosts` with loaded transports, the flags -S -k -q,
    the options that change no setting and the options the modules registered; not -L -V -T -h (they end the program),
    not -y -z -Z (other modes), -d only where it is repaired -/
def goodOpt (fx : Fixes) (d : Defaults) (o : OptW) : Prop :=
  match caseOf o.ch with
  | .keep => True
  | .rcmd => True
  | .path => True
  | .fanout => validNum 1 (o.arg.getD [])
  | .ctmo => validNum 0 (o.arg.getD [])
  | .utmo => validNum 0 (o.arg.getD [])
  | .ruser => (o.arg.getD []).length ≤ d.loginMax
  | .flag f => f = .S ∨ f = .k ∨ f = .q ∨ f = .w
  | .wcoll => wcollArg fx d (o.arg.getD []) = some true     -- every word well-formed, loaded transports, names targets
  | .dbg => fx.dopt = true
  | .exit0 => False
  | .usage => modOpt d o.ch = true                           -- an option a module registered (else: usage error)

theorem timeoutArg_canonical (fx : Fixes) (s : Str) (hc : CInt.canonical s = true)
    (hr : (CInt.digitsVal s : Int) ≤ CInt.INT_MAX) :
    timeoutArg fx s = some (CInt.digitsVal s : Int) := by
  unfold timeoutArg
  by_cases hat : fx.atoi = true
  · simp only [hat, if_true]
    exact stringToInt_canonical fx s hc hr
  · simp only [hat, Bool.false_eq_true, if_false]
    have hs := canonical_scan s hc
    have hne : s ≠ [] := by
      unfold CInt.canonical at hc
      simp only [Bool.and_eq_true] at hc
      simpa using hc.1.1
    unfold CInt.INT_MAX at hr
    unfold CInt.atoi CInt.strtol
    simp only [hs, hne, if_false, Bool.false_eq_true]
    have : ¬ (CInt.digitsVal s ≥ CInt.I63) := by unfold CInt.I63; omega
    simp only [this, if_false]
    rw [CInt.toInt32_small _ (by unfold CInt.I31; omega)]

theorem validNum_stringToInt (fx : Fixes) {lo : Nat} {s : Str} (h : validNum lo s) :
    stringToInt fx s = some (CInt.digitsVal s : Int) := stringToInt_canonical fx s h.1 h.2.2

theorem validNum_timeoutArg (fx : Fixes) {lo : Nat} {s : Str} (h : validNum lo s) :
    timeoutArg fx s = some (CInt.digitsVal s : Int) := timeoutArg_canonical fx s h.1 h.2.2

/-- a good option never makes the switch exit, and the only flags it sets are S k q w -/
theorem good_action (fx : Fixes) (d : Defaults) (o : OptW) (h : goodOpt fx d o) :
    (∀ n, action fx d o.tok ≠ .exit n) ∧
    (∀ f, action fx d o.tok = .flag f → f = .S ∨ f = .k ∨ f = .q ∨ f = .w) := by
  unfold goodOpt at h
  unfold OptW.tok action
  cases hc : caseOf o.ch with
  | keep => simp [hc]
  | rcmd => simp [hc]
  | path => simp [hc]
  | fanout =>
    simp only [hc] at h ⊢
    simp [validNum_stringToInt fx h, Option.elim]
  | ctmo =>
    simp only [hc] at h ⊢
    simp [validNum_timeoutArg fx h, Option.elim]
  | utmo =>
    simp only [hc] at h ⊢
    simp [validNum_timeoutArg fx h, Option.elim]
  | ruser =>
    simp only [hc] at h ⊢
    have : ¬ (o.arg.getD []).length > d.loginMax := by omega
    simp [this]
  | flag f =>
    simp only [hc] at h ⊢
    refine ⟨by simp, ?_⟩
    intro f' hf
    simp only [Act.flag.injEq] at hf
    subst hf
    exact h
  | dbg =>
    simp only [hc] at h ⊢
    simp [h]
  | wcoll =>
    simp only [hc] at h ⊢
    simp [h, Option.elim]
  | exit0 => simp [hc] at h
  | usage =>
    simp only [hc] at h ⊢
    simp [h]

/-- if no token makes the switch exit, opt_args runs through -/
theorem applyToks_ok_of_no_exit (fx : Fixes) (d : Defaults) (p : Pers) (toks : List Tok)
    (h : ∀ t ∈ toks, ∀ n, action fx d t ≠ .exit n) (c : Cfg) : ∃ c', applyToks fx d p c toks = .ok c' := by
  induction toks generalizing c with
  | nil => exact ⟨c, rfl⟩
  | cons t ts ih =>
    have ht := h t (by simp)
    unfold applyToks applyTok
    cases ha : action fx d t with
    | exit n => exact absurd ha (ht n)
    | keep => simpa [perform] using ih (fun x hx => h x (by simp [hx])) _
    | fanout v => simpa [perform] using ih (fun x hx => h x (by simp [hx])) _
    | ctmo v => simpa [perform] using ih (fun x hx => h x (by simp [hx])) _
    | utmo v => simpa [perform] using ih (fun x hx => h x (by simp [hx])) _
    | ruser s => simpa [perform] using ih (fun x hx => h x (by simp [hx])) _
    | rcmd s => simpa [perform] using ih (fun x hx => h x (by simp [hx])) _
    | path s => simpa [perform] using ih (fun x hx => h x (by simp [hx])) _
    | flag f => simpa [perform] using ih (fun x hx => h x (by simp [hx])) _

/-- the mode flags: untouched when the only flags set are S k q w; -w leaves hasWcoll set -/
theorem applyToks_flags (fx : Fixes) (d : Defaults) (p : Pers) (toks : List Tok)
    (hfl : ∀ t ∈ toks, ∀ f, action fx d t = .flag f → f = .S ∨ f = .k ∨ f = .q ∨ f = .w)
    (c c' : Cfg) (h : applyToks fx d p c toks = .ok c') :
    c'.targetIsDir = c.targetIsDir ∧ c'.pcpServer = c.pcpServer ∧ c'.pcpClient = c.pcpClient ∧
    ((c.hasWcoll = true ∨ ∃ t ∈ toks, action fx d t = .flag .w) → c'.hasWcoll = true) := by
  induction toks generalizing c with
  | nil =>
    simp only [applyToks, Except.ok.injEq] at h
    subst h
    simp
  | cons t ts ih =>
    unfold applyToks at h
    cases h1 : applyTok fx d p c t with
    | error n => simp [h1] at h
    | ok c1 =>
      simp only [h1] at h
      obtain ⟨i1, i2, i3, i4⟩ := ih (fun x hx => hfl x (by simp [hx])) c1 h
      have hft := hfl t (by simp)
      unfold applyTok at h1
      have key : c1.targetIsDir = c.targetIsDir ∧ c1.pcpServer = c.pcpServer ∧ c1.pcpClient = c.pcpClient ∧
          (c.hasWcoll = true → c1.hasWcoll = true) ∧ (action fx d t = .flag .w → c1.hasWcoll = true) := by
        rcases perform_ok_cases h1 with ⟨ha, hc⟩ | ⟨v, ha, hc⟩ | ⟨v, ha, hc⟩ | ⟨v, ha, hc⟩ | ⟨s, ha, hc⟩ |
          ⟨s, ha, hc⟩ | ⟨s, ha, hc⟩ | ⟨f, ha, hc⟩
        all_goals subst hc
        all_goals (try (simp [ha]; done))
        rcases hft f ha with rfl | rfl | rfl | rfl <;> simp [setFlag, ha]
      obtain ⟨k1, k2, k3, k4, k5⟩ := key
      refine ⟨i1.trans k1, i2.trans k2, i3.trans k3, ?_⟩
      rintro (hw | ⟨t', ht', hw'⟩)
      · exact i4 (Or.inl (k4 hw))
      · rcases List.mem_cons.mp ht' with rfl | hin
        · exact i4 (Or.inl (k5 hw'))
        · exact i4 (Or.inr ⟨t', hin, hw'⟩)

theorem envNum_valid (fx : Fixes) (env : Env) (name : String) (cur : Int) (lo : Nat)
    (h : ∀ t, getenv env name = some t → validNum lo t) :
    envNum fx env name cur = .ok ((getenv env name).elim cur (fun t => (CInt.digitsVal t : Int))) := by
  unfold envNum
  cases hg : getenv env name with
  | none => rfl
  | some t => simp [validNum_stringToInt fx (h t hg)]

/-- the argument of the last `-ch` of a structured command line belongs to one of its options -/
theorem lastArg_map_tok {ch : Char} {opts : List OptW} {a : Str}
    (h : lastArg ch (opts.map OptW.tok) = some a) : ∃ o ∈ opts, o.ch = ch ∧ o.arg.getD [] = a := by
  obtain ⟨arg, hm, hg⟩ := lastArg_mem h
  obtain ⟨o, ho, hto⟩ := List.mem_map.mp hm
  unfold OptW.tok at hto
  simp only [Tok.opt.injEq] at hto
  exact ⟨o, ho, hto.1, by rw [hto.2]; exact hg⟩

theorem caseOf_f : caseOf 'f' = .fanout := by decide
theorem caseOf_t : caseOf 't' = .ctmo := by decide
theorem caseOf_u : caseOf 'u' = .utmo := by decide
theorem caseOf_l : caseOf 'l' = .ruser := by decide
theorem caseOf_w : caseOf 'w' = .wcoll := by decide

end PdshVerif.Opt
