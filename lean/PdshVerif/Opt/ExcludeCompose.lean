/-
  C02 composition: from the words `wcoll_arg_process` sees to the hosts pdsh goes on with —
  assembling the targets, `wcoll_apply_excluded`, `wcoll_apply_regex`, `wcoll_expand` — equals the
  specification formula, for one-bracket target words, small names, and the repaired D1, D17, D19.
-/
import PdshVerif.Opt.ExcludeFilter
import PdshVerif.Hostlist.LemmasInv
import PdshVerif.Hostlist.LemmasExpand

namespace PdshVerif.Opt.Exclude
open PdshVerif.Hostlist

/-! ### the words of a command line, by meaning -/
inductive CW where
  | tgt (w : Spec.Word)
  | xcl (w : Spec.Word)
  | re (exclude : Bool) (pat : Str)

/-- the text `wcoll_arg_process` gets -/
def CW.text : CW → Str
  | .tgt w => Spec.renderWord w
  | .xcl w => '-' :: Spec.renderWord w
  | .re false p => '/' :: (p ++ ['/'])
  | .re true p => '-' :: '/' :: (p ++ ['/'])

def tgts : List CW → List Spec.Word
  | [] => []
  | .tgt w :: r => w :: tgts r
  | _ :: r => tgts r

def xcls : List CW → List Spec.Word
  | [] => []
  | .xcl w :: r => w :: xcls r
  | _ :: r => xcls r

def regs : List CW → List (Bool × Str)
  | [] => []
  | .re ex p :: r => (ex, p) :: regs r
  | _ :: r => regs r

/-- a word text that is taken as host names: it starts with something else than `-` `^` `/` blank -/
def HostText (t : Str) : Prop :=
  ∃ c cs, t = c :: cs ∧ c ≠ '-' ∧ c ≠ '^' ∧ c ≠ '/' ∧ Wcoll.isspaceC c = false

/-- the part behind the `-` of an exclusion word -/
def XText (t : Str) : Prop := ∃ c cs, t = c :: cs ∧ c ≠ '^' ∧ c ≠ '/' ∧ Wcoll.isspaceC c = false

/-- the target words pushed one after the other -/
def assembleE (cfg : Cfg) : List Spec.Word → EL → EL
  | [], e => e
  | w :: ws, e =>
    match create cfg (Spec.renderWord w) with
    | .ok n => assembleE cfg ws (pushListE e n)
    | _ => assembleE cfg ws e

theorem assembleE_spec (cfg : Cfg) : ∀ (ws : List Spec.Word) (e : EL), e.Good →
    (∀ w ∈ ws, w.WF = true ∧ wordDom cfg w) →
    (assembleE cfg ws e).Good ∧ (assembleE cfg ws e).hosts = e.hosts ++ Spec.expand₁ ws ∧
    (e.IdsOk → (assembleE cfg ws e).IdsOk) ∧ (assembleE cfg ws e).its = e.its
  | [], e, hg, _ => ⟨hg, by simp [assembleE, Spec.expand₁], id, rfl⟩
  | w :: ws, e, hg, hw => by
    obtain ⟨n, hc, hng, hnh⟩ := create_word cfg w (hw w (by simp)).1 (hw w (by simp)).2
    obtain ⟨g1, h1, k1, k2⟩ := pushListE_spec e n hg hng
    obtain ⟨g2, h2, k3, k4⟩ := assembleE_spec cfg ws (pushListE e n) g1 (fun x hx => hw x (by simp [hx]))
    simp only [assembleE, hc]
    refine ⟨g2, ?_, fun h => k3 (k1 h), by rw [k4, k2]⟩
    rw [h2, h1, hnh]
    simp [Spec.expand₁]

/-! ### `wcoll_arg_process` on these words -/
theorem argProcess_tgt (cfg : Cfg) (env : Env) (st : St) (w : Spec.Word) (hw : w.WF = true) (hd : wordDom cfg w)
    (ht : HostText (Spec.renderWord w))
    (hp : Wcoll.hostPart (Spec.renderWord w) = some (Spec.renderWord w)) :
    ∃ n, create cfg (Spec.renderWord w) = .ok n ∧
      argProcess cfg env st (Spec.renderWord w) =
        .ok { st with wcoll := some (pushListE (st.wcoll.getD EL.new) n) } := by
  obtain ⟨n, hc, _, _⟩ := create_word cfg w hw hd
  refine ⟨n, hc, ?_⟩
  obtain ⟨c, cs, htx, h1, h2, h3, h4⟩ := ht
  unfold argProcess
  rw [htx] at hp hc ⊢
  have hex : ((c :: cs).head? == some '-') = false := by simp [h1]
  have hdw : (c :: cs).dropWhile Wcoll.isspaceC = c :: cs := by simp [List.dropWhile, h4]
  simp only [hex, Bool.false_eq_true, ↓reduceIte, hdw]
  split
  · rename_i heq; simp only [List.cons.injEq] at heq; exact absurd heq.1 h2
  · rename_i heq; simp only [List.cons.injEq] at heq; exact absurd heq.1 h3
  · simp only [hp, pushX, pushE, hc, ↓reduceIte]

theorem argProcess_xcl (cfg : Cfg) (env : Env) (st : St) (x : Str) (ht : XText x) :
    argProcess cfg env st ('-' :: x) = .ok { st with excl := x :: st.excl } := by
  obtain ⟨c, cs, htx, h2, h3, h4⟩ := ht
  unfold argProcess
  rw [htx]
  have hex : (('-' :: c :: cs).head? == some '-') = true := by simp
  have hdw : (c :: cs).dropWhile Wcoll.isspaceC = c :: cs := by simp [List.dropWhile, h4]
  simp only [hex, ↓reduceIte, List.drop_succ_cons, List.drop_zero, hdw]
  split
  · rename_i heq; simp only [List.cons.injEq] at heq; exact absurd heq.1 h2
  · rename_i heq; simp only [List.cons.injEq] at heq; exact absurd heq.1 h3
  · rfl

theorem argProcess_re (cfg : Cfg) (env : Env) (st : St) (ex : Bool) (p : Str) (hb : env.badre p = false) :
    argProcess cfg env st (CW.text (.re ex p)) = .ok { st with regex := (ex, p) :: st.regex } := by
  have hlast : (p ++ ['/']).getLast? = some '/' := by simp
  have hdl : (p ++ ['/']).dropLast = p := by simp
  cases ex with
  | false =>
    unfold argProcess CW.text
    have hex : (('/' :: (p ++ ['/'])).head? == some '-') = false := by simp
    have hdw : ('/' :: (p ++ ['/'])).dropWhile Wcoll.isspaceC = '/' :: (p ++ ['/']) := by
      simp [List.dropWhile, Wcoll.isspaceC]
    simp only [hex, Bool.false_eq_true, ↓reduceIte, hdw, hlast, hdl, hb]
  | true =>
    unfold argProcess CW.text
    have hex : (('-' :: '/' :: (p ++ ['/'])).head? == some '-') = true := by simp
    have hdw : ('/' :: (p ++ ['/'])).dropWhile Wcoll.isspaceC = '/' :: (p ++ ['/']) := by
      simp [List.dropWhile, Wcoll.isspaceC]
    simp only [hex, ↓reduceIte, List.drop_succ_cons, List.drop_zero, hdw, hlast, hdl, hb, Bool.false_eq_true]

/-- what the theorems ask of the words -/
structure WordsOk (cfg : Cfg) (env : Env) (ws : List CW) : Prop where
  tgt : ∀ w ∈ tgts ws, w.WF = true ∧ wordDom cfg w ∧ HostText (Spec.renderWord w) ∧
    Wcoll.hostPart (Spec.renderWord w) = some (Spec.renderWord w)
  xcl : ∀ w ∈ xcls ws, XText (Spec.renderWord w)
  re : ∀ p ∈ regs ws, env.badre p.2 = false

theorem argsProcess_words (cfg : Cfg) (env : Env) : ∀ (ws : List CW) (st : St), WordsOk cfg env ws →
    argsProcess cfg env (ws.map CW.text) st =
      .ok { wcoll := if tgts ws = [] then st.wcoll else some (assembleE cfg (tgts ws) (st.wcoll.getD EL.new)),
            excl := ((xcls ws).map Spec.renderWord).reverse ++ st.excl,
            regex := (regs ws).reverse ++ st.regex }
  | [], st, _ => by simp [argsProcess, tgts, xcls, regs]
  | .tgt w :: ws, st, hok => by
    obtain ⟨hw, hd, ht, hp⟩ := hok.tgt w (by simp [tgts])
    obtain ⟨n, hc, ha⟩ := argProcess_tgt cfg env st w hw hd ht hp
    have hok' : WordsOk cfg env ws :=
      ⟨fun x hx => hok.tgt x (by simp [tgts, hx]), fun x hx => hok.xcl x (by simpa [xcls] using hx),
       fun x hx => hok.re x (by simpa [regs] using hx)⟩
    simp only [List.map_cons, argsProcess, CW.text, ha]
    rw [argsProcess_words cfg env ws _ hok']
    simp only [tgts, xcls, regs, assembleE, hc, Option.getD_some, List.cons_ne_nil, ↓reduceIte]
    congr 2
    split
    · rename_i h0; rw [h0]; rfl
    · rfl
  | .xcl w :: ws, st, hok => by
    have hx := hok.xcl w (by simp [xcls])
    have hok' : WordsOk cfg env ws :=
      ⟨fun x hx => hok.tgt x (by simpa [tgts] using hx), fun x hx => hok.xcl x (by simp [xcls, hx]),
       fun x hx => hok.re x (by simpa [regs] using hx)⟩
    simp only [List.map_cons, argsProcess, CW.text, argProcess_xcl cfg env st _ hx]
    rw [argsProcess_words cfg env ws _ hok']
    simp [tgts, xcls, regs]
    by_cases h0 : tgts ws = [] <;> simp [h0]
  | .re ex p :: ws, st, hok => by
    have hb := hok.re (ex, p) (by simp [regs])
    have hok' : WordsOk cfg env ws :=
      ⟨fun x hx => hok.tgt x (by simpa [tgts] using hx), fun x hx => hok.xcl x (by simpa [xcls] using hx),
       fun x hx => hok.re x (by simp [regs, hx])⟩
    simp only [List.map_cons, argsProcess, argProcess_re cfg env st ex p hb]
    rw [argsProcess_words cfg env ws _ hok']
    simp [tgts, xcls, regs]
    by_cases h0 : tgts ws = [] <;> simp [h0]

/-! ### the exclusion stage hands identities, iterators and bounds on -/
theorem deleteNameE_good (cfg : Cfg) (e : EL) (x : Str) (hg : e.Good) : (deleteNameE cfg e x).2.Good :=
  (deleteNameE_other cfg e x (x ++ ['#']) hg (by
    intro h; have := congrArg List.length h; simp at this)).1

theorem foldl_deleteNameE_keeps (cfg : Cfg) (B : Nat) : ∀ (names : List Str) (e : EL), e.Good →
    Keeps B e (names.foldl (fun acc x => (deleteNameE cfg acc x).2) e)
  | [], e, _ => Keeps.refl B e
  | x :: xs, e, hg => by
    simp only [List.foldl_cons]
    exact (deleteNameE_keeps cfg B e x hg).trans
      (foldl_deleteNameE_keeps cfg B xs _ (deleteNameE_good cfg e x hg))

theorem deleteX_keeps (cfg : Cfg) (B : Nat) (e : EL) (hg : e.Good) (s : Str) (names : List Str)
    (hok : EntryOk cfg s names) (e' : EL) (h : deleteX cfg e s = .ok e') : Keeps B e e' := by
  obtain ⟨t, hc, htg, htf, hlen, hn, hsm⟩ := hok
  unfold deleteX at h
  rw [hc] at h
  simp only at h
  rw [popAll_spec cfg _ _ htg htf (by omega)] at h
  simp only [Except.ok.injEq] at h
  rw [← h]
  exact foldl_deleteNameE_keeps cfg B _ e hg

theorem applyExcluded_keeps (cfg : Cfg) (hfix : cfg.fixDeleteAll = true) (B : Nat) :
    ∀ (es : List (Str × List Str)) (e : EL), e.Good → (∀ p ∈ es, EntryOk cfg p.1 p.2) →
    ∀ e', applyExcluded cfg (es.map (·.1)) e = .ok e' → Keeps B e e'
  | [], e, _, _, e', h => by
    simp only [List.map_nil, applyExcluded, Except.ok.injEq] at h
    rw [← h]; exact Keeps.refl B e
  | p :: ps, e, hg, hok, e', h => by
    obtain ⟨e1, hd, hg1, _⟩ := deleteX_repaired cfg hfix e hg p.1 p.2 (hok p (by simp))
    have k1 := deleteX_keeps cfg B e hg p.1 p.2 (hok p (by simp)) e1 hd
    simp only [List.map_cons, applyExcluded, hd] at h
    exact k1.trans (applyExcluded_keeps cfg hfix B ps e1 hg1 (fun q hq => hok q (by simp [hq])) e' h)

/-! ### F02-2BR repaired: the list object after `wcoll_expand`, exclusions name by name -/
theorem numbered_r : ∀ (i : Nat) (l : List HRange), (numbered i l).map (·.r) = l
  | _, [] => rfl
  | i, r :: rs => by simp [numbered, numbered_r (i + 1) rs]

theorem numbered_ids : ∀ (i : Nat) (l : List HRange), (numbered i l).map (·.id) = List.range' i l.length
  | _, [] => rfl
  | i, r :: rs => by simp [numbered, numbered_ids (i + 1) rs, List.range'_succ]

theorem ofHL_ranges (h : HL) : (ofHL h).ranges = h.ranges.toList := by
  simp [ofHL, EL.ranges, numbered_r]

theorem ofHL_hosts (h : HL) : (ofHL h).hosts = h.hosts := by
  simp [EL.hosts, ofHL_ranges, HL.hosts]

theorem ofHL_good (h : HL) (hg : h.Good) : (ofHL h).Good := by
  refine ⟨by rw [ofHL_ranges]; exact hg.1, ?_⟩
  rw [ofHL_hosts]; exact hg.2

theorem ofHL_ids (h : HL) : (ofHL h).IdsOk := by
  unfold EL.IdsOk
  refine ⟨by show ((numbered 0 h.ranges.toList).map (·.id)).Nodup; rw [numbered_ids]; exact List.nodup_range', ?_⟩
  intro o ho
  have : o.id ∈ (numbered 0 h.ranges.toList).map (·.id) := List.mem_map.mpr ⟨o, ho, rfl⟩
  rw [numbered_ids] at this
  have := List.mem_range'_1.mp this
  show o.id < h.ranges.toList.length
  omega

/-- an exclusion entry for the repaired `wcoll_apply_excluded`: it parses to `names`, and every one of
    these names, handed to `hostlist_delete` on its own, is an entry that denotes just itself -/
def Entry2Ok (cfg : Cfg) (s : Str) (names : List Str) : Prop :=
  EntryOk cfg s names ∧ ∀ n ∈ names, EntryOk cfg n [n]

theorem applyExcluded2_repaired (cfg : Cfg) (hfix : cfg.fixDeleteAll = true) (B : Nat) :
    ∀ (es : List (Str × List Str)) (e : EL), e.Good → (∀ p ∈ es, Entry2Ok cfg p.1 p.2) →
    ∃ e', applyExcluded2 cfg (es.map (·.1)) e = .ok e' ∧ e'.Good ∧
      e'.hosts = e.hosts.filter (fun h => !(es.flatMap (·.2)).contains h) ∧ Keeps B e e'
  | [], e, hg, _ => ⟨e, rfl, hg, (List.filter_eq_self.mpr (by intro a _; rfl)).symm, Keeps.refl B e⟩
  | p :: ps, e, hg, hok => by
    obtain ⟨⟨t, hc, htg, htf, hlen, hn, hsm⟩, hone⟩ := hok p (by simp)
    -- the names, popped: newest first
    let es1 : List (Str × List Str) := p.2.reverse.map fun n => (n, [n])
    have hes1 : es1.map (·.1) = p.2.reverse := by simp [es1, List.map_map, Function.comp_def]
    have hfl1 : es1.flatMap (·.2) = p.2.reverse := by
      simp only [es1, List.flatMap_map]
      induction p.2.reverse with
      | nil => rfl
      | cons a l ih => simp [List.flatMap_cons, ih]
    have hok1 : ∀ q ∈ es1, EntryOk cfg q.1 q.2 := by
      intro q hq
      simp only [es1, List.mem_map, List.mem_reverse] at hq
      obtain ⟨n, hn', rfl⟩ := hq
      exact hone n hn'
    obtain ⟨e1, ha1, g1, hh1⟩ := applyExcluded_repaired cfg hfix es1 e hg hok1
    have k1 := applyExcluded_keeps cfg hfix B es1 e hg hok1 e1 ha1
    rw [hes1] at ha1
    obtain ⟨e2, ha2, g2, hh2, k2⟩ := applyExcluded2_repaired cfg hfix B ps e1 g1 (fun q hq => hok q (by simp [hq]))
    refine ⟨e2, ?_, g2, ?_, k1.trans k2⟩
    · simp only [List.map_cons, applyExcluded2, hc]
      rw [popAll_spec cfg _ _ htg htf (by omega), ← hn]
      simp only [ha1, ha2]
    · rw [hh2, hh1, hfl1, List.filter_filter]
      apply List.filter_congr
      intro h _
      simp only [List.flatMap_cons, List.contains_append, Bool.not_or, List.contains_reverse, Bool.and_comm]

/-! ### one-bracket words: every first-level name is a plain name -/
def OneBracket : Spec.Word → Prop
  | .plain _ => True
  | .br _ _ _ none => True
  | .br _ _ _ (some _) => False

theorem reword_oneBracket (w : Spec.Word) (h : OneBracket w) : reword w = w.expand₁.map Spec.Word.plain := by
  cases w with
  | plain n => rfl
  | br pre g1 mid g2 =>
    cases g2 with
    | none => simp [reword, Spec.Word.expand₁, Spec.renderTail]
    | some p => exact absurd h (by simp [OneBracket])

theorem map_render_plain (xs : List Str) : (xs.map Spec.Word.plain).map Spec.renderWord = xs := by
  induction xs with
  | nil => rfl
  | cons x xs ih => simp only [List.map_cons, ih]; rfl

theorem expand₁_plain (xs : List Str) : Spec.expand₁ (xs.map Spec.Word.plain) = xs := by
  induction xs with
  | nil => rfl
  | cons x xs ih =>
    simp only [List.map_cons, Spec.expand₁, List.flatMap_cons, Spec.Word.expand₁] at ih ⊢
    rw [ih]; rfl

/-- the specification formula on words: targets minus everything excluded, filtered -/
def specWords (env : Env) (ws : List CW) : List Str :=
  ((Spec.expand₁ (tgts ws)).filter fun h => !(Spec.expand₁ (xcls ws)).contains h).filter (keepAll env (regs ws))

/-- what pdsh goes on with for the words `wcoll_arg_process` sees -/
def cliWords (cfg : Cfg) (env : Env) (words : List Str) : Res :=
  match argsProcess cfg env words {} with
  | .error r => r
  | .ok st => finish cfg env st

/-- hypotheses of the composition theorem beyond the shapes of the words -/
structure Domain (cfg : Cfg) (env : Env) (ws : List CW) : Prop where
  words : WordsOk cfg env ws
  some : tgts ws ≠ []
  one : ∀ w ∈ tgts ws, OneBracket w
  dom2 : ∀ w ∈ tgts ws, ∀ w' ∈ reword w, wordDom cfg w'
  entries : ∀ w ∈ xcls ws, EntryOk cfg (Spec.renderWord w) w.expand₁
  /-- F02-2BR repaired: each name of an exclusion word goes through `hostlist_delete` on its own -/
  entries2 : cfg.fix2Br = true → ∀ w ∈ xcls ws, ∀ n ∈ w.expand₁, EntryOk cfg n [n]
  oracle : ∀ p ∈ regs ws, ∀ h ∈ Spec.expand₁ (tgts ws), (env.rematch p.2 h).isSome = true
  low : (assembleE cfg (tgts ws) EL.new).HiBelow (10 ^ 15)

/-- EXCLUSION CORRECT (composition): with D1, D17 and D19 repaired, for one-bracket target words and
    small names, the hosts pdsh goes on with are exactly the specification's -/
theorem cliWords_correct (cfg : Cfg) (hD1 : cfg.fixDeleteAll = true) (hD17 : cfg.fixIterSuffix = true)
    (hD19 : cfg.fixRemoveDepth = true) (env : Env) (ws : List CW) (hd : Domain cfg env ws) :
    cliWords cfg env (ws.map CW.text) = .ok (specWords env ws) := by
  unfold cliWords
  rw [argsProcess_words cfg env ws {} hd.words]
  simp only [hd.some, ↓reduceIte, List.append_nil, Option.getD_none]
  -- the assembled list
  have hnew : EL.new.Good := by
    refine ⟨by simp [EL.new, EL.ranges], by simp [EL.new, EL.hosts, EL.ranges]⟩
  obtain ⟨g0, h0, k0, i0⟩ := assembleE_spec cfg (tgts ws) EL.new hnew (fun w hw => ⟨(hd.words.tgt w hw).1, (hd.words.tgt w hw).2.1⟩)
  have hid0 : (assembleE cfg (tgts ws) EL.new).IdsOk := k0 ⟨by simp [EL.new], by simp [EL.new]⟩
  have hits0 : (assembleE cfg (tgts ws) EL.new).its = [] := by rw [i0]; rfl
  have hT : (assembleE cfg (tgts ws) EL.new).hosts = Spec.expand₁ (tgts ws) := by
    rw [h0]; simp [EL.new, EL.hosts, EL.ranges]
  have hplain : ∀ h ∈ Spec.expand₁ (tgts ws), (Spec.Word.plain h).WF = true ∧ wordDom cfg (Spec.Word.plain h) := by
    intro h hh
    unfold Spec.expand₁ at hh
    obtain ⟨w, hw, hx⟩ := List.mem_flatMap.mp hh
    have hr := reword_oneBracket w (hd.one w hw)
    have hmem : Spec.Word.plain h ∈ reword w := by rw [hr]; exact List.mem_map.mpr ⟨h, hx, rfl⟩
    exact ⟨reword_wf w (hd.words.tgt w hw).1 _ hmem, hd.dom2 w hw _ hmem⟩
  have hf1 : (Spec.expand₁ (tgts ws)).filter (fun h => !(((xcls ws).reverse).flatMap Spec.Word.expand₁).contains h) =
      (Spec.expand₁ (tgts ws)).filter (fun h => !(Spec.expand₁ (xcls ws)).contains h) := by
    apply List.filter_congr
    intro h _
    congr 1
    rw [Bool.eq_iff_iff]
    simp [Spec.expand₁, List.contains_iff_mem]
  rcases Bool.eq_false_or_eq_true cfg.fix2Br with h2 | h2
  · -- F02-2BR repaired: re-expansion first (every first-level name is a plain name: nothing changes),
    -- then the exclusions name by name, then the filters
    let e0 := assembleE cfg (tgts ws) EL.new
    have hg0' : e0.toHL.Good := (EL.good_iff e0).mp g0
    have hsf : ∀ r ∈ e0.toHL.ranges.toList, r.ShiftFits := by
      intro r hr _
      have hr' : r ∈ e0.ranges := by simpa [EL.toHL] using hr
      have := ndig_le_of_lt_pow (by decide : 0 < 15) (hd.low r hr')
      omega
    obtain ⟨h', hw1, hg', hw3⟩ := wcollExpand_words cfg e0.toHL hg0' hsf (e0.hosts.map Spec.Word.plain)
      (by rw [EL.toHL_hosts, map_render_plain])
      (fun w hw => by
        obtain ⟨h, hh, rfl⟩ := List.mem_map.mp hw
        exact (hplain h (by rw [← hT]; exact hh)).1)
      (fun w hw => by
        obtain ⟨h, hh, rfl⟩ := List.mem_map.mp hw
        exact (hplain h (by rw [← hT]; exact hh)).2)
    have hH : (ofHL h').hosts = Spec.expand₁ (tgts ws) := by
      rw [ofHL_hosts, hw3, expand₁_plain, hT]
    let es : List (Str × List Str) := ((xcls ws).reverse).map fun w => (Spec.renderWord w, w.expand₁)
    have hes : es.map (·.1) = ((xcls ws).map Spec.renderWord).reverse := by
      simp [es, List.map_reverse]
    have hesok : ∀ p ∈ es, Entry2Ok cfg p.1 p.2 := by
      intro p hp
      simp only [es, List.mem_map, List.mem_reverse] at hp
      obtain ⟨w, hw, rfl⟩ := hp
      exact ⟨hd.entries w hw, hd.entries2 h2 w hw⟩
    obtain ⟨e1, ha1, g1, hh1, k1⟩ := applyExcluded2_repaired cfg hD1 0 es (ofHL h') (ofHL_good h' hg') hesok
    have hX : es.flatMap (·.2) = ((xcls ws).reverse).flatMap Spec.Word.expand₁ := by
      simp only [es, List.flatMap_map]
    have hsub1 : ∀ h ∈ e1.hosts, h ∈ Spec.expand₁ (tgts ws) := by
      intro h hh; rw [hh1, hH] at hh; exact (List.mem_filter.mp hh).1
    obtain ⟨e2, ha2, hh2, _, _, _, _⟩ := applyRegex_spec cfg hD19 (fun _ => True) (fun _ _ _ _ _ _ => trivial)
      (fun _ _ => Or.inl hD17) env (regs ws).reverse e1 (k1.ids (ofHL_ids h')) g1 (fun _ _ => trivial) (k1.its rfl)
      (fun p hp h hh => hd.oracle p (List.mem_reverse.mp hp) h (hsub1 h hh))
    unfold finish
    simp only [h2, ↓reduceIte]
    unfold finish2
    rw [hw1]
    simp only
    rw [← hes, ha1]
    simp only
    rw [ha2]
    simp only [Res.ok.injEq]
    rw [hh2, hh1, hH, hX]
    unfold specWords
    rw [hf1]
    apply List.filter_congr
    intro h _
    simp [keepAll, List.all_reverse]
  · -- as found: exclusions and filters on the first-level names, re-expansion last
    -- exclusions (the stack is walked newest first)
    let es : List (Str × List Str) := ((xcls ws).reverse).map fun w => (Spec.renderWord w, w.expand₁)
    have hes : es.map (·.1) = ((xcls ws).map Spec.renderWord).reverse := by
      simp [es, List.map_reverse]
    have hesok : ∀ p ∈ es, EntryOk cfg p.1 p.2 := by
      intro p hp
      simp only [es, List.mem_map, List.mem_reverse] at hp
      obtain ⟨w, hw, rfl⟩ := hp
      exact hd.entries w hw
    obtain ⟨e1, ha1, g1, hh1⟩ := applyExcluded_repaired cfg hD1 es _ g0 hesok
    have k1 := applyExcluded_keeps cfg hD1 (10 ^ 15) es _ g0 hesok e1 ha1
    have hX : es.flatMap (·.2) = ((xcls ws).reverse).flatMap Spec.Word.expand₁ := by
      simp only [es, List.flatMap_map]
    -- filters
    let P : HRange → Prop := fun r => r.hi < 10 ^ 15
    have hmono : ∀ r r' : HRange, P r → r'.width = r.width → r'.hi ≤ r.hi → r'.single = r.single → P r' :=
      fun r r' h _ hh _ => Nat.lt_of_le_of_lt hh h
    have hPF : ∀ r, P r → r.PrintsFull cfg := fun _ _ => Or.inl hD17
    have hsub1 : ∀ h ∈ e1.hosts, h ∈ Spec.expand₁ (tgts ws) := by
      intro h hh; rw [hh1, hT] at hh; exact (List.mem_filter.mp hh).1
    obtain ⟨e2, ha2, hh2, hid2, g2, hP2, _⟩ := applyRegex_spec cfg hD19 P hmono hPF env (regs ws).reverse e1
      (k1.ids hid0) g1 (k1.hi hd.low) (k1.its hits0)
      (fun p hp h hh => hd.oracle p (List.mem_reverse.mp hp) h (hsub1 h hh))
    -- re-expansion: every surviving name is a plain name
    have hsub2 : ∀ h ∈ e2.hosts, h ∈ Spec.expand₁ (tgts ws) := by
      intro h hh; rw [hh2] at hh; exact hsub1 h (List.mem_filter.mp hh).1
    have hplain : ∀ h ∈ Spec.expand₁ (tgts ws), (Spec.Word.plain h).WF = true ∧ wordDom cfg (Spec.Word.plain h) := by
      intro h hh
      unfold Spec.expand₁ at hh
      obtain ⟨w, hw, hx⟩ := List.mem_flatMap.mp hh
      have hr := reword_oneBracket w (hd.one w hw)
      have hmem : Spec.Word.plain h ∈ reword w := by rw [hr]; exact List.mem_map.mpr ⟨h, hx, rfl⟩
      exact ⟨reword_wf w (hd.words.tgt w hw).1 _ hmem, hd.dom2 w hw _ hmem⟩
    have hg2' : e2.toHL.Good := (EL.good_iff e2).mp g2
    have hsf : ∀ r ∈ e2.toHL.ranges.toList, r.ShiftFits := by
      intro r hr _
      have hr' : r ∈ e2.ranges := by simpa [EL.toHL] using hr
      have := ndig_le_of_lt_pow (by decide : 0 < 15) (hP2 r hr')
      omega
    obtain ⟨h', hw1, _, hw3⟩ := wcollExpand_words cfg e2.toHL hg2' hsf (e2.hosts.map Spec.Word.plain)
      (by rw [EL.toHL_hosts, map_render_plain])
      (fun w hw => by
        obtain ⟨h, hh, rfl⟩ := List.mem_map.mp hw
        exact (hplain h (hsub2 h hh)).1)
      (fun w hw => by
        obtain ⟨h, hh, rfl⟩ := List.mem_map.mp hw
        exact (hplain h (hsub2 h hh)).2)
    -- put the stages together
    unfold finish
    simp only [h2, Bool.false_eq_true, ↓reduceIte]
    rw [← hes, ha1]
    simp only
    rw [ha2]
    simp only
    rw [hw1]
    simp only [Res.ok.injEq]
    rw [hw3, expand₁_plain, hh2, hh1, hT, hX]
    unfold specWords
    have hf1 : (Spec.expand₁ (tgts ws)).filter (fun h => !(((xcls ws).reverse).flatMap Spec.Word.expand₁).contains h) =
        (Spec.expand₁ (tgts ws)).filter (fun h => !(Spec.expand₁ (xcls ws)).contains h) := by
      apply List.filter_congr
      intro h _
      congr 1
      rw [Bool.eq_iff_iff]
      simp [Spec.expand₁, List.contains_iff_mem]
    rw [hf1]
    apply List.filter_congr
    intro h _
    simp [keepAll, List.all_reverse]

theorem cliFinal_eq_cliWords (cfg : Cfg) (env : Env) (evs : List Ev) :
    cliFinal cfg env evs = cliWords cfg env (evs.flatMap evWords) := rfl

/-- for one-bracket words the first-level expansion is the full one -/
theorem expand₂_oneBracket (w : Spec.Word) (h : OneBracket w) : w.expand₂ = w.expand₁ := by
  cases w with
  | plain n => rfl
  | br pre g1 mid g2 =>
    cases g2 with
    | none => simp [Spec.Word.expand₁, Spec.Word.expand₂, Spec.renderTail]
    | some p => exact absurd h (by simp [OneBracket])

/-! ### the domain of `exclusion_correct` is inhabited: an instance, proved through the theorem -/
def demoWords : List CW :=
  [.tgt (.br "foo".toList [⟨"1".toList, some "3".toList⟩] [] none), .xcl (.plain "foo2".toList),
   .tgt (.plain "bar".toList), .re true "3".toList]

def demoEnv : Env :=
  { files := [], badre := fun _ => false,
    rematch := fun p h => if p = "3".toList then some (h.contains '3') else none }

theorem demo_domain : Domain Cfg.repaired demoEnv demoWords := by
  refine ⟨⟨?_, ?_, ?_⟩, by decide, ?_, ?_, ?_, ?_, ?_, ?_⟩
  · intro w hw
    simp only [demoWords, tgts, List.mem_cons, List.mem_nil_iff, or_false] at hw
    rcases hw with rfl | rfl
    · exact ⟨by decide, by decide, ⟨'f', "oo[1-3]".toList, by decide, by decide, by decide, by decide, by decide⟩, by decide⟩
    · exact ⟨by decide, by decide, ⟨'b', "ar".toList, by decide, by decide, by decide, by decide, by decide⟩, by decide⟩
  · intro w hw
    simp only [demoWords, xcls, List.mem_cons, List.mem_nil_iff, or_false] at hw
    subst hw
    exact ⟨'f', "oo2".toList, by decide, by decide, by decide, by decide⟩
  · intro p _; rfl
  · intro w hw
    simp only [demoWords, tgts, List.mem_cons, List.mem_nil_iff, or_false] at hw
    rcases hw with rfl | rfl <;> simp [OneBracket]
  · intro w hw w' hw'
    simp only [demoWords, tgts, List.mem_cons, List.mem_nil_iff, or_false] at hw
    rcases hw with rfl | rfl
    · have : reword (.br "foo".toList [⟨"1".toList, some "3".toList⟩] [] none) =
          [.plain "foo1".toList, .plain "foo2".toList, .plain "foo3".toList] := by rfl
      rw [this] at hw'
      simp only [List.mem_cons, List.mem_nil_iff, or_false] at hw'
      rcases hw' with rfl | rfl | rfl <;> decide
    · simp only [reword, List.mem_cons, List.mem_nil_iff, or_false] at hw'
      subst hw'; decide
  · intro w hw
    simp only [demoWords, xcls, List.mem_cons, List.mem_nil_iff, or_false] at hw
    subst hw
    refine ⟨_, rfl, ?_, ?_, ?_, ?_, ?_⟩
    · exact ⟨by decide, by decide⟩
    · decide
    · decide
    · decide
    · intro x hx
      simp only [Spec.Word.expand₁, List.mem_cons, List.mem_nil_iff, or_false] at hx
      subst hx
      unfold SmallName
      decide
  · intro _ w hw n hn
    simp only [demoWords, xcls, List.mem_cons, List.mem_nil_iff, or_false] at hw
    subst hw
    simp only [Spec.Word.expand₁, List.mem_cons, List.mem_nil_iff, or_false] at hn
    subst hn
    refine ⟨_, rfl, ?_, ?_, ?_, ?_, ?_⟩
    · exact ⟨by decide, by decide⟩
    · decide
    · decide
    · decide
    · intro x hx
      simp only [List.mem_cons, List.mem_nil_iff, or_false] at hx
      subst hx
      unfold SmallName
      decide
  · intro p hp h _
    simp only [demoWords, regs, List.mem_cons, List.mem_nil_iff, or_false] at hp
    subst hp
    simp [demoEnv]
  · unfold EL.HiBelow
    decide

/-- targets foo[1-3] and bar, foo2 excluded, names matching 3 dropped: foo1 and bar — through
    `exclusion_correct` -/
theorem demo_correct :
    cliWords Cfg.repaired demoEnv (demoWords.map CW.text) = .ok ["foo1".toList, "bar".toList] := by
  rw [cliWords_correct Cfg.repaired rfl rfl rfl demoEnv demoWords demo_domain]
  decide

end PdshVerif.Opt.Exclude
