/-
  The settings of property C18 at the point where they TAKE EFFECT: which user (and transport) every target is
  contacted with.  Composition of the option model (Opt/Settings.lean: the tokens of the command line, the accepted
  record) with the per-host registry model of property C09 (Opt/Rcmd.lean: wcoll_arg_process / rcmd_register_defaults /
  rcmd_create / rcmd_connect), imported, not re-implemented.

  Domain: the host part of every -w word is a plain name (no brackets, no exclusions): `hostlist_create` is the
  identity on it (hostlist expansion is C01 / C02's business).
-/
import PdshVerif.Opt.Command
import PdshVerif.Opt.Rcmd

namespace PdshVerif.Opt
open PdshVerif

/-- the words of one -w argument as the registry model sees them -/
def wordsOfArg (a : Str) : List Rcmd.Word :=
  (splitWords a).filterMap fun w =>
    match specialWord w with
    | some _ => none
    | none =>
      let p := w.dropWhile isBlank
      match Rcmd.splitWord p with
      | .ok _ _ hosts => some ⟨p, [hosts], [hosts]⟩
      | .bad => some ⟨p, [], []⟩

/-- the -w words of the command line, in command-line order -/
def wWords : List Tok → List Rcmd.Word
  | [] => []
  | .opt ch arg :: ts => (if ch = 'w' then wordsOfArg (arg.getD []) else []) ++ wWords ts
  | .bad :: ts => wWords ts

/-- what rcmd.c knows when the targets are contacted -/
def rcmdCfg (d : Defaults) (env : Env) (toks : List Tok) : Rcmd.Cfg :=
  { loaded := d.rcmdModules, rankList := Gen.RCMD_RANK.map String.toList, envType := getenv env "PDSH_RCMD_TYPE",
    optR := lastArg 'R' toks, optL := lastArg 'l' toks, luser := d.luser }

/-- one line per target: the transport, the host, the USER and the rank it is contacted with -/
def contacts (d : Defaults) (env : Env) (toks : List Tok) : Rcmd.Outcome :=
  Rcmd.run (rcmdCfg d env toks) (wWords toks) ((wWords toks).flatMap (·.full))

theorem wWords_filter (toks : List Tok) : wWords (toks.filter (isOpt 'w')) = wWords toks := by
  induction toks with
  | nil => rfl
  | cons t ts ih =>
    cases t with
    | bad => simp [List.filter, isOpt, wWords, ih]
    | opt ch arg =>
      by_cases hc : ch = 'w'
      · subst hc; simp [List.filter, isOpt, wWords, ih]
      · simp [List.filter, isOpt, wWords, hc, ih]

theorem mem_connectAll {cfg : Rcmd.Cfg} {reg : List Rcmd.Entry} {dflt : Option Str} {ln : Rcmd.Line} :
    ∀ (hs : List Str) (i : Nat), ln ∈ Rcmd.connectAll cfg reg dflt hs i → ∃ h r, ln = Rcmd.connect cfg reg dflt h r := by
  intro hs
  induction hs with
  | nil => intro i h; simp [Rcmd.connectAll] at h
  | cons h rest ih =>
    intro i hm
    simp only [Rcmd.connectAll, List.mem_cons] at hm
    rcases hm with rfl | hm
    · exact ⟨h, i, rfl⟩
    · exact ih (i + 1) hm

theorem lines_of_run {cfg : Rcmd.Cfg} {ws : List Rcmd.Word} {ts : List Str} {ls : List Rcmd.Line}
    (h : Rcmd.run cfg ws ts = .lines ls) :
    ∃ reg dflt, Rcmd.processWords cfg ws [] = some reg ∧ ls = Rcmd.connectAll cfg reg dflt ts 0 := by
  unfold Rcmd.run at h
  cases hp : Rcmd.processWords cfg ws [] with
  | none => simp [hp] at h
  | some reg =>
    simp only [hp] at h
    cases hd : Rcmd.defaultName cfg with
    | none =>
      simp only [hd] at h
      split at h
      · simp only [Rcmd.Outcome.lines.injEq] at h; exact ⟨reg, none, rfl, h.symm⟩
      · cases h
    | some dn =>
      simp only [hd] at h
      split at h
      · simp only [Rcmd.Outcome.lines.injEq] at h; exact ⟨reg, some dn, rfl, h.symm⟩
      · cases h

end PdshVerif.Opt
