/-
  Helper lemmas for C09's registry theorems: the pointer-style splitter against the grammar,
  first-wins registration, rank numbering.
-/
import PdshVerif.Opt.Rcmd
import PdshVerif.Opt.RcmdSpec

namespace PdshVerif.Opt.Rcmd
open PdshVerif.Opt.Rcmd.Spec

/-! ### strchr / cut -/

theorem cut_eq_idxOf (c : Char) (w : Str) :
    cut c w = (idxOf c w).map fun i => (w.take i, w.drop (i + 1)) := by
  induction w with
  | nil => simp [cut, idxOf]
  | cons d rest ih =>
    by_cases h : d = c
    · simp [cut, idxOf, h]
    · simp only [cut, idxOf, h, if_false, ih]
      cases idxOf c rest <;> simp

theorem idxOf_lt (c : Char) (w : Str) (i : Nat) (h : idxOf c w = some i) : i < w.length := by
  induction w generalizing i with
  | nil => simp [idxOf] at h
  | cons d rest ih =>
    by_cases hd : d = c
    · simp [idxOf, hd] at h; subst h; simp
    · simp only [idxOf, hd, if_false] at h
      cases hr : idxOf c rest with
      | none => simp [hr] at h
      | some j =>
        simp [hr] at h; subst h
        have := ih j hr
        simp; omega

/-- membership in a prefix = first occurrence before the cut -/
theorem mem_take_iff (c : Char) (w : Str) (p : Nat) :
    c ∈ w.take p ↔ ∃ q, idxOf c w = some q ∧ q < p := by
  induction w generalizing p with
  | nil => simp [idxOf]
  | cons d rest ih =>
    cases p with
    | zero => simp
    | succ p =>
      by_cases hd : d = c
      · simp [idxOf, hd]
      · simp only [List.take_succ_cons, List.mem_cons, idxOf, hd, if_false]
        have hcd : ¬ c = d := fun h => hd h.symm
        simp only [hcd, false_or, ih p]
        constructor
        · rintro ⟨q, hq, hlt⟩
          exact ⟨q + 1, by simp [hq], by omega⟩
        · rintro ⟨q, hq, hlt⟩
          cases hr : idxOf c rest with
          | none => simp [hr] at hq
          | some j =>
            simp [hr] at hq; subst hq
            exact ⟨j, rfl, by omega⟩

/-- first occurrence behind a position that lies before it -/
theorem idxOf_drop (c : Char) (w : Str) (q k : Nat) (h : idxOf c w = some q) (hk : k ≤ q) :
    idxOf c (w.drop k) = some (q - k) := by
  induction w generalizing q k with
  | nil => simp [idxOf] at h
  | cons d rest ih =>
    cases k with
    | zero => simpa using h
    | succ k =>
      by_cases hd : d = c
      · simp [idxOf, hd] at h; omega
      · simp only [idxOf, hd, if_false] at h
        cases hr : idxOf c rest with
        | none => simp [hr] at h
        | some j =>
          simp [hr] at h; subst h
          have := ih j k hr (by omega)
          simpa using this

theorem idxOf_drop_none (c : Char) (w : Str) (k : Nat) (h : idxOf c w = none) :
    idxOf c (w.drop k) = none := by
  induction w generalizing k with
  | nil => simp [idxOf]
  | cons d rest ih =>
    by_cases hd : d = c
    · simp [idxOf, hd] at h
    · simp only [idxOf, hd, if_false] at h
      cases hr : idxOf c rest with
      | some j => simp [hr] at h
      | none =>
        cases k with
        | zero => simp [idxOf, hd, hr]
        | succ k => simpa using ih k hr

/-- the C splitter (indices of the first ':' and '@') decides exactly the grammar of the spec -/
theorem splitWord_eq_parse (w : Str) :
    splitWord w = match parse w with
      | none => .bad
      | some p => .ok p.rtype p.user p.hosts := by
  unfold splitWord parse
  rw [cut_eq_idxOf ':' w, cut_eq_idxOf '@' w]
  cases hp : idxOf ':' w with
  | none =>
    cases hq : idxOf '@' w with
    | none => simp
    | some q => simp
  | some p =>
    simp only [Option.map_some]
    cases hq : idxOf '@' w with
    | none =>
      have hnot : ¬ ('@' ∈ w.take p) := by
        rw [mem_take_iff]; rintro ⟨q, h, _⟩; simp [hq] at h
      by_cases hcc : w[p + 1]? = some ':'
      · simp [hnot, hcc]
      · have hd := idxOf_drop_none '@' w (p + 1) hq
        simp [hnot, hcc, cut_eq_idxOf, hd]
    | some q =>
      by_cases hpq : p > q
      · have hin : '@' ∈ w.take p := by
          rw [mem_take_iff]; exact ⟨q, hq, hpq⟩
        simp [hpq, hin]
      · have hnot : ¬ ('@' ∈ w.take p) := by
          rw [mem_take_iff]; rintro ⟨q', h, hlt⟩
          simp [hq] at h; omega
        have hne : p ≠ q := by
          intro h; subst h
          -- the same position cannot hold both ':' and '@'
          have h1 := idxOf_drop ':' w p p hp (Nat.le_refl _)
          have h2 := idxOf_drop '@' w p p hq (Nat.le_refl _)
          cases hw : w.drop p with
          | nil => simp [hw, idxOf] at h1
          | cons d r =>
            rw [hw] at h1 h2
            by_cases hd1 : d = ':'
            · subst hd1; simp [idxOf] at h2
            · simp only [idxOf, hd1, if_false] at h1
              cases hr : idxOf ':' r <;> simp [hr] at h1
        have hlt : p + 1 ≤ q := by omega
        by_cases hcc : w[p + 1]? = some ':'
        · simp [hpq, hnot, hcc]
        · have hd := idxOf_drop '@' w q (p + 1) hq hlt
          have e1 : (w.drop (p + 1)).take (q - (p + 1)) = (w.take q).drop (p + 1) := by
            rw [List.drop_take]
          have e2 : (w.drop (p + 1)).drop (q - (p + 1) + 1) = w.drop (q + 1) := by
            rw [List.drop_drop]; congr 1; omega
          have e3 : p + 1 + (q - (p + 1) + 1) = q + 1 := by omega
          simp [hpq, hnot, hcc, cut_eq_idxOf, hd, e1, e3]

/-! ### first-wins registration -/

theorem lookup_append_single (r : List Entry) (e : Entry) (h : Str) :
    lookup (r ++ [e]) h = match lookup r h with
      | some x => some x
      | none => if e.host = h then some e else none := by
  unfold lookup
  rw [List.find?_append]
  cases r.find? (fun x => decide (x.host = h)) <;> simp [List.find?]
  split <;> simp_all

theorem lookup_foldl (l : List Str) (reg : List Entry) (u t : Option Str) (h : Str) :
    lookup (l.foldl (fun r x => if (lookup r x).isSome then r else r ++ [⟨x, u, t⟩]) reg) h =
      match lookup reg h with
      | some e => some e
      | none => if h ∈ l then some ⟨h, u, t⟩ else none := by
  induction l generalizing reg with
  | nil => simp; cases lookup reg h <;> rfl
  | cons x rest ih =>
    simp only [List.foldl_cons]
    rw [ih]
    by_cases hx : (lookup reg x).isSome
    · simp only [hx, if_true]
      cases hl : lookup reg h with
      | some e => rfl
      | none =>
        have : x ≠ h := by
          intro hxh; subst hxh; simp [hl] at hx
        have : ¬ h = x := fun e => this e.symm
        simp [this]
    · have hx' : (lookup reg x).isSome = false := by simpa using hx
      simp only [hx', Bool.false_eq_true, if_false]
      rw [lookup_append_single]
      cases hl : lookup reg h with
      | some e => simp
      | none =>
        by_cases hxh : x = h
        · subst hxh; simp
        · have : ¬ h = x := fun e => hxh e.symm
          simp [hxh, this]

/-- registering a word's hosts never replaces an entry and adds exactly the missing names -/
theorem lookup_register (reg : List Entry) (hosts : List Str) (u t : Option Str) (h : Str) :
    lookup (register reg hosts u t) h =
      match lookup reg h with
      | some e => some e
      | none => if h ∈ hosts then some ⟨h, u, t⟩ else none := by
  unfold register
  rw [lookup_foldl]
  simp

/-! ### rank numbering -/

theorem connectAll_eq (cfg : Cfg) (reg : List Entry) (d : Option Str) (ts : List Str) (k : Nat) :
    connectAll cfg reg d ts k = (ts.zipIdx k).map fun (h, i) => connect cfg reg d h i := by
  induction ts generalizing k with
  | nil => simp [connectAll]
  | cons h rest ih => simp [connectAll, ih, List.zipIdx_cons]

theorem connectAll_length (cfg : Cfg) (reg : List Entry) (d : Option Str) (ts : List Str) (k : Nat) :
    (connectAll cfg reg d ts k).length = ts.length := by
  simp [connectAll_eq]

end PdshVerif.Opt.Rcmd
