/-
  C02 ∘ C03: from the final target list to the hosts CONTACTED.  `dsh()` numbers the targets in the order of the
  list `opt_args` leaves in `opt->wcoll` (one `thd_t` per `hostlist_next`) and the fan-out LTS of C03
  (Dsh/Fan.lean: dispatcher, workers, mutex / condvar, every schedule, spurious wake-ups) starts `rcmd_connect`
  for target number i with the label `w i connectBegin`.  Importing C03's theorems (`each_op_once`, `none_else`,
  `exit_after_all`): in EVERY execution the commands started go to hosts of the final list only, no list position
  twice; when `dsh()` has returned they went to exactly the final list (as a multiset: the order of the connects
  is the scheduler's).
-/
import PdshVerif.Opt.ExcludeOrder
import PdshVerif.Props.C03

namespace PdshVerif.Opt.Exclude
open PdshVerif.Hostlist PdshVerif.Dsh.Fan

/-- the list positions for which a connect was started, in the order of the history -/
def started : List Label → List Nat
  | [] => []
  | .w i .connectBegin :: ls => i :: started ls
  | _ :: ls => started ls

/-- the hosts contacted, in the order of the history: position i of `hosts` is the i-th `hostlist_next` -/
def contacted (hosts : List Str) (ls : List Label) : List Str := (started ls).filterMap (hosts[·]?)

theorem count_started (i : Nat) : ∀ ls : List Label, (started ls).count i = ls.count (.w i .connectBegin)
  | [] => rfl
  | l :: ls => by
    have ih := count_started i ls
    cases l with
    | d a => simp [started, ih, List.count_cons]
    | w j a =>
      cases a <;> simp only [started, ih, List.count_cons, beq_iff_eq, Label.w.injEq, reduceCtorEq, and_false,
        ↓reduceIte, Nat.add_zero, and_true]

theorem filterMap_getElem?_range {α : Type} : ∀ (l : List α), (List.range l.length).filterMap (l[·]?) = l
  | [] => rfl
  | x :: t => by
    have ih := filterMap_getElem?_range t
    simp only [List.length_cons, List.range_succ_eq_map, List.filterMap_cons, List.getElem?_cons_zero,
      List.filterMap_map]
    congr 1

/-- C03 imported: no list position is contacted twice, none outside the list -/
theorem started_nodup_lt {v : Variant} {f n : Nat} {ls : List Label} {s : Dsh.Fan.St} (he : Exec (init v f n) ls s) :
    (started ls).Nodup ∧ ∀ i ∈ started ls, i < n := by
  constructor
  · rw [List.nodup_iff_count]
    intro i
    rw [count_started]
    exact PdshVerif.Props.C03.each_op_once he i .connectBegin
  · intro i hi
    have hpos : 0 < (started ls).count i := List.count_pos_iff.mpr hi
    rw [count_started] at hpos
    exact PdshVerif.Props.C03.none_else he (List.count_pos_iff.mp hpos)

/-- C03 imported: when `dsh()` has returned every list position was contacted exactly once -/
theorem started_perm {v : Variant} {f n : Nat} {ls : List Label} {s : Dsh.Fan.St} (he : Exec (init v f n) ls s)
    (hf : Final s) : (started ls).Perm (List.range n) := by
  rw [List.perm_iff_count]
  intro i
  rw [count_started, List.nodup_range.count]
  by_cases hi : i < n
  · rw [(PdshVerif.Props.C03.exit_after_all he hf i hi).1, if_pos (List.mem_range.mpr hi)]
  · rw [if_neg (fun h => hi (List.mem_range.mp h))]
    rcases Nat.eq_zero_or_pos (ls.count (.w i .connectBegin)) with h0 | hp
    · exact h0
    · exact absurd (PdshVerif.Props.C03.none_else he (List.count_pos_iff.mp hp)) hi

/-- every host contacted stands in the list -/
theorem contacted_mem (hosts : List Str) (ls : List Label) (h : Str) (hh : h ∈ contacted hosts ls) : h ∈ hosts := by
  unfold contacted at hh
  obtain ⟨i, _, hi⟩ := List.mem_filterMap.mp hh
  exact List.mem_of_getElem? hi

/-- when `dsh()` has returned the hosts contacted are the list, each occurrence once -/
theorem contacted_perm {v : Variant} {f : Nat} (hosts : List Str) {ls : List Label} {s : Dsh.Fan.St}
    (he : Exec (init v f hosts.length) ls s) (hf : Final s) : (contacted hosts ls).Perm hosts := by
  have h := (started_perm he hf).filterMap (hosts[·]?)
  rw [filterMap_getElem?_range] at h
  exact h

end PdshVerif.Opt.Exclude
