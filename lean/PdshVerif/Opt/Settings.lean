/-
  Model of how pdsh fills its option record (property C18).

  Code modelled (src/pdsh/opt.c, main.c of /repo):
    main        opt_default; opt_env; opt_args_early; (modules); opt_args; opt_verify
    opt_default fanout = DFLT_FANOUT, connect_timeout = CONNECT_TIMEOUT, command_timeout = 0,
                luser = ruser = pw_name, remote_program_path = local_program_path
    opt_env     FANOUT / PDSH_CONNECT_TIMEOUT / PDSH_COMMAND_TIMEOUT through string_to_int (errx on failure),
                PDSH_RCMD_TYPE, PDSH_MISC_MODULES, PDSH_REMOTE_PDCP_PATH (PCP only)
    getopt      glibc getopt(3) with POSIXLY_CORRECT (stops at the first operand), option string
                GEN_ARGS ++ DSH_ARGS | PCP_ARGS, clusters, attached and separate arguments, "--"
    opt_args_early  -M (and -d); unknown options ignored
    opt_args    the switch, option by option in command-line order, with its early exits
                (errx = 1, usage = 1, -L / -V = 0), then default rcmd module and its registration
    opt_verify  exec's post-op (-t with -R exec), target list, negative time-outs, pcp operands
    opt_args (end) the remote command = the remaining argv words joined by blanks (DSH), source files and
                destination (PCP);  main's decision what to start: listing, pcp server / client, dsh(), prompt loop
    string_to_int = strtoul, errno / trailing test, `(int)` cast;  atoi = `(int) strtol`;
    copy_username's length test.
    -w words    wcoll_args_process / get_host_rcmd_type as far as they touch the settings of this property:
                `[rcmd_type:][user@]hosts` prefixes (malformed order, unknown per-target transport => errx;
                per-target user name: unchecked), list_split's comma/bracket rule
    module-provided options   their getopt text (`Defaults.modOpts`): known to opt_args, unknown to opt_args_early

  Deliberately OUTSIDE this model, and why they do not bear on C18:
    * which user / transport a single target finally gets from a `type:` / `user@` prefix (precedence over -l / -R
      per host): property C09; here only acceptance or refusal of the values.
    * excluded words (`-x`, `-host`), `^file` and `/regex/` words, WCOLL, module-supplied target lists: they select
      TARGETS (C02, C10); the only way they reach this property is an empty target list, a refusal the
      specification admits (`structOk`).
    * DSHPATH: part of the command (C09).  -z / -Z / -y / -T: undocumented pdcp server/client modes and test
      hooks, for which opt_verify skips the checks; theorems carry the hypothesis `pcpServer = pcpClient = false`.
    * what a module's option handler does with its argument: only the option's arity matters for the settings.

  Every place where the unchanged code violates the property text has ONE switch in `Fixes`
  (`Fixes.none` = the code in /repo, `Fixes.all` = the proposed repairs, findings/C18.json):
    d4    opt_verify refuses fanout < 1
    d5    string_to_int: strtol, "no digits" test and INT_MIN..INT_MAX range test instead of a silent cast
    atoi  -t / -u are converted by string_to_int (and refused like -f) instead of atoi
    wuser the remote user given as `user@hosts` in a -w word is length-checked like the argument of -l
          (unchanged: wcoll_arg_process hands it to rcmd_register_defaults unchecked)
    early opt_args_early knows the options of the loaded modules (unchanged: it runs before the modules are
          loaded with the built-in option string only; an option a module provides is unknown to it, so the
          argument word of such an option is taken for the first operand and, getopt running in POSIXLY_CORRECT
          mode, the scan stops there: a -M that follows is never seen)
    dopt  opt_args has a `case 'd'` (the documented -d is handled in opt_args_early only; the second pass
          falls into `default:` and prints the usage message: `pdsh -d ...` is always refused)
-/
import PdshVerif.Base.CInt
import PdshVerif.Gen.Dsh
import PdshVerif.Gen.Opt
import PdshVerif.Gen.Optable

namespace PdshVerif.Opt
open PdshVerif

abbrev Str := List Char

structure Fixes where
  d4   : Bool
  d5   : Bool
  atoi : Bool
  dopt : Bool
  wuser : Bool
  early : Bool
  deriving DecidableEq, Repr

def Fixes.none : Fixes := ⟨false, false, false, false, false, false⟩
def Fixes.all  : Fixes := ⟨true, true, true, true, true, true⟩

/-- pdsh / pdcp / rpdcp (argv[0]); pdcp and rpdcp are the PCP personality -/
inductive Pers where
  | dsh | pdcp | rpdcp
  deriving DecidableEq, Repr

def Pers.isPcp : Pers → Bool
  | .dsh => false
  | _ => true

/-- what opt_default finds outside the program text -/
structure Defaults where
  luser       : Str          -- getpwuid (getuid ())->pw_name
  loginMax    : Nat          -- sysconf (_SC_LOGIN_NAME_MAX)
  progPath    : Str          -- _find_path (argv[0])
  rcmdModules : List Str     -- the rcmd modules loaded for this personality
  modOpts     : Str          -- getopt text of the options the initialised modules registered ("" in the shipped
                             -- build: rsh and exec provide none; "ag:" with the test modules A/B and G)
  deriving Repr

def DFLT_FANOUT : Int := (Gen.DFLT_FANOUT : Int)
def CONNECT_TIMEOUT : Int := (Gen.CONNECT_TIMEOUT : Int)

/-- the getopt strings: private macros of opt.c, read off its source text on every run (harness/consts/optable.c) -/
def GEN_ARGS : Str := Gen.OT_GEN_ARGS.toList
def DSH_ARGS : Str := Gen.OT_DSH_ARGS.toList
def PCP_ARGS : Str := Gen.OT_PCP_ARGS.toList

def optstring (p : Pers) : Str := GEN_ARGS ++ (if p.isPcp then PCP_ARGS else DSH_ARGS)

/-- the option string of opt_args: the built-in one plus what the modules registered (opt_register appends) -/
def fullString (d : Defaults) (p : Pers) : Str := optstring p ++ d.modOpts

/-- the option string opt_args_early runs with: it is called BEFORE mod_load_modules -/
def earlyString (fx : Fixes) (d : Defaults) (p : Pers) : Str := if fx.early then fullString d p else optstring p

/-- the part of opt_t this property is about (plus the flags needed to know what main does next) -/
structure Cfg where
  fanout         : Int
  connectTimeout : Int
  commandTimeout : Int
  ruser          : Str
  rcmdName       : Option Str
  miscModules    : Option Str
  remotePath     : Str
  infoOnly       : Bool
  retRemoteRc    : Bool
  killOnFail     : Bool
  hasWcoll       : Bool
  targetIsDir    : Bool
  pcpServer      : Bool
  pcpClient      : Bool
  deriving DecidableEq, Repr

/-- `.exit n`: the process ends inside main with status n before dsh() is entered (nothing is contacted) -/
inductive Result where
  | exit (code : Nat)
  | ok (cfg : Cfg)
  deriving DecidableEq, Repr

/-! ### numeric conversion -/

/-- `string_to_int (val, &i)`: `none` = it returns -1 -/
def stringToInt (fx : Fixes) (s : Str) : Option Int :=
  if fx.d5 then
    let r := CInt.strtol s
    if r.erange || r.noconv || r.rest ≠ [] || r.value < CInt.INT_MIN || r.value > CInt.INT_MAX then none
    else some r.value
  else
    let r := CInt.strtoul s
    if r.erange || r.rest ≠ [] then none else some (CInt.toInt32 (r.value : Int))

/-- conversion of the argument of -t / -u: `none` = errx (only in the repaired variant) -/
def timeoutArg (fx : Fixes) (s : Str) : Option Int :=
  if fx.atoi then stringToInt fx s else some (CInt.atoi s)

/-! ### opt_default, opt_env -/

def optDefault (d : Defaults) : Cfg :=
  { fanout := DFLT_FANOUT, connectTimeout := CONNECT_TIMEOUT, commandTimeout := 0, ruser := d.luser,
    rcmdName := none, miscModules := none, remotePath := d.progPath, infoOnly := false,
    retRemoteRc := false, killOnFail := false, hasWcoll := false, targetIsDir := false,
    pcpServer := false, pcpClient := false }

abbrev Env := List (Str × Str)

def getenv (env : Env) (name : String) : Option Str := (env.find? (·.1 = name.toList)).map (·.2)

/-- one numeric variable: absent = keep, malformed = errx (exit 1) -/
def envNum (fx : Fixes) (env : Env) (name : String) (cur : Int) : Except Nat Int :=
  match getenv env name with
  | none => .ok cur
  | some t =>
    match stringToInt fx t with
    | some v => .ok v
    | none => .error 1

def optEnv (fx : Fixes) (p : Pers) (env : Env) (c : Cfg) : Except Nat Cfg := do
  let f ← envNum fx env "FANOUT" c.fanout
  let ct ← envNum fx env "PDSH_CONNECT_TIMEOUT" c.connectTimeout
  let ut ← envNum fx env "PDSH_COMMAND_TIMEOUT" c.commandTimeout
  pure { c with
    fanout := f, connectTimeout := ct, commandTimeout := ut,
    rcmdName := (getenv env "PDSH_RCMD_TYPE") <|> c.rcmdName,
    miscModules := (getenv env "PDSH_MISC_MODULES") <|> c.miscModules,
    remotePath := if p.isPcp then (getenv env "PDSH_REMOTE_PDCP_PATH").getD c.remotePath else c.remotePath }

/-! ### getopt -/

inductive Tok where
  | opt (c : Char) (arg : Option Str)     -- a recognised option
  | bad                                   -- getopt returned '?': unknown option or missing argument
  deriving DecidableEq, Repr

/-- `strchr (optstring, c)` and whether a ':' follows; `none` = not an option character -/
def takesArg : Str → Char → Option Bool
  | [], _ => none
  | x :: rest, c => if x = c then some (rest.head? = some ':') else takesArg rest c

def optKind (os : Str) (c : Char) : Option Bool :=
  if c = ':' || c = ';' then none else takesArg os c

/-- the characters of one `-xyz` word; `next` = the following argv element; returns the tokens and
    whether `next` was consumed as an option argument -/
def cluster (os : Str) : Str → Option Str → List Tok × Bool
  | [], _ => ([], false)
  | c :: rest, next =>
    match optKind os c with
    | none => let r := cluster os rest next; (Tok.bad :: r.1, r.2)
    | some false => let r := cluster os rest next; (Tok.opt c none :: r.1, r.2)
    | some true =>
      if rest ≠ [] then ([Tok.opt c (some rest)], false)
      else
        match next with
        | some a => ([Tok.opt c (some a)], true)
        | none => ([Tok.bad], false)

/-- all of getopt's answers and the remaining operands; `skip` = the head was an option argument -/
def getoptGo (os : Str) : Bool → List Str → List Tok × List Str
  | _, [] => ([], [])
  | true, _ :: rest => getoptGo os false rest
  | false, a :: rest =>
    if a = ['-', '-'] then ([], rest)
    else
      match a with
      | '-' :: c :: cs =>
        let r := cluster os (c :: cs) rest.head?
        let g := getoptGo os r.2 rest
        (r.1 ++ g.1, g.2)
      | _ => ([], a :: rest)

def getopt (os : Str) (argv : List Str) : List Tok × List Str := getoptGo os false argv

/-! ### opt_args_early -/

def earlyTok (c : Cfg) : Tok → Cfg
  | .opt ch arg => if ch = 'M' then { c with miscModules := some (arg.getD []) } else c
  | .bad => c

def optArgsEarly (c : Cfg) (toks : List Tok) : Cfg := toks.foldl earlyTok c

/-! ### opt_args -/

inductive Flag where
  | S | k | q | w | y | z | Z
  deriving DecidableEq, Repr

/-- what one iteration of the `switch (c)` of opt_args does to the option record -/
inductive Act where
  | keep
  | exit (n : Nat)              -- the process exits with n right there
  | fanout (v : Int)
  | ctmo (v : Int)
  | utmo (v : Int)
  | ruser (s : Str)
  | rcmd (s : Str)
  | path (s : Str)
  | flag (f : Flag)
  deriving DecidableEq, Repr

/-- the `case` an option character selects in the `switch (c)` of opt_args -/
inductive Case where
  | keep                 -- break without touching the settings (M N x b r p K)
  | exit0                -- L V T
  | usage                -- h, and `default:` for characters no module handles (c I)
  | rcmd | fanout | ctmo | utmo | ruser | path
  | flag (f : Flag)
  | wcoll                -- 'w': wcoll_args_process
  | dbg                  -- 'd': there is no `case 'd'`
  deriving DecidableEq, Repr

def caseOf (ch : Char) : Case :=
  match ch with
  | 'M' => .keep            -- handled in opt_args_early
  | 'N' => .keep
  | 'L' => .exit0           -- mod_list_module_info (); exit (0)
  | 'R' => .rcmd
  | 'S' => .flag .S
  | 'f' => .fanout
  | 'w' => .wcoll
  | 'x' => .keep
  | 'q' => .flag .q
  | 't' => .ctmo
  | 'u' => .utmo
  | 'b' => .keep
  | 'l' => .ruser
  | 'r' => .keep
  | 'p' => .keep
  | 'e' => .path            -- only in the PCP option string
  | 'V' => .exit0           -- _show_version (); exit (0)
  | 'T' => .exit0           -- testcase (): exit (0)   (never generated)
  | 'Q' => .flag .q
  | 'h' => .usage
  | 'K' => .keep
  | 'y' => .flag .y
  | 'z' => .flag .z
  | 'Z' => .flag .Z
  | 'k' => .flag .k
  | 'd' => .dbg
  | _ => .usage             -- 'c', 'I': in the option string, handled by no module

/-! #### -w words: `[rcmd_type:][user@]hosts` (wcoll_args_process, get_host_rcmd_type) -/

/-- `list_split (",", args)`: commas inside brackets do not separate, empty pieces are dropped -/
def splitWordsAux (cur : Str) (level : Int) : Str → List Str
  | [] => if cur = [] then [] else [cur.reverse]
  | c :: s =>
    if c = ',' ∧ level = 0 then (if cur = [] then splitWordsAux [] 0 s else cur.reverse :: splitWordsAux [] 0 s)
    else splitWordsAux (c :: cur) (if c = '[' then level + 1 else if c = ']' then level - 1 else level) s

def splitWords (s : Str) : List Str := splitWordsAux [] 0 s

def isBlank (c : Char) : Bool := CInt.isSpace c

/-- `[rcmd_type:][user@]hosts` -/
structure HostSpec where
  ty    : Option Str
  user  : Option Str
  hosts : Str
  deriving DecidableEq, Repr

/-- get_host_rcmd_type: `none` = errx ("not of form [rcmd_type:][user@]hosts": the first ':' after the first '@') -/
def parseHostSpec (p : Str) : Option HostSpec :=
  let ip := p.findIdx? (· = ':')
  let iq := p.findIdx? (· = '@')
  let bad := match ip, iq with | some i, some j => decide (i > j) | _, _ => false
  if bad then none
  else
    -- a single ':' (not "::") ends the transport name
    let ty : Option Str := match ip with
      | some i => if (p.drop (i + 1)).head? = some ':' then none else some (p.take i)
      | none => none
    let rest := match ty, ip with | some _, some i => p.drop (i + 1) | _, _ => p
    some { ty := ty, user := (rest.findIdx? (· = '@')).map rest.take,
           hosts := match rest.findIdx? (· = '@') with | some j => rest.drop (j + 1) | none => rest }

/-- words that carry no prefixes: excluded (`-...`), `^file`, `/regex/` (outside this model's domain) -/
def specialWord (w : Str) : Option Bool :=
  match w with
  | '-' :: _ => some false
  | _ =>
    match w.dropWhile isBlank with
    | '^' :: _ => some true
    | '/' :: _ => some false
    | _ => none

/-- one word of a -w argument: `none` = errx (malformed prefix, unknown per-host transport, repaired: over-long
    user), `some b` = accepted, b = it names targets -/
def wcollWord (fx : Fixes) (d : Defaults) (w : Str) : Option Bool :=
  match specialWord w with
  | some b => some b
  | none =>
    match parseHostSpec (w.dropWhile isBlank) with
    | none => none
    | some hs =>
      if (match hs.ty with | some t => !(d.rcmdModules.contains t) | none => false) then none
      else if fx.wuser && (match hs.user with | some u => decide (u.length > d.loginMax) | none => false) then none
      else some (hs.hosts ≠ [])

/-- a whole -w argument, word by word, stopping at the first errx -/
def wcollArg (fx : Fixes) (d : Defaults) (a : Str) : Option Bool :=
  (splitWords a).foldl (fun acc w => match acc with
    | none => none
    | some b => (wcollWord fx d w).map (b || ·)) (some false)

/-- an option character registered by a module -/
def modOpt (d : Defaults) (ch : Char) : Bool := ch ≠ ':' && d.modOpts.contains ch

/-- the `switch (c)` of opt_args -/
def action (fx : Fixes) (d : Defaults) : Tok → Act
  | .bad => .exit 1                                    -- default: mod_process_opt < 0 -> _usage -> exit (1)
  | .opt ch arg =>
    let a := arg.getD []
    match caseOf ch with
    | .keep => .keep
    | .exit0 => .exit 0
    | .usage => if modOpt d ch then .keep else .exit 1   -- default: mod_process_opt: a module's handler, or _usage
    | .rcmd => .rcmd a
    | .fanout => (stringToInt fx a).elim (.exit 1) .fanout          -- errx ("Invalid fanout")
    | .ctmo => (timeoutArg fx a).elim (.exit 1) .ctmo
    | .utmo => (timeoutArg fx a).elim (.exit 1) .utmo
    | .ruser => if a.length > d.loginMax then .exit 1 else .ruser a   -- copy_username: errx
    | .path => .path a
    | .flag f => .flag f
    | .wcoll => (wcollArg fx d a).elim (.exit 1) fun named => if named then .flag .w else .keep
    | .dbg => if fx.dopt then .keep else .exit 1       -- default: -> _usage

def setFlag (c : Cfg) : Flag → Cfg
  | .S => { c with retRemoteRc := true }
  | .k => { c with killOnFail := true }
  | .q => { c with infoOnly := true }
  | .w => { c with hasWcoll := true }
  | .y => { c with targetIsDir := true }
  | .z => { c with pcpServer := true }
  | .Z => { c with pcpClient := true }

def perform (c : Cfg) : Act → Except Nat Cfg
  | .keep => .ok c
  | .exit n => .error n
  | .fanout v => .ok { c with fanout := v }
  | .ctmo v => .ok { c with connectTimeout := v }
  | .utmo v => .ok { c with commandTimeout := v }
  | .ruser s => .ok { c with ruser := s }
  | .rcmd s => .ok { c with rcmdName := some s }
  | .path s => .ok { c with remotePath := s }
  | .flag f => .ok (setFlag c f)

def applyTok (fx : Fixes) (d : Defaults) (_p : Pers) (c : Cfg) (t : Tok) : Except Nat Cfg :=
  perform c (action fx d t)

def applyToks (fx : Fixes) (d : Defaults) (p : Pers) : Cfg → List Tok → Except Nat Cfg
  | c, [] => .ok c
  | c, t :: ts =>
    match applyTok fx d p c t with
    | .error n => .error n
    | .ok c' => applyToks fx d p c' ts

/-- `rcmd_get_default_module`: the first entry of the ranking that is loaded -/
def defaultRcmd (d : Defaults) : Option Str :=
  (Gen.RCMD_RANK.map String.toList).find? (· ∈ d.rcmdModules)

/-- after the loop: default module, `rcmd_register_default_rcmd` (exit 1 when there is no such module) -/
def postArgs (d : Defaults) (c : Cfg) : Except Nat Cfg :=
  let name := c.rcmdName <|> defaultRcmd d
  match name with
  | none => .ok c
  | some n => if n ∈ d.rcmdModules then .ok { c with rcmdName := some n } else .error 1

/-! ### opt_verify -/

def execLoaded (d : Defaults) : Bool := "exec".toList ∈ d.rcmdModules

/-- `nops` = number of operands left after the options; the named files are assumed to exist
    (regular source files; for rpdcp a destination directory) -/
def optVerifyPlain (fx : Fixes) (d : Defaults) (p : Pers) (c : Cfg) (nops : Nat) : Bool :=
  -- mod_postop: exec refuses a connect time-out
  let v1 := !(execLoaded d && c.rcmdName = some "exec".toList && c.connectTimeout ≠ CONNECT_TIMEOUT)
  let plain := !c.pcpServer && !c.pcpClient
  let v2 := !plain || (c.hasWcoll && c.connectTimeout ≥ 0 && c.commandTimeout ≥ 0 && (!fx.d4 || c.fanout ≥ 1))
  let v3 := !(p.isPcp && plain) || (nops ≥ 2 && !c.targetIsDir)
  v1 && v2 && v3

/-- the undocumented pdcp server (-z) / client (-Z) modes: the PCP sanity checks of opt_verify on the operand count
    (server: exactly the output file, not rpdcp; client: source files and the client host; never both) -/
def optVerifyModes (p : Pers) (c : Cfg) (nops : Nat) : Bool :=
  !(p.isPcp && c.pcpServer && c.pcpClient) &&
  (!(p.isPcp && c.pcpServer) || (nops = 1 && p ≠ .rpdcp)) &&
  (!(p.isPcp && c.pcpClient) || nops ≥ 2)

def optVerify (fx : Fixes) (d : Defaults) (p : Pers) (c : Cfg) (nops : Nat) : Bool :=
  optVerifyPlain fx d p c nops && optVerifyModes p c nops

theorem optVerify_plain (fx : Fixes) (d : Defaults) (p : Pers) (c : Cfg) (nops : Nat)
    (h1 : c.pcpServer = false) (h2 : c.pcpClient = false) :
    optVerify fx d p c nops = optVerifyPlain fx d p c nops := by
  simp [optVerify, optVerifyModes, h1, h2]

/-! ### main -/

def effective (fx : Fixes) (d : Defaults) (p : Pers) (env : Env) (argv : List Str) : Result :=
  match optEnv fx p env (optDefault d) with
  | .error n => .exit n
  | .ok c1 =>
    let g := getopt (fullString d p) argv
    let c2 := optArgsEarly c1 (getopt (earlyString fx d p) argv).1
    match applyToks fx d p c2 g.1 with
    | .error n => .exit n
    | .ok c3 =>
      match postArgs d c3 with
      | .error n => .exit n
      | .ok c4 => if optVerify fx d p c4 g.2.length then .ok c4 else .exit 1

/-- what an accepted DSH configuration with a command does next: `dsh()`'s dispatcher waits on the
    condition variable when `fanout == threadcount`; with fanout 0 that is before the first thread exists,
    and nobody will ever signal: `none` = blocks forever -/
def runTerminates (c : Cfg) : Bool := c.fanout ≠ 0

/-! ### what main does with an accepted configuration: the remote command, the copy, the prompt loop -/

/-- the `xstrcat` loop at the end of opt_args (DSH): the remaining argv words joined by single blanks -/
def joinWords : List Str → Str
  | [] => []
  | [w] => w
  | w :: w' :: rest => w ++ ' ' :: joinWords (w' :: rest)

/-- `opt->cmd`: stays NULL when no word is left after the options -/
def assembleCmd (operands : List Str) : Option Str :=
  if operands = [] then none else some (joinWords operands)

/-- PCP: all remaining words but the last are the source files, the last one is the destination
    (`infile_names`, `outfile_name`) — or, in the client mode pdcp starts on the remote side (-Z), the host to
    connect back to (`pcp_client_host`; no destination then) -/
def pcpFiles (client : Bool) (operands : List Str) : List Str × Option Str :=
  (operands.dropLast, if client then none else operands.getLast?)

/-- what main() does after opt_verify returned true -/
inductive Next where
  | info                          -- -q / -Q: opt_list; nothing is contacted
  | pcpServer | pcpClient         -- the modes pdcp starts itself on the remote side (-z / -Z)
  | run (cmd : Option Str)        -- dsh (): `some cmd` = the remote command of a DSH run, `none` = a PCP copy
  | interactive                   -- DSH without a command: the prompt loop reads commands from stdin
  deriving DecidableEq, Repr

/-- the `if (opt.info_only) ... else if ... ` chain of main() -/
def plan (p : Pers) (c : Cfg) (operands : List Str) : Next :=
  if c.infoOnly then .info
  else if p.isPcp && c.pcpServer then .pcpServer
  else if p.isPcp && c.pcpClient then .pcpClient
  else if p.isPcp then .run none
  else
    match assembleCmd operands with
    | some cmd => .run (some cmd)
    | none => .interactive

/-- main() as a whole, from the environment and argv to what is started: `.error n` = the process exits with n
    before anything is contacted (opt_env, opt_args or opt_verify refused) -/
def mainPlan (fx : Fixes) (d : Defaults) (p : Pers) (env : Env) (argv : List Str) : Except Nat (Cfg × Next) :=
  match effective fx d p env argv with
  | .exit n => .error n
  | .ok c => .ok (c, plan p c (getopt (fullString d p) argv).2)

/-- which of the conflicting misc modules A and B of tests/test-modules gets initialised:
    `_mod_initialize_modules_by_name` walks the requested names in order, then the sorted module list -/
def splitOnComma (s : Str) : List Str := (String.ofList s |>.splitOn ",").map String.toList

def miscWinner (c : Cfg) : Str :=
  match c.miscModules with
  | none => ['A']
  | some names => ((splitOnComma names).find? (fun n => n = ['A'] || n = ['B'])).getD ['A']

end PdshVerif.Opt
