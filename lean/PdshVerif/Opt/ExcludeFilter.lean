/-
  `hostlist_filter_regex` (C02): iterate + remove = filter, for the repaired `hostlist_remove`
  (D19 `cfg.fixRemoveDepth`).  Rests on Hostlist/LemmasIterEdit.lean.
-/
import PdshVerif.Opt.ExcludeLemmas
import PdshVerif.Hostlist.LemmasIterEdit

namespace PdshVerif.Opt.Exclude
open PdshVerif.Hostlist

/-- does the filter keep the host? (`m` = the regex oracle for one pattern) -/
def keepOf (m : Str → Option Bool) (exclude : Bool) (h : Str) : Bool :=
  match m h with
  | some matched => !((exclude && matched) || (!exclude && !matched))
  | none => true

/-- the denoted hosts, cut at the iterator's position -/
theorem hosts_split (L : List HRange) (i k : Nat) (r : HRange) (hr : L[i]? = some r) :
    hostsL L = hostsL (L.take i) ++ r.hosts.take k ++ remaining L i k := by
  obtain ⟨A, B, hL, hA⟩ : ∃ A B, L = A ++ r :: B ∧ A.length = i :=
    ⟨L.take i, L.drop (i + 1), split_one L i r hr, by
      rw [List.length_take]; have := (List.getElem?_eq_some_iff.mp hr).1; omega⟩
  subst hL; subst hA
  rw [remaining_mid, List.take_left' rfl, hostsL_append, hostsL_cons]
  simp only [List.append_assoc]
  congr 1
  rw [← List.append_assoc, List.take_append_drop]

/-- the state `hostlist_filter_regex` works on: one iterator (slot 0), everything in order -/
structure FilterInv (P : HRange → Prop) (e : EL) (i k : Nat) : Prop where
  ids : e.IdsOk
  good : e.Good
  full : ∀ q ∈ e.ranges, P q
  coh : Coh e i k
  bound : ∀ q, e.ranges[i]? = some q → k ≤ q.hosts.length

/-- the loop of `hostlist_filter_regex` from any position: what was handed out and kept stays, the
    rest is filtered -/
theorem filterLoop_spec (cfg : Cfg) (hfix : cfg.fixRemoveDepth = true) (P : HRange → Prop)
    (hmono : ∀ r r' : HRange, P r → r'.width = r.width → r'.hi ≤ r.hi → r'.single = r.single → P r')
    (hPF : ∀ r, P r → r.PrintsFull cfg) (m : Str → Option Bool) (exclude : Bool)
    (pat : Str) : ∀ (fuel : Nat) (e : EL) (kept : List Str) (i k : Nat), FilterInv P e i k →
    e.hosts = kept ++ remaining e.ranges i k → (∀ h ∈ remaining e.ranges i k, (m h).isSome = true) →
    (remaining e.ranges i k).length < fuel →
    ∃ e' it, filterLoop cfg m exclude pat fuel e = .ok e' ∧
      e'.hosts = kept ++ (remaining e.ranges i k).filter (keepOf m exclude) ∧
      e'.IdsOk ∧ e'.Good ∧ (∀ q ∈ e'.ranges, P q) ∧ e'.its = [(0, it)]
  | 0, _, _, _, _, _, _, _, hlt => by omega
  | fuel + 1, e, kept, i, k, hinv, hhosts, hm, hlt => by
    rcases itNext_spec cfg e hinv.ids hinv.good.1 (fun q hq => hPF q (hinv.full q hq)) i k hinv.coh with
      ⟨hrem, i0, k0, _, hnx⟩ | ⟨x, xs, i', k', r', hrem, hnx, hrem', hr', hk1, hk', hx⟩
    · -- the end of the list
      refine ⟨{ e with its := [(0, ⟨(i0 : Int), (k0 : Int) - 1, e.hrAt (i0 : Int)⟩)] }, _, ?_, ?_, hinv.ids, hinv.good,
        hinv.full, rfl⟩
      · unfold filterLoop; rw [hnx]
      · rw [hrem] at hhosts ⊢
        exact hhosts
    · have hmx : (m x).isSome = true := hm x (by rw [hrem]; simp)
      obtain ⟨b, hb⟩ := Option.isSome_iff_exists.mp hmx
      -- the list after `hostlist_next`: same records, iterator behind x
      have hinv1 : FilterInv P { e with its := [(0, ⟨(i' : Int), (k' : Int) - 1, e.hrAt (i' : Int)⟩)] } i' k' :=
        ⟨hinv.ids, hinv.good, hinv.full, rfl, fun q hq => by
          have : e.ranges[i']? = some q := hq
          rw [hr'] at this
          simp only [Option.some.injEq] at this
          rw [← this]; exact hk'⟩
      have hxs : xs.length < fuel := by rw [hrem] at hlt; simp at hlt; omega
      have hmxs : ∀ h ∈ xs, (m h).isSome = true := fun h hh => hm h (by rw [hrem]; simp [hh])
      unfold filterLoop
      rw [hnx]
      simp only [hb]
      by_cases hrm : ((exclude && b) || (!exclude && !b)) = true
      · -- x goes
        simp only [hrm, ↓reduceIte]
        obtain ⟨e2, i2, k2, hrmv, hid2, hg2, hf2, hc2, hb2, hrem2, hh2⟩ :=
          itRemove_spec cfg hfix P hmono _ hinv1.ids hinv1.good hinv1.full i' k' hinv1.coh r' hr' hk1 hk'
        rw [hrmv]
        simp only
        have hsplit := hosts_split e.ranges i' k' r' hr'
        have htk : r'.hosts.take k' = r'.hosts.take (k' - 1) ++ [x] := by
          have hlt' : k' - 1 < r'.hosts.length := by omega
          have hgx : r'.hosts[k' - 1] = x := by
            have := List.getElem?_eq_getElem hlt'
            rw [this] at hx
            exact Option.some.inj hx
          have : k' = (k' - 1) + 1 := by omega
          conv => lhs; rw [this]
          rw [List.take_add_one, List.getElem?_eq_getElem hlt', hgx]
          rfl
        have hkept : kept = hostsL (e.ranges.take i') ++ r'.hosts.take (k' - 1) := by
          have h1 : e.hosts = hostsL e.ranges := rfl
          rw [h1, hsplit, htk, hrem', hrem] at hhosts
          have : (hostsL (e.ranges.take i') ++ r'.hosts.take (k' - 1)) ++ (x :: xs) = kept ++ (x :: xs) := by
            rw [← hhosts]; simp
          exact (List.append_cancel_right this).symm
        have hh2' : e2.hosts = kept ++ remaining e2.ranges i2 k2 := by
          rw [hh2, hrem2, hkept]
          rfl
        have hremxs : remaining e2.ranges i2 k2 = xs := by rw [hrem2]; exact hrem'
        obtain ⟨e', it, hl, hh', h3, h4, h5, h6⟩ := filterLoop_spec cfg hfix P hmono hPF m exclude pat fuel e2 kept i2 k2
          ⟨hid2, hg2, hf2, hc2, hb2⟩ hh2' (by rw [hremxs]; exact hmxs) (by rw [hremxs]; exact hxs)
        refine ⟨e', it, hl, ?_, h3, h4, h5, h6⟩
        rw [hh', hremxs, hrem]
        have : keepOf m exclude x = false := by simp [keepOf, hb, hrm]
        simp [List.filter_cons, this]
      · -- x stays
        simp only [hrm, Bool.false_eq_true, ↓reduceIte]
        have hh1 : EL.hosts { e with its := [(0, ⟨(i' : Int), (k' : Int) - 1, e.hrAt (i' : Int)⟩)] } =
            (kept ++ [x]) ++ remaining e.ranges i' k' := by
          show e.hosts = _
          rw [hhosts, hrem, hrem']; simp
        obtain ⟨e', it, hl, hh', h3, h4, h5, h6⟩ := filterLoop_spec cfg hfix P hmono hPF m exclude pat fuel _ (kept ++ [x]) i' k'
          hinv1 hh1 (by show ∀ h ∈ remaining e.ranges i' k', _; rw [hrem']; exact hmxs)
          (by show (remaining e.ranges i' k').length < fuel; rw [hrem']; exact hxs)
        refine ⟨e', it, hl, ?_, h3, h4, h5, h6⟩
        rw [hh']
        show (kept ++ [x]) ++ (remaining e.ranges i' k').filter _ = _
        rw [hrem', hrem]
        have : keepOf m exclude x = true := by
          have hrm' : ((exclude && b) || (!exclude && !b)) = false := by simpa using hrm
          simp [keepOf, hb, hrm']
        simp [List.filter_cons, this]

/-- FILTER (repaired D19): `hostlist_filter_regex` leaves exactly the hosts the filter keeps, in
    their order and multiplicity (`m` answers for every host of the list) -/
theorem filterRegex_spec (cfg : Cfg) (hfix : cfg.fixRemoveDepth = true) (P : HRange → Prop)
    (hmono : ∀ r r' : HRange, P r → r'.width = r.width → r'.hi ≤ r.hi → r'.single = r.single → P r')
    (hPF : ∀ r, P r → r.PrintsFull cfg) (m : Str → Option Bool) (exclude : Bool)
    (pat : Str) (e : EL) (hid : e.IdsOk) (hg : e.Good) (hf : ∀ q ∈ e.ranges, P q) (hits : e.its = [])
    (hm : ∀ h ∈ e.hosts, (m h).isSome = true) :
    ∃ e', filterRegex cfg m exclude pat e = .ok e' ∧ e'.hosts = e.hosts.filter (keepOf m exclude) ∧
      e'.IdsOk ∧ e'.Good ∧ (∀ q ∈ e'.ranges, P q) ∧ e'.its = [] := by
  have hrem0 : remaining (itNew e 0).ranges 0 0 = e.hosts := remaining_zero _
  have hlen : e.hosts.length = e.nhosts.toNat := by have := hg.2; omega
  obtain ⟨e1, it, hl, hh, h3, h4, h5, h6⟩ := filterLoop_spec cfg hfix P hmono hPF m exclude pat
    ((e.nhosts.toNat + 2) * (e.nhosts.toNat + 2)) (itNew e 0) [] 0 0
    ⟨hid, hg, hf, coh_new e hits, fun _ _ => Nat.zero_le _⟩ (by rw [hrem0]; rfl) (by rw [hrem0]; exact hm)
    (by
      rw [hrem0, hlen]
      have : e.nhosts.toNat + 2 ≤ (e.nhosts.toNat + 2) * (e.nhosts.toNat + 2) := Nat.le_mul_self _
      omega)
  unfold filterRegex
  simp only
  rw [hl]
  refine ⟨itFree e1 0, rfl, ?_, h3, h4, h5, ?_⟩
  · show e1.hosts = _
    rw [hh, hrem0]; rfl
  · simp [itFree, h6]

/-- does the host pass every filter of `regex_list`? -/
def keepAll (env : Env) (rs : List (Bool × Str)) (h : Str) : Bool :=
  rs.all fun p => keepOf (env.rematch p.2) p.1 h

/-- `wcoll_apply_regex` (repaired D19): exactly the hosts that pass every filter stay -/
theorem applyRegex_spec (cfg : Cfg) (hfix : cfg.fixRemoveDepth = true) (P : HRange → Prop)
    (hmono : ∀ r r' : HRange, P r → r'.width = r.width → r'.hi ≤ r.hi → r'.single = r.single → P r')
    (hPF : ∀ r, P r → r.PrintsFull cfg) (env : Env) :
    ∀ (rs : List (Bool × Str)) (e : EL), e.IdsOk → e.Good → (∀ q ∈ e.ranges, P q) → e.its = [] →
    (∀ p ∈ rs, ∀ h ∈ e.hosts, (env.rematch p.2 h).isSome = true) →
    ∃ e', applyRegex cfg env rs e = .ok e' ∧ e'.hosts = e.hosts.filter (keepAll env rs) ∧
      e'.IdsOk ∧ e'.Good ∧ (∀ q ∈ e'.ranges, P q) ∧ e'.its = []
  | [], e, hid, hg, hf, hits, _ =>
    ⟨e, rfl, (List.filter_eq_self.mpr (by intro a _; rfl)).symm, hid, hg, hf, hits⟩
  | (ex, pat) :: rs, e, hid, hg, hf, hits, hm => by
    obtain ⟨e1, h1, hh1, hid1, hg1, hf1, hits1⟩ := filterRegex_spec cfg hfix P hmono hPF (env.rematch pat) ex pat e hid hg hf hits
      (fun h hh => hm (ex, pat) (by simp) h hh)
    obtain ⟨e2, h2, hh2, hid2, hg2, hf2, hits2⟩ := applyRegex_spec cfg hfix P hmono hPF env rs e1 hid1 hg1 hf1 hits1
      (fun p hp h hh => hm p (by simp [hp]) h (by rw [hh1] at hh; exact (List.mem_filter.mp hh).1))
    refine ⟨e2, ?_, ?_, hid2, hg2, hf2, hits2⟩
    · simp only [applyRegex, h1, h2]
    · rw [hh2, hh1, List.filter_filter]
      apply List.filter_congr
      intro h _
      simp only [keepAll, List.all_cons, Bool.and_comm]

end PdshVerif.Opt.Exclude
