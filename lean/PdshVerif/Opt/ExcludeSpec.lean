/-
  C02 specification (policy-free): the hosts pdsh may contact are the assembled targets, minus every
  occurrence of every host named by an exclusion, filtered by the regular expressions — order and
  multiplicity of the survivors kept, whatever the order of the options.

  Written from the property text only: names are what the C01 reading of an expression denotes
  (`Hostlist.Spec.classify`, two bracket levels); nothing here looks at range records, iterators or
  buffers.
-/
import PdshVerif.Hostlist.Spec

namespace PdshVerif.Opt.ExcludeSpec
open PdshVerif.Hostlist.Spec

/-- what the user wrote, by meaning -/
inductive Item where
  | tgt (expr : Str)      -- a target expression
  | xcl (expr : Str)      -- an excluded expression (-x, or a `-` word)
  | tfile (name : Str)    -- ^file of targets
  | xfile (name : Str)    -- ^file of exclusions
  | keep (pat : Str)      -- /re/ : only matching hosts stay
  | drop (pat : Str)      -- -/re/ : matching hosts go
  deriving Repr, DecidableEq

structure Env where
  /-- the expressions a file holds, one per line -/
  files : List (Str × List Str)
  /-- does the POSIX extended regex match the name? (`none`: not in the oracle's table) -/
  rematch : Str → Str → Option Bool

/-- the names an expression denotes; `none`: not a well-formed expression (outside the property) -/
def names (s : Str) : Option (List Str) :=
  let v := classify s
  if v.problems.isEmpty && v.problems₂.isEmpty && !v.note64 then some v.hosts₂ else none

def namesAll : List Str → Option (List Str)
  | [] => some []
  | e :: es =>
    match names e, namesAll es with
    | some a, some b => some (a ++ b)
    | _, _ => none

def fileNames (env : Env) (f : Str) : Option (List Str) :=
  match env.files.lookup f with
  | some es => namesAll es
  | none => none

/-- the names every item contributes, concatenated in command-line order (`none`: some item is
    outside the property) -/
def collect (f : Item → Option (List Str)) : List Item → Option (List Str)
  | [] => some []
  | it :: its =>
    match f it, collect f its with
    | some a, some b => some (a ++ b)
    | _, _ => none

/-- what a target item contributes -/
def tgtNames (env : Env) : Item → Option (List Str)
  | .tgt e => names e
  | .tfile f => fileNames env f
  | _ => some []

/-- what an exclusion item names -/
def xclNames (env : Env) : Item → Option (List Str)
  | .xcl e => names e
  | .xfile f => fileNames env f
  | _ => some []

/-- the assembled target sequence, in command-line order -/
def assembled (env : Env) (items : List Item) : Option (List Str) := collect (tgtNames env) items

/-- every name some exclusion denotes -/
def excluded (env : Env) (items : List Item) : Option (List Str) := collect (xclNames env) items

/-- one filter's verdict on a host (`none`: the oracle's table lacks the pair) -/
def passOne (env : Env) (h : Str) : Item → Option Bool
  | .keep p => env.rematch p h
  | .drop p => (env.rematch p h).map (!·)
  | _ => some true

/-- does the host pass every filter? -/
def passes (env : Env) (h : Str) : List Item → Option Bool
  | [] => some true
  | it :: its =>
    match passOne env h it, passes env h its with
    | some a, some b => some (a && b)
    | _, _ => none

def filterAll (env : Env) (items : List Item) : List Str → Option (List Str)
  | [] => some []
  | h :: hs =>
    match passes env h items, filterAll env items hs with
    | some true, some r => some (h :: r)
    | some false, some r => some r
    | _, _ => none

inductive Verdict where
  | hosts (hs : List Str)
  | outside (why : String)
  deriving Repr, DecidableEq

/-- THE SPECIFICATION -/
def final (env : Env) (items : List Item) : Verdict :=
  match assembled env items, excluded env items with
  | some a, some x =>
    match filterAll env items (a.filter fun h => !x.contains h) with
    | some r => .hosts r
    | none => .outside "regex-table"
  | _, _ => .outside "expression"

end PdshVerif.Opt.ExcludeSpec
